/-
  Props/C11.lean — SSKR (`src/extension/sskr.rs`).

  "An envelope split into SSKR shares can be recovered from a set of share envelopes exactly
  when that set satisfies the split's group-and-member threshold policy; the recovered
  envelope's subject is the original one; any set below the quorum yields an error
  (`InvalidShares`) rather than a wrong envelope, and share envelopes from different splits
  mixed together are sorted by identifier and recovered or refused accordingly."

  Model: `Model/Recipient.lean` (`addSskrShare`, `sskrSplit`, `sskrSharesIn`, `sskrJoin`).
  The shares that `sskr_generate_using` makes are explicit arguments; the dependency enters
  as `S : Sskr` (`combine`, `identifier`) with the law `SskrLaws S shares quorum secret ident`
  ("`shares` are the shares of one split of `secret` whose policy is `quorum`"), satisfied
  by the toy instance `ToyRec.sskr` (`ToyRec.sskr_laws`).  Vocabulary
  (`Lemmas/RecipientLemmas.lean`):
  * `RecL.shareEnv h e s` — the envelope `add_sskr_share` makes from `e` and the share `s`;
  * `Obs.encryptSubjectSpec A ck n e` — `e` with its subject encrypted under the content key
    (what `sskr_split` is applied to);
  * `RecL.shareAssertion h s` — the assertion `'sskrShare': s`.

  The `HashMap` in which the Rust groups the shares by identifier has an unspecified
  iteration order; `c11_group_order` shows that no outcome depends on it.
-/
import EnvVerif.Lemmas.RecipientLemmas
namespace EnvVerif
open Env ToyDeps ToyRec RecL RecL.Ex

section
variable (h : Hash) (A : Aead)

/-! ### splitting -/

/-- C11: `sskr_split` with the generated shares `groups` returns, group by group, one
envelope per share; each is the receiver plus the one `'sskrShare'` assertion: same subject
(the encrypted one), and — when the share's assertion is not shadowed — exactly one more
assertion; it never fails and never panics -/
theorem c11_split_shape {e : Env} (hi : Inv h e) (groups : List (List Cbor)) :
    sskrSplit h e groups = .ok (groups.map fun g => g.map (shareEnv h e)) ∧
    ∀ g ∈ groups, ∀ s ∈ g,
      (shareEnv h e s).subject = e.subject ∧
      (shareEnv h e s).assertions = AW.normAdd e.assertions (shareAssertion h s) ∧
      Inv h (shareEnv h e s) := by
  constructor
  · induction groups with
    | nil => rfl
    | cons g gs ih =>
      unfold sskrSplit
      rw [sskrSplitGroup_closed h hi g, ih]
      rfl
  · intro g _ s _
    refine ⟨shareEnv_subject h e s, shareEnv_assertions h e s, ?_⟩
    have hasg : ∀ a ∈ e.assertions, Inv h a := fun a ha =>
      ⟨(WFList_iff h _).1 (InvL.wf_assertions hi.1) a ha, (CanonList_iff _).1 (InvL.canon_assertions hi.2) a ha⟩
    have hsa : Inv h (shareAssertion h s) := by
      simp [Inv, shareAssertion, shareKV, newAssertion, newKnownValue, newLeaf]
    apply rebuild_inv h (Obs.inv_subject hi)
    · intro a ha
      rcases AW.mem_normAdd_sub ha with h1 | h1
      · exact hasg a h1
      · rw [h1]; exact hsa
    · exact AW.normAdd_asc (InvL.canon_assertions_asc hi.2)
    · intro a ha
      rcases AW.mem_normAdd_sub ha with h1 | h1
      · exact InvL.canon_assertions_slotOk hi.2 a h1
      · rw [h1]; rfl

/-! ### joining shares of one split -/

/-- the shares of one split all carry one identifier, so a list of them forms one group -/
theorem filter_ident_of_split {S : Sskr} {shares : List Cbor} {quorum : List Cbor → Bool}
    {secret : Bytes} {ident : Nat} (L : SskrLaws S shares quorum secret ident)
    {sub : List Cbor} (hs : ∀ s ∈ sub, s ∈ shares) (i : Nat) :
    sub.filter (fun s => S.identifier s == i) = if i = ident then sub else [] := by
  split
  · rename_i hi
    subst hi
    apply List.filter_eq_self.2
    intro s hm
    simp [L.ident_eq s (hs s hm)]
  · rename_i hi
    apply List.filter_eq_nil_iff.2
    intro s hm
    rw [L.ident_eq s (hs s hm)]
    simpa using fun hh => hi hh.symm

/-- C11: the share envelopes of one split, any selection with any repetition: `sskr_join`
returns the subject of the original envelope exactly when the selection is duplicate-free
and satisfies the policy, and `InvalidShares` otherwise — never a panic, never another
envelope.  (`hnone`: the envelope carried no `'sskrShare'` assertion before the split;
`hfresh`: no element of it carries the digest of one of the new share assertions, which
`add_assertion_envelope` would silently ignore.) -/
theorem c11_join_iff_quorum (LA : AeadLaws A) {S : Sskr} {shares : List Cbor}
    {quorum : List Cbor → Bool} {ck : Bytes} {ident : Nat}
    (L : SskrLaws S shares quorum ck ident) {e : Env} (hi : Inv h e)
    (hH : ∀ b, (h.H b).Valid) (hrt : RoundTrips h e.subject) (hck : ck.length = 32) (n : Bytes)
    (hnone : assertionsWithPredicate e (shareKV h) = [])
    (s0 : Cbor) (subs : List Cbor) (hs : ∀ s ∈ s0 :: subs, s ∈ shares)
    (hfresh : ∀ s ∈ s0 :: subs, ∀ y ∈ e.assertions, y.digest ≠ (shareAssertion h s).digest) :
    (((s0 :: subs).Nodup ∧ quorum (s0 :: subs) = true) →
      sskrJoin h A S ((s0 :: subs).map (shareEnv h (Obs.encryptSubjectSpec A ck n e))) =
        .ok e.subject) ∧
    (¬ ((s0 :: subs).Nodup ∧ quorum (s0 :: subs) = true) →
      sskrJoin h A S ((s0 :: subs).map (shareEnv h (Obs.encryptSubjectSpec A ck n e))) =
        .err "InvalidShares") := by
  have hok : ∀ s ∈ s0 :: subs, ShareOk s := fun s hm => L.shape s (hs s hm)
  obtain ⟨j1, j2⟩ := join_shareEnvs h A LA S hi hH hrt hck n hnone s0 subs hok hfresh
  obtain ⟨c1, c2⟩ := L.combine_iff (s0 :: subs) hs
  constructor
  · intro hq
    apply j1
    refine ⟨ident, ?_, ?_⟩
    · rw [filter_ident_of_split L hs, if_pos rfl]; simp
    · rw [filter_ident_of_split L hs, if_pos rfl]; exact c1.2 hq
  · intro hq
    apply j2
    intro i hne
    rw [filter_ident_of_split L hs] at hne ⊢
    split at hne
    · rename_i hi'
      rw [if_pos hi', c2 hq]
      intro hh; cases hh
    · exact absurd rfl hne

/-- C11, the statement as an equivalence -/
theorem c11_join_ok_iff (LA : AeadLaws A) {S : Sskr} {shares : List Cbor}
    {quorum : List Cbor → Bool} {ck : Bytes} {ident : Nat}
    (L : SskrLaws S shares quorum ck ident) {e : Env} (hi : Inv h e)
    (hH : ∀ b, (h.H b).Valid) (hrt : RoundTrips h e.subject) (hck : ck.length = 32) (n : Bytes)
    (hnone : assertionsWithPredicate e (shareKV h) = [])
    (s0 : Cbor) (subs : List Cbor) (hs : ∀ s ∈ s0 :: subs, s ∈ shares)
    (hfresh : ∀ s ∈ s0 :: subs, ∀ y ∈ e.assertions, y.digest ≠ (shareAssertion h s).digest) :
    (∃ x, sskrJoin h A S ((s0 :: subs).map (shareEnv h (Obs.encryptSubjectSpec A ck n e))) = .ok x) ↔
      ((s0 :: subs).Nodup ∧ quorum (s0 :: subs) = true) := by
  obtain ⟨j1, j2⟩ := c11_join_iff_quorum h A LA L hi hH hrt hck n hnone s0 subs hs hfresh
  constructor
  · rintro ⟨x, hx⟩
    apply Classical.byContradiction
    intro hq
    rw [j2 hq] at hx
    cases hx
  · intro hq
    exact ⟨_, j1 hq⟩

/-! ### mixtures of two splits -/

/-- C11: share envelopes of two splits of the same encrypted envelope mixed together
(different identifiers; the second split may be of another secret): the shares are sorted by
identifier, and `sskr_join` recovers the subject exactly when the shares of the first split
among them are duplicate-free and reach its quorum, or the second split is of the same
content key and its shares do; otherwise `InvalidShares`. -/
theorem c11_join_mixed (LA : AeadLaws A) {S : Sskr} {shares1 shares2 : List Cbor}
    {q1 q2 : List Cbor → Bool} {ck secret2 : Bytes} {i1 i2 : Nat} (hne : i1 ≠ i2)
    (L1 : SskrLaws S shares1 q1 ck i1) (L2 : SskrLaws S shares2 q2 secret2 i2)
    {e : Env} (hi : Inv h e)
    (hH : ∀ b, (h.H b).Valid) (hrt : RoundTrips h e.subject) (hck : ck.length = 32) (n : Bytes)
    (hnone : assertionsWithPredicate e (shareKV h) = [])
    (s0 : Cbor) (subs : List Cbor) (hs : ∀ s ∈ s0 :: subs, s ∈ shares1 ∨ s ∈ shares2)
    (hfresh : ∀ s ∈ s0 :: subs, ∀ y ∈ e.assertions, y.digest ≠ (shareAssertion h s).digest) :
    let sub1 := (s0 :: subs).filter (fun s => S.identifier s == i1)
    let sub2 := (s0 :: subs).filter (fun s => S.identifier s == i2)
    let good := (sub1.Nodup ∧ q1 sub1 = true) ∨ (secret2 = ck ∧ sub2.Nodup ∧ q2 sub2 = true)
    (good → sskrJoin h A S ((s0 :: subs).map (shareEnv h (Obs.encryptSubjectSpec A ck n e))) =
        .ok e.subject) ∧
    (¬ good → sskrJoin h A S ((s0 :: subs).map (shareEnv h (Obs.encryptSubjectSpec A ck n e))) =
        .err "InvalidShares") := by
  intro sub1 sub2 good
  have hok : ∀ s ∈ s0 :: subs, ShareOk s := by
    intro s hm
    rcases hs s hm with h1 | h2
    · exact L1.shape s h1
    · exact L2.shape s h2
  have hid : ∀ s ∈ s0 :: subs, (S.identifier s = i1 ∧ s ∈ shares1) ∨ (S.identifier s = i2 ∧ s ∈ shares2) := by
    intro s hm
    rcases hs s hm with h1 | h2
    · exact Or.inl ⟨L1.ident_eq s h1, h1⟩
    · exact Or.inr ⟨L2.ident_eq s h2, h2⟩
  have hsub1 : ∀ s ∈ sub1, s ∈ shares1 := by
    intro s hm
    obtain ⟨hm1, hm2⟩ := List.mem_filter.1 hm
    rcases hid s hm1 with ⟨_, hh⟩ | ⟨hh, _⟩
    · exact hh
    · rw [hh] at hm2; simp at hm2; exact absurd hm2.symm hne
  have hsub2 : ∀ s ∈ sub2, s ∈ shares2 := by
    intro s hm
    obtain ⟨hm1, hm2⟩ := List.mem_filter.1 hm
    rcases hid s hm1 with ⟨hh, _⟩ | ⟨_, hh⟩
    · rw [hh] at hm2; simp at hm2; exact absurd hm2 hne
    · exact hh
  have hother : ∀ i, i ≠ i1 → i ≠ i2 → (s0 :: subs).filter (fun s => S.identifier s == i) = [] := by
    intro i n1 n2
    apply List.filter_eq_nil_iff.2
    intro s hm
    rcases hid s hm with ⟨hh, _⟩ | ⟨hh, _⟩
    · rw [hh]; simpa using fun x => n1 x.symm
    · rw [hh]; simpa using fun x => n2 x.symm
  obtain ⟨j1, j2⟩ := join_shareEnvs h A LA S hi hH hrt hck n hnone s0 subs hok hfresh
  obtain ⟨a1, a2⟩ := L1.combine_iff sub1 hsub1
  obtain ⟨b1, b2⟩ := L2.combine_iff sub2 hsub2
  constructor
  · rintro (hq | ⟨hsec, hq⟩)
    · apply j1
      refine ⟨i1, ?_, a1.2 hq⟩
      intro hnil
      have hq2 : q1 sub1 = true := hq.2
      have : sub1 = [] := hnil
      rw [this, L1.quorum_nil] at hq2
      cases hq2
    · apply j1
      subst hsec
      refine ⟨i2, ?_, b1.2 hq⟩
      intro hnil
      have hq2 : q2 sub2 = true := hq.2
      have : sub2 = [] := hnil
      rw [this, L2.quorum_nil] at hq2
      cases hq2
  · intro hbad
    apply j2
    intro i hnil
    by_cases e1 : i = i1
    · subst e1
      intro hc
      exact hbad (Or.inl (a1.1 hc))
    · by_cases e2 : i = i2
      · subst e2
        intro hc
        by_cases hq : sub2.Nodup ∧ q2 sub2 = true
        · have := (b1.2 hq).symm.trans hc
          simp only [Option.some.injEq] at this
          exact hbad (Or.inr ⟨this, hq⟩)
        · have := (b2 hq).symm.trans hc
          cases this
      · exact absurd (hother i e1 e2) hnil

/-! ### totality: never a panic, never another envelope -/

/-- C11: `sskr_join` never panics on canonical envelopes (in particular not on decorated
`'sskrShare'` assertions, obscured share objects, shares too short to carry an identifier,
or an empty list) -/
theorem c11_join_total (S : Sskr) (envs : List Env) (hc : ∀ e ∈ envs, Canon e) (p : String) :
    sskrJoin h A S envs ≠ .panic p := by
  unfold sskrJoin
  split
  · intro hh; cases hh
  · unfold sskrSharesIn
    cases hall : allShares h envs with
    | ok l =>
      simp only
      cases envs with
      | nil => simp at *
      | cons first rest =>
        rw [joinGroups_eq h A S first rest
          (fun k q => RecL.decryptSubject_np h A (canon_node_ne (hc first List.mem_cons_self)) q)]
        split <;> (intro hh; cases hh)
    | err x => intro hh; cases hh
    | panic x => exact absurd hall (allShares_np h envs x)

/-- C11: whatever `sskr_join` returns is the subject of a successful `decrypt_subject` of the
*first* envelope under a 32-byte secret that one identifier-group of the presented shares
combines to: it is never made from anything else -/
theorem c11_join_result (S : Sskr) (envs : List Env) {x : Env}
    (hx : sskrJoin h A S envs = .ok x) :
    ∃ first rest shares i key y, envs = first :: rest ∧ allShares h envs = .ok shares ∧
      S.combine (shares.filter (fun s => S.identifier s == i)) = some key ∧ key.length = 32 ∧
      decryptSubject h A key first = .ok y ∧ x = y.subject := by
  unfold sskrJoin at hx
  split at hx
  · cases hx
  · unfold sskrSharesIn at hx
    cases hall : allShares h envs with
    | ok l =>
      rw [hall] at hx
      simp only at hx
      obtain ⟨first, rest, g, key, y, he, hg, hcomb, hlen, hd, hxy⟩ := joinGroups_ok h A S hx
      obtain ⟨i, hgi, _⟩ := (mem_groupShares S l g).1 hg
      exact ⟨first, rest, l, i, key, y, he, rfl, hgi ▸ hcomb, hlen, hd, hxy⟩
    | err y => rw [hall] at hx; cases hx
    | panic y => rw [hall] at hx; cases hx

/-- C11: the order in which the identifier groups are tried (the iteration order of a
`HashMap` in the Rust) does not influence the outcome -/
theorem c11_group_order (LA : AeadLaws A) (S : Sskr) (first : Env) (rest : List Env)
    (hc : Canon first) {G G' : List (List Cbor)} (hp : G.Perm G') :
    joinGroups h A S (first :: rest) G = joinGroups h A S (first :: rest) G' :=
  joinGroups_perm h A LA S first rest
    (fun _ q => RecL.decryptSubject_np h A (canon_node_ne hc) q) hp

end

/-! ### the hypotheses are satisfiable: a 2-of-3 split of `"b" [ 1: 10 ]` -/

/-- the three shares are pairwise different and fresh for `nd` -/
theorem Ex.shs_fresh : ∀ s ∈ Ex.shs, ∀ y ∈ Ex.nd.assertions,
    y.digest ≠ (shareAssertion Ex.H s).digest := by
  decide +kernel

/-- member `mi` of the single group -/
def Ex.sh (mi : Nat) : Cbor := share ⟨5, 1, 0, 2, mi, Ex.ck⟩

theorem Ex.shs_eq : Ex.shs = [Ex.sh 0, Ex.sh 1, Ex.sh 2] := by rfl

theorem Ex.sh_inj {a b : Nat} (hne : a ≠ b) : Ex.sh a ≠ Ex.sh b := by
  intro he
  have := congrArg fields he
  simp only [Ex.sh, fields_share, Option.some.injEq, ShareFields.mk.injEq] at this
  exact hne this.2.2.2.2.1

/- members 0 and 1 recover the subject; member 0 twice does not; member 0 alone does not -/
example :
    sskrJoin H toyAead sskr ([Ex.sh 0, Ex.sh 1].map (shareEnv H (Obs.encryptSubjectSpec toyAead ck [] nd))) =
      .ok nd.subject :=
  (c11_join_iff_quorum H toyAead toyAead_laws (sskr_laws 5 spec ck) nd_inv hash_valid
    (by rfl) ck_len [] nd_noShares (Ex.sh 0) [Ex.sh 1]
    (by intro s hs; show s ∈ Ex.shs; rw [Ex.shs_eq]; simp at hs ⊢; rcases hs with rfl | rfl <;> simp)
    (fun s hs => Ex.shs_fresh s (by rw [Ex.shs_eq]; simp at hs ⊢; rcases hs with rfl | rfl <;> simp))).1
    ⟨by simp [Ex.sh_inj], by decide +kernel⟩

example :
    sskrJoin H toyAead sskr ([Ex.sh 0, Ex.sh 0].map (shareEnv H (Obs.encryptSubjectSpec toyAead ck [] nd))) =
      .err "InvalidShares" :=
  (c11_join_iff_quorum H toyAead toyAead_laws (sskr_laws 5 spec ck) nd_inv hash_valid
    (by rfl) ck_len [] nd_noShares (Ex.sh 0) [Ex.sh 0]
    (by intro s hs; show s ∈ Ex.shs; rw [Ex.shs_eq]; simp at hs ⊢; simp [hs])
    (fun s hs => Ex.shs_fresh s (by rw [Ex.shs_eq]; simp at hs ⊢; simp [hs]))).2
    (by intro hh; simp at hh)

example :
    sskrJoin H toyAead sskr ([Ex.sh 2].map (shareEnv H (Obs.encryptSubjectSpec toyAead ck [] nd))) =
      .err "InvalidShares" :=
  (c11_join_iff_quorum H toyAead toyAead_laws (sskr_laws 5 spec ck) nd_inv hash_valid
    (by rfl) ck_len [] nd_noShares (Ex.sh 2) []
    (by intro s hs; show s ∈ Ex.shs; rw [Ex.shs_eq]; simp at hs ⊢; simp [hs])
    (fun s hs => Ex.shs_fresh s (by rw [Ex.shs_eq]; simp at hs ⊢; simp [hs]))).2
    (by intro hh; have := hh.2; revert this; decide +kernel)

end EnvVerif
