import EnvVerif.Lemmas.Basic
namespace EnvVerif
/-- placeholder while the property theorems are being written -/
theorem c11_sort_asc_id {as : List Env} (hs : AscDigests as) : sortByDigest as = as := sortByDigest_of_asc hs
end EnvVerif
