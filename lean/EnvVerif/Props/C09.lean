/-
  Props/C09.lean — signatures.

  "For every envelope, signing key and signature scheme, a signature added with a private
  key verifies under the matching public key and under no other; it keeps verifying after
  any elision, encryption or compression of the envelope's parts and after other assertions
  are added (the subject digest being unchanged), and does not verify for a different
  subject.  Threshold verification over a list of keys succeeds iff at least the threshold
  (all of them when none is given) have a valid signature, and metadata returned for a
  verified signature is itself covered by a signature from the same key."

  The verification glue is `Model/Signature.lean` (the repaired
  `has_some_signature_from_key_returning_metadata`); the scheme `V : SigScheme` is a
  parameter.  Theorems that speak about *made* signatures take the idealised signer `S`
  and `SigLaws V S` (`Lemmas/SigLaws.lean`) as a hypothesis; a toy instance satisfying the
  laws is `SigL.Toy.laws`.  The hash `h` is arbitrary throughout.

  Vocabulary (`Lemmas/SigLaws.lean`): `signedObjects h e` — the objects of the 'signed'
  assertions of `e` in stored order (`signedObjects_spec` ties it to the model);
  `ReadableSigBy V key x msg` — `x` holds a readable `Signature` verifying `msg` under
  `key`; `NotShadowed h e o` — no *other* element of `e` has the digest of `'signed': o`;
  `metaEnvelope`, `signedWrapper` — the two envelopes `add_signature_opt` builds when there
  is metadata; `validCount valid keys` — number of keys (with multiplicity) that are valid.
-/
import EnvVerif.Lemmas.SigLemmas
namespace EnvVerif
open Env SigL

variable (h : Hash) (V : SigScheme)

/-! ### 0. the 'signed' objects -/

/-- `signedObjects` is what `objects_for_predicate('signed')` returns, and it lists exactly
the objects of the assertion elements whose (subject's) predicate has the digest of 'signed' -/
theorem signedObjects_spec (e : Env) :
    objectsForPredicate e (newKnownValue h KV_SIGNED) = .ok (signedObjects h e) ∧
    ∀ o, o ∈ signedObjects h e ↔
      ∃ a ∈ e.assertions, ∃ q d, a.subject = .assertion q o d ∧
        q.digest = (newKnownValue h KV_SIGNED).digest :=
  ⟨objectsForPredicate_signed h e, fun _ => mem_signedObjects h⟩

/-! ### 4. totality: never an error, never a panic -/

/-- C09: for *every* envelope (no invariant needed) signature verification returns a
verdict: a 'signed' object that is not a signature from the key is skipped -/
theorem no_error_no_panic (key : Nat) (e : Env) :
    (∃ r, hasSignatureFromReturningMetadata h V key e = .ok r) ∧
    (∀ x, hasSignatureFromReturningMetadata h V key e ≠ .err x) ∧
    (∀ x, hasSignatureFromReturningMetadata h V key e ≠ .panic x) := by
  rw [hasSigMeta_eq]
  exact ⟨⟨_, rfl⟩, fun _ hx => (by cases hx), fun _ hx => (by cases hx)⟩

theorem has_signature_total (key : Nat) (e : Env) : ∃ b, hasSignatureFrom h V key e = .ok b :=
  ⟨_, hasSig_eq h V key e⟩

/-! ### 1. the verdict, exactly -/

/-- C09: a key has a signature iff *some* 'signed' object is a valid candidate for it -/
theorem has_sig_iff (key : Nat) (e : Env) (r : Option Env)
    (hr : hasSignatureFromReturningMetadata h V key e = .ok r) :
    r.isSome = true ↔ ∃ so ∈ signedObjects h e, (sigCandidate h V key e so).isSome = true := by
  rw [hasSigMeta_eq] at hr
  cases hr
  exact List.findSome?_isSome_iff

example : ∃ r, hasSignatureFromReturningMetadata Toy.hash Toy.scheme 1 Toy.signed1 = .ok r :=
  (no_error_no_panic _ _ 1 Toy.signed1).1

theorem has_signature_iff (key : Nat) (e : Env) :
    (hasSignatureFrom h V key e = .ok true ↔
      ∃ so ∈ signedObjects h e, (sigCandidate h V key e so).isSome = true) ∧
    (hasSignatureFrom h V key e = .ok false ↔
      ∀ so ∈ signedObjects h e, sigCandidate h V key e so = none) := by
  rw [hasSig_eq]
  have hi := validSig_iff h V key e
  cases hv : validSig h V key e with
  | true =>
    refine ⟨⟨fun _ => hi.1 hv, fun _ => rfl⟩, ⟨fun hx => (by cases hx), fun hall => ?_⟩⟩
    obtain ⟨so, hso, hs⟩ := hi.1 hv
    rw [hall so hso] at hs; cases hs
  | false =>
    refine ⟨⟨fun hx => (by cases hx), fun hex => ?_⟩, ⟨fun _ so hso => ?_, fun _ => rfl⟩⟩
    · rw [hi.2 hex] at hv; cases hv
    · cases hc : sigCandidate h V key e so with
      | none => rfl
      | some m =>
        have := hi.2 ⟨so, hso, by rw [hc]; rfl⟩
        rw [hv] at this; cases this

/-- C09: a 'signed' object that is not a wrapper counts for `key` iff it is a readable
signature verifying the digest of the envelope's subject under `key`; what is returned is
the bare signature as a leaf - never the object with whatever assertions someone attached to
it (the repaired defect: the object used to be returned as it stood, so that assertions
covered by no signature came back as "metadata") -/
theorem sigCandidate_plain_exact (key : Nat) (e so m : Env) (hw : so.subject.isWrapped = false) :
    sigCandidate h V key e so = some m ↔
      ∃ s, extractSignature so = some s ∧ V.verify key s e.subject.digest = true ∧ m = newLeaf h s :=
  sigCandidate_plain h V key e so m hw

example : Toy.subj.subject.isWrapped = false := rfl

/-- C09: a wrapper (signature with metadata) counts for `key` iff some 'signed' object it
carries is a readable signature by `key` over the wrapper's digest **and** the wrapped
envelope's subject is a readable signature by `key` over the digest of the envelope's
subject; what is returned is the wrapped (metadata) envelope -/
theorem sigCandidate_wrapper_exact (key : Nat) (e so inner m : Env) (d : Digest)
    (hs : so.subject = .wrapped inner d) :
    sigCandidate h V key e so = some m ↔
      m = inner ∧ (∃ o ∈ signedObjects h so, ReadableSigBy V key o d) ∧
        ReadableSigBy V key inner e.subject.digest :=
  sigCandidate_wrapper h V key e so inner m d hs

example : (signedWrapper Toy.hash Toy.subj (fun _ => .uint 0)).subject =
    .wrapped Toy.subj (Toy.hash.ofDigests [Toy.subj.digest]) := rfl

/-- both cases in one statement -/
theorem sigCandidate_isSome_iff (key : Nat) (e so : Env) :
    (sigCandidate h V key e so).isSome = true ↔
      (so.subject.isWrapped = false ∧ ReadableSigBy V key so e.subject.digest) ∨
      (∃ inner d, so.subject = .wrapped inner d ∧
        (∃ o ∈ signedObjects h so, ReadableSigBy V key o d) ∧
        ReadableSigBy V key inner e.subject.digest) := by
  rw [Option.isSome_iff_exists]
  cases hs : so.subject with
  | wrapped inner d =>
    constructor
    · rintro ⟨m, hm⟩
      exact Or.inr ⟨inner, d, rfl, ((sigCandidate_wrapper h V key e so inner m d hs).1 hm).2⟩
    · rintro (⟨hw, _⟩ | ⟨inner', d', he, hx⟩)
      · cases hw
      · cases he
        exact ⟨inner, (sigCandidate_wrapper h V key e so inner inner d hs).2 ⟨rfl, hx⟩⟩
  | _ =>
    have hw : so.subject.isWrapped = false := by rw [hs]; rfl
    constructor
    · rintro ⟨m, hm⟩
      exact Or.inl ⟨rfl, (sigCandidate_plain_readable h V key e so m hw hm).1⟩
    · rintro (⟨_, hx⟩ | ⟨inner', d', he, _⟩)
      · exact Option.isSome_iff_exists.1 ((sigCandidate_plain_isSome h V key e so hw).2 hx)
      · cases he

/-- a wrapper that carries no 'signed' assertion at all is never accepted (the repaired
defect: its metadata used to be returned unverified) -/
theorem unsigned_wrapper_rejects (key : Nat) (e m : Env) :
    sigCandidate h V key e (wrap h m) = none := by
  cases hc : sigCandidate h V key e (wrap h m) with
  | none => rfl
  | some x =>
    obtain ⟨_, ⟨o, ho, _⟩, _⟩ := (sigCandidate_wrapper h V key e (wrap h m) m x _ rfl).1 hc
    cases ho

/-! ### 8. returned metadata is covered by the key -/

/-- C09: whatever `has_some_signature_from_key_returning_metadata` returns is covered by the
key.  Either it comes from a plain 'signed' object that is a readable signature by the key
over the subject of `e`, and then it is the **bare signature** - a leaf, carrying no
assertion at all, itself that readable signature; or it is the content `m` of a wrapper that
is a 'signed' object of `e`, carries a 'signed' object that is a readable signature by the
key over the wrapper's digest (so every assertion of `m` is under that signature), and whose
own subject is the key's signature over the subject of `e`. -/
theorem metadata_covered (key : Nat) (e m : Env)
    (hr : hasSignatureFromReturningMetadata h V key e = .ok (some m)) :
    ∃ so ∈ signedObjects h e,
      (so.subject.isWrapped = false ∧ ReadableSigBy V key so e.subject.digest ∧
        m.assertions = [] ∧ ReadableSigBy V key m e.subject.digest) ∨
      (∃ d, so.subject = .wrapped m d ∧
        (∃ o ∈ signedObjects h so, ReadableSigBy V key o d) ∧
        ReadableSigBy V key m e.subject.digest) := by
  rw [hasSigMeta_eq] at hr
  obtain ⟨so, hso, hc⟩ := List.exists_of_findSome?_eq_some (Res.ok.inj hr)
  refine ⟨so, hso, ?_⟩
  cases hs : so.subject with
  | wrapped inner d =>
    obtain ⟨rfl, hx⟩ := (sigCandidate_wrapper h V key e so inner m d hs).1 hc
    exact Or.inr ⟨d, rfl, hx⟩
  | _ =>
    have hw : so.subject.isWrapped = false := by rw [hs]; rfl
    exact Or.inl ⟨rfl, sigCandidate_plain_readable h V key e so m hw hc⟩

/-- in particular: an unwrapped signature object decorated with assertions of someone's own
(`Signature [ 'note': "forged" ]`) still counts as the key's signature, but none of those
assertions is ever returned -/
theorem unsigned_decoration_never_returned (key : Nat) (e so m : Env)
    (hw : so.subject.isWrapped = false) (hc : sigCandidate h V key e so = some m) :
    m.assertions = [] :=
  (sigCandidate_plain_readable h V key e so m hw hc).2.1

example : ∃ m, hasSignatureFromReturningMetadata Toy.hash Toy.scheme 1 Toy.signed1 = .ok (some m) := by
  have hv : hasSignatureFrom Toy.hash Toy.scheme 1 Toy.signed1 = .ok true := by decide +kernel
  rw [hasSig_eq] at hv
  rw [hasSigMeta_eq]
  obtain ⟨m, hm⟩ := Option.isSome_iff_exists.1 (Res.ok.inj hv)
  exact ⟨m, by rw [hm]⟩

/-! ### 5./6. the verdict depends on the subject digest and the set of 'signed' objects only -/

/-- C09: same subject digest and same list of 'signed' objects: same result, metadata
included -/
theorem depends_only_on_subject_digest_and_signed_objects (key : Nat) (e e' : Env)
    (hd : e'.subject.digest = e.subject.digest)
    (ho : objectsForPredicate e' (newKnownValue h KV_SIGNED) =
      objectsForPredicate e (newKnownValue h KV_SIGNED)) :
    hasSignatureFromReturningMetadata h V key e' = hasSignatureFromReturningMetadata h V key e := by
  unfold hasSignatureFromReturningMetadata
  rw [ho]
  have : sigCandidate h V key e' = sigCandidate h V key e :=
    funext fun so => sigCandidate_congr h V key hd so
  rw [this]

/-- the same subject and 'signed' assertion under another (here: wrong) cached root digest -/
example : (Env.node Toy.subj [Toy.sa1] ⟨0⟩).subject.digest = Toy.signed1.subject.digest ∧
    objectsForPredicate (Env.node Toy.subj [Toy.sa1] ⟨0⟩) (newKnownValue Toy.hash KV_SIGNED) =
      objectsForPredicate Toy.signed1 (newKnownValue Toy.hash KV_SIGNED) :=
  ⟨by show Toy.subj.digest = Toy.subj.digest; rfl, by
    rw [objectsForPredicate_signed, objectsForPredicate_signed]
    exact congrArg Res.ok (signedObjects_of_assertions_eq Toy.hash
      (e := Env.node Toy.subj [Toy.sa1] ⟨0⟩) (e' := Toy.signed1) (by show [Toy.sa1] = [Toy.sa1]; rfl))⟩

/-- the search over the 'signed' objects succeeds iff some object is accepted: the position
of the accepted one among rejected ones is irrelevant -/
theorem order_independent {α β : Type} (f : α → Option β) (sos : List α) :
    (sos.findSome? f).isSome = true ↔ ∃ so ∈ sos, (f so).isSome = true :=
  List.findSome?_isSome_iff

/-- C09: the boolean verdict is invariant under permutation of the 'signed' objects (the
defect repaired in the library: the outcome used to depend on how the digests sort) -/
theorem verdict_perm_invariant (key : Nat) (e e' : Env)
    (hd : e'.subject.digest = e.subject.digest)
    (hp : (signedObjects h e').Perm (signedObjects h e)) :
    hasSignatureFrom h V key e' = hasSignatureFrom h V key e := by
  rw [hasSig_eq, hasSig_eq]
  congr 1
  rw [Bool.eq_iff_iff, validSig_iff, validSig_iff]
  constructor
  · rintro ⟨so, hso, hc⟩
    exact ⟨so, hp.mem_iff.1 hso, by rw [← sigCandidate_congr h V key hd so]; exact hc⟩
  · rintro ⟨so, hso, hc⟩
    exact ⟨so, hp.mem_iff.2 hso, by rw [sigCandidate_congr h V key hd so]; exact hc⟩

/-- two assertion elements stored in the two possible orders -/
example : (Env.node Toy.subj [Toy.note, Toy.sa1] ⟨0⟩).subject.digest =
      (Env.node Toy.subj [Toy.sa1, Toy.note] ⟨0⟩).subject.digest ∧
    (signedObjects Toy.hash (Env.node Toy.subj [Toy.note, Toy.sa1] ⟨0⟩)).Perm
      (signedObjects Toy.hash (Env.node Toy.subj [Toy.sa1, Toy.note] ⟨0⟩)) :=
  ⟨rfl, signedObjects_perm Toy.hash (List.Perm.swap _ _ _)⟩

/-- C09: an accepted 'signed' object is accepted in every envelope that has the same subject
digest and still lists that object under a predicate with the digest of 'signed' (the
predicate itself may be elided: lookups match by digest) -/
theorem valid_candidate_transfers (key : Nat) (e e' so : Env)
    (hd : e'.subject.digest = e.subject.digest)
    (hc : (sigCandidate h V key e so).isSome = true)
    (hso : so ∈ signedObjects h e') : hasSignatureFrom h V key e' = .ok true := by
  rw [hasSig_eq]
  congr 1
  exact (validSig_iff h V key e').2 ⟨so, hso, by rw [sigCandidate_congr h V key hd so]; exact hc⟩

/-- the toy signed envelope with the predicate 'signed' elided and the subject elided -/
example : (Env.node (.elided Toy.subj.digest)
      [.assertion (.elided (signedKV Toy.hash).digest) (newLeaf Toy.hash Toy.sig1) Toy.sa1.digest]
      Toy.signed1.digest).subject.digest = Toy.signed1.subject.digest ∧
    (sigCandidate Toy.hash Toy.scheme 1 Toy.signed1 (newLeaf Toy.hash Toy.sig1)).isSome = true ∧
    newLeaf Toy.hash Toy.sig1 ∈ signedObjects Toy.hash (Env.node (.elided Toy.subj.digest)
      [.assertion (.elided (signedKV Toy.hash).digest) (newLeaf Toy.hash Toy.sig1) Toy.sa1.digest]
      Toy.signed1.digest) := by
  refine ⟨rfl, ?_, ?_⟩
  · rw [sigCandidate_isSome_iff]
    exact Or.inl ⟨rfl, _, extractSignature_newLeaf_sign Toy.hash Toy.laws 1 _, Toy.laws.correct 1 _⟩
  · exact (mem_signedObjects Toy.hash).2
      ⟨.assertion (.elided (signedKV Toy.hash).digest) (newLeaf Toy.hash Toy.sig1) Toy.sa1.digest,
        by simp [Env.assertions], .elided (signedKV Toy.hash).digest, Toy.sa1.digest, rfl, rfl⟩

/-- C09: a valid signature stays valid in any envelope with the same subject digest in
which the 'signed' assertion elements are still present, identically (whatever happened to
the subject and to the other assertions: elision, encryption, compression, additions) -/
theorem survives_obscuring (key : Nat) (e e' : Env)
    (hd : e'.subject.digest = e.subject.digest)
    (hkeep : ∀ a ∈ assertionsWithPredicate e (newKnownValue h KV_SIGNED), a ∈ e'.assertions)
    (hv : hasSignatureFrom h V key e = .ok true) : hasSignatureFrom h V key e' = .ok true := by
  rw [hasSig_eq] at hv ⊢
  congr 1
  obtain ⟨so, hso, hc⟩ := (validSig_iff h V key e).1 (Res.ok.inj hv)
  refine (validSig_iff h V key e').2 ⟨so, ?_, by rw [sigCandidate_congr h V key hd so]; exact hc⟩
  obtain ⟨a, ha, q, d, hsub, hq⟩ := (mem_signedObjects h).1 hso
  exact (mem_signedObjects h).2 ⟨a, hkeep a (AW.mem_awp.2 ⟨ha, q, so, d, hsub, hq⟩), q, d, hsub, hq⟩

/-- the toy signed envelope with its subject elided -/
example : (Env.node (.elided Toy.subj.digest) [Toy.sa1] Toy.signed1.digest).subject.digest =
      Toy.signed1.subject.digest ∧
    (∀ a ∈ assertionsWithPredicate Toy.signed1 (newKnownValue Toy.hash KV_SIGNED),
      a ∈ (Env.node (.elided Toy.subj.digest) [Toy.sa1] Toy.signed1.digest).assertions) ∧
    hasSignatureFrom Toy.hash Toy.scheme 1 Toy.signed1 = .ok true :=
  ⟨rfl, fun _ ha => (AW.mem_awp.1 ha).1, by decide +kernel⟩

/-- C09: the same for the obscuring traversal of the library (`elide_set_with_action`: every
action — elide, encrypt, compress —, removing and revealing mode): if the root is not the
target and no element of the assertion carrying the valid signature is, the signature keeps
verifying — the subject and every other assertion may have been obscured -/
theorem survives_elideSet (A : Aead) (Z : Deflate) (T : Digest → Bool) (rev : Bool) (act : Action)
    (key : Nat) (e r a q so : Env) (d : Digest) (hi : Inv h e)
    (hroot : (T e.digest != rev) = false)
    (ha : a ∈ e.assertions) (hsub : a.subject = .assertion q so d)
    (hq : q.digest = (newKnownValue h KV_SIGNED).digest)
    (hc : (sigCandidate h V key e so).isSome = true)
    (hu : ∀ x ∈ elements a, (T x.digest != rev) = false)
    (hr : elideSet h A Z T rev act e = .ok r) : hasSignatureFrom h V key r = .ok true := by
  have hn : e.isNode = true := by cases e <;> first | rfl | cases ha
  obtain ⟨hd, hk⟩ := elideSet_node_keeps h A Z T rev act hi hn hroot hr
  rw [hasSig_eq]
  congr 1
  refine (validSig_iff h V key r).2 ⟨so, ?_, by rw [sigCandidate_congr h V key hd so]; exact hc⟩
  exact (mem_signedObjects h).2 ⟨a, hk a ha hu, q, d, hsub, hq⟩

/-- the subject of the toy signed envelope is elided: the signature keeps verifying -/
example : ∃ r, elideSet Toy.hash InvL.idAead InvL.idDeflate (fun d => d == Toy.subj.digest) false
      .elide Toy.signed1 = .ok r ∧ hasSignatureFrom Toy.hash Toy.scheme 1 r = .ok true := by
  obtain ⟨r, hr⟩ : ∃ r, elideSet Toy.hash InvL.idAead InvL.idDeflate
      (fun d => d == Toy.subj.digest) false .elide Toy.signed1 = .ok r :=
    InvL.res_isOk_iff.1 (by decide +kernel)
  refine ⟨r, hr, survives_elideSet Toy.hash Toy.scheme _ _ _ false .elide 1 Toy.signed1 r Toy.sa1
    (signedKV Toy.hash) (newLeaf Toy.hash Toy.sig1) _ Toy.signed1_inv (by decide +kernel)
    (by simp [Toy.signed1, Env.assertions]) rfl rfl ?_ ?_ hr⟩
  · rw [sigCandidate_isSome_iff]
    exact Or.inl ⟨rfl, _, extractSignature_newLeaf_sign Toy.hash Toy.laws 1 _, Toy.laws.correct 1 _⟩
  · intro x hx
    simp only [Toy.sa1, sigAssertion, newAssertion, signedKV, newKnownValue, newLeaf, elements,
      List.mem_cons, List.mem_append, List.not_mem_nil, or_false] at hx
    rcases hx with rfl | rfl | rfl <;> decide +kernel

/-- C09: adding any assertion keeps a valid signature valid -/
theorem survives_added_assertions (key : Nat) (e a r : Env)
    (hr : addAssertionEnvelope h e a = .ok r)
    (hv : hasSignatureFrom h V key e = .ok true) : hasSignatureFrom h V key r = .ok true := by
  obtain ⟨hs, hkeep, _⟩ := signedObjects_addAny h hr
  rw [hasSig_eq] at hv ⊢
  congr 1
  obtain ⟨so, hso, hc⟩ := (validSig_iff h V key e).1 (Res.ok.inj hv)
  exact (validSig_iff h V key r).2 ⟨so, hkeep so hso,
    by rw [sigCandidate_congr h V key (congrArg Env.digest hs) so]; exact hc⟩

/-- C09: adding an assertion whose predicate does not have the digest of 'signed' does not
change the verdict for any key (nor whether metadata is returned) -/
theorem unrelated_assertion_same_verdict (key : Nat) (e a r : Env)
    (hr : addAssertionEnvelope h e a = .ok r)
    (hna : ∀ q o d, a.subject = .assertion q o d → q.digest ≠ (newKnownValue h KV_SIGNED).digest) :
    hasSignatureFrom h V key r = hasSignatureFrom h V key e := by
  have hm : AW.matchesPred a (signedKV h) = false := by
    cases hmp : AW.matchesPred a (signedKV h) with
    | false => rfl
    | true =>
      obtain ⟨q, o, d, hsub, hq⟩ := (AW.matchesPred_iff a _).1 hmp
      exact absurd hq (hna q o d hsub)
  obtain ⟨hs, hkeep, hnew⟩ := signedObjects_addAny h hr
  have hd := congrArg Env.digest hs
  rw [hasSig_eq, hasSig_eq]
  congr 1
  rw [Bool.eq_iff_iff, validSig_iff, validSig_iff]
  constructor
  · rintro ⟨so, hso, hc⟩
    exact ⟨so, hnew hm so hso, by rw [← sigCandidate_congr h V key hd so]; exact hc⟩
  · rintro ⟨so, hso, hc⟩
    exact ⟨so, hkeep so hso, by rw [sigCandidate_congr h V key hd so]; exact hc⟩

example : ∃ r, addAssertionEnvelope Toy.hash Toy.signed1 Toy.note = .ok r ∧
    hasSignatureFrom Toy.hash Toy.scheme 1 Toy.signed1 = .ok true ∧
    (∀ q o d, Toy.note.subject = .assertion q o d →
      q.digest ≠ (newKnownValue Toy.hash KV_SIGNED).digest) := by
  obtain ⟨r, hr⟩ := InvL.addAssertionEnvelope_isOk Toy.hash (e := Toy.signed1) (a := Toy.note) rfl
  refine ⟨r, hr, by decide +kernel, ?_⟩
  intro q o d hsub
  simp only [Toy.note, newAssertion, Env.subject, Env.assertion.injEq] at hsub
  rw [← hsub.1]
  decide +kernel

/-! ### 2. an added signature verifies -/

variable {V} {S : Signer}

/-- C09: the signature made with key `k` over the subject digest and added with
`add_signature` verifies under `k`.  The only proviso is `NotShadowed`: the envelope does not
already hold a *different* element with the digest of the new assertion — see
`added_signature_needs_notShadowed` below for what happens otherwise.  No invariant on `e`
is needed. -/
theorem added_signature_verifies (L : SigLaws V S) (k : Nat) (e r : Env) (outer : Env → Cbor)
    (hns : NotShadowed h e (newLeaf h (S.sign k e.subject.digest)))
    (hr : addSignature h e (S.sign k e.subject.digest) [] outer = .ok r) :
    hasSignatureFrom h V k r = .ok true := by
  rw [addSignature_nil] at hr
  obtain ⟨hs, _, _, hin⟩ := signedObjects_add h hr
  rw [hasSig_eq]
  congr 1
  refine (validSig_iff h V k r).2 ⟨_, hin hns, ?_⟩
  rw [sigCandidate_isSome_iff]
  refine Or.inl ⟨rfl, _, extractSignature_newLeaf_sign h L k _, ?_⟩
  rw [hs]
  exact L.correct k _

example : SigLaws Toy.scheme Toy.signer ∧
    NotShadowed Toy.hash Toy.subj (newLeaf Toy.hash (Toy.signer.sign 1 Toy.subj.subject.digest)) ∧
    addSignature Toy.hash Toy.subj (Toy.signer.sign 1 Toy.subj.subject.digest) [] (fun _ => .uint 0) =
      .ok Toy.signed1 :=
  ⟨Toy.laws, fun _ hx => (by cases hx), Toy.signed1_eq _⟩

/-- a fresh assertion digest is the common sufficient condition -/
theorem added_signature_verifies_fresh (L : SigLaws V S) (k : Nat) (e r : Env) (outer : Env → Cbor)
    (hfresh : ∀ x ∈ e.assertions,
      x.digest ≠ (sigAssertion h (newLeaf h (S.sign k e.subject.digest))).digest)
    (hr : addSignature h e (S.sign k e.subject.digest) [] outer = .ok r) :
    hasSignatureFrom h V k r = .ok true :=
  added_signature_verifies h L k e r outer (fun x hx hd => absurd hd (hfresh x hx)) hr

example : ∀ x ∈ Toy.subj.assertions, x.digest ≠
    (sigAssertion Toy.hash (newLeaf Toy.hash (Toy.signer.sign 1 Toy.subj.subject.digest))).digest :=
  fun _ hx => (by cases hx)

/-- `add_signature` (without metadata) always succeeds -/
theorem addSignature_total (e : Env) (sig : Cbor) (outer : Env → Cbor) :
    ∃ r, addSignature h e sig [] outer = .ok r :=
  addAssertionUnwrap_isOk h e _ _

/-- **finding** (witness for every hash and scheme): if the envelope already holds, in
obscured form, an element with the digest of the new 'signed' assertion — e.g. the same
deterministic signature was added before and its assertion then elided —, `add_signature`
returns the envelope unchanged (`add_assertion_envelope` ignores a digest that is present)
and the key does **not** verify.  The envelope satisfies the invariant, so
`added_signature_verifies` cannot be stated with `Inv h e` alone. -/
theorem added_signature_needs_notShadowed (k : Nat) (s : Env) (sig : Cbor) (outer : Env → Cbor) :
    addSignature h (shadowed h s sig) sig [] outer = .ok (shadowed h s sig) ∧
    hasSignatureFrom h V k (shadowed h s sig) = .ok false ∧
    (Inv h s → (sigAssertion h (newLeaf h sig)).digest.Valid → Inv h (shadowed h s sig)) := by
  refine ⟨shadowed_addSignature h s sig outer, ?_, fun hs hv => shadowed_inv h sig hs hv⟩
  rw [hasSig_eq]
  congr 1

/-- the statement with `Inv h e` as the only hypothesis is false -/
theorem added_signature_inv_alone_false :
    ¬ ∀ (h : Hash) (V : SigScheme) (S : Signer), SigLaws V S → ∀ (k : Nat) (e r : Env)
      (outer : Env → Cbor), Inv h e →
      addSignature h e (S.sign k e.subject.digest) [] outer = .ok r →
      hasSignatureFrom h V k r = .ok true := by
  intro hall
  have hw := added_signature_needs_notShadowed Toy.hash (V := Toy.scheme) 1 Toy.subj
    (Toy.signer.sign 1 Toy.subj.digest) (fun _ => .uint 0)
  have := hall Toy.hash Toy.scheme Toy.signer Toy.laws 1 _ _ (fun _ => .uint 0)
    (hw.2.2 Toy.subj_inv (Toy.hash_valid _)) hw.1
  rw [hw.2.1] at this
  cases this

/-- C09 (with metadata): `add_signature_opt` with metadata assertions builds the metadata
envelope `m` — the signature leaf carrying exactly the metadata assertions —, wraps it,
signs the wrapper with the same key and adds the result.  The key then verifies, the
signed wrapper is an accepted candidate returning `m`, and when the envelope had no
signature from `k` before, `m` is what verification returns. -/
theorem added_signature_with_metadata_verifies (L : SigLaws V S) (k : Nat) (e r : Env)
    (metas : List Env) (hne : metas ≠ [])
    (hr : addSignature h e (S.sign k e.subject.digest) metas (fun w => S.sign k w.digest) = .ok r)
    (hns : ∀ m, metaEnvelope h (S.sign k e.subject.digest) metas = .ok m →
      NotShadowed h e (signedWrapper h m (fun w => S.sign k w.digest))) :
    ∃ m, metaEnvelope h (S.sign k e.subject.digest) metas = .ok m ∧
      m.subject = newLeaf h (S.sign k e.subject.digest) ∧
      (∀ a ∈ m.assertions, a ∈ metas) ∧
      (∀ a ∈ metas, ∃ a' ∈ m.assertions, a'.digest = a.digest) ∧
      sigCandidate h V k r (signedWrapper h m (fun w => S.sign k w.digest)) = some m ∧
      hasSignatureFrom h V k r = .ok true ∧
      (∃ m', hasSignatureFromReturningMetadata h V k r = .ok (some m')) ∧
      (hasSignatureFrom h V k e = .ok false →
        hasSignatureFromReturningMetadata h V k r = .ok (some m)) := by
  rcases addSignature_ok h hr with ⟨hnil, _⟩ | ⟨_, m, hm, hadd⟩
  · exact absurd hnil hne
  obtain ⟨hs, hold, hkeep, hin⟩ := signedObjects_add h hadd
  have hmf := hm
  rw [metaEnvelope_eq] at hmf
  obtain ⟨hsub, hex, hma, hmb, hnode, _⟩ := metaFold_ok h metas _ m hmf
  have hsubj : m.subject = newLeaf h (S.sign k e.subject.digest) := by
    rw [hsub]; rfl
  have hcand : sigCandidate h V k r (signedWrapper h m (fun w => S.sign k w.digest)) = some m := by
    rw [sigCandidate_wrapper h V k r _ m m _ (signedWrapper_subject h m _)]
    refine ⟨rfl, ⟨newLeaf h (S.sign k (wrap h m).digest),
      (signedWrapper_signedObjects h m _ _).2 rfl, S.sign k (wrap h m).digest,
      extractSignature_newLeaf_sign h L k _, L.correct k _⟩, S.sign k e.subject.digest, ?_, ?_⟩
    · rw [hex]; exact extractSignature_newLeaf_sign h L k _
    · rw [hs]; exact L.correct k _
  have hmem := hin (hns m hm)
  have hvalid : validSig h V k r = true :=
    (validSig_iff h V k r).2 ⟨_, hmem, by rw [hcand]; rfl⟩
  refine ⟨m, hm, hsubj, ?_, ?_, hcand, ?_, ?_, ?_⟩
  · intro a ha
    rcases hma a ha with hx | hx
    · cases hx
    · exact hx
  · intro a ha; exact hmb a (Or.inr ha)
  · rw [hasSig_eq, hvalid]
  · rw [hasSigMeta_eq]
    obtain ⟨m', hm'⟩ := Option.isSome_iff_exists.1 hvalid
    exact ⟨m', by rw [hm']⟩
  · intro hbefore
    rw [hasSig_eq] at hbefore
    have hb : validSig h V k e = false := Res.ok.inj hbefore
    rw [hasSigMeta_eq, findSome?_unique _ _ _ hmem, hcand]
    intro x hx hcx
    rcases hold x hx with hxe | rfl
    · have : validSig h V k e = true :=
        (validSig_iff h V k e).2 ⟨x, hxe, by
          rw [← sigCandidate_congr h V k (congrArg Env.digest hs) x]; exact hcx⟩
      rw [hb] at this; cases this
    · rfl

/-- `add_signature_opt` with one 'note' on the toy subject: all hypotheses hold -/
example : ∃ r, addSignature Toy.hash Toy.subj (Toy.signer.sign 1 Toy.subj.subject.digest) [Toy.note]
      (fun w => Toy.signer.sign 1 w.digest) = .ok r ∧
    (∀ m, metaEnvelope Toy.hash (Toy.signer.sign 1 Toy.subj.subject.digest) [Toy.note] = .ok m →
      NotShadowed Toy.hash Toy.subj (signedWrapper Toy.hash m (fun w => Toy.signer.sign 1 w.digest))) ∧
    hasSignatureFrom Toy.hash Toy.scheme 1 Toy.subj = .ok false := by
  obtain ⟨m, hm⟩ := metaFold_isOk Toy.hash [Toy.note]
    (newLeaf Toy.hash (Toy.signer.sign 1 Toy.subj.subject.digest)) (by simp [Toy.note, newAssertion, Env.slotOk, Env.isSubjectAssertion])
  obtain ⟨r, hr⟩ := addAssertionUnwrap_isOk Toy.hash Toy.subj (signedKV Toy.hash)
    (signedWrapper Toy.hash m (fun w => Toy.signer.sign 1 w.digest))
  refine ⟨r, ?_, fun _ _ _ hx => (by cases hx), rfl⟩
  rw [addSignature_cons, metaEnvelope_eq, hm]
  exact hr

/-! ### 3. ... and under no other key; not for another subject -/

/-- C09: whatever `add_signature_opt` adds for key `k` (with or without metadata, whoever
signs the wrapper, over whatever digest) is not a valid signature from another key: a key
without a signature before has none after -/
theorem other_key_rejects (L : SigLaws V S) (k k' : Nat) (hk : k' ≠ k) (e r : Env) (dg : Digest)
    (metas : List Env) (outer : Env → Cbor)
    (hbefore : hasSignatureFrom h V k' e = .ok false)
    (hr : addSignature h e (S.sign k dg) metas outer = .ok r) :
    hasSignatureFrom h V k' r = .ok false := by
  rw [hasSig_eq] at hbefore ⊢
  have hb : validSig h V k' e = false := Res.ok.inj hbefore
  congr 1
  cases hv : validSig h V k' r with
  | false => rfl
  | true =>
    exfalso
    obtain ⟨so, hso, hc⟩ := (validSig_iff h V k' r).1 hv
    have hnot : ∀ x, extractSignature x = some (S.sign k dg) → ∀ msg, ¬ ReadableSigBy V k' x msg := by
      rintro x hx msg ⟨s, hs, hver⟩
      rw [hx] at hs; cases hs
      exact hk (L.sep _ _ _ _ hver).1
    rcases addSignature_ok h hr with ⟨_, hadd⟩ | ⟨_, m, hm, hadd⟩
    · obtain ⟨hs, hold, _, _⟩ := signedObjects_add h hadd
      rcases hold so hso with hxe | rfl
      · have : validSig h V k' e = true := (validSig_iff h V k' e).2 ⟨so, hxe, by
          rw [← sigCandidate_congr h V k' (congrArg Env.digest hs) so]; exact hc⟩
        rw [hb] at this; cases this
      · rw [sigCandidate_isSome_iff] at hc
        rcases hc with ⟨_, hx⟩ | ⟨_, _, he, _⟩
        · exact hnot _ (extractSignature_newLeaf_sign h L k dg) _ hx
        · cases he
    · obtain ⟨hs, hold, _, _⟩ := signedObjects_add h hadd
      rcases hold so hso with hxe | rfl
      · have : validSig h V k' e = true := (validSig_iff h V k' e).2 ⟨so, hxe, by
          rw [← sigCandidate_congr h V k' (congrArg Env.digest hs) so]; exact hc⟩
        rw [hb] at this; cases this
      · rw [metaEnvelope_eq] at hm
        obtain ⟨_, hex, _⟩ := metaFold_ok h metas _ m hm
        obtain ⟨x, hx⟩ := Option.isSome_iff_exists.1 hc
        have := ((sigCandidate_wrapper h V k' r _ m x _ (signedWrapper_subject h m outer)).1 hx).2.2
        exact hnot m (by rw [hex]; exact extractSignature_newLeaf_sign h L k dg) _ this

example : SigLaws Toy.scheme Toy.signer ∧ (2 : Nat) ≠ 1 ∧
    hasSignatureFrom Toy.hash Toy.scheme 2 Toy.subj = .ok false ∧
    addSignature Toy.hash Toy.subj (Toy.signer.sign 1 Toy.subj.digest) [] (fun _ => .uint 0) =
      .ok Toy.signed1 :=
  ⟨Toy.laws, by decide, rfl, Toy.signed1_eq _⟩

/-- C09: a signature-with-metadata whose wrapper was signed by a *different* key `k2` is
accepted neither for the inner signer `k` nor for `k2` -/
theorem foreign_signed_wrapper_rejects (L : SigLaws V S) (k k2 key : Nat) (hk : k2 ≠ k) (e m : Env)
    (dg : Digest) (metas : List Env)
    (hm : metaEnvelope h (S.sign k dg) metas = .ok m) :
    sigCandidate h V key e (signedWrapper h m (fun w => S.sign k2 w.digest)) = none := by
  cases hc : sigCandidate h V key e (signedWrapper h m (fun w => S.sign k2 w.digest)) with
  | none => rfl
  | some x =>
    exfalso
    obtain ⟨_, ⟨o, ho, s1, hs1, hv1⟩, s2, hs2, hv2⟩ :=
      (sigCandidate_wrapper h V key e _ m x _ (signedWrapper_subject h m _)).1 hc
    rw [(signedWrapper_signedObjects h m _ o).1 ho, extractSignature_newLeaf_sign h L] at hs1
    cases hs1
    rw [metaEnvelope_eq] at hm
    obtain ⟨_, hex, _⟩ := metaFold_ok h metas _ m hm
    rw [hex, extractSignature_newLeaf_sign h L] at hs2
    cases hs2
    have h1 := (L.sep _ _ _ _ hv1).1
    have h2 := (L.sep _ _ _ _ hv2).1
    exact hk (h1.symm.trans h2)

example : SigLaws Toy.scheme Toy.signer ∧ (2 : Nat) ≠ 1 ∧
    ∃ m, metaEnvelope Toy.hash (Toy.signer.sign 1 Toy.subj.digest) [Toy.note] = .ok m :=
  ⟨Toy.laws, by decide, metaFold_isOk Toy.hash [Toy.note] _
    (by simp [Toy.note, newAssertion, Env.slotOk, Env.isSubjectAssertion])⟩

/-- C09: what the signer made over the digest `dg` — the plain signature object or the
signed wrapper with metadata — is not a valid candidate, for any key, in an envelope whose
subject has a different digest -/
theorem other_subject_rejects (L : SigLaws V S) (k key : Nat) (dg : Digest) (e' : Env)
    (hd : e'.subject.digest ≠ dg) :
    sigCandidate h V key e' (newLeaf h (S.sign k dg)) = none ∧
    ∀ metas m outer, metaEnvelope h (S.sign k dg) metas = .ok m →
      sigCandidate h V key e' (signedWrapper h m outer) = none := by
  constructor
  · cases hc : sigCandidate h V key e' (newLeaf h (S.sign k dg)) with
    | none => rfl
    | some x =>
      exfalso
      obtain ⟨s, hs, hv, _⟩ := (sigCandidate_plain h V key e' _ x rfl).1 hc
      rw [extractSignature_newLeaf_sign h L] at hs
      cases hs
      exact hd (L.sep _ _ _ _ hv).2
  · intro metas m outer hm
    cases hc : sigCandidate h V key e' (signedWrapper h m outer) with
    | none => rfl
    | some x =>
      exfalso
      obtain ⟨_, _, s, hs, hv⟩ :=
        (sigCandidate_wrapper h V key e' _ m x _ (signedWrapper_subject h m outer)).1 hc
      rw [metaEnvelope_eq] at hm
      obtain ⟨_, hex, _⟩ := metaFold_ok h metas _ m hm
      rw [hex, extractSignature_newLeaf_sign h L] at hs
      cases hs
      exact hd (L.sep _ _ _ _ hv).2

/-- C09: an envelope all of whose 'signed' objects were made over the digest `dg` has no
valid signature from any key once its subject has another digest (signatures moved onto a
different subject) -/
theorem moved_signatures_reject (L : SigLaws V S) (key : Nat) (dg : Digest) (e' : Env)
    (hd : e'.subject.digest ≠ dg)
    (hall : ∀ so ∈ signedObjects h e', ∃ k, so = newLeaf h (S.sign k dg) ∨
      ∃ metas m outer, metaEnvelope h (S.sign k dg) metas = .ok m ∧ so = signedWrapper h m outer) :
    hasSignatureFrom h V key e' = .ok false := by
  rw [(has_signature_iff h V key e').2]
  intro so hso
  obtain ⟨k, rfl | ⟨metas, m, outer, hm, rfl⟩⟩ := hall so hso
  · exact (other_subject_rejects h L k key dg e' hd).1
  · exact (other_subject_rejects h L k key dg e' hd).2 metas m outer hm

/-- the toy signature over the subject `"b"` transplanted onto the subject `"c"` -/
example : (Env.node (newLeaf Toy.hash (.text [0x63])) [Toy.sa1] ⟨0⟩).subject.digest ≠ Toy.subj.digest ∧
    ∀ so ∈ signedObjects Toy.hash (Env.node (newLeaf Toy.hash (.text [0x63])) [Toy.sa1] ⟨0⟩),
      ∃ k, so = newLeaf Toy.hash (Toy.signer.sign k Toy.subj.digest) ∨
        ∃ metas m outer, metaEnvelope Toy.hash (Toy.signer.sign k Toy.subj.digest) metas = .ok m ∧
          so = signedWrapper Toy.hash m outer := by
  refine ⟨by decide +kernel, ?_⟩
  intro so hso
  obtain ⟨a, ha, q, d, hsub, _⟩ := (mem_signedObjects Toy.hash).1 hso
  simp only [Env.assertions, List.mem_singleton] at ha
  subst ha
  simp only [Toy.sa1, sigAssertion, newAssertion, Env.subject, Env.assertion.injEq] at hsub
  exact ⟨1, Or.inl hsub.2.1.symm⟩

/-! ### 7. thresholds -/

variable (V)

/-- C09: with `valid k` the verdict for key `k`, `has_signatures_from_threshold(keys,
Some(t))` is true iff at least one key of the list is valid and the number of valid keys
(counted with multiplicity) reaches `t` -/
theorem threshold_iff (e : Env) (keys : List Nat) (t : Nat) (valid : Nat → Bool)
    (hv : ∀ k ∈ keys, hasSignatureFrom h V k e = .ok (valid k)) :
    hasSignaturesFromThreshold h V keys (some t) e =
      .ok (decide (1 ≤ validCount valid keys ∧ t ≤ validCount valid keys)) := by
  unfold hasSignaturesFromThreshold
  rw [thresholdLoop_spec h V e _ valid keys 0 hv]
  simp

example : ∀ k ∈ [1, 2], hasSignatureFrom Toy.hash Toy.scheme k Toy.signed1 =
    .ok ((fun k => k == 1) k) := by
  intro k hk
  simp only [List.mem_cons, List.not_mem_nil, or_false] at hk
  rcases hk with rfl | rfl <;> decide +kernel

/-- for a threshold of at least one: true iff at least `t` keys are valid -/
theorem threshold_pos_iff (e : Env) (keys : List Nat) (t : Nat) (ht : 1 ≤ t) (valid : Nat → Bool)
    (hv : ∀ k ∈ keys, hasSignatureFrom h V k e = .ok (valid k)) :
    hasSignaturesFromThreshold h V keys (some t) e = .ok true ↔ t ≤ validCount valid keys := by
  rw [threshold_iff h V e keys t valid hv]
  simp only [Res.ok.injEq, decide_eq_true_eq]
  omega

/-- a threshold of zero behaves like a threshold of one: true iff some key is valid (in
particular false for an empty key list) -/
theorem threshold_zero_iff (e : Env) (keys : List Nat) (valid : Nat → Bool)
    (hv : ∀ k ∈ keys, hasSignatureFrom h V k e = .ok (valid k)) :
    hasSignaturesFromThreshold h V keys (some 0) e = .ok true ↔ 1 ≤ validCount valid keys := by
  rw [threshold_iff h V e keys 0 valid hv]
  simp only [Res.ok.injEq, decide_eq_true_eq]
  omega

/-- C09: without a threshold all keys must be valid — and there must be at least one: for
the empty key list the answer is `false` -/
theorem threshold_none_iff (e : Env) (keys : List Nat) (valid : Nat → Bool)
    (hv : ∀ k ∈ keys, hasSignatureFrom h V k e = .ok (valid k)) :
    hasSignaturesFromThreshold h V keys none e =
      .ok (decide (keys ≠ [] ∧ ∀ k ∈ keys, valid k = true)) := by
  unfold hasSignaturesFromThreshold
  rw [thresholdLoop_spec h V e _ valid keys 0 hv]
  congr 1
  rw [decide_eq_decide]
  simp only [Option.getD_none, Nat.zero_add, validCount]
  have hle := List.countP_le_length (p := valid) (l := keys)
  constructor
  · rintro ⟨h1, h2⟩
    refine ⟨?_, List.countP_eq_length.1 (Nat.le_antisymm hle h2)⟩
    rintro rfl; simp at h1
  · rintro ⟨hne, hall⟩
    rw [List.countP_eq_length.2 hall]
    refine ⟨?_, Nat.le_refl _⟩
    cases keys with
    | nil => exact absurd rfl hne
    | cons _ _ => simp

/-- the empty key list never passes, whatever the threshold -/
theorem threshold_empty (e : Env) (t : Option Nat) :
    hasSignaturesFromThreshold h V [] t e = .ok false := rfl

/-- the threshold check never errs or panics, and its verdict is the count of valid keys -/
theorem threshold_total (e : Env) (keys : List Nat) (t : Option Nat) :
    ∃ valid : Nat → Bool, (∀ k, hasSignatureFrom h V k e = .ok (valid k)) ∧
      hasSignaturesFromThreshold h V keys t e =
        .ok (decide (1 ≤ validCount valid keys ∧ t.getD keys.length ≤ validCount valid keys)) := by
  refine ⟨fun k => validSig h V k e, fun k => hasSig_eq h V k e, ?_⟩
  unfold hasSignaturesFromThreshold
  rw [thresholdLoop_spec h V e _ _ keys 0 (fun k _ => hasSig_eq h V k e)]
  simp

end EnvVerif
