/-
  Props/C14.lean — equivalence and identity.

  "Two envelopes are reported equivalent iff their digests are equal, and identical (==)
  iff they are equivalent and have the same pattern of elided, encrypted and compressed
  positions. Identity is reflexive, symmetric and transitive, implies equivalence, is
  preserved by encoding and decoding, and obscuring any present element gives a result
  that is equivalent but not identical to the original."

  `tokens e` (Lemmas/WalkLemmas.lean) lists, for every walked element in walk order, the
  discriminator (`some 1` elided, `some 0` encrypted, `some 2` compressed, `none` otherwise)
  and the digest; the structural image is the unframed concatenation of the tokens.
-/
import EnvVerif.Lemmas.WalkLemmas
namespace EnvVerif
open Env AW

/-! ### equivalence -/

theorem equivalent_iff_digest (a b : Env) : isEquivalentTo a b = true ↔ a.digest = b.digest := by
  simp [isEquivalentTo]

/-! ### identity: definition unfolded -/

/-- one token per walked element: its obscuring discriminator and its digest -/
theorem tokens_spec (e : Env) : tokens e = (elements e).map fun x => (disc x, x.digest) :=
  tokens_eq_elements e

/-- the hashed image is the concatenation of the tokens, the discriminator byte prepended
without framing -/
theorem structuralImage_tokens (e : Env) :
    structuralImage e = (tokens e).flatMap fun t => t.1.toList ++ t.2.bytes :=
  structuralImage_eq_tokens e

theorem identical_iff_tokens_hash (h : Hash) (a b : Env) :
    isIdenticalTo h a b = true ↔
      a.digest = b.digest ∧ h.H (structuralImage a) = h.H (structuralImage b) := by
  unfold isIdenticalTo isEquivalentTo structuralDigest
  by_cases hd : a.digest = b.digest <;> simp [hd]

theorem identical_refl (h : Hash) (a : Env) : isIdenticalTo h a a = true :=
  (identical_iff_tokens_hash h a a).2 ⟨rfl, rfl⟩

theorem identical_symm (h : Hash) (a b : Env) : isIdenticalTo h a b = isIdenticalTo h b a := by
  rw [Bool.eq_iff_iff, identical_iff_tokens_hash, identical_iff_tokens_hash]
  exact ⟨fun ⟨x, y⟩ => ⟨x.symm, y.symm⟩, fun ⟨x, y⟩ => ⟨x.symm, y.symm⟩⟩

theorem identical_trans (h : Hash) (a b c : Env) (hab : isIdenticalTo h a b = true)
    (hbc : isIdenticalTo h b c = true) : isIdenticalTo h a c = true := by
  rw [identical_iff_tokens_hash] at *
  exact ⟨hab.1.trans hbc.1, hab.2.trans hbc.2⟩

theorem identical_implies_equivalent (h : Hash) (a b : Env) (hab : isIdenticalTo h a b = true) :
    isEquivalentTo a b = true :=
  (equivalent_iff_digest a b).2 ((identical_iff_tokens_hash h a b).1 hab).1

/-- equal token lists give identical envelopes, for every hash -/
theorem identical_of_tokens (h : Hash) (a b : Env) (hd : a.digest = b.digest)
    (ht : tokens a = tokens b) : isIdenticalTo h a b = true := by
  rw [identical_iff_tokens_hash, structuralImage_eq_tokens, structuralImage_eq_tokens, ht]
  exact ⟨hd, rfl⟩

/-- identity is preserved by encoding and decoding: with the round trip of C05
(`decode h (encode e) = .ok e` for `Inv h e`, proved there) the decoded envelope is
identical to the original -/
theorem identical_decode_encode (h : Hash) (e e' : Env) (hrt : decode h (encode e) = .ok e)
    (hdec : decode h (encode e) = .ok e') : isIdenticalTo h e e' = true := by
  rw [hrt] at hdec
  injection hdec with hdec
  subst hdec
  exact identical_refl h e

/-! ### unique decodability of the image -/

theorem digest_bytes_length (d : Digest) : d.bytes.length = 32 := bytes_length32 d

/-- 256-bit digests are determined by their 32 bytes -/
theorem digest_bytes_injective (d1 d2 : Digest) (h1 : d1.Valid) (h2 : d2.Valid)
    (hb : d1.bytes = d2.bytes) : d1 = d2 := digestBytes_inj h1 h2 hb

/-- If no *non-obscured* walked element of either envelope has a digest whose first byte is
0, 1 or 2, equal images have equal tokens (digests compared as 32-byte strings). -/
theorem image_injective_bytes (a b : Env) (ha : PlainHeadsOk a) (hb : PlainHeadsOk b)
    (himg : structuralImage a = structuralImage b) :
    (tokens a).map (fun t => (t.1, t.2.bytes)) = (tokens b).map (fun t => (t.1, t.2.bytes)) := by
  rw [structuralImage_eq_tokens, structuralImage_eq_tokens] at himg
  exact flat_inj _ _ (tokens_ok ha) (tokens_ok hb) himg

/-- ... and equal tokens when moreover all walked digests are 256-bit values -/
theorem image_injective (a b : Env) (ha : PlainHeadsOk a) (hb : PlainHeadsOk b)
    (hva : DigestsValid a) (hvb : DigestsValid b)
    (himg : structuralImage a = structuralImage b) : tokens a = tokens b := by
  apply map_tokB_inj _ _ _ _ (image_injective_bytes a b ha hb himg)
  · intro t ht
    rw [tokens_eq_elements, List.mem_map] at ht
    obtain ⟨x, hx, rfl⟩ := ht
    exact hva x hx
  · intro t ht
    rw [tokens_eq_elements, List.mem_map] at ht
    obtain ⟨x, hx, rfl⟩ := ht
    exact hvb x hx

/-- The hypothesis of DESIGN.md ("no walked digest is `b^32` for `b ∈ {0,1,2}`") is *not*
sufficient for `image_injective`: two envelopes whose walked digests are 5, 2^248, 7 and
5, 1, 7 have the same image and different tokens. -/
theorem image_not_injective_without_head_hypothesis :
    ∃ a b : Env, structuralImage a = structuralImage b ∧ tokens a ≠ tokens b ∧
      a.digest = b.digest ∧ DigestsValid a ∧ DigestsValid b ∧
      (∀ x ∈ elements a ++ elements b, ∀ c : UInt8, x.digest.bytes ≠ List.replicate 32 c) := by
  refine ⟨.assertion (.leaf (.uint 0) ⟨2 ^ 248⟩) (.elided ⟨7⟩) ⟨5⟩,
    .assertion (.elided ⟨1⟩) (.leaf (.uint 0) ⟨7⟩) ⟨5⟩, ?_, ?_, rfl, ?_, ?_, ?_⟩
  · decide
  · decide
  · intro x hx; simp [elements] at hx; rcases hx with h | h | h <;> subst h <;> simp [Env.digest, Digest.Valid]
  · intro x hx; simp [elements] at hx; rcases hx with h | h | h <;> subst h <;> simp [Env.digest, Digest.Valid]
  · intro x hx c hc
    have h0 := congrArg (fun l => l[0]?) hc
    have h31 := congrArg (fun l => l[31]?) hc
    simp [elements] at hx
    rcases hx with h | h | h | h | h | h <;> subst h <;>
      simp [Env.digest, Digest.bytes, beBytes] at h0 h31 <;>
      (rw [← h0] at h31; exact absurd h31 (by decide))

/-- identity in terms of tokens, for a hash that separates the two images involved -/
theorem identical_iff_tokens (h : Hash) (a b : Env) (ha : PlainHeadsOk a) (hb : PlainHeadsOk b)
    (hva : DigestsValid a) (hvb : DigestsValid b)
    (hH : h.H (structuralImage a) = h.H (structuralImage b) → structuralImage a = structuralImage b) :
    isIdenticalTo h a b = true ↔ a.digest = b.digest ∧ tokens a = tokens b := by
  constructor
  · intro hi
    obtain ⟨hd, himg⟩ := (identical_iff_tokens_hash h a b).1 hi
    exact ⟨hd, image_injective a b ha hb hva hvb (hH himg)⟩
  · intro ⟨hd, ht⟩
    exact identical_of_tokens h a b hd ht

/-! ### obscuring gives an equivalent, non-identical envelope -/

/-- eliding the root of a non-obscured envelope: equivalent; tokens and image differ (no
hypothesis); not identical as soon as the hash separates the two images -/
theorem elide_root_equivalent_not_identical (h : Hash) (e : Env) (he : e.isObscured = false)
    (hH : h.H (structuralImage e) = h.H (structuralImage (elide e)) →
      structuralImage e = structuralImage (elide e)) :
    isEquivalentTo e (elide e) = true ∧ tokens (elide e) ≠ tokens e ∧
      structuralImage (elide e) ≠ structuralImage e ∧ isIdenticalTo h e (elide e) = false := by
  have himg := image_elide_ne he
  refine ⟨?_, ?_, himg, ?_⟩
  · rw [equivalent_iff_digest, elide_of_not_obscured he]; rfl
  · intro ht
    apply himg
    rw [structuralImage_eq_tokens, structuralImage_eq_tokens, ht]
  · cases hi : isIdenticalTo h e (elide e) with
    | false => rfl
    | true =>
      exact absurd (hH ((identical_iff_tokens_hash h e _).1 hi).2).symm himg

/-- **obscuring any present element**: eliding a target set that hits at least one walked
element which is not already elided (in particular the singleton `{x.digest}` for a present
non-obscured `x`) gives an envelope with the same digest — hence equivalent — whose tokens
differ from the original's.  No hypothesis on the hash. -/
theorem elideSet_equivalent_tokens_ne (h : Hash) (A : Aead) (Z : Deflate) (T : Digest → Bool)
    (e r x : Env) (hi : Inv h e) (hx : x ∈ elements e) (hT : T x.digest = true)
    (hxe : x.isElided = false) (hr : elideSet h A Z T false .elide e = .ok r) :
    isEquivalentTo e r = true ∧ tokens r ≠ tokens e := by
  obtain ⟨hd, hdiff⟩ := elideSet_diff h A Z T e r hi hr
  have hdf := hdiff.2 ⟨x, hx, hT, hxe⟩
  exact ⟨(equivalent_iff_digest e r).2 hd.symm, fun hh => (TokDiff.ne hdf) hh.symm⟩

/-- ... and not identical, when the image is uniquely decodable (hypothesis of
`image_injective_bytes` on both envelopes) and the hash separates the two images.  (Unlike
the root case the decodability hypothesis is needed here: a hit deeper in the tree removes
and inserts bytes in the middle of the unframed image.) -/
theorem elideSet_equivalent_not_identical (h : Hash) (A : Aead) (Z : Deflate) (T : Digest → Bool)
    (e r x : Env) (hi : Inv h e) (hx : x ∈ elements e) (hT : T x.digest = true)
    (hxe : x.isElided = false) (hr : elideSet h A Z T false .elide e = .ok r)
    (hpe : PlainHeadsOk e) (hpr : PlainHeadsOk r)
    (hH : h.H (structuralImage e) = h.H (structuralImage r) →
      structuralImage e = structuralImage r) :
    isEquivalentTo e r = true ∧ structuralImage r ≠ structuralImage e ∧
      isIdenticalTo h e r = false := by
  obtain ⟨hd, hdiff⟩ := elideSet_diff h A Z T e r hi hr
  have hdf := hdiff.2 ⟨x, hx, hT, hxe⟩
  have himg : structuralImage r ≠ structuralImage e := fun hh =>
    (TokDiff.tokB_ne hdf) (image_injective_bytes e r hpe hpr hh.symm)
  refine ⟨(equivalent_iff_digest e r).2 hd.symm, himg, ?_⟩
  cases hid : isIdenticalTo h e r with
  | false => rfl
  | true => exact absurd (hH ((identical_iff_tokens_hash h e _).1 hid).2).symm himg

/-- ... and a target set that hits no non-elided element changes nothing -/
theorem elideSet_no_hit_unchanged (h : Hash) (A : Aead) (Z : Deflate) (T : Digest → Bool)
    (e r : Env) (hi : Inv h e) (hno : ∀ x ∈ elements e, T x.digest = true → x.isElided = true)
    (hr : elideSet h A Z T false .elide e = .ok r) : r = e := by
  obtain ⟨_, hdiff⟩ := elideSet_diff h A Z T e r hi hr
  apply hdiff.1
  rintro ⟨x, hx, hT, hxe⟩
  rw [hno x hx hT] at hxe
  exact absurd hxe (by simp)

/-! ### the hypotheses are satisfiable -/

section Examples
open AW.Toy

/-- `image_injective`, `identical_iff_tokens`: digests with first byte 3 -/
example : PlainHeadsOk exHi ∧ DigestsValid exHi ∧ (elements exHi).length = 4 := exHi_ok

/-- `elide_root_equivalent_not_identical`: a non-obscured envelope and a hash (the length)
that separates the two images -/
example : exHi.isObscured = false ∧
    (hLen.H (structuralImage exHi) = hLen.H (structuralImage (elide exHi)) →
      structuralImage exHi = structuralImage (elide exHi)) := by
  refine ⟨rfl, ?_⟩
  intro hh
  exfalso
  revert hh
  rw [structuralImage_eq_tokens, structuralImage_eq_tokens]
  simp [hLen, tokens, exHi, walkStructure, elide, newElided, tokenBytes, tok, disc,
    bytes_length32]

/-- `elideSet_equivalent_tokens_ne`, `elideSet_equivalent_not_identical`: eliding the
assertion `exA1` of `exNode` -/
example : Inv hLen exNode ∧ exA1 ∈ elements exNode ∧ exA1.isElided = false := by
  refine ⟨exNode_inv, ?_, rfl⟩
  simp [exNode, nodeOf, elements, elementsList, exA1, newAssertion]
/-- `elideSet_equivalent_not_identical`: all hypotheses together, for a hash whose digests
start with byte 3: a wrapped leaf whose leaf is elided -/
example (A : Aead) (Z : Deflate) :
    Inv hHi exW ∧ newLeaf hHi (.uint 1) ∈ elements exW ∧
    (elideSet hHi A Z (fun d => d == (newLeaf hHi (.uint 1)).digest) false .elide exW = .ok exWr) ∧
    PlainHeadsOk exW ∧ PlainHeadsOk exWr ∧
    (hHi.H (structuralImage exW) = hHi.H (structuralImage exWr) →
      structuralImage exW = structuralImage exWr) :=
  ⟨exW_inv, by simp only [exW, newWrapped, elements, List.mem_cons]; exact Or.inr (mem_elements_self _),
    exW_elide A Z, exW_heads.1, exW_heads.2, exW_sep⟩
end Examples

end EnvVerif
