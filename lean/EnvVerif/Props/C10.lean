/-
  Props/C10.lean — public-key recipients (`src/extension/recipient.rs`).

  "An envelope whose subject was encrypted to a list of recipients can be opened by every
  one of them, and by nobody else; encrypting to recipients changes no digest beyond adding
  the `'hasRecipient'` assertions; adding a recipient never takes the ability to open away
  from an earlier one; sealed messages of another encapsulation scheme are skipped."

  Model: `Model/Recipient.lean`.  The content key, the nonce and the sealed messages that the
  library draws from its RNG are explicit arguments.  Vocabulary (`Lemmas/RecipientLemmas.lean`,
  `Lemmas/RecipientLaws.lean`):
  * `RecL.sealsFor S ck krs` — the sealed messages `S.sealTo k (content key as tagged CBOR) r`
    for the recipients `krs = [(k, r), ..]` (key id, sender's randomness);
  * `RecL.recAs h sealeds` — the assertions `'hasRecipient': s` for `s ∈ sealeds`;
  * `RecL.opens K key s` — what `first_plaintext_in_sealed_messages` gets from one sealed
    message: `none` when its scheme differs from the key's, else `K.unsealMsg key s`;
  * `RecL.NoShadow e l` — among the assertions of `e` and the assertions `l` about to be added,
    only an assertion itself carries its digest.  It is needed because
    `add_assertion_envelope` silently ignores an assertion whose digest is already carried by
    an element (e.g. an elided placeholder with that digest): such a recipient is *not*
    added (`c10_shadowed_recipient_lost` below is the witness).

  Hypotheses (never axioms): `Inv h e`, `hH` (the hash returns 32 bytes), `RoundTrips h x`
  for the one envelope that is encrypted (conclusion of C05), `AeadLaws A`, `KemLaws K S`
  (both satisfied by toy instances: `ToyDeps.toyAead_laws`, `ToyRec.kem_laws`).
-/
import EnvVerif.Lemmas.RecipientLemmas
import EnvVerif.Model.Seal
import EnvVerif.Props.C09
import EnvVerif.Props.C05
namespace EnvVerif
open Env ToyDeps ToyRec RecL RecL.Ex SigL

section
variable (h : Hash) (A : Aead)

/-! ### every recipient opens -/

/-- C10: every listed recipient opens the envelope built by `encrypt_subject_to_recipients`,
and what it gets is *exactly* the original envelope with the `'hasRecipient'` assertions
added (same subject, the stored assertions and the digest of the encrypted envelope).
`olds` are the sealed messages already present in `e` (none, normally); a recipient may
open such an earlier one only if it holds the same content key. -/
theorem c10_each_recipient_opens {K : Kem} {S : Sealer} (LA : AeadLaws A) (LK : KemLaws K S)
    (ck n : Bytes) (krs : List (Nat × Nat)) (e r : Env) (olds : List Cbor)
    (hi : Inv h e) (hH : ∀ b, (h.H b).Valid) (hrt : RoundTrips h e.subject) (hck : ck.length = 32)
    (hold : recipients h e = .ok olds)
    (hns : NoShadow e (recAs h (sealsFor S ck krs)))
    (hr : encryptSubjectToRecipients h A ck n (sealsFor S ck krs) e = .ok r) :
    ∀ k ∈ krs.map Prod.fst,
      (∀ s ∈ olds, ∀ q, opens K k s = some q → q = (symmetricKeyCbor ck).enc) →
      ∃ x, decryptSubjectToRecipient h A K k r = .ok x ∧
        x.subject = e.subject ∧ x.assertions = r.assertions ∧ x.digest = r.digest ∧
        (sealsFor S ck krs).foldl (fun (acc : Res Env) s => acc.bind fun y => addRecipient h y s)
          (Res.ok e) = .ok x := by
  intro k hk holds
  obtain ⟨rfl, _⟩ := encryptSubjectToRecipients_ok h A hi hH hr
  refine ⟨builtPlain h (sealsFor S ck krs) e,
    recipient_opens h A LA LK hi hH hrt hck n krs hold hk holds hns,
    builtPlain_subject h _ hi, ?_, (built_digest h A ck n _ e).symm,
    addRecipients_closed_inv h hi _⟩
  rw [builtPlain_assertions h _ hi, built_assertions]

/- all hypotheses hold together (toy hash, AEAD and KEM; `"b" [ 1: 10 ]` encrypted to the
keys 1 and 2): both open and get the subject back -/
example : ∃ r, encryptSubjectToRecipients H toyAead ck [1] (sealsFor sealer ck krs) nd = .ok r ∧
    ∀ k ∈ [1, 2], ∃ x, decryptSubjectToRecipient H toyAead kem k r = .ok x ∧
      x.subject = nd.subject := by
  have hr := encryptSubjectToRecipients_eq H toyAead ck [1] (sealsFor sealer ck krs) nd_inv hash_valid
  rw [show Obs.encryptRefusal nd = none from rfl] at hr
  refine ⟨_, hr, ?_⟩
  intro k hk
  obtain ⟨x, hx, hs, _⟩ := c10_each_recipient_opens H toyAead toyAead_laws kem_laws ck [1] krs nd _ []
    nd_inv hash_valid subj_rt ck_len nd_recipients nd_noShadow hr k hk (by simp)
  exact ⟨x, hx, hs⟩

/-! ### only a recipient opens -/

/-- C10: a key that is not in the list (and that opens none of the sealed messages already
present in `e`) gets `UnknownRecipient` -/
theorem c10_non_recipient_fails {K : Kem} {S : Sealer} (LK : KemLaws K S)
    (ck n : Bytes) (krs : List (Nat × Nat)) (e r : Env) (olds : List Cbor)
    (hi : Inv h e) (hH : ∀ b, (h.H b).Valid) (hold : recipients h e = .ok olds)
    (hr : encryptSubjectToRecipients h A ck n (sealsFor S ck krs) e = .ok r)
    (k : Nat) (hk : k ∉ krs.map Prod.fst) (holds : ∀ s ∈ olds, opens K k s = none) :
    decryptSubjectToRecipient h A K k r = .err "UnknownRecipient" := by
  obtain ⟨rfl, _⟩ := encryptSubjectToRecipients_ok h A hi hH hr
  exact non_recipient_refused h A LK ck n krs hold hk holds

example : ∃ r, encryptSubjectToRecipients H toyAead ck [1] (sealsFor sealer ck krs) nd = .ok r ∧
    decryptSubjectToRecipient H toyAead kem 3 r = .err "UnknownRecipient" := by
  have hr := encryptSubjectToRecipients_eq H toyAead ck [1] (sealsFor sealer ck krs) nd_inv hash_valid
  rw [show Obs.encryptRefusal nd = none from rfl] at hr
  exact ⟨_, hr, c10_non_recipient_fails H toyAead kem_laws ck [1] krs nd _ [] nd_inv hash_valid
    nd_recipients hr 3 (by decide) (by simp)⟩

/-! ### digests -/

/-- C10: the subject keeps its digest (and is encrypted); the digest of the result is the
digest of the envelope obtained by adding the same `'hasRecipient'` assertions *without*
encrypting, which has the same stored assertions and the original subject; with no
recipient the digest is the original one -/
theorem c10_digest_preserved (ck n : Bytes) (sealeds : List Cbor) (e r : Env)
    (hi : Inv h e) (hH : ∀ b, (h.H b).Valid)
    (hr : encryptSubjectToRecipients h A ck n sealeds e = .ok r) :
    r.subject.digest = e.subject.digest ∧ r.subject.isEncrypted = true ∧
    (∃ r0, sealeds.foldl (fun (acc : Res Env) s => acc.bind fun y => addRecipient h y s) (Res.ok e)
        = .ok r0 ∧ r.digest = r0.digest ∧ r.assertions = r0.assertions ∧ r0.subject = e.subject) ∧
    (sealeds = [] → r.digest = e.digest) := by
  obtain ⟨rfl, _⟩ := encryptSubjectToRecipients_ok h A hi hH hr
  refine ⟨by rw [built_subject]; rfl, by rw [built_subject]; rfl,
    ⟨builtPlain h sealeds e, addRecipients_closed_inv h hi _, built_digest h A ck n _ e, ?_,
      builtPlain_subject h _ hi⟩, ?_⟩
  · rw [builtPlain_assertions h _ hi, built_assertions]
  · rintro rfl
    rw [built_digest]
    simp only [builtPlain, recAs, List.map_nil, List.foldl_nil, (AW.rebuild_of_inv hi).1]

example : ∃ r, encryptSubjectToRecipients H toyAead ck [1] (sealsFor sealer ck krs) nd = .ok r ∧
    r.subject.digest = nd.subject.digest := by
  have hr := encryptSubjectToRecipients_eq H toyAead ck [1] (sealsFor sealer ck krs) nd_inv hash_valid
  rw [show Obs.encryptRefusal nd = none from rfl] at hr
  exact ⟨_, hr, (c10_digest_preserved H toyAead ck [1] _ nd _ nd_inv hash_valid hr).1⟩

/-! ### adding a recipient -/

/-- C10: `add_recipient` keeps the subject; the sealed messages found by `recipients()` are
the earlier ones plus (unless shadowed) the new one; and every key that does not open the new
sealed message and could open the envelope before can open it afterwards (to an envelope
with the digest and the stored assertions of the new one) -/
theorem c10_add_recipient_monotone {K : Kem} (e r : Env) (s : Cbor) (hi : Inv h e)
    (hs : ∃ x, s = .tagged TAG_SEALED_MESSAGE x) (hr : addRecipient h e s = .ok r) :
    r.subject = e.subject ∧
    (∀ l, recipients h e = .ok l →
      ∃ l', recipients h r = .ok l' ∧ (∀ x ∈ l, x ∈ l') ∧ (∀ x ∈ l', x ∈ l ∨ x = s) ∧
        (NoShadow e [hasRecipientAssertion h s] → s ∈ l')) ∧
    (∀ k x, opens K k s = none → decryptSubjectToRecipient h A K k e = .ok x →
      ∃ x', decryptSubjectToRecipient h A K k r = .ok x' ∧ x'.digest = r.digest ∧
        x'.assertions = r.assertions) := by
  refine ⟨?_, fun l hl => addRecipient_recipients h hi hs hr hl,
    fun k x hno hx => addRecipient_keeps h A hi hs hr hno hx⟩
  rw [addRecipient_eq] at hr
  exact addAssertionEnvelope_subject h hr

/-- ... in particular with the sealing side of `KemLaws`: sealing to `k'` disturbs no other
key -/
theorem c10_add_recipient_other_keys {K : Kem} {S : Sealer} (LK : KemLaws K S) (e r : Env)
    (k' : Nat) (p : Bytes) (rnd : Nat) (hi : Inv h e)
    (hr : addRecipient h e (S.sealTo k' p rnd) = .ok r) (k : Nat) (hk : k ≠ k') (x : Env)
    (hx : decryptSubjectToRecipient h A K k e = .ok x) :
    ∃ x', decryptSubjectToRecipient h A K k r = .ok x' ∧ x'.digest = r.digest :=
  let ⟨x', h1, h2, _⟩ := (c10_add_recipient_monotone h A e r _ hi (LK.tagged _ _ _) hr).2.2 k x
    (opens_seal_other LK _ _ hk) hx
  ⟨x', h1, h2⟩

/- recipient 1 opens the envelope encrypted to 1 and 2, also after 4 was added -/
example : ∃ r r', encryptSubjectToRecipients H toyAead ck [1] (sealsFor sealer ck krs) nd = .ok r ∧
    addRecipient H r (sealer.sealTo 4 (symmetricKeyCbor ck).enc 0) = .ok r' ∧
    ∃ x', decryptSubjectToRecipient H toyAead kem 1 r' = .ok x' ∧ x'.digest = r'.digest := by
  have hr := encryptSubjectToRecipients_eq H toyAead ck [1] (sealsFor sealer ck krs) nd_inv hash_valid
  rw [show Obs.encryptRefusal nd = none from rfl] at hr
  obtain ⟨x, hx, _⟩ := c10_each_recipient_opens H toyAead toyAead_laws kem_laws ck [1] krs nd _ []
    nd_inv hash_valid subj_rt ck_len nd_recipients nd_noShadow hr 1 (by decide) (by simp)
  have hri : Inv H (built H toyAead ck [1] (sealsFor sealer ck krs) nd) := by
    have := Obs.encryptSubjectSpec_inv H toyAead ck [1] nd_inv hash_valid
    obtain ⟨r0, h0⟩ := addRecipient_isOk H (Obs.encryptSubjectSpec toyAead ck [1] nd)
      (sealer.sealTo 1 (symmetricKeyCbor ck).enc 0)
    exact rebuild_inv H (Obs.inv_subject this)
      (fun a ha => by
        rcases mem_foldl_normAdd_sub _ ha with h1 | h1
        · simp only [nd, Env.assertions, List.mem_singleton] at h1
          subst h1
          exact ⟨by simp [a1, WF, newAssertion, newLeaf, newKnownValue, Env.digest],
            by simp [a1, Canon, newAssertion, newLeaf, newKnownValue]⟩
        · simp only [recAs, List.mem_map] at h1
          obtain ⟨s, _, rfl⟩ := h1
          exact ⟨by simp [hasRecipientAssertion, WF, newAssertion, newLeaf, newKnownValue, Env.digest],
            by simp [hasRecipientAssertion, Canon, newAssertion, newLeaf, newKnownValue]⟩)
      (asc_foldl_normAdd H nd_inv _)
      (fun a ha => by
        rcases mem_foldl_normAdd_sub _ ha with h1 | h1
        · simp only [nd, Env.assertions, List.mem_singleton] at h1
          subst h1; rfl
        · simp only [recAs, List.mem_map] at h1
          obtain ⟨s, _, rfl⟩ := h1; rfl)
  obtain ⟨r', hr'⟩ := addRecipient_isOk H (built H toyAead ck [1] (sealsFor sealer ck krs) nd)
    (sealer.sealTo 4 (symmetricKeyCbor ck).enc 0)
  exact ⟨_, r', hr, hr', c10_add_recipient_other_keys H toyAead kem_laws _ r' 4 _ 0 hri hr' 1
    (by decide) x hx⟩

/-- the reason for `NoShadow`: when the envelope already carries an element with the digest of
the new `'hasRecipient'` assertion (here: its elided form), `add_recipient` changes nothing,
and the recipient is *not* added — for every hash, sealed message and subject -/
theorem c10_shadowed_recipient_lost (s : Cbor) (subject : Env) (d : Digest) :
    addRecipient h (.node subject [.elided (hasRecipientAssertion h s).digest] d) s =
      .ok (.node subject [.elided (hasRecipientAssertion h s).digest] d) ∧
    recipients h (.node subject [.elided (hasRecipientAssertion h s).digest] d) = .ok [] := by
  constructor
  · simp [addRecipient, addAssertionEnvelope, hasRecipientAssertion, newAssertion, slotOk,
      isSubjectAssertion, Env.digest]
  · simp [recipients, assertionsWithPredicate, Env.assertions, Env.subject, asPredicate,
      recipientsLoop]

/-! ### the wrapped whole -/

/-- C10: `decrypt_to_recipient(encrypt_to_recipient(e)) = e` for the recipient, and
`UnknownRecipient` for every other key -/
theorem c10_encryptToRecipient_roundtrip {K : Kem} {S : Sealer} (LA : AeadLaws A)
    (LK : KemLaws K S) (ck n : Bytes) (k rnd : Nat) (e r : Env) (hi : Inv h e)
    (hH : ∀ b, (h.H b).Valid) (hrt : RoundTrips h (wrap h e)) (hck : ck.length = 32)
    (hr : encryptToRecipient h A ck n (S.sealTo k (symmetricKeyCbor ck).enc rnd) e = .ok r) :
    decryptToRecipient h A K k r = .ok e ∧
      ∀ k', k' ≠ k → decryptToRecipient h A K k' r = .err "UnknownRecipient" := by
  have hr' : encryptSubjectToRecipients h A ck n (sealsFor S ck [(k, rnd)]) (wrap h e) = .ok r := by
    have hs : sealsFor S ck [(k, rnd)] = [S.sealTo k (symmetricKeyCbor ck).enc rnd] := by
      simp only [sealsFor, List.map_cons, List.map_nil]
    rw [hs]
    unfold encryptToRecipient at hr
    cases hx : encryptSubjectToRecipients h A ck n [S.sealTo k (symmetricKeyCbor ck).enc rnd]
        (wrap h e) with
    | ok r' => rw [hx] at hr; cases hr; rfl
    | err y => rw [hx] at hr; cases hr
    | panic y => rw [hx] at hr; cases hr
  have hiw := Obs.inv_wrap hi
  have hns : NoShadow (wrap h e) (recAs h (sealsFor S ck [(k, rnd)])) := by
    intro a ha y hy _
    rcases hy with hy | hy
    · cases hy
    · simp only [recAs, sealsFor, List.map_cons, List.map_nil, List.mem_singleton] at ha hy
      rw [ha, hy]
  constructor
  · obtain ⟨x, hx, hsub, _⟩ := c10_each_recipient_opens h A LA LK ck n [(k, rnd)] (wrap h e) r []
      hiw hH hrt hck (recipients_wrap h e) hns hr' k (by simp) (by simp)
    unfold decryptToRecipient
    rw [hx]
    show unwrap x = .ok e
    unfold unwrap
    rw [hsub]
    rfl
  · intro k' hk'
    unfold decryptToRecipient
    rw [c10_non_recipient_fails h A LK ck n [(k, rnd)] (wrap h e) r [] hiw hH (recipients_wrap h e)
      hr' k' (by simpa using hk') (by simp)]
    rfl

example : ∃ r, encryptToRecipient H toyAead ck [1] (sealer.sealTo 2 (symmetricKeyCbor ck).enc 0) subj
      = .ok r ∧
    decryptToRecipient H toyAead kem 2 r = .ok subj ∧
    decryptToRecipient H toyAead kem 1 r = .err "UnknownRecipient" := by
  have hr := encryptSubjectToRecipients_eq H toyAead ck [1]
    [sealer.sealTo 2 (symmetricKeyCbor ck).enc 0] (Obs.inv_wrap subj_inv) hash_valid
  rw [show Obs.encryptRefusal (wrap H subj) = none from rfl] at hr
  have hr2 : encryptToRecipient H toyAead ck [1] (sealer.sealTo 2 (symmetricKeyCbor ck).enc 0) subj =
      .ok (built H toyAead ck [1] [sealer.sealTo 2 (symmetricKeyCbor ck).enc 0] (wrap H subj)) := by
    unfold encryptToRecipient
    rw [hr]
  obtain ⟨h1, h2⟩ := c10_encryptToRecipient_roundtrip H toyAead toyAead_laws kem_laws ck [1] 2 0 subj _
    subj_inv hash_valid wrap_subj_rt ck_len hr2
  exact ⟨_, hr2, h1, h2 1 (by decide)⟩

/-! ### no panic -/

/-- C10: none of the recipient operations panics: `recipients()` and `add_recipient` on any
envelope; `decrypt_subject_to_recipient` / `decrypt_to_recipient` on a canonical one;
`encrypt_subject_to_recipients` on an envelope satisfying the invariant, and
`encrypt_to_recipient` (whose `unwrap()` would panic on an error) always succeeds there -/
theorem c10_no_panic {K : Kem} (e : Env) (p : String) :
    recipients h e ≠ .panic p ∧
    (∀ s, addRecipient h e s ≠ .panic p) ∧
    (Canon e → ∀ key, decryptSubjectToRecipient h A K key e ≠ .panic p ∧
      decryptToRecipient h A K key e ≠ .panic p) ∧
    (Inv h e → (∀ b, (h.H b).Valid) → ∀ ck n,
      (∀ sealeds, encryptSubjectToRecipients h A ck n sealeds e ≠ .panic p) ∧
      (∀ s, ∃ r, encryptToRecipient h A ck n s e = .ok r)) := by
  refine ⟨recipients_np h e p, ?_, ?_, ?_⟩
  · intro s
    obtain ⟨r, hr⟩ := addRecipient_isOk h e s
    rw [hr]; intro hh; cases hh
  · intro hc key
    exact ⟨decryptSubjectToRecipient_np h A (canon_node_ne hc) p,
      decryptToRecipient_np h A (canon_node_ne hc) p⟩
  · intro hi hH ck n
    constructor
    · intro sealeds
      rw [encryptSubjectToRecipients_eq h A ck n sealeds hi hH]
      cases Obs.encryptRefusal e <;> (intro hh; cases hh)
    · intro s
      unfold encryptToRecipient
      rw [encryptSubjectToRecipients_eq h A ck n [s] (Obs.inv_wrap hi) hH]
      exact ⟨_, rfl⟩

example (p : String) : decryptSubjectToRecipient H toyAead kem 1 nd ≠ .panic p :=
  ((c10_no_panic H toyAead (K := kem) nd p).2.2.1 nd_inv.2 1).1

/-! ### foreign schemes -/

/-- C10 (the repaired `first_plaintext_in_sealed_messages`): a sealed message whose
encapsulation scheme differs from the key's is never handed to `unseal`: the outcome does not
depend on what `unseal` would do with it (two KEMs that agree on the schemes and on the
messages of the key's own scheme give the same outcome), and such a message can be dropped
from the list without changing what is found -/
theorem c10_scheme_mismatch_skipped (K K' : Kem) (key : Nat) (e : Env)
    (hs : K'.schemeOfSealed = K.schemeOfSealed) (hk : K'.schemeOfKey key = K.schemeOfKey key)
    (hu : ∀ s, K.schemeOfSealed s = K.schemeOfKey key → K'.unsealMsg key s = K.unsealMsg key s) :
    decryptSubjectToRecipient h A K' key e = decryptSubjectToRecipient h A K key e ∧
    ∀ s l1 l2, K.schemeOfSealed s ≠ K.schemeOfKey key →
      firstPlaintext K key (l1 ++ s :: l2) = firstPlaintext K key (l1 ++ l2) :=
  ⟨decryptSubjectToRecipient_congr h A e (opens_congr hs hk hu),
    fun _ l1 l2 hm => firstPlaintext_skip_mismatch hm l1 l2⟩

/- a KEM that would wrongly "open" messages of the other scheme gives the same outcome -/
example (e : Env) :
    decryptSubjectToRecipient H toyAead
      ⟨fun key s => if kem.schemeOfSealed s = kem.schemeOfKey key then kem.unsealMsg key s else some [],
        kem.schemeOfSealed, kem.schemeOfKey⟩ 1 e =
    decryptSubjectToRecipient H toyAead kem 1 e :=
  (c10_scheme_mismatch_skipped H toyAead kem
    ⟨fun key s => if kem.schemeOfSealed s = kem.schemeOfKey key then kem.unsealMsg key s else some [],
      kem.schemeOfSealed, kem.schemeOfKey⟩ 1 e rfl rfl (by intro s hs; simp only [hs, if_true])).1

end
/-! ### seal / unseal (`src/seal.rs`): sign, then encrypt to the recipient; decrypt, then verify

Model: `Model/Seal.lean`.  The theorem composes the signature theorems of C09
(`added_signature_verifies_fresh`, `other_key_rejects`) with `c10_encryptToRecipient_roundtrip`. -/

section
variable (h : Hash) (A : Aead)

/-- `sign` in closed form: the wrapped envelope carrying one `'signed'` assertion -/
theorem signWrapped_eq (e : Env) (sig : Cbor) :
    signWrapped h e sig = .ok (signedWrapper h e (fun _ => sig)) := by
  unfold signWrapped
  rw [addSignature_nil]
  exact addWrapperSig h e (fun _ => sig)

theorem signedWrapper_inv {e : Env} (hi : Inv h e) (sig : Cbor) :
    Inv h (signedWrapper h e (fun _ => sig)) := by
  have hw := Obs.inv_wrap hi
  have hsa : Inv h (sigAssertion h (newLeaf h sig)) := by
    simp [Inv, sigAssertion, signedKV, newAssertion, newKnownValue, newLeaf]
  have : signedWrapper h e (fun _ => sig) = AW.rebuild h (wrap h e) [sigAssertion h (newLeaf h sig)] := by
    simp [signedWrapper, mkNode, AW.rebuild, AW.nodeOf, sortByDigest]
  rw [this]
  apply rebuild_inv h hw
  · intro a ha; simp only [List.mem_singleton] at ha; subst ha; exact hsa
  · simp [AscDigests]
  · intro a ha; simp only [List.mem_singleton] at ha; subst ha; rfl


/-- C10 (seal / unseal): an envelope sealed by sender `sk` to recipient `rk` is unsealed, with
the sender's public key and the recipient's private key, to exactly the original envelope;
any other recipient key gets `UnknownRecipient`, and against any other sender key the
signature check fails with `UnverifiedSignature`.  (`hrt`: the one envelope that gets
encrypted - the wrapped signed envelope - round-trips through its encoding, the conclusion
of C05.) -/
theorem c10_unseal_seal {V : SigScheme} {S : Signer} {K : Kem} {Sl : Sealer}
    (LS : SigLaws V S) (LA : AeadLaws A) (LK : KemLaws K Sl) (ck n : Bytes) (sk rk rnd : Nat)
    (e sealed : Env) (hi : Inv h e) (hH : ∀ b, (h.H b).Valid) (hck : ck.length = 32)
    (hrt : RoundTrips h (wrap h (signedWrapper h e (fun _ => S.sign sk (wrap h e).digest))))
    (hs : sealEnvelope h A e (S.sign sk (wrap h e).digest) ck n
        (Sl.sealTo rk (symmetricKeyCbor ck).enc rnd) = .ok sealed) :
    unsealEnvelope h A V K sk rk sealed = .ok e ∧
    (∀ rk', rk' ≠ rk → unsealEnvelope h A V K sk rk' sealed = .err "UnknownRecipient") ∧
    (∀ sk', sk' ≠ sk → unsealEnvelope h A V K sk' rk sealed = .err "UnverifiedSignature") := by
  have hunw : unwrap (signedWrapper h e (fun _ => S.sign sk (wrap h e).digest)) = .ok e := rfl
  have hsg := signWrapped_eq h e (S.sign sk (wrap h e).digest)
  have hisg := signedWrapper_inv h hi (S.sign sk (wrap h e).digest)
  have hr : addSignature h (wrap h e) (S.sign sk (wrap h e).subject.digest) []
      (fun _ => S.sign sk (wrap h e).digest) =
      .ok (signedWrapper h e (fun _ => S.sign sk (wrap h e).digest)) := hsg
  have hbefore : ∀ sk', hasSignatureFrom h V sk' (wrap h e) = .ok false := by
    intro sk'
    rw [hasSig_eq]
    rfl
  have henc : encryptToRecipient h A ck n (Sl.sealTo rk (symmetricKeyCbor ck).enc rnd)
      (signedWrapper h e (fun _ => S.sign sk (wrap h e).digest)) = .ok sealed := by
    have hb : sealEnvelope h A e (S.sign sk (wrap h e).digest) ck n (Sl.sealTo rk (symmetricKeyCbor ck).enc rnd) =
        encryptToRecipient h A ck n (Sl.sealTo rk (symmetricKeyCbor ck).enc rnd)
          (signedWrapper h e (fun _ => S.sign sk (wrap h e).digest)) := by
      simp only [sealEnvelope, hsg, Res.bind]
    rw [← hb]; exact hs
  generalize signedWrapper h e (fun _ => S.sign sk (wrap h e).digest) = sg at *
  obtain ⟨hdec, hother⟩ := c10_encryptToRecipient_roundtrip h A LA LK ck n rk rnd sg sealed hisg hH hrt hck henc
  have hver : hasSignatureFrom h V sk sg = .ok true :=
    added_signature_verifies_fresh h LS sk (wrap h e) sg _ (fun x hx => by cases hx) hr
  refine ⟨?_, ?_, ?_⟩
  · unfold unsealEnvelope
    rw [hdec]
    show verifyWrapped h V sk sg = .ok e
    unfold verifyWrapped verifySignatureFrom
    rw [hver]
    exact hunw
  · intro rk' hne
    unfold unsealEnvelope
    rw [hother rk' hne]
    rfl
  · intro sk' hne
    have hrej := other_key_rejects h LS sk sk' hne (wrap h e) sg _ [] _ (hbefore sk') hr
    unfold unsealEnvelope
    rw [hdec]
    show verifyWrapped h V sk' sg = .err "UnverifiedSignature"
    unfold verifyWrapped verifySignatureFrom
    rw [hrej]
    rfl

/-- `seal` never fails and never panics on an envelope satisfying the invariant -/
theorem c10_seal_total (e : Env) (sig : Cbor) (ck n : Bytes) (sealedMsg : Cbor) (hi : Inv h e)
    (hH : ∀ b, (h.H b).Valid) : ∃ r, sealEnvelope h A e sig ck n sealedMsg = .ok r := by
  obtain ⟨r, hr⟩ := ((c10_no_panic h A (K := kem) (signedWrapper h e (fun _ => sig)) "").2.2.2
    (signedWrapper_inv h hi sig) hH ck n).2 sealedMsg
  refine ⟨r, ?_⟩
  simp only [sealEnvelope, signWrapped_eq, Res.bind]
  exact hr

end

/-- a hash with small values, so that the toy signature `#6.40020([key, digest-as-number])`
is an encodable CBOR value -/
def Ex.H8 : Hash := ⟨fun b => ⟨(b.foldl (fun acc x => acc * 31 + x.toNat + 1) 7) % 251⟩⟩

theorem Ex.H8_valid (b : Bytes) : (Ex.H8.H b).Valid :=
  Nat.lt_trans (Nat.mod_lt _ (by decide)) (by decide)

/-- `"b"` under that hash -/
def Ex.subj8 : Env := newLeaf Ex.H8 (.text [0x62])

/- the hypotheses are satisfiable: `"b"` sealed by sender 1 to recipient 2 -/
example : ∃ sealed,
    sealEnvelope Ex.H8 toyAead Ex.subj8 (Toy.signer.sign 1 (wrap Ex.H8 Ex.subj8).digest) Ex.ck []
      (sealer.sealTo 2 (symmetricKeyCbor Ex.ck).enc 0) = .ok sealed ∧
    unsealEnvelope Ex.H8 toyAead Toy.scheme kem 1 2 sealed = .ok Ex.subj8 ∧
    unsealEnvelope Ex.H8 toyAead Toy.scheme kem 1 4 sealed = .err "UnknownRecipient" ∧
    unsealEnvelope Ex.H8 toyAead Toy.scheme kem 3 2 sealed = .err "UnverifiedSignature" := by
  have hinv : Inv Ex.H8 Ex.subj8 := ⟨rfl, trivial⟩
  obtain ⟨sealed, hs⟩ := c10_seal_total Ex.H8 toyAead Ex.subj8 (Toy.signer.sign 1 (wrap Ex.H8 Ex.subj8).digest)
    Ex.ck [] (sealer.sealTo 2 (symmetricKeyCbor Ex.ck).enc 0) hinv Ex.H8_valid
  obtain ⟨h1, h2, h3⟩ := c10_unseal_seal Ex.H8 toyAead Toy.laws toyAead_laws kem_laws Ex.ck [] 1 2 0
    Ex.subj8 sealed hinv Ex.H8_valid Ex.ck_len
    (decode_encode Ex.H8 _ (Obs.inv_wrap (signedWrapper_inv Ex.H8 hinv _))
      (by simp [wrap, newWrapped, signedWrapper, mkNode, sortByDigest, sigAssertion, signedKV, newAssertion,
        newKnownValue, newLeaf, Ex.subj8, EncShape, EncShapeList])
      (by simp [wrap, newWrapped, signedWrapper, mkNode, sortByDigest, sigAssertion, signedKV, newAssertion,
        newKnownValue, newLeaf, Ex.subj8, Encodable, EncodableList, Cbor.Valid, Cbor.ValidList, Toy.signer,
        KV_SIGNED, TAG_SIGNATURE, Env.digest, Ex.H8, Hash.ofDigests]
          refine ⟨by decide +kernel, Nat.lt_trans (Nat.mod_lt _ (by decide)) (by decide)⟩)) hs
  exact ⟨sealed, hs, h1, h2 4 (by decide), h3 3 (by decide)⟩

end EnvVerif
