/-
  Props/C10.lean — public-key recipients (`src/extension/recipient.rs`).

  "An envelope whose subject was encrypted to a list of recipients can be opened by every
  one of them, and by nobody else; encrypting to recipients changes no digest beyond adding
  the `'hasRecipient'` assertions; adding a recipient never takes the ability to open away
  from an earlier one; sealed messages of another encapsulation scheme are skipped."

  Model: `Model/Recipient.lean`.  The content key, the nonce and the sealed messages that the
  library draws from its RNG are explicit arguments.  Vocabulary (`Lemmas/RecipientLemmas.lean`,
  `Lemmas/RecipientLaws.lean`):
  * `RecL.sealsFor S ck krs` — the sealed messages `S.sealTo k (content key as tagged CBOR) r`
    for the recipients `krs = [(k, r), ..]` (key id, sender's randomness);
  * `RecL.recAs h sealeds` — the assertions `'hasRecipient': s` for `s ∈ sealeds`;
  * `RecL.opens K key s` — what `first_plaintext_in_sealed_messages` gets from one sealed
    message: `none` when its scheme differs from the key's, else `K.unsealMsg key s`;
  * `RecL.NoShadow e l` — among the assertions of `e` and the assertions `l` about to be added,
    only an assertion itself carries its digest.  It is needed because
    `add_assertion_envelope` silently ignores an assertion whose digest is already carried by
    an element (e.g. an elided placeholder with that digest): such a recipient is *not*
    added (`c10_shadowed_recipient_lost` below is the witness).

  Hypotheses (never axioms): `Inv h e`, `hH` (the hash returns 32 bytes), `RoundTrips h x`
  for the one envelope that is encrypted (conclusion of C05), `AeadLaws A`, `KemLaws K S`
  (both satisfied by toy instances: `ToyDeps.toyAead_laws`, `ToyRec.kem_laws`).
-/
import EnvVerif.Lemmas.RecipientLemmas
namespace EnvVerif
open Env ToyDeps ToyRec RecL RecL.Ex

section
variable (h : Hash) (A : Aead)

/-! ### every recipient opens -/

/-- C10: every listed recipient opens the envelope built by `encrypt_subject_to_recipients`,
and what it gets is *exactly* the original envelope with the `'hasRecipient'` assertions
added (same subject, the stored assertions and the digest of the encrypted envelope).
`olds` are the sealed messages already present in `e` (none, normally); a recipient may
open such an earlier one only if it holds the same content key. -/
theorem c10_each_recipient_opens {K : Kem} {S : Sealer} (LA : AeadLaws A) (LK : KemLaws K S)
    (ck n : Bytes) (krs : List (Nat × Nat)) (e r : Env) (olds : List Cbor)
    (hi : Inv h e) (hH : ∀ b, (h.H b).Valid) (hrt : RoundTrips h e.subject) (hck : ck.length = 32)
    (hold : recipients h e = .ok olds)
    (hns : NoShadow e (recAs h (sealsFor S ck krs)))
    (hr : encryptSubjectToRecipients h A ck n (sealsFor S ck krs) e = .ok r) :
    ∀ k ∈ krs.map Prod.fst,
      (∀ s ∈ olds, ∀ q, opens K k s = some q → q = (symmetricKeyCbor ck).enc) →
      ∃ x, decryptSubjectToRecipient h A K k r = .ok x ∧
        x.subject = e.subject ∧ x.assertions = r.assertions ∧ x.digest = r.digest ∧
        (sealsFor S ck krs).foldl (fun (acc : Res Env) s => acc.bind fun y => addRecipient h y s)
          (Res.ok e) = .ok x := by
  intro k hk holds
  obtain ⟨rfl, _⟩ := encryptSubjectToRecipients_ok h A hi hH hr
  refine ⟨builtPlain h (sealsFor S ck krs) e,
    recipient_opens h A LA LK hi hH hrt hck n krs hold hk holds hns,
    builtPlain_subject h _ hi, ?_, (built_digest h A ck n _ e).symm,
    addRecipients_closed_inv h hi _⟩
  rw [builtPlain_assertions h _ hi, built_assertions]

/- all hypotheses hold together (toy hash, AEAD and KEM; `"b" [ 1: 10 ]` encrypted to the
keys 1 and 2): both open and get the subject back -/
example : ∃ r, encryptSubjectToRecipients H toyAead ck [1] (sealsFor sealer ck krs) nd = .ok r ∧
    ∀ k ∈ [1, 2], ∃ x, decryptSubjectToRecipient H toyAead kem k r = .ok x ∧
      x.subject = nd.subject := by
  have hr := encryptSubjectToRecipients_eq H toyAead ck [1] (sealsFor sealer ck krs) nd_inv hash_valid
  rw [show Obs.encryptRefusal nd = none from rfl] at hr
  refine ⟨_, hr, ?_⟩
  intro k hk
  obtain ⟨x, hx, hs, _⟩ := c10_each_recipient_opens H toyAead toyAead_laws kem_laws ck [1] krs nd _ []
    nd_inv hash_valid subj_rt ck_len nd_recipients nd_noShadow hr k hk (by simp)
  exact ⟨x, hx, hs⟩

/-! ### only a recipient opens -/

/-- C10: a key that is not in the list (and that opens none of the sealed messages already
present in `e`) gets `UnknownRecipient` -/
theorem c10_non_recipient_fails {K : Kem} {S : Sealer} (LK : KemLaws K S)
    (ck n : Bytes) (krs : List (Nat × Nat)) (e r : Env) (olds : List Cbor)
    (hi : Inv h e) (hH : ∀ b, (h.H b).Valid) (hold : recipients h e = .ok olds)
    (hr : encryptSubjectToRecipients h A ck n (sealsFor S ck krs) e = .ok r)
    (k : Nat) (hk : k ∉ krs.map Prod.fst) (holds : ∀ s ∈ olds, opens K k s = none) :
    decryptSubjectToRecipient h A K k r = .err "UnknownRecipient" := by
  obtain ⟨rfl, _⟩ := encryptSubjectToRecipients_ok h A hi hH hr
  exact non_recipient_refused h A LK ck n krs hold hk holds

example : ∃ r, encryptSubjectToRecipients H toyAead ck [1] (sealsFor sealer ck krs) nd = .ok r ∧
    decryptSubjectToRecipient H toyAead kem 3 r = .err "UnknownRecipient" := by
  have hr := encryptSubjectToRecipients_eq H toyAead ck [1] (sealsFor sealer ck krs) nd_inv hash_valid
  rw [show Obs.encryptRefusal nd = none from rfl] at hr
  exact ⟨_, hr, c10_non_recipient_fails H toyAead kem_laws ck [1] krs nd _ [] nd_inv hash_valid
    nd_recipients hr 3 (by decide) (by simp)⟩

/-! ### digests -/

/-- C10: the subject keeps its digest (and is encrypted); the digest of the result is the
digest of the envelope obtained by adding the same `'hasRecipient'` assertions *without*
encrypting, which has the same stored assertions and the original subject; with no
recipient the digest is the original one -/
theorem c10_digest_preserved (ck n : Bytes) (sealeds : List Cbor) (e r : Env)
    (hi : Inv h e) (hH : ∀ b, (h.H b).Valid)
    (hr : encryptSubjectToRecipients h A ck n sealeds e = .ok r) :
    r.subject.digest = e.subject.digest ∧ r.subject.isEncrypted = true ∧
    (∃ r0, sealeds.foldl (fun (acc : Res Env) s => acc.bind fun y => addRecipient h y s) (Res.ok e)
        = .ok r0 ∧ r.digest = r0.digest ∧ r.assertions = r0.assertions ∧ r0.subject = e.subject) ∧
    (sealeds = [] → r.digest = e.digest) := by
  obtain ⟨rfl, _⟩ := encryptSubjectToRecipients_ok h A hi hH hr
  refine ⟨by rw [built_subject]; rfl, by rw [built_subject]; rfl,
    ⟨builtPlain h sealeds e, addRecipients_closed_inv h hi _, built_digest h A ck n _ e, ?_,
      builtPlain_subject h _ hi⟩, ?_⟩
  · rw [builtPlain_assertions h _ hi, built_assertions]
  · rintro rfl
    rw [built_digest]
    simp only [builtPlain, recAs, List.map_nil, List.foldl_nil, (AW.rebuild_of_inv hi).1]

example : ∃ r, encryptSubjectToRecipients H toyAead ck [1] (sealsFor sealer ck krs) nd = .ok r ∧
    r.subject.digest = nd.subject.digest := by
  have hr := encryptSubjectToRecipients_eq H toyAead ck [1] (sealsFor sealer ck krs) nd_inv hash_valid
  rw [show Obs.encryptRefusal nd = none from rfl] at hr
  exact ⟨_, hr, (c10_digest_preserved H toyAead ck [1] _ nd _ nd_inv hash_valid hr).1⟩

/-! ### adding a recipient -/

/-- C10: `add_recipient` keeps the subject; the sealed messages found by `recipients()` are
the earlier ones plus (unless shadowed) the new one; and every key that does not open the new
sealed message and could open the envelope before can open it afterwards (to an envelope
with the digest and the stored assertions of the new one) -/
theorem c10_add_recipient_monotone {K : Kem} (e r : Env) (s : Cbor) (hi : Inv h e)
    (hs : ∃ x, s = .tagged TAG_SEALED_MESSAGE x) (hr : addRecipient h e s = .ok r) :
    r.subject = e.subject ∧
    (∀ l, recipients h e = .ok l →
      ∃ l', recipients h r = .ok l' ∧ (∀ x ∈ l, x ∈ l') ∧ (∀ x ∈ l', x ∈ l ∨ x = s) ∧
        (NoShadow e [hasRecipientAssertion h s] → s ∈ l')) ∧
    (∀ k x, opens K k s = none → decryptSubjectToRecipient h A K k e = .ok x →
      ∃ x', decryptSubjectToRecipient h A K k r = .ok x' ∧ x'.digest = r.digest ∧
        x'.assertions = r.assertions) := by
  refine ⟨?_, fun l hl => addRecipient_recipients h hi hs hr hl,
    fun k x hno hx => addRecipient_keeps h A hi hs hr hno hx⟩
  rw [addRecipient_eq] at hr
  exact addAssertionEnvelope_subject h hr

/-- ... in particular with the sealing side of `KemLaws`: sealing to `k'` disturbs no other
key -/
theorem c10_add_recipient_other_keys {K : Kem} {S : Sealer} (LK : KemLaws K S) (e r : Env)
    (k' : Nat) (p : Bytes) (rnd : Nat) (hi : Inv h e)
    (hr : addRecipient h e (S.sealTo k' p rnd) = .ok r) (k : Nat) (hk : k ≠ k') (x : Env)
    (hx : decryptSubjectToRecipient h A K k e = .ok x) :
    ∃ x', decryptSubjectToRecipient h A K k r = .ok x' ∧ x'.digest = r.digest :=
  let ⟨x', h1, h2, _⟩ := (c10_add_recipient_monotone h A e r _ hi (LK.tagged _ _ _) hr).2.2 k x
    (opens_seal_other LK _ _ hk) hx
  ⟨x', h1, h2⟩

/- recipient 1 opens the envelope encrypted to 1 and 2, also after 4 was added -/
example : ∃ r r', encryptSubjectToRecipients H toyAead ck [1] (sealsFor sealer ck krs) nd = .ok r ∧
    addRecipient H r (sealer.sealTo 4 (symmetricKeyCbor ck).enc 0) = .ok r' ∧
    ∃ x', decryptSubjectToRecipient H toyAead kem 1 r' = .ok x' ∧ x'.digest = r'.digest := by
  have hr := encryptSubjectToRecipients_eq H toyAead ck [1] (sealsFor sealer ck krs) nd_inv hash_valid
  rw [show Obs.encryptRefusal nd = none from rfl] at hr
  obtain ⟨x, hx, _⟩ := c10_each_recipient_opens H toyAead toyAead_laws kem_laws ck [1] krs nd _ []
    nd_inv hash_valid subj_rt ck_len nd_recipients nd_noShadow hr 1 (by decide) (by simp)
  have hri : Inv H (built H toyAead ck [1] (sealsFor sealer ck krs) nd) := by
    have := Obs.encryptSubjectSpec_inv H toyAead ck [1] nd_inv hash_valid
    obtain ⟨r0, h0⟩ := addRecipient_isOk H (Obs.encryptSubjectSpec toyAead ck [1] nd)
      (sealer.sealTo 1 (symmetricKeyCbor ck).enc 0)
    exact rebuild_inv H (Obs.inv_subject this)
      (fun a ha => by
        rcases mem_foldl_normAdd_sub _ ha with h1 | h1
        · simp only [nd, Env.assertions, List.mem_singleton] at h1
          subst h1
          exact ⟨by simp [a1, WF, newAssertion, newLeaf, newKnownValue, Env.digest],
            by simp [a1, Canon, newAssertion, newLeaf, newKnownValue]⟩
        · simp only [recAs, List.mem_map] at h1
          obtain ⟨s, _, rfl⟩ := h1
          exact ⟨by simp [hasRecipientAssertion, WF, newAssertion, newLeaf, newKnownValue, Env.digest],
            by simp [hasRecipientAssertion, Canon, newAssertion, newLeaf, newKnownValue]⟩)
      (asc_foldl_normAdd H nd_inv _)
      (fun a ha => by
        rcases mem_foldl_normAdd_sub _ ha with h1 | h1
        · simp only [nd, Env.assertions, List.mem_singleton] at h1
          subst h1; rfl
        · simp only [recAs, List.mem_map] at h1
          obtain ⟨s, _, rfl⟩ := h1; rfl)
  obtain ⟨r', hr'⟩ := addRecipient_isOk H (built H toyAead ck [1] (sealsFor sealer ck krs) nd)
    (sealer.sealTo 4 (symmetricKeyCbor ck).enc 0)
  exact ⟨_, r', hr, hr', c10_add_recipient_other_keys H toyAead kem_laws _ r' 4 _ 0 hri hr' 1
    (by decide) x hx⟩

/-- the reason for `NoShadow`: when the envelope already carries an element with the digest of
the new `'hasRecipient'` assertion (here: its elided form), `add_recipient` changes nothing,
and the recipient is *not* added — for every hash, sealed message and subject -/
theorem c10_shadowed_recipient_lost (s : Cbor) (subject : Env) (d : Digest) :
    addRecipient h (.node subject [.elided (hasRecipientAssertion h s).digest] d) s =
      .ok (.node subject [.elided (hasRecipientAssertion h s).digest] d) ∧
    recipients h (.node subject [.elided (hasRecipientAssertion h s).digest] d) = .ok [] := by
  constructor
  · simp [addRecipient, addAssertionEnvelope, hasRecipientAssertion, newAssertion, slotOk,
      isSubjectAssertion, Env.digest]
  · simp [recipients, assertionsWithPredicate, Env.assertions, Env.subject, asPredicate,
      recipientsLoop]

/-! ### the wrapped whole -/

/-- C10: `decrypt_to_recipient(encrypt_to_recipient(e)) = e` for the recipient, and
`UnknownRecipient` for every other key -/
theorem c10_encryptToRecipient_roundtrip {K : Kem} {S : Sealer} (LA : AeadLaws A)
    (LK : KemLaws K S) (ck n : Bytes) (k rnd : Nat) (e r : Env) (hi : Inv h e)
    (hH : ∀ b, (h.H b).Valid) (hrt : RoundTrips h (wrap h e)) (hck : ck.length = 32)
    (hr : encryptToRecipient h A ck n (S.sealTo k (symmetricKeyCbor ck).enc rnd) e = .ok r) :
    decryptToRecipient h A K k r = .ok e ∧
      ∀ k', k' ≠ k → decryptToRecipient h A K k' r = .err "UnknownRecipient" := by
  have hr' : encryptSubjectToRecipients h A ck n (sealsFor S ck [(k, rnd)]) (wrap h e) = .ok r := by
    have hs : sealsFor S ck [(k, rnd)] = [S.sealTo k (symmetricKeyCbor ck).enc rnd] := by
      simp only [sealsFor, List.map_cons, List.map_nil]
    rw [hs]
    unfold encryptToRecipient at hr
    cases hx : encryptSubjectToRecipients h A ck n [S.sealTo k (symmetricKeyCbor ck).enc rnd]
        (wrap h e) with
    | ok r' => rw [hx] at hr; cases hr; rfl
    | err y => rw [hx] at hr; cases hr
    | panic y => rw [hx] at hr; cases hr
  have hiw := Obs.inv_wrap hi
  have hns : NoShadow (wrap h e) (recAs h (sealsFor S ck [(k, rnd)])) := by
    intro a ha y hy _
    rcases hy with hy | hy
    · cases hy
    · simp only [recAs, sealsFor, List.map_cons, List.map_nil, List.mem_singleton] at ha hy
      rw [ha, hy]
  constructor
  · obtain ⟨x, hx, hsub, _⟩ := c10_each_recipient_opens h A LA LK ck n [(k, rnd)] (wrap h e) r []
      hiw hH hrt hck (recipients_wrap h e) hns hr' k (by simp) (by simp)
    unfold decryptToRecipient
    rw [hx]
    show unwrap x = .ok e
    unfold unwrap
    rw [hsub]
    rfl
  · intro k' hk'
    unfold decryptToRecipient
    rw [c10_non_recipient_fails h A LK ck n [(k, rnd)] (wrap h e) r [] hiw hH (recipients_wrap h e)
      hr' k' (by simpa using hk') (by simp)]
    rfl

example : ∃ r, encryptToRecipient H toyAead ck [1] (sealer.sealTo 2 (symmetricKeyCbor ck).enc 0) subj
      = .ok r ∧
    decryptToRecipient H toyAead kem 2 r = .ok subj ∧
    decryptToRecipient H toyAead kem 1 r = .err "UnknownRecipient" := by
  have hr := encryptSubjectToRecipients_eq H toyAead ck [1]
    [sealer.sealTo 2 (symmetricKeyCbor ck).enc 0] (Obs.inv_wrap subj_inv) hash_valid
  rw [show Obs.encryptRefusal (wrap H subj) = none from rfl] at hr
  have hr2 : encryptToRecipient H toyAead ck [1] (sealer.sealTo 2 (symmetricKeyCbor ck).enc 0) subj =
      .ok (built H toyAead ck [1] [sealer.sealTo 2 (symmetricKeyCbor ck).enc 0] (wrap H subj)) := by
    unfold encryptToRecipient
    rw [hr]
  obtain ⟨h1, h2⟩ := c10_encryptToRecipient_roundtrip H toyAead toyAead_laws kem_laws ck [1] 2 0 subj _
    subj_inv hash_valid wrap_subj_rt ck_len hr2
  exact ⟨_, hr2, h1, h2 1 (by decide)⟩

/-! ### no panic -/

/-- C10: none of the recipient operations panics: `recipients()` and `add_recipient` on any
envelope; `decrypt_subject_to_recipient` / `decrypt_to_recipient` on a canonical one;
`encrypt_subject_to_recipients` on an envelope satisfying the invariant, and
`encrypt_to_recipient` (whose `unwrap()` would panic on an error) always succeeds there -/
theorem c10_no_panic {K : Kem} (e : Env) (p : String) :
    recipients h e ≠ .panic p ∧
    (∀ s, addRecipient h e s ≠ .panic p) ∧
    (Canon e → ∀ key, decryptSubjectToRecipient h A K key e ≠ .panic p ∧
      decryptToRecipient h A K key e ≠ .panic p) ∧
    (Inv h e → (∀ b, (h.H b).Valid) → ∀ ck n,
      (∀ sealeds, encryptSubjectToRecipients h A ck n sealeds e ≠ .panic p) ∧
      (∀ s, ∃ r, encryptToRecipient h A ck n s e = .ok r)) := by
  refine ⟨recipients_np h e p, ?_, ?_, ?_⟩
  · intro s
    obtain ⟨r, hr⟩ := addRecipient_isOk h e s
    rw [hr]; intro hh; cases hh
  · intro hc key
    exact ⟨decryptSubjectToRecipient_np h A (canon_node_ne hc) p,
      decryptToRecipient_np h A (canon_node_ne hc) p⟩
  · intro hi hH ck n
    constructor
    · intro sealeds
      rw [encryptSubjectToRecipients_eq h A ck n sealeds hi hH]
      cases Obs.encryptRefusal e <;> (intro hh; cases hh)
    · intro s
      unfold encryptToRecipient
      rw [encryptSubjectToRecipients_eq h A ck n [s] (Obs.inv_wrap hi) hH]
      exact ⟨_, rfl⟩

example (p : String) : decryptSubjectToRecipient H toyAead kem 1 nd ≠ .panic p :=
  ((c10_no_panic H toyAead (K := kem) nd p).2.2.1 nd_inv.2 1).1

/-! ### foreign schemes -/

/-- C10 (the repaired `first_plaintext_in_sealed_messages`): a sealed message whose
encapsulation scheme differs from the key's is never handed to `unseal`: the outcome does not
depend on what `unseal` would do with it (two KEMs that agree on the schemes and on the
messages of the key's own scheme give the same outcome), and such a message can be dropped
from the list without changing what is found -/
theorem c10_scheme_mismatch_skipped (K K' : Kem) (key : Nat) (e : Env)
    (hs : K'.schemeOfSealed = K.schemeOfSealed) (hk : K'.schemeOfKey key = K.schemeOfKey key)
    (hu : ∀ s, K.schemeOfSealed s = K.schemeOfKey key → K'.unsealMsg key s = K.unsealMsg key s) :
    decryptSubjectToRecipient h A K' key e = decryptSubjectToRecipient h A K key e ∧
    ∀ s l1 l2, K.schemeOfSealed s ≠ K.schemeOfKey key →
      firstPlaintext K key (l1 ++ s :: l2) = firstPlaintext K key (l1 ++ l2) :=
  ⟨decryptSubjectToRecipient_congr h A e (opens_congr hs hk hu),
    fun _ l1 l2 hm => firstPlaintext_skip_mismatch hm l1 l2⟩

/- a KEM that would wrongly "open" messages of the other scheme gives the same outcome -/
example (e : Env) :
    decryptSubjectToRecipient H toyAead
      ⟨fun key s => if kem.schemeOfSealed s = kem.schemeOfKey key then kem.unsealMsg key s else some [],
        kem.schemeOfSealed, kem.schemeOfKey⟩ 1 e =
    decryptSubjectToRecipient H toyAead kem 1 e :=
  (c10_scheme_mismatch_skipped H toyAead kem
    ⟨fun key s => if kem.schemeOfSealed s = kem.schemeOfKey key then kem.unsealMsg key s else some [],
      kem.schemeOfSealed, kem.schemeOfKey⟩ 1 e rfl rfl (by intro s hs; simp only [hs, if_true])).1

end
end EnvVerif
