/-
  Lemmas/CollectionLemmas.lean — the canonical form of unordered collections: whatever order (and
  however often) the entries are inserted, the resulting dcbor map is the one strictly ascending list
  with those entries; it is a valid dCBOR value (so it decodes back from its bytes).
-/
import EnvVerif.Model.Collections
import EnvVerif.Lemmas.CodecLaws

namespace EnvVerif
open Cbor

/-! ### the byte order is a strict total order -/

theorem bytesLt_irrefl : ∀ a : Bytes, bytesLt a a = false
  | [] => rfl
  | x :: xs => by
    simp only [bytesLt, UInt8.lt_iff_toNat_lt, Nat.lt_irrefl, if_false]
    exact bytesLt_irrefl xs

theorem bytesLt_trichotomy : ∀ a b : Bytes, bytesLt a b = false → bytesLt b a = false → a = b
  | [], [], _, _ => rfl
  | [], _ :: _, h, _ => by simp [bytesLt] at h
  | _ :: _, [], _, h => by simp [bytesLt] at h
  | x :: xs, y :: ys, h1, h2 => by
    simp only [bytesLt, UInt8.lt_iff_toNat_lt] at h1 h2
    by_cases hxy : x.toNat < y.toNat
    · simp [hxy] at h1
    · by_cases hyx : y.toNat < x.toNat
      · simp [hyx] at h2
      · simp only [hxy, hyx, if_false] at h1 h2
        have he : x = y := UInt8.toNat_inj.mp (by omega)
        rw [he, bytesLt_trichotomy xs ys h1 h2]

theorem bytesLt_asymm (a b : Bytes) (h : bytesLt a b = true) : bytesLt b a = false := by
  cases hb : bytesLt b a with
  | false => rfl
  | true =>
    have := bytesLt_trans a b a h hb
    rw [bytesLt_irrefl] at this
    exact absurd this (by decide)

/-! ### one insertion -/

/-- strictly ascending by encoded key -/
def Asc (m : List (Cbor × Cbor)) : Prop := KeysAsc (keysEnc m)

theorem asc_cons {p : Cbor × Cbor} {m : List (Cbor × Cbor)} :
    Asc (p :: m) ↔ (∀ q ∈ m, bytesLt p.1.enc q.1.enc = true) ∧ Asc m := by
  simp only [Asc, KeysAsc, keysEnc, List.map_cons, List.pairwise_cons, List.mem_map,
    forall_exists_index, and_imp, forall_apply_eq_imp_iff₂]

theorem mem_insertKV_subset (k v : Cbor) : ∀ (m : List (Cbor × Cbor)) (p : Cbor × Cbor),
    p ∈ insertKV k v m → p = (k, v) ∨ p ∈ m
  | [], p, hp => by simp only [insertKV, List.mem_singleton] at hp; exact Or.inl hp
  | (k', v') :: rest, p, hp => by
    simp only [insertKV] at hp
    split at hp
    · simp only [List.mem_cons] at hp ⊢; exact hp
    · split at hp
      · simp only [List.mem_cons] at hp ⊢
        rcases hp with hp | hp
        · exact Or.inr (Or.inl hp)
        · rcases mem_insertKV_subset k v rest p hp with h | h
          · exact Or.inl h
          · exact Or.inr (Or.inr h)
      · simp only [List.mem_cons] at hp ⊢
        rcases hp with hp | hp
        · exact Or.inl hp
        · exact Or.inr (Or.inr hp)

theorem asc_insertKV (k v : Cbor) : ∀ (m : List (Cbor × Cbor)), Asc m → Asc (insertKV k v m)
  | [], _ => by simp [insertKV, Asc, KeysAsc, keysEnc]
  | (k', v') :: rest, hm => by
    have hm' := asc_cons.mp hm
    simp only [insertKV]
    split
    · rename_i hlt
      refine asc_cons.mpr ⟨?_, hm⟩
      intro q hq
      simp only [List.mem_cons] at hq
      rcases hq with hq | hq
      · subst hq; exact hlt
      · exact bytesLt_trans _ _ _ hlt (hm'.1 q hq)
    · split
      · rename_i _ hgt
        refine asc_cons.mpr ⟨?_, asc_insertKV k v rest hm'.2⟩
        intro q hq
        rcases mem_insertKV_subset k v rest q hq with h | h
        · subst h; exact hgt
        · exact hm'.1 q h
      · rename_i h1 h2
        have he : k.enc = k'.enc := bytesLt_trichotomy _ _ (by simpa using h1) (by simpa using h2)
        refine asc_cons.mpr ⟨?_, hm'.2⟩
        intro q hq
        show bytesLt k.enc q.1.enc = true
        rw [he]; exact hm'.1 q hq

/-- membership after an insertion, when nothing in the map has the new key's encoding under another
key or value -/
theorem mem_insertKV (k v : Cbor) : ∀ (m : List (Cbor × Cbor)) (p : Cbor × Cbor),
    (∀ q ∈ m, q.1.enc = k.enc → q = (k, v)) → (p ∈ insertKV k v m ↔ p = (k, v) ∨ p ∈ m)
  | [], p, _ => by simp [insertKV]
  | (k', v') :: rest, p, hc => by
    simp only [insertKV]
    split
    · simp only [List.mem_cons]
    · split
      · simp only [List.mem_cons]
        rw [mem_insertKV k v rest p (fun q hq => hc q (List.mem_cons_of_mem _ hq))]
        constructor
        · rintro (h | h | h)
          · exact Or.inr (Or.inl h)
          · exact Or.inl h
          · exact Or.inr (Or.inr h)
        · rintro (h | h | h)
          · exact Or.inr (Or.inl h)
          · exact Or.inl h
          · exact Or.inr (Or.inr h)
      · rename_i h1 h2
        have he : k.enc = k'.enc := bytesLt_trichotomy _ _ (by simpa using h1) (by simpa using h2)
        have hh : (k', v') = (k, v) := hc (k', v') (List.mem_cons_self) he.symm
        simp only [List.mem_cons, hh]
        constructor
        · rintro (h | h)
          · exact Or.inl h
          · exact Or.inr (Or.inr h)
        · rintro (h | h | h)
          · exact Or.inl h
          · exact Or.inl h
          · exact Or.inr h

/-! ### a whole list of insertions -/

/-- no two different entries share an encoded key -/
def Coh (l : List (Cbor × Cbor)) : Prop := ∀ p q, p ∈ l → q ∈ l → p.1.enc = q.1.enc → p = q

def ins (m : List (Cbor × Cbor)) (kv : Cbor × Cbor) : List (Cbor × Cbor) := insertKV kv.1 kv.2 m

theorem mapOfList_eq (kvs : List (Cbor × Cbor)) : mapOfList kvs = kvs.foldl ins [] := rfl

theorem asc_foldl : ∀ (l m : List (Cbor × Cbor)), Asc m → Asc (l.foldl ins m)
  | [], _, hm => hm
  | x :: l, m, hm => asc_foldl l (ins m x) (asc_insertKV x.1 x.2 m hm)

theorem mem_foldl : ∀ (l m : List (Cbor × Cbor)) (p : Cbor × Cbor), Coh (m ++ l) →
    (p ∈ l.foldl ins m ↔ p ∈ m ∨ p ∈ l)
  | [], m, p, _ => by simp
  | x :: l, m, p, hc => by
    have hx : x ∈ m ++ x :: l := by simp
    have hins : ∀ q, q ∈ ins m x ↔ q = x ∨ q ∈ m := by
      intro q
      have := mem_insertKV x.1 x.2 m q (fun r hr he => hc r x (by simp [hr]) hx he)
      simpa [ins] using this
    have hc' : Coh (ins m x ++ l) := by
      intro a b ha hb hab
      have conv : ∀ r, r ∈ ins m x ++ l → r ∈ m ++ x :: l := by
        intro r hr
        simp only [List.mem_append, hins] at hr
        simp only [List.mem_append, List.mem_cons]
        rcases hr with (h | h) | h
        · exact Or.inr (Or.inl h)
        · exact Or.inl h
        · exact Or.inr (Or.inr h)
      exact hc a b (conv a ha) (conv b hb) hab
    simp only [List.foldl_cons]
    rw [mem_foldl l (ins m x) p hc', hins]
    simp only [List.mem_cons]
    constructor
    · rintro ((h | h) | h)
      · exact Or.inr (Or.inl h)
      · exact Or.inl h
      · exact Or.inr (Or.inr h)
    · rintro (h | h | h)
      · exact Or.inl (Or.inr h)
      · exact Or.inl (Or.inl h)
      · exact Or.inr h

/-- a strictly ascending list is determined by its members -/
theorem asc_ext : ∀ (l₁ l₂ : List (Cbor × Cbor)), Asc l₁ → Asc l₂ → (∀ p, p ∈ l₁ ↔ p ∈ l₂) → l₁ = l₂
  | [], [], _, _, _ => rfl
  | [], b :: u, _, _, h => by have := (h b).mpr (List.mem_cons_self); simp at this
  | a :: t, [], _, _, h => by have := (h a).mp (List.mem_cons_self); simp at this
  | a :: t, b :: u, h1, h2, h => by
    have h1' := asc_cons.mp h1
    have h2' := asc_cons.mp h2
    have hab : a = b := by
      have ha := (h a).mp (List.mem_cons_self)
      have hb := (h b).mpr (List.mem_cons_self)
      simp only [List.mem_cons] at ha hb
      rcases ha with ha | ha
      · exact ha
      · rcases hb with hb | hb
        · exact hb.symm
        · have x1 := h2'.1 a ha
          have x2 := h1'.1 b hb
          rw [bytesLt_asymm _ _ x1] at x2
          exact absurd x2 (by decide)
    subst hab
    have ht : ∀ p, p ∈ t ↔ p ∈ u := by
      intro p
      constructor
      · intro hp
        have := (h p).mp (List.mem_cons_of_mem _ hp)
        simp only [List.mem_cons] at this
        rcases this with e | e
        · subst e
          have := h1'.1 p hp
          rw [bytesLt_irrefl] at this
          exact absurd this (by decide)
        · exact e
      · intro hp
        have := (h p).mpr (List.mem_cons_of_mem _ hp)
        simp only [List.mem_cons] at this
        rcases this with e | e
        · subst e
          have := h2'.1 p hp
          rw [bytesLt_irrefl] at this
          exact absurd this (by decide)
        · exact e
    rw [asc_ext t u h1'.2 h2'.2 ht]

theorem asc_nil : Asc [] := by simp [Asc, KeysAsc, keysEnc]

theorem asc_mapOfList (kvs : List (Cbor × Cbor)) : Asc (mapOfList kvs) := asc_foldl kvs [] asc_nil

theorem mem_mapOfList (kvs : List (Cbor × Cbor)) (hc : Coh kvs) (p : Cbor × Cbor) :
    p ∈ mapOfList kvs ↔ p ∈ kvs := by
  have := mem_foldl kvs [] p (by simpa using hc)
  simpa [mapOfList_eq] using this

/-- **order and repetition do not matter**: two lists of entries with the same members (neither holding
two different entries under one encoded key) fill the same map -/
theorem mapOfList_ext (l₁ l₂ : List (Cbor × Cbor)) (c₁ : Coh l₁) (c₂ : Coh l₂)
    (hm : ∀ p, p ∈ l₁ ↔ p ∈ l₂) : mapOfList l₁ = mapOfList l₂ :=
  asc_ext _ _ (asc_mapOfList l₁) (asc_mapOfList l₂)
    (fun p => by rw [mem_mapOfList l₁ c₁, mem_mapOfList l₂ c₂, hm])

/-! ### validity: the result is a dCBOR value, so it decodes back from its bytes -/

theorem validPairs_iff : ∀ kvs : List (Cbor × Cbor), ValidPairs kvs ↔ ∀ p ∈ kvs, p.1.Valid ∧ p.2.Valid
  | [] => by simp [ValidPairs]
  | (k, v) :: kvs => by
    simp only [ValidPairs, validPairs_iff kvs, List.mem_cons, forall_eq_or_imp, and_assoc]

theorem validList_iff : ∀ xs : List Cbor, ValidList xs ↔ ∀ x ∈ xs, x.Valid
  | [] => by simp [ValidList]
  | x :: xs => by simp only [ValidList, validList_iff xs, List.mem_cons, forall_eq_or_imp]

theorem length_insertKV_le (k v : Cbor) : ∀ m : List (Cbor × Cbor), (insertKV k v m).length ≤ m.length + 1
  | [] => by simp [insertKV]
  | (k', v') :: rest => by
    simp only [insertKV]
    split
    · simp
    · split
      · have := length_insertKV_le k v rest
        simp only [List.length_cons]; omega
      · simp

theorem length_foldl_le : ∀ (l m : List (Cbor × Cbor)), (l.foldl ins m).length ≤ m.length + l.length
  | [], m => by simp
  | x :: l, m => by
    have h1 := length_foldl_le l (ins m x)
    have h2 := length_insertKV_le x.1 x.2 m
    simp only [List.foldl_cons, List.length_cons]
    simp only [ins] at h1 h2 ⊢
    omega

theorem mem_foldl_subset : ∀ (l m : List (Cbor × Cbor)) (p : Cbor × Cbor), p ∈ l.foldl ins m → p ∈ m ∨ p ∈ l
  | [], _, _, hp => Or.inl hp
  | x :: l, m, p, hp => by
    simp only [List.foldl_cons] at hp
    rcases mem_foldl_subset l (ins m x) p hp with h | h
    · rcases mem_insertKV_subset x.1 x.2 m p h with e | e
      · exact Or.inr (by simp [e])
      · exact Or.inl e
    · exact Or.inr (List.mem_cons_of_mem _ h)

theorem mapCbor_valid (kvs : List (Cbor × Cbor)) (hv : ValidPairs kvs) (hl : kvs.length < 2 ^ 64) :
    (mapCbor kvs).Valid := by
  simp only [mapCbor, Cbor.Valid]
  refine ⟨?_, ?_, asc_mapOfList kvs⟩
  · have := length_foldl_le kvs []
    simp only [mapOfList_eq, List.length_nil] at this ⊢
    omega
  · rw [validPairs_iff] at hv ⊢
    intro p hp
    rcases mem_foldl_subset kvs [] p hp with h | h
    · simp at h
    · exact hv p h

theorem setCbor_valid (xs : List Cbor) (hv : ValidList xs) (hl : xs.length < 2 ^ 64) :
    (setCbor xs).Valid := by
  simp only [setCbor, Cbor.Valid]
  constructor
  · have := length_foldl_le (xs.map fun x => (x, x)) []
    simp only [mapOfList_eq, List.length_nil, List.length_map] at this ⊢
    omega
  · rw [validList_iff] at hv ⊢
    intro x hx
    simp only [List.mem_map] at hx
    obtain ⟨p, hp, rfl⟩ := hx
    rcases mem_foldl_subset _ [] p hp with h | h
    · simp at h
    · simp only [List.mem_map] at h
      obtain ⟨y, hy, rfl⟩ := h
      exact hv y hy

/-- valid trees with one encoding are one tree (from the first codec law, which is proved) -/
theorem enc_injective_of_valid (a b : Cbor) (ha : a.Valid) (hb : b.Valid) (he : a.enc = b.enc) : a = b := by
  have h1 := Cbor.decEncLaw a ha
  have h2 := Cbor.decEncLaw b hb
  rw [he, h2] at h1
  injection h1 with h1
  exact h1.symm

/-- a set of valid elements never holds two different elements under one encoded key -/
theorem coh_set (xs : List Cbor) (hv : ValidList xs) : Coh (xs.map fun x => (x, x)) := by
  rw [validList_iff] at hv
  intro p q hp hq he
  simp only [List.mem_map] at hp hq
  obtain ⟨x, hx, rfl⟩ := hp
  obtain ⟨y, hy, rfl⟩ := hq
  have := enc_injective_of_valid x y (hv x hx) (hv y hy) he
  subst this; rfl

/-- **a set is its elements**: same members (in any order, with any repetition) - same CBOR -/
theorem setCbor_ext (xs ys : List Cbor) (vx : ValidList xs) (vy : ValidList ys)
    (hm : ∀ x, x ∈ xs ↔ x ∈ ys) : setCbor xs = setCbor ys := by
  simp only [setCbor]
  rw [mapOfList_ext _ _ (coh_set xs vx) (coh_set ys vy)]
  intro p
  simp only [List.mem_map]
  constructor
  · rintro ⟨x, hx, rfl⟩; exact ⟨x, (hm x).mp hx, rfl⟩
  · rintro ⟨x, hx, rfl⟩; exact ⟨x, (hm x).mpr hx, rfl⟩

end EnvVerif
