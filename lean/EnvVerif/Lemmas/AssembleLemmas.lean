/-
  Lemmas/AssembleLemmas.lean — helper lemmas for C07 (order- and route-independent
  assembly): the stored assertion list of a canonical node is the unique strictly
  ascending arrangement of its element set; `addAssertionEnvelope` is "insert unless a
  digest-equal element is present".
-/
import EnvVerif.Lemmas.Basic
namespace EnvVerif
namespace AW
open Env

/-! ### strictly ascending lists -/

/-- two strictly ascending lists with the same members are equal -/
theorem asc_ext : ∀ {l1 l2 : List Env}, AscDigests l1 → AscDigests l2 →
    (∀ x, x ∈ l1 ↔ x ∈ l2) → l1 = l2
  | [], [], _, _, _ => rfl
  | [], b :: l2, _, _, hm => by
    have := (hm b).2 List.mem_cons_self
    simp at this
  | a :: l1, [], _, _, hm => by
    have := (hm a).1 List.mem_cons_self
    simp at this
  | a :: l1, b :: l2, h1, h2, hm => by
    simp only [AscDigests, List.pairwise_cons] at h1 h2
    have hab : a = b := by
      have ha := (hm a).1 List.mem_cons_self
      have hb := (hm b).2 List.mem_cons_self
      rcases List.mem_cons.1 ha with h | h
      · exact h
      · rcases List.mem_cons.1 hb with h' | h'
        · exact h'.symm
        · have := h1.1 b h'; have := h2.1 a h; omega
    subst hab
    congr 1
    apply asc_ext h1.2 h2.2
    intro x; constructor
    · intro hx
      rcases List.mem_cons.1 ((hm x).1 (List.mem_cons_of_mem _ hx)) with h | h
      · subst h; have := h1.1 x hx; omega
      · exact h
    · intro hx
      rcases List.mem_cons.1 ((hm x).2 (List.mem_cons_of_mem _ hx)) with h | h
      · subst h; have := h2.1 x hx; omega
      · exact h

/-- sorting a list whose digests are pairwise distinct gives a strictly ascending list -/
theorem sort_asc_of_distinct {l : List Env}
    (hd : l.Pairwise (fun a b => a.digest ≠ b.digest)) : AscDigests (sortByDigest l) := by
  have hp : (sortByDigest l).Pairwise (fun a b => a.digest ≠ b.digest) :=
    ((sortByDigest_perm l).pairwise_iff (fun {x y} (hxy : x.digest ≠ y.digest) => Ne.symm hxy)).2 hd
  have hs := sortByDigest_sorted l
  refine (hs.and hp).imp ?_
  intro a b hab
  have h1 := hab.1
  have h2 := hab.2
  simp only [digestLe, decide_eq_true_eq] at h1
  have : a.digest.val ≠ b.digest.val := by
    intro hv; apply h2
    cases ha : a.digest; cases hb : b.digest
    simp only [ha, hb] at hv; subst hv; rfl
  omega

theorem asc_distinct {l : List Env} (hl : AscDigests l) :
    l.Pairwise (fun a b => a.digest ≠ b.digest) := by
  refine List.Pairwise.imp ?_ hl
  intro a b hab heq; rw [heq] at hab; omega

theorem any_digest_iff {as : List Env} {d : Digest} :
    as.any (fun x => x.digest == d) = true ↔ ∃ x ∈ as, x.digest = d := by
  simp [List.any_eq_true]

theorem any_digest_false_iff {as : List Env} {d : Digest} :
    as.any (fun x => x.digest == d) = false ↔ ∀ x ∈ as, x.digest ≠ d := by
  simp [List.any_eq_false]

/-- appending an element with a new digest to an ascending list and sorting -/
theorem sort_snoc_asc {as : List Env} {a : Env} (hl : AscDigests as)
    (hn : ∀ x ∈ as, x.digest ≠ a.digest) : AscDigests (sortByDigest (as ++ [a])) := by
  apply sort_asc_of_distinct
  rw [List.pairwise_append]
  refine ⟨asc_distinct hl, by simp, ?_⟩
  intro x hx y hy
  simp only [List.mem_singleton] at hy
  subst hy
  exact hn x hx

/-! ### the normal form of `addAssertionEnvelope` -/

/-- what `addAssertionEnvelope` does to the stored assertion list -/
def normAdd (as : List Env) (a : Env) : List Env :=
  if as.any (fun x => x.digest == a.digest) then as else sortByDigest (as ++ [a])

/-- the node with a recomputed digest, assertions stored as given -/
def nodeOf (h : Hash) (s : Env) (as : List Env) : Env :=
  .node s as (h.ofDigests (s.digest :: as.map Env.digest))

/-- the envelope with subject `s` and stored assertion list `as` -/
def rebuild (h : Hash) (s : Env) (as : List Env) : Env :=
  match as with
  | [] => s
  | _ :: _ => nodeOf h s as

theorem rebuild_ne {h : Hash} {s : Env} {as : List Env} (hne : as ≠ []) :
    rebuild h s as = nodeOf h s as := by
  cases as with
  | nil => exact absurd rfl hne
  | cons a as => rfl

theorem normAdd_ne_nil (as : List Env) (a : Env) : normAdd as a ≠ [] := by
  unfold normAdd
  split
  · rename_i hany
    intro hnil; rw [hnil] at hany; simp at hany
  · intro hnil
    have := sortByDigest_eq_nil.1 hnil
    simp at this

theorem normAdd_asc {as : List Env} {a : Env} (hl : AscDigests as) : AscDigests (normAdd as a) := by
  unfold normAdd
  split
  · exact hl
  · rename_i hany
    have hany' : as.any (fun x => x.digest == a.digest) = false := by
      cases hb : as.any (fun x => x.digest == a.digest) <;> simp_all
    exact sort_snoc_asc hl (any_digest_false_iff.1 hany')

theorem mem_normAdd_sub {as : List Env} {a x : Env} (hx : x ∈ normAdd as a) : x ∈ as ∨ x = a := by
  unfold normAdd at hx
  split at hx
  · exact Or.inl hx
  · have := mem_sortByDigest.1 hx
    simpa using this

theorem mem_normAdd {as : List Env} {a : Env} (hinj : ∀ y ∈ as, y.digest = a.digest → y = a) (x : Env) :
    x ∈ normAdd as a ↔ x ∈ as ∨ x = a := by
  constructor
  · exact mem_normAdd_sub
  · intro hx
    unfold normAdd
    split
    · rename_i hany
      rcases hx with hx | hx
      · exact hx
      · obtain ⟨y, hy, hyd⟩ := any_digest_iff.1 hany
        have := hinj y hy hyd
        subst hx; subst this; exact hy
    · apply mem_sortByDigest.2
      simpa using hx

/-- digests injective on a list -/
def DigInj (l : List Env) : Prop := ∀ a ∈ l, ∀ b ∈ l, a.digest = b.digest → a = b

theorem DigInj.mono {l l' : List Env} (hs : ∀ x ∈ l', x ∈ l) (hl : DigInj l) : DigInj l' :=
  fun a ha b hb => hl a (hs a ha) b (hs b hb)

theorem foldl_normAdd_asc : ∀ (l : List Env) {as : List Env}, AscDigests as →
    AscDigests (l.foldl normAdd as)
  | [], _, hl => hl
  | a :: l, _, hl => by
    simp only [List.foldl_cons]
    exact foldl_normAdd_asc l (normAdd_asc hl)

/-- the stored list after adding `l`: the old elements, and the added ones whose digest was
not already present (an element whose digest is present is ignored: the first one wins) -/
theorem mem_foldl_normAdd : ∀ (l : List Env) {as : List Env}, DigInj l →
    ∀ x, x ∈ l.foldl normAdd as ↔ x ∈ as ∨ (x ∈ l ∧ ∀ y ∈ as, y.digest ≠ x.digest)
  | [], _, _, x => by simp
  | a :: l, as, hinj, x => by
    simp only [List.foldl_cons]
    have hinj' : DigInj l := hinj.mono (fun y hy => by simp [hy])
    rw [mem_foldl_normAdd l hinj' x]
    unfold normAdd
    split
    · rename_i hany
      obtain ⟨y, hy, hyd⟩ := any_digest_iff.1 hany
      constructor
      · rintro (h | ⟨h1, h2⟩)
        · exact Or.inl h
        · exact Or.inr ⟨by simp [h1], h2⟩
      · rintro (h | ⟨h1, h2⟩)
        · exact Or.inl h
        · rcases List.mem_cons.1 h1 with h1 | h1
          · subst h1; exact absurd hyd (h2 y hy)
          · exact Or.inr ⟨h1, h2⟩
    · rename_i hany
      have hfresh : ∀ y ∈ as, y.digest ≠ a.digest := by
        apply any_digest_false_iff.1
        cases hb : as.any (fun x => x.digest == a.digest) <;> simp_all
      have hmem : ∀ z, z ∈ sortByDigest (as ++ [a]) ↔ z ∈ as ∨ z = a := by
        intro z; rw [mem_sortByDigest]; simp
      constructor
      · rintro (h | ⟨h1, h2⟩)
        · rcases (hmem x).1 h with h | h
          · exact Or.inl h
          · subst h; exact Or.inr ⟨by simp, hfresh⟩
        · exact Or.inr ⟨by simp [h1], fun y hy => h2 y ((hmem y).2 (Or.inl hy))⟩
      · rintro (h | ⟨h1, h2⟩)
        · exact Or.inl ((hmem x).2 (Or.inl h))
        · rcases List.mem_cons.1 h1 with h1 | h1
          · exact Or.inl ((hmem x).2 (Or.inr h1))
          · by_cases hd : a.digest = x.digest
            · have := hinj a (by simp) x (by simp [h1]) hd
              exact Or.inl ((hmem x).2 (Or.inr this.symm))
            · refine Or.inr ⟨h1, ?_⟩
              intro y hy
              rcases (hmem y).1 hy with hy | hy
              · exact h2 y hy
              · subst hy; exact hd

/-- same set of added assertions (digests injective on them) ⇒ same stored list -/
theorem foldl_normAdd_perm {as l1 l2 : List Env} (has : AscDigests as)
    (hmem : ∀ a, a ∈ l1 ↔ a ∈ l2) (hinj : DigInj l1) :
    l1.foldl normAdd as = l2.foldl normAdd as := by
  have hinj2 : DigInj l2 := hinj.mono (fun x hx => (hmem x).2 hx)
  apply asc_ext (foldl_normAdd_asc l1 has) (foldl_normAdd_asc l2 has)
  intro x
  rw [mem_foldl_normAdd l1 hinj, mem_foldl_normAdd l2 hinj2, hmem x]

/-! ### `addAssertionEnvelope` / `addAll` on rebuilt envelopes -/

theorem sortByDigest_singleton (a : Env) : sortByDigest [a] = [a] := by
  simp [sortByDigest]

theorem newNodeUnchecked_ne {h : Hash} {s : Env} {as : List Env} (hne : as ≠ []) :
    newNodeUnchecked h s as = .ok (nodeOf h s (sortByDigest as)) := by
  unfold newNodeUnchecked
  have : as.isEmpty = false := by
    cases as with
    | nil => exact absurd rfl hne
    | cons a as => rfl
  simp only [this, Bool.false_eq_true, if_false, mkNode, nodeOf]

theorem add_rebuild (h : Hash) {s : Env} {as : List Env} {a : Env}
    (hc : s.isNode = false ∨ as ≠ []) (hslot : a.slotOk = true) :
    addAssertionEnvelope h (rebuild h s as) a = .ok (rebuild h s (normAdd as a)) := by
  rw [rebuild_ne (normAdd_ne_nil as a)]
  cases as with
  | nil =>
    have hs : s.isNode = false := by
      rcases hc with h | h
      · exact h
      · exact absurd rfl h
    have hn : normAdd [] a = [a] := by simp [normAdd, sortByDigest_singleton]
    rw [hn]
    simp only [rebuild]
    cases s <;> simp [isNode] at hs <;>
      simp [addAssertionEnvelope, hslot, Env.subject, newNodeUnchecked_ne, sortByDigest_singleton]
  | cons x xs =>
    simp only [rebuild, nodeOf, addAssertionEnvelope, hslot, Bool.not_true, Bool.false_eq_true, if_false]
    unfold normAdd
    split
    · rfl
    · rw [newNodeUnchecked_ne (by simp)]
      rfl

theorem addAll_nil (h : Hash) (e : Env) : addAll h e [] = .ok e := rfl

theorem addAll_foldl_err (h : Hash) (x : String) (l : List Env) :
    l.foldl (fun (acc : Res Env) a => acc.bind fun y => addAssertionEnvelope h y a) (Res.err x)
      = Res.err x := by
  induction l with
  | nil => rfl
  | cons a l ih => simp only [List.foldl_cons, Res.bind]; exact ih

theorem addAll_foldl_panic (h : Hash) (x : String) (l : List Env) :
    l.foldl (fun (acc : Res Env) a => acc.bind fun y => addAssertionEnvelope h y a) (Res.panic x)
      = Res.panic x := by
  induction l with
  | nil => rfl
  | cons a l ih => simp only [List.foldl_cons, Res.bind]; exact ih

theorem addAll_cons (h : Hash) (e a : Env) (l : List Env) :
    addAll h e (a :: l) = (addAssertionEnvelope h e a).bind fun x => addAll h x l := by
  simp only [addAll, List.foldl_cons]
  show List.foldl _ (addAssertionEnvelope h e a) l = _
  cases hr : addAssertionEnvelope h e a with
  | ok y => rfl
  | err x => simp only [Res.bind]; exact addAll_foldl_err h x l
  | panic x => simp only [Res.bind]; exact addAll_foldl_panic h x l

theorem add_not_slot (h : Hash) {e a : Env} (hslot : a.slotOk = false) :
    addAssertionEnvelope h e a = .err "InvalidFormat" := by
  simp [addAssertionEnvelope, hslot]

/-- closed form of `addAll` -/
theorem addAll_rebuild (h : Hash) {s : Env} : ∀ (l : List Env) {as : List Env},
    (s.isNode = false ∨ as ≠ []) →
    addAll h (rebuild h s as) l =
      if l.all slotOk then .ok (rebuild h s (l.foldl normAdd as)) else .err "InvalidFormat"
  | [], _, _ => by simp [addAll_nil]
  | a :: l, as, hc => by
    rw [addAll_cons]
    cases hslot : a.slotOk with
    | false => simp [add_not_slot h hslot, Res.bind, hslot]
    | true =>
      rw [add_rebuild h hc hslot]
      simp only [Res.bind, List.all_cons, hslot, Bool.true_and, List.foldl_cons]
      exact addAll_rebuild h l (Or.inr (normAdd_ne_nil as a))

theorem inv_node {h : Hash} {s : Env} {as : List Env} {d : Digest} (hi : Inv h (.node s as d)) :
    d = h.ofDigests (s.digest :: as.map Env.digest) ∧ as ≠ [] ∧ AscDigests as ∧
      (∀ a ∈ as, a.slotOk = true) := by
  obtain ⟨hw, hc⟩ := hi
  simp only [WF] at hw
  simp only [Canon] at hc
  exact ⟨hw.2.2, hc.2.2.1, hc.2.2.2.1, hc.2.2.2.2⟩

theorem rebuild_of_inv {h : Hash} {e : Env} (hi : Inv h e) :
    rebuild h e.subject e.assertions = e ∧ (e.subject.isNode = false ∨ e.assertions ≠ []) ∧
      AscDigests e.assertions := by
  cases e with
  | node s as d =>
    obtain ⟨hd, hne, hasc, _⟩ := inv_node hi
    simp only [Env.subject, Env.assertions]
    refine ⟨?_, Or.inr hne, hasc⟩
    rw [rebuild_ne hne, nodeOf, ← hd]
  | _ => simp [Env.subject, Env.assertions, rebuild, isNode, AscDigests]

/-! ### removing -/

theorem findIdx_split {l1 l2 : List Env} {a : Env} (hn : ∀ x ∈ l1, x.digest ≠ a.digest) :
    findDigestIdx (l1 ++ a :: l2) a.digest = some l1.length ∧
      (l1 ++ a :: l2).eraseIdx l1.length = l1 ++ l2 := by
  induction l1 with
  | nil => simp [findDigestIdx, List.findIdx?_cons]
  | cons x l1 ih =>
    have hx : x.digest ≠ a.digest := hn x (by simp)
    have ih' := ih (fun y hy => hn y (by simp [hy]))
    simp only [findDigestIdx] at ih' ⊢
    constructor
    · simp only [List.cons_append, List.findIdx?_cons, beq_iff_eq, hx, if_false, ih'.1,
        Option.map_some, List.length_cons]
    · simp only [List.cons_append, List.length_cons, List.eraseIdx_cons_succ, ih'.2]

/-- removing (by digest) the element just inserted into an ascending list -/
theorem remove_sorted_snoc {as : List Env} {a : Env} (hl : AscDigests as)
    (hn : ∀ x ∈ as, x.digest ≠ a.digest) :
    ∃ i, findDigestIdx (sortByDigest (as ++ [a])) a.digest = some i ∧
      (sortByDigest (as ++ [a])).eraseIdx i = as := by
  have hasc := sort_snoc_asc hl hn
  have hmem : a ∈ sortByDigest (as ++ [a]) := mem_sortByDigest.2 (by simp)
  obtain ⟨l1, l2, hL⟩ := List.append_of_mem hmem
  rw [hL] at hasc ⊢
  simp only [AscDigests, List.pairwise_append, List.pairwise_cons] at hasc
  obtain ⟨h1, ⟨h2a, h2⟩, h12⟩ := hasc
  have hn1 : ∀ x ∈ l1, x.digest ≠ a.digest := by
    intro x hx heq
    have := h12 x hx a (by simp)
    rw [heq] at this; omega
  obtain ⟨hf, he⟩ := findIdx_split (l2 := l2) hn1
  refine ⟨l1.length, hf, ?_⟩
  rw [he]
  apply asc_ext _ hl
  · intro x
    have hxL : x ∈ l1 ++ a :: l2 ↔ x ∈ as ++ [a] := by rw [← hL]; exact mem_sortByDigest
    constructor
    · intro hx
      have hx' : x ∈ l1 ++ a :: l2 := by
        rcases List.mem_append.1 hx with h | h
        · simp [h]
        · simp [h]
      rcases List.mem_append.1 (hxL.1 hx') with h | h
      · exact h
      · simp only [List.mem_singleton] at h
        subst h
        rcases List.mem_append.1 hx with h | h
        · exact absurd rfl (hn1 x h)
        · have := h2a x h; omega
    · intro hx
      have := hxL.2 (by simp [hx])
      rcases List.mem_append.1 this with h | h
      · simp [h]
      · rcases List.mem_cons.1 h with h | h
        · subst h; exact absurd rfl (hn x hx)
        · simp [h]
  · simp only [AscDigests, List.pairwise_append]
    exact ⟨h1, h2, fun x hx y hy => h12 x hx y (by simp [hy])⟩

/-- removing what was just added, on rebuilt envelopes -/
theorem remove_add_rebuild (h : Hash) {s : Env} {as : List Env} {a : Env}
    (hc : s.isNode = false ∨ as ≠ []) (hasc : AscDigests as) (hslot : a.slotOk = true)
    (hnew : ∀ x ∈ as, x.digest ≠ a.digest) :
    ∃ e', addAssertionEnvelope h (rebuild h s as) a = .ok e' ∧
      removeAssertion h e' a = .ok (rebuild h s as) := by
  refine ⟨_, add_rebuild h hc hslot, ?_⟩
  have hany : as.any (fun x => x.digest == a.digest) = false := any_digest_false_iff.2 hnew
  have hn : normAdd as a = sortByDigest (as ++ [a]) := by simp [normAdd, hany]
  obtain ⟨i, hf, he⟩ := remove_sorted_snoc hasc hnew
  rw [rebuild_ne (normAdd_ne_nil _ _), hn]
  simp only [removeAssertion, nodeOf, Env.assertions, Env.subject, hf, he]
  cases as with
  | nil => rfl
  | cons x xs =>
    simp only [List.isEmpty_cons, Bool.false_eq_true, if_false]
    rw [newNodeUnchecked_ne (by simp), sortByDigest_of_asc hasc]
    rfl

/-! ### digest bytes -/

theorem beBytes_length (n v : Nat) : (beBytes n v).length = n := by
  induction n generalizing v with
  | zero => rfl
  | succ n ih => simp [beBytes, ih]

theorem bytes_length32 (d : Digest) : d.bytes.length = 32 := beBytes_length 32 d.val

theorem catDigests_length (ds : List Digest) : (catDigests ds).length = 32 * ds.length := by
  induction ds with
  | nil => rfl
  | cons d ds ih =>
    simp only [catDigests, List.flatMap_cons, List.length_append, bytes_length32,
      List.length_cons] at ih ⊢
    omega

/-! ### a toy hash and sample envelopes for the satisfiability examples -/
namespace Toy
/-- toy hash: the length of the image -/
def hLen : Hash := ⟨fun b => ⟨b.length⟩⟩
def exSubj : Env := newLeaf hLen (.uint 1)
def exA1 : Env := newAssertion hLen (newLeaf hLen (.uint 2)) (newLeaf hLen (.uint 3))
def exA2 : Env := .elided ⟨5⟩
def exA3 : Env := .elided ⟨7⟩
def exNode : Env := nodeOf hLen exSubj [exA2, exA1]

theorem exNode_inv : Inv hLen exNode := by
  simp [exNode, exSubj, exA1, exA2, nodeOf, Inv, WF, WFList, Canon, CanonList, AscDigests, newLeaf,
    newAssertion, Env.digest, slotOk, isSubjectAssertion, isSubjectObscured, isSubjectElided,
    Hash.ofDigests, hLen, Digest.Valid, catDigests_length]

end Toy

end AW
end EnvVerif
