/-
  Lemmas/ExprLemmas.lean — helper definitions and lemmas for C18 (expressions, requests,
  responses, events): closed forms of the `to envelope` conversions, evaluation of the
  predicate lookups on the envelopes so built, no-panic facts for the lookups and parsers,
  and the collision-freedom hypotheses (`KVDistinct`, `DistinctDigests`).
-/
import EnvVerif.Model.Expr
import EnvVerif.Lemmas.WalkLemmas
import EnvVerif.Lemmas.CodecLemmas
namespace EnvVerif
namespace ExprL
open Env AW

/-! ### `Res` helpers -/

/-- the outcome is a value or an error, not a panic -/
def NoPanic {α} (r : Res α) : Prop := ∀ s, r ≠ .panic s

theorem bind_eq_ok {α β} {r : Res α} {f : α → Res β} {y : β} :
    r.bind f = .ok y ↔ ∃ x, r = .ok x ∧ f x = .ok y := by
  cases r <;> simp [Res.bind]

theorem NoPanic.bind {α β} {r : Res α} {f : α → Res β} (hr : NoPanic r) (hf : ∀ x, NoPanic (f x)) :
    NoPanic (r.bind f) := by
  intro s
  cases r with
  | ok x => exact hf x s
  | err x => simp [Res.bind]
  | panic x => exact absurd rfl (hr x)

theorem noPanic_ok {α} (x : α) : NoPanic (Res.ok x) := by intro s; simp
theorem noPanic_err {α} (x : String) : NoPanic (Res.err x : Res α) := by intro s; simp

/-- neither a value nor a panic: an error -/
theorem res_err_of_not_ok {α} {r : Res α} (hp : NoPanic r) (hn : ∀ x, r ≠ .ok x) : ∃ m, r = .err m := by
  cases r with
  | ok x => exact absurd rfl (hn x)
  | err m => exact ⟨m, rfl⟩
  | panic s => exact absurd rfl (hp s)

/-! ### the collision-freedom hypotheses -/

/-- the known values used as predicates by requests, responses and events -/
def kvList : List Nat := [KV_BODY, KV_NOTE, KV_DATE, KV_RESULT, KV_ERROR, KV_CONTENT]

/-- Collision-freedom of `h` on six inputs: the known values 'body' (100), 'note' (4),
'date' (16), 'result' (101), 'error' (102), 'content' (108) have pairwise different digests
(the digest of a known value `v` is `h.H (enc #6.40000(v))`). -/
structure KVDistinct (h : Hash) : Prop where
  ne : ∀ a ∈ kvList, ∀ b ∈ kvList, a ≠ b → (newKnownValue h a).digest ≠ (newKnownValue h b).digest

/-- Collision-freedom of `h` on the (at most three) assertions of one request / event: their
digests `h.H (pred.digest ‖ obj.digest)` are pairwise different.  (A quantification over all
objects would be false for any real hash by counting, so the hypothesis is per instance.) -/
def DistinctDigests (l : List Env) : Prop := l.Pairwise (fun a b => a.digest ≠ b.digest)

/-- the assertion 'known value `k`': `o` -/
def kvA (h : Hash) (k : Nat) (o : Env) : Env := newAssertion h (newKnownValue h k) o

/-- the optional 'note' and 'date' assertions of a request / event -/
def metaAsserts (h : Hash) (note : Bytes) (date : Option Int) : List Env :=
  (if note.isEmpty then [] else [kvA h KV_NOTE (newLeaf h (.text note))]) ++
  (match date with
    | some d => [kvA h KV_DATE (newLeaf h (dateCbor d))]
    | none => [])

/-- the assertions of the envelope of a request, in the order they are added -/
def reqAsserts (h : Hash) (r : Request) : List Env :=
  kvA h KV_BODY r.body.envelope :: metaAsserts h r.note r.date

/-- the assertions of the envelope of an event, in the order they are added -/
def evAsserts (h : Hash) (ev : Event) : List Env :=
  kvA h KV_CONTENT (newLeaf h (.text ev.content)) :: metaAsserts h ev.note ev.date

/-- the subject of a request / response / event envelope -/
def idSubject (h : Hash) (tag : Nat) (id : Bytes) : Env := newLeaf h (.tagged tag (aridCbor id))

/-- the assertion `❰parameter p❱: v` of an expression -/
def paramA (h : Hash) (pv : Ident × Env) : Env :=
  newAssertion h (newLeaf h (identCbor TAG_PARAMETER pv.1)) pv.2

/-- `with_parameter` applied for each `(parameter, value)` of a list, in order -/
def withParams (h : Hash) : Expression → List (Ident × Env) → Res Expression
  | x, [] => .ok x
  | x, pv :: ps => (x.withParameter h pv.1 pv.2).bind fun y => withParams h y ps

/-! ### `rebuild` -/

theorem rebuild_subject (h : Hash) {s : Env} (as : List Env) (hs : s.isNode = false) :
    (rebuild h s as).subject = s := by
  cases as with
  | nil => cases s <;> simp [isNode] at hs <;> rfl
  | cons a as => rfl

theorem rebuild_assertions (h : Hash) {s : Env} (as : List Env) (hs : s.isNode = false) :
    (rebuild h s as).assertions = as := by
  cases as with
  | nil => cases s <;> simp [isNode] at hs <;> rfl
  | cons a as => rfl

theorem rebuild_digest (h : Hash) {s : Env} {as : List Env} (hne : as ≠ []) :
    (rebuild h s as).digest = h.ofDigests (s.digest :: as.map Env.digest) := by
  rw [rebuild_ne hne]; rfl

theorem addUnwrap_rebuild (h : Hash) {s : Env} (as : List Env) (p o : Env) (hs : s.isNode = false) :
    addAssertionUnwrap h (rebuild h s as) p o = .ok (rebuild h s (normAdd as (newAssertion h p o))) := by
  unfold addAssertionUnwrap
  rw [add_rebuild h (Or.inl hs) rfl]

theorem addUnwrap_leaf (h : Hash) (c : Cbor) (p o : Env) :
    addAssertionUnwrap h (newLeaf h c) p o =
      .ok (rebuild h (newLeaf h c) [newAssertion h p o]) := by
  have := addUnwrap_rebuild h [] p o (s := newLeaf h c) rfl
  simpa [rebuild, normAdd, sortByDigest_singleton] using this

/-! ### the stored list after adding a list of assertions -/

theorem mem_foldl_normAdd_sub : ∀ (l : List Env) {as : List Env} {x : Env},
    x ∈ l.foldl normAdd as → x ∈ as ∨ x ∈ l
  | [], _, _, hx => Or.inl hx
  | a :: l, as, x, hx => by
    simp only [List.foldl_cons] at hx
    rcases mem_foldl_normAdd_sub l hx with h | h
    · rcases mem_normAdd_sub h with h | h
      · exact Or.inl h
      · exact Or.inr (by simp [h])
    · exact Or.inr (by simp [h])

theorem normAdd_length_le (as : List Env) (a : Env) : (normAdd as a).length ≤ as.length + 1 := by
  unfold normAdd
  split
  · omega
  · rw [sortByDigest_length]; simp

theorem foldl_normAdd_length_le : ∀ (l : List Env) (as : List Env),
    (l.foldl normAdd as).length ≤ as.length + l.length
  | [], _ => by simp
  | a :: l, as => by
    simp only [List.foldl_cons, List.length_cons]
    have := foldl_normAdd_length_le l (normAdd as a)
    have := normAdd_length_le as a
    omega

theorem foldl_normAdd_ne_nil : ∀ (l : List Env) {as : List Env}, (as ≠ [] ∨ l ≠ []) →
    l.foldl normAdd as ≠ []
  | [], _, h => by simpa using h
  | a :: l, as, _ => by
    simp only [List.foldl_cons]
    exact foldl_normAdd_ne_nil l (Or.inl (normAdd_ne_nil as a))

/-- with pairwise different digests nothing is dropped: the stored list is a permutation -/
theorem foldl_normAdd_perm_of_distinct : ∀ (l : List Env) {as : List Env}, AscDigests as →
    DistinctDigests (as ++ l) → (l.foldl normAdd as).Perm (as ++ l)
  | [], _, _, _ => by simp
  | a :: l, as, hasc, hd => by
    simp only [List.foldl_cons]
    have hfresh : ∀ x ∈ as, x.digest ≠ a.digest := by
      intro x hx
      have := List.pairwise_append.1 hd
      exact this.2.2 x hx a (by simp)
    have hn : normAdd as a = sortByDigest (as ++ [a]) := by
      unfold normAdd
      rw [any_digest_false_iff.2 hfresh]; simp
    have hp : (normAdd as a).Perm (as ++ [a]) := by rw [hn]; exact sortByDigest_perm _
    have hd' : DistinctDigests (normAdd as a ++ l) := by
      have hp2 : (normAdd as a ++ l).Perm (as ++ a :: l) := by
        have := hp.append_right l
        simpa using this
      unfold DistinctDigests at hd ⊢
      exact (hp2.pairwise_iff (R := fun a b => a.digest ≠ b.digest)
        (fun {x y} (hxy : x.digest ≠ y.digest) => Ne.symm hxy)).2 hd
    have := foldl_normAdd_perm_of_distinct l (normAdd_asc hasc) hd'
    refine this.trans ?_
    have := hp.append_right l
    simpa using this

/-- the stored list in general: an element whose digest is already present is ignored, so what
is stored is, for each digest, the first element of the list carrying it -/
theorem mem_foldl_normAdd_first : ∀ (l : List Env) {as : List Env} (x : Env),
    x ∈ l.foldl normAdd as ↔
      x ∈ as ∨ ((∀ y ∈ as, y.digest ≠ x.digest) ∧ l.find? (fun b => b.digest == x.digest) = some x)
  | [], _, x => by simp
  | a :: l, as, x => by
    simp only [List.foldl_cons]
    rw [mem_foldl_normAdd_first l x]
    unfold normAdd
    split
    · rename_i hany
      obtain ⟨y, hy, hyd⟩ := any_digest_iff.1 hany
      constructor
      · rintro (h | ⟨h1, h2⟩)
        · exact Or.inl h
        · refine Or.inr ⟨h1, ?_⟩
          have : a.digest ≠ x.digest := by rw [← hyd]; exact h1 y hy
          simp [this, h2]
      · rintro (h | ⟨h1, h2⟩)
        · exact Or.inl h
        · refine Or.inr ⟨h1, ?_⟩
          have : a.digest ≠ x.digest := by rw [← hyd]; exact h1 y hy
          simpa [List.find?_cons, this] using h2
    · rename_i hany
      have hfresh : ∀ y ∈ as, y.digest ≠ a.digest := by
        apply any_digest_false_iff.1
        cases hb : as.any (fun x => x.digest == a.digest) <;> simp_all
      have hmem : ∀ z, z ∈ sortByDigest (as ++ [a]) ↔ z ∈ as ∨ z = a := by
        intro z; rw [mem_sortByDigest]; simp
      by_cases hax : a.digest = x.digest
      · constructor
        · rintro (h | ⟨h1, _⟩)
          · rcases (hmem x).1 h with h | h
            · exact Or.inl h
            · subst h; exact Or.inr ⟨hfresh, by simp⟩
          · exact absurd hax (h1 a ((hmem a).2 (Or.inr rfl)))
        · rintro (h | ⟨_, h2⟩)
          · exact Or.inl ((hmem x).2 (Or.inl h))
          · simp only [List.find?_cons, hax, beq_self_eq_true] at h2
            injection h2 with h2
            exact Or.inl ((hmem x).2 (Or.inr h2.symm))
      · constructor
        · rintro (h | ⟨h1, h2⟩)
          · rcases (hmem x).1 h with h | h
            · exact Or.inl h
            · subst h; exact absurd rfl hax
          · refine Or.inr ⟨fun y hy => h1 y ((hmem y).2 (Or.inl hy)), ?_⟩
            simp [hax, h2]
        · rintro (h | ⟨h1, h2⟩)
          · exact Or.inl ((hmem x).2 (Or.inl h))
          · refine Or.inr ⟨?_, by simpa [List.find?_cons, hax] using h2⟩
            intro y hy
            rcases (hmem y).1 hy with hy | hy
            · exact h1 y hy
            · subst hy; exact hax

/-! ### closed forms of the conversions to envelopes -/

theorem idSubject_notNode (h : Hash) (tag : Nat) (id : Bytes) : (idSubject h tag id).isNode = false := rfl

/-- the common chain of `Envelope::from(Request)` and `Envelope::from(Event)` -/
theorem chain_eq (h : Hash) (s p o : Env) (note : Bytes) (date : Option Int) (hs : s.isNode = false) :
    ((addAssertionUnwrap h s p o).bind fun e1 =>
      (addAssertionIf h (!note.isEmpty) e1 (newKnownValue h KV_NOTE) (newLeaf h (.text note))).bind fun e2 =>
        match date with
        | some d => addAssertionUnwrap h e2 (newKnownValue h KV_DATE) (newLeaf h (dateCbor d))
        | none => .ok e2)
      = .ok (rebuild h s ((newAssertion h p o :: metaAsserts h note date).foldl normAdd [])) := by
  have h0 : addAssertionUnwrap h s p o = .ok (rebuild h s (normAdd [] (newAssertion h p o))) :=
    addUnwrap_rebuild h [] p o hs
  rw [h0]
  cases hn : note.isEmpty <;> cases date <;>
    simp [Res.bind, addAssertionIf, metaAsserts, hn, addUnwrap_rebuild h _ _ _ hs, kvA]

theorem request_toEnvelope_eq (h : Hash) (r : Request) :
    Request.toEnvelope h r =
      .ok (rebuild h (idSubject h TAG_REQUEST r.id) ((reqAsserts h r).foldl normAdd [])) :=
  chain_eq h _ _ _ r.note r.date rfl

theorem event_toEnvelope_eq (h : Hash) (ev : Event) :
    Event.toEnvelope h ev =
      .ok (rebuild h (idSubject h TAG_EVENT ev.id) ((evAsserts h ev).foldl normAdd [])) :=
  chain_eq h _ _ _ ev.note ev.date rfl

/-- the subject of a response envelope -/
def respSubject (h : Hash) : Response → Env
  | .success id _ => idSubject h TAG_RESPONSE id
  | .failure (some id) _ => idSubject h TAG_RESPONSE id
  | .failure none _ => newLeaf h (.tagged TAG_RESPONSE (knownValueCbor KV_UNKNOWN))

/-- the single assertion of a response envelope -/
def respAssert (h : Hash) : Response → Env
  | .success _ r => kvA h KV_RESULT r
  | .failure _ er => kvA h KV_ERROR er

theorem response_toEnvelope_eq (h : Hash) (v : Response) :
    Response.toEnvelope h v = .ok (rebuild h (respSubject h v) [respAssert h v]) := by
  cases v with
  | success id r => exact addUnwrap_leaf h _ _ _
  | failure id er =>
    cases id with
    | none => exact addUnwrap_leaf h _ _ _
    | some id => exact addUnwrap_leaf h _ _ _

theorem withParameter_rebuild (h : Hash) (f : Ident) {s : Env} (as : List Env) (pv : Ident × Env)
    (hs : s.isNode = false) :
    Expression.withParameter h ⟨f, rebuild h s as⟩ pv.1 pv.2 =
      .ok ⟨f, rebuild h s (normAdd as (paramA h pv))⟩ := by
  unfold Expression.withParameter
  simp only []
  rw [add_rebuild h (Or.inl hs) rfl]
  rfl

theorem withParams_rebuild (h : Hash) (f : Ident) {s : Env} (hs : s.isNode = false) :
    ∀ (ps : List (Ident × Env)) (as : List Env),
      withParams h ⟨f, rebuild h s as⟩ ps =
        .ok ⟨f, rebuild h s ((ps.map (paramA h)).foldl normAdd as)⟩
  | [], _ => rfl
  | pv :: ps, as => by
    simp only [withParams, withParameter_rebuild h f as pv hs, Res.bind, List.map_cons,
      List.foldl_cons]
    exact withParams_rebuild h f hs ps _

/-- the subject of an expression envelope -/
def fnSubject (h : Hash) (f : Ident) : Env := newLeaf h (identCbor TAG_FUNCTION f)

theorem withParams_new (h : Hash) (f : Ident) (ps : List (Ident × Env)) :
    withParams h (Expression.new h f) ps =
      .ok ⟨f, rebuild h (fnSubject h f) ((ps.map (paramA h)).foldl normAdd [])⟩ :=
  withParams_rebuild h f (s := fnSubject h f) rfl ps []

theorem subjectLeaf_rebuild (h : Hash) (c : Cbor) (d : Digest) (as : List Env) :
    subjectLeaf (rebuild h (.leaf c d) as) = some c := by
  cases as <;> rfl

/-! ### the predicate lookups -/

theorem matchesPred_kvA (h : Hash) (k : Nat) (o p : Env) :
    matchesPred (kvA h k o) p = ((newKnownValue h k).digest == p.digest) := rfl

theorem awp_perm {e p : Env} {l : List Env} (hp : e.assertions.Perm l) :
    (assertionsWithPredicate e p).Perm (l.filter fun a => matchesPred a p) := by
  rw [awp_eq_filter]; exact hp.filter _

theorem ofp_single {e p a o : Env} (hawp : assertionsWithPredicate e p = [a])
    (ho : asObject a.subject = some o) : objectForPredicate e p = .ok o := by
  simp [objectForPredicate, assertionWithPredicate, hawp, ho]

theorem oofp_single {e p a o : Env} (hawp : assertionsWithPredicate e p = [a])
    (ho : asObject a.subject = some o) : optionalObjectForPredicate e p = .ok (some o) := by
  simp [optionalObjectForPredicate, hawp, ho]

theorem oofp_nil {e p : Env} (hawp : assertionsWithPredicate e p = []) :
    optionalObjectForPredicate e p = .ok none := by
  simp [optionalObjectForPredicate, hawp]

/-- every element found by `assertionsWithPredicate` has an object -/
theorem awp_asObject {e p a : Env} (ha : a ∈ assertionsWithPredicate e p) :
    ∃ o, asObject a.subject = some o := by
  rw [awp_eq_filter, List.mem_filter] at ha
  obtain ⟨_, o, _, _, _, ho⟩ := asObject_of_matches ha.2
  exact ⟨o, ho⟩

theorem assertionWithPredicate_noPanic (e p : Env) : NoPanic (assertionWithPredicate e p) := by
  intro s
  unfold assertionWithPredicate
  split <;> simp

theorem objectForPredicate_noPanic (e p : Env) : NoPanic (objectForPredicate e p) := by
  intro s
  unfold objectForPredicate assertionWithPredicate
  cases hawp : assertionsWithPredicate e p with
  | nil => simp
  | cons a t =>
    cases t with
    | nil =>
      obtain ⟨o, ho⟩ := awp_asObject (e := e) (p := p) (a := a) (by simp [hawp])
      simp [ho]
    | cons b t => simp

theorem optionalObjectForPredicate_noPanic (e p : Env) : NoPanic (optionalObjectForPredicate e p) := by
  intro s
  unfold optionalObjectForPredicate
  cases hawp : assertionsWithPredicate e p with
  | nil => simp
  | cons a t =>
    cases t with
    | nil =>
      obtain ⟨o, ho⟩ := awp_asObject (e := e) (p := p) (a := a) (by simp [hawp])
      simp [ho]
    | cons b t => simp

theorem extractText_noPanic : (e : Env) → NoPanic (extractText e)
  | .node s _ _ => by
    intro x; simp only [extractText]; exact extractText_noPanic s x
  | .leaf c _ => by intro x; cases c <;> simp [extractText]
  | .wrapped .. => by intro x; simp [extractText]
  | .assertion .. => by intro x; simp [extractText]
  | .elided .. => by intro x; simp [extractText]
  | .knownValue .. => by intro x; simp [extractText]
  | .encrypted .. => by intro x; simp [extractText]
  | .compressed .. => by intro x; simp [extractText]

theorem extractTextOrDefault_noPanic (e p : Env) : NoPanic (extractTextOrDefault e p) := by
  intro s
  unfold extractTextOrDefault extractOptionalTextObjectForPredicate
  have h1 := optionalObjectForPredicate_noPanic e p
  cases ho : optionalObjectForPredicate e p with
  | ok x =>
    cases x with
    | none => simp
    | some o =>
      have h2 := extractText_noPanic o
      cases ht : extractText o with
      | ok b => simp [ht]
      | err m => simp [ht]
      | panic m => exact absurd ht (h2 m)
  | err m => simp
  | panic m => exact absurd ho (h1 m)

theorem extractOptionalDate_noPanic (e p : Env) : NoPanic (extractOptionalDate e p) := by
  intro s
  unfold extractOptionalDate
  have h1 := optionalObjectForPredicate_noPanic e p
  cases ho : optionalObjectForPredicate e p with
  | ok x =>
    cases x with
    | none => simp
    | some o =>
      simp only []
      split
      · split <;> simp
      · simp
  | err m => simp
  | panic m => exact absurd ho (h1 m)

theorem subjectArid_noPanic (tag : Nat) (e : Env) : NoPanic (subjectArid tag e) := by
  intro s
  unfold subjectArid
  split
  · split
    · split <;> simp
    · simp
  · simp
  · simp

theorem expression_parse_noPanic (e : Env) : NoPanic (Expression.parse e) := by
  intro s
  unfold Expression.parse
  split
  · split <;> simp
  · simp

theorem expression_parseExpecting_noPanic (e : Env) (exp : Option Ident) :
    NoPanic (Expression.parseExpecting e exp) := by
  unfold Expression.parseExpecting
  refine (expression_parse_noPanic e).bind ?_
  intro x s
  split
  · split <;> simp
  · simp

theorem request_parse_noPanic (h : Hash) (e : Env) (exp : Option Ident) :
    NoPanic (Request.parse h e exp) := by
  unfold Request.parse
  refine (objectForPredicate_noPanic _ _).bind fun _ => ?_
  refine (expression_parseExpecting_noPanic _ _).bind fun _ => ?_
  refine (subjectArid_noPanic _ _).bind fun _ => ?_
  refine (extractTextOrDefault_noPanic _ _).bind fun _ => ?_
  refine (extractOptionalDate_noPanic _ _).bind fun _ => ?_
  exact noPanic_ok _

theorem event_parse_noPanic (h : Hash) (e : Env) : NoPanic (Event.parse h e) := by
  unfold Event.parse
  refine (objectForPredicate_noPanic _ _).bind fun ce => ?_
  split
  · refine (subjectArid_noPanic _ _).bind fun _ => ?_
    refine (extractTextOrDefault_noPanic _ _).bind fun _ => ?_
    refine (extractOptionalDate_noPanic _ _).bind fun _ => ?_
    exact noPanic_ok _
  · exact noPanic_err _

theorem ofp_bind_ok_noPanic {β} (e p : Env) (f : Env → β) :
    NoPanic ((objectForPredicate e p).bind fun x => .ok (f x)) :=
  (objectForPredicate_noPanic e p).bind fun _ => noPanic_ok _

theorem response_parse_noPanic (h : Hash) (e : Env) : NoPanic (Response.parse h e) := by
  intro s
  unfold Response.parse
  simp only []
  split
  · simp
  · split
    · exact ((subjectArid_noPanic _ _).bind fun _ => ofp_bind_ok_noPanic _ _ _) s
    · split
      · split
        · split
          · simp
          · split
            · split
              · split
                · exact ofp_bind_ok_noPanic _ _ _ s
                · simp
              · split
                · exact ofp_bind_ok_noPanic _ _ _ s
                · simp
            · split
              · exact ofp_bind_ok_noPanic _ _ _ s
              · simp
        · simp
        · simp
      · simp

/-! ### evaluating the lookups on request / event / response envelopes -/

theorem KVDistinct.beq_false {h : Hash} (kv : KVDistinct h) {a b : Nat} (ha : a ∈ kvList)
    (hb : b ∈ kvList) (hab : a ≠ b) :
    ((newKnownValue h a).digest == (newKnownValue h b).digest) = false := by
  simp [kv.ne a ha b hb hab]

theorem filter_meta_note {h : Hash} (kv : KVDistinct h) (note : Bytes) (date : Option Int) :
    (metaAsserts h note date).filter (fun a => matchesPred a (newKnownValue h KV_NOTE)) =
      if note.isEmpty then [] else [kvA h KV_NOTE (newLeaf h (.text note))] := by
  have h1 := kv.beq_false (a := KV_DATE) (b := KV_NOTE) (by decide) (by decide) (by decide)
  unfold metaAsserts
  cases note.isEmpty <;> cases date <;> simp [matchesPred_kvA, h1]

theorem filter_meta_date {h : Hash} (kv : KVDistinct h) (note : Bytes) (date : Option Int) :
    (metaAsserts h note date).filter (fun a => matchesPred a (newKnownValue h KV_DATE)) =
      match date with
      | some d => [kvA h KV_DATE (newLeaf h (dateCbor d))]
      | none => [] := by
  have h1 := kv.beq_false (a := KV_NOTE) (b := KV_DATE) (by decide) (by decide) (by decide)
  unfold metaAsserts
  cases note.isEmpty <;> cases date <;> simp [matchesPred_kvA, h1]

theorem filter_meta_other {h : Hash} (kv : KVDistinct h) (note : Bytes) (date : Option Int) {k : Nat}
    (hk : k ∈ kvList) (hkn : k ≠ KV_NOTE) (hkd : k ≠ KV_DATE) :
    (metaAsserts h note date).filter (fun a => matchesPred a (newKnownValue h k)) = [] := by
  have h1 := kv.beq_false (a := KV_NOTE) (b := k) (by decide) hk (Ne.symm hkn)
  have h2 := kv.beq_false (a := KV_DATE) (b := k) (by decide) hk (Ne.symm hkd)
  unfold metaAsserts
  cases note.isEmpty <;> cases date <;> simp [matchesPred_kvA, h1, h2]

section shape
variable {h : Hash} (kv : KVDistinct h) {e : Env} {k : Nat} {o : Env} {note : Bytes} {date : Option Int}
  (hperm : e.assertions.Perm (kvA h k o :: metaAsserts h note date))
  (hk : k ∈ kvList) (hkn : k ≠ KV_NOTE) (hkd : k ≠ KV_DATE)
include kv hperm hk hkn hkd

theorem awp_first : assertionsWithPredicate e (newKnownValue h k) = [kvA h k o] := by
  apply List.perm_singleton.1
  have := awp_perm hperm (p := newKnownValue h k)
  simpa [List.filter_cons, matchesPred_kvA, filter_meta_other kv note date hk hkn hkd] using this

omit hkd in
theorem awp_note : assertionsWithPredicate e (newKnownValue h KV_NOTE) =
    if note.isEmpty then [] else [kvA h KV_NOTE (newLeaf h (.text note))] := by
  have h1 := kv.beq_false (a := k) (b := KV_NOTE) hk (by decide) hkn
  have := awp_perm hperm (p := newKnownValue h KV_NOTE)
  rw [List.filter_cons, matchesPred_kvA, h1, filter_meta_note kv] at this
  cases hn : note.isEmpty
  · simp only [hn] at this ⊢
    exact List.perm_singleton.1 this
  · simp only [hn] at this ⊢
    exact List.perm_nil.1 this

omit hkn in
theorem awp_date : assertionsWithPredicate e (newKnownValue h KV_DATE) =
    match date with
    | some d => [kvA h KV_DATE (newLeaf h (dateCbor d))]
    | none => [] := by
  have h1 := kv.beq_false (a := k) (b := KV_DATE) hk (by decide) hkd
  have := awp_perm hperm (p := newKnownValue h KV_DATE)
  rw [List.filter_cons, matchesPred_kvA, h1, filter_meta_date kv] at this
  cases date with
  | none => exact List.perm_nil.1 this
  | some d => exact List.perm_singleton.1 this

theorem ofp_first : objectForPredicate e (newKnownValue h k) = .ok o :=
  ofp_single (awp_first kv hperm hk hkn hkd) rfl

omit hkd in
theorem note_lookup (hnote : note.isEmpty = true → note = []) :
    extractTextOrDefault e (newKnownValue h KV_NOTE) = .ok note := by
  have hawp := awp_note kv hperm hk hkn
  unfold extractTextOrDefault extractOptionalTextObjectForPredicate
  cases hn : note.isEmpty
  · simp only [hn] at hawp
    rw [oofp_single hawp rfl]
    simp [newLeaf, extractText]
  · simp only [hn] at hawp
    rw [oofp_nil hawp, hnote hn]

omit hkn in
theorem date_lookup : extractOptionalDate e (newKnownValue h KV_DATE) = .ok date := by
  have hawp := awp_date kv hperm hk hkd
  unfold extractOptionalDate
  cases date with
  | none => rw [oofp_nil hawp]
  | some d =>
    rw [oofp_single hawp rfl]
    have : dateOfCbor? (dateCbor d) = some d := by
      unfold dateCbor
      split <;> simp [dateOfCbor?, TAG_DATE] <;> omega
    simp [newLeaf, subjectLeaf, this]

end shape

theorem isEmpty_nil {note : Bytes} : note.isEmpty = true → note = [] := by
  cases note <;> simp

theorem subjectArid_idSubject {h : Hash} {tag : Nat} {id : Bytes} {e : Env}
    (hsub : e.subject = idSubject h tag id) (hid : id.length = 32) : subjectArid tag e = .ok id := by
  unfold subjectArid
  rw [hsub]
  simp [idSubject, newLeaf, aridCbor, aridOfCbor?, hid]

/-- any envelope with the subject and the assertions of a request parses to that request -/
theorem request_parse_of_shape {h : Hash} (kv : KVDistinct h) (r : Request) (e : Env)
    (exp : Option Ident) (hsub : e.subject = idSubject h TAG_REQUEST r.id)
    (hperm : e.assertions.Perm (reqAsserts h r)) (hid : r.id.length = 32)
    (hb : Expression.parse r.body.envelope = .ok r.body)
    (hexp : ∀ g, exp = some g → g = r.body.function) : Request.parse h e exp = .ok r := by
  have hk : KV_BODY ∈ kvList := by decide
  have hkn : KV_BODY ≠ KV_NOTE := by decide
  have hkd : KV_BODY ≠ KV_DATE := by decide
  unfold Request.parse
  rw [ofp_first kv hperm hk hkn hkd, subjectArid_idSubject hsub hid,
    note_lookup kv hperm hk hkn isEmpty_nil, date_lookup kv hperm hk hkd]
  unfold Expression.parseExpecting
  simp only [Res.bind, hb]
  cases exp with
  | none => rfl
  | some g => simp [hexp g rfl]

/-- any envelope with the subject and the assertions of an event parses to that event -/
theorem event_parse_of_shape {h : Hash} (kv : KVDistinct h) (ev : Event) (e : Env)
    (hsub : e.subject = idSubject h TAG_EVENT ev.id)
    (hperm : e.assertions.Perm (evAsserts h ev)) (hid : ev.id.length = 32) :
    Event.parse h e = .ok ev := by
  have hk : KV_CONTENT ∈ kvList := by decide
  have hkn : KV_CONTENT ≠ KV_NOTE := by decide
  have hkd : KV_CONTENT ≠ KV_DATE := by decide
  unfold Event.parse
  rw [ofp_first kv hperm hk hkn hkd, subjectArid_idSubject hsub hid,
    note_lookup kv hperm hk hkn isEmpty_nil, date_lookup kv hperm hk hkd]
  simp [Res.bind, newLeaf, extractText]

/-- the identifiers of a response are ARIDs (32 bytes) -/
def Response.idOk : Response → Prop
  | .success id _ => id.length = 32
  | .failure (some id) _ => id.length = 32
  | .failure none _ => True

/-- any envelope with the subject and the single assertion of a response parses to it -/
theorem response_parse_of_shape {h : Hash} (kv : KVDistinct h) (v : Response) (e : Env)
    (hsub : e.subject = respSubject h v) (has : e.assertions = [respAssert h v])
    (hid : Response.idOk v) : Response.parse h e = .ok v := by
  have h1 := kv.beq_false (a := KV_RESULT) (b := KV_ERROR) (by decide) (by decide) (by decide)
  have h2 := kv.beq_false (a := KV_ERROR) (b := KV_RESULT) (by decide) (by decide) (by decide)
  cases v with
  | success id res =>
    have hr : assertionsWithPredicate e (newKnownValue h KV_RESULT) = [kvA h KV_RESULT res] := by
      rw [awp_eq_filter, has]; simp [respAssert, matchesPred_kvA]
    have he : assertionsWithPredicate e (newKnownValue h KV_ERROR) = [] := by
      rw [awp_eq_filter, has]; simp [respAssert, matchesPred_kvA, h1]
    have hs : subjectArid TAG_RESPONSE e = .ok id := subjectArid_idSubject hsub hid
    unfold Response.parse
    simp [hr, he, assertionWithPredicate, hs, ofp_single hr rfl, Res.bind]
  | failure id er =>
    have hr : assertionsWithPredicate e (newKnownValue h KV_RESULT) = [] := by
      rw [awp_eq_filter, has]; simp [respAssert, matchesPred_kvA, h2]
    have he : assertionsWithPredicate e (newKnownValue h KV_ERROR) = [kvA h KV_ERROR er] := by
      rw [awp_eq_filter, has]; simp [respAssert, matchesPred_kvA]
    unfold Response.parse
    cases id with
    | none =>
      simp only [respSubject] at hsub
      simp [hr, he, assertionWithPredicate, ofp_single he rfl, Res.bind, hsub, newLeaf,
        knownValueCbor, TAG_KNOWN_VALUE, KV_UNKNOWN]
    | some id =>
      simp only [respSubject, idSubject] at hsub
      have hid' : id.length = 32 := hid
      simp [hr, he, assertionWithPredicate, ofp_single he rfl, Res.bind, hsub, newLeaf,
        aridCbor, aridOfCbor?, hid']

/-! ### the built envelopes satisfy the invariant and are encodable (for the round trip
through bytes, C05) -/

theorem EncodableList_iff (as : List Env) : EncodableList as ↔ ∀ a ∈ as, Encodable a := by
  induction as with
  | nil => simp [EncodableList]
  | cons a as ih => simp [EncodableList, ih]

theorem inv_rebuild {h : Hash} {s : Env} {as : List Env} (hs : Inv h s) (hasc : AscDigests as)
    (hl : ∀ a ∈ as, Inv h a ∧ a.slotOk = true) : Inv h (rebuild h s as) := by
  cases as with
  | nil => exact hs
  | cons a t =>
    simp only [rebuild, nodeOf, Inv, WF, Canon]
    exact ⟨⟨hs.1, (WFList_iff h _).2 fun x hx => (hl x hx).1.1, trivial⟩, hs.2,
      (CanonList_iff _).2 fun x hx => (hl x hx).1.2, by simp, hasc, fun x hx => (hl x hx).2⟩

theorem encShape_rebuild {h : Hash} {s : Env} {as : List Env} (hs : EncShape s)
    (hl : ∀ a ∈ as, EncShape a) : EncShape (rebuild h s as) := by
  cases as with
  | nil => exact hs
  | cons a t =>
    simp only [rebuild, nodeOf, EncShape]
    exact ⟨hs, (EncShapeList_iff _).2 hl⟩

theorem encodable_rebuild {h : Hash} {s : Env} {as : List Env} (hs : Encodable s)
    (hl : ∀ a ∈ as, Encodable a) (hlen : as.length + 1 < 2 ^ 64) : Encodable (rebuild h s as) := by
  cases as with
  | nil => exact hs
  | cons a t =>
    simp only [rebuild, nodeOf, Encodable]
    exact ⟨hs, (EncodableList_iff _).2 hl, hlen⟩

/-- the envelope with subject `s` obtained by adding the elements of `l` one by one -/
def built (h : Hash) (s : Env) (l : List Env) : Env := rebuild h s (l.foldl normAdd [])

theorem inv_built {h : Hash} {s : Env} {l : List Env} (hs : Inv h s)
    (hl : ∀ a ∈ l, Inv h a ∧ a.slotOk = true) : Inv h (built h s l) := by
  refine inv_rebuild hs (foldl_normAdd_asc l List.Pairwise.nil) ?_
  intro a ha
  rcases mem_foldl_normAdd_sub l ha with h0 | h0
  · simp at h0
  · exact hl a h0

theorem encShape_built {h : Hash} {s : Env} {l : List Env} (hs : EncShape s)
    (hl : ∀ a ∈ l, EncShape a) : EncShape (built h s l) := by
  refine encShape_rebuild hs ?_
  intro a ha
  rcases mem_foldl_normAdd_sub l ha with h0 | h0
  · simp at h0
  · exact hl a h0

theorem encodable_built {h : Hash} {s : Env} {l : List Env} (hs : Encodable s)
    (hl : ∀ a ∈ l, Encodable a) (hlen : l.length + 1 < 2 ^ 64) : Encodable (built h s l) := by
  refine encodable_rebuild hs ?_ ?_
  · intro a ha
    rcases mem_foldl_normAdd_sub l ha with h0 | h0
    · simp at h0
    · exact hl a h0
  · have := foldl_normAdd_length_le l []
    simp only [List.length_nil] at this
    omega

theorem inv_kvA {h : Hash} {k : Nat} {o : Env} (ho : Inv h o) :
    Inv h (kvA h k o) ∧ (kvA h k o).slotOk = true := by
  refine ⟨?_, rfl⟩
  simp only [kvA, newAssertion, newKnownValue, Inv, WF, Canon]
  exact ⟨⟨trivial, ho.1, trivial⟩, trivial, ho.2⟩

theorem inv_leaf (h : Hash) (c : Cbor) : Inv h (newLeaf h c) := by
  simp only [newLeaf, Inv, WF, Canon]; exact ⟨trivial, trivial⟩

theorem encShape_kvA {h : Hash} {k : Nat} {o : Env} (ho : EncShape o) : EncShape (kvA h k o) := by
  simp only [kvA, newAssertion, newKnownValue, EncShape]; exact ⟨trivial, ho⟩

theorem encodable_kvA {h : Hash} {k : Nat} {o : Env} (hk : k < 2 ^ 64) (ho : Encodable o) :
    Encodable (kvA h k o) := by
  simp only [kvA, newAssertion, newKnownValue, Encodable]; exact ⟨hk, ho⟩

theorem dateCbor_valid {d : Int} (hd : -(2 ^ 64 : Int) ≤ d ∧ d < 2 ^ 64) : (dateCbor d).Valid := by
  unfold dateCbor
  split <;> simp only [Cbor.Valid, TAG_DATE] <;> omega

theorem aridTagged_valid {tag : Nat} {id : Bytes} (ht : tag < 2 ^ 64) (hid : id.length = 32) :
    (Cbor.tagged tag (aridCbor id)).Valid := by
  simp only [aridCbor, Cbor.Valid, TAG_ARID, hid]; omega

/-- the note (when present) is valid UTF-8 of a length that fits, the date fits in 64 bits -/
def MetaEncodable (note : Bytes) (date : Option Int) : Prop :=
  (Cbor.text note).Valid ∧ ∀ d, date = some d → -(2 ^ 64 : Int) ≤ d ∧ d < 2 ^ 64

theorem mem_metaAsserts {h : Hash} {note : Bytes} {date : Option Int} {a : Env}
    (ha : a ∈ metaAsserts h note date) :
    a = kvA h KV_NOTE (newLeaf h (.text note)) ∨ ∃ d, date = some d ∧ a = kvA h KV_DATE (newLeaf h (dateCbor d)) := by
  unfold metaAsserts at ha
  rcases List.mem_append.1 ha with ha | ha
  · left
    split at ha
    · simp at ha
    · simpa using ha
  · right
    cases date with
    | none => simp at ha
    | some d => exact ⟨d, rfl, by simpa using ha⟩

theorem metaAsserts_length_le (h : Hash) (note : Bytes) (date : Option Int) :
    (metaAsserts h note date).length ≤ 2 := by
  unfold metaAsserts
  cases note.isEmpty <;> cases date <;> simp

theorem inv_metaAsserts {h : Hash} {note : Bytes} {date : Option Int} :
    ∀ a ∈ metaAsserts h note date, Inv h a ∧ a.slotOk = true := by
  intro a ha
  rcases mem_metaAsserts ha with rfl | ⟨d, _, rfl⟩ <;> exact inv_kvA (inv_leaf h _)

theorem encShape_metaAsserts {h : Hash} {note : Bytes} {date : Option Int} :
    ∀ a ∈ metaAsserts h note date, EncShape a := by
  intro a ha
  rcases mem_metaAsserts ha with rfl | ⟨d, _, rfl⟩ <;>
    exact encShape_kvA (by simp only [newLeaf, EncShape])

theorem encodable_metaAsserts {h : Hash} {note : Bytes} {date : Option Int}
    (hm : MetaEncodable note date) : ∀ a ∈ metaAsserts h note date, Encodable a := by
  intro a ha
  rcases mem_metaAsserts ha with rfl | ⟨d, hd, rfl⟩
  · exact encodable_kvA (by decide) (by simpa only [newLeaf, Encodable] using hm.1)
  · exact encodable_kvA (by decide)
      (by simpa only [newLeaf, Encodable] using dateCbor_valid (hm.2 d hd))

/-- the envelope of a request / event (`k`: 'body' / 'content') is well formed and encodable -/
theorem chain_wellformed {h : Hash} {tag k : Nat} {id note : Bytes} {date : Option Int} {o : Env}
    (ho : Inv h o) (hs : EncShape o) :
    Inv h (built h (idSubject h tag id) (kvA h k o :: metaAsserts h note date)) ∧
    EncShape (built h (idSubject h tag id) (kvA h k o :: metaAsserts h note date)) := by
  constructor
  · refine inv_built (inv_leaf h _) ?_
    intro a ha
    rcases List.mem_cons.1 ha with rfl | ha
    · exact inv_kvA ho
    · exact inv_metaAsserts a ha
  · refine encShape_built (by simp only [idSubject, newLeaf, EncShape]) ?_
    intro a ha
    rcases List.mem_cons.1 ha with rfl | ha
    · exact encShape_kvA hs
    · exact encShape_metaAsserts a ha

theorem chain_encodable {h : Hash} {tag k : Nat} {id note : Bytes} {date : Option Int} {o : Env}
    (ht : tag < 2 ^ 64) (hk : k < 2 ^ 64) (hid : id.length = 32) (ho : Encodable o)
    (hm : MetaEncodable note date) :
    Encodable (built h (idSubject h tag id) (kvA h k o :: metaAsserts h note date)) := by
  refine encodable_built ?_ ?_ ?_
  · simpa only [idSubject, newLeaf, Encodable] using aridTagged_valid ht hid
  · intro a ha
    rcases List.mem_cons.1 ha with rfl | ha
    · exact encodable_kvA hk ho
    · exact encodable_metaAsserts hm a ha
  · have := metaAsserts_length_le h note date
    simp only [List.length_cons]
    omega

/-! ### expressions: well-formedness of the built envelope -/

/-- the identifier fits the dCBOR data model -/
def IdentValid : Ident → Prop
  | .known v => v < 2 ^ 64
  | .named n => (Cbor.text n).Valid

theorem identCbor_valid {tag : Nat} {i : Ident} (ht : tag < 2 ^ 64) (hi : IdentValid i) :
    (identCbor tag i).Valid := by
  cases i with
  | known v =>
    simp only [IdentValid] at hi
    simp only [identCbor, Cbor.Valid, ht, hi, and_self]
  | named n =>
    simp only [IdentValid, Cbor.Valid] at hi
    simp only [identCbor, Cbor.Valid, ht, hi, and_self]

theorem inv_paramA {h : Hash} {pv : Ident × Env} (hv : Inv h pv.2) :
    Inv h (paramA h pv) ∧ (paramA h pv).slotOk = true := by
  refine ⟨?_, rfl⟩
  simp only [paramA, newAssertion, newLeaf, Inv, WF, Canon]
  exact ⟨⟨trivial, hv.1, trivial⟩, trivial, hv.2⟩

theorem encShape_paramA {h : Hash} {pv : Ident × Env} (hv : EncShape pv.2) : EncShape (paramA h pv) := by
  simp only [paramA, newAssertion, newLeaf, EncShape]; exact ⟨trivial, hv⟩

theorem encodable_paramA {h : Hash} {pv : Ident × Env} (hp : IdentValid pv.1) (hv : Encodable pv.2) :
    Encodable (paramA h pv) := by
  simp only [paramA, newAssertion, newLeaf, Encodable]
  exact ⟨identCbor_valid (by decide) hp, hv⟩

/-- the envelope of an expression built from `f` and the parameters `ps` -/
def exprEnv (h : Hash) (f : Ident) (ps : List (Ident × Env)) : Env :=
  built h (fnSubject h f) (ps.map (paramA h))

theorem exprEnv_wellformed {h : Hash} {f : Ident} {ps : List (Ident × Env)}
    (hv : ∀ pv ∈ ps, Inv h pv.2 ∧ EncShape pv.2) :
    Inv h (exprEnv h f ps) ∧ EncShape (exprEnv h f ps) := by
  constructor
  · refine inv_built (inv_leaf h _) ?_
    intro a ha
    obtain ⟨pv, hpv, rfl⟩ := List.mem_map.1 ha
    exact inv_paramA (hv pv hpv).1
  · refine encShape_built (by simp only [fnSubject, newLeaf, EncShape]) ?_
    intro a ha
    obtain ⟨pv, hpv, rfl⟩ := List.mem_map.1 ha
    exact encShape_paramA (hv pv hpv).2

theorem exprEnv_encodable {h : Hash} {f : Ident} {ps : List (Ident × Env)} (hf : IdentValid f)
    (hv : ∀ pv ∈ ps, IdentValid pv.1 ∧ Encodable pv.2) (hlen : ps.length + 1 < 2 ^ 64) :
    Encodable (exprEnv h f ps) := by
  refine encodable_built ?_ ?_ (by simpa using hlen)
  · simpa only [fnSubject, newLeaf, Encodable] using identCbor_valid (by decide) hf
  · intro a ha
    obtain ⟨pv, hpv, rfl⟩ := List.mem_map.1 ha
    exact encodable_paramA (hv pv hpv).1 (hv pv hpv).2

/-! ### inversion of the parsers -/

theorem request_parse_inv {h : Hash} {e : Env} {exp : Option Ident} {r : Request}
    (hp : Request.parse h e exp = .ok r) :
    ∃ bodyEnv, objectForPredicate e (newKnownValue h KV_BODY) = .ok bodyEnv ∧
      Expression.parseExpecting bodyEnv exp = .ok r.body ∧
      subjectArid TAG_REQUEST e = .ok r.id ∧
      extractTextOrDefault e (newKnownValue h KV_NOTE) = .ok r.note ∧
      extractOptionalDate e (newKnownValue h KV_DATE) = .ok r.date := by
  unfold Request.parse at hp
  simp only [bind_eq_ok] at hp
  obtain ⟨b, hb, x, hx, id, hid, n, hn, d, hd, heq⟩ := hp
  injection heq with heq
  subst heq
  exact ⟨b, hb, hx, hid, hn, hd⟩

theorem event_parse_inv {h : Hash} {e : Env} {ev : Event} (hp : Event.parse h e = .ok ev) :
    ∃ ce, objectForPredicate e (newKnownValue h KV_CONTENT) = .ok ce ∧
      extractText ce = .ok ev.content ∧
      subjectArid TAG_EVENT e = .ok ev.id ∧
      extractTextOrDefault e (newKnownValue h KV_NOTE) = .ok ev.note ∧
      extractOptionalDate e (newKnownValue h KV_DATE) = .ok ev.date := by
  unfold Event.parse at hp
  simp only [bind_eq_ok] at hp
  obtain ⟨ce, hce, hp⟩ := hp
  split at hp
  · rename_i content hc
    simp only [bind_eq_ok] at hp
    obtain ⟨id, hid, n, hn, d, hd, heq⟩ := hp
    injection heq with heq
    subst heq
    exact ⟨ce, hce, hc, hid, hn, hd⟩
  · cases hp

theorem subjectArid_wrong_tag {tag t : Nat} {inner : Cbor} {d : Digest} {e : Env}
    (hsub : e.subject = .leaf (.tagged t inner) d) (ht : t ≠ tag) :
    subjectArid tag e = .err "dep:WrongTag" := by
  unfold subjectArid
  rw [hsub]
  simp [ht]

theorem subjectArid_ok_inv {tag : Nat} {e : Env} {id : Bytes} (hp : subjectArid tag e = .ok id) :
    ∃ d, e.subject = .leaf (.tagged tag (aridCbor id)) d ∧ id.length = 32 := by
  unfold subjectArid at hp
  split at hp
  · rename_i t inner d hs
    split at hp
    · rename_i ht
      split at hp
      · rename_i id' hid
        injection hp with hp
        subst hp
        simp only [beq_iff_eq] at ht
        subst ht
        unfold aridOfCbor? at hid
        split at hid
        · rename_i t' b
          split at hid
          · rename_i hc
            injection hid with hid
            subst hid
            simp only [Bool.and_eq_true, beq_iff_eq] at hc
            exact ⟨d, by rw [hs, aridCbor, hc.1], hc.2⟩
          · cases hid
        · cases hid
      · cases hp
    · cases hp
  · cases hp
  · cases hp

/-! ### explicit membership / length of the request and event assertion lists -/

theorem mem_metaAsserts_iff {h : Hash} {note : Bytes} {date : Option Int} {a : Env} :
    a ∈ metaAsserts h note date ↔
      (note ≠ [] ∧ a = kvA h KV_NOTE (newLeaf h (.text note))) ∨
      (∃ d, date = some d ∧ a = kvA h KV_DATE (newLeaf h (dateCbor d))) := by
  unfold metaAsserts
  cases note <;> cases date <;> simp

theorem metaAsserts_length (h : Hash) (note : Bytes) (date : Option Int) :
    (metaAsserts h note date).length =
      (if note = [] then 0 else 1) + (if date.isSome then 1 else 0) := by
  unfold metaAsserts
  cases note <;> cases date <;> simp

/-! ### responses: well-formedness of the built envelope -/

/-- the result / error envelope carried by a response -/
def Response.payload : Response → Env
  | .success _ r => r
  | .failure _ er => er

theorem respAssert_eq (h : Hash) (v : Response) :
    ∃ k, k < 2 ^ 64 ∧ respAssert h v = kvA h k (Response.payload v) := by
  cases v with
  | success id r => exact ⟨KV_RESULT, by decide, rfl⟩
  | failure id er => exact ⟨KV_ERROR, by decide, rfl⟩

theorem respSubject_leaf (h : Hash) (v : Response) (hid : Response.idOk v) :
    ∃ c, c.Valid ∧ respSubject h v = newLeaf h c := by
  cases v with
  | success id r => exact ⟨_, aridTagged_valid (by decide) hid, rfl⟩
  | failure id er =>
    cases id with
    | none =>
      refine ⟨_, ?_, rfl⟩
      simp only [knownValueCbor, Cbor.Valid, TAG_RESPONSE, KV_UNKNOWN]; omega
    | some id => exact ⟨_, aridTagged_valid (by decide) hid, rfl⟩

theorem response_wellformed {h : Hash} {v : Response} (hid : Response.idOk v)
    (hi : Inv h (Response.payload v)) (hs : EncShape (Response.payload v))
    (hen : Encodable (Response.payload v)) :
    Inv h (rebuild h (respSubject h v) [respAssert h v]) ∧
    EncShape (rebuild h (respSubject h v) [respAssert h v]) ∧
    Encodable (rebuild h (respSubject h v) [respAssert h v]) := by
  obtain ⟨k, hk, ha⟩ := respAssert_eq h v
  obtain ⟨c, hc, hsub⟩ := respSubject_leaf h v hid
  rw [ha, hsub]
  refine ⟨inv_rebuild (inv_leaf h c) (by simp [AscDigests]) ?_, encShape_rebuild (by simp only [newLeaf, EncShape]) ?_,
    encodable_rebuild (by simpa only [newLeaf, Encodable] using hc) ?_ (by simp)⟩
  · intro a ha; simp only [List.mem_singleton] at ha; subst ha; exact inv_kvA hi
  · intro a ha; simp only [List.mem_singleton] at ha; subst ha; exact encShape_kvA hs
  · intro a ha; simp only [List.mem_singleton] at ha; subst ha; exact encodable_kvA hk hen

/-! ### toy instances for the satisfiability examples -/
namespace Toy

/-- the toy hash: the big-endian value of the input (digests are not even 256-bit) -/
def h0 : Hash := ⟨fun b => ⟨beNat b⟩⟩

theorem kv0 : KVDistinct h0 := ⟨by decide⟩

instance (l : List Env) : Decidable (DistinctDigests l) := by
  unfold DistinctDigests; infer_instance

theorem foldl_be (b : Bytes) : ∀ acc : Nat,
    b.foldl (fun acc x => acc * 256 + x.toNat) acc =
      acc * 256 ^ b.length + b.foldl (fun acc x => acc * 256 + x.toNat) 0 := by
  induction b with
  | nil => intro acc; simp
  | cons x t ih =>
    intro acc
    simp only [List.foldl_cons, List.length_cons]
    rw [ih (acc * 256 + x.toNat), ih (0 * 256 + x.toNat), Nat.pow_succ]
    generalize 256 ^ t.length = P
    rw [Nat.add_mul, Nat.add_mul, Nat.zero_mul, Nat.mul_right_comm acc 256 P,
      ← Nat.mul_assoc acc P 256]
    omega

/-- big-endian value of a concatenation -/
theorem beNat_append (a b : Bytes) : beNat (a ++ b) = beNat a * 256 ^ b.length + beNat b := by
  unfold beNat
  rw [List.foldl_append, foldl_be]

theorem pow_256_32 : (256 : Nat) ^ 32 = 2 ^ 256 := by decide

theorem h0_ofDigests2 (a b : Digest) :
    (h0.ofDigests [a, b]).val = a.val % 2 ^ 256 * 2 ^ 256 + b.val % 2 ^ 256 := by
  simp only [Hash.ofDigests, h0]
  have : catDigests [a, b] = a.bytes ++ b.bytes := by
    simp [catDigests]
  rw [this, beNat_append, Digest.bytes, Digest.bytes, beNat_beBytes, beNat_beBytes, beBytes_len,
    pow_256_32]

/-- with the toy hash the digest of an assertion is `pred * 2^256 + obj` (both reduced modulo
`2^256`) -/
theorem h0_assertion_digest (p o : Env) :
    (newAssertion h0 p o).digest.val = p.digest.val % 2 ^ 256 * 2 ^ 256 + o.digest.val % 2 ^ 256 :=
  h0_ofDigests2 p.digest o.digest

theorem h0_kv_mod_ne : ∀ a ∈ kvList, ∀ b ∈ kvList, a ≠ b →
    (newKnownValue h0 a).digest.val % 2 ^ 256 ≠ (newKnownValue h0 b).digest.val % 2 ^ 256 := by
  decide

/-- the toy hash even satisfies the quantified form: assertions under different known-value
predicates never collide, whatever the objects -/
theorem h0_kvA_ne : ∀ a ∈ kvList, ∀ b ∈ kvList, a ≠ b → ∀ o1 o2 : Env,
    (kvA h0 a o1).digest ≠ (kvA h0 b o2).digest := by
  intro a ha b hb hab o1 o2 heq
  have h1 := h0_assertion_digest (newKnownValue h0 a) o1
  have h2 := h0_assertion_digest (newKnownValue h0 b) o2
  have hv : (kvA h0 a o1).digest.val = (kvA h0 b o2).digest.val := by rw [heq]
  simp only [kvA] at hv
  rw [h1, h2] at hv
  have hne := h0_kv_mod_ne a ha b hb hab
  have hl1 : o1.digest.val % 2 ^ 256 < 2 ^ 256 := Nat.mod_lt _ (by decide)
  have hl2 : o2.digest.val % 2 ^ 256 < 2 ^ 256 := Nat.mod_lt _ (by decide)
  generalize (newKnownValue h0 a).digest.val % 2 ^ 256 = A at hv hne
  generalize (newKnownValue h0 b).digest.val % 2 ^ 256 = B at hv hne
  generalize o1.digest.val % 2 ^ 256 = X at hv hl1
  generalize o2.digest.val % 2 ^ 256 = Y at hv hl2
  omega

theorem h0_chain_distinct {k : Nat} (hk : k ∈ kvList) (hkn : k ≠ KV_NOTE) (hkd : k ≠ KV_DATE)
    (o : Env) (note : Bytes) (date : Option Int) :
    DistinctDigests (kvA h0 k o :: metaAsserts h0 note date) := by
  have h1 := h0_kvA_ne k hk KV_NOTE (by decide) hkn
  have h2 := h0_kvA_ne k hk KV_DATE (by decide) hkd
  have h3 := h0_kvA_ne KV_NOTE (by decide) KV_DATE (by decide) (by decide)
  unfold DistinctDigests metaAsserts
  cases note.isEmpty <;> cases date <;> simp [h1, h2, h3]

/-- every request / event meets the per-instance hypothesis under the toy hash -/
theorem h0_req_distinct (r : Request) : DistinctDigests (reqAsserts h0 r) :=
  h0_chain_distinct (by decide) (by decide) (by decide) _ _ _

theorem h0_ev_distinct (ev : Event) : DistinctDigests (evAsserts h0 ev) :=
  h0_chain_distinct (by decide) (by decide) (by decide) _ _ _

def id0 : Bytes := List.replicate 32 7

/-- `❰1❱ [❰2❱: 2, ❰"rhs"❱: 3]` with the first parameter given twice -/
def params0 : List (Ident × Env) :=
  [(.known 2, newLeaf h0 (.uint 2)), (.named [114, 104, 115], newLeaf h0 (.uint 3)),
   (.known 2, newLeaf h0 (.uint 2))]

def x0 : Expression := ⟨.known 1, exprEnv h0 (.known 1) params0⟩

/-- a request with parameters, a note and a negative date -/
def r0 : Request := ⟨x0, id0, [104, 105], some (-5)⟩
/-- a request without parameters, note and date -/
def r1 : Request := ⟨Expression.new h0 (.named [102]), id0, [], none⟩

def ev0 : Event := ⟨[99], id0, [110], some 1700000000⟩

/-! a hash that is collision-free on the known values but maps every assertion (a 64-byte
input) to the same digest: shows what the per-instance hypothesis is for -/

def hC : Hash := ⟨fun b => if b.length = 64 then ⟨0⟩ else ⟨beNat b⟩⟩

theorem kvC : KVDistinct hC := ⟨by decide⟩

theorem hC_ofDigests2 (a b : Digest) : hC.ofDigests [a, b] = ⟨0⟩ := by
  simp [Hash.ofDigests, hC, catDigests_length]

theorem hC_kvA_digest (k : Nat) (o : Env) : (kvA hC k o).digest = ⟨0⟩ :=
  hC_ofDigests2 _ _

/-- a request with a note, no date -/
def rC : Request := ⟨Expression.new hC (.known 1), id0, [104, 105], none⟩

theorem rC_envelope : Request.toEnvelope hC rC =
    .ok (rebuild hC (idSubject hC TAG_REQUEST id0) [kvA hC KV_BODY rC.body.envelope]) := by
  rw [request_toEnvelope_eq]
  have : (reqAsserts hC rC).foldl normAdd [] = [kvA hC KV_BODY rC.body.envelope] := by
    simp [reqAsserts, metaAsserts, rC, normAdd, sortByDigest_singleton, hC_kvA_digest]
  rw [this]
  rfl

end Toy

end ExprL
end EnvVerif
