/-
  Lemmas/Basic.lean — shared helper lemmas: list forms of the mutual predicates, facts
  about the digest sort.
-/
import EnvVerif.Model.Inv
namespace EnvVerif
open Env

theorem WFList_iff (h : Hash) (as : List Env) : WFList h as ↔ ∀ a ∈ as, WF h a := by
  induction as with
  | nil => simp [WFList]
  | cons a as ih => simp [WFList, ih]

theorem CanonList_iff (as : List Env) : CanonList as ↔ ∀ a ∈ as, Canon a := by
  induction as with
  | nil => simp [CanonList]
  | cons a as ih => simp [CanonList, ih]

theorem digestLe_total (a b : Env) : (digestLe a b || digestLe b a) = true := by
  simp only [digestLe, Bool.or_eq_true, decide_eq_true_eq]; omega

theorem digestLe_trans (a b c : Env) : digestLe a b = true → digestLe b c = true → digestLe a c = true := by
  simp only [digestLe, decide_eq_true_eq]; omega

theorem sortByDigest_perm (as : List Env) : (sortByDigest as).Perm as :=
  List.mergeSort_perm as digestLe

theorem mem_sortByDigest {a : Env} {as : List Env} : a ∈ sortByDigest as ↔ a ∈ as :=
  (sortByDigest_perm as).mem_iff

theorem sortByDigest_length (as : List Env) : (sortByDigest as).length = as.length :=
  (sortByDigest_perm as).length_eq

theorem sortByDigest_sorted (as : List Env) :
    (sortByDigest as).Pairwise (fun a b => digestLe a b = true) :=
  List.pairwise_mergeSort (le := digestLe) (fun a b c => digestLe_trans a b c)
    (fun a b => digestLe_total a b) as

/-- sorting an already strictly ascending list is the identity -/
theorem sortByDigest_of_asc {as : List Env} (hs : AscDigests as) : sortByDigest as = as := by
  apply List.mergeSort_of_pairwise
  exact hs.imp (fun {a b} hab => by simp only [digestLe, decide_eq_true_eq]; omega)

theorem sortByDigest_eq_nil {as : List Env} : sortByDigest as = [] ↔ as = [] := by
  constructor
  · intro hs
    have := sortByDigest_length as
    rw [hs] at this
    exact List.eq_nil_of_length_eq_zero this.symm
  · intro hs; subst hs; simp [sortByDigest]

end EnvVerif
