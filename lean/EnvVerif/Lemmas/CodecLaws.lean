/-
  Lemmas/CodecLaws.lean — the two laws of the byte-level dCBOR codec (`dcbor` crate),
  taken by the envelope-level theorems of C05 / C06 as an explicit hypothesis
  (`CodecLaws`, a structure in `Prop`; NOT an axiom), and the validity predicate
  `Cbor.Valid` the laws speak about.
-/
import EnvVerif.Model.Cbor
namespace EnvVerif
namespace Cbor

/-- the encoded keys of a map, in the order stored -/
def keysEnc (kvs : List (Cbor × Cbor)) : List Bytes := kvs.map (fun kv => kv.1.enc)

/-- strictly ascending in the byte-lexicographic order (hence no duplicate key) -/
def KeysAsc (ks : List Bytes) : Prop := ks.Pairwise (fun a b => bytesLt a b = true)

mutual
/-- the CBOR trees that are values of the dCBOR data model: every head argument fits in 64
bits, text is UTF-8, map keys are strictly ascending by encoded key, the only simple values
are false / true / null, and a float is one that the decoder reads back as that very float
(i.e. it is not numerically reducible to an integer and is the canonical NaN if NaN). -/
def Valid : Cbor → Prop
  | .uint n => n < 2 ^ 64
  | .nint n => n < 2 ^ 64
  | .bytes b => b.length < 2 ^ 64
  | .text b => b.length < 2 ^ 64 ∧ utf8Valid b = true
  | .array xs => xs.length < 2 ^ 64 ∧ ValidList xs
  | .map kvs => kvs.length < 2 ^ 64 ∧ ValidPairs kvs ∧ KeysAsc (keysEnc kvs)
  | .tagged t x => t < 2 ^ 64 ∧ Valid x
  | .simple v => v = 20 ∨ v = 21 ∨ v = 22
  | .float bits => Cbor.dec (encFloat bits) = .ok (.float bits)
def ValidList : List Cbor → Prop
  | [] => True
  | x :: xs => Valid x ∧ ValidList xs
def ValidPairs : List (Cbor × Cbor) → Prop
  | [] => True
  | (k, v) :: kvs => Valid k ∧ Valid v ∧ ValidPairs kvs
end

end Cbor

/-- the two laws of the dCBOR codec: a valid tree decodes from its encoding, and whatever
decodes is valid and re-encodes to the bytes it was read from (so the encoding of a tree
is unique and the decoder accepts nothing else). -/
structure CodecLaws : Prop where
  dec_enc : ∀ c, Cbor.Valid c → Cbor.dec c.enc = .ok c
  enc_dec : ∀ b c, Cbor.dec b = .ok c → c.enc = b ∧ Cbor.Valid c

end EnvVerif
