/-
  Lemmas/CodecLaws.lean — the byte-level dCBOR codec (`dcbor` crate as modelled in
  Model/Cbor.lean): the validity predicate `Cbor.Valid`, the two codec laws as a hypothesis
  structure (`CodecLaws`, in `Prop`; NOT an axiom) and its two halves `DecEncLaw` /
  `EncDecAt b`, and what is proved about the model codec itself:
    * `Cbor.decEncLaw : DecEncLaw` — every valid tree decodes from its encoding;
    * `Cbor.encDec_of_plain` — whatever decodes to a tree without floats and without
      integers in the ranges that `dcbor` 0.17.1 also accepts in float form re-encodes to the
      bytes it was read from and is valid;
    * the second law in general is false for the model codec and for `dcbor` 0.17.1
      (`not_codecLaws` in Props/C06.lean).
-/
import EnvVerif.Model.Cbor
namespace EnvVerif

/-! ### big-endian bytes -/

theorem beNat_append_single (b : Bytes) (x : UInt8) : beNat (b ++ [x]) = beNat b * 256 + x.toNat := by
  simp [beNat, List.foldl_append]

theorem beBytes_len : ∀ (len n : Nat), (beBytes len n).length = len
  | 0, _ => rfl
  | len + 1, n => by simp [beBytes, beBytes_len len]

theorem beNat_beBytes : ∀ (len n : Nat), beNat (beBytes len n) = n % 256 ^ len
  | 0, n => by simp [beBytes, beNat, Nat.mod_one]
  | len + 1, n => by
    rw [beBytes, beNat_append_single, beNat_beBytes len]
    have h1 : (UInt8.ofNat (n % 256)).toNat = n % 256 := by
      simp [UInt8.toNat_ofNat']
    rw [h1, Nat.pow_succ, Nat.mul_comm (256 ^ len) 256, Nat.mod_mul]
    omega

theorem beBytes_beNat : ∀ (len : Nat) (b : Bytes), b.length = len → beBytes len (beNat b) = b
  | 0, b, hl => by
    have : b = [] := List.eq_nil_of_length_eq_zero hl
    subst this; rfl
  | len + 1, b, hl => by
    have hne : b ≠ [] := by intro h0; subst h0; simp at hl
    have hb : b = b.dropLast ++ [b.getLast hne] := (List.dropLast_concat_getLast hne).symm
    have hl' : b.dropLast.length = len := by simp [List.length_dropLast, hl]
    rw [hb, beBytes, beNat_append_single]
    have hx : (b.getLast hne).toNat < 256 := UInt8.toNat_lt _
    have h1 : (beNat b.dropLast * 256 + (b.getLast hne).toNat) / 256 = beNat b.dropLast := by omega
    have h2 : (beNat b.dropLast * 256 + (b.getLast hne).toNat) % 256 = (b.getLast hne).toNat := by omega
    rw [h1, h2, beBytes_beNat len _ hl']
    simp

namespace Cbor

/-- the encoded keys of a map, in the order stored -/
def keysEnc (kvs : List (Cbor × Cbor)) : List Bytes := kvs.map (fun kv => kv.1.enc)

/-- strictly ascending in the byte-lexicographic order (hence no duplicate key) -/
def KeysAsc (ks : List Bytes) : Prop := ks.Pairwise (fun a b => bytesLt a b = true)

mutual
/-- the CBOR trees that are values of the dCBOR data model: every head argument fits in 64
bits, text is UTF-8, map keys are strictly ascending by encoded key, the only simple values
are false / true / null, and a float is one that the decoder reads back as that very float
(i.e. it is not numerically reducible to an integer and is the canonical NaN if NaN). -/
def Valid : Cbor → Prop
  | .uint n => n < 2 ^ 64
  | .nint n => n < 2 ^ 64
  | .bytes b => b.length < 2 ^ 64
  | .text b => b.length < 2 ^ 64 ∧ utf8Valid b = true
  | .array xs => xs.length < 2 ^ 64 ∧ ValidList xs
  | .map kvs => kvs.length < 2 ^ 64 ∧ ValidPairs kvs ∧ KeysAsc (keysEnc kvs)
  | .tagged t x => t < 2 ^ 64 ∧ Valid x
  | .simple v => v = 20 ∨ v = 21 ∨ v = 22
  | .float bits => Cbor.dec (encFloat bits) = .ok (.float bits)
def ValidList : List Cbor → Prop
  | [] => True
  | x :: xs => Valid x ∧ ValidList xs
def ValidPairs : List (Cbor × Cbor) → Prop
  | [] => True
  | (k, v) :: kvs => Valid k ∧ Valid v ∧ ValidPairs kvs
end

end Cbor

/-- the two laws of the dCBOR codec: a valid tree decodes from its encoding, and whatever
decodes is valid and re-encodes to the bytes it was read from (so the encoding of a tree
is unique and the decoder accepts nothing else).

WARNING: the second law is *false* for the model codec, which mirrors `dcbor` 0.17.1
faithfully: `fa 4f 00 00 01` (the f32 2147483904.0) is accepted and read as the integer
2147483904, whose encoding is `1a 80 00 01 00` (`not_codecLaws` in Props/C06.lean; confirmed
on the Rust crate).  The property theorems therefore do not take `CodecLaws` but its two
halves separately: `DecEncLaw` (proved for the model codec below: `Cbor.decEncLaw`, so C05
needs no codec hypothesis at all) and the pointwise `EncDecAt b` (a hypothesis in C06). -/
structure CodecLaws : Prop where
  dec_enc : ∀ c, Cbor.Valid c → Cbor.dec c.enc = .ok c
  enc_dec : ∀ b c, Cbor.dec b = .ok c → c.enc = b ∧ Cbor.Valid c

/-- the first law alone: a valid tree decodes from its encoding -/
def DecEncLaw : Prop := ∀ c, Cbor.Valid c → Cbor.dec c.enc = .ok c

/-- the second law at one input: if `b` decodes, the tree is valid and re-encodes to `b` -/
def EncDecAt (b : Bytes) : Prop := ∀ c, Cbor.dec b = .ok c → c.enc = b ∧ Cbor.Valid c

theorem CodecLaws.decEncLaw (L : CodecLaws) : DecEncLaw := L.dec_enc
theorem CodecLaws.encDecAt (L : CodecLaws) (b : Bytes) : EncDecAt b := L.enc_dec b
theorem CodecLaws.of_halves (h1 : DecEncLaw) (h2 : ∀ b, EncDecAt b) : CodecLaws := ⟨h1, h2⟩

/-! ### the first law holds for the model codec -/

namespace Cbor
theorem headByte_toNat (mt a : Nat) (hmt : mt < 8) (ha : a < 32) :
    (UInt8.ofNat (mt * 32) + UInt8.ofNat a).toNat = mt * 32 + a := by
  simp only [UInt8.toNat_add, UInt8.toNat_ofNat']
  omega

theorem headByte_lit (mt : Nat) (hmt : mt < 8) (a : Nat) (ha : a < 32) :
    (UInt8.ofNat (mt * 32) + (OfNat.ofNat a : UInt8)).toNat = mt * 32 + a := by
  simp only [UInt8.toNat_add, UInt8.toNat_ofNat', UInt8.toNat_ofNat]
  omega

/-- the additional-information value of the shortest head for argument `n` -/
def aiOf (n : Nat) : Nat :=
  if n < 24 then n else if n < 256 then 24 else if n < 65536 then 25 else if n < 4294967296 then 26 else 27

theorem decHead_head (mt n : Nat) (rest : Bytes) (hmt : mt < 8) (h7 : mt = 7 → n < 24)
    (hn : n < 2 ^ 64) : decHead (head mt n ++ rest) = .ok (mt, aiOf n, n, rest) := by
  unfold head aiOf
  dsimp only
  split
  · rename_i h1
    have hb := headByte_toNat mt n hmt (by omega)
    simp only [List.cons_append, List.nil_append, decHead, hb]
    have e1 : (mt * 32 + n) / 32 = mt := by omega
    have e2 : (mt * 32 + n) % 32 = n := by omega
    simp only [e1, e2, h1, if_true]
  · rename_i h1
    have hf : (mt == 7) = false := by
      cases hm : mt == 7 with
      | false => rfl
      | true => exact absurd (h7 (by simpa using hm)) h1
    split
    · rename_i h2
      have hb := headByte_lit mt hmt 24 (by omega)
      simp only [List.cons_append, List.nil_append, decHead, hb]
      have e1 : (mt * 32 + 24) / 32 = mt := by omega
      have e2 : (mt * 32 + 24) % 32 = 24 := by omega
      have e3 : (UInt8.ofNat n).toNat = n := by simp only [UInt8.toNat_ofNat']; omega
      simp only [e1, e2, e3, h1, if_false, Nat.lt_irrefl, beq_self_eq_true, if_true]
    · rename_i h2
      split
      · rename_i h3
        have hb := headByte_lit mt hmt 25 (by omega)
        simp only [List.cons_append, decHead, hb]
        have e1 : (mt * 32 + 25) / 32 = mt := by omega
        have e2 : (mt * 32 + 25) % 32 = 25 := by omega
        have e3 : n % 256 ^ 2 = n := Nat.mod_eq_of_lt (by omega)
        have e4 : ¬ n < 256 := h2
        simp [e1, e2, beBytes_len, beNat_beBytes, e3, e4, hf]
      · rename_i h3
        split
        · rename_i h4
          have hb := headByte_lit mt hmt 26 (by omega)
          simp only [List.cons_append, decHead, hb]
          have e1 : (mt * 32 + 26) / 32 = mt := by omega
          have e2 : (mt * 32 + 26) % 32 = 26 := by omega
          have e3 : n % 256 ^ 4 = n := Nat.mod_eq_of_lt (by omega)
          have e4 : ¬ n < 65536 := h3
          simp [e1, e2, beBytes_len, beNat_beBytes, e3, e4, hf]
        · rename_i h4
          have hb := headByte_lit mt hmt 27 (by omega)
          simp only [List.cons_append, decHead, hb]
          have e1 : (mt * 32 + 27) / 32 = mt := by omega
          have e2 : (mt * 32 + 27) % 32 = 27 := by omega
          have e3 : n % 256 ^ 8 = n := Nat.mod_eq_of_lt (by omega)
          have e4 : ¬ n < 4294967296 := h4
          simp [e1, e2, beBytes_len, beNat_beBytes, e3, e4, hf]


theorem head_ne_nil (mt n : Nat) : head mt n ≠ [] := by
  unfold head
  dsimp only
  repeat' split
  all_goals simp

theorem head_length_pos (mt n : Nat) : 0 < (head mt n).length :=
  List.length_pos_iff.mpr (head_ne_nil mt n)

theorem dec_nil : dec [] = .error .underrun := by rfl

theorem enc_length_pos : (c : Cbor) → c.Valid → 0 < c.enc.length
  | .uint n, _ => by simp only [enc]; exact head_length_pos _ _
  | .nint n, _ => by simp only [enc]; exact head_length_pos _ _
  | .bytes b, _ => by simp only [enc, List.length_append]; have := head_length_pos 2 b.length; omega
  | .text b, _ => by simp only [enc, List.length_append]; have := head_length_pos 3 b.length; omega
  | .array xs, _ => by simp only [enc, List.length_append]; have := head_length_pos 4 xs.length; omega
  | .map kvs, _ => by simp only [enc, List.length_append]; have := head_length_pos 5 kvs.length; omega
  | .tagged t x, _ => by simp only [enc, List.length_append]; have := head_length_pos 6 t; omega
  | .simple v, _ => by simp only [enc]; exact head_length_pos _ _
  | .float bits, hv => by
    simp only [Valid] at hv
    simp only [enc]
    cases he : encFloat bits with
    | nil => rw [he, dec_nil] at hv; cases hv
    | cons _ _ => simp

theorem decItem_uint (f n : Nat) (rest : Bytes) (hn : n < 2 ^ 64) :
    decItem (f + 1) (head 0 n ++ rest) = .ok (.uint n, rest) := by
  simp only [decItem, decHead_head 0 n rest (by omega) (by omega) hn]
  simp


theorem decHead_append {data : Bytes} {mt ai v : Nat} {r : Bytes}
    (h : decHead data = .ok (mt, ai, v, r)) (rest : Bytes) :
    decHead (data ++ rest) = .ok (mt, ai, v, r ++ rest) := by
  cases data with
  | nil => simp [decHead] at h
  | cons hb tl =>
    simp only [List.cons_append, decHead] at h ⊢
    split at h
    · rename_i h1
      rw [if_pos h1]
      simp only [Except.ok.injEq, Prod.mk.injEq] at h
      obtain ⟨rfl, rfl, rfl, rfl⟩ := h
      rfl
    · rename_i h1
      rw [if_neg h1]
      split at h
      · rename_i h2
        rw [if_pos h2]
        cases tl with
        | nil => simp at h
        | cons b r' =>
          simp only [List.cons_append] at h ⊢
          split at h
          · cases h
          · rename_i h3
            rw [if_neg h3]
            simp only [Except.ok.injEq, Prod.mk.injEq] at h
            obtain ⟨rfl, rfl, rfl, rfl⟩ := h
            rfl
      · rename_i h2
        rw [if_neg h2]
        split at h
        · rename_i h3
          rw [if_pos h3]
          split at h
          · cases h
          · rename_i h4
            have h4' : ¬ (tl ++ rest).length < 2 := by simp only [List.length_append]; omega
            rw [if_neg h4']
            have ht : (tl ++ rest).take 2 = tl.take 2 := List.take_append_of_le_length (by omega)
            have hd : (tl ++ rest).drop 2 = tl.drop 2 ++ rest := List.drop_append_of_le_length (by omega)
            rw [ht, hd]
            split at h
            · cases h
            · rename_i h5
              rw [if_neg h5]
              simp only [Except.ok.injEq, Prod.mk.injEq] at h
              obtain ⟨rfl, rfl, rfl, rfl⟩ := h
              rfl
        · rename_i h3
          rw [if_neg h3]
          split at h
          · rename_i h3'
            rw [if_pos h3']
            split at h
            · cases h
            · rename_i h4
              have h4' : ¬ (tl ++ rest).length < 4 := by simp only [List.length_append]; omega
              rw [if_neg h4']
              have ht : (tl ++ rest).take 4 = tl.take 4 := List.take_append_of_le_length (by omega)
              have hd : (tl ++ rest).drop 4 = tl.drop 4 ++ rest := List.drop_append_of_le_length (by omega)
              rw [ht, hd]
              split at h
              · cases h
              · rename_i h5
                rw [if_neg h5]
                simp only [Except.ok.injEq, Prod.mk.injEq] at h
                obtain ⟨rfl, rfl, rfl, rfl⟩ := h
                rfl
          · rename_i h3'
            rw [if_neg h3']
            split at h
            · rename_i h3''
              rw [if_pos h3'']
              split at h
              · cases h
              · rename_i h4
                have h4' : ¬ (tl ++ rest).length < 8 := by simp only [List.length_append]; omega
                rw [if_neg h4']
                have ht : (tl ++ rest).take 8 = tl.take 8 := List.take_append_of_le_length (by omega)
                have hd : (tl ++ rest).drop 8 = tl.drop 8 ++ rest := List.drop_append_of_le_length (by omega)
                rw [ht, hd]
                split at h
                · cases h
                · rename_i h5
                  rw [if_neg h5]
                  simp only [Except.ok.injEq, Prod.mk.injEq] at h
                  obtain ⟨rfl, rfl, rfl, rfl⟩ := h
                  rfl
            · cases h


theorem decItem_float_append {f : Nat} {data : Bytes} {bits : Nat} {r : Bytes}
    (h : decItem (f + 1) data = .ok (.float bits, r)) (f' : Nat) (rest : Bytes) :
    decItem (f' + 1) (data ++ rest) = .ok (.float bits, r ++ rest) := by
  simp only [decItem] at h ⊢
  cases hh : decHead data with
  | error e => rw [hh] at h; cases h
  | ok q =>
    obtain ⟨mt, ai, v, r0⟩ := q
    rw [hh] at h
    rw [decHead_append hh rest]
    dsimp only at h ⊢
    split at h
    · cases h
    · rename_i m0
      rw [if_neg m0]
      split at h
      · cases h
      · rename_i m1
        rw [if_neg m1]
        split at h
        · split at h <;> cases h
        · rename_i m2
          rw [if_neg m2]
          split at h
          · repeat' split at h
            all_goals cases h
          · rename_i m3
            rw [if_neg m3]
            split at h
            · split at h <;> cases h
            · rename_i m4
              rw [if_neg m4]
              split at h
              · split at h <;> cases h
              · rename_i m5
                rw [if_neg m5]
                split at h
                · split at h <;> cases h
                · rename_i m6
                  rw [if_neg m6]
                  split at h
                  · rename_i hfl
                    rw [if_pos hfl]
                    cases hd : decFloat ai v with
                    | error e => rw [hd] at h; cases h
                    | ok c =>
                      rw [hd] at h
                      simp only [Except.ok.injEq, Prod.mk.injEq] at h
                      obtain ⟨rfl, rfl⟩ := h
                      rfl
                  · split at h <;> cases h


theorem float_valid_decItem {bits : Nat} (hv : (Cbor.float bits).Valid) (f : Nat) (rest : Bytes) :
    decItem (f + 1) (encFloat bits ++ rest) = .ok (.float bits, rest) := by
  simp only [Valid, dec] at hv
  cases hd : decItem (2 * (encFloat bits).length + 2) (encFloat bits) with
  | error e => rw [hd] at hv; cases hv
  | ok q =>
    obtain ⟨c, r⟩ := q
    rw [hd] at hv
    dsimp only at hv
    split at hv
    · rename_i hr
      injection hv with hv
      subst hv
      have hr' : r = [] := by simpa using hr
      subst hr'
      have := decItem_float_append (f := 2 * (encFloat bits).length + 1) hd f rest
      simpa using this
    · cases hv

mutual
theorem decItem_enc : (c : Cbor) → c.Valid → ∀ (fuel : Nat) (rest : Bytes),
    2 * c.enc.length ≤ fuel + 1 → decItem fuel (c.enc ++ rest) = .ok (c, rest)
  | .uint n, hv, fuel, rest, hf => by
    have hp := enc_length_pos _ hv
    obtain ⟨f, rfl⟩ : ∃ f, fuel = f + 1 := ⟨fuel - 1, by omega⟩
    simp only [Valid] at hv
    simp only [enc, decItem, decHead_head 0 n rest (by omega) (by omega) hv]
    simp
  | .nint n, hv, fuel, rest, hf => by
    have hp := enc_length_pos _ hv
    obtain ⟨f, rfl⟩ : ∃ f, fuel = f + 1 := ⟨fuel - 1, by omega⟩
    simp only [Valid] at hv
    simp only [enc, decItem, decHead_head 1 n rest (by omega) (by omega) hv]
    simp
  | .bytes b, hv, fuel, rest, hf => by
    have hp := enc_length_pos _ hv
    obtain ⟨f, rfl⟩ : ∃ f, fuel = f + 1 := ⟨fuel - 1, by omega⟩
    simp only [Valid] at hv
    simp only [enc, List.append_assoc, decItem, decHead_head 2 b.length (b ++ rest) (by omega) (by omega) hv]
    simp
  | .text b, hv, fuel, rest, hf => by
    have hp := enc_length_pos _ hv
    obtain ⟨f, rfl⟩ : ∃ f, fuel = f + 1 := ⟨fuel - 1, by omega⟩
    simp only [Valid] at hv
    simp only [enc, List.append_assoc, decItem, decHead_head 3 b.length (b ++ rest) (by omega) (by omega) hv.1]
    simp [hv.2]
  | .array xs, hv, fuel, rest, hf => by
    have hp := enc_length_pos _ hv
    obtain ⟨f, rfl⟩ : ∃ f, fuel = f + 1 := ⟨fuel - 1, by omega⟩
    simp only [Valid] at hv
    have hl : 2 * (encList xs).length ≤ f := by
      simp only [enc, List.length_append] at hf
      have := head_length_pos 4 xs.length
      omega
    have ih := decItems_enc xs hv.2 f rest hl
    simp only [enc, List.append_assoc, decItem,
      decHead_head 4 xs.length (encList xs ++ rest) (by omega) (by omega) hv.1]
    simp [ih]
  | .map kvs, hv, fuel, rest, hf => by
    have hp := enc_length_pos _ hv
    obtain ⟨f, rfl⟩ : ∃ f, fuel = f + 1 := ⟨fuel - 1, by omega⟩
    simp only [Valid] at hv
    have hl : 2 * (encPairs kvs).length ≤ f := by
      simp only [enc, List.length_append] at hf
      have := head_length_pos 5 kvs.length
      omega
    have ih := decPairs_enc kvs hv.2.1 hv.2.2 f rest none (by intro p hp; cases hp) hl
    simp only [enc, List.append_assoc, decItem,
      decHead_head 5 kvs.length (encPairs kvs ++ rest) (by omega) (by omega) hv.1]
    simp [ih]
  | .tagged t x, hv, fuel, rest, hf => by
    have hp := enc_length_pos _ hv
    obtain ⟨f, rfl⟩ : ∃ f, fuel = f + 1 := ⟨fuel - 1, by omega⟩
    simp only [Valid] at hv
    have hl : 2 * x.enc.length ≤ f + 1 := by
      simp only [enc, List.length_append] at hf
      have := head_length_pos 6 t
      omega
    have ih := decItem_enc x hv.2 f rest hl
    simp only [enc, List.append_assoc, decItem,
      decHead_head 6 t (x.enc ++ rest) (by omega) (by omega) hv.1]
    simp [ih]
  | .simple v, hv, fuel, rest, hf => by
    have hp := enc_length_pos _ hv
    obtain ⟨f, rfl⟩ : ∃ f, fuel = f + 1 := ⟨fuel - 1, by omega⟩
    simp only [Valid] at hv
    simp only [enc, decItem, decHead_head 7 v rest (by omega) (by omega) (by omega)]
    rcases hv with rfl | rfl | rfl <;> simp [aiOf]
  | .float bits, hv, fuel, rest, hf => by
    have hp := enc_length_pos _ hv
    obtain ⟨f, rfl⟩ : ∃ f, fuel = f + 1 := ⟨fuel - 1, by omega⟩
    simp only [enc]
    exact float_valid_decItem hv f rest
theorem decItems_enc : (xs : List Cbor) → ValidList xs → ∀ (fuel : Nat) (rest : Bytes),
    2 * (encList xs).length ≤ fuel → decItems fuel xs.length (encList xs ++ rest) = .ok (xs, rest)
  | [], _, fuel, rest, _ => by
    cases fuel <;> simp [decItems, encList]
  | x :: xs, hv, fuel, rest, hf => by
    simp only [ValidList] at hv
    have hp := enc_length_pos x hv.1
    simp only [encList, List.length_append] at hf
    obtain ⟨f, rfl⟩ : ∃ f, fuel = f + 1 := ⟨fuel - 1, by omega⟩
    have ih1 := decItem_enc x hv.1 f (encList xs ++ rest) (by omega)
    have ih2 := decItems_enc xs hv.2 f rest (by omega)
    simp only [encList, List.length_cons, List.append_assoc, decItems, ih1, ih2]
theorem decPairs_enc : (kvs : List (Cbor × Cbor)) → ValidPairs kvs → KeysAsc (keysEnc kvs) →
    ∀ (fuel : Nat) (rest : Bytes) (prev : Option Bytes),
    (∀ p, prev = some p → ∀ k ∈ keysEnc kvs, bytesLt p k = true) →
    2 * (encPairs kvs).length ≤ fuel →
    decPairs fuel kvs.length prev (encPairs kvs ++ rest) = .ok (kvs, rest)
  | [], _, _, fuel, rest, prev, _, _ => by
    cases fuel <;> simp [decPairs, encPairs]
  | (k, v) :: kvs, hv, hk, fuel, rest, prev, hprev, hf => by
    simp only [ValidPairs] at hv
    have hp1 := enc_length_pos k hv.1
    have hp2 := enc_length_pos v hv.2.1
    simp only [encPairs, List.length_append] at hf
    obtain ⟨f, rfl⟩ : ∃ f, fuel = f + 1 := ⟨fuel - 1, by omega⟩
    simp only [KeysAsc, keysEnc, List.map_cons, List.pairwise_cons] at hk
    have ih1 := decItem_enc k hv.1 f (v.enc ++ (encPairs kvs ++ rest)) (by omega)
    have ih2 := decItem_enc v hv.2.1 f (encPairs kvs ++ rest) (by omega)
    have ih3 := decPairs_enc kvs hv.2.2 hk.2 f rest (some k.enc)
      (by intro p hp; injection hp with hp; subst hp; exact hk.1) (by omega)
    cases prev with
    | none =>
      simp only [encPairs, List.length_cons, List.append_assoc, decPairs, ih1, ih2, ih3]
      simp
    | some p =>
      have hlt : bytesLt p k.enc = true := hprev p rfl k.enc (by simp [keysEnc])
      simp only [encPairs, List.length_cons, List.append_assoc, decPairs, ih1, ih2, ih3, hlt]
      simp
end

theorem decEncLaw : DecEncLaw := by
  intro c hv
  have := decItem_enc c hv (2 * c.enc.length + 2) [] (by omega)
  simp only [List.append_nil] at this
  simp [dec, this]

end Cbor

/-! ### the second law holds for the model codec wherever no float is involved -/

namespace Cbor
theorem bytesLt_trans : ∀ (a b c : Bytes), bytesLt a b = true → bytesLt b c = true → bytesLt a c = true
  | [], [], _, h1, _ => by simp [bytesLt] at h1
  | [], _ :: _, [], _, h2 => by simp [bytesLt] at h2
  | [], _ :: _, _ :: _, _, _ => by simp [bytesLt]
  | _ :: _, [], _, h1, _ => by simp [bytesLt] at h1
  | _ :: _, _ :: _, [], _, h2 => by simp [bytesLt] at h2
  | x :: xs, y :: ys, z :: zs, h1, h2 => by
    simp only [bytesLt] at h1 h2 ⊢
    have ih := bytesLt_trans xs ys zs
    simp only [UInt8.lt_iff_toNat_lt] at h1 h2 ⊢
    by_cases hxy : x.toNat < y.toNat
    · by_cases hyz : y.toNat < z.toNat
      · have : x.toNat < z.toNat := by omega
        simp [this]
      · simp only [hyz, if_false] at h2
        by_cases hzy : z.toNat < y.toNat
        · simp [hzy] at h2
        · have : x.toNat < z.toNat := by omega
          simp [this]
    · simp only [hxy, if_false] at h1
      by_cases hyx : y.toNat < x.toNat
      · simp [hyx] at h1
      · simp only [hyx, if_false] at h1
        have hxe : x.toNat = y.toNat := by omega
        by_cases hyz : y.toNat < z.toNat
        · have : x.toNat < z.toNat := by omega
          simp [this]
        · simp only [hyz, if_false] at h2
          by_cases hzy : z.toNat < y.toNat
          · simp [hzy] at h2
          · simp only [hzy, if_false] at h2
            have h3 : ¬ x.toNat < z.toNat := by omega
            have h4 : ¬ z.toNat < x.toNat := by omega
            simp only [h3, h4, if_false]
            exact ih h1 h2

theorem headByte_eq (h : UInt8) : UInt8.ofNat (h.toNat / 32 * 32) + UInt8.ofNat (h.toNat % 32) = h := by
  apply UInt8.toNat_inj.mp
  have := UInt8.toNat_lt h
  simp only [UInt8.toNat_add, UInt8.toNat_ofNat']
  omega

theorem headByte_eq_lit (h : UInt8) (a : Nat) (ha : h.toNat % 32 = a) :
    UInt8.ofNat (h.toNat / 32 * 32) + (OfNat.ofNat a : UInt8) = h := by
  apply UInt8.toNat_inj.mp
  have := UInt8.toNat_lt h
  simp only [UInt8.toNat_add, UInt8.toNat_ofNat', UInt8.toNat_ofNat]
  omega

theorem beNat_lt_pow (b : Bytes) : beNat b < 256 ^ b.length := by
  have h1 := beNat_beBytes b.length (beNat b)
  rw [beBytes_beNat b.length b rfl] at h1
  rw [h1]
  exact Nat.mod_lt _ (Nat.pow_pos (by omega))


theorem decHead_inv {data : Bytes} {mt ai v : Nat} {rest : Bytes}
    (h : decHead data = .ok (mt, ai, v, rest)) :
    mt < 8 ∧ ai < 28 ∧ v < 2 ^ 64 ∧ (ai < 24 → v = ai) ∧ (ai = 24 → 24 ≤ v) ∧
      ((mt = 7 → ai < 25) → data = head mt v ++ rest) := by
  cases data with
  | nil => simp [decHead] at h
  | cons hb tl =>
    have hlt := UInt8.toNat_lt hb
    simp only [decHead] at h
    split at h
    · rename_i h1
      simp only [Except.ok.injEq, Prod.mk.injEq] at h
      obtain ⟨rfl, rfl, rfl, rfl⟩ := h
      refine ⟨by omega, by omega, by omega, fun _ => rfl, by omega, fun _ => ?_⟩
      simp only [head, h1, if_true, List.cons_append, List.nil_append, headByte_eq]
    · rename_i h1
      split at h
      · rename_i h2
        have h2' : hb.toNat % 32 = 24 := by simpa using h2
        cases tl with
        | nil => simp at h
        | cons b r' =>
          dsimp only at h
          split at h
          · cases h
          · rename_i h3
            simp only [Except.ok.injEq, Prod.mk.injEq] at h
            obtain ⟨rfl, rfl, rfl, rfl⟩ := h
            have hb2 := UInt8.toNat_lt b
            refine ⟨by omega, by omega, by omega, fun hh => by omega, fun _ => by omega, fun _ => ?_⟩
            have e1 : ¬ b.toNat < 24 := h3
            have e2 : b.toNat < 256 := by omega
            simp only [head, e1, e2, if_false, if_true, List.cons_append, List.nil_append,
              headByte_eq_lit hb 24 h2', UInt8.ofNat_toNat]
      · rename_i h2
        split at h
        · rename_i h3
          have h3a : hb.toNat % 32 = 25 := by simpa using h3
          split at h
          · cases h
          · rename_i h4
            split at h
            · cases h
            · rename_i h5
              simp only [Except.ok.injEq, Prod.mk.injEq] at h
              obtain ⟨rfl, rfl, rfl, rfl⟩ := h
              have hl : (tl.take 2).length = 2 := by simp only [List.length_take]; omega
              have hv := beNat_lt_pow (tl.take 2)
              rw [hl] at hv
              refine ⟨by omega, by omega, by omega, fun hh => by omega, fun hh => by omega, fun h7 => ?_⟩
              have hm : (hb.toNat / 32 == 7) = false := by
                cases hq : hb.toNat / 32 == 7 with
                | false => rfl
                | true => have := h7 (by simpa using hq); omega
              simp only [hm, Bool.not_false, Bool.and_true, decide_eq_true_eq] at h5
              have e1 : ¬ beNat (tl.take 2) < 24 := by omega
              have e2 : ¬ beNat (tl.take 2) < 256 := h5
              have e3 : beNat (tl.take 2) < 65536 := by omega
              simp only [head, e1, e2, e3, if_false, if_true, List.cons_append,
                headByte_eq_lit hb 25 h3a, beBytes_beNat 2 _ hl, List.take_append_drop]
        · rename_i h3
          split at h
          · rename_i h3b
            have h3a : hb.toNat % 32 = 26 := by simpa using h3b
            split at h
            · cases h
            · rename_i h4
              split at h
              · cases h
              · rename_i h5
                simp only [Except.ok.injEq, Prod.mk.injEq] at h
                obtain ⟨rfl, rfl, rfl, rfl⟩ := h
                have hl : (tl.take 4).length = 4 := by simp only [List.length_take]; omega
                have hv := beNat_lt_pow (tl.take 4)
                rw [hl] at hv
                refine ⟨by omega, by omega, by omega, fun hh => by omega, fun hh => by omega, fun h7 => ?_⟩
                have hm : (hb.toNat / 32 == 7) = false := by
                  cases hq : hb.toNat / 32 == 7 with
                  | false => rfl
                  | true => have := h7 (by simpa using hq); omega
                simp only [hm, Bool.not_false, Bool.and_true, decide_eq_true_eq] at h5
                have e1 : ¬ beNat (tl.take 4) < 24 := by omega
                have e2 : ¬ beNat (tl.take 4) < 256 := by omega
                have e3 : ¬ beNat (tl.take 4) < 65536 := h5
                have e4 : beNat (tl.take 4) < 4294967296 := by omega
                simp only [head, e1, e2, e3, e4, if_false, if_true, List.cons_append,
                  headByte_eq_lit hb 26 h3a, beBytes_beNat 4 _ hl, List.take_append_drop]
          · rename_i h3b
            split at h
            · rename_i h3c
              have h3a : hb.toNat % 32 = 27 := by simpa using h3c
              split at h
              · cases h
              · rename_i h4
                split at h
                · cases h
                · rename_i h5
                  simp only [Except.ok.injEq, Prod.mk.injEq] at h
                  obtain ⟨rfl, rfl, rfl, rfl⟩ := h
                  have hl : (tl.take 8).length = 8 := by simp only [List.length_take]; omega
                  have hv := beNat_lt_pow (tl.take 8)
                  rw [hl] at hv
                  refine ⟨by omega, by omega, by omega, fun hh => by omega, fun hh => by omega, fun h7 => ?_⟩
                  have hm : (hb.toNat / 32 == 7) = false := by
                    cases hq : hb.toNat / 32 == 7 with
                    | false => rfl
                    | true => have := h7 (by simpa using hq); omega
                  simp only [hm, Bool.not_false, Bool.and_true, decide_eq_true_eq] at h5
                  have e1 : ¬ beNat (tl.take 8) < 24 := by omega
                  have e2 : ¬ beNat (tl.take 8) < 256 := by omega
                  have e3 : ¬ beNat (tl.take 8) < 65536 := by omega
                  have e4 : ¬ beNat (tl.take 8) < 4294967296 := h5
                  simp only [head, e1, e2, e3, e4, if_false, List.cons_append,
                    headByte_eq_lit hb 27 h3a, beBytes_beNat 8 _ hl, List.take_append_drop]
            · cases h


mutual
/-- no float anywhere and no integer in the ranges `dcbor` 0.17.1 also accepts in
float form (`uint` above 2^31, `nint` from 2^63) -/
def Plain : Cbor → Prop
  | .uint n => n ≤ 2 ^ 31
  | .nint n => n < 2 ^ 63
  | .bytes _ => True
  | .text _ => True
  | .array xs => PlainList xs
  | .map kvs => PlainPairs kvs
  | .tagged _ x => Plain x
  | .simple _ => True
  | .float _ => False
def PlainList : List Cbor → Prop
  | [] => True
  | x :: xs => Plain x ∧ PlainList xs
def PlainPairs : List (Cbor × Cbor) → Prop
  | [] => True
  | (k, v) :: kvs => Plain k ∧ Plain v ∧ PlainPairs kvs
end

theorem decFloat_not_plain {ai v : Nat} {c : Cbor} (h : decFloat ai v = .ok c) : ¬ c.Plain := by
  unfold decFloat at h
  repeat' split at h
  all_goals dsimp only at h
  all_goals repeat' split at h
  all_goals first
    | (cases h; done)
    | (injection h with h; subst h; simp only [Plain, not_false_eq_true]; done)
    | (injection h with h; subst h; simp only [Plain]; omega)


/-- what the three decoding functions guarantee at a given fuel -/
def DecInvAt (fuel : Nat) : Prop :=
  (∀ data c rest, decItem fuel data = .ok (c, rest) → c.Plain → data = c.enc ++ rest ∧ c.Valid) ∧
  (∀ n data xs rest, decItems fuel n data = .ok (xs, rest) → PlainList xs →
      data = encList xs ++ rest ∧ ValidList xs ∧ xs.length = n) ∧
  (∀ n prev data kvs rest, decPairs fuel n prev data = .ok (kvs, rest) → PlainPairs kvs →
      data = encPairs kvs ++ rest ∧ ValidPairs kvs ∧ kvs.length = n ∧ KeysAsc (keysEnc kvs) ∧
        (∀ p, prev = some p → ∀ k ∈ keysEnc kvs, bytesLt p k = true))

theorem decItems_zero_n (fuel : Nat) (data : Bytes) : decItems fuel 0 data = .ok ([], data) := by
  cases fuel <;> simp [decItems]

theorem decPairs_zero_n (fuel : Nat) (prev : Option Bytes) (data : Bytes) :
    decPairs fuel 0 prev data = .ok ([], data) := by
  cases fuel <;> simp [decPairs]

theorem decInv_zero : DecInvAt 0 := by
  refine ⟨?_, ?_, ?_⟩
  · intro data c rest h
    simp [decItem] at h
  · intro n data xs rest h _
    cases n with
    | zero =>
      rw [decItems_zero_n] at h
      simp only [Except.ok.injEq, Prod.mk.injEq] at h
      obtain ⟨rfl, rfl⟩ := h
      simp [encList, ValidList]
    | succ n => simp [decItems] at h
  · intro n prev data kvs rest h _
    cases n with
    | zero =>
      rw [decPairs_zero_n] at h
      simp only [Except.ok.injEq, Prod.mk.injEq] at h
      obtain ⟨rfl, rfl⟩ := h
      simp [encPairs, ValidPairs, KeysAsc, keysEnc]
    | succ n => simp [decPairs] at h


theorem decInv_item_succ (fuel : Nat) (ih : DecInvAt fuel) :
    ∀ data c rest, decItem (fuel + 1) data = .ok (c, rest) → c.Plain →
      data = c.enc ++ rest ∧ c.Valid := by
  obtain ⟨ih1, ih2, ih3⟩ := ih
  intro data c rest h hpl
  simp only [decItem] at h
  cases hh : decHead data with
  | error e => rw [hh] at h; cases h
  | ok q =>
    obtain ⟨mt, ai, v, r0⟩ := q
    rw [hh] at h
    dsimp only at h
    obtain ⟨hmt, hai, hv, hlow, h24, hdata⟩ := decHead_inv hh
    split at h
    · -- uint
      rename_i hm
      have hm' : mt = 0 := by simpa using hm
      subst hm'
      simp only [Except.ok.injEq, Prod.mk.injEq] at h
      obtain ⟨rfl, rfl⟩ := h
      exact ⟨by simpa only [enc] using hdata (by omega), by simpa only [Valid] using hv⟩
    · rename_i hm0
      split at h
      · -- nint
        rename_i hm
        have hm' : mt = 1 := by simpa using hm
        subst hm'
        simp only [Except.ok.injEq, Prod.mk.injEq] at h
        obtain ⟨rfl, rfl⟩ := h
        exact ⟨by simpa only [enc] using hdata (by omega), by simpa only [Valid] using hv⟩
      · rename_i hm1
        split at h
        · -- bytes
          rename_i hm
          have hm' : mt = 2 := by simpa using hm
          subst hm'
          split at h
          · cases h
          · rename_i hlen
            simp only [Except.ok.injEq, Prod.mk.injEq] at h
            obtain ⟨rfl, rfl⟩ := h
            have hl : (r0.take v).length = v := by simp only [List.length_take]; omega
            refine ⟨?_, by simp only [Valid, hl]; exact hv⟩
            simp only [enc, hl, List.append_assoc, List.take_append_drop]
            exact hdata (by omega)
        · rename_i hm2
          split at h
          · -- text
            rename_i hm
            have hm' : mt = 3 := by simpa using hm
            subst hm'
            split at h
            · cases h
            · rename_i hlen
              split at h
              · rename_i hutf
                simp only [Except.ok.injEq, Prod.mk.injEq] at h
                obtain ⟨rfl, rfl⟩ := h
                have hl : (r0.take v).length = v := by simp only [List.length_take]; omega
                refine ⟨?_, by simp only [Valid, hl, hutf, and_true]; exact hv⟩
                simp only [enc, hl, List.append_assoc, List.take_append_drop]
                exact hdata (by omega)
              · cases h
          · rename_i hm3
            split at h
            · -- array
              rename_i hm
              have hm' : mt = 4 := by simpa using hm
              subst hm'
              cases hr : decItems fuel v r0 with
              | error e => rw [hr] at h; cases h
              | ok q =>
                obtain ⟨xs, r⟩ := q
                rw [hr] at h
                simp only [Except.ok.injEq, Prod.mk.injEq] at h
                obtain ⟨rfl, rfl⟩ := h
                simp only [Plain] at hpl
                obtain ⟨e1, e2, e3⟩ := ih2 v r0 xs r hr hpl
                refine ⟨?_, by simp only [Valid, e3, e2, and_true]; exact hv⟩
                simp only [enc, e3, List.append_assoc, ← e1]
                exact hdata (by omega)
            · rename_i hm4
              split at h
              · -- map
                rename_i hm
                have hm' : mt = 5 := by simpa using hm
                subst hm'
                cases hr : decPairs fuel v none r0 with
                | error e => rw [hr] at h; cases h
                | ok q =>
                  obtain ⟨kvs, r⟩ := q
                  rw [hr] at h
                  simp only [Except.ok.injEq, Prod.mk.injEq] at h
                  obtain ⟨rfl, rfl⟩ := h
                  simp only [Plain] at hpl
                  obtain ⟨e1, e2, e3, e4, _⟩ := ih3 v none r0 kvs r hr hpl
                  refine ⟨?_, by simp only [Valid, e3, e2, e4, and_true]; exact hv⟩
                  simp only [enc, e3, List.append_assoc, ← e1]
                  exact hdata (by omega)
              · rename_i hm5
                split at h
                · -- tagged
                  rename_i hm
                  have hm' : mt = 6 := by simpa using hm
                  subst hm'
                  cases hr : decItem fuel r0 with
                  | error e => rw [hr] at h; cases h
                  | ok q =>
                    obtain ⟨x, r⟩ := q
                    rw [hr] at h
                    simp only [Except.ok.injEq, Prod.mk.injEq] at h
                    obtain ⟨rfl, rfl⟩ := h
                    simp only [Plain] at hpl
                    obtain ⟨e1, e2⟩ := ih1 r0 x r hr hpl
                    refine ⟨?_, by simp only [Valid, e2, and_true]; exact hv⟩
                    simp only [enc, List.append_assoc, ← e1]
                    exact hdata (by omega)
                · rename_i hm6
                  have hm7 : mt = 7 := by
                    simp only [beq_iff_eq] at hm0 hm1 hm2 hm3 hm4 hm5 hm6
                    omega
                  subst hm7
                  split at h
                  · -- float: never plain
                    cases hd : decFloat ai v with
                    | error e => rw [hd] at h; cases h
                    | ok c' =>
                      rw [hd] at h
                      simp only [Except.ok.injEq, Prod.mk.injEq] at h
                      obtain ⟨rfl, rfl⟩ := h
                      exact absurd hpl (decFloat_not_plain hd)
                  · rename_i hfl
                    simp only [Bool.or_eq_true, beq_iff_eq, not_or] at hfl
                    split at h
                    · rename_i hs
                      simp only [Bool.or_eq_true, beq_iff_eq] at hs
                      simp only [Except.ok.injEq, Prod.mk.injEq] at h
                      obtain ⟨rfl, rfl⟩ := h
                      refine ⟨?_, by simp only [Valid]; omega⟩
                      simp only [enc]
                      apply hdata
                      intro _
                      omega
                    · cases h


theorem decInv_items_succ (fuel : Nat) (ih : DecInvAt fuel) :
    ∀ n data xs rest, decItems (fuel + 1) n data = .ok (xs, rest) → PlainList xs →
      data = encList xs ++ rest ∧ ValidList xs ∧ xs.length = n := by
  obtain ⟨ih1, ih2, _⟩ := ih
  intro n data xs rest h hpl
  cases n with
  | zero =>
    rw [decItems_zero_n] at h
    simp only [Except.ok.injEq, Prod.mk.injEq] at h
    obtain ⟨rfl, rfl⟩ := h
    simp [encList, ValidList]
  | succ n =>
    simp only [decItems] at h
    cases hx : decItem fuel data with
    | error e => rw [hx] at h; cases h
    | ok q =>
      obtain ⟨x, r⟩ := q
      rw [hx] at h
      dsimp only at h
      cases hr : decItems fuel n r with
      | error e => rw [hr] at h; cases h
      | ok q2 =>
        obtain ⟨xs', r'⟩ := q2
        rw [hr] at h
        simp only [Except.ok.injEq, Prod.mk.injEq] at h
        obtain ⟨rfl, rfl⟩ := h
        simp only [PlainList] at hpl
        obtain ⟨a1, a2⟩ := ih1 data x r hx hpl.1
        obtain ⟨b1, b2, b3⟩ := ih2 n r xs' r' hr hpl.2
        refine ⟨?_, by simp only [ValidList, a2, b2, and_self], by simp only [List.length_cons, b3]⟩
        simp only [encList, List.append_assoc, ← b1]
        exact a1

theorem decInv_pairs_succ (fuel : Nat) (ih : DecInvAt fuel) :
    ∀ n prev data kvs rest, decPairs (fuel + 1) n prev data = .ok (kvs, rest) → PlainPairs kvs →
      data = encPairs kvs ++ rest ∧ ValidPairs kvs ∧ kvs.length = n ∧ KeysAsc (keysEnc kvs) ∧
        (∀ p, prev = some p → ∀ k ∈ keysEnc kvs, bytesLt p k = true) := by
  obtain ⟨ih1, _, ih3⟩ := ih
  intro n prev data kvs rest h hpl
  cases n with
  | zero =>
    rw [decPairs_zero_n] at h
    simp only [Except.ok.injEq, Prod.mk.injEq] at h
    obtain ⟨rfl, rfl⟩ := h
    simp [encPairs, ValidPairs, KeysAsc, keysEnc]
  | succ n =>
    simp only [decPairs] at h
    cases hk : decItem fuel data with
    | error e => rw [hk] at h; cases h
    | ok q =>
      obtain ⟨k, r⟩ := q
      rw [hk] at h
      dsimp only at h
      cases hv : decItem fuel r with
      | error e => rw [hv] at h; cases h
      | ok q2 =>
        obtain ⟨v, r'⟩ := q2
        rw [hv] at h
        dsimp only at h
        cases hr : decPairs fuel n (some k.enc) r' with
        | error e =>
          rw [hr] at h
          dsimp only at h
          have hne : ∀ (bb : Bool), (if bb = true then
              (Except.error DecErr.mapOrder : Except DecErr (List (Cbor × Cbor) × Bytes))
              else Except.error e) ≠ Except.ok (kvs, rest) := by
            intro bb; cases bb <;> simp
          exact absurd h (hne _)
        | ok q3 =>
          obtain ⟨kvs', r''⟩ := q3
          rw [hr] at h
          dsimp only at h
          have fin : (∀ p, prev = some p → bytesLt p k.enc = true) →
              kvs = (k, v) :: kvs' → rest = r'' →
              data = encPairs kvs ++ rest ∧ ValidPairs kvs ∧ kvs.length = n + 1 ∧
                KeysAsc (keysEnc kvs) ∧ (∀ p, prev = some p → ∀ k ∈ keysEnc kvs, bytesLt p k = true) := by
            intro hord hkvs hrest
            subst hkvs
            subst hrest
            simp only [PlainPairs] at hpl
            obtain ⟨a1, a2⟩ := ih1 data k r hk hpl.1
            obtain ⟨b1, b2⟩ := ih1 r v r' hv hpl.2.1
            obtain ⟨c1, c2, c3, c4, c5⟩ := ih3 n (some k.enc) r' kvs' rest hr hpl.2.2
            have hkk : ∀ k' ∈ keysEnc kvs', bytesLt k.enc k' = true := c5 k.enc rfl
            refine ⟨?_, by simp only [ValidPairs, a2, b2, c2, and_self],
              by simp only [List.length_cons, c3], ?_, ?_⟩
            · simp only [encPairs, List.append_assoc, ← c1, ← b1]
              exact a1
            · simp only [KeysAsc, keysEnc, List.map_cons, List.pairwise_cons]
              exact ⟨hkk, c4⟩
            · intro p hp k' hk'
              have hpk : bytesLt p k.enc = true := hord p hp
              simp only [keysEnc, List.map_cons, List.mem_cons] at hk'
              rcases hk' with rfl | hk'
              · exact hpk
              · exact bytesLt_trans _ _ _ hpk (hkk k' hk')
          cases prev with
          | none =>
            simp only [Bool.not_true, Bool.false_eq_true, if_false, Except.ok.injEq, Prod.mk.injEq] at h
            exact fin (by intro p hp; cases hp) h.1.symm h.2.symm
          | some p =>
            cases hlt : bytesLt p k.enc with
            | false => simp [hlt] at h
            | true =>
              simp only [hlt, Bool.not_true, Bool.false_eq_true, if_false, Except.ok.injEq,
                Prod.mk.injEq] at h
              exact fin (by intro p' hp'; injection hp' with hp'; subst hp'; exact hlt) h.1.symm h.2.symm

theorem decInv_all : ∀ fuel, DecInvAt fuel
  | 0 => decInv_zero
  | fuel + 1 =>
    ⟨decInv_item_succ fuel (decInv_all fuel), decInv_items_succ fuel (decInv_all fuel),
      decInv_pairs_succ fuel (decInv_all fuel)⟩

/-- the second law holds at every input whose tree is `Plain` -/
theorem encDec_of_plain {b : Bytes} {c : Cbor} (hd : dec b = .ok c) (hp : c.Plain) :
    c.enc = b ∧ c.Valid := by
  unfold dec at hd
  cases hi : decItem (2 * b.length + 2) b with
  | error e => rw [hi] at hd; cases hd
  | ok q =>
    obtain ⟨c', rest⟩ := q
    rw [hi] at hd
    dsimp only at hd
    split at hd
    · rename_i hr
      injection hd with hd
      subst hd
      have hr' : rest = [] := by simpa using hr
      subst hr'
      obtain ⟨e1, e2⟩ := (decInv_all _).1 b c' [] hi hp
      exact ⟨by simpa using e1.symm, e2⟩
    · cases hd

end Cbor

/-- the second law at `b`, for the model codec, when the tree of `b` is `Plain` -/
theorem encDecAt_of_plain {b : Bytes} (hp : ∀ c, Cbor.dec b = .ok c → c.Plain) : EncDecAt b :=
  fun c hc => Cbor.encDec_of_plain hc (hp c hc)

end EnvVerif
