/-
  Lemmas/CodecLemmas.lean — helper lemmas for C05 / C06: digest <-> bytes conversions,
  `ascAdj` versus `AscDigests`, unfolding forms of the mutual codec functions, the extra shape
  predicate `EncShape` (and who establishes it), `Encodable`, the tree-level round trip
  (`envOfCbor_cborOf_aux`), `legacyNorm` / `hasLegacyLeaf` / `legacyNormBytes`, decoder
  soundness (`envOfCbor_sound`) and totality (`envOfCbor_no_panic_aux`), toy instances.
-/
import EnvVerif.Lemmas.Basic
import EnvVerif.Lemmas.CodecLaws
namespace EnvVerif
open Env

/-! ### digests and bytes -/

theorem Digest.bytes_len32 (d : Digest) : d.bytes.length = 32 := beBytes_len 32 d.val

theorem Digest.ofBytes_bytes {d : Digest} (hd : d.Valid) : Digest.ofBytes? d.bytes = some d := by
  unfold Digest.ofBytes?
  rw [if_pos (Digest.bytes_len32 d)]
  unfold Digest.bytes
  rw [beNat_beBytes]
  have : d.val % 256 ^ 32 = d.val := Nat.mod_eq_of_lt (by
    have : (256 : Nat) ^ 32 = 2 ^ 256 := by decide
    rw [this]; exact hd)
  rw [this]

theorem Digest.ofBytes_some {b : Bytes} {d : Digest} (hd : Digest.ofBytes? b = some d) :
    b.length = 32 ∧ d.bytes = b ∧ d.Valid := by
  unfold Digest.ofBytes? at hd
  split at hd
  · rename_i hl
    injection hd with hd
    subst hd
    refine ⟨hl, beBytes_beNat 32 b hl, ?_⟩
    show beNat b < 2 ^ 256
    have h1 : beNat b = beNat b % 256 ^ 32 := by
      have := beNat_beBytes 32 (beNat b)
      rw [beBytes_beNat 32 b hl] at this
      exact this
    have h2 : beNat b % 256 ^ 32 < 256 ^ 32 := Nat.mod_lt _ (by decide)
    have h3 : (256 : Nat) ^ 32 = 2 ^ 256 := by decide
    omega
  · cases hd

theorem Digest.ofBytes_none {b : Bytes} (hl : b.length ≠ 32) : Digest.ofBytes? b = none := by
  unfold Digest.ofBytes?
  rw [if_neg hl]

theorem digestOfCbor_digestCbor {d : Digest} (hd : d.Valid) : digestOfCbor? (digestCbor d) = some d := by
  simp [digestOfCbor?, digestCbor, Digest.ofBytes_bytes hd]

theorem digestOfCbor_some {c : Cbor} {d : Digest} (hc : digestOfCbor? c = some d) :
    c = digestCbor d ∧ d.Valid := by
  unfold digestOfCbor? at hc
  split at hc
  · rename_i t b
    split at hc
    · rename_i ht
      have ht' : t = TAG_DIGEST := by simpa using ht
      obtain ⟨_, hb, hv⟩ := Digest.ofBytes_some hc
      subst ht'
      exact ⟨by simp [digestCbor, hb], hv⟩
    · cases hc
  · cases hc

theorem optDigest_valid {m : EncMsg} {d : Digest} (hm : m.optDigest = some d) : d.Valid := by
  unfold EncMsg.optDigest at hm
  split at hm
  · exact (digestOfCbor_some hm).2
  · cases hm

/-! ### `ascAdj` is `AscDigests` -/

theorem ascAdj_iff : ∀ (as : List Env), ascAdj as = true ↔ AscDigests as
  | [] => by simp [ascAdj, AscDigests]
  | [_] => by simp [ascAdj, AscDigests]
  | a :: b :: rest => by
    have ih := ascAdj_iff (b :: rest)
    simp only [ascAdj, Bool.and_eq_true, decide_eq_true_eq, ih, AscDigests, List.pairwise_cons]
    constructor
    · rintro ⟨hab, hb, hrest⟩
      refine ⟨?_, hb, hrest⟩
      intro c hc
      rcases List.mem_cons.mp hc with rfl | hc
      · exact hab
      · exact Nat.lt_trans hab (hb c hc)
    · rintro ⟨ha, hb, hrest⟩
      exact ⟨ha b (List.mem_cons_self), hb, hrest⟩

/-! ### list forms of the mutual codec functions -/

theorem cborOfList_eq_map (as : List Env) : cborOfList as = as.map cborOf := by
  induction as with
  | nil => simp [cborOfList]
  | cons a as ih => simp [cborOfList, ih]

theorem cborOfList_length (as : List Env) : (cborOfList as).length = as.length := by
  simp [cborOfList_eq_map]

/-! ### unfolding forms of the decoder -/

section
variable (h : Hash)

theorem envOfCbor_array_nil : envOfCbor h (.array []) = .err "node-arity" := by
  simp only [envOfCbor] <;> rfl

theorem envOfCbor_array_one (x : Cbor) : envOfCbor h (.array [x]) = .err "node-arity" := by
  simp only [envOfCbor] <;> rfl

theorem envOfCbor_array_cons (x y : Cbor) (r : List Cbor) :
    envOfCbor h (.array (x :: y :: r)) =
      match envOfCbor h x with
      | .ok s =>
        match envOfCborList h (y :: r) with
        | .ok as => if ascAdj as then newNode h s as else .err "assertions-not-ascending"
        | .err e => .err e
        | .panic p => .panic p
      | .err e => .err e
      | .panic p => .panic p := by
  simp only [envOfCbor] <;> rfl

theorem envOfCbor_map_one (k v : Cbor) :
    envOfCbor h (.map [(k, v)]) =
      match envOfCbor h k with
      | .ok p =>
        match envOfCbor h v with
        | .ok o => .ok (newAssertion h p o)
        | .err e => .err e
        | .panic p => .panic p
      | .err e => .err e
      | .panic p => .panic p := by
  simp only [envOfCbor] <;> rfl

theorem envOfCbor_tagged (t : Nat) (item : Cbor) :
    envOfCbor h (.tagged t item) =
      if t == TAG_LEAF || t == TAG_ENCODED_CBOR then .ok (newLeaf h item)
      else if t == TAG_ENVELOPE then
        match envOfCbor h item with
        | .ok e => .ok (newWrapped h e)
        | .err x => .err x
        | .panic x => .panic x
      else if t == TAG_ENCRYPTED then decodeEncrypted item
      else if t == TAG_COMPRESSED then decodeCompressed item
      else .err "unknown-tag" := by
  simp only [envOfCbor] <;> rfl

theorem envOfCbor_bytes (b : Bytes) :
    envOfCbor h (.bytes b) =
      match Digest.ofBytes? b with
      | some d => .ok (newElided d)
      | none => .err "dep:digest-size" := by
  simp only [envOfCbor] <;> rfl

theorem envOfCbor_uint (v : Nat) : envOfCbor h (.uint v) = .ok (newKnownValue h v) := by
  simp only [envOfCbor] <;> rfl

theorem envOfCborList_nil : envOfCborList h [] = .ok [] := by
  simp only [envOfCborList] <;> rfl

theorem envOfCborList_cons (x : Cbor) (xs : List Cbor) :
    envOfCborList h (x :: xs) =
      match envOfCbor h x with
      | .ok e =>
        match envOfCborList h xs with
        | .ok es => .ok (e :: es)
        | .err e => .err e
        | .panic p => .panic p
      | .err e => .err e
      | .panic p => .panic p := by
  simp only [envOfCborList] <;> rfl

end

/-! ### the shape the decoder demands of encrypted / compressed elements -/

mutual
/-- every encrypted element has a 12-byte nonce, a 16-byte authentication tag and a
non-empty `aad`; every compressed element has a `u32` checksum, a `u64` size and at most
`size` bytes of data.  Established by `encryptWithDigest` (with a 12-byte nonce and an
AEAD returning 16-byte tags: `encShape_encryptWithDigest`) and `compressedOf` (with a
32-bit CRC: `encShape_compressedOf`); the decoder checks it (`envOfCbor_encShape`). -/
def EncShape : Env → Prop
  | .node s as _ => EncShape s ∧ EncShapeList as
  | .leaf _ _ => True
  | .wrapped e _ => EncShape e
  | .assertion p o _ => EncShape p ∧ EncShape o
  | .elided _ => True
  | .knownValue _ _ => True
  | .encrypted m _ => m.nonce.length = 12 ∧ m.auth.length = 16 ∧ m.aad ≠ []
  | .compressed c _ => c.checksum < 2 ^ 32 ∧ c.size < 2 ^ 64 ∧ c.data.length ≤ c.size
def EncShapeList : List Env → Prop
  | [] => True
  | a :: as => EncShape a ∧ EncShapeList as
end

theorem EncShapeList_iff (as : List Env) : EncShapeList as ↔ ∀ a ∈ as, EncShape a := by
  induction as with
  | nil => simp [EncShapeList]
  | cons a as ih => simp [EncShapeList, ih]

/-! ### C05 at the tree level -/

section
variable (h : Hash)

theorem decodeEncrypted_encMsgCbor {m : EncMsg} {d : Digest}
    (hw : m.optDigest = some d) (hn : m.nonce.length = 12) (ha : m.auth.length = 16)
    (hne : m.aad ≠ []) : decodeEncrypted (encMsgCbor m) = .ok (.encrypted m d) := by
  have he : m.aad.isEmpty = false := by
    cases hm : m.aad with
    | nil => exact absurd hm hne
    | cons x xs => rfl
  simp only [encMsgCbor, he, Bool.false_eq_true, if_false, List.cons_append, List.nil_append,
    decodeEncrypted, hn, ha, bne_self_eq_false]
  rw [hw]

theorem decodeCompressed_compMsgCbor {c : CompMsg} {d : Digest} (hd : d.Valid)
    (h1 : c.checksum < 2 ^ 32) (h2 : c.size < 2 ^ 64) (h3 : c.data.length ≤ c.size) :
    decodeCompressed (compMsgCbor c d) = .ok (.compressed c d) := by
  simp only [compMsgCbor, decodeCompressed, digestOfCbor_digestCbor hd]
  have h4 : ¬ c.data.length > c.size := by omega
  simp [h1, h2, h4]

theorem newNode_of_canon {s : Env} {as : List Env} {d : Digest}
    (hne : as ≠ []) (hasc : AscDigests as) (hslot : ∀ a ∈ as, a.slotOk = true)
    (hd : d = h.ofDigests (s.digest :: as.map Env.digest)) :
    newNode h s as = .ok (.node s as d) := by
  have hall : as.all slotOk = true := by simpa [List.all_eq_true] using hslot
  have hemp : as.isEmpty = false := by
    cases as with
    | nil => exact absurd rfl hne
    | cons _ _ => rfl
  simp only [newNode, hall, if_true, newNodeUnchecked, hemp, Bool.false_eq_true, if_false, mkNode,
    sortByDigest_of_asc hasc, hd]

mutual
theorem envOfCbor_cborOf_aux :
    (e : Env) → WF h e → Canon e → EncShape e → envOfCbor h (cborOf e) = .ok e
  | .node s as d, hw, hc, hs => by
    simp only [WF] at hw
    simp only [Canon] at hc
    simp only [EncShape] at hs
    obtain ⟨hws, hwas, hd⟩ := hw
    obtain ⟨hcs, hcas, hne, hasc, hslot⟩ := hc
    have ih1 := envOfCbor_cborOf_aux s hws hcs hs.1
    have ih2 := envOfCborList_cborOfList_aux as hwas hcas hs.2
    cases as with
    | nil => exact absurd rfl hne
    | cons a as' =>
      have hl : cborOfList (a :: as') = cborOf a :: cborOfList as' := by simp only [cborOfList]
      rw [hl] at ih2
      simp only [cborOf, cborOfList]
      rw [envOfCbor_array_cons, ih1]
      simp only [ih2, (ascAdj_iff _).mpr hasc, if_true]
      exact newNode_of_canon h hne hasc hslot hd
  | .leaf c d, hw, _, _ => by
    simp only [WF] at hw
    simp only [cborOf, envOfCbor_tagged, newLeaf, hw]
    rfl
  | .wrapped e d, hw, hc, hs => by
    simp only [WF] at hw
    simp only [Canon] at hc
    simp only [EncShape] at hs
    have ih := envOfCbor_cborOf_aux e hw.1 hc hs
    simp only [cborOf, envOfCbor_tagged, ih, newWrapped, hw.2]
    rfl
  | .assertion p o d, hw, hc, hs => by
    simp only [WF] at hw
    simp only [Canon] at hc
    simp only [EncShape] at hs
    have ih1 := envOfCbor_cborOf_aux p hw.1 hc.1 hs.1
    have ih2 := envOfCbor_cborOf_aux o hw.2.1 hc.2 hs.2
    simp only [cborOf, envOfCbor_map_one, ih1, ih2, newAssertion, hw.2.2]
  | .elided d, _, hc, _ => by
    simp only [Canon] at hc
    simp only [cborOf, envOfCbor_bytes, Digest.ofBytes_bytes hc, newElided]
  | .knownValue v d, hw, _, _ => by
    simp only [WF] at hw
    simp only [cborOf, envOfCbor_uint, newKnownValue, hw]
  | .encrypted m d, hw, _, hs => by
    simp only [WF] at hw
    simp only [EncShape] at hs
    simp only [cborOf, envOfCbor_tagged]
    rw [decodeEncrypted_encMsgCbor hw hs.1 hs.2.1 hs.2.2]
    rfl
  | .compressed c d, _, hc, hs => by
    simp only [Canon] at hc
    simp only [EncShape] at hs
    simp only [cborOf, envOfCbor_tagged]
    rw [decodeCompressed_compMsgCbor hc hs.1 hs.2.1 hs.2.2]
    rfl
theorem envOfCborList_cborOfList_aux :
    (as : List Env) → WFList h as → CanonList as → EncShapeList as →
      envOfCborList h (cborOfList as) = .ok as
  | [], _, _, _ => by simp only [cborOfList, envOfCborList_nil]
  | a :: as, hw, hc, hs => by
    simp only [WFList] at hw
    simp only [CanonList] at hc
    simp only [EncShapeList] at hs
    have ih1 := envOfCbor_cborOf_aux a hw.1 hc.1 hs.1
    have ih2 := envOfCborList_cborOfList_aux as hw.2 hc.2 hs.2
    simp only [cborOfList, envOfCborList_cons, ih1, ih2]
end

end

/-! ### the legacy leaf alias -/

mutual
/-- rewrite the deprecated leaf tag `#6.24` to `#6.201` at envelope leaf positions, and
nothing else.  The traversal follows the envelope grammar: array elements, map keys and
values, the content of tag 200; it does not descend into leaf content, nor into
encrypted or compressed payloads. -/
def legacyNorm : Cbor → Cbor
  | .tagged t item =>
    if t == TAG_ENCODED_CBOR then .tagged TAG_LEAF item
    else if t == TAG_ENVELOPE then .tagged t (legacyNorm item)
    else .tagged t item
  | .array xs => .array (legacyNormList xs)
  | .map kvs => .map (legacyNormPairs kvs)
  | .uint n => .uint n
  | .nint n => .nint n
  | .bytes b => .bytes b
  | .text b => .text b
  | .simple v => .simple v
  | .float b => .float b
def legacyNormList : List Cbor → List Cbor
  | [] => []
  | x :: xs => legacyNorm x :: legacyNormList xs
def legacyNormPairs : List (Cbor × Cbor) → List (Cbor × Cbor)
  | [] => []
  | (k, v) :: kvs => (legacyNorm k, legacyNorm v) :: legacyNormPairs kvs
end

mutual
/-- does a `#6.24` leaf occur at an envelope position? -/
def hasLegacyLeaf : Cbor → Bool
  | .tagged t item =>
    if t == TAG_ENCODED_CBOR then true
    else if t == TAG_ENVELOPE then hasLegacyLeaf item
    else false
  | .array xs => hasLegacyLeafList xs
  | .map kvs => hasLegacyLeafPairs kvs
  | _ => false
def hasLegacyLeafList : List Cbor → Bool
  | [] => false
  | x :: xs => hasLegacyLeaf x || hasLegacyLeafList xs
def hasLegacyLeafPairs : List (Cbor × Cbor) → Bool
  | [] => false
  | (k, v) :: kvs => hasLegacyLeaf k || hasLegacyLeaf v || hasLegacyLeafPairs kvs
end

mutual
theorem legacyNorm_of_no_legacy : (c : Cbor) → hasLegacyLeaf c = false → legacyNorm c = c
  | .tagged t item, hc => by
    simp only [hasLegacyLeaf] at hc
    simp only [legacyNorm]
    split at hc
    · cases hc
    · rename_i h1
      rw [if_neg h1]
      split at hc
      · rename_i h2
        rw [if_pos h2, legacyNorm_of_no_legacy item hc]
      · rename_i h2
        rw [if_neg h2]
  | .array xs, hc => by
    simp only [hasLegacyLeaf] at hc
    simp only [legacyNorm, legacyNormList_of_no_legacy xs hc]
  | .map kvs, hc => by
    simp only [hasLegacyLeaf] at hc
    simp only [legacyNorm, legacyNormPairs_of_no_legacy kvs hc]
  | .uint _, _ => by simp only [legacyNorm]
  | .nint _, _ => by simp only [legacyNorm]
  | .bytes _, _ => by simp only [legacyNorm]
  | .text _, _ => by simp only [legacyNorm]
  | .simple _, _ => by simp only [legacyNorm]
  | .float _, _ => by simp only [legacyNorm]
theorem legacyNormList_of_no_legacy :
    (cs : List Cbor) → hasLegacyLeafList cs = false → legacyNormList cs = cs
  | [], _ => by simp only [legacyNormList]
  | x :: xs, hc => by
    simp only [hasLegacyLeafList, Bool.or_eq_false_iff] at hc
    simp only [legacyNormList, legacyNorm_of_no_legacy x hc.1, legacyNormList_of_no_legacy xs hc.2]
theorem legacyNormPairs_of_no_legacy :
    (kvs : List (Cbor × Cbor)) → hasLegacyLeafPairs kvs = false → legacyNormPairs kvs = kvs
  | [], _ => by simp only [legacyNormPairs]
  | (k, v) :: kvs, hc => by
    simp only [hasLegacyLeafPairs, Bool.or_eq_false_iff] at hc
    simp only [legacyNormPairs, legacyNorm_of_no_legacy k hc.1.1, legacyNorm_of_no_legacy v hc.1.2,
      legacyNormPairs_of_no_legacy kvs hc.2]
end

/-! ### C06 at the tree level -/

section
variable (h : Hash)

theorem newNode_ok {s : Env} {as : List Env} {e : Env} (he : newNode h s as = .ok e) :
    (∀ a ∈ as, a.slotOk = true) ∧ as ≠ [] ∧ e = mkNode h s as := by
  unfold newNode at he
  split at he
  · rename_i hall
    unfold newNodeUnchecked at he
    split at he
    · cases he
    · rename_i hemp
      injection he with he
      refine ⟨by simpa [List.all_eq_true] using hall, ?_, he.symm⟩
      intro h0; subst h0; simp at hemp
  · cases he

theorem newNode_no_panic {s : Env} {as : List Env} (hne : as ≠ []) (p : String) :
    newNode h s as ≠ .panic p := by
  unfold newNode newNodeUnchecked
  have hemp : as.isEmpty = false := by
    cases as with
    | nil => exact absurd rfl hne
    | cons _ _ => rfl
  rw [hemp]
  split <;> simp

theorem decodeEncrypted_ok {item : Cbor} {e : Env} (he : decodeEncrypted item = .ok e) :
    ∃ m d, e = .encrypted m d ∧ item = encMsgCbor m ∧ m.optDigest = some d ∧
      m.nonce.length = 12 ∧ m.auth.length = 16 ∧ m.aad ≠ [] := by
  unfold decodeEncrypted at he
  split at he
  · rename_i ct nonce auth aad
    split at he
    · cases he
    · rename_i hn
      split at he
      · cases he
      · rename_i ha
        split at he
        · cases he
        · rename_i hne
          dsimp only at he
          split at he
          · rename_i d hd
            injection he with he
            refine ⟨_, d, he.symm, ?_, hd, by simpa using hn, by simpa using ha, ?_⟩
            · simp only [encMsgCbor]
              rw [if_neg hne]
              rfl
            · intro h0
              apply hne
              show aad.isEmpty = true
              change aad = [] at h0
              rw [h0]; rfl
          · cases he
  · cases he
  · cases he

theorem decodeCompressed_ok {item : Cbor} {e : Env} (he : decodeCompressed item = .ok e) :
    ∃ c d, e = .compressed c d ∧ item = compMsgCbor c d ∧ d.Valid ∧
      c.checksum < 2 ^ 32 ∧ c.size < 2 ^ 64 ∧ c.data.length ≤ c.size := by
  unfold decodeCompressed at he
  split at he
  · rename_i c s data dg
    split at he
    · rename_i d hd
      split at he
      · cases he
      · rename_i h1
        split at he
        · cases he
        · rename_i h2
          injection he with he
          obtain ⟨hdg, hv⟩ := digestOfCbor_some hd
          simp only [Bool.or_eq_true, Bool.not_eq_eq_eq_not, Bool.not_true, decide_eq_false_iff_not,
            not_or, Decidable.not_not] at h1
          refine ⟨_, d, he.symm, ?_, hv, h1.1, h1.2, by simpa using h2⟩
          simp only [compMsgCbor, hdg]
    · cases he
  · cases he
  · cases he

theorem decodeEncrypted_no_panic (item : Cbor) (p : String) : decodeEncrypted item ≠ .panic p := by
  unfold decodeEncrypted
  repeat' split
  all_goals first | (intro hh; cases hh; done) | (dsimp only; split <;> (intro hh; cases hh))

theorem decodeCompressed_no_panic (item : Cbor) (p : String) : decodeCompressed item ≠ .panic p := by
  unfold decodeCompressed
  repeat' split
  all_goals (intro hh; cases hh)

end

section
variable (h : Hash)

/-- everything the decoder guarantees about an accepted tree -/
def DecodedOk (c : Cbor) (e : Env) : Prop :=
  cborOf e = legacyNorm c ∧ WF h e ∧ Canon e ∧ EncShape e

def DecodedListOk (cs : List Cbor) (es : List Env) : Prop :=
  cborOfList es = legacyNormList cs ∧ WFList h es ∧ CanonList es ∧ EncShapeList es ∧
    es.length = cs.length

mutual
theorem envOfCbor_sound : (c : Cbor) → (e : Env) → envOfCbor h c = .ok e → DecodedOk h c e
  | .tagged t item, e, he => by
    rw [envOfCbor_tagged] at he
    unfold DecodedOk
    split at he
    · rename_i ht
      injection he with he
      subst he
      simp only [Bool.or_eq_true, beq_iff_eq] at ht
      rcases ht with ht | ht
      · subst ht
        simp only [newLeaf, cborOf, legacyNorm, WF, Canon, EncShape, and_self, and_true]
        rfl
      · subst ht
        simp only [newLeaf, cborOf, legacyNorm, WF, Canon, EncShape, and_self, and_true]
        rfl
    · rename_i ht
      simp only [Bool.or_eq_true, beq_iff_eq, not_or] at ht
      split at he
      · rename_i ht2
        simp only [beq_iff_eq] at ht2
        subst ht2
        cases hi : envOfCbor h item with
        | ok e' =>
          rw [hi] at he
          injection he with he
          subst he
          obtain ⟨h1, h2, h3, h4⟩ := envOfCbor_sound item e' hi
          simp only [newWrapped, cborOf, legacyNorm, WF, Canon, EncShape, h1, h2, h3, h4, and_self,
            and_true]
          rfl
        | err m => rw [hi] at he; cases he
        | panic m => rw [hi] at he; cases he
      · rename_i ht2
        split at he
        · rename_i ht3
          simp only [beq_iff_eq] at ht3
          subst ht3
          obtain ⟨m, d, rfl, rfl, hd, hn, ha, hne⟩ := decodeEncrypted_ok he
          simp only [cborOf, legacyNorm, WF, Canon, EncShape, hd, hn, ha, hne, optDigest_valid hd,
            and_self, and_true, ne_eq, not_false_eq_true]
          rfl
        · rename_i ht3
          split at he
          · rename_i ht4
            simp only [beq_iff_eq] at ht4
            subst ht4
            obtain ⟨c, d, rfl, rfl, hv, h1, h2, h3⟩ := decodeCompressed_ok he
            simp only [cborOf, legacyNorm, WF, Canon, EncShape, hv, h1, h2, h3, and_self, and_true]
            rfl
          · cases he
  | .bytes b, e, he => by
    rw [envOfCbor_bytes] at he
    unfold DecodedOk
    split at he
    · rename_i d hd
      injection he with he
      subst he
      obtain ⟨_, hb, hv⟩ := Digest.ofBytes_some hd
      simp only [newElided, cborOf, legacyNorm, WF, Canon, EncShape, hb, hv, and_self]
    · cases he
  | .array [], e, he => by rw [envOfCbor_array_nil] at he; cases he
  | .array [x], e, he => by rw [envOfCbor_array_one] at he; cases he
  | .array (x :: y :: r), e, he => by
    rw [envOfCbor_array_cons] at he
    unfold DecodedOk
    cases hx : envOfCbor h x with
    | ok s =>
      rw [hx] at he
      cases hr : envOfCborList h (y :: r) with
      | ok as =>
        rw [hr] at he
        dsimp only at he
        split at he
        · rename_i hasc
          have hasc' := (ascAdj_iff as).mp hasc
          obtain ⟨hslot, hne, rfl⟩ := newNode_ok h he
          obtain ⟨s1, s2, s3, s4⟩ := envOfCbor_sound x s hx
          obtain ⟨l1, l2, l3, l4, _⟩ := envOfCborList_sound (y :: r) as hr
          simp only [mkNode, sortByDigest_of_asc hasc', cborOf, legacyNorm, legacyNormList, WF, Canon,
            EncShape, s1, s2, s3, s4, l2, l3, l4, hasc', and_self, and_true, true_and, ne_eq, hne,
            not_false_eq_true]
          refine ⟨?_, hslot⟩
          rw [l1]
          simp only [legacyNormList]
        · cases he
      | err m => rw [hr] at he; cases he
      | panic m => rw [hr] at he; cases he
    | err m => rw [hx] at he; cases he
    | panic m => rw [hx] at he; cases he
  | .map [(k, v)], e, he => by
    rw [envOfCbor_map_one] at he
    unfold DecodedOk
    cases hk : envOfCbor h k with
    | ok p =>
      rw [hk] at he
      cases hv : envOfCbor h v with
      | ok o =>
        rw [hv] at he
        injection he with he
        subst he
        obtain ⟨p1, p2, p3, p4⟩ := envOfCbor_sound k p hk
        obtain ⟨o1, o2, o3, o4⟩ := envOfCbor_sound v o hv
        simp only [newAssertion, cborOf, legacyNorm, legacyNormPairs, WF, Canon, EncShape, p1, p2, p3,
          p4, o1, o2, o3, o4, and_self]
      | err m => rw [hv] at he; cases he
      | panic m => rw [hv] at he; cases he
    | err m => rw [hk] at he; cases he
    | panic m => rw [hk] at he; cases he
  | .map [], e, he => by simp only [envOfCbor] at he; cases he
  | .map (_ :: _ :: _), e, he => by simp only [envOfCbor] at he; cases he
  | .uint v, e, he => by
    rw [envOfCbor_uint] at he
    injection he with he
    subst he
    simp only [DecodedOk, newKnownValue, cborOf, legacyNorm, WF, Canon, EncShape, and_self]
  | .nint _, e, he => by simp only [envOfCbor] at he; cases he
  | .text _, e, he => by simp only [envOfCbor] at he; cases he
  | .simple _, e, he => by simp only [envOfCbor] at he; cases he
  | .float _, e, he => by simp only [envOfCbor] at he; cases he
theorem envOfCborList_sound :
    (cs : List Cbor) → (es : List Env) → envOfCborList h cs = .ok es → DecodedListOk h cs es
  | [], es, he => by
    rw [envOfCborList_nil] at he
    injection he with he
    subst he
    simp only [DecodedListOk, cborOfList, legacyNormList, WFList, CanonList, EncShapeList,
      List.length_nil, and_self]
  | x :: xs, es, he => by
    rw [envOfCborList_cons] at he
    cases hx : envOfCbor h x with
    | ok e =>
      rw [hx] at he
      cases hr : envOfCborList h xs with
      | ok es' =>
        rw [hr] at he
        injection he with he
        subst he
        obtain ⟨s1, s2, s3, s4⟩ := envOfCbor_sound x e hx
        obtain ⟨l1, l2, l3, l4, l5⟩ := envOfCborList_sound xs es' hr
        simp only [DecodedListOk, cborOfList, legacyNormList, WFList, CanonList, EncShapeList,
          List.length_cons, s1, s2, s3, s4, l1, l2, l3, l4, l5, and_self]
      | err m => rw [hr] at he; cases he
      | panic m => rw [hr] at he; cases he
    | err m => rw [hx] at he; cases he
    | panic m => rw [hx] at he; cases he
end

end

section
variable (h : Hash)

theorem envOfCborList_length {cs : List Cbor} {es : List Env} (he : envOfCborList h cs = .ok es) :
    es.length = cs.length := (envOfCborList_sound h cs es he).2.2.2.2

mutual
theorem envOfCbor_no_panic_aux : (c : Cbor) → (p : String) → envOfCbor h c ≠ .panic p
  | .tagged t item, p => by
    rw [envOfCbor_tagged]
    split
    · intro hh; cases hh
    · split
      · cases hi : envOfCbor h item with
        | ok e' => intro hh; cases hh
        | err m => intro hh; cases hh
        | panic m => exact absurd hi (envOfCbor_no_panic_aux item m)
      · split
        · exact decodeEncrypted_no_panic item p
        · split
          · exact decodeCompressed_no_panic item p
          · intro hh; cases hh
  | .bytes b, p => by
    rw [envOfCbor_bytes]
    split <;> (intro hh; cases hh)
  | .array [], p => by rw [envOfCbor_array_nil]; intro hh; cases hh
  | .array [x], p => by rw [envOfCbor_array_one]; intro hh; cases hh
  | .array (x :: y :: r), p => by
    rw [envOfCbor_array_cons]
    cases hx : envOfCbor h x with
    | ok s =>
      cases hr : envOfCborList h (y :: r) with
      | ok as =>
        dsimp only
        split
        · apply newNode_no_panic
          intro h0
          have := envOfCborList_length h hr
          rw [h0] at this
          simp at this
        · intro hh; cases hh
      | err m => intro hh; cases hh
      | panic m => exact absurd hr (envOfCborList_no_panic_aux (y :: r) m)
    | err m => intro hh; cases hh
    | panic m => exact absurd hx (envOfCbor_no_panic_aux x m)
  | .map [(k, v)], p => by
    rw [envOfCbor_map_one]
    cases hk : envOfCbor h k with
    | ok pp =>
      cases hv : envOfCbor h v with
      | ok o => intro hh; cases hh
      | err m => intro hh; cases hh
      | panic m => exact absurd hv (envOfCbor_no_panic_aux v m)
    | err m => intro hh; cases hh
    | panic m => exact absurd hk (envOfCbor_no_panic_aux k m)
  | .map [], p => by simp only [envOfCbor]; intro hh; cases hh
  | .map (_ :: _ :: _), p => by simp only [envOfCbor]; intro hh; cases hh
  | .uint v, p => by rw [envOfCbor_uint]; intro hh; cases hh
  | .nint _, p => by simp only [envOfCbor]; intro hh; cases hh
  | .text _, p => by simp only [envOfCbor]; intro hh; cases hh
  | .simple _, p => by simp only [envOfCbor]; intro hh; cases hh
  | .float _, p => by simp only [envOfCbor]; intro hh; cases hh
theorem envOfCborList_no_panic_aux :
    (cs : List Cbor) → (p : String) → envOfCborList h cs ≠ .panic p
  | [], p => by rw [envOfCborList_nil]; intro hh; cases hh
  | x :: xs, p => by
    rw [envOfCborList_cons]
    cases hx : envOfCbor h x with
    | ok e =>
      cases hr : envOfCborList h xs with
      | ok es' => intro hh; cases hh
      | err m => intro hh; cases hh
      | panic m => exact absurd hr (envOfCborList_no_panic_aux xs m)
    | err m => intro hh; cases hh
    | panic m => exact absurd hx (envOfCbor_no_panic_aux x m)
end

/-- not accepted and never a panic: rejected -/
theorem err_of_not_ok {c : Cbor} (hno : ∀ e, envOfCbor h c ≠ .ok e) : ∃ msg, envOfCbor h c = .err msg := by
  cases hc : envOfCbor h c with
  | ok e => exact absurd hc (hno e)
  | err m => exact ⟨m, rfl⟩
  | panic m => exact absurd hc (envOfCbor_no_panic_aux h c m)

/-- element-wise view of a successful list decode -/
theorem envOfCborList_getElem? : ∀ {cs : List Cbor} {es : List Env},
    envOfCborList h cs = .ok es → ∀ (i : Nat) (c : Cbor), cs[i]? = some c →
      ∃ a, es[i]? = some a ∧ envOfCbor h c = .ok a
  | [], _, _, i, c, hc => by simp at hc
  | x :: xs, es, he, i, c, hc => by
    rw [envOfCborList_cons] at he
    cases hx : envOfCbor h x with
    | ok e =>
      rw [hx] at he
      cases hr : envOfCborList h xs with
      | ok es' =>
        rw [hr] at he
        injection he with he
        subst he
        cases i with
        | zero =>
          simp only [List.getElem?_cons_zero, Option.some.injEq] at hc
          subst hc
          exact ⟨e, by simp, hx⟩
        | succ j =>
          simp only [List.getElem?_cons_succ] at hc
          obtain ⟨a, ha1, ha2⟩ := envOfCborList_getElem? hr j c hc
          exact ⟨a, by simpa using ha1, ha2⟩
      | err m => rw [hr] at he; cases he
      | panic m => rw [hr] at he; cases he
    | err m => rw [hx] at he; cases he
    | panic m => rw [hx] at he; cases he

/-- what acceptance of an array means -/
theorem envOfCbor_array_ok {x : Cbor} {rest : List Cbor} {e : Env}
    (he : envOfCbor h (.array (x :: rest)) = .ok e) :
    ∃ s as, envOfCbor h x = .ok s ∧ envOfCborList h rest = .ok as ∧ rest ≠ [] ∧
      AscDigests as ∧ (∀ a ∈ as, a.slotOk = true) ∧ e = mkNode h s as := by
  cases rest with
  | nil => rw [envOfCbor_array_one] at he; cases he
  | cons y r =>
    rw [envOfCbor_array_cons] at he
    cases hx : envOfCbor h x with
    | ok s =>
      rw [hx] at he
      cases hr : envOfCborList h (y :: r) with
      | ok as =>
        rw [hr] at he
        dsimp only at he
        split at he
        · rename_i hasc
          obtain ⟨hslot, _, he'⟩ := newNode_ok h he
          exact ⟨s, as, rfl, rfl, by simp, (ascAdj_iff as).mp hasc, hslot, he'⟩
        · cases he
      | err m => rw [hr] at he; cases he
      | panic m => rw [hr] at he; cases he
    | err m => rw [hx] at he; cases he
    | panic m => rw [hx] at he; cases he

end

/-! ### which envelopes have a valid dCBOR tree -/

mutual
/-- everything in the envelope fits the dCBOR data model: leaves are valid dCBOR values,
known values are `u64`, counts and byte lengths fit in 64 bits -/
def Encodable : Env → Prop
  | .node s as _ => Encodable s ∧ EncodableList as ∧ as.length + 1 < 2 ^ 64
  | .leaf c _ => c.Valid
  | .wrapped e _ => Encodable e
  | .assertion p o _ => Encodable p ∧ Encodable o
  | .elided _ => True
  | .knownValue v _ => v < 2 ^ 64
  | .encrypted m _ => m.ciphertext.length < 2 ^ 64 ∧ m.aad.length < 2 ^ 64
  | .compressed _ _ => True
def EncodableList : List Env → Prop
  | [] => True
  | a :: as => Encodable a ∧ EncodableList as
end

theorem digestCbor_valid (d : Digest) : (digestCbor d).Valid := by
  simp only [digestCbor, Cbor.Valid, Digest.bytes_len32, TAG_DIGEST]
  omega

mutual
theorem cborOf_valid : (e : Env) → Encodable e → EncShape e → (cborOf e).Valid
  | .node s as d, he, hs => by
    simp only [Encodable] at he
    simp only [EncShape] at hs
    have h1 := cborOf_valid s he.1 hs.1
    have h2 := cborOfList_valid as he.2.1 hs.2
    simp only [cborOf, Cbor.Valid, Cbor.ValidList, h1, h2, List.length_cons, cborOfList_length,
      and_self, and_true]
    exact he.2.2
  | .leaf c d, he, _ => by
    simp only [Encodable] at he
    simp only [cborOf, Cbor.Valid, he, TAG_LEAF, and_true]
    omega
  | .wrapped e d, he, hs => by
    simp only [Encodable] at he
    simp only [EncShape] at hs
    simp only [cborOf, Cbor.Valid, cborOf_valid e he hs, TAG_ENVELOPE, and_true]
    omega
  | .assertion p o d, he, hs => by
    simp only [Encodable] at he
    simp only [EncShape] at hs
    simp only [cborOf, Cbor.Valid, Cbor.ValidPairs, cborOf_valid p he.1 hs.1, cborOf_valid o he.2 hs.2,
      Cbor.KeysAsc, Cbor.keysEnc, List.map_cons, List.map_nil, List.pairwise_cons, List.Pairwise.nil,
      List.length_cons, List.length_nil, and_self, and_true]
    simp
  | .elided d, _, _ => by
    simp only [cborOf, Cbor.Valid, Digest.bytes_len32]
    omega
  | .knownValue v d, he, _ => by
    simp only [Encodable] at he
    simpa only [cborOf, Cbor.Valid] using he
  | .encrypted m d, he, hs => by
    simp only [Encodable] at he
    simp only [EncShape] at hs
    have hemp : m.aad.isEmpty = false := by
      cases hm : m.aad with
      | nil => exact absurd hm hs.2.2
      | cons x xs => rfl
    simp only [cborOf, encMsgCbor, hemp, Bool.false_eq_true, if_false, List.cons_append,
      List.nil_append, Cbor.Valid, Cbor.ValidList, hs.1, hs.2.1, TAG_ENCRYPTED, List.length_cons,
      List.length_nil, and_true]
    omega
  | .compressed c d, _, hs => by
    simp only [EncShape] at hs
    simp only [cborOf, compMsgCbor, Cbor.Valid, Cbor.ValidList, digestCbor_valid d, TAG_COMPRESSED,
      List.length_cons, List.length_nil, and_true]
    omega
theorem cborOfList_valid :
    (as : List Env) → EncodableList as → EncShapeList as → Cbor.ValidList (cborOfList as)
  | [], _, _ => by simp only [cborOfList, Cbor.ValidList]
  | a :: as, he, hs => by
    simp only [EncodableList] at he
    simp only [EncShapeList] at hs
    simp only [cborOfList, Cbor.ValidList, cborOf_valid a he.1 hs.1, cborOfList_valid as he.2 hs.2,
      and_self]
end

theorem taggedCborOf_valid {e : Env} (he : Encodable e) (hs : EncShape e) : (taggedCborOf e).Valid := by
  simp only [taggedCborOf, Cbor.Valid, cborOf_valid e he hs, TAG_ENVELOPE, and_true]
  omega

/-! ### who establishes `EncShape` -/

/-- `SymmetricKey::encrypt_with_digest` with a 12-byte nonce and an AEAD whose tags are 16
bytes yields an element of the shape the decoder demands -/
theorem encShape_encryptWithDigest (A : Aead) (key nonce plaintext : Bytes) (d : Digest)
    (hn : nonce.length = 12) (hA : ∀ k n p a, (A.enc k n p a).2.length = 16) :
    EncShape (.encrypted (encryptWithDigest A key nonce plaintext d) d) := by
  simp only [EncShape, encryptWithDigest, hn, hA, true_and]
  simp only [digestCbor, Cbor.enc]
  intro h0
  have := List.append_eq_nil_iff.mp h0
  exact Cbor.head_ne_nil _ _ this.1

/-- ... and its `aad` declares the digest (uses the codec law `Cbor.decEncLaw`) -/
theorem optDigest_encryptWithDigest (A : Aead) (key nonce plaintext : Bytes)
    {d : Digest} (hd : d.Valid) :
    (encryptWithDigest A key nonce plaintext d).optDigest = some d := by
  simp only [EncMsg.optDigest, encryptWithDigest, Cbor.dec?, Cbor.decEncLaw _ (digestCbor_valid d),
    digestOfCbor_digestCbor hd]

/-- `Compressed::from_uncompressed_data` with a 32-bit CRC and a `u64` length -/
theorem encShape_compressedOf (Z : Deflate) (data : Bytes) (d : Digest)
    (hc : Z.crc data < 2 ^ 32) (hl : data.length < 2 ^ 64) :
    EncShape (.compressed (compressedOf Z data) d) := by
  simp only [EncShape, compressedOf]
  split
  · rename_i hlt
    simp only [Bool.and_eq_true, decide_eq_true_eq] at hlt
    exact ⟨hc, hl, Nat.le_of_lt hlt.2⟩
  · exact ⟨hc, hl, Nat.le_refl _⟩

/-! ### byte-level form of the legacy alias -/

/-- the bytes with every `#6.24` at an envelope leaf position rewritten to `#6.201`
(bytes that are not dCBOR are left alone) -/
def legacyNormBytes (b : Bytes) : Bytes :=
  match Cbor.dec b with
  | .ok c => (legacyNorm c).enc
  | .error _ => b

/-- no `#6.24` leaf at an envelope position of the tree these bytes decode to -/
def NoLegacyLeaf (b : Bytes) : Prop := ∀ c, Cbor.dec b = .ok c → hasLegacyLeaf c = false

theorem legacyNormBytes_of_no_legacy {b : Bytes} (L : EncDecAt b) (hb : NoLegacyLeaf b) :
    legacyNormBytes b = b := by
  unfold legacyNormBytes
  split
  · rename_i c hc
    rw [legacyNorm_of_no_legacy c (hb c hc)]
    exact (L c hc).1
  · rfl

/-- the shapes that decode to something that is not an assertion slot -/
theorem slotOk_false_of_shape (h : Hash) {c : Cbor} {a : Env} (ha : envOfCbor h c = .ok a)
    (hc : (∃ v, c = .uint v) ∨ (∃ i, c = .tagged TAG_LEAF i) ∨ (∃ i, c = .tagged TAG_ENCODED_CBOR i) ∨
      (∃ i, c = .tagged TAG_ENVELOPE i)) : a.slotOk = false := by
  rcases hc with ⟨v, rfl⟩ | ⟨i, rfl⟩ | ⟨i, rfl⟩ | ⟨i, rfl⟩
  · rw [envOfCbor_uint] at ha
    injection ha with ha
    subst ha
    rfl
  · rw [envOfCbor_tagged] at ha
    injection ha with ha
    subst ha
    rfl
  · rw [envOfCbor_tagged] at ha
    injection ha with ha
    subst ha
    rfl
  · rw [envOfCbor_tagged] at ha
    have h1 : (TAG_ENVELOPE == TAG_LEAF || TAG_ENVELOPE == TAG_ENCODED_CBOR) = false := by decide
    have h2 : (TAG_ENVELOPE == TAG_ENVELOPE) = true := by decide
    rw [h1, h2] at ha
    simp only [Bool.false_eq_true, if_false, if_true] at ha
    cases hi : envOfCbor h i with
    | ok e' =>
      rw [hi] at ha
      injection ha with ha
      subst ha
      rfl
    | err m => rw [hi] at ha; cases ha
    | panic m => rw [hi] at ha; cases ha

/-! ### toy instances for the satisfiability examples of C05 / C06 -/

namespace CodecEx
/-- a toy hash: the length of the image -/
def toyH : Hash := ⟨fun b => ⟨b.length⟩⟩
def sLeaf : Env := .leaf (.text [0x61]) ⟨2⟩
def sKV : Env := .knownValue 1 ⟨4⟩
def sAssert : Env := .assertion sKV sLeaf ⟨64⟩
def sElided : Env := .elided ⟨70⟩
def sEncMsg : EncMsg :=
  { ciphertext := [1, 2, 3], nonce := List.replicate 12 0, auth := List.replicate 16 0,
    aad := (digestCbor ⟨80⟩).enc }
def sEnc : Env := .encrypted sEncMsg ⟨80⟩
def sComp : Env := .compressed { checksum := 7, size := 10, data := [1, 2] } ⟨90⟩
def sWrapped : Env := .wrapped sLeaf ⟨32⟩
/-- a node with a wrapped subject and four assertion elements: an assertion (known-value
predicate, text leaf object), an elided, an encrypted and a compressed element -/
def sample : Env := .node sWrapped [sAssert, sElided, sEnc, sComp] ⟨160⟩

theorem sample_wf : WF toyH sample := by
  simp [sample, sWrapped, sLeaf, sAssert, sKV, sElided, sEnc, sComp, WF, WFList, toyH,
    Hash.ofDigests, catDigests, Digest.bytes_len32, Env.digest]
  decide

theorem sample_canon : Canon sample := by
  simp [sample, sWrapped, sLeaf, sAssert, sKV, sElided, sEnc, sComp, Canon, CanonList, AscDigests,
    Env.digest, Digest.Valid, slotOk, isSubjectAssertion, isSubjectObscured, isSubjectElided,
    isSubjectEncrypted, isSubjectCompressed]

theorem sample_inv : Inv toyH sample := ⟨sample_wf, sample_canon⟩

theorem sample_encShape : EncShape sample := by
  simp [sample, sWrapped, sLeaf, sAssert, sKV, sElided, sEnc, sComp, EncShape, EncShapeList, sEncMsg]
  decide

theorem sample_encodable : Encodable sample := by
  simp [sample, sWrapped, sLeaf, sAssert, sKV, sElided, sEnc, sComp, Encodable, EncodableList,
    sEncMsg, Cbor.Valid]
  decide
end CodecEx

end EnvVerif
