/-
  Lemmas/Paths.lean — positions inside an envelope: `Step`, `Path`, `Env.at`, and a
  structural induction principle for the nested inductive `Env`.
-/
import EnvVerif.Lemmas.Basic
namespace EnvVerif
open Env

/-- one step down the envelope tree -/
inductive Step where
  | subj                    -- node → subject
  | assertion (i : Nat)     -- node → i-th assertion (in stored order)
  | pred                    -- assertion → predicate
  | obj                     -- assertion → object
  | inner                   -- wrapped → inner envelope
  deriving DecidableEq, Repr, Inhabited

/-- a position: the steps from the root -/
abbrev Path := List Step

/-- the child reached by one step, if the envelope has such a child -/
def Env.child : Env → Step → Option Env
  | .node s _ _, .subj => some s
  | .node _ as _, .assertion i => as[i]?
  | .assertion p _ _, .pred => some p
  | .assertion _ o _, .obj => some o
  | .wrapped e _, .inner => some e
  | _, _ => none

/-- the element at a position, if the position exists -/
def Env.at : Env → Path → Option Env
  | e, [] => some e
  | e, s :: p =>
    match e.child s with
    | some c => Env.at c p
    | none => none

@[simp] theorem Env.at_nil (e : Env) : e.at [] = some e := rfl

theorem Env.at_cons (e : Env) (s : Step) (p : Path) :
    e.at (s :: p) = (e.child s).bind (fun c => c.at p) := by
  simp only [Env.at]; cases e.child s <;> rfl

theorem Env.at_append (e : Env) (p q : Path) :
    e.at (p ++ q) = (e.at p).bind (fun c => c.at q) := by
  induction p generalizing e with
  | nil => simp
  | cons s p ih =>
    simp only [List.cons_append, Env.at_cons]
    cases e.child s with
    | none => rfl
    | some c => simp [ih]

/-- positions are prefix closed -/
theorem Env.at_prefix {e : Env} {p q : Path} {x : Env} (hx : e.at (p ++ q) = some x) :
    ∃ y, e.at p = some y ∧ y.at q = some x := by
  rw [Env.at_append] at hx
  cases hp : e.at p with
  | none => simp [hp] at hx
  | some y => exact ⟨y, rfl, by simpa [hp] using hx⟩

/-- an element without children has no position below the root -/
theorem Env.at_cons_none_of_child {e : Env} (hc : ∀ s, e.child s = none) (s : Step) (p : Path) :
    e.at (s :: p) = none := by
  simp [Env.at_cons, hc]

theorem Env.child_none_of_isObscured {e : Env} (ho : e.isObscured = true) (s : Step) :
    e.child s = none := by
  cases e <;> simp [Env.isObscured, Env.isElided, Env.isEncrypted, Env.isCompressed] at ho <;> rfl

theorem Env.at_cons_none_of_isObscured {e : Env} (ho : e.isObscured = true) (s : Step) (p : Path) :
    e.at (s :: p) = none :=
  Env.at_cons_none_of_child (Env.child_none_of_isObscured ho) s p

/-! ### pointwise relation between two lists (core has no `List.Forall₂`) -/

/-- `Forall₂ R as bs`: same length and `R` holds position by position -/
inductive Forall₂ {α β : Type} (R : α → β → Prop) : List α → List β → Prop where
  | nil : Forall₂ R [] []
  | cons {a b as bs} : R a b → Forall₂ R as bs → Forall₂ R (a :: as) (b :: bs)

namespace Forall₂
variable {α β : Type} {R : α → β → Prop}

theorem length_eq {as : List α} {bs : List β} (hf : Forall₂ R as bs) : as.length = bs.length := by
  induction hf with
  | nil => rfl
  | cons _ _ ih => simp [ih]

theorem eq_nil_iff {as : List α} {bs : List β} (hf : Forall₂ R as bs) : as = [] ↔ bs = [] := by
  cases hf <;> simp

theorem getElem?_left {as : List α} {bs : List β} (hf : Forall₂ R as bs) {i : Nat} {a : α}
    (ha : as[i]? = some a) : ∃ b, bs[i]? = some b ∧ R a b := by
  induction hf generalizing i with
  | nil => simp at ha
  | cons h1 _ ih =>
    cases i with
    | zero => simp at ha; subst ha; exact ⟨_, by simp, h1⟩
    | succ i => simp at ha; simpa using ih ha

theorem getElem?_right {as : List α} {bs : List β} (hf : Forall₂ R as bs) {i : Nat} {b : β}
    (hb : bs[i]? = some b) : ∃ a, as[i]? = some a ∧ R a b := by
  induction hf generalizing i with
  | nil => simp at hb
  | cons h1 _ ih =>
    cases i with
    | zero => simp at hb; subst hb; exact ⟨_, by simp, h1⟩
    | succ i => simp at hb; simpa using ih hb

theorem imp {S : α → β → Prop} {as : List α} {bs : List β} (hf : Forall₂ R as bs)
    (hi : ∀ a b, a ∈ as → R a b → S a b) : Forall₂ S as bs := by
  induction hf with
  | nil => exact .nil
  | cons h1 _ ih =>
    exact .cons (hi _ _ (by simp) h1) (ih (fun a b ha hr => hi a b (by simp [ha]) hr))

/-- build the second list from a function that is total on the members of the first -/
theorem of_forall_exists {as : List α} (hx : ∀ a ∈ as, ∃ b, R a b) : ∃ bs, Forall₂ R as bs := by
  induction as with
  | nil => exact ⟨[], .nil⟩
  | cons a as ih =>
    obtain ⟨b, hb⟩ := hx a (by simp)
    obtain ⟨bs, hbs⟩ := ih (fun x hm => hx x (by simp [hm]))
    exact ⟨b :: bs, .cons hb hbs⟩

theorem map_eq {γ : Type} {f : α → γ} {g : β → γ} {as : List α} {bs : List β}
    (hf : Forall₂ (fun a b => g b = f a) as bs) : bs.map g = as.map f := by
  induction hf with
  | nil => rfl
  | cons h1 _ ih => simp [h1, ih]

/-- if the relation is functional, so is its lifting -/
theorem right_unique {as : List α} {bs bs' : List β} (hf : Forall₂ R as bs) (hf' : Forall₂ R as bs')
    (hu : ∀ a b b', R a b → R a b' → b = b') : bs = bs' := by
  induction hf generalizing bs' with
  | nil => cases hf'; rfl
  | cons h1 _ ih =>
    cases hf' with
    | cons h1' h2' => rw [hu _ _ _ h1 h1', ih h2']

end Forall₂

/-! ### structural induction over `Env` -/

section
variable {P : Env → Prop}
  (hnode : ∀ s as d, P s → (∀ a ∈ as, P a) → P (.node s as d))
  (hleaf : ∀ c d, P (.leaf c d))
  (hwrapped : ∀ e d, P e → P (.wrapped e d))
  (hassertion : ∀ p o d, P p → P o → P (.assertion p o d))
  (helided : ∀ d, P (.elided d))
  (hknownValue : ∀ v d, P (.knownValue v d))
  (hencrypted : ∀ m d, P (.encrypted m d))
  (hcompressed : ∀ c d, P (.compressed c d))
set_option linter.unusedSectionVars false
include hnode hleaf hwrapped hassertion helided hknownValue hencrypted hcompressed

mutual
/-- induction over an envelope with the list children handled through membership -/
theorem Env.induct : (e : Env) → P e
  | .node s as d => hnode s as d (Env.induct s) (Env.inductList as)
  | .leaf c d => hleaf c d
  | .wrapped e d => hwrapped e d (Env.induct e)
  | .assertion p o d => hassertion p o d (Env.induct p) (Env.induct o)
  | .elided d => helided d
  | .knownValue v d => hknownValue v d
  | .encrypted m d => hencrypted m d
  | .compressed c d => hcompressed c d
theorem Env.inductList : (as : List Env) → ∀ a ∈ as, P a
  | [] => fun _ ha => by cases ha
  | b :: bs => fun a ha => by
    rcases List.mem_cons.mp ha with hb | hm
    · rw [hb]; exact Env.induct b
    · exact Env.inductList bs a hm
end
end

/-- induction over an envelope through `Env.child` -/
theorem Env.induct_child {P : Env → Prop}
    (H : ∀ e, (∀ s c, e.child s = some c → P c) → P e) : ∀ e, P e := by
  intro e
  induction e using Env.induct with
  | hnode s as d ihs ihas =>
    apply H; intro st c hc
    cases st <;> simp only [Env.child, reduceCtorEq] at hc
    · cases hc; exact ihs
    · exact ihas c (List.mem_of_getElem? hc)
  | hleaf c d => apply H; intro st c hc; cases st <;> simp [Env.child] at hc
  | hwrapped e d ih =>
    apply H; intro st c hc
    cases st <;> simp only [Env.child, reduceCtorEq] at hc
    cases hc; exact ih
  | hassertion p o d ihp iho =>
    apply H; intro st c hc
    cases st <;> simp only [Env.child, reduceCtorEq] at hc
    · cases hc; exact ihp
    · cases hc; exact iho
  | helided d => apply H; intro st c hc; cases st <;> simp [Env.child] at hc
  | hknownValue v d => apply H; intro st c hc; cases st <;> simp [Env.child] at hc
  | hencrypted m d => apply H; intro st c hc; cases st <;> simp [Env.child] at hc
  | hcompressed c d => apply H; intro st c hc; cases st <;> simp [Env.child] at hc

theorem Env.at_cons_some {e x : Env} {s : Step} {p : Path} (hx : e.at (s :: p) = some x) :
    ∃ c, e.child s = some c ∧ c.at p = some x := by
  rw [Env.at_cons] at hx
  cases hc : e.child s with
  | none => simp [hc] at hx
  | some c => exact ⟨c, rfl, by simpa [hc] using hx⟩

theorem Env.at_cons_of_child {e c : Env} {s : Step} (hc : e.child s = some c) (p : Path) :
    e.at (s :: p) = c.at p := by
  simp [Env.at_cons, hc]

/-! ### positions and the element list -/

theorem self_mem_elements (e : Env) : e ∈ elements e := by
  cases e <;> simp [elements]

theorem elements_sub_elementsList {a : Env} {as : List Env} (ha : a ∈ as) :
    ∀ x ∈ elements a, x ∈ elementsList as := by
  induction as with
  | nil => cases ha
  | cons b bs ih =>
    intro x hx
    simp only [elementsList, List.mem_append]
    rcases List.mem_cons.mp ha with rfl | hm
    · exact Or.inl hx
    · exact Or.inr (ih hm x hx)

theorem elements_child {e c : Env} {s : Step} (hc : e.child s = some c) :
    ∀ x ∈ elements c, x ∈ elements e := by
  intro x hx
  cases e <;> cases s <;> simp only [Env.child, reduceCtorEq] at hc
  case node.subj s as d => cases hc; simp [elements, hx]
  case node.assertion s as d i =>
    simp only [elements, List.mem_cons, List.mem_append]
    exact Or.inr (Or.inr (elements_sub_elementsList (List.mem_of_getElem? hc) x hx))
  case wrapped.inner e d => cases hc; simp [elements, hx]
  case assertion.pred p o d => cases hc; simp [elements, hx]
  case assertion.obj p o d => cases hc; simp [elements, hx]

/-- every position holds an element of the structure walk -/
theorem at_mem_elements {e x : Env} {p : Path} (hx : e.at p = some x) : x ∈ elements e := by
  induction p generalizing e with
  | nil => simp at hx; subst hx; exact self_mem_elements e
  | cons s p ih =>
    obtain ⟨c, hc, hx'⟩ := Env.at_cons_some hx
    exact elements_child hc x (ih hx')

end EnvVerif
