/-
  Lemmas/Paths.lean — positions inside an envelope: `Step`, `Path`, `Env.at`, and a
  structural induction principle for the nested inductive `Env`.
-/
import EnvVerif.Lemmas.Basic
namespace EnvVerif
open Env

/-- one step down the envelope tree -/
inductive Step where
  | subj                    -- node → subject
  | assertion (i : Nat)     -- node → i-th assertion (in stored order)
  | pred                    -- assertion → predicate
  | obj                     -- assertion → object
  | inner                   -- wrapped → inner envelope
  deriving DecidableEq, Repr, Inhabited

/-- a position: the steps from the root -/
abbrev Path := List Step

/-- the child reached by one step, if the envelope has such a child -/
def Env.child : Env → Step → Option Env
  | .node s _ _, .subj => some s
  | .node _ as _, .assertion i => as[i]?
  | .assertion p _ _, .pred => some p
  | .assertion _ o _, .obj => some o
  | .wrapped e _, .inner => some e
  | _, _ => none

/-- the element at a position, if the position exists -/
def Env.at : Env → Path → Option Env
  | e, [] => some e
  | e, s :: p =>
    match e.child s with
    | some c => Env.at c p
    | none => none

@[simp] theorem Env.at_nil (e : Env) : e.at [] = some e := rfl

theorem Env.at_cons (e : Env) (s : Step) (p : Path) :
    e.at (s :: p) = (e.child s).bind (fun c => c.at p) := by
  simp only [Env.at]; cases e.child s <;> rfl

theorem Env.at_append (e : Env) (p q : Path) :
    e.at (p ++ q) = (e.at p).bind (fun c => c.at q) := by
  induction p generalizing e with
  | nil => simp
  | cons s p ih =>
    simp only [List.cons_append, Env.at_cons]
    cases e.child s with
    | none => rfl
    | some c => simp [ih]

/-- positions are prefix closed -/
theorem Env.at_prefix {e : Env} {p q : Path} {x : Env} (hx : e.at (p ++ q) = some x) :
    ∃ y, e.at p = some y ∧ y.at q = some x := by
  rw [Env.at_append] at hx
  cases hp : e.at p with
  | none => simp [hp] at hx
  | some y => exact ⟨y, rfl, by simpa [hp] using hx⟩

/-- an element without children has no position below the root -/
theorem Env.at_cons_none_of_child {e : Env} (hc : ∀ s, e.child s = none) (s : Step) (p : Path) :
    e.at (s :: p) = none := by
  simp [Env.at_cons, hc]

theorem Env.child_none_of_isObscured {e : Env} (ho : e.isObscured = true) (s : Step) :
    e.child s = none := by
  cases e <;> simp [Env.isObscured, Env.isElided, Env.isEncrypted, Env.isCompressed] at ho <;> rfl

theorem Env.at_cons_none_of_isObscured {e : Env} (ho : e.isObscured = true) (s : Step) (p : Path) :
    e.at (s :: p) = none :=
  Env.at_cons_none_of_child (Env.child_none_of_isObscured ho) s p

/-! ### structural induction over `Env` -/

section
variable {P : Env → Prop}
  (hnode : ∀ s as d, P s → (∀ a ∈ as, P a) → P (.node s as d))
  (hleaf : ∀ c d, P (.leaf c d))
  (hwrapped : ∀ e d, P e → P (.wrapped e d))
  (hassertion : ∀ p o d, P p → P o → P (.assertion p o d))
  (helided : ∀ d, P (.elided d))
  (hknownValue : ∀ v d, P (.knownValue v d))
  (hencrypted : ∀ m d, P (.encrypted m d))
  (hcompressed : ∀ c d, P (.compressed c d))
set_option linter.unusedSectionVars false
include hnode hleaf hwrapped hassertion helided hknownValue hencrypted hcompressed

mutual
/-- induction over an envelope with the list children handled through membership -/
theorem Env.induct : (e : Env) → P e
  | .node s as d => hnode s as d (Env.induct s) (Env.inductList as)
  | .leaf c d => hleaf c d
  | .wrapped e d => hwrapped e d (Env.induct e)
  | .assertion p o d => hassertion p o d (Env.induct p) (Env.induct o)
  | .elided d => helided d
  | .knownValue v d => hknownValue v d
  | .encrypted m d => hencrypted m d
  | .compressed c d => hcompressed c d
theorem Env.inductList : (as : List Env) → ∀ a ∈ as, P a
  | [] => fun _ ha => by cases ha
  | b :: bs => fun a ha => by
    rcases List.mem_cons.mp ha with hb | hm
    · rw [hb]; exact Env.induct b
    · exact Env.inductList bs a hm
end
end

end EnvVerif
