/-
  Lemmas/InvLemmas.lean — helper lemmas for C01 / C04: unfolding forms of `WF` / `Canon`,
  32-byte validity of decoded digests, facts about `mkNode`, slot preservation under the
  obscuring traversal, the operation language `Op` / `applyOp` / `runHistory`, `erase`,
  and the toy instances used by the satisfiability examples.
-/
import EnvVerif.Lemmas.Basic
namespace EnvVerif
open Env

/- helper lemmas and sample data live in `EnvVerif.InvL` so that they cannot collide with the
helpers of other properties; the definitions that occur in theorem statements (`Op`, `applyOp`,
`runHistory`, `Produced`, `erase`, `recompute`) are in `EnvVerif` itself -/
namespace InvL

/-! ### unfolding forms -/

section
variable (h : Hash)

@[simp] theorem WF_node (s : Env) (as : List Env) (d : Digest) :
    WF h (.node s as d) ↔ WF h s ∧ WFList h as ∧ d = h.ofDigests (s.digest :: as.map Env.digest) := by
  simp [WF]
@[simp] theorem WF_leaf (c : Cbor) (d : Digest) : WF h (.leaf c d) ↔ d = h.H c.enc := by simp [WF]
@[simp] theorem WF_wrapped (e : Env) (d : Digest) :
    WF h (.wrapped e d) ↔ WF h e ∧ d = h.ofDigests [e.digest] := by simp [WF]
@[simp] theorem WF_assertion (p o : Env) (d : Digest) :
    WF h (.assertion p o d) ↔ WF h p ∧ WF h o ∧ d = h.ofDigests [p.digest, o.digest] := by simp [WF]
@[simp] theorem WF_elided (d : Digest) : WF h (.elided d) ↔ True := by simp [WF]
@[simp] theorem WF_knownValue (v : Nat) (d : Digest) :
    WF h (.knownValue v d) ↔ d = h.H (knownValueCbor v).enc := by simp [WF]
@[simp] theorem WF_encrypted (m : EncMsg) (d : Digest) :
    WF h (.encrypted m d) ↔ m.optDigest = some d := by simp [WF]
@[simp] theorem WF_compressed (c : CompMsg) (d : Digest) : WF h (.compressed c d) ↔ True := by simp [WF]
@[simp] theorem WFList_nil : WFList h [] ↔ True := by simp [WFList]
@[simp] theorem WFList_cons (a : Env) (as : List Env) : WFList h (a :: as) ↔ WF h a ∧ WFList h as := by
  simp [WFList]
end

@[simp] theorem Canon_node (s : Env) (as : List Env) (d : Digest) :
    Canon (.node s as d) ↔
      Canon s ∧ CanonList as ∧ as ≠ [] ∧ AscDigests as ∧ (∀ a ∈ as, a.slotOk = true) := by
  simp [Canon]
@[simp] theorem Canon_leaf (c : Cbor) (d : Digest) : Canon (.leaf c d) ↔ True := by simp [Canon]
@[simp] theorem Canon_wrapped (e : Env) (d : Digest) : Canon (.wrapped e d) ↔ Canon e := by simp [Canon]
@[simp] theorem Canon_assertion (p o : Env) (d : Digest) :
    Canon (.assertion p o d) ↔ Canon p ∧ Canon o := by simp [Canon]
@[simp] theorem Canon_elided (d : Digest) : Canon (.elided d) ↔ d.Valid := by simp [Canon]
@[simp] theorem Canon_knownValue (v : Nat) (d : Digest) : Canon (.knownValue v d) ↔ True := by simp [Canon]
@[simp] theorem Canon_encrypted (m : EncMsg) (d : Digest) : Canon (.encrypted m d) ↔ d.Valid := by
  simp [Canon]
@[simp] theorem Canon_compressed (c : CompMsg) (d : Digest) : Canon (.compressed c d) ↔ d.Valid := by
  simp [Canon]
@[simp] theorem CanonList_nil : CanonList [] ↔ True := by simp [CanonList]
@[simp] theorem CanonList_cons (a : Env) (as : List Env) :
    CanonList (a :: as) ↔ Canon a ∧ CanonList as := by simp [CanonList]

/-! ### 32-byte facts -/

theorem beNat_foldl_lt (b : Bytes) :
    ∀ acc : Nat, b.foldl (fun acc x => acc * 256 + x.toNat) acc < (acc + 1) * 256 ^ b.length := by
  induction b with
  | nil => intro acc; simp
  | cons x xs ih =>
    intro acc
    have h1 := ih (acc * 256 + x.toNat)
    have hx : x.toNat < 256 := UInt8.toNat_lt x
    have h2 : (acc * 256 + x.toNat + 1) * 256 ^ xs.length ≤ ((acc + 1) * 256) * 256 ^ xs.length :=
      Nat.mul_le_mul_right _ (by omega)
    simp only [List.foldl_cons, List.length_cons, Nat.pow_succ]
    calc _ < _ := h1
      _ ≤ _ := h2
      _ = _ := by rw [Nat.mul_assoc, Nat.mul_comm 256]

theorem beNat_lt (b : Bytes) : beNat b < 256 ^ b.length := by
  have := beNat_foldl_lt b 0
  simpa [beNat] using this

theorem ofBytes_valid {b : Bytes} {d : Digest} (hd : Digest.ofBytes? b = some d) : d.Valid := by
  unfold Digest.ofBytes? at hd
  split at hd
  · rename_i hl
    injection hd with hd
    subst hd
    have := beNat_lt b
    rw [hl] at this
    simpa [Digest.Valid] using this
  · cases hd

theorem digestOfCbor_valid {c : Cbor} {d : Digest} (hd : digestOfCbor? c = some d) : d.Valid := by
  unfold digestOfCbor? at hd
  split at hd
  · split at hd
    · exact ofBytes_valid hd
    · cases hd
  · cases hd

theorem optDigest_valid {m : EncMsg} {d : Digest} (hd : m.optDigest = some d) : d.Valid := by
  unfold EncMsg.optDigest at hd
  split at hd
  · exact digestOfCbor_valid hd
  · cases hd

theorem beBytes_length (n v : Nat) : (beBytes n v).length = n := by
  induction n generalizing v with
  | zero => simp [beBytes]
  | succ n ih => simp [beBytes, ih]

@[simp] theorem digest_bytes_length (d : Digest) : d.bytes.length = 32 := beBytes_length 32 d.val

/-! ### digests of invariant-satisfying envelopes are 32-byte values -/

theorem digest_valid {h : Hash} (hH : ∀ b, (h.H b).Valid) {e : Env} (hw : WF h e) (hc : Canon e) :
    e.digest.Valid := by
  cases e with
  | node s as d => simp only [WF_node] at hw; rw [Env.digest, hw.2.2]; exact hH _
  | leaf c d => simp only [WF_leaf] at hw; rw [Env.digest, hw]; exact hH _
  | wrapped e d => simp only [WF_wrapped] at hw; rw [Env.digest, hw.2]; exact hH _
  | assertion p o d => simp only [WF_assertion] at hw; rw [Env.digest, hw.2.2]; exact hH _
  | elided d => simpa [Env.digest] using hc
  | knownValue v d => simp only [WF_knownValue] at hw; rw [Env.digest, hw]; exact hH _
  | encrypted m d => simpa [Env.digest] using hc
  | compressed c d => simpa [Env.digest] using hc

/-! ### subject / assertions -/

theorem wf_subject {h : Hash} {e : Env} (hw : WF h e) : WF h e.subject := by
  cases e <;> simp_all [Env.subject]

theorem canon_subject {e : Env} (hc : Canon e) : Canon e.subject := by
  cases e <;> simp_all [Env.subject]

theorem wf_assertions {h : Hash} {e : Env} (hw : WF h e) : WFList h e.assertions := by
  cases e <;> simp_all [Env.assertions]

theorem canon_assertions {e : Env} (hc : Canon e) : CanonList e.assertions := by
  cases e <;> simp_all [Env.assertions]

theorem canon_assertions_asc {e : Env} (hc : Canon e) : AscDigests e.assertions := by
  cases e <;> simp_all [Env.assertions, AscDigests]

theorem canon_assertions_slotOk {e : Env} (hc : Canon e) : ∀ a ∈ e.assertions, a.slotOk = true := by
  cases e <;> simp_all [Env.assertions]

/-! ### `mkNode`, `newNodeUnchecked`, `newNode` -/

theorem digest_ext {a b : Digest} (hv : a.val = b.val) : a = b := by
  cases a; cases b; simp_all

/-- digests pairwise distinct -/
def DistinctDigests (as : List Env) : Prop := as.Pairwise (fun a b => a.digest ≠ b.digest)

theorem asc_distinct {as : List Env} (hs : AscDigests as) : DistinctDigests as :=
  List.Pairwise.imp (fun {a b} hab heq => by rw [heq] at hab; exact Nat.lt_irrefl _ hab) hs

theorem asc_sublist {as bs : List Env} (hs : AscDigests as) (hsub : bs.Sublist as) :
    AscDigests bs := List.Pairwise.sublist hsub hs

theorem sortByDigest_asc {as : List Env} (hd : DistinctDigests as) : AscDigests (sortByDigest as) := by
  have h1 := sortByDigest_sorted as
  have h2 : DistinctDigests (sortByDigest as) :=
    ((sortByDigest_perm as).pairwise_iff (fun {a b} hab => fun heq => hab heq.symm)).2 hd
  refine (h1.and h2).imp ?_
  intro a b ⟨hle, hne⟩
  simp only [digestLe, decide_eq_true_eq] at hle
  have : a.digest.val ≠ b.digest.val := fun hv => hne (digest_ext hv)
  omega

/-- an ascending list stays ascending (as a digest sequence) under any digest-preserving
elementwise replacement -/
theorem asc_of_map_eq {as bs : List Env} (hs : AscDigests as)
    (hm : bs.map Env.digest = as.map Env.digest) : AscDigests bs := by
  have h1 : (as.map Env.digest).Pairwise (fun a b => a.val < b.val) := by
    rw [List.pairwise_map]; exact hs
  rw [← hm, List.pairwise_map] at h1
  exact h1

section
variable (h : Hash)

theorem mkNode_wf {s : Env} {as : List Env} : WF h (mkNode h s as) ↔ WF h s ∧ WFList h as := by
  simp only [mkNode, WF_node, and_true, WFList_iff]
  constructor
  · rintro ⟨hs, has⟩; exact ⟨hs, fun a ha => has a (mem_sortByDigest.2 ha)⟩
  · rintro ⟨hs, has⟩; exact ⟨hs, fun a ha => has a (mem_sortByDigest.1 ha)⟩

theorem mkNode_canon {s : Env} {as : List Env} (hs : Canon s) (has : CanonList as) (hne : as ≠ [])
    (hd : DistinctDigests as) (hslot : ∀ a ∈ as, a.slotOk = true) : Canon (mkNode h s as) := by
  simp only [mkNode, Canon_node, CanonList_iff]
  refine ⟨hs, ?_, ?_, sortByDigest_asc hd, ?_⟩
  · intro a ha; exact (CanonList_iff as).1 has a (mem_sortByDigest.1 ha)
  · intro hnil; exact hne (sortByDigest_eq_nil.1 hnil)
  · intro a ha; exact hslot a (mem_sortByDigest.1 ha)

/-- on an already ascending list `mkNode` keeps the list as it is -/
theorem mkNode_of_asc {s : Env} {as : List Env} (hs : AscDigests as) :
    mkNode h s as = .node s as (h.ofDigests (s.digest :: as.map Env.digest)) := by
  simp only [mkNode, sortByDigest_of_asc hs]

theorem newNodeUnchecked_ok {s : Env} {as : List Env} {r : Env} :
    newNodeUnchecked h s as = .ok r ↔ as ≠ [] ∧ r = mkNode h s as := by
  unfold newNodeUnchecked
  cases as with
  | nil => simp
  | cons a as => simp [eq_comm]

theorem newNode_ok {s : Env} {as : List Env} {r : Env} :
    newNode h s as = .ok r ↔ (∀ a ∈ as, a.slotOk = true) ∧ as ≠ [] ∧ r = mkNode h s as := by
  unfold newNode
  split
  · rename_i hall
    rw [newNodeUnchecked_ok]
    simp only [List.all_eq_true] at hall
    exact ⟨fun hx => ⟨hall, hx⟩, fun hx => hx.2⟩
  · rename_i hall
    simp only [List.all_eq_true] at hall
    constructor
    · intro hx; cases hx
    · intro hx; exact absurd hx.1 hall

end


/-! ### slots -/

@[simp] theorem slotOk_node (s : Env) (as : List Env) (d : Digest) :
    (Env.node s as d).slotOk = s.slotOk := by
  simp [slotOk, isSubjectObscured, isSubjectAssertion, isSubjectElided, isSubjectEncrypted,
    isSubjectCompressed]
@[simp] theorem slotOk_assertion (p o : Env) (d : Digest) : (Env.assertion p o d).slotOk = true := by
  simp [slotOk, isSubjectAssertion]
@[simp] theorem slotOk_elided (d : Digest) : (Env.elided d).slotOk = true := by
  simp [slotOk, isSubjectObscured, isSubjectElided]
@[simp] theorem slotOk_encrypted (m : EncMsg) (d : Digest) : (Env.encrypted m d).slotOk = true := by
  simp [slotOk, isSubjectObscured, isSubjectEncrypted]
@[simp] theorem slotOk_compressed (c : CompMsg) (d : Digest) : (Env.compressed c d).slotOk = true := by
  simp [slotOk, isSubjectObscured, isSubjectCompressed]
@[simp] theorem slotOk_leaf (c : Cbor) (d : Digest) : (Env.leaf c d).slotOk = false := by
  simp [slotOk, isSubjectObscured, isSubjectAssertion, isSubjectElided, isSubjectEncrypted,
    isSubjectCompressed]
@[simp] theorem slotOk_knownValue (v : Nat) (d : Digest) : (Env.knownValue v d).slotOk = false := by
  simp [slotOk, isSubjectObscured, isSubjectAssertion, isSubjectElided, isSubjectEncrypted,
    isSubjectCompressed]
@[simp] theorem slotOk_wrapped (e : Env) (d : Digest) : (Env.wrapped e d).slotOk = false := by
  simp [slotOk, isSubjectObscured, isSubjectAssertion, isSubjectElided, isSubjectEncrypted,
    isSubjectCompressed]

@[simp] theorem slotOk_mkNode (h : Hash) (s : Env) (as : List Env) : (mkNode h s as).slotOk = s.slotOk := by
  simp [mkNode]

/-! ### what `obscure` returns -/

section
variable (h : Hash) (A : Aead) (Z : Deflate)

/-- the shape of a successful `compress` -/
theorem compress_ok {e r : Env} (hr : compress Z e = .ok r) : ∃ c, r = .compressed c e.digest := by
  unfold compress at hr
  split at hr
  all_goals first
    | (injection hr with hr; subst hr; exact ⟨_, rfl⟩)
    | cases hr

/-- the shape of a successful `newEncryptedUnwrap` -/
theorem newEncryptedUnwrap_ok {m : EncMsg} {site : String} {r : Env}
    (hr : newEncryptedUnwrap m site = .ok r) : ∃ d, r = .encrypted m d ∧ m.optDigest = some d := by
  unfold newEncryptedUnwrap at hr
  split at hr
  · rename_i d hd; injection hr with hr; exact ⟨d, hr.symm, hd⟩
  · cases hr

/-- `compress` refuses exactly the elided and encrypted elements -/
theorem compress_err {e : Env} {x : String} (hr : compress Z e = .err x) : e.isObscured = true := by
  unfold compress at hr
  split at hr
  all_goals first
    | (simp [isObscured, isElided, isEncrypted, isCompressed]; done)
    | cases hr

theorem compress_no_panic {e : Env} {x : String} : compress Z e ≠ .panic x := by
  unfold compress
  split <;> simp

/-- a successful `obscure` returns an elided / encrypted / compressed element; the elided
and compressed ones declare the digest of the original, the encrypted one the digest its
`aad` decodes to; the `compress` action leaves an element that cannot be compressed
(elided or encrypted) as it is -/
theorem obscure_ok {act : Action} {e r : Env} (hr : obscure A Z act e = .ok r) :
    r = .elided e.digest ∨ (∃ m d, r = .encrypted m d ∧ m.optDigest = some d) ∨
      (∃ c, r = .compressed c e.digest) ∨ (r = e ∧ e.isObscured = true) := by
  unfold obscure at hr
  split at hr
  · injection hr with hr; subst hr
    left; unfold elide; split <;> rfl
  · obtain ⟨d, h1, h2⟩ := newEncryptedUnwrap_ok hr
    exact .inr (.inl ⟨_, d, h1, h2⟩)
  · split at hr
    · rename_i c hc
      injection hr with hr; subst hr
      exact .inr (.inr (.inl (compress_ok Z hc)))
    · rename_i x hx
      first
        | (injection hr with hr; subst hr; exact .inr (.inr (.inr ⟨rfl, compress_err Z hx⟩)))
        | cases hr
    · cases hr

theorem obscure_wf {act : Action} {e r : Env} (hw : WF h e) (hr : obscure A Z act e = .ok r) :
    WF h r := by
  rcases obscure_ok A Z hr with rfl | ⟨m, d, rfl, hm⟩ | ⟨c, rfl⟩ | ⟨rfl, _⟩ <;> simp [*]

theorem obscure_canon {act : Action} {e r : Env} (hv : e.digest.Valid) (hc : Canon e)
    (hr : obscure A Z act e = .ok r) : Canon r := by
  rcases obscure_ok A Z hr with rfl | ⟨m, d, rfl, hm⟩ | ⟨c, rfl⟩ | ⟨rfl, _⟩
  · simpa using hv
  · simpa using optDigest_valid hm
  · simpa using hv
  · exact hc

theorem isObscured_slotOk {e : Env} (ho : e.isObscured = true) : e.slotOk = true := by
  cases e <;> simp_all [isObscured, isElided, isEncrypted, isCompressed]

theorem obscure_isObscured {act : Action} {e r : Env} (hr : obscure A Z act e = .ok r) :
    r.isObscured = true := by
  rcases obscure_ok A Z hr with rfl | ⟨m, d, rfl, hm⟩ | ⟨c, rfl⟩ | ⟨rfl, ho⟩ <;>
    simp_all [isObscured, isElided, isEncrypted, isCompressed]

theorem obscure_slotOk {act : Action} {e r : Env} (hr : obscure A Z act e = .ok r) :
    r.slotOk = true := isObscured_slotOk (obscure_isObscured A Z hr)

end

/-! ### the obscuring traversal -/

section
variable (h : Hash) (A : Aead) (Z : Deflate)

/-- the list traversal keeps the digest sequence (it panics otherwise) -/
theorem elideSetList_digests (T : Digest → Bool) (rev : Bool) (act : Action) :
    ∀ (as rs : List Env), elideSetList h A Z T rev act as = .ok rs →
      rs.map Env.digest = as.map Env.digest := by
  intro as
  induction as with
  | nil => intro rs hr; simp only [elideSetList] at hr; injection hr with hr; subst hr; rfl
  | cons a as ih =>
    intro rs hr
    simp only [elideSetList] at hr
    split at hr
    · rename_i a' ha'
      split at hr
      · cases hr
      · rename_i hd
        split at hr
        · rename_i as' has'
          injection hr with hr; subst hr
          simp only [bne_iff_ne, ne_eq, Decidable.not_not] at hd
          simp [hd, ih as' has']
        · cases hr
        · cases hr
    · cases hr
    · cases hr


/-- closes the five leaf-like cases of `elideSet` -/
theorem elideSet_wf_atom {T : Digest → Bool} {rev : Bool} {act : Action} {e r : Env}
    (hw : WF h e) (hr : (if (T e.digest != rev) = true then obscure A Z act e else .ok e) = .ok r) :
    WF h r := by
  split at hr
  · exact obscure_wf h A Z hw hr
  · injection hr with hr; subst hr; exact hw



theorem elideSet_slotOk_atom {T : Digest → Bool} {rev : Bool} {act : Action} {e r : Env}
    (hw : e.slotOk = true)
    (hr : (if (T e.digest != rev) = true then obscure A Z act e else .ok e) = .ok r) :
    r.slotOk = true := by
  split at hr
  · exact obscure_slotOk A Z hr
  · injection hr with hr; subst hr; exact hw

/-- an assertion slot stays an assertion slot under the obscuring traversal -/
theorem elideSet_slotOk (T : Digest → Bool) (rev : Bool) (act : Action) :
    (e r : Env) → e.slotOk = true → elideSet h A Z T rev act e = .ok r → r.slotOk = true
  | .assertion p o d, r, _, hr => by
    simp only [elideSet] at hr
    split at hr
    · exact obscure_slotOk A Z hr
    · split at hr
      · split at hr
        · split at hr
          · injection hr with hr; subst hr; simp [newAssertion]
          · cases hr
        · cases hr
        · cases hr
      · cases hr
      · cases hr
  | .node s as d, r, hw, hr => by
    simp only [elideSet] at hr
    split at hr
    · exact obscure_slotOk A Z hr
    · split at hr
      · rename_i s' hs'
        split at hr
        · cases hr
        · split at hr
          · obtain ⟨_, rfl⟩ := (newNodeUnchecked_ok h).1 hr
            simp only [slotOk_node] at hw
            simpa using elideSet_slotOk T rev act s s' hw hs'
          · cases hr
          · cases hr
      · cases hr
      · cases hr
  | .wrapped e d, r, hw, _ => by simp at hw
  | .leaf c d, r, hw, _ => by simp at hw
  | .knownValue v d, r, hw, _ => by simp at hw
  | .elided d, r, hw, hr => by simp only [elideSet] at hr; exact elideSet_slotOk_atom A Z hw hr
  | .encrypted m d, r, hw, hr => by simp only [elideSet] at hr; exact elideSet_slotOk_atom A Z hw hr
  | .compressed c d, r, hw, hr => by simp only [elideSet] at hr; exact elideSet_slotOk_atom A Z hw hr

theorem elideSetList_slotOk (T : Digest → Bool) (rev : Bool) (act : Action) :
    ∀ (as rs : List Env), (∀ a ∈ as, a.slotOk = true) → elideSetList h A Z T rev act as = .ok rs →
      ∀ r ∈ rs, r.slotOk = true := by
  intro as
  induction as with
  | nil => intro rs _ hr; simp only [elideSetList] at hr; injection hr with hr; subst hr; simp
  | cons a as ih =>
    intro rs hs hr
    simp only [elideSetList] at hr
    split at hr
    · rename_i a' ha'
      split at hr
      · cases hr
      · split at hr
        · rename_i as' has'
          injection hr with hr; subst hr
          intro r hmem
          rcases List.mem_cons.1 hmem with rfl | hmem
          · exact elideSet_slotOk h A Z T rev act a _ (hs a (by simp)) ha'
          · exact ih as' (fun x hx => hs x (by simp [hx])) has' r hmem
        · cases hr
        · cases hr
    · cases hr
    · cases hr

theorem elideSet_canon_atom {T : Digest → Bool} {rev : Bool} {act : Action} {e r : Env}
    (hv : e.digest.Valid) (hc : Canon e)
    (hr : (if (T e.digest != rev) = true then obscure A Z act e else .ok e) = .ok r) :
    Canon r := by
  split at hr
  · exact obscure_canon A Z hv hc hr
  · injection hr with hr; subst hr; exact hc


end

/-! ### folds of fallible steps -/

theorem res_bind_eq_ok {α β} {r : Res α} {f : α → Res β} {y : β} :
    r.bind f = .ok y ↔ ∃ x, r = .ok x ∧ f x = .ok y := by
  cases r <;> simp [Res.bind]

/-- invariant of a `foldl` of fallible steps -/
theorem foldl_bind_inv {P Q : Env → Prop} (step : Env → Env → Res Env)
    (hstep : ∀ x a r, P x → Q a → step x a = .ok r → P r) :
    ∀ (as : List Env) (init : Res Env) (r : Env), (∀ x, init = .ok x → P x) → (∀ a ∈ as, Q a) →
      as.foldl (fun acc a => acc.bind fun x => step x a) init = .ok r → P r := by
  intro as
  induction as with
  | nil => intro init r hi _ hr; exact hi r hr
  | cons a as ih =>
    intro init r hi hq hr
    simp only [List.foldl_cons] at hr
    refine ih _ r ?_ (fun b hb => hq b (by simp [hb])) hr
    intro x hx
    obtain ⟨x0, h0, h1⟩ := res_bind_eq_ok.1 hx
    exact hstep x0 a x (hi x0 h0) (hq a (by simp)) h1

theorem distinct_append_singleton {as : List Env} {a : Env} (hs : AscDigests as)
    (hn : as.any (fun x => x.digest == a.digest) = false) : DistinctDigests (as ++ [a]) := by
  unfold DistinctDigests
  rw [List.pairwise_append]
  refine ⟨(asc_distinct hs), by simp, ?_⟩
  intro x hx y hy
  simp only [List.mem_singleton] at hy; subst hy
  intro heq
  have : as.any (fun x => x.digest == y.digest) = true :=
    List.any_eq_true.2 ⟨x, hx, by simp [heq]⟩
  rw [hn] at this; cases this


end InvL

/-! ### the operation language -/

/-- the public operations with their arguments; the receiver is the current envelope -/
inductive Op where
  | addAssertion (a : Env)
  | removeAssertion (target : Env)
  | replaceAssertion (a b : Env)
  | replaceSubject (s : Env)
  | addAll (as : List Env)
  | assertionWithObject (o : Env)          -- `Envelope::new_assertion(receiver, o)`
  | assertionWithPredicate (p : Env)       -- `Envelope::new_assertion(p, receiver)`
  | wrap
  | unwrap
  | subject
  | elide
  | elideSet (T : Digest → Bool) (revealing : Bool) (act : Action)
  | compress
  | compressSubject
  | encryptSubject (key nonce : Bytes)
  | encryptWhole (key nonce : Bytes)
  | unelide (original : Env)               -- the receiver is the placeholder
  -- operations that decode bytes
  | decodeBytes (b : Bytes)                -- ignores the receiver
  | reencode                               -- `decode (encode receiver)`
  | uncompress
  | uncompressSubject
  | decryptSubject (key : Bytes)
  | decryptWhole (key : Bytes)

/-- the envelope arguments of an operation -/
def Op.args : Op → List Env
  | .addAssertion a => [a]
  | .removeAssertion t => [t]
  | .replaceAssertion a b => [a, b]
  | .replaceSubject s => [s]
  | .addAll as => as
  | .assertionWithObject o => [o]
  | .assertionWithPredicate p => [p]
  | .unelide o => [o]
  | _ => []

/-- does the operation run the envelope decoder -/
def Op.decoding : Op → Bool
  | .decodeBytes _ | .reencode | .uncompress | .uncompressSubject | .decryptSubject _
  | .decryptWhole _ => true
  | _ => false

section
variable (h : Hash) (A : Aead) (Z : Deflate)

def applyOp : Op → Env → Res Env
  | .addAssertion a, e => addAssertionEnvelope h e a
  | .removeAssertion t, e => removeAssertion h e t
  | .replaceAssertion a b, e => replaceAssertion h e a b
  | .replaceSubject s, e => replaceSubject h e s
  | .addAll as, e => addAll h e as
  | .assertionWithObject o, e => .ok (newAssertion h e o)
  | .assertionWithPredicate p, e => .ok (newAssertion h p e)
  | .wrap, e => .ok (wrap h e)
  | .unwrap, e => unwrap e
  | .subject, e => .ok e.subject
  | .elide, e => .ok (elide e)
  | .elideSet T rev act, e => elideSet h A Z T rev act e
  | .compress, e => compress Z e
  | .compressSubject, e => compressSubject h Z e
  | .encryptSubject key nonce, e => encryptSubject h A key nonce e
  | .encryptWhole key nonce, e => encryptWhole h A key nonce e
  | .unelide o, e => unelide e o
  | .decodeBytes b, _ => decode h b
  | .reencode, e => decode h (encode e)
  | .uncompress, e => uncompress h Z e
  | .uncompressSubject, e => uncompressSubject h Z e
  | .decryptSubject key, e => decryptSubject h A key e
  | .decryptWhole key, e => decryptWhole h A key e

/-- the results of running a history from `e`: one entry per executed step, the run stops
at the first step that does not return an envelope -/
def runHistory (e : Env) : List Op → List (Res Env)
  | [] => []
  | o :: os =>
    match applyOp h A Z o e with
    | .ok r => .ok r :: runHistory r os
    | x => [x]

/-- everything the library can produce: closed under the constructors and the operations,
arguments included (`dec = false` excludes the operations that run the decoder) -/
inductive Produced (dec : Bool) : Env → Prop
  | leaf (c : Cbor) : Produced dec (newLeaf h c)
  | knownValue (v : Nat) : Produced dec (newKnownValue h v)
  | elided (d : Digest) : d.Valid → Produced dec (newElided d)
  | op (o : Op) (e r : Env) : Produced dec e → (∀ a ∈ o.args, Produced dec a) →
      (dec = false → o.decoding = false) → applyOp h A Z o e = .ok r → Produced dec r

end

/-! ### forgetting the cached digests -/

mutual
/-- the content of an envelope: cached digests of node / leaf / wrapped / assertion /
known value are forgotten, declared digests of elided / encrypted / compressed are kept -/
def erase : Env → Env
  | .node s as _ => .node (erase s) (eraseList as) ⟨0⟩
  | .leaf c _ => .leaf c ⟨0⟩
  | .wrapped e _ => .wrapped (erase e) ⟨0⟩
  | .assertion p o _ => .assertion (erase p) (erase o) ⟨0⟩
  | .elided d => .elided d
  | .knownValue v _ => .knownValue v ⟨0⟩
  | .encrypted m d => .encrypted m d
  | .compressed c d => .compressed c d
def eraseList : List Env → List Env
  | [] => []
  | a :: as => erase a :: eraseList as
end

namespace InvL

/-! ### elements of an invariant-satisfying envelope satisfy the invariant -/

section
variable (h : Hash)

mutual
theorem mem_elements_wf : (e x : Env) → WF h e → x ∈ elements e → WF h x
  | .node s as d, x, hw, hx => by
    simp only [elements, List.mem_cons, List.mem_append] at hx
    rcases hx with rfl | hx | hx
    · exact hw
    · exact mem_elements_wf s x ((WF_node h _ _ _).1 hw).1 hx
    · exact mem_elementsList_wf as x ((WF_node h _ _ _).1 hw).2.1 hx
  | .wrapped e d, x, hw, hx => by
    simp only [elements, List.mem_cons] at hx
    rcases hx with rfl | hx
    · exact hw
    · exact mem_elements_wf e x ((WF_wrapped h _ _).1 hw).1 hx
  | .assertion p o d, x, hw, hx => by
    simp only [elements, List.mem_cons, List.mem_append] at hx
    rcases hx with rfl | hx | hx
    · exact hw
    · exact mem_elements_wf p x ((WF_assertion h _ _ _).1 hw).1 hx
    · exact mem_elements_wf o x ((WF_assertion h _ _ _).1 hw).2.1 hx
  | .leaf c d, x, hw, hx => by simp only [elements, List.mem_singleton] at hx; subst hx; exact hw
  | .elided d, x, hw, hx => by simp only [elements, List.mem_singleton] at hx; subst hx; exact hw
  | .knownValue v d, x, hw, hx => by simp only [elements, List.mem_singleton] at hx; subst hx; exact hw
  | .encrypted m d, x, hw, hx => by simp only [elements, List.mem_singleton] at hx; subst hx; exact hw
  | .compressed c d, x, hw, hx => by simp only [elements, List.mem_singleton] at hx; subst hx; exact hw
theorem mem_elementsList_wf : (as : List Env) → (x : Env) → WFList h as → x ∈ elementsList as → WF h x
  | [], x, _, hx => by simp [elementsList] at hx
  | a :: as, x, hw, hx => by
    simp only [elementsList, List.mem_append] at hx
    rcases hx with hx | hx
    · exact mem_elements_wf a x ((WFList_cons h _ _).1 hw).1 hx
    · exact mem_elementsList_wf as x ((WFList_cons h _ _).1 hw).2 hx
end

end

mutual
theorem mem_elements_canon : (e x : Env) → Canon e → x ∈ elements e → Canon x
  | .node s as d, x, hw, hx => by
    simp only [elements, List.mem_cons, List.mem_append] at hx
    rcases hx with rfl | hx | hx
    · exact hw
    · exact mem_elements_canon s x ((Canon_node _ _ _).1 hw).1 hx
    · exact mem_elementsList_canon as x ((Canon_node _ _ _).1 hw).2.1 hx
  | .wrapped e d, x, hw, hx => by
    simp only [elements, List.mem_cons] at hx
    rcases hx with rfl | hx
    · exact hw
    · exact mem_elements_canon e x ((Canon_wrapped _ _).1 hw) hx
  | .assertion p o d, x, hw, hx => by
    simp only [elements, List.mem_cons, List.mem_append] at hx
    rcases hx with rfl | hx | hx
    · exact hw
    · exact mem_elements_canon p x ((Canon_assertion _ _ _).1 hw).1 hx
    · exact mem_elements_canon o x ((Canon_assertion _ _ _).1 hw).2 hx
  | .leaf c d, x, hw, hx => by simp only [elements, List.mem_singleton] at hx; subst hx; exact hw
  | .elided d, x, hw, hx => by simp only [elements, List.mem_singleton] at hx; subst hx; exact hw
  | .knownValue v d, x, hw, hx => by simp only [elements, List.mem_singleton] at hx; subst hx; exact hw
  | .encrypted m d, x, hw, hx => by simp only [elements, List.mem_singleton] at hx; subst hx; exact hw
  | .compressed c d, x, hw, hx => by simp only [elements, List.mem_singleton] at hx; subst hx; exact hw
theorem mem_elementsList_canon : (as : List Env) → (x : Env) → CanonList as → x ∈ elementsList as → Canon x
  | [], x, _, hx => by simp [elementsList] at hx
  | a :: as, x, hw, hx => by
    simp only [elementsList, List.mem_append] at hx
    rcases hx with hx | hx
    · exact mem_elements_canon a x ((CanonList_cons _ _).1 hw).1 hx
    · exact mem_elementsList_canon as x ((CanonList_cons _ _).1 hw).2 hx
end


/-! ### serialisation helpers, one-level recomputation -/

theorem cborOfList_eq_map (as : List Env) : cborOfList as = as.map cborOf := by
  induction as with
  | nil => simp [cborOfList]
  | cons a as ih => simp [cborOfList, ih]

end InvL

/-- the digest recomputed from the immediate children of an element (from the digests
they report), resp. the declared digest of an obscured element -/
def recompute (h : Hash) : Env → Digest
  | .node s as _ => h.ofDigests (s.digest :: as.map Env.digest)
  | .leaf c _ => h.H c.enc
  | .wrapped e _ => h.ofDigests [e.digest]
  | .assertion p o _ => h.ofDigests [p.digest, o.digest]
  | .elided d => d
  | .knownValue v _ => h.H (knownValueCbor v).enc
  | .encrypted m d => m.optDigest.getD d
  | .compressed _ d => d

namespace InvL

theorem wf_recompute {h : Hash} {e : Env} (hw : WF h e) : e.digest = recompute h e := by
  cases e <;> simp_all [recompute, Env.digest]

/-! ### success of operations -/

theorem res_isOk_iff {α} {r : Res α} : r.isOk = true ↔ ∃ x, r = .ok x := by
  cases r <;> simp [Res.isOk]

/-! ### general success lemmas (arbitrary hash) -/
section
variable (h : Hash)

theorem addAssertionEnvelope_isOk {e a : Env} (hs : a.slotOk = true) :
    ∃ r, addAssertionEnvelope h e a = .ok r := by
  unfold addAssertionEnvelope
  simp only [hs, Bool.not_true, Bool.false_eq_true, ↓reduceIte]
  split
  · split
    · exact ⟨_, rfl⟩
    · exact ⟨_, (newNodeUnchecked_ok h).2 ⟨by simp, rfl⟩⟩
  · exact ⟨_, (newNodeUnchecked_ok h).2 ⟨by simp, rfl⟩⟩

theorem removeAssertion_isOk (e t : Env) : ∃ r, removeAssertion h e t = .ok r := by
  simp only [removeAssertion]
  split
  · split
    · exact ⟨_, rfl⟩
    · rename_i hne
      exact ⟨_, (newNodeUnchecked_ok h).2 ⟨by simpa using hne, rfl⟩⟩
  · exact ⟨_, rfl⟩

theorem replaceAssertion_isOk (e a : Env) {b : Env} (hs : b.slotOk = true) :
    ∃ r, replaceAssertion h e a b = .ok r := by
  obtain ⟨e', he'⟩ := removeAssertion_isOk h e a
  obtain ⟨r, hr⟩ := addAssertionEnvelope_isOk h (e := e') hs
  exact ⟨r, by simp [replaceAssertion, he', Res.bind, hr]⟩

theorem addAll_isOk (as : List Env) : ∀ (e : Env), (∀ a ∈ as, a.slotOk = true) →
    ∃ r, addAll h e as = .ok r := by
  unfold addAll
  induction as with
  | nil => intro e _; exact ⟨e, rfl⟩
  | cons a as ih =>
    intro e hs
    obtain ⟨x, hx⟩ := addAssertionEnvelope_isOk h (e := e) (hs a (by simp))
    obtain ⟨r, hr⟩ := ih x (fun b hb => hs b (by simp [hb]))
    exact ⟨r, by simpa [List.foldl_cons, Res.bind, hx] using hr⟩

theorem replaceSubject_isOk_aux (as : List Env) : ∀ (s : Env), (∀ a ∈ as, a.slotOk = true) →
    ∃ r, as.foldl (fun (acc : Res Env) a =>
      acc.bind fun x =>
        match addAssertionEnvelope h x a with
        | .ok y => Res.ok y
        | .err _ => Res.panic "assertions.rs:replace_subject:unwrap"
        | .panic p => Res.panic p) (Res.ok s) = Res.ok r := by
  induction as with
  | nil => intro s _; exact ⟨s, rfl⟩
  | cons a as ih =>
    intro s hs
    obtain ⟨x, hx⟩ := addAssertionEnvelope_isOk h (e := s) (hs a (by simp))
    obtain ⟨r, hr⟩ := ih x (fun b hb => hs b (by simp [hb]))
    exact ⟨r, by simpa [List.foldl_cons, Res.bind, hx] using hr⟩

theorem replaceSubject_isOk {e : Env} (s : Env) (hs : ∀ a ∈ e.assertions, a.slotOk = true) :
    ∃ r, replaceSubject h e s = .ok r := replaceSubject_isOk_aux h e.assertions s hs

end

theorem encryptSubject_node_isOk (h : Hash) (A : Aead) {key nonce : Bytes} {s : Env} {as : List Env}
    {d : Digest} (h2 : s.isEncrypted = false)
    (h1 : (encryptWithDigest A key nonce (encode s) s.digest).optDigest = some s.digest)
    (hasc : AscDigests as) (hne : as ≠ []) (hd : d = h.ofDigests (s.digest :: as.map Env.digest)) :
    ∃ r, encryptSubject h A key nonce (.node s as d) = .ok r := by
  have hn : newNodeUnchecked h (.encrypted (encryptWithDigest A key nonce (encode s) s.digest) s.digest) as
      = .ok (mkNode h (.encrypted (encryptWithDigest A key nonce (encode s) s.digest) s.digest) as) :=
    (newNodeUnchecked_ok h).2 ⟨hne, rfl⟩
  unfold encryptSubject
  simp only [h2, Bool.false_eq_true, ↓reduceIte, newEncryptedUnwrap, h1, hn]
  rw [mkNode_of_asc h hasc]
  have e1 : ∀ (s : Env) (as : List Env) (d : Digest), (Env.node s as d).digest = d := fun _ _ _ => rfl
  have e2 : ∀ (m : EncMsg) (d : Digest), (Env.encrypted m d).digest = d := fun _ _ => rfl
  simp only [e1, e2, ← hd, beq_self_eq_true, ↓reduceIte]
  exact ⟨_, rfl⟩

/-! ### toy instances and sample envelopes for the satisfiability examples -/

/-- a toy hash with 32-byte values that the kernel can evaluate -/
def toyHash : Hash := ⟨fun b => ⟨(b.foldl (fun acc x => acc * 31 + x.toNat + 1) 7) % 2 ^ 256⟩⟩
/-- identity "cipher" -/
def idAead : Aead := ⟨fun _ _ pt _ => (pt, []), fun _ _ ct _ _ => some ct⟩
/-- identity "compressor" -/
def idDeflate : Deflate := ⟨id, some, fun _ => 0⟩

theorem toyHash_valid : ∀ b, (toyHash.H b).Valid := fun _ => Nat.mod_lt _ (by decide)

def sSubj : Env := newLeaf toyHash (.text [0x62])
def sA1 : Env := newAssertion toyHash (newKnownValue toyHash 1) (newLeaf toyHash (.uint 10))
def sA2 : Env := newAssertion toyHash (newLeaf toyHash (.text [0x61])) (newLeaf toyHash (.uint 20))
def sA3 : Env := newAssertion toyHash (newKnownValue toyHash 3) (newWrapped toyHash sA1)
/-- a node with two assertions, listed in ascending digest order -/
def sNode : Env :=
  .node sSubj [sA2, sA1] (toyHash.ofDigests (sSubj.digest :: [sA2, sA1].map Env.digest))

theorem sSubj_inv : Inv toyHash sSubj := by simp [Inv, sSubj, newLeaf]
theorem sA1_inv : Inv toyHash sA1 := by simp [Inv, sA1, newAssertion, newLeaf, newKnownValue]
theorem sA2_inv : Inv toyHash sA2 := by simp [Inv, sA2, newAssertion, newLeaf]
theorem sA3_inv : Inv toyHash sA3 := by
  have := sA1_inv
  simp [Inv, sA3, newAssertion, newWrapped, newKnownValue, this.1, this.2]
theorem sA_slotOk : sA1.slotOk = true ∧ sA2.slotOk = true ∧ sA3.slotOk = true := by
  simp [sA1, sA2, sA3, newAssertion]
theorem sNode_asc : AscDigests [sA2, sA1] := by
  have : sA2.digest.val < sA1.digest.val := by decide +kernel
  simp [AscDigests, this]
theorem sA3_fresh : ∀ x ∈ [sA2, sA1], x.digest ≠ sA3.digest := by
  have h1 : sA2.digest ≠ sA3.digest := by decide +kernel
  have h2 : sA1.digest ≠ sA3.digest := by decide +kernel
  simp [h1, h2]
theorem sNode_eq_mkNode : sNode = mkNode toyHash sSubj [sA2, sA1] := (mkNode_of_asc toyHash sNode_asc).symm
theorem sNode_inv : Inv toyHash sNode := by
  have h1 := sA1_inv; have h2 := sA2_inv; have h0 := sSubj_inv
  have hs := sA_slotOk
  refine ⟨?_, ?_⟩
  · simp [sNode, h1.1, h2.1, h0.1]
  · simp [sNode, h1.2, h2.2, h0.2, sNode_asc, hs]

/-- the sample node with its subject compressed -/
def sNodeC : Env :=
  .node (.compressed (compressedOf idDeflate (encode sSubj)) sSubj.digest) [sA2, sA1] sNode.digest
/-- `sA3` encrypted as a whole element -/
def sEnc : Env :=
  .encrypted (encryptWithDigest idAead [1] [2] (encode sA3) sA3.digest) sA3.digest
/-- `sA1` wrapped and encrypted (`encrypt`) -/
def sEncW : Env :=
  .encrypted (encryptWithDigest idAead [1] [2] (encode (wrap toyHash sA1)) (wrap toyHash sA1).digest)
    (wrap toyHash sA1).digest
def sComp : Env := .compressed (compressedOf idDeflate (encode sA3)) sA3.digest
/-- an encrypted message in the exact shape the decoder accepts -/
def sMsg : EncMsg :=
  { ciphertext := encode sA3, nonce := List.replicate 12 0, auth := List.replicate 16 0,
    aad := (digestCbor sA3.digest).enc }
def sTarget : Digest → Bool := fun d => d == sA1.digest
def sEncAct : Action := .encrypt [1] (fun _ => [2])

theorem sNodeC_inv : Inv toyHash sNodeC := by
  have h1 := sA1_inv; have h2 := sA2_inv
  have hs := sA_slotOk
  have hv : sSubj.digest.Valid := toyHash_valid _
  refine ⟨?_, ?_⟩
  · simp [sNodeC, sNode, h1.1, h2.1, Env.digest]
  · simp [sNodeC, h1.2, h2.2, sNode_asc, hs, hv]
theorem sEnc_inv : Inv toyHash sEnc := by
  have h1 : (encryptWithDigest idAead [1] [2] (encode sA3) sA3.digest).optDigest = some sA3.digest := by
    decide +kernel
  have hv : sA3.digest.Valid := toyHash_valid _
  simp [Inv, sEnc, h1, hv]
theorem sEncW_inv : Inv toyHash sEncW := by
  have h1 : (encryptWithDigest idAead [1] [2] (encode (wrap toyHash sA1)) (wrap toyHash sA1).digest).optDigest
      = some (wrap toyHash sA1).digest := by decide +kernel
  have hv : (wrap toyHash sA1).digest.Valid := toyHash_valid _
  simp [Inv, sEncW, h1, hv]
theorem sComp_inv : Inv toyHash sComp := by
  have hv : sA3.digest.Valid := toyHash_valid _
  simp [Inv, sComp, hv]

theorem sElideSet_ok :
    (∃ r, elideSet toyHash idAead idDeflate sTarget false .elide sNode = .ok r) ∧
    (∃ r, elideSet toyHash idAead idDeflate sTarget false .compress sNode = .ok r) ∧
    (∃ r, elideSet toyHash idAead idDeflate sTarget false sEncAct sNode = .ok r) ∧
    (∃ r, elideSet toyHash idAead idDeflate sTarget true .elide sNode = .ok r) := by
  refine ⟨res_isOk_iff.1 ?_, res_isOk_iff.1 ?_, res_isOk_iff.1 ?_, res_isOk_iff.1 ?_⟩ <;> decide +kernel
theorem sEncryptSubject_ok : ∃ r, encryptSubject toyHash idAead [1] [2] sNode = .ok r := by
  have h1 : (encryptWithDigest idAead [1] [2] (encode sSubj) sSubj.digest).optDigest
      = some sSubj.digest := by decide +kernel
  have h2 : sSubj.isEncrypted = false := by simp [sSubj, newLeaf, isEncrypted]
  unfold sNode
  exact encryptSubject_node_isOk toyHash idAead h2 h1 sNode_asc (by simp) rfl

theorem sEncryptWhole_ok : ∃ r, encryptWhole toyHash idAead [1] [2] sNode = .ok r :=
  res_isOk_iff.1 (by decide +kernel)
theorem sDecodeParts_ok :
    (∃ e, decodeEncrypted (encMsgCbor sMsg) = .ok e) ∧
    (∃ e, decodeCompressed (compMsgCbor (compressedOf idDeflate (encode sA3)) sA3.digest) = .ok e) ∧
    (∃ e, envOfCbor toyHash (cborOf sA3) = .ok e) ∧
    (∃ e, envOfTaggedCbor toyHash (taggedCborOf sA3) = .ok e) := by
  refine ⟨res_isOk_iff.1 ?_, res_isOk_iff.1 ?_, res_isOk_iff.1 ?_, res_isOk_iff.1 ?_⟩ <;> decide +kernel
theorem sDecode_ok : ∃ r, decode toyHash (encode sA3) = .ok r := res_isOk_iff.1 (by decide +kernel)
theorem sUncompress_ok : ∃ r, uncompress toyHash idDeflate sComp = .ok r :=
  res_isOk_iff.1 (by decide +kernel)
theorem sUncompressSubject_ok : ∃ r, uncompressSubject toyHash idDeflate sNodeC = .ok r :=
  res_isOk_iff.1 (by decide +kernel)
theorem sDecryptSubject_ok : ∃ r, decryptSubject toyHash idAead [1] sEnc = .ok r :=
  res_isOk_iff.1 (by decide +kernel)
theorem sDecryptWhole_ok : ∃ r, decryptWhole toyHash idAead [1] sEncW = .ok r :=
  res_isOk_iff.1 (by decide +kernel)

theorem mergeSort_pair_swap (a b : Digest) (hab : b.val < a.val) :
    [a, b].mergeSort (fun x y => decide (x.val ≤ y.val)) = [b, a] := by
  have : ¬ a.val ≤ b.val := by omega
  simp [List.mergeSort, List.MergeSort.Internal.splitInTwo, this]

/-- a node whose cached digest was computed over its assertions in the order given
(descending) instead of ascending: `WF` but not `Canon` -/
def sUnsorted : Env :=
  .node sSubj [sA1, sA2] (toyHash.ofDigests [sSubj.digest, sA1.digest, sA2.digest])

end InvL
end EnvVerif
