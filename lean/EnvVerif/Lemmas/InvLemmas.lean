/-
  Lemmas/InvLemmas.lean — helper lemmas for C01 / C04: unfolding forms of `WF` / `Canon`,
  32-byte validity of decoded digests, facts about `mkNode`, slot preservation under the
  obscuring traversal, the operation language `Op` / `applyOp` / `runHistory`, `erase`,
  and the toy instances used by the satisfiability examples.
-/
import EnvVerif.Lemmas.Basic
namespace EnvVerif
open Env

/-! ### unfolding forms -/

section
variable (h : Hash)

@[simp] theorem WF_node (s : Env) (as : List Env) (d : Digest) :
    WF h (.node s as d) ↔ WF h s ∧ WFList h as ∧ d = h.ofDigests (s.digest :: as.map Env.digest) := by
  simp [WF]
@[simp] theorem WF_leaf (c : Cbor) (d : Digest) : WF h (.leaf c d) ↔ d = h.H c.enc := by simp [WF]
@[simp] theorem WF_wrapped (e : Env) (d : Digest) :
    WF h (.wrapped e d) ↔ WF h e ∧ d = h.ofDigests [e.digest] := by simp [WF]
@[simp] theorem WF_assertion (p o : Env) (d : Digest) :
    WF h (.assertion p o d) ↔ WF h p ∧ WF h o ∧ d = h.ofDigests [p.digest, o.digest] := by simp [WF]
@[simp] theorem WF_elided (d : Digest) : WF h (.elided d) ↔ True := by simp [WF]
@[simp] theorem WF_knownValue (v : Nat) (d : Digest) :
    WF h (.knownValue v d) ↔ d = h.H (knownValueCbor v).enc := by simp [WF]
@[simp] theorem WF_encrypted (m : EncMsg) (d : Digest) :
    WF h (.encrypted m d) ↔ m.optDigest = some d := by simp [WF]
@[simp] theorem WF_compressed (c : CompMsg) (d : Digest) : WF h (.compressed c d) ↔ True := by simp [WF]
@[simp] theorem WFList_nil : WFList h [] ↔ True := by simp [WFList]
@[simp] theorem WFList_cons (a : Env) (as : List Env) : WFList h (a :: as) ↔ WF h a ∧ WFList h as := by
  simp [WFList]
end

@[simp] theorem Canon_node (s : Env) (as : List Env) (d : Digest) :
    Canon (.node s as d) ↔
      Canon s ∧ CanonList as ∧ as ≠ [] ∧ AscDigests as ∧ (∀ a ∈ as, a.slotOk = true) := by
  simp [Canon]
@[simp] theorem Canon_leaf (c : Cbor) (d : Digest) : Canon (.leaf c d) ↔ True := by simp [Canon]
@[simp] theorem Canon_wrapped (e : Env) (d : Digest) : Canon (.wrapped e d) ↔ Canon e := by simp [Canon]
@[simp] theorem Canon_assertion (p o : Env) (d : Digest) :
    Canon (.assertion p o d) ↔ Canon p ∧ Canon o := by simp [Canon]
@[simp] theorem Canon_elided (d : Digest) : Canon (.elided d) ↔ d.Valid := by simp [Canon]
@[simp] theorem Canon_knownValue (v : Nat) (d : Digest) : Canon (.knownValue v d) ↔ True := by simp [Canon]
@[simp] theorem Canon_encrypted (m : EncMsg) (d : Digest) : Canon (.encrypted m d) ↔ d.Valid := by
  simp [Canon]
@[simp] theorem Canon_compressed (c : CompMsg) (d : Digest) : Canon (.compressed c d) ↔ d.Valid := by
  simp [Canon]
@[simp] theorem CanonList_nil : CanonList [] ↔ True := by simp [CanonList]
@[simp] theorem CanonList_cons (a : Env) (as : List Env) :
    CanonList (a :: as) ↔ Canon a ∧ CanonList as := by simp [CanonList]

/-! ### 32-byte facts -/

theorem beNat_foldl_lt (b : Bytes) :
    ∀ acc : Nat, b.foldl (fun acc x => acc * 256 + x.toNat) acc < (acc + 1) * 256 ^ b.length := by
  induction b with
  | nil => intro acc; simp
  | cons x xs ih =>
    intro acc
    have h1 := ih (acc * 256 + x.toNat)
    have hx : x.toNat < 256 := UInt8.toNat_lt x
    have h2 : (acc * 256 + x.toNat + 1) * 256 ^ xs.length ≤ ((acc + 1) * 256) * 256 ^ xs.length :=
      Nat.mul_le_mul_right _ (by omega)
    simp only [List.foldl_cons, List.length_cons, Nat.pow_succ]
    calc _ < _ := h1
      _ ≤ _ := h2
      _ = _ := by rw [Nat.mul_assoc, Nat.mul_comm 256]

theorem beNat_lt (b : Bytes) : beNat b < 256 ^ b.length := by
  have := beNat_foldl_lt b 0
  simpa [beNat] using this

theorem ofBytes_valid {b : Bytes} {d : Digest} (hd : Digest.ofBytes? b = some d) : d.Valid := by
  unfold Digest.ofBytes? at hd
  split at hd
  · rename_i hl
    injection hd with hd
    subst hd
    have := beNat_lt b
    rw [hl] at this
    simpa [Digest.Valid] using this
  · cases hd

theorem digestOfCbor_valid {c : Cbor} {d : Digest} (hd : digestOfCbor? c = some d) : d.Valid := by
  unfold digestOfCbor? at hd
  split at hd
  · split at hd
    · exact ofBytes_valid hd
    · cases hd
  · cases hd

theorem optDigest_valid {m : EncMsg} {d : Digest} (hd : m.optDigest = some d) : d.Valid := by
  unfold EncMsg.optDigest at hd
  split at hd
  · exact digestOfCbor_valid hd
  · cases hd

theorem beBytes_length (n v : Nat) : (beBytes n v).length = n := by
  induction n generalizing v with
  | zero => simp [beBytes]
  | succ n ih => simp [beBytes, ih]

@[simp] theorem Digest.bytes_length (d : Digest) : d.bytes.length = 32 := beBytes_length 32 d.val

/-! ### digests of invariant-satisfying envelopes are 32-byte values -/

theorem digest_valid {h : Hash} (hH : ∀ b, (h.H b).Valid) {e : Env} (hw : WF h e) (hc : Canon e) :
    e.digest.Valid := by
  cases e with
  | node s as d => simp only [WF_node] at hw; rw [Env.digest, hw.2.2]; exact hH _
  | leaf c d => simp only [WF_leaf] at hw; rw [Env.digest, hw]; exact hH _
  | wrapped e d => simp only [WF_wrapped] at hw; rw [Env.digest, hw.2]; exact hH _
  | assertion p o d => simp only [WF_assertion] at hw; rw [Env.digest, hw.2.2]; exact hH _
  | elided d => simpa [Env.digest] using hc
  | knownValue v d => simp only [WF_knownValue] at hw; rw [Env.digest, hw]; exact hH _
  | encrypted m d => simpa [Env.digest] using hc
  | compressed c d => simpa [Env.digest] using hc

/-! ### subject / assertions -/

theorem subject_wf {h : Hash} {e : Env} (hw : WF h e) : WF h e.subject := by
  cases e <;> simp_all [Env.subject]

theorem subject_canon {e : Env} (hc : Canon e) : Canon e.subject := by
  cases e <;> simp_all [Env.subject]

theorem assertions_wf {h : Hash} {e : Env} (hw : WF h e) : WFList h e.assertions := by
  cases e <;> simp_all [Env.assertions]

theorem assertions_canon {e : Env} (hc : Canon e) : CanonList e.assertions := by
  cases e <;> simp_all [Env.assertions]

theorem assertions_asc {e : Env} (hc : Canon e) : AscDigests e.assertions := by
  cases e <;> simp_all [Env.assertions, AscDigests]

theorem assertions_slotOk {e : Env} (hc : Canon e) : ∀ a ∈ e.assertions, a.slotOk = true := by
  cases e <;> simp_all [Env.assertions]

/-! ### `mkNode`, `newNodeUnchecked`, `newNode` -/

theorem Digest.ext {a b : Digest} (hv : a.val = b.val) : a = b := by
  cases a; cases b; simp_all

/-- digests pairwise distinct -/
def DistinctDigests (as : List Env) : Prop := as.Pairwise (fun a b => a.digest ≠ b.digest)

theorem AscDigests.distinct {as : List Env} (hs : AscDigests as) : DistinctDigests as :=
  List.Pairwise.imp (fun {a b} hab heq => by rw [heq] at hab; exact Nat.lt_irrefl _ hab) hs

theorem AscDigests.sublist {as bs : List Env} (hs : AscDigests as) (hsub : bs.Sublist as) :
    AscDigests bs := List.Pairwise.sublist hsub hs

theorem sortByDigest_asc {as : List Env} (hd : DistinctDigests as) : AscDigests (sortByDigest as) := by
  have h1 := sortByDigest_sorted as
  have h2 : DistinctDigests (sortByDigest as) :=
    ((sortByDigest_perm as).pairwise_iff (fun {a b} hab => fun heq => hab heq.symm)).2 hd
  refine (h1.and h2).imp ?_
  intro a b ⟨hle, hne⟩
  simp only [digestLe, decide_eq_true_eq] at hle
  have : a.digest.val ≠ b.digest.val := fun hv => hne (Digest.ext hv)
  omega

/-- an ascending list stays ascending (as a digest sequence) under any digest-preserving
elementwise replacement -/
theorem AscDigests.of_map_eq {as bs : List Env} (hs : AscDigests as)
    (hm : bs.map Env.digest = as.map Env.digest) : AscDigests bs := by
  have h1 : (as.map Env.digest).Pairwise (fun a b => a.val < b.val) := by
    rw [List.pairwise_map]; exact hs
  rw [← hm, List.pairwise_map] at h1
  exact h1

section
variable (h : Hash)

theorem mkNode_wf {s : Env} {as : List Env} : WF h (mkNode h s as) ↔ WF h s ∧ WFList h as := by
  simp only [mkNode, WF_node, and_true, WFList_iff]
  constructor
  · rintro ⟨hs, has⟩; exact ⟨hs, fun a ha => has a (mem_sortByDigest.2 ha)⟩
  · rintro ⟨hs, has⟩; exact ⟨hs, fun a ha => has a (mem_sortByDigest.1 ha)⟩

theorem mkNode_canon {s : Env} {as : List Env} (hs : Canon s) (has : CanonList as) (hne : as ≠ [])
    (hd : DistinctDigests as) (hslot : ∀ a ∈ as, a.slotOk = true) : Canon (mkNode h s as) := by
  simp only [mkNode, Canon_node, CanonList_iff]
  refine ⟨hs, ?_, ?_, sortByDigest_asc hd, ?_⟩
  · intro a ha; exact (CanonList_iff as).1 has a (mem_sortByDigest.1 ha)
  · intro hnil; exact hne (sortByDigest_eq_nil.1 hnil)
  · intro a ha; exact hslot a (mem_sortByDigest.1 ha)

/-- on an already ascending list `mkNode` keeps the list as it is -/
theorem mkNode_of_asc {s : Env} {as : List Env} (hs : AscDigests as) :
    mkNode h s as = .node s as (h.ofDigests (s.digest :: as.map Env.digest)) := by
  simp only [mkNode, sortByDigest_of_asc hs]

theorem newNodeUnchecked_ok {s : Env} {as : List Env} {r : Env} :
    newNodeUnchecked h s as = .ok r ↔ as ≠ [] ∧ r = mkNode h s as := by
  unfold newNodeUnchecked
  cases as with
  | nil => simp
  | cons a as => simp [eq_comm]

theorem newNode_ok {s : Env} {as : List Env} {r : Env} :
    newNode h s as = .ok r ↔ (∀ a ∈ as, a.slotOk = true) ∧ as ≠ [] ∧ r = mkNode h s as := by
  unfold newNode
  split
  · rename_i hall
    rw [newNodeUnchecked_ok]
    simp only [List.all_eq_true] at hall
    exact ⟨fun hx => ⟨hall, hx⟩, fun hx => hx.2⟩
  · rename_i hall
    simp only [List.all_eq_true] at hall
    constructor
    · intro hx; cases hx
    · intro hx; exact absurd hx.1 hall

end

end EnvVerif
