/-
  Lemmas/RecipientLaws.lean — the idealised interfaces that the theorems of C10
  (public-key recipients) and C11 (SSKR) are relative to, and toy instances for which the
  laws are *proved* (so the hypotheses are satisfiable and the examples compute).

  * `KemLaws K S` — `K : Kem` is the opening side used by the model
    (`Model/Recipient.lean`), `S : Sealer` the sealing side (`sealTo k p r` = the
    `SealedMessage::new_opt(p, recipient k, ..)` made with randomness `r`; key ids double as
    public-key ids): what is sealed to `k` opens under `k` to the plaintext, opens under no
    other key, is a readable `SealedMessage` (`#6.40019(..)`) and carries the scheme of `k`.
  * `SskrLaws S shares quorum secret ident` — `shares` are the shares (all groups,
    flattened) of *one* split of `secret` under a policy whose verdict on a list of shares
    is `quorum`: every share is a readable `SSKRShare` (`#6.40309(bytes)`, at least the 5
    metadata bytes), all carry the identifier `ident`, and for a list `sub` of shares of
    the split: `combine sub = some secret` when `sub` is duplicate-free and `quorum sub`,
    `none` otherwise (`sskr_combine` refuses a repeated member index).
  (`seal`, `unseal`, `sealed` are reserved words of this Lean version, hence `sealTo`,
  `unsealMsg`, `sealedMsg`.)
-/
import EnvVerif.Model.Recipient
import EnvVerif.Lemmas.Laws
namespace EnvVerif
open Env

/-! ### sealed messages -/

/-- the sealing side: `sealTo k p r` = the sealed message for recipient `k` with plaintext
`p`, made with the sender's randomness `r` -/
structure Sealer where
  sealTo : Nat → Bytes → Nat → Cbor

structure KemLaws (K : Kem) (S : Sealer) : Prop where
  /-- a sealed message is a readable `SealedMessage` -/
  tagged : ∀ k p r, ∃ x, S.sealTo k p r = .tagged TAG_SEALED_MESSAGE x
  /-- it carries the encapsulation scheme of the recipient's key -/
  scheme : ∀ k p r, K.schemeOfSealed (S.sealTo k p r) = K.schemeOfKey k
  /-- correctness -/
  unseal_seal : ∀ k p r, K.unsealMsg k (S.sealTo k p r) = some p
  /-- only the recipient's key opens it -/
  unseal_only : ∀ k k' p r q, K.unsealMsg k' (S.sealTo k p r) = some q → k' = k

/-! ### SSKR -/

structure SskrLaws (S : Sskr) (shares : List Cbor) (quorum : List Cbor → Bool) (secret : Bytes)
    (ident : Nat) : Prop where
  /-- every share is a readable `SSKRShare` holding at least the 5 metadata bytes -/
  shape : ∀ s ∈ shares, ∃ b, s = .tagged TAG_SSKR_SHARE (.bytes b) ∧ 5 ≤ b.length
  /-- all shares of one split carry one identifier -/
  ident_eq : ∀ s ∈ shares, S.identifier s = ident
  /-- no shares, no quorum -/
  quorum_nil : quorum [] = false
  /-- a duplicate-free list of shares of the split combines to the secret exactly when it
  satisfies the policy -/
  combine_nodup : ∀ sub, sub.Nodup → (∀ s ∈ sub, s ∈ shares) →
    S.combine sub = if quorum sub then some secret else none
  /-- a repeated share is refused (`DuplicateMemberIndex`) -/
  combine_dup : ∀ sub, ¬ sub.Nodup → (∀ s ∈ sub, s ∈ shares) → S.combine sub = none

namespace SskrLaws
variable {S : Sskr} {shares : List Cbor} {quorum : List Cbor → Bool} {secret : Bytes} {ident : Nat}

/-- `combine sub = some secret ↔ duplicate-free ∧ quorum`, and `none` otherwise -/
theorem combine_iff (L : SskrLaws S shares quorum secret ident) (sub : List Cbor)
    (hs : ∀ s ∈ sub, s ∈ shares) :
    (S.combine sub = some secret ↔ (sub.Nodup ∧ quorum sub = true)) ∧
      (¬ (sub.Nodup ∧ quorum sub = true) → S.combine sub = none) := by
  by_cases hn : sub.Nodup
  · rw [L.combine_nodup sub hn hs]
    cases quorum sub <;> simp [hn]
  · rw [L.combine_dup sub hn hs]
    simp [hn]

end SskrLaws

/-! ### toy instances -/
namespace ToyRec
open ToyDeps

/-- sealed message = `#6.40019([recipient, randomness, plaintext])` -/
def sealer : Sealer := ⟨fun k p r => .tagged TAG_SEALED_MESSAGE (.array [.uint k, .uint r, .bytes p])⟩

/-- two encapsulation schemes: the parity of the key id -/
def kem : Kem where
  unsealMsg key s :=
    match s with
    | .tagged t (.array [.uint k, .uint _, .bytes p]) =>
      if t == TAG_SEALED_MESSAGE && k == key then some p else none
    | _ => none
  schemeOfSealed s :=
    match s with
    | .tagged _ (.array (.uint k :: _)) => k % 2
    | _ => 2
  schemeOfKey k := k % 2

theorem kem_laws : KemLaws kem sealer where
  tagged := fun _ _ _ => ⟨_, rfl⟩
  scheme := fun _ _ _ => rfl
  unseal_seal := by
    intro k p r
    simp [kem, sealer]
  unseal_only := by
    intro k k' p r q hq
    simp only [kem, sealer, beq_self_eq_true, Bool.true_and, beq_iff_eq] at hq
    split at hq
    · rename_i hk; exact hk.symm
    · cases hq

/-! #### SSKR: two-level threshold sharing with the secret in the clear -/

structure ShareFields where
  ident : Nat
  gt : Nat        -- group threshold
  gi : Nat        -- group index
  mt : Nat        -- member threshold of the group
  mi : Nat        -- member index
  secret : Bytes
  deriving DecidableEq, Repr

/-- a number as a byte string (its length) -/
def num (n : Nat) : Bytes := List.replicate n 0

/-- five metadata bytes (unused by the toy), then the framed fields, then the secret -/
def shareBytes (f : ShareFields) : Bytes :=
  0 :: 0 :: 0 :: 0 :: 0 :: pack (num f.ident) (pack (num f.gt) (pack (num f.gi) (pack (num f.mt)
    (pack (num f.mi) f.secret))))

def share (f : ShareFields) : Cbor := .tagged TAG_SSKR_SHARE (.bytes (shareBytes f))

def fieldsOfBytes : Bytes → Option ShareFields
  | _ :: _ :: _ :: _ :: _ :: b =>
    let u1 := unpack b
    let u2 := unpack u1.2
    let u3 := unpack u2.2
    let u4 := unpack u3.2
    let u5 := unpack u4.2
    some ⟨u1.1.length, u2.1.length, u3.1.length, u4.1.length, u5.1.length, u5.2⟩
  | _ => none

def fields : Cbor → Option ShareFields
  | .tagged _ (.bytes b) => fieldsOfBytes b
  | _ => none

theorem fields_share (f : ShareFields) : fields (share f) = some f := by
  cases f
  simp [fields, share, shareBytes, fieldsOfBytes, unpack_pack, num]

/-- the policy on parsed shares: at least `gt` groups reach their member threshold -/
def quorumF (fs : List ShareFields) : Bool :=
  match fs with
  | [] => false
  | f :: _ =>
    decide (f.gt ≤ ((fs.map (·.gi)).eraseDups.filter fun g =>
      fs.any fun x => x.gi == g && decide (x.mt ≤ (fs.filter (·.gi == g)).length)).length)

def quorum (sub : List Cbor) : Bool := quorumF (sub.filterMap fields)

def combine (sub : List Cbor) : Option Bytes :=
  let fs := sub.filterMap fields
  match fs with
  | [] => none
  | f :: _ =>
    if fs.length = sub.length ∧
        (∀ x ∈ fs, x.ident = f.ident ∧ x.gt = f.gt ∧ x.secret = f.secret) ∧
        (sub.filterMap shareBytes?).Nodup ∧ quorumF fs = true
    then some f.secret else none

def sskr : Sskr where
  combine := combine
  identifier s := match fields s with
    | some f => f.ident
    | none => 0

/-- a policy: the group threshold and, per group, (member threshold, member count) -/
structure Spec where
  groupThreshold : Nat
  groups : List (Nat × Nat)

/-- all shares (flattened) of the split of `secret` under `spec` with identifier `ident` -/
def shares (ident : Nat) (spec : Spec) (secret : Bytes) : List Cbor :=
  spec.groups.zipIdx.flatMap fun g =>
    (List.range g.1.2).map fun mi => share ⟨ident, spec.groupThreshold, g.2, g.1.1, mi, secret⟩

theorem mem_shares {ident : Nat} {spec : Spec} {secret : Bytes} {s : Cbor}
    (hs : s ∈ shares ident spec secret) :
    ∃ f : ShareFields, s = share f ∧ f.ident = ident ∧ f.gt = spec.groupThreshold ∧ f.secret = secret := by
  simp only [shares, List.mem_flatMap, List.mem_map] at hs
  obtain ⟨g, _, mi, _, rfl⟩ := hs
  exact ⟨_, rfl, rfl, rfl, rfl⟩

/-- on a list of readable shares, the byte strings are duplicate-free iff the shares are -/
theorem nodup_bytes_iff : ∀ (l : List Cbor),
    (∀ s ∈ l, ∃ b, s = Cbor.tagged TAG_SSKR_SHARE (.bytes b)) →
    ((l.filterMap shareBytes?).Nodup ↔ l.Nodup)
  | [], _ => by simp
  | s :: l, hl => by
    obtain ⟨b, rfl⟩ := hl _ List.mem_cons_self
    have ih := nodup_bytes_iff l (fun s hs => hl s (List.mem_cons_of_mem _ hs))
    have hm : b ∈ l.filterMap shareBytes? ↔ Cbor.tagged TAG_SSKR_SHARE (.bytes b) ∈ l := by
      constructor
      · intro hb
        obtain ⟨s', hs', hb'⟩ := List.mem_filterMap.1 hb
        obtain ⟨b', rfl⟩ := hl s' (List.mem_cons_of_mem _ hs')
        simp only [shareBytes?, Option.some.injEq] at hb'
        subst hb'
        exact hs'
      · intro hs
        exact List.mem_filterMap.2 ⟨_, hs, rfl⟩
    simp only [List.filterMap_cons, shareBytes?, List.nodup_cons, hm, ih]

theorem filterMap_fields_of_shares {ident : Nat} {spec : Spec} {secret : Bytes} :
    ∀ (sub : List Cbor), (∀ s ∈ sub, s ∈ shares ident spec secret) →
      (sub.filterMap fields).length = sub.length ∧
      ∀ x ∈ sub.filterMap fields, x.ident = ident ∧ x.gt = spec.groupThreshold ∧ x.secret = secret
  | [], _ => by simp
  | s :: sub, hs => by
    obtain ⟨f, rfl, h1, h2, h3⟩ := mem_shares (hs _ List.mem_cons_self)
    obtain ⟨ih1, ih2⟩ := filterMap_fields_of_shares sub (fun s h => hs s (List.mem_cons_of_mem _ h))
    simp only [List.filterMap_cons, fields_share, List.length_cons, ih1, List.mem_cons, true_and]
    rintro x (rfl | hx)
    · exact ⟨h1, h2, h3⟩
    · exact ih2 x hx

theorem sskr_laws (ident : Nat) (spec : Spec) (secret : Bytes) :
    SskrLaws sskr (shares ident spec secret) quorum secret ident where
  shape := by
    intro s hs
    obtain ⟨f, rfl, _⟩ := mem_shares hs
    exact ⟨_, rfl, by simp [shareBytes]⟩
  ident_eq := by
    intro s hs
    obtain ⟨f, rfl, hf, _⟩ := mem_shares hs
    simp [sskr, fields_share, hf]
  quorum_nil := rfl
  combine_nodup := by
    intro sub hn hs
    obtain ⟨hlen, hall⟩ := filterMap_fields_of_shares sub hs
    have hshape : ∀ s ∈ sub, ∃ b, s = Cbor.tagged TAG_SSKR_SHARE (.bytes b) := by
      intro s h
      obtain ⟨f, rfl, _⟩ := mem_shares (hs s h)
      exact ⟨_, rfl⟩
    have hnb := (nodup_bytes_iff sub hshape).2 hn
    show combine sub = _
    unfold combine quorum
    cases hfs : sub.filterMap fields with
    | nil => rfl
    | cons f fs =>
      rw [hfs] at hlen hall
      have hf := hall f List.mem_cons_self
      have hcons : ∀ x ∈ f :: fs, x.ident = f.ident ∧ x.gt = f.gt ∧ x.secret = f.secret := by
        intro x hx
        obtain ⟨a, b, c⟩ := hall x hx
        exact ⟨a.trans hf.1.symm, b.trans hf.2.1.symm, c.trans hf.2.2.symm⟩
      dsimp only
      cases hq : quorumF (f :: fs) with
      | false =>
        rw [if_neg (by rintro ⟨_, _, _, hx⟩; cases hx)]
        simp
      | true =>
        rw [if_pos ⟨hlen, hcons, hnb, rfl⟩]
        simp [hf.2.2]
  combine_dup := by
    intro sub hn hs
    have hshape : ∀ s ∈ sub, ∃ b, s = Cbor.tagged TAG_SSKR_SHARE (.bytes b) := by
      intro s h
      obtain ⟨f, rfl, _⟩ := mem_shares (hs s h)
      exact ⟨_, rfl⟩
    have hnb : ¬ (sub.filterMap shareBytes?).Nodup := fun h => hn ((nodup_bytes_iff sub hshape).1 h)
    show combine sub = none
    unfold combine
    cases hfs : sub.filterMap fields with
    | nil => rfl
    | cons f fs => simp [hnb]

/-- a hash with 32-byte values that the kernel can evaluate and that separates the sample
envelopes of the examples -/
def hash : Hash := ⟨fun b => ⟨(b.foldl (fun acc x => acc * 31 + x.toNat + 1) 7) % 2 ^ 256⟩⟩

theorem hash_valid (b : Bytes) : (hash.H b).Valid := Nat.mod_lt _ (by decide)

end ToyRec
end EnvVerif
