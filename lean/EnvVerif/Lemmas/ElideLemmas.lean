/-
  Lemmas/ElideLemmas.lean — helper lemmas for C02 / C03: unfolding and inversion of
  `elideSet`, facts about `obscure`, the list traversal as a `Forall₂`, stability of the
  assertion order, digest preservation.
-/
import EnvVerif.Lemmas.Paths
namespace EnvVerif
open Env

/-! ### hypotheses about the encrypt action -/

/-- The one codec fact `Envelope::new_with_encrypted(..).unwrap()` relies on: a message
whose additional data is the tagged-CBOR encoding of `d` declares the digest `d`.  It
follows from `Cbor.dec? (digestCbor d).enc = some (digestCbor d)` (a C05 codec law) for
every 32-byte digest (`d.Valid`); it is *false* in the model for `d.val ≥ 2^256`, which is
why it is not assumed for every `d`. -/
def AadOk (d : Digest) : Prop :=
  ∀ m : EncMsg, m.aad = (digestCbor d).enc → m.optDigest = some d

/-- the codec fact for every 32-byte digest -/
def AadLaw : Prop := ∀ d : Digest, d.Valid → AadOk d

/-- the hash function returns 32 bytes -/
def HashValid (h : Hash) : Prop := ∀ b, (h.H b).Valid

/-- what an action needs in order to behave on (every element of) `e`: nothing for
`elide` and `compress`; for `encrypt` the codec fact at every digest occurring in `e` -/
def ActOk : Action → Env → Prop
  | .encrypt _ _, e => ∀ p x, e.at p = some x → AadOk x.digest
  | _, _ => True

theorem ActOk.child {act : Action} {e c : Env} {s : Step} (ha : ActOk act e)
    (hc : e.child s = some c) : ActOk act c := by
  cases act with
  | encrypt k n =>
    intro p x hx
    apply ha (s :: p) x
    simp [Env.at_cons, hc, hx]
  | _ => trivial

theorem ActOk.root {k n} {e : Env} (ha : ActOk (.encrypt k n) e) : AadOk e.digest :=
  ha [] e rfl

theorem ActOk.mem {act : Action} {s : Env} {as : List Env} {d : Digest} {a : Env}
    (ha : ActOk act (.node s as d)) (hm : a ∈ as) : ActOk act a := by
  obtain ⟨i, hi, rfl⟩ := List.getElem_of_mem hm
  exact ha.child (s := .assertion i) (by simp [Env.child, hi])

/-! ### every digest of an `Inv` envelope is valid when the hash is -/

theorem Inv.digest_valid {h : Hash} (hH : HashValid h) {e : Env} (hi : Inv h e) : e.digest.Valid := by
  obtain ⟨hw, hc⟩ := hi
  cases e with
  | node s as d => simp only [WF] at hw; rw [Env.digest, hw.2.2]; exact hH _
  | leaf c d => simp only [WF] at hw; rw [Env.digest, hw]; exact hH _
  | wrapped e d => simp only [WF] at hw; rw [Env.digest, hw.2]; exact hH _
  | assertion p o d => simp only [WF] at hw; rw [Env.digest, hw.2.2]; exact hH _
  | elided d => simpa [Canon, Env.digest] using hc
  | knownValue v d => simp only [WF] at hw; rw [Env.digest, hw]; exact hH _
  | encrypted m d => simpa [Canon, Env.digest] using hc
  | compressed c d => simpa [Canon, Env.digest] using hc

theorem Inv.child {h : Hash} {e c : Env} {s : Step} (hi : Inv h e) (hc : e.child s = some c) :
    Inv h c := by
  obtain ⟨hw, hk⟩ := hi
  cases e <;> cases s <;> simp only [Env.child, reduceCtorEq] at hc
  case node.subj s as d =>
    cases hc; simp only [WF, Canon] at hw hk; exact ⟨hw.1, hk.1⟩
  case node.assertion s as d i =>
    simp only [WF, Canon] at hw hk
    have hm := List.mem_of_getElem? hc
    exact ⟨(WFList_iff h as).mp hw.2.1 c hm, (CanonList_iff as).mp hk.2.1 c hm⟩
  case wrapped.inner e d =>
    cases hc; simp only [WF, Canon] at hw hk; exact ⟨hw.1, hk⟩
  case assertion.pred p o d =>
    cases hc; simp only [WF, Canon] at hw hk; exact ⟨hw.1, hk.1⟩
  case assertion.obj p o d =>
    cases hc; simp only [WF, Canon] at hw hk; exact ⟨hw.2.1, hk.2⟩

theorem Inv.at {h : Hash} {e x : Env} {p : Path} (hi : Inv h e) (hx : e.at p = some x) : Inv h x := by
  induction p generalizing e with
  | nil => simp at hx; exact hx ▸ hi
  | cons s p ih =>
    rw [Env.at_cons] at hx
    cases hc : e.child s with
    | none => simp [hc] at hx
    | some c => simp [hc] at hx; exact ih (hi.child hc) hx

/-- `ActOk` from the named laws -/
theorem ActOk.of_laws {h : Hash} (hAad : AadLaw) (hH : HashValid h) {e : Env} (hi : Inv h e)
    (act : Action) : ActOk act e := by
  cases act with
  | encrypt k n => intro p x hx; exact hAad _ ((hi.at hx).digest_valid hH)
  | _ => trivial

end EnvVerif

namespace EnvVerif
open Env

section
variable (h : Hash) (A : Aead) (Z : Deflate)

/-! ### `elide`, `compress`, `obscure` -/

theorem elide_eq (e : Env) : elide e = .elided e.digest := by cases e <;> rfl

theorem obscure_elide (e : Env) : obscure A Z .elide e = .ok (.elided e.digest) := by
  simp only [obscure, elide_eq]

theorem compress_ok_digest {e r : Env} (hr : compress Z e = .ok r) : r.digest = e.digest := by
  cases e <;> simp only [compress, Res.ok.injEq, reduceCtorEq] at hr <;> subst hr <;> rfl

theorem compress_ok_isCompressed {e r : Env} (hr : compress Z e = .ok r) : r.isCompressed = true := by
  cases e <;> simp only [compress, Res.ok.injEq, reduceCtorEq] at hr <;> subst hr <;> rfl

theorem compress_ok_iff (e : Env) :
    (∃ r, compress Z e = .ok r) ↔ (e.isElided = false ∧ e.isEncrypted = false) := by
  cases e <;> simp [compress, Env.isElided, Env.isEncrypted]

theorem compress_not_panic (e : Env) (s : String) : compress Z e ≠ .panic s := by
  cases e <;> simp [compress]

/-- `self.compress().unwrap_or_else(|_| self.clone())`: the compressed form, or the element
itself when it is already elided or encrypted -/
def compressOrSelf (e : Env) : Env :=
  match compress Z e with
  | .ok c => c
  | _ => e

theorem compressOrSelf_digest (e : Env) : (compressOrSelf Z e).digest = e.digest := by
  unfold compressOrSelf
  cases hc : compress Z e with
  | ok c => exact compress_ok_digest Z hc
  | _ => rfl

theorem compressOrSelf_isObscured (e : Env) : (compressOrSelf Z e).isObscured = true := by
  cases e <;> rfl

theorem obscure_compress (e : Env) : obscure A Z .compress e = .ok (compressOrSelf Z e) := by
  cases e <;> rfl

theorem encryptWithDigest_aad (k n pt : Bytes) (d : Digest) :
    (encryptWithDigest A k n pt d).aad = (digestCbor d).enc := rfl

theorem newEncryptedUnwrap_ok_of {m : EncMsg} {d : Digest} (hm : m.optDigest = some d) (site : String) :
    newEncryptedUnwrap m site = .ok (.encrypted m d) := by
  simp only [newEncryptedUnwrap, hm]

theorem newEncryptedUnwrap_ok_inv {m : EncMsg} {site : String} {r : Env}
    (hr : newEncryptedUnwrap m site = .ok r) : ∃ d, m.optDigest = some d ∧ r = .encrypted m d := by
  unfold newEncryptedUnwrap at hr
  split at hr
  · rename_i d hd; cases hr; exact ⟨d, hd, rfl⟩
  · cases hr

theorem newEncryptedUnwrap_not_err (m : EncMsg) (site x : String) :
    newEncryptedUnwrap m site ≠ .err x := by
  unfold newEncryptedUnwrap; split <;> simp

/-- what the action puts in the place of a hit element `y` -/
def IsPlaceholder (act : Action) (y x : Env) : Prop :=
  match act with
  | .elide => x = .elided y.digest
  | .compress => x = compressOrSelf Z y
  | .encrypt k n => x = .encrypted (encryptWithDigest A k (n y.digest) (encode y) y.digest) y.digest

theorem IsPlaceholder.digest {act : Action} {y x : Env} (hp : IsPlaceholder A Z act y x) :
    x.digest = y.digest := by
  cases act with
  | elide => simp only [IsPlaceholder] at hp; subst hp; rfl
  | compress => simp only [IsPlaceholder] at hp; subst hp; exact compressOrSelf_digest Z y
  | encrypt k n => simp only [IsPlaceholder] at hp; subst hp; rfl

theorem IsPlaceholder.isObscured {act : Action} {y x : Env} (hp : IsPlaceholder A Z act y x) :
    x.isObscured = true := by
  cases act with
  | elide => simp only [IsPlaceholder] at hp; subst hp; rfl
  | compress => simp only [IsPlaceholder] at hp; subst hp; exact compressOrSelf_isObscured Z y
  | encrypt k n => simp only [IsPlaceholder] at hp; subst hp; rfl

/-- the hypothesis an action needs at the single element it is applied to -/
def ActOkAt : Action → Digest → Prop
  | .encrypt _ _, d => AadOk d
  | _, _ => True

theorem ActOk.at_root {act : Action} {e : Env} (ha : ActOk act e) : ActOkAt act e.digest := by
  cases act with
  | encrypt k n => exact ha.root
  | _ => trivial

theorem obscure_encrypt_ok (k : Bytes) (n : Digest → Bytes) (e : Env) (ha : AadOk e.digest) :
    obscure A Z (.encrypt k n) e =
      .ok (.encrypted (encryptWithDigest A k (n e.digest) (encode e) e.digest) e.digest) := by
  simp only [obscure]
  exact newEncryptedUnwrap_ok_of (ha _ (encryptWithDigest_aad A ..)) _

theorem obscure_ok_placeholder {act : Action} {e r : Env} (ha : ActOkAt act e.digest)
    (hr : obscure A Z act e = .ok r) : IsPlaceholder A Z act e r := by
  cases act with
  | elide => rw [obscure_elide] at hr; cases hr; rfl
  | compress => rw [obscure_compress] at hr; cases hr; rfl
  | encrypt k n =>
    rw [obscure_encrypt_ok A Z k n e ha] at hr; cases hr; rfl

theorem placeholder_obscure_ok {act : Action} {e r : Env} (ha : ActOkAt act e.digest)
    (hp : IsPlaceholder A Z act e r) : obscure A Z act e = .ok r := by
  cases act with
  | elide => simp only [IsPlaceholder] at hp; subst hp; exact obscure_elide A Z e
  | compress => simp only [IsPlaceholder] at hp; subst hp; exact obscure_compress A Z e
  | encrypt k n => simp only [IsPlaceholder] at hp; subst hp; exact obscure_encrypt_ok A Z k n e ha

theorem obscure_ok_digest {act : Action} {e r : Env} (ha : ActOkAt act e.digest)
    (hr : obscure A Z act e = .ok r) : r.digest = e.digest :=
  (obscure_ok_placeholder A Z ha hr).digest

theorem obscure_ok_isObscured {act : Action} {e r : Env} (hr : obscure A Z act e = .ok r) :
    r.isObscured = true := by
  cases act with
  | elide => rw [obscure_elide] at hr; cases hr; rfl
  | compress => exact (obscure_ok_placeholder A Z (act := .compress) trivial hr).isObscured
  | encrypt k n =>
    simp only [obscure] at hr
    obtain ⟨d, _, rfl⟩ := newEncryptedUnwrap_ok_inv hr
    rfl

theorem obscure_not_err (act : Action) (e : Env) (x : String) : obscure A Z act e ≠ .err x := by
  cases act with
  | elide => simp [obscure]
  | compress => simp [obscure_compress]
  | encrypt k n => simp only [obscure]; exact newEncryptedUnwrap_not_err _ _ _

/-- the action succeeds on every element (for `encrypt`: given the codec fact at its digest) -/
theorem obscure_ok_of {act : Action} {e : Env} (ha : ActOkAt act e.digest) :
    ∃ r, obscure A Z act e = .ok r := by
  cases act with
  | elide => exact ⟨_, obscure_elide A Z e⟩
  | compress => exact ⟨_, obscure_compress A Z e⟩
  | encrypt k n => exact ⟨_, obscure_encrypt_ok A Z k n e ha⟩

end
end EnvVerif

namespace EnvVerif
open Env

section
variable (h : Hash) (A : Aead) (Z : Deflate) (T : Digest → Bool) (rev : Bool) (act : Action)

/-! ### unfolding and inversion of `elideSet` -/

/-- an element that is hit is handed to the action -/
theorem elideSet_hit {e : Env} (hh : (T e.digest != rev) = true) :
    elideSet h A Z T rev act e = obscure A Z act e := by
  cases e <;> simp only [Env.digest] at hh <;> simp only [elideSet, Env.digest, hh, if_true]

/-- an element without children that is not hit is returned as it is -/
theorem elideSet_miss_of_child_none {e : Env} (hc : ∀ s, e.child s = none)
    (hh : (T e.digest != rev) = false) : elideSet h A Z T rev act e = .ok e := by
  cases e with
  | node s as d => have := hc .subj; simp [Env.child] at this
  | wrapped e d => have := hc .inner; simp [Env.child] at this
  | assertion p o d => have := hc .pred; simp [Env.child] at this
  | _ => simp only [Env.digest] at hh; simp [elideSet, Env.digest, hh]

theorem elideSet_node_ok_iff {s : Env} {as : List Env} {d : Digest} {r : Env}
    (hh : (T d != rev) = false) :
    elideSet h A Z T rev act (.node s as d) = .ok r ↔
      ∃ s' as', elideSet h A Z T rev act s = .ok s' ∧ s'.digest = s.digest ∧
        elideSetList h A Z T rev act as = .ok as' ∧ as' ≠ [] ∧ r = mkNode h s' as' := by
  constructor
  · intro hr
    simp only [elideSet, hh, Bool.false_eq_true, if_false] at hr
    cases hs : elideSet h A Z T rev act s with
    | ok s' =>
      rw [hs] at hr; simp only at hr
      by_cases hd : s'.digest = s.digest
      · simp only [hd, bne_self_eq_false, Bool.false_eq_true, if_false] at hr
        cases hl : elideSetList h A Z T rev act as with
        | ok as' =>
          rw [hl] at hr; simp only [newNodeUnchecked] at hr
          by_cases hn : as' = []
          · subst hn; simp at hr
          · have he : as'.isEmpty = false := by cases as' <;> simp_all
            simp only [he, Bool.false_eq_true, if_false, Res.ok.injEq] at hr
            exact ⟨s', as', rfl, hd, rfl, hn, hr.symm⟩
        | err x => rw [hl] at hr; cases hr
        | panic x => rw [hl] at hr; cases hr
      · have hd' : (s'.digest != s.digest) = true := by simpa using hd
        simp only [hd', if_true] at hr; cases hr
    | err x => rw [hs] at hr; cases hr
    | panic x => rw [hs] at hr; cases hr
  · rintro ⟨s', as', hs, hd, hl, hn, rfl⟩
    have he : as'.isEmpty = false := by cases as' <;> simp_all
    simp only [elideSet, hh, Bool.false_eq_true, if_false, hs, hd, bne_self_eq_false, hl,
      newNodeUnchecked, he]

theorem elideSet_wrapped_ok_iff {e : Env} {d : Digest} {r : Env}
    (hh : (T d != rev) = false) :
    elideSet h A Z T rev act (.wrapped e d) = .ok r ↔
      ∃ e', elideSet h A Z T rev act e = .ok e' ∧ e'.digest = e.digest ∧ r = newWrapped h e' := by
  simp only [elideSet, hh, Bool.false_eq_true, if_false]
  generalize elideSet h A Z T rev act e = re
  cases re with
  | ok e' =>
    by_cases hd : e'.digest = e.digest
    · simp [hd, eq_comm]
    · simp [hd]
  | _ => simp

theorem elideSet_assertion_ok_iff {p o : Env} {d : Digest} {r : Env}
    (hh : (T d != rev) = false) :
    elideSet h A Z T rev act (.assertion p o d) = .ok r ↔
      ∃ p' o', elideSet h A Z T rev act p = .ok p' ∧ elideSet h A Z T rev act o = .ok o' ∧
        h.ofDigests [p'.digest, o'.digest] = d ∧ r = .assertion p' o' d := by
  simp only [elideSet, hh, Bool.false_eq_true, if_false]
  generalize elideSet h A Z T rev act p = rp
  generalize elideSet h A Z T rev act o = ro
  cases rp with
  | ok p' =>
    cases ro with
    | ok o' =>
      have hnd : (newAssertion h p' o').digest = h.ofDigests [p'.digest, o'.digest] := rfl
      by_cases hd : h.ofDigests [p'.digest, o'.digest] = d
      · simp only [hnd, hd, beq_self_eq_true, if_true, Res.ok.injEq, exists_and_left, exists_eq_left',
          true_and]
        simp [newAssertion, hd, eq_comm]
      · simp [hnd, hd]
    | _ => simp
  | _ => simp

/-- the traversal of the assertion list, element by element -/
theorem elideSetList_ok_iff {as as' : List Env} :
    elideSetList h A Z T rev act as = .ok as' ↔
      Forall₂ (fun a a' => elideSet h A Z T rev act a = .ok a' ∧ a'.digest = a.digest) as as' := by
  induction as generalizing as' with
  | nil =>
    simp only [elideSetList]
    constructor
    · intro hr; cases hr; exact .nil
    · intro hr; cases hr; rfl
  | cons a as ih =>
    constructor
    · intro hr
      rw [elideSetList] at hr
      cases ha : elideSet h A Z T rev act a with
      | ok a' =>
        rw [ha] at hr
        simp only at hr
        by_cases hd : a'.digest = a.digest
        · simp only [hd, bne_self_eq_false, Bool.false_eq_true, if_false] at hr
          cases hl : elideSetList h A Z T rev act as with
          | ok bs =>
            rw [hl] at hr; simp only [Res.ok.injEq] at hr; subst hr
            exact .cons ⟨ha, hd⟩ (ih.mp hl)
          | err x => rw [hl] at hr; cases hr
          | panic x => rw [hl] at hr; cases hr
        · have hd' : (a'.digest != a.digest) = true := by simpa using hd
          simp only [hd', if_true] at hr; cases hr
      | err x => rw [ha] at hr; cases hr
      | panic x => rw [ha] at hr; cases hr
    · intro hf
      cases hf with
      | cons h1 h2 =>
        rw [elideSetList, h1.1]
        simp only [h1.2, bne_self_eq_false, Bool.false_eq_true, if_false, ih.mpr h2]

end
end EnvVerif

namespace EnvVerif
open Env

/-! ### shallow equality -/

/-- same constructor, same own content (leaf value, known value, encrypted / compressed
message), same digest and, for a node, the same number of assertions; the children are
not compared -/
def ShallowEq : Env → Env → Prop
  | .node _ as d, .node _ as' d' => d = d' ∧ as.length = as'.length
  | .leaf c d, .leaf c' d' => c = c' ∧ d = d'
  | .wrapped _ d, .wrapped _ d' => d = d'
  | .assertion _ _ d, .assertion _ _ d' => d = d'
  | .elided d, .elided d' => d = d'
  | .knownValue v d, .knownValue v' d' => v = v' ∧ d = d'
  | .encrypted m d, .encrypted m' d' => m = m' ∧ d = d'
  | .compressed c d, .compressed c' d' => c = c' ∧ d = d'
  | _, _ => False

theorem ShallowEq.refl (e : Env) : ShallowEq e e := by cases e <;> simp [ShallowEq]

theorem ShallowEq.digest {x y : Env} (hs : ShallowEq x y) : x.digest = y.digest := by
  cases x <;> cases y <;> simp only [ShallowEq] at hs <;> simp only [Env.digest] <;> simp [hs]

theorem ShallowEq.symm {x y : Env} (hs : ShallowEq x y) : ShallowEq y x := by
  cases x <;> cases y <;> simp only [ShallowEq] at hs ⊢ <;> simp [hs]

/-- shallowly equal elements have children at the same steps -/
theorem ShallowEq.child_isSome {x y : Env} (hs : ShallowEq x y) (s : Step) :
    (x.child s).isSome = (y.child s).isSome := by
  cases x <;> cases y <;> simp only [ShallowEq] at hs <;> cases s <;> simp [Env.child]
  case node.node.assertion s1 as1 d1 s2 as2 d2 i =>
    by_cases hi : i < as1.length
    · have hi2 : i < as2.length := hs.2 ▸ hi
      simp [hi, hi2]
    · have hi2 : ¬ i < as2.length := hs.2 ▸ hi
      simp [List.getElem?_eq_none (Nat.le_of_not_lt hi), List.getElem?_eq_none (Nat.le_of_not_lt hi2)]

/-! ### order stability -/

theorem ascDigests_iff_map (as : List Env) :
    AscDigests as ↔ (as.map Env.digest).Pairwise (fun a b => a.val < b.val) := by
  simp [AscDigests, List.pairwise_map]

theorem ascDigests_of_map_eq {as as' : List Env} (hm : as'.map Env.digest = as.map Env.digest)
    (hs : AscDigests as) : AscDigests as' := by
  rw [ascDigests_iff_map] at hs ⊢; rw [hm]; exact hs

section
variable (h : Hash)

/-- rebuilding a canonical node from children with the same digests gives back the node's
cached digest and leaves the assertions in place: the re-sort in
`new_with_unchecked_assertions` is the identity -/
theorem mkNode_of_inv {s s' : Env} {as as' : List Env} {d : Digest}
    (hw : WF h (.node s as d)) (hc : AscDigests as) (hs : s'.digest = s.digest)
    (hm : as'.map Env.digest = as.map Env.digest) : mkNode h s' as' = .node s' as' d := by
  simp only [WF] at hw
  simp only [mkNode, sortByDigest_of_asc (ascDigests_of_map_eq hm hc), hs, hm, ← hw.2.2]

end

section
variable (h : Hash) (A : Aead) (Z : Deflate) (T : Digest → Bool) (rev : Bool) (act : Action)

/-- the pointwise relation produced by the list traversal -/
abbrev ElemRel (a a' : Env) : Prop := elideSet h A Z T rev act a = .ok a' ∧ a'.digest = a.digest

theorem elemRel_map_digest {as as' : List Env}
    (hf : Forall₂ (ElemRel h A Z T rev act) as as') : as'.map Env.digest = as.map Env.digest :=
  Forall₂.map_eq (hf.imp (fun _ _ _ hr => hr.2))

/-- canonical node, not hit: the result is the same node with subject and assertions
replaced position by position -/
theorem elideSet_node_inv {s : Env} {as : List Env} {d : Digest} {r : Env}
    (hi : Inv h (.node s as d)) (hh : (T d != rev) = false) :
    elideSet h A Z T rev act (.node s as d) = .ok r ↔
      ∃ s' as', elideSet h A Z T rev act s = .ok s' ∧ s'.digest = s.digest ∧
        Forall₂ (ElemRel h A Z T rev act) as as' ∧ r = .node s' as' d := by
  have hasc : AscDigests as := by have := hi.2; simp only [Canon] at this; exact this.2.2.2.1
  have hne : as ≠ [] := by have := hi.2; simp only [Canon] at this; exact this.2.2.1
  rw [elideSet_node_ok_iff h A Z T rev act hh]
  constructor
  · rintro ⟨s', as', hs, hd, hl, _, rfl⟩
    have hf := (elideSetList_ok_iff h A Z T rev act).mp hl
    exact ⟨s', as', hs, hd, hf, mkNode_of_inv h hi.1 hasc hd (elemRel_map_digest h A Z T rev act hf)⟩
  · rintro ⟨s', as', hs, hd, hf, rfl⟩
    refine ⟨s', as', hs, hd, (elideSetList_ok_iff h A Z T rev act).mpr hf, ?_, ?_⟩
    · intro hn; exact hne (hf.eq_nil_iff.mpr hn)
    · exact (mkNode_of_inv h hi.1 hasc hd (elemRel_map_digest h A Z T rev act hf)).symm

theorem elideSet_wrapped_wf {e : Env} {d : Digest} {r : Env}
    (hw : WF h (.wrapped e d)) (hh : (T d != rev) = false) :
    elideSet h A Z T rev act (.wrapped e d) = .ok r ↔
      ∃ e', elideSet h A Z T rev act e = .ok e' ∧ e'.digest = e.digest ∧ r = .wrapped e' d := by
  simp only [WF] at hw
  rw [elideSet_wrapped_ok_iff h A Z T rev act hh]
  constructor
  · rintro ⟨e', he, hd, rfl⟩; exact ⟨e', he, hd, by simp only [newWrapped, hd, ← hw.2]⟩
  · rintro ⟨e', he, hd, rfl⟩; exact ⟨e', he, hd, by simp only [newWrapped, hd, ← hw.2]⟩

/-- **digest preservation** -/
theorem elideSet_digest_inv {e r : Env} (hi : Inv h e) (ha : ActOkAt act e.digest)
    (hr : elideSet h A Z T rev act e = .ok r) : r.digest = e.digest := by
  by_cases hh : (T e.digest != rev) = true
  · rw [elideSet_hit h A Z T rev act hh] at hr
    exact obscure_ok_digest A Z ha hr
  · have hh' : (T e.digest != rev) = false := by simpa using hh
    cases e with
    | node s as d =>
      obtain ⟨s', as', _, _, _, rfl⟩ := (elideSet_node_inv h A Z T rev act hi hh').mp hr; rfl
    | wrapped e d =>
      obtain ⟨e', _, _, rfl⟩ := (elideSet_wrapped_wf h A Z T rev act hi.1 hh').mp hr; rfl
    | assertion p o d =>
      obtain ⟨p', o', _, _, _, rfl⟩ := (elideSet_assertion_ok_iff h A Z T rev act hh').mp hr; rfl
    | _ =>
      rw [elideSet_miss_of_child_none h A Z T rev act (by intro s; cases s <;> rfl) hh'] at hr
      cases hr; rfl

/-- an element that is not hit: same shell, children processed one by one -/
theorem elideSet_miss_inv {e r : Env} (hi : Inv h e) (hh : (T e.digest != rev) = false)
    (hr : elideSet h A Z T rev act e = .ok r) :
    ShallowEq r e ∧
    (∀ s c, e.child s = some c → ∃ c', r.child s = some c' ∧ elideSet h A Z T rev act c = .ok c') ∧
    (∀ s c', r.child s = some c' → ∃ c, e.child s = some c ∧ elideSet h A Z T rev act c = .ok c') := by
  cases e with
  | node s as d =>
    obtain ⟨s', as', hs, hd, hf, rfl⟩ := (elideSet_node_inv h A Z T rev act hi hh).mp hr
    refine ⟨⟨rfl, hf.length_eq.symm⟩, ?_, ?_⟩
    · intro st c hc
      cases st <;> simp only [Env.child, reduceCtorEq] at hc
      · cases hc; exact ⟨s', rfl, hs⟩
      · obtain ⟨b, hb, hrel⟩ := hf.getElem?_left hc
        exact ⟨b, hb, hrel.1⟩
    · intro st c' hc
      cases st <;> simp only [Env.child, reduceCtorEq] at hc
      · cases hc; exact ⟨s, rfl, hs⟩
      · obtain ⟨a, ha, hrel⟩ := hf.getElem?_right hc
        exact ⟨a, ha, hrel.1⟩
  | wrapped e d =>
    obtain ⟨e', he, hd, rfl⟩ := (elideSet_wrapped_wf h A Z T rev act hi.1 hh).mp hr
    refine ⟨rfl, ?_, ?_⟩
    · intro st c hc
      cases st <;> simp only [Env.child, reduceCtorEq] at hc
      cases hc; exact ⟨e', rfl, he⟩
    · intro st c' hc
      cases st <;> simp only [Env.child, reduceCtorEq] at hc
      cases hc; exact ⟨e, rfl, he⟩
  | assertion p o d =>
    obtain ⟨p', o', hp, ho, hd, rfl⟩ := (elideSet_assertion_ok_iff h A Z T rev act hh).mp hr
    refine ⟨rfl, ?_, ?_⟩
    · intro st c hc
      cases st <;> simp only [Env.child, reduceCtorEq] at hc
      · cases hc; exact ⟨p', rfl, hp⟩
      · cases hc; exact ⟨o', rfl, ho⟩
    · intro st c' hc
      cases st <;> simp only [Env.child, reduceCtorEq] at hc
      · cases hc; exact ⟨p, rfl, hp⟩
      · cases hc; exact ⟨o, rfl, ho⟩
  | _ =>
    rw [elideSet_miss_of_child_none h A Z T rev act (by intro s; cases s <;> rfl) hh] at hr
    cases hr
    refine ⟨ShallowEq.refl _, ?_, ?_⟩ <;> intro st c hc <;> cases st <;> simp [Env.child] at hc

/-- an element that is not hit succeeds as soon as its children do (with their digests) -/
theorem elideSet_miss_ok {e : Env} (hi : Inv h e) (hh : (T e.digest != rev) = false)
    (hch : ∀ s c, e.child s = some c →
      ∃ c', elideSet h A Z T rev act c = .ok c' ∧ c'.digest = c.digest) :
    ∃ r, elideSet h A Z T rev act e = .ok r := by
  cases e with
  | node s as d =>
    obtain ⟨s', hs, hd⟩ := hch .subj s rfl
    have : ∀ a ∈ as, ∃ a', ElemRel h A Z T rev act a a' := by
      intro a hm
      obtain ⟨i, hlt, rfl⟩ := List.getElem_of_mem hm
      exact hch (.assertion i) _ (by simp [Env.child, hlt])
    obtain ⟨as', hf⟩ := Forall₂.of_forall_exists this
    exact ⟨_, (elideSet_node_inv h A Z T rev act hi hh).mpr ⟨s', as', hs, hd, hf, rfl⟩⟩
  | wrapped e d =>
    obtain ⟨e', he, hd⟩ := hch .inner e rfl
    exact ⟨_, (elideSet_wrapped_wf h A Z T rev act hi.1 hh).mpr ⟨e', he, hd, rfl⟩⟩
  | assertion p o d =>
    obtain ⟨p', hp, hdp⟩ := hch .pred p rfl
    obtain ⟨o', ho, hdo⟩ := hch .obj o rfl
    have hw := hi.1; simp only [WF] at hw
    exact ⟨_, (elideSet_assertion_ok_iff h A Z T rev act hh).mpr
      ⟨p', o', hp, ho, by rw [hdp, hdo]; exact hw.2.2.symm, rfl⟩⟩
  | _ =>
    exact ⟨_, elideSet_miss_of_child_none h A Z T rev act (by intro s; cases s <;> rfl) hh⟩

end
end EnvVerif

namespace EnvVerif
open Env

section
variable (T : Digest → Bool) (rev : Bool)

/-! ### hit chains along a path -/

/-- no element strictly above position `p` is hit -/
def NoHitAbove (e : Env) (p : Path) : Prop :=
  ∀ q, q <+: p → q ≠ p → ∀ z, e.at q = some z → (T z.digest != rev) = false

/-- no element on the chain from the root to `p` (inclusive) is hit -/
def NoHitUpTo (e : Env) (p : Path) : Prop :=
  ∀ q, q <+: p → ∀ z, e.at q = some z → (T z.digest != rev) = false

theorem noHitAbove_nil (e : Env) : NoHitAbove T rev e [] := by
  intro q hq hne; exact absurd (List.prefix_nil.mp hq) hne

theorem noHitAbove_cons {e c : Env} {s : Step} (hc : e.child s = some c) (p : Path) :
    NoHitAbove T rev e (s :: p) ↔ (T e.digest != rev) = false ∧ NoHitAbove T rev c p := by
  constructor
  · intro hn
    refine ⟨hn [] (List.nil_prefix) (by simp) e rfl, ?_⟩
    intro q hq hne z hz
    exact hn (s :: q) (List.cons_prefix_cons.mpr ⟨rfl, hq⟩) (by simpa using hne) z
      (by rw [Env.at_cons_of_child hc]; exact hz)
  · rintro ⟨he, hn⟩ q hq hne z hz
    rcases List.prefix_cons_iff.mp hq with rfl | ⟨t, rfl, ht⟩
    · simp at hz; subst hz; exact he
    · rw [Env.at_cons_of_child hc] at hz
      exact hn t ht (by simpa using hne) z hz

theorem noHitUpTo_cons {e c : Env} {s : Step} (hc : e.child s = some c) (p : Path) :
    NoHitUpTo T rev e (s :: p) ↔ (T e.digest != rev) = false ∧ NoHitUpTo T rev c p := by
  constructor
  · intro hn
    refine ⟨hn [] (List.nil_prefix) e rfl, ?_⟩
    intro q hq z hz
    exact hn (s :: q) (List.cons_prefix_cons.mpr ⟨rfl, hq⟩) z
      (by rw [Env.at_cons_of_child hc]; exact hz)
  · rintro ⟨he, hn⟩ q hq z hz
    rcases List.prefix_cons_iff.mp hq with rfl | ⟨t, rfl, ht⟩
    · simp at hz; subst hz; exact he
    · rw [Env.at_cons_of_child hc] at hz
      exact hn t ht z hz

theorem noHitUpTo_nil (e : Env) : NoHitUpTo T rev e [] ↔ (T e.digest != rev) = false := by
  constructor
  · intro hn; exact hn [] (List.prefix_refl _) e rfl
  · intro he q hq z hz
    have := List.prefix_nil.mp hq; subst this
    simp at hz; subst hz; exact he

/-- a topmost hit: `y` at position `p` is hit and nothing above it is -/
def TopHit (e : Env) (p : Path) (y : Env) : Prop :=
  e.at p = some y ∧ (T y.digest != rev) = true ∧ NoHitAbove T rev e p

end

section
variable (h : Hash) (A : Aead) (Z : Deflate) (T : Digest → Bool) (rev : Bool) (act : Action)

/-! ### positions of the result -/

theorem elideSet_positions_inv {e r : Env} (hi : Inv h e) (ha : ActOk act e)
    (hr : elideSet h A Z T rev act e = .ok r) :
    ∀ p x, r.at p = some x → ∃ y, e.at p = some y ∧ x.digest = y.digest := by
  intro p
  induction p generalizing e r with
  | nil =>
    intro x hx; simp at hx; subst hx
    exact ⟨e, rfl, elideSet_digest_inv h A Z T rev act hi ha.at_root hr⟩
  | cons s p ih =>
    intro x hx
    obtain ⟨c', hc', hx'⟩ := Env.at_cons_some hx
    by_cases hh : (T e.digest != rev) = true
    · rw [elideSet_hit h A Z T rev act hh] at hr
      rw [Env.child_none_of_isObscured (obscure_ok_isObscured A Z hr)] at hc'; cases hc'
    · have hh' : (T e.digest != rev) = false := by simpa using hh
      obtain ⟨_, _, h3⟩ := elideSet_miss_inv h A Z T rev act hi hh' hr
      obtain ⟨c, hc, hcr⟩ := h3 s c' hc'
      obtain ⟨y, hy, hd⟩ := ih (hi.child hc) (ha.child hc) hcr x hx'
      exact ⟨y, by rw [Env.at_cons_of_child hc]; exact hy, hd⟩

/-! ### the specification of the traversal, for both modes -/

theorem elideSet_spec {e r : Env} (hi : Inv h e) (ha : ActOk act e)
    (hr : elideSet h A Z T rev act e = .ok r) :
    ∀ p y, e.at p = some y →
      (NoHitUpTo T rev e p → ∃ x, r.at p = some x ∧ ShallowEq x y) ∧
      ((T y.digest != rev) = true → NoHitAbove T rev e p →
        ∃ x, r.at p = some x ∧ IsPlaceholder A Z act y x ∧ ∀ s q, r.at (p ++ s :: q) = none) ∧
      (¬ NoHitAbove T rev e p → r.at p = none) := by
  intro p
  induction p generalizing e r with
  | nil =>
    intro y hy; simp at hy; subst hy
    refine ⟨?_, ?_, ?_⟩
    · intro hn
      have hh := (noHitUpTo_nil T rev e).mp hn
      exact ⟨r, rfl, (elideSet_miss_inv h A Z T rev act hi hh hr).1⟩
    · intro hh _
      rw [elideSet_hit h A Z T rev act hh] at hr
      refine ⟨r, rfl, obscure_ok_placeholder A Z ha.at_root hr, ?_⟩
      intro s q
      exact Env.at_cons_none_of_isObscured (obscure_ok_isObscured A Z hr) s q
    · intro hn; exact absurd (noHitAbove_nil T rev e) hn
  | cons s p ih =>
    intro y hy
    obtain ⟨c, hc, hy'⟩ := Env.at_cons_some hy
    by_cases hh : (T e.digest != rev) = true
    · rw [elideSet_hit h A Z T rev act hh] at hr
      have hnone : r.at (s :: p) = none :=
        Env.at_cons_none_of_isObscured (obscure_ok_isObscured A Z hr) s p
      refine ⟨?_, ?_, fun _ => hnone⟩
      · intro hn; rw [((noHitUpTo_cons T rev hc p).mp hn).1] at hh; cases hh
      · intro _ hn; rw [((noHitAbove_cons T rev hc p).mp hn).1] at hh; cases hh
    · have hh' : (T e.digest != rev) = false := by simpa using hh
      obtain ⟨_, h2, _⟩ := elideSet_miss_inv h A Z T rev act hi hh' hr
      obtain ⟨c', hc', hcr⟩ := h2 s c hc
      obtain ⟨iA, iB, iC⟩ := ih (hi.child hc) (ha.child hc) hcr y hy'
      refine ⟨?_, ?_, ?_⟩
      · intro hn
        obtain ⟨x, hx, hs⟩ := iA ((noHitUpTo_cons T rev hc p).mp hn).2
        exact ⟨x, by rw [Env.at_cons_of_child hc']; exact hx, hs⟩
      · intro hy hn
        obtain ⟨x, hx, hp, hb⟩ := iB hy ((noHitAbove_cons T rev hc p).mp hn).2
        refine ⟨x, by rw [Env.at_cons_of_child hc']; exact hx, hp, ?_⟩
        intro s' q
        rw [List.cons_append, Env.at_cons_of_child hc']; exact hb s' q
      · intro hn
        rw [Env.at_cons_of_child hc']
        exact iC (fun hn' => hn ((noHitAbove_cons T rev hc p).mpr ⟨hh', hn'⟩))

/-! ### success, error, panic -/

/-- `elide_set_with_action` has no error path at all -/
theorem elideSet_not_err (e : Env) : ∀ x, elideSet h A Z T rev act e ≠ .err x := by
  induction e using Env.induct with
  | hnode s as d ihs ihas =>
    intro x
    have hl : ∀ x, elideSetList h A Z T rev act as ≠ .err x := by
      clear ihs
      induction as with
      | nil => intro x; simp [elideSetList]
      | cons a as ih =>
        intro x
        have h1 := ihas a (by simp)
        have h2 := ih (fun b hb => ihas b (by simp [hb]))
        rw [elideSetList]
        cases ha : elideSet h A Z T rev act a with
        | ok a' =>
          simp only
          split
          · simp
          · cases hl : elideSetList h A Z T rev act as with
            | ok bs => simp
            | err y => exact absurd hl (h2 y)
            | panic y => simp
        | err y => exact absurd ha (h1 y)
        | panic y => simp
    rw [elideSet]
    split
    · exact obscure_not_err A Z act _ x
    · cases hs : elideSet h A Z T rev act s with
      | ok s' =>
        simp only
        split
        · simp
        · cases hl' : elideSetList h A Z T rev act as with
          | ok as' => simp only [newNodeUnchecked]; split <;> simp
          | err y => exact absurd hl' (hl y)
          | panic y => simp
      | err y => exact absurd hs (ihs y)
      | panic y => simp
  | hwrapped e d ih =>
    intro x
    rw [elideSet]
    split
    · exact obscure_not_err A Z act _ x
    · cases he : elideSet h A Z T rev act e with
      | ok e' => simp only; split <;> simp
      | err y => exact absurd he (ih y)
      | panic y => simp
  | hassertion p o d ihp iho =>
    intro x
    rw [elideSet]
    split
    · exact obscure_not_err A Z act _ x
    · cases hp : elideSet h A Z T rev act p with
      | ok p' =>
        cases ho : elideSet h A Z T rev act o with
        | ok o' => simp only; split <;> simp
        | err y => exact absurd ho (iho y)
        | panic y => simp
      | err y => exact absurd hp (ihp y)
      | panic y => simp
  | _ =>
    intro x
    simp only [elideSet]
    split
    · exact obscure_not_err A Z act _ x
    · simp

/-- **exactly when the traversal succeeds**: iff the action succeeds on every topmost hit -/
theorem elideSet_ok_iff_inv {e : Env} (hi : Inv h e) (ha : ActOk act e) :
    (∃ r, elideSet h A Z T rev act e = .ok r) ↔
      ∀ p y, TopHit T rev e p y → ∃ x, obscure A Z act y = .ok x := by
  constructor
  · rintro ⟨r, hr⟩ p y ⟨hy, hhit, hn⟩
    obtain ⟨x, _, hp, _⟩ := (elideSet_spec h A Z T rev act hi ha hr p y hy).2.1 hhit hn
    have hay : ActOkAt act y.digest := by
      cases act with
      | encrypt k n => exact ha p y hy
      | _ => trivial
    exact ⟨x, placeholder_obscure_ok A Z hay hp⟩
  · revert hi ha
    induction e using Env.induct_child with
    | H e ih =>
      intro hi ha hall
      by_cases hh : (T e.digest != rev) = true
      · rw [elideSet_hit h A Z T rev act hh]
        exact hall [] e ⟨rfl, hh, noHitAbove_nil T rev e⟩
      · have hh' : (T e.digest != rev) = false := by simpa using hh
        apply elideSet_miss_ok h A Z T rev act hi hh'
        intro s c hc
        obtain ⟨c', hc'⟩ := ih s c hc (hi.child hc) (ha.child hc) (by
          rintro p y ⟨hy, hhit, hn⟩
          exact hall (s :: p) y ⟨by rw [Env.at_cons_of_child hc]; exact hy, hhit,
            (noHitAbove_cons T rev hc p).mpr ⟨hh', hn⟩⟩)
        exact ⟨c', hc', elideSet_digest_inv h A Z T rev act (hi.child hc) (ha.child hc).at_root hc'⟩

end
end EnvVerif

namespace EnvVerif
open Env

/-! ### non-interference -/

/-- `AgreeOutside hit e1 e2`: the two envelopes are the same tree outside the subtrees
whose root digest is hit, and have equal digests at those roots (what lies below a hit
root is unconstrained — it may even be a different kind of element). -/
inductive AgreeOutside (hit : Digest → Bool) : Env → Env → Prop where
  | hidden {e1 e2 : Env} : e1.digest = e2.digest → hit e1.digest = true → AgreeOutside hit e1 e2
  | visible {e1 e2 : Env} : ShallowEq e1 e2 →
      (∀ s c1 c2, e1.child s = some c1 → e2.child s = some c2 → AgreeOutside hit c1 c2) →
      AgreeOutside hit e1 e2

theorem AgreeOutside.digest {hit : Digest → Bool} {e1 e2 : Env} (ha : AgreeOutside hit e1 e2) :
    e1.digest = e2.digest := by
  cases ha with
  | hidden hd _ => exact hd
  | visible hs _ => exact hs.digest

theorem AgreeOutside.refl (hit : Digest → Bool) (e : Env) : AgreeOutside hit e e := by
  induction e using Env.induct_child with
  | H e ih =>
    apply AgreeOutside.visible (ShallowEq.refl e)
    intro s c1 c2 h1 h2
    rw [h1] at h2; cases h2
    exact ih s c1 h1

section
variable (h : Hash) (A : Aead) (Z : Deflate) (T : Digest → Bool) (rev : Bool) (act : Action)

theorem elideSetList_congr {as1 as2 : List Env} (hl : as1.length = as2.length)
    (hp : ∀ (i : Nat) (a1 a2 : Env), as1[i]? = some a1 → as2[i]? = some a2 →
      elideSet h A Z T rev act a1 = elideSet h A Z T rev act a2 ∧ a1.digest = a2.digest) :
    elideSetList h A Z T rev act as1 = elideSetList h A Z T rev act as2 := by
  induction as1 generalizing as2 with
  | nil =>
    cases as2 with
    | nil => rfl
    | cons b bs => simp at hl
  | cons a as ih =>
    cases as2 with
    | nil => simp at hl
    | cons b bs =>
      obtain ⟨h1, h2⟩ := hp 0 a b rfl rfl
      have ht := ih (as2 := bs) (by simpa using hl)
        (fun i a1 a2 ha1 ha2 => hp (i + 1) a1 a2 (by simpa using ha1) (by simpa using ha2))
      simp only [elideSetList, h1, h2, ht]

/-- the `elide` action: the result depends only on what lies outside the hit subtrees and
on the digests of their roots -/
theorem elideSet_elide_congr {e1 e2 : Env}
    (hag : AgreeOutside (fun d => T d != rev) e1 e2) :
    elideSet h A Z T rev .elide e1 = elideSet h A Z T rev .elide e2 := by
  induction hag with
  | @hidden e1 e2 hd hh =>
    have hh2 : (T e2.digest != rev) = true := hd ▸ hh
    rw [elideSet_hit h A Z T rev _ hh, elideSet_hit h A Z T rev _ hh2, obscure_elide, obscure_elide, hd]
  | @visible e1 e2 hs hch ih =>
    have hd := hs.digest
    by_cases hh : (T e1.digest != rev) = true
    · have hh2 : (T e2.digest != rev) = true := hd ▸ hh
      rw [elideSet_hit h A Z T rev _ hh, elideSet_hit h A Z T rev _ hh2, obscure_elide, obscure_elide, hd]
    · have hh' : (T e1.digest != rev) = false := by simpa using hh
      cases e1 <;> cases e2 <;> simp only [ShallowEq] at hs
      case node.node s1 as1 d1 s2 as2 d2 =>
        obtain ⟨rfl, hl⟩ := hs
        simp only [Env.digest] at hh'
        have hsub := ih .subj s1 s2 rfl rfl
        have hsd := (hch .subj s1 s2 rfl rfl).digest
        have hlist := elideSetList_congr h A Z T rev .elide hl (fun i a1 a2 h1 h2 =>
          ⟨ih (.assertion i) a1 a2 h1 h2, (hch (.assertion i) a1 a2 h1 h2).digest⟩)
        simp only [elideSet, hh', hsub, hsd, hlist, Bool.false_eq_true, if_false]
      case leaf.leaf c1 d1 c2 d2 => obtain ⟨rfl, rfl⟩ := hs; rfl
      case wrapped.wrapped i1 d1 i2 d2 =>
        subst hs
        simp only [Env.digest] at hh'
        have hsub := ih .inner i1 i2 rfl rfl
        have hsd := (hch .inner i1 i2 rfl rfl).digest
        simp only [elideSet, hh', hsub, hsd, Bool.false_eq_true, if_false]
      case assertion.assertion p1 o1 d1 p2 o2 d2 =>
        subst hs
        simp only [Env.digest] at hh'
        have hp := ih .pred p1 p2 rfl rfl
        have ho := ih .obj o1 o2 rfl rfl
        simp only [elideSet, hh', hp, ho, Bool.false_eq_true, if_false]
      case elided.elided d1 d2 => subst hs; rfl
      case knownValue.knownValue v1 d1 v2 d2 => obtain ⟨rfl, rfl⟩ := hs; rfl
      case encrypted.encrypted m1 d1 m2 d2 => obtain ⟨rfl, rfl⟩ := hs; rfl
      case compressed.compressed c1 d1 c2 d2 => obtain ⟨rfl, rfl⟩ := hs; rfl

end

/-! ### the bytes of a placeholder -/

theorem beBytes_length (len n : Nat) : (beBytes len n).length = len := by
  induction len generalizing n with
  | zero => rfl
  | succ k ih => simp [beBytes, ih]

theorem Digest.bytes_length (d : Digest) : d.bytes.length = 32 := beBytes_length 32 d.val

end EnvVerif

namespace EnvVerif
open Env

/-! ### `replace_subject` on a canonical node (for `compress_subject`) -/

section
variable (h : Hash)

theorem Res.ok_bind {α β : Type} (x : α) (f : α → Res β) : (Res.ok x).bind f = f x := rfl

/-- the node over `s` and `as` with its digest computed from them in the stored order -/
def nodeOf (s : Env) (as : List Env) : Env :=
  .node s as (h.ofDigests (s.digest :: as.map Env.digest))

theorem mkNode_of_asc {s : Env} {as : List Env} (hs : AscDigests as) : mkNode h s as = nodeOf h s as := by
  simp only [mkNode, sortByDigest_of_asc hs, nodeOf]

theorem addAssertionEnvelope_nodeOf {s a : Env} {pre : List Env} (hslot : a.slotOk = true)
    (hasc : AscDigests (pre ++ [a])) :
    addAssertionEnvelope h (nodeOf h s pre) a = .ok (nodeOf h s (pre ++ [a])) := by
  have hfresh : (pre.any fun x => x.digest == a.digest) = false := by
    rw [List.any_eq_false]
    intro x hx
    have := (List.pairwise_append.mp hasc).2.2 x hx a (by simp)
    intro heq
    have heq' : x.digest = a.digest := by simpa using heq
    rw [heq'] at this; exact Nat.lt_irrefl _ this
  have hne : (pre ++ [a]).isEmpty = false := by cases pre <;> rfl
  simp only [addAssertionEnvelope, hslot, nodeOf, hfresh, newNodeUnchecked, hne, mkNode_of_asc h hasc,
    Bool.not_true, Bool.false_eq_true, if_false]

theorem addAssertionEnvelope_nonNode {s a : Env} (hs : s.isNode = false) (hslot : a.slotOk = true) :
    addAssertionEnvelope h s a = .ok (nodeOf h s [a]) := by
  have hasc : AscDigests [a] := List.pairwise_singleton _ _
  cases s <;> simp only [Env.isNode, reduceCtorEq] at hs <;>
    simp only [addAssertionEnvelope, hslot, Env.subject, newNodeUnchecked, mkNode_of_asc h hasc,
      List.isEmpty_cons, Bool.not_true, Bool.false_eq_true, if_false]

/-- the fold of `replace_subject`, started on a node that already holds a prefix -/
theorem replaceSubject_fold {s : Env} (pre rest : List Env) (hasc : AscDigests (pre ++ rest))
    (hslot : ∀ a ∈ rest, a.slotOk = true) :
    rest.foldl (fun (acc : Res Env) (a : Env) =>
      acc.bind fun x =>
        match addAssertionEnvelope h x a with
        | .ok y => Res.ok y
        | .err _ => Res.panic "assertions.rs:replace_subject:unwrap"
        | .panic p => Res.panic p) (Res.ok (nodeOf h s pre)) = Res.ok (nodeOf h s (pre ++ rest)) := by
  induction rest generalizing pre with
  | nil => simp
  | cons a rest ih =>
    have hasc' : AscDigests ((pre ++ [a]) ++ rest) := by simpa using hasc
    have hpa : AscDigests (pre ++ [a]) := (List.pairwise_append.mp hasc').1
    rw [List.foldl_cons]
    simp only [Res.ok_bind, addAssertionEnvelope_nodeOf h (hslot a (by simp)) hpa]
    have := ih (pre ++ [a]) hasc' (fun b hb => hslot b (by simp [hb]))
    simpa using this

/-- `replace_subject` on a canonical node with a non-node new subject -/
theorem replaceSubject_node {s0 s : Env} {as : List Env} {d : Digest} (hs : s.isNode = false)
    (hasc : AscDigests as) (hslot : ∀ a ∈ as, a.slotOk = true) :
    replaceSubject h (.node s0 as d) s = .ok (match as with | [] => s | _ :: _ => nodeOf h s as) := by
  cases as with
  | nil => simp [replaceSubject, Env.assertions]
  | cons a rest =>
    simp only [replaceSubject, Env.assertions, List.foldl_cons, Res.ok_bind,
      addAssertionEnvelope_nonNode h hs (hslot a (by simp))]
    have := replaceSubject_fold h (s := s) [a] rest (by simpa using hasc)
      (fun b hb => hslot b (by simp [hb]))
    simp only [List.singleton_append] at this
    exact this

end
end EnvVerif

/-! ### a concrete envelope on which the hypotheses of C02 / C03 hold -/

namespace EnvVerif
namespace Sample
open Env

/-- toy hash: the sum of the bytes -/
def toyH : Hash := ⟨fun b => ⟨b.foldl (fun a x => a + x.toNat) 0⟩⟩

def lf (n : Nat) : Env := newLeaf toyH (.uint n)
/-- `1: 2`, digest 3 -/
def a1 : Env := newAssertion toyH (lf 1) (lf 2)
/-- `1: 4`, digest 5 -/
def a2 : Env := newAssertion toyH (lf 1) (lf 4)
/-- `7 [1: 2, 1: 4]`, digest 15 -/
def e0 : Env := nodeOf toyH (lf 7) [a1, a2]
/-- the same with the first assertion's object replaced by other content under an
elided-looking assertion of the same digest -/
def e0' : Env := nodeOf toyH (lf 7) [.elided ⟨3⟩, a2]
/-- `{ 7 [1: 2, 1: 4] }` -/
def w0 : Env := newWrapped toyH e0

theorem lf_digest_1 : (lf 1).digest = ⟨1⟩ := by decide
theorem lf_digest_2 : (lf 2).digest = ⟨2⟩ := by decide
theorem lf_digest_4 : (lf 4).digest = ⟨4⟩ := by decide
theorem lf_digest_7 : (lf 7).digest = ⟨7⟩ := by decide
theorem a1_digest : a1.digest = ⟨3⟩ := by decide +kernel
theorem a2_digest : a2.digest = ⟨5⟩ := by decide +kernel
theorem e0_digest : e0.digest = ⟨15⟩ := by decide +kernel

theorem inv_e0 : Inv toyH e0 := by
  refine ⟨?_, ?_⟩
  · simp only [e0, nodeOf, WF, WFList, a1, a2, lf, newLeaf, newAssertion, and_self]
  · have hasc : AscDigests [a1, a2] := by
      simp only [AscDigests, List.pairwise_cons, List.mem_cons, List.not_mem_nil, or_false,
        forall_eq, a1_digest, a2_digest, List.Pairwise.nil, and_true, false_imp_iff, implies_true]
      decide
    have hslot : ∀ a ∈ [a1, a2], a.slotOk = true := by
      intro a ha
      simp only [List.mem_cons, List.not_mem_nil, or_false] at ha
      rcases ha with rfl | rfl <;> rfl
    have hc1 : Canon a1 := by simp only [a1, lf, newAssertion, newLeaf, Canon, and_self]
    have hc2 : Canon a2 := by simp only [a2, lf, newAssertion, newLeaf, Canon, and_self]
    simp only [e0, nodeOf, Canon, CanonList]
    exact ⟨by simp only [lf, newLeaf, Canon], ⟨hc1, hc2, trivial⟩, by simp, hasc, hslot⟩

theorem inv_w0 : Inv toyH w0 := by
  refine ⟨?_, ?_⟩
  · simp only [w0, newWrapped, WF, inv_e0.1, and_self]
  · simp only [w0, newWrapped, Canon]; exact inv_e0.2

theorem elements_e0 : elements e0 = [e0, lf 7, a1, lf 1, lf 2, a2, lf 1, lf 4] := by
  simp only [e0, nodeOf, a1, a2, lf, newLeaf, newAssertion, elements, elementsList,
    List.append_nil, List.cons_append, List.nil_append]

theorem digests_e0 : ∀ x ∈ elements e0, x.digest.val < 16 := by
  rw [elements_e0]
  intro x hx
  simp only [List.mem_cons, List.not_mem_nil, or_false] at hx
  rcases hx with rfl | rfl | rfl | rfl | rfl | rfl | rfl | rfl <;>
    simp only [e0_digest, a1_digest, a2_digest, lf_digest_1, lf_digest_2, lf_digest_4, lf_digest_7] <;>
    decide

/-- the codec fact behind `AadOk`, as a decidable check -/
def aadCheck (d : Digest) : Bool :=
  EncMsg.optDigest ⟨[], [], [], (digestCbor d).enc⟩ == some d

theorem aadOk_of_check {d : Digest} (hc : aadCheck d = true) : AadOk d := by
  intro m hm
  simp only [aadCheck, beq_iff_eq] at hc
  rw [← hc]
  simp only [EncMsg.optDigest, hm]

theorem aadCheck_range : (List.range 16).all (fun n => aadCheck ⟨n⟩) = true := by decide +kernel

theorem aadCheck_small (n : Nat) (hn : n < 16) : aadCheck ⟨n⟩ = true :=
  List.all_eq_true.mp aadCheck_range n (List.mem_range.mpr hn)

/-- the encrypt action's hypothesis holds on the sample (every digest in it is small) -/
theorem actOk_e0 (act : Action) : ActOk act e0 := by
  cases act with
  | encrypt k n =>
    intro p x hx
    have := digests_e0 x (at_mem_elements hx)
    exact aadOk_of_check (aadCheck_small x.digest.val this)
  | _ => trivial

end Sample
end EnvVerif

namespace EnvVerif
open Env

section
variable (h : Hash) (A : Aead) (Z : Deflate) (T : Digest → Bool) (rev : Bool) (act : Action)

theorem ActOk.at_pos {e y : Env} {p : Path} (ha : ActOk act e) (hy : e.at p = some y) :
    ActOkAt act y.digest := by
  cases act with
  | encrypt k n => exact ha p y hy
  | _ => trivial

/-- on a canonical, well-formed envelope the traversal succeeds for every action -/
theorem elideSet_ok_inv {e : Env} (hi : Inv h e) (ha : ActOk act e) :
    ∃ r, elideSet h A Z T rev act e = .ok r :=
  (elideSet_ok_iff_inv h A Z T rev act hi ha).mpr
    (fun _ _ ht => obscure_ok_of A Z (ha.at_pos act ht.1))

end

/-! ### whole-envelope operations -/

section
variable (h : Hash) (A : Aead) (Z : Deflate)

theorem compressSubject_digest_inv {e r : Env} (hi : Inv h e)
    (hr : compressSubject h Z e = .ok r) : r.digest = e.digest := by
  unfold compressSubject at hr
  split at hr
  · cases hr; rfl
  · rename_i hnc
    cases hc : compress Z e.subject with
    | ok s =>
      rw [hc] at hr
      simp only [Res.ok_bind] at hr
      have hsd := compress_ok_digest Z hc
      have hsc := compress_ok_isCompressed Z hc
      have hsn : s.isNode = false := by cases s <;> simp_all [Env.isCompressed, Env.isNode]
      cases e with
      | node s0 as d =>
        obtain ⟨hw, hk⟩ := hi
        simp only [WF, Canon] at hw hk
        rw [replaceSubject_node h hsn hk.2.2.2.1 hk.2.2.2.2] at hr
        cases as with
        | nil => exact absurd rfl hk.2.2.1
        | cons a rest =>
          simp only [Res.ok.injEq] at hr; subst hr
          simp only [nodeOf, Env.digest, Env.subject] at hsd ⊢
          rw [hsd]; exact hw.2.2.symm
      | _ =>
        simp only [replaceSubject, Env.assertions, List.foldl_nil, Res.ok.injEq] at hr
        subst hr; exact hsd
    | err x => rw [hc] at hr; cases hr
    | panic x => rw [hc] at hr; cases hr

theorem encryptSubject_digest_any {key nonce : Bytes} {e r : Env}
    (hr : encryptSubject h A key nonce e = .ok r) : r.digest = e.digest := by
  have fin : ∀ (x : Env) (d : Digest),
      (if (x.digest == d) = true then Res.ok x
        else Res.panic "encrypt.rs:encrypt_subject_opt:assert_eq") = Res.ok r → r.digest = d := by
    intro x d hx
    split at hx
    · rename_i hd; cases hx; simpa using hd
    · cases hx
  cases e with
  | node s as d =>
    unfold encryptSubject at hr; simp only at hr
    split at hr
    · cases hr
    · split at hr
      · split at hr
        · exact fin _ _ hr
        · cases hr
        · cases hr
      · cases hr
      · cases hr
  | encrypted m d => unfold encryptSubject at hr; simp only [reduceCtorEq] at hr
  | elided d => unfold encryptSubject at hr; simp only [reduceCtorEq] at hr
  | _ =>
    unfold encryptSubject at hr; simp only at hr
    split at hr
    · exact fin _ _ hr
    · cases hr
    · cases hr

/-- `encrypt_subject` cannot panic on a canonical, well-formed envelope (given the codec
fact at the subject's digest): neither `new_with_encrypted(..).unwrap()` nor the
`assert_eq!` on the digests can fire -/
theorem encryptSubject_not_panic_inv {key nonce : Bytes} {e : Env} (hi : Inv h e)
    (ha : AadOk e.subject.digest) : ∀ s, encryptSubject h A key nonce e ≠ .panic s := by
  intro site
  have hnew : ∀ (x : Env) (site : String), AadOk x.digest →
      newEncryptedUnwrap (encryptWithDigest A key nonce (encode x) x.digest) site =
        .ok (.encrypted (encryptWithDigest A key nonce (encode x) x.digest) x.digest) :=
    fun x site hx => newEncryptedUnwrap_ok_of (hx _ (encryptWithDigest_aad A ..)) site
  cases e with
  | node s as d =>
    obtain ⟨hw, hk⟩ := hi
    simp only [Env.subject] at ha
    unfold encryptSubject; simp only
    split
    · simp
    · have hne : as.isEmpty = false := by
        simp only [Canon] at hk; cases as with
        | nil => exact absurd rfl hk.2.2.1
        | cons _ _ => rfl
      have hasc : AscDigests as := by simp only [Canon] at hk; exact hk.2.2.2.1
      rw [hnew s _ ha]
      simp only [newNodeUnchecked, hne, Bool.false_eq_true, if_false]
      rw [mkNode_of_inv h hw hasc (s' := .encrypted _ s.digest) rfl rfl]
      simp [Env.digest]
  | encrypted m d => (unfold encryptSubject; simp)
  | elided d => (unfold encryptSubject; simp)
  | leaf c d => simp only [Env.subject] at ha; unfold encryptSubject; simp only; rw [hnew _ _ ha]; simp [Env.digest]
  | wrapped e d => simp only [Env.subject] at ha; unfold encryptSubject; simp only; rw [hnew _ _ ha]; simp [Env.digest]
  | assertion p o d => simp only [Env.subject] at ha; unfold encryptSubject; simp only; rw [hnew _ _ ha]; simp [Env.digest]
  | knownValue v d => simp only [Env.subject] at ha; unfold encryptSubject; simp only; rw [hnew _ _ ha]; simp [Env.digest]
  | compressed c d => simp only [Env.subject] at ha; unfold encryptSubject; simp only; rw [hnew _ _ ha]; simp [Env.digest]

end
end EnvVerif

/-! ### why `WF` alone is not enough: a well-formed node stored in the wrong order -/

namespace EnvVerif
namespace Sample
open Env

/-- order-sensitive toy hash -/
def ordH : Hash := ⟨fun b => ⟨beNat b⟩⟩
def x0 : Env := .elided ⟨0⟩
def x1 : Env := .elided ⟨1⟩
def x2 : Env := .elided ⟨2⟩
/-- well-formed (every cached digest is the hash of the children in stored order) but the
assertions are stored in descending digest order -/
def cex : Env := nodeOf ordH x0 [x2, x1]

theorem cex_wf : WF ordH cex := by
  simp only [cex, nodeOf, WF, WFList, x0, x1, x2, and_self]

theorem sort_x2_x1 : sortByDigest [x2, x1] = [x1, x2] := by
  have hp : (sortByDigest [x2, x1]).Perm [x1, x2] :=
    (sortByDigest_perm _).trans (List.Perm.swap _ _ _)
  have hs2 : [x1, x2].Pairwise (fun a b => digestLe a b = true) := by
    simp [x1, x2, digestLe, Env.digest]
  refine List.Perm.eq_of_pairwise ?_ (sortByDigest_sorted _) hs2 hp
  intro a b ha hb hab hba
  rw [mem_sortByDigest] at ha
  simp only [List.mem_cons, List.not_mem_nil, or_false] at ha hb
  rcases ha with rfl | rfl <;> rcases hb with rfl | rfl <;>
    first | rfl | (simp [x1, x2, digestLe, Env.digest] at hab hba)

section
variable (A : Aead) (Z : Deflate)
theorem cex_run : elideSet ordH A Z (fun _ => false) false .elide cex = .ok (nodeOf ordH x0 [x1, x2]) := by
  rw [cex, nodeOf, elideSet_node_ok_iff ordH A Z _ _ _ rfl]
  refine ⟨x0, [x2, x1], rfl, rfl, rfl, by simp, ?_⟩
  simp only [mkNode, sort_x2_x1, nodeOf]

theorem cex_digest_ne : (nodeOf ordH x0 [x1, x2]).digest ≠ cex.digest := by decide +kernel

theorem cex_wrapped_panics : elideSet ordH A Z (fun _ => false) false .elide (newWrapped ordH cex) =
    .panic "elide.rs:elide_set_with_action:assert-wrapped" := by
  have hne : ((nodeOf ordH x0 [x1, x2]).digest != cex.digest) = true := by
    simpa using cex_digest_ne
  simp only [newWrapped, elideSet, cex_run, hne]
  rfl
end
end Sample
end EnvVerif

namespace EnvVerif
open Env

/-! ### byte-level facts about placeholders, and an `AgreeOutside` sample -/

theorem head_2_32 : Cbor.head 2 32 = [0x58, 0x20] := by decide
theorem head_6_200 : Cbor.head 6 200 = [0xd8, 0xc8] := by decide
theorem head_6_40001 : Cbor.head 6 40001 = [0xd9, 0x9c, 0x41] := by decide

theorem digestCbor_enc_nonempty (d : Digest) : ((digestCbor d).enc).isEmpty = false := by
  simp only [digestCbor, Cbor.enc, TAG_DIGEST, head_6_40001]
  rfl

theorem bne_false_fun (T : Digest → Bool) : (fun d => T d != false) = T := by funext d; simp
theorem bne_true_fun (T : Digest → Bool) : (fun d => T d != true) = (fun d => !T d) := by
  funext d; simp

namespace Sample

/-- target set: the digest of the first assertion of `e0` -/
def T3 : Digest → Bool := fun d => d == ⟨3⟩

theorem e0'_digest : e0'.digest = ⟨15⟩ := by decide +kernel

/-- `e0` and `e0'` differ (below the first assertion) but agree outside `T3` -/
theorem agree_e0_e0' : AgreeOutside T3 e0 e0' := by
  apply AgreeOutside.visible
  · exact ⟨e0_digest.trans e0'_digest.symm, rfl⟩
  · intro s c1 c2 h1 h2
    cases s <;> simp only [e0, e0', nodeOf, Env.child, reduceCtorEq] at h1 h2
    · cases h1; cases h2; exact AgreeOutside.refl _ _
    · rename_i i
      match i with
      | 0 =>
        simp at h1 h2; subst h1; subst h2
        exact AgreeOutside.hidden a1_digest (by rw [a1_digest]; rfl)
      | 1 => simp at h1 h2; subst h1; subst h2; exact AgreeOutside.refl _ _
      | n + 2 => simp at h1

theorem e0_ne_e0' : e0 ≠ e0' := by
  intro he
  simp only [e0, e0', nodeOf, a1, newAssertion, Env.node.injEq, List.cons.injEq, reduceCtorEq,
    false_and, and_false] at he

end Sample
end EnvVerif

