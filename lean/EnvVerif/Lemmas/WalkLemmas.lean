/-
  Lemmas/WalkLemmas.lean — helper definitions and lemmas for C14 (tokens, unique
  decodability of the structural image) and C15 (walk structure).
-/
import EnvVerif.Lemmas.AssembleLemmas
namespace EnvVerif
namespace AW
open Env

/-! ### list forms of the mutual walk functions -/

theorem walkStructureList_eq (as : List Env) (lvl : Nat) :
    walkStructureList as lvl = as.flatMap (fun a => walkStructure a lvl .assertion) := by
  induction as with
  | nil => simp [walkStructureList]
  | cons a as ih => simp [walkStructureList, ih]

theorem walkTreeList_eq (as : List Env) (lvl : Nat) :
    walkTreeList as lvl = as.flatMap (fun a => walkTree a lvl) := by
  induction as with
  | nil => simp [walkTreeList]
  | cons a as ih => simp [walkTreeList, ih]

theorem elementsList_eq (as : List Env) : elementsList as = as.flatMap elements := by
  induction as with
  | nil => simp [elementsList]
  | cons a as ih => simp [elementsList, ih]

theorem elementsCountList_eq (as : List Env) :
    elementsCountList as = (as.map elementsCount).sum := by
  induction as with
  | nil => simp [elementsCountList]
  | cons a as ih => simp [elementsCountList, ih]

/-! ### structure walk: elements, head, levels -/

mutual
theorem walkStructure_map_fst : (e : Env) → (lvl : Nat) → (edge : Edge) →
    (walkStructure e lvl edge).map (·.1) = elements e
  | .node s as d, lvl, edge => by
    simp [walkStructure, elements, walkStructure_map_fst s, walkStructureList_map_fst as]
  | .wrapped e d, lvl, edge => by simp [walkStructure, elements, walkStructure_map_fst e]
  | .assertion p o d, lvl, edge => by
    simp [walkStructure, elements, walkStructure_map_fst p, walkStructure_map_fst o]
  | .leaf .., _, _ => by simp [walkStructure, elements]
  | .elided .., _, _ => by simp [walkStructure, elements]
  | .knownValue .., _, _ => by simp [walkStructure, elements]
  | .encrypted .., _, _ => by simp [walkStructure, elements]
  | .compressed .., _, _ => by simp [walkStructure, elements]
theorem walkStructureList_map_fst : (as : List Env) → (lvl : Nat) →
    (walkStructureList as lvl).map (·.1) = elementsList as
  | [], _ => by simp [walkStructureList, elementsList]
  | a :: as, lvl => by
    simp [walkStructureList, elementsList, walkStructure_map_fst a, walkStructureList_map_fst as]
end

mutual
theorem elements_length : (e : Env) → (elements e).length = elementsCount e
  | .node s as d => by
    simp [elements, elementsCount, elements_length s, elementsList_length as]; omega
  | .wrapped e d => by simp [elements, elementsCount, elements_length e]; omega
  | .assertion p o d => by
    simp [elements, elementsCount, elements_length p, elements_length o]; omega
  | .leaf .. => by simp [elements, elementsCount]
  | .elided .. => by simp [elements, elementsCount]
  | .knownValue .. => by simp [elements, elementsCount]
  | .encrypted .. => by simp [elements, elementsCount]
  | .compressed .. => by simp [elements, elementsCount]
theorem elementsList_length : (as : List Env) → (elementsList as).length = elementsCountList as
  | [] => by simp [elementsList, elementsCountList]
  | a :: as => by
    simp [elementsList, elementsCountList, elements_length a, elementsList_length as]
end

theorem walkStructure_head (e : Env) (lvl : Nat) (edge : Edge) :
    ∃ rest, walkStructure e lvl edge = (e, lvl, edge) :: rest := by
  cases e <;> simp [walkStructure]

theorem elements_head (e : Env) : ∃ rest, elements e = e :: rest := by
  cases e <;> simp [elements]

/-- the child relation with the role of the child -/
inductive Child : Env → Edge → Env → Prop where
  | subject (s as d) : Child (.node s as d) .subject s
  | assertion (s as d a) : a ∈ as → Child (.node s as d) .assertion a
  | wrapped (e d) : Child (.wrapped e d) .wrapped e
  | predicate (p o d) : Child (.assertion p o d) .predicate p
  | object (p o d) : Child (.assertion p o d) .object o

mutual
/-- every visit after the first has a parent visit: one level up, related by `Child` with
the recorded edge kind -/
theorem walkStructure_parent : (e : Env) → (lvl : Nat) → (edge : Edge) →
    ∀ v ∈ (walkStructure e lvl edge).tail, ∃ pv ∈ walkStructure e lvl edge,
      Child pv.1 v.2.2 v.1 ∧ v.2.1 = pv.2.1 + 1
  | .node s as d, lvl, edge => by
    intro v hv
    simp only [walkStructure, List.tail_cons, List.mem_append] at hv
    rcases hv with hv | hv
    · obtain ⟨rest, hr⟩ := walkStructure_head s (lvl + 1) .subject
      rw [hr] at hv
      rcases List.mem_cons.1 hv with hv | hv
      · subst hv
        exact ⟨(.node s as d, lvl, edge), by simp [walkStructure], Child.subject s as d, rfl⟩
      · have hv' : v ∈ (walkStructure s (lvl + 1) .subject).tail := by rw [hr]; exact hv
        obtain ⟨pv, hpv, hc⟩ := walkStructure_parent s (lvl + 1) .subject v hv'
        exact ⟨pv, by simp [walkStructure, hpv], hc⟩
    · rcases walkStructureList_parent as (lvl + 1) v hv with ⟨a, ha, hva⟩ | ⟨pv, hpv, hc⟩
      · subst hva
        exact ⟨(.node s as d, lvl, edge), by simp [walkStructure], Child.assertion s as d a ha, rfl⟩
      · exact ⟨pv, by simp [walkStructure, hpv], hc⟩
  | .wrapped e d, lvl, edge => by
    intro v hv
    simp only [walkStructure, List.tail_cons] at hv
    obtain ⟨rest, hr⟩ := walkStructure_head e (lvl + 1) .wrapped
    rw [hr] at hv
    rcases List.mem_cons.1 hv with hv | hv
    · subst hv
      exact ⟨(.wrapped e d, lvl, edge), by simp [walkStructure], Child.wrapped e d, rfl⟩
    · have hv' : v ∈ (walkStructure e (lvl + 1) .wrapped).tail := by rw [hr]; exact hv
      obtain ⟨pv, hpv, hc⟩ := walkStructure_parent e (lvl + 1) .wrapped v hv'
      exact ⟨pv, by simp [walkStructure, hpv], hc⟩
  | .assertion p o d, lvl, edge => by
    intro v hv
    simp only [walkStructure, List.tail_cons, List.mem_append] at hv
    rcases hv with hv | hv
    · obtain ⟨rest, hr⟩ := walkStructure_head p (lvl + 1) .predicate
      rw [hr] at hv
      rcases List.mem_cons.1 hv with hv | hv
      · subst hv
        exact ⟨(.assertion p o d, lvl, edge), by simp [walkStructure], Child.predicate p o d, rfl⟩
      · have hv' : v ∈ (walkStructure p (lvl + 1) .predicate).tail := by rw [hr]; exact hv
        obtain ⟨pv, hpv, hc⟩ := walkStructure_parent p (lvl + 1) .predicate v hv'
        exact ⟨pv, by simp [walkStructure, hpv], hc⟩
    · obtain ⟨rest, hr⟩ := walkStructure_head o (lvl + 1) .object
      rw [hr] at hv
      rcases List.mem_cons.1 hv with hv | hv
      · subst hv
        exact ⟨(.assertion p o d, lvl, edge), by simp [walkStructure], Child.object p o d, rfl⟩
      · have hv' : v ∈ (walkStructure o (lvl + 1) .object).tail := by rw [hr]; exact hv
        obtain ⟨pv, hpv, hc⟩ := walkStructure_parent o (lvl + 1) .object v hv'
        exact ⟨pv, by simp [walkStructure, hpv], hc⟩
  | .leaf .., _, _ => by simp [walkStructure]
  | .elided .., _, _ => by simp [walkStructure]
  | .knownValue .., _, _ => by simp [walkStructure]
  | .encrypted .., _, _ => by simp [walkStructure]
  | .compressed .., _, _ => by simp [walkStructure]
theorem walkStructureList_parent : (as : List Env) → (lvl : Nat) →
    ∀ v ∈ walkStructureList as lvl,
      (∃ a ∈ as, v = (a, lvl, Edge.assertion)) ∨
      (∃ pv ∈ walkStructureList as lvl, Child pv.1 v.2.2 v.1 ∧ v.2.1 = pv.2.1 + 1)
  | [], _ => by simp [walkStructureList]
  | a :: as, lvl => by
    intro v hv
    simp only [walkStructureList, List.mem_append] at hv
    rcases hv with hv | hv
    · obtain ⟨rest, hr⟩ := walkStructure_head a lvl .assertion
      rw [hr] at hv
      rcases List.mem_cons.1 hv with hv | hv
      · exact Or.inl ⟨a, by simp, hv⟩
      · have hv' : v ∈ (walkStructure a lvl .assertion).tail := by rw [hr]; exact hv
        obtain ⟨pv, hpv, hc⟩ := walkStructure_parent a lvl .assertion v hv'
        exact Or.inr ⟨pv, by simp [walkStructureList, hpv], hc⟩
    · rcases walkStructureList_parent as lvl v hv with ⟨b, hb, hvb⟩ | ⟨pv, hpv, hc⟩
      · exact Or.inl ⟨b, by simp [hb], hvb⟩
      · exact Or.inr ⟨pv, by simp [walkStructureList, hpv], hc⟩
end

theorem walk_all_of_tail {e : Env} {lvl : Nat} {edge : Edge}
    (ht : ∀ v ∈ (walkStructure e lvl edge).tail, lvl < v.2.1 ∧ v.2.2 ≠ Edge.none)
    (hne : edge ≠ .none) :
    ∀ v ∈ walkStructure e lvl edge, lvl ≤ v.2.1 ∧ v.2.2 ≠ Edge.none := by
  intro v hv
  obtain ⟨rest, hr⟩ := walkStructure_head e lvl edge
  rw [hr] at hv ht
  rcases List.mem_cons.1 hv with hv | hv
  · subst hv; exact ⟨Nat.le_refl _, hne⟩
  · have := ht v hv
    exact ⟨by omega, this.2⟩

mutual
/-- descendants are strictly deeper and never carry the edge `none` -/
theorem walkStructure_tail_level : (e : Env) → (lvl : Nat) → (edge : Edge) →
    ∀ v ∈ (walkStructure e lvl edge).tail, lvl < v.2.1 ∧ v.2.2 ≠ Edge.none
  | .node s as d, lvl, edge => by
    intro v hv
    simp only [walkStructure, List.tail_cons, List.mem_append] at hv
    rcases hv with hv | hv
    · have := walk_all_of_tail (walkStructure_tail_level s (lvl + 1) .subject) (by simp) v hv
      exact ⟨by omega, this.2⟩
    · have := walkStructureList_level as (lvl + 1) v hv
      exact ⟨by omega, this.2⟩
  | .wrapped e d, lvl, edge => by
    intro v hv
    simp only [walkStructure, List.tail_cons] at hv
    have := walk_all_of_tail (walkStructure_tail_level e (lvl + 1) .wrapped) (by simp) v hv
    exact ⟨by omega, this.2⟩
  | .assertion p o d, lvl, edge => by
    intro v hv
    simp only [walkStructure, List.tail_cons, List.mem_append] at hv
    rcases hv with hv | hv
    · have := walk_all_of_tail (walkStructure_tail_level p (lvl + 1) .predicate) (by simp) v hv
      exact ⟨by omega, this.2⟩
    · have := walk_all_of_tail (walkStructure_tail_level o (lvl + 1) .object) (by simp) v hv
      exact ⟨by omega, this.2⟩
  | .leaf .., _, _ => by simp [walkStructure]
  | .elided .., _, _ => by simp [walkStructure]
  | .knownValue .., _, _ => by simp [walkStructure]
  | .encrypted .., _, _ => by simp [walkStructure]
  | .compressed .., _, _ => by simp [walkStructure]
theorem walkStructureList_level : (as : List Env) → (lvl : Nat) →
    ∀ v ∈ walkStructureList as lvl, lvl ≤ v.2.1 ∧ v.2.2 ≠ Edge.none
  | [], _ => by simp [walkStructureList]
  | a :: as, lvl => by
    intro v hv
    simp only [walkStructureList, List.mem_append] at hv
    rcases hv with hv | hv
    · exact walk_all_of_tail (walkStructure_tail_level a lvl .assertion) (by simp) v hv
    · exact walkStructureList_level as lvl v hv
end

/-! ### subtree contiguity: parents first, descendants immediately after -/

/-- every suffix of `l` that starts at a visit begins with the complete walk of that visit's
element (at the recorded level and edge) -/
def Contig (l : List Visit) : Prop :=
  ∀ pre v post, l = pre ++ v :: post → ∃ suf, v :: post = walkStructure v.1 v.2.1 v.2.2 ++ suf

theorem Contig.nil : Contig [] := by
  intro pre v post h
  simp at h

theorem Contig.append {A B : List Visit} (hA : Contig A) (hB : Contig B) : Contig (A ++ B) := by
  intro pre v post h
  rcases List.append_eq_append_iff.1 h with ⟨a', hpre, hb⟩ | ⟨c', ha, hd⟩
  · exact hB a' v post hb
  · cases c' with
    | nil =>
      simp only [List.nil_append] at hd
      exact hB [] v post (by simp [hd])
    | cons v' c'' =>
      simp only [List.cons_append, List.cons.injEq] at hd
      obtain ⟨hv, hpost⟩ := hd
      subst hv
      obtain ⟨suf, hs⟩ := hA pre v c'' ha
      refine ⟨suf ++ B, ?_⟩
      rw [hpost, ← List.append_assoc, ← hs]
      rfl

theorem Contig.cons {e : Env} {lvl : Nat} {edge : Edge} {R : List Visit}
    (hw : walkStructure e lvl edge = (e, lvl, edge) :: R) (hR : Contig R) :
    Contig (walkStructure e lvl edge) := by
  intro pre v post h
  rw [hw] at h
  cases pre with
  | nil =>
    simp only [List.nil_append, List.cons.injEq] at h
    obtain ⟨hv, hpost⟩ := h
    subst hv; subst hpost
    exact ⟨[], by simp [hw]⟩
  | cons x pre' =>
    simp only [List.cons_append, List.cons.injEq] at h
    exact hR pre' v post h.2

mutual
theorem walkStructure_contig : (e : Env) → (lvl : Nat) → (edge : Edge) →
    Contig (walkStructure e lvl edge)
  | .node s as d, lvl, edge =>
    Contig.cons (by simp [walkStructure])
      ((walkStructure_contig s (lvl + 1) .subject).append (walkStructureList_contig as (lvl + 1)))
  | .wrapped e d, lvl, edge =>
    Contig.cons (by simp [walkStructure]) (walkStructure_contig e (lvl + 1) .wrapped)
  | .assertion p o d, lvl, edge =>
    Contig.cons (by simp [walkStructure])
      ((walkStructure_contig p (lvl + 1) .predicate).append (walkStructure_contig o (lvl + 1) .object))
  | .leaf .., _, _ => Contig.cons (by simp [walkStructure]) Contig.nil
  | .elided .., _, _ => Contig.cons (by simp [walkStructure]) Contig.nil
  | .knownValue .., _, _ => Contig.cons (by simp [walkStructure]) Contig.nil
  | .encrypted .., _, _ => Contig.cons (by simp [walkStructure]) Contig.nil
  | .compressed .., _, _ => Contig.cons (by simp [walkStructure]) Contig.nil
theorem walkStructureList_contig : (as : List Env) → (lvl : Nat) →
    Contig (walkStructureList as lvl)
  | [], _ => by simp only [walkStructureList]; exact Contig.nil
  | a :: as, lvl => by
    simp only [walkStructureList]
    exact (walkStructure_contig a lvl .assertion).append (walkStructureList_contig as lvl)
end

theorem child_mem_tail {x c : Env} {role : Edge} (hc : Child x role c) (l : Nat) (ed : Edge) :
    (c, l + 1, role) ∈ (walkStructure x l ed).tail := by
  obtain ⟨rest, hr⟩ := walkStructure_head c (l + 1) role
  cases hc with
  | subject s as d => simp [walkStructure, hr]
  | assertion s as d a ha =>
    simp only [walkStructure, List.tail_cons, List.mem_append, walkStructureList_eq, List.mem_flatMap]
    exact Or.inr ⟨c, ha, by simp [hr]⟩
  | wrapped e d => simp [walkStructure, hr]
  | predicate p o d => simp [walkStructure, hr]
  | object p o d => simp [walkStructure, hr]

/-! ### tree walk -/

mutual
theorem walkTree_map_fst : (e : Env) → (lvl : Nat) →
    (walkTree e lvl).map (·.1) = (elements e).filter (fun x => !x.isNode)
  | .node s as d, lvl => by
    simp [walkTree, elements, isNode, walkTree_map_fst s, walkTreeList_map_fst as]
  | .wrapped e d, lvl => by simp [walkTree, elements, isNode, walkTree_map_fst e]
  | .assertion p o d, lvl => by
    simp [walkTree, elements, isNode, walkTree_map_fst p, walkTree_map_fst o]
  | .leaf .., _ => by simp [walkTree, elements, isNode]
  | .elided .., _ => by simp [walkTree, elements, isNode]
  | .knownValue .., _ => by simp [walkTree, elements, isNode]
  | .encrypted .., _ => by simp [walkTree, elements, isNode]
  | .compressed .., _ => by simp [walkTree, elements, isNode]
theorem walkTreeList_map_fst : (as : List Env) → (lvl : Nat) →
    (walkTreeList as lvl).map (·.1) = (elementsList as).filter (fun x => !x.isNode)
  | [], _ => by simp [walkTreeList, elementsList]
  | a :: as, lvl => by
    simp [walkTreeList, elementsList, walkTree_map_fst a, walkTreeList_map_fst as]
end

mutual
theorem walkTree_edges : (e : Env) → (lvl : Nat) →
    ∀ v ∈ walkTree e lvl, v.2.2 = Edge.none ∧ lvl ≤ v.2.1
  | .node s as d, lvl => by
    intro v hv
    simp only [walkTree, List.mem_append] at hv
    rcases hv with hv | hv
    · exact walkTree_edges s lvl v hv
    · have := walkTreeList_edges as (lvl + 1) v hv
      exact ⟨this.1, by omega⟩
  | .wrapped e d, lvl => by
    intro v hv
    simp only [walkTree, List.mem_cons] at hv
    rcases hv with hv | hv
    · subst hv; exact ⟨rfl, Nat.le_refl _⟩
    · have := walkTree_edges e (lvl + 1) v hv
      exact ⟨this.1, by omega⟩
  | .assertion p o d, lvl => by
    intro v hv
    simp only [walkTree, List.mem_cons, List.mem_append] at hv
    rcases hv with hv | hv | hv
    · subst hv; exact ⟨rfl, Nat.le_refl _⟩
    · have := walkTree_edges p (lvl + 1) v hv
      exact ⟨this.1, by omega⟩
    · have := walkTree_edges o (lvl + 1) v hv
      exact ⟨this.1, by omega⟩
  | .leaf .., _ => by simp [walkTree]
  | .elided .., _ => by simp [walkTree]
  | .knownValue .., _ => by simp [walkTree]
  | .encrypted .., _ => by simp [walkTree]
  | .compressed .., _ => by simp [walkTree]
theorem walkTreeList_edges : (as : List Env) → (lvl : Nat) →
    ∀ v ∈ walkTreeList as lvl, v.2.2 = Edge.none ∧ lvl ≤ v.2.1
  | [], _ => by simp [walkTreeList]
  | a :: as, lvl => by
    intro v hv
    simp only [walkTreeList, List.mem_append] at hv
    rcases hv with hv | hv
    · exact walkTree_edges a lvl v hv
    · exact walkTreeList_edges as lvl v hv
end

/-! ### tokens of the structural image (C14) -/

/-- the discriminator byte `structural_digest` prepends for an obscured element -/
def disc : Env → Option UInt8
  | .elided _ => some 1
  | .encrypted .. => some 0
  | .compressed .. => some 2
  | _ => none

/-- the token of one walked element -/
def tok (x : Env) : Option UInt8 × Digest := (disc x, x.digest)

/-- one token per walked element, in walk order -/
def tokens (e : Env) : List (Option UInt8 × Digest) :=
  (walkStructure e 0 .none).map fun v => tok v.1

/-- the bytes a token contributes to the image: no framing -/
def tokenBytes (t : Option UInt8 × Digest) : Bytes := t.1.toList ++ t.2.bytes

theorem tokens_eq_elements (e : Env) : tokens e = (elements e).map tok := by
  rw [← walkStructure_map_fst e 0 .none, tokens, List.map_map]
  rfl

theorem structuralImage_eq_tokens (e : Env) :
    structuralImage e = (tokens e).flatMap tokenBytes := by
  unfold structuralImage tokens
  generalize walkStructure e 0 .none = l
  induction l with
  | nil => rfl
  | cons v l ih =>
    simp only [List.flatMap_cons, List.map_cons, ih]
    congr 1
    obtain ⟨x, lvl, ed⟩ := v
    cases x <;> rfl

theorem disc_cases (x : Env) : disc x = none ∨ disc x = some 0 ∨ disc x = some 1 ∨ disc x = some 2 := by
  cases x <;> simp [disc]

theorem disc_eq_none_iff (x : Env) : disc x = none ↔ x.isObscured = false := by
  cases x <;> simp [disc, isObscured, isElided, isEncrypted, isCompressed]

/-! ### digests as 32 big-endian bytes: injective on valid digests -/

theorem beBytes_inj : ∀ (n a b : Nat), a < 256 ^ n → b < 256 ^ n → beBytes n a = beBytes n b → a = b
  | 0, a, b, ha, hb, _ => by simp at ha hb; omega
  | n + 1, a, b, ha, hb, h => by
    simp only [beBytes] at h
    have hl : (beBytes n (a / 256)).length = (beBytes n (b / 256)).length := by
      simp [beBytes_length]
    obtain ⟨h1, h2⟩ := List.append_inj h hl
    rw [Nat.pow_succ] at ha hb
    have ha' : a / 256 < 256 ^ n := Nat.div_lt_of_lt_mul (by omega)
    have hb' : b / 256 < 256 ^ n := Nat.div_lt_of_lt_mul (by omega)
    have h3 := beBytes_inj n _ _ ha' hb' h1
    simp only [List.cons.injEq, and_true] at h2
    have h4 : (UInt8.ofNat (a % 256)).toNat = (UInt8.ofNat (b % 256)).toNat := by rw [h2]
    simp only [UInt8.toNat_ofNat'] at h4
    omega

theorem digestBytes_inj {d1 d2 : Digest} (h1 : d1.Valid) (h2 : d2.Valid)
    (h : d1.bytes = d2.bytes) : d1 = d2 := by
  have hp : (2 : Nat) ^ 256 = 256 ^ 32 := by decide
  unfold Digest.Valid at h1 h2
  rw [hp] at h1 h2
  have := beBytes_inj 32 d1.val d2.val h1 h2 h
  cases d1; cases d2; simp_all

/-! ### unique decodability of the token stream -/

/-- a token without discriminator does not start with a byte that could be read as one -/
def PlainHeadOk (t : Option UInt8 × Digest) : Prop :=
  t.1 = none → ∀ c, t.2.bytes.head? = some c → c ≠ 0 ∧ c ≠ 1 ∧ c ≠ 2

def DiscOk (t : Option UInt8 × Digest) : Prop :=
  t.1 = none ∨ t.1 = some 0 ∨ t.1 = some 1 ∨ t.1 = some 2

/-- token with the digest replaced by its 32 bytes -/
def tokB (t : Option UInt8 × Digest) : Option UInt8 × Bytes := (t.1, t.2.bytes)

theorem tokenBytes_length_ge (t : Option UInt8 × Digest) : 32 ≤ (tokenBytes t).length := by
  simp [tokenBytes, bytes_length32]

theorem flat_length_ge (l : List (Option UInt8 × Digest)) :
    32 * l.length ≤ (l.flatMap tokenBytes).length := by
  induction l with
  | nil => simp
  | cons t l ih =>
    have := tokenBytes_length_ge t
    simp only [List.flatMap_cons, List.length_append, List.length_cons]
    omega

theorem flat_inj : ∀ (l1 l2 : List (Option UInt8 × Digest)),
    (∀ t ∈ l1, PlainHeadOk t ∧ DiscOk t) → (∀ t ∈ l2, PlainHeadOk t ∧ DiscOk t) →
    l1.flatMap tokenBytes = l2.flatMap tokenBytes → l1.map tokB = l2.map tokB
  | [], [], _, _, _ => rfl
  | [], t :: l2, _, _, h => by
    have := flat_length_ge (t :: l2)
    rw [← h] at this
    simp at this
  | t :: l1, [], _, _, h => by
    have := flat_length_ge (t :: l1)
    rw [h] at this
    simp at this
  | (o1, d1) :: l1, (o2, d2) :: l2, h1, h2, h => by
    have ih := flat_inj l1 l2 (fun t ht => h1 t (by simp [ht])) (fun t ht => h2 t (by simp [ht]))
    have hl : d1.bytes.length = d2.bytes.length := by simp [bytes_length32]
    have ht1 := h1 (o1, d1) (by simp)
    have ht2 := h2 (o2, d2) (by simp)
    simp only [List.flatMap_cons, tokenBytes] at h
    cases o1 with
    | none =>
      cases o2 with
      | none =>
        simp only [Option.toList_none, List.nil_append] at h
        obtain ⟨ha, hb⟩ := List.append_inj h hl
        simp only [List.map_cons, tokB, ha, ih hb]
      | some c =>
        exfalso
        have hlen := bytes_length32 d1
        cases hb : d1.bytes with
        | nil => rw [hb] at hlen; simp at hlen
        | cons b r =>
          rw [hb] at h
          simp only [Option.toList_none, List.nil_append, Option.toList_some, List.cons_append,
            List.cons.injEq] at h
          have hbc : b = c := h.1
          have hh := ht1.1 rfl b (by simp [hb])
          rcases ht2.2 with hd | hd | hd | hd <;> simp at hd <;> simp_all
    | some c =>
      cases o2 with
      | none =>
        exfalso
        have hlen := bytes_length32 d2
        cases hb : d2.bytes with
        | nil => rw [hb] at hlen; simp at hlen
        | cons b r =>
          rw [hb] at h
          simp only [Option.toList_none, List.nil_append, Option.toList_some, List.cons_append,
            List.cons.injEq] at h
          have hbc : c = b := h.1
          have hh := ht2.1 rfl b (by simp [hb])
          rcases ht1.2 with hd | hd | hd | hd <;> simp at hd <;> simp_all
      | some c' =>
        simp only [Option.toList_some, List.cons_append, List.nil_append, List.cons.injEq] at h
        obtain ⟨hc, h⟩ := h
        obtain ⟨ha, hb⟩ := List.append_inj h hl
        simp only [List.map_cons, tokB, ha, hc, ih hb]

theorem map_tokB_inj : ∀ (l1 l2 : List (Option UInt8 × Digest)),
    (∀ t ∈ l1, t.2.Valid) → (∀ t ∈ l2, t.2.Valid) → l1.map tokB = l2.map tokB → l1 = l2
  | [], [], _, _, _ => rfl
  | [], _ :: _, _, _, h => by simp at h
  | _ :: _, [], _, _, h => by simp at h
  | (o1, d1) :: l1, (o2, d2) :: l2, h1, h2, h => by
    simp only [List.map_cons, List.cons.injEq, tokB, Prod.mk.injEq] at h
    obtain ⟨⟨ho, hd⟩, hr⟩ := h
    have : d1 = d2 := digestBytes_inj (h1 (o1, d1) (by simp)) (h2 (o2, d2) (by simp)) hd
    have ih := map_tokB_inj l1 l2 (fun t ht => h1 t (by simp [ht])) (fun t ht => h2 t (by simp [ht])) hr
    rw [ho, this, ih]

/-- the hypothesis of `image_injective`: no non-obscured walked element has a digest whose
first byte is 0, 1 or 2 -/
def PlainHeadsOk (e : Env) : Prop :=
  ∀ x ∈ elements e, x.isObscured = false →
    ∀ c, x.digest.bytes.head? = some c → c ≠ 0 ∧ c ≠ 1 ∧ c ≠ 2

/-- every walked digest is a 256-bit value -/
def DigestsValid (e : Env) : Prop := ∀ x ∈ elements e, x.digest.Valid

theorem tokens_ok {e : Env} (he : PlainHeadsOk e) : ∀ t ∈ tokens e, PlainHeadOk t ∧ DiscOk t := by
  intro t ht
  rw [tokens_eq_elements, List.mem_map] at ht
  obtain ⟨x, hx, rfl⟩ := ht
  refine ⟨?_, disc_cases x⟩
  intro hn
  exact he x hx ((disc_eq_none_iff x).1 hn)

/-! ### eliding the root -/

theorem elide_of_not_obscured {e : Env} (he : e.isObscured = false) : elide e = .elided e.digest := by
  cases e <;> simp [isObscured, isElided, isEncrypted, isCompressed] at he <;> rfl

theorem tokens_head (e : Env) : ∃ rest, tokens e = tok e :: rest := by
  obtain ⟨rest, hr⟩ := walkStructure_head e 0 .none
  exact ⟨rest.map fun v => tok v.1, by simp [tokens, hr]⟩

theorem tokens_elided (d : Digest) : tokens (.elided d) = [(some 1, d)] := by
  simp [tokens, walkStructure, tok, disc, Env.digest]

theorem image_elide_ne {e : Env} (he : e.isObscured = false) :
    structuralImage (elide e) ≠ structuralImage e := by
  rw [elide_of_not_obscured he, structuralImage_eq_tokens, structuralImage_eq_tokens, tokens_elided]
  obtain ⟨rest, hr⟩ := tokens_head e
  rw [hr]
  intro h
  have hl := congrArg List.length h
  have hd : disc e = none := (disc_eq_none_iff e).2 he
  simp only [List.flatMap_cons, List.flatMap_nil, List.append_nil, tokenBytes, tok, hd,
    Option.toList_some, Option.toList_none, List.nil_append, List.length_append, List.length_cons,
    List.length_nil, bytes_length32] at hl
  have := flat_length_ge rest
  cases rest with
  | nil => simp at hl
  | cons t rest => simp only [List.length_cons] at this; omega

/-! ### eliding a target set: the tokens change at the first hit that is not already elided -/

/-- the two token lists agree up to a position where the discriminators differ -/
def TokDiff (l1 l2 : List (Option UInt8 × Digest)) : Prop :=
  ∃ pre t1 t2 s1 s2, l1 = pre ++ t1 :: s1 ∧ l2 = pre ++ t2 :: s2 ∧ t1.1 ≠ t2.1

theorem TokDiff.ne {l1 l2 : List (Option UInt8 × Digest)} (hd : TokDiff l1 l2) : l1 ≠ l2 := by
  obtain ⟨pre, t1, t2, s1, s2, h1, h2, hne⟩ := hd
  intro h
  rw [h1, h2] at h
  have := List.append_cancel_left h
  simp only [List.cons.injEq] at this
  exact hne (by rw [this.1])

theorem TokDiff.tokB_ne {l1 l2 : List (Option UInt8 × Digest)} (hd : TokDiff l1 l2) :
    l1.map tokB ≠ l2.map tokB := by
  obtain ⟨pre, t1, t2, s1, s2, h1, h2, hne⟩ := hd
  intro h
  rw [h1, h2] at h
  simp only [List.map_append, List.map_cons] at h
  have := List.append_cancel_left h
  simp only [List.cons.injEq, tokB, Prod.mk.injEq] at this
  exact hne this.1.1

theorem TokDiff.embed {l1 l2 : List (Option UInt8 × Digest)} (hd : TokDiff l1 l2)
    (p q1 q2 : List (Option UInt8 × Digest)) : TokDiff (p ++ l1 ++ q1) (p ++ l2 ++ q2) := by
  obtain ⟨pre, t1, t2, s1, s2, h1, h2, hne⟩ := hd
  exact ⟨p ++ pre, t1, t2, s1 ++ q1, s2 ++ q2, by simp [h1], by simp [h2], hne⟩

/-- some listed element is in the target set and is not already elided -/
def HitNE (T : Digest → Bool) (l : List Env) : Prop :=
  ∃ x ∈ l, T x.digest = true ∧ x.isElided = false

theorem HitNE.append_iff {T : Digest → Bool} {l1 l2 : List Env} :
    HitNE T (l1 ++ l2) ↔ HitNE T l1 ∨ HitNE T l2 := by
  simp only [HitNE, List.mem_append]
  constructor
  · rintro ⟨x, hx | hx, h⟩
    · exact Or.inl ⟨x, hx, h⟩
    · exact Or.inr ⟨x, hx, h⟩
  · rintro (⟨x, hx, h⟩ | ⟨x, hx, h⟩)
    · exact ⟨x, Or.inl hx, h⟩
    · exact ⟨x, Or.inr hx, h⟩

theorem HitNE.cons_iff {T : Digest → Bool} {a : Env} {l : List Env} :
    HitNE T (a :: l) ↔ (T a.digest = true ∧ a.isElided = false) ∨ HitNE T l := by
  simp only [HitNE, List.mem_cons]
  constructor
  · rintro ⟨x, hx | hx, h⟩
    · subst hx; exact Or.inl h
    · exact Or.inr ⟨x, hx, h⟩
  · rintro (h | ⟨x, hx, h⟩)
    · exact ⟨a, Or.inl rfl, h⟩
    · exact ⟨x, Or.inr hx, h⟩

/-- what the induction proves about one element -/
def ElideGoal (T : Digest → Bool) (e r : Env) : Prop :=
  r.digest = e.digest ∧ (¬ HitNE T (elements e) → r = e) ∧
    (HitNE T (elements e) → TokDiff ((elements e).map tok) ((elements r).map tok))

def ElideGoalList (T : Digest → Bool) (as rs : List Env) : Prop :=
  rs.map Env.digest = as.map Env.digest ∧ (¬ HitNE T (elementsList as) → rs = as) ∧
    (HitNE T (elementsList as) → TokDiff ((elementsList as).map tok) ((elementsList rs).map tok))

theorem elide_of_not_elided {e : Env} (he : e.isElided = false) : elide e = .elided e.digest := by
  cases e <;> simp [isElided] at he <;> rfl

theorem elide_of_elided {e : Env} (he : e.isElided = true) : elide e = e := by
  cases e <;> simp [isElided] at he <;> rfl

theorem disc_ne_of_not_elided {x : Env} (hx : x.isElided = false) : disc x ≠ some 1 := by
  cases x <;> simp [isElided] at hx <;> simp [disc]

theorem mem_elements_self (e : Env) : e ∈ elements e := by
  obtain ⟨rest, hr⟩ := elements_head e
  rw [hr]; simp

theorem elideGoal_root_hit {T : Digest → Bool} {e : Env} (hT : T e.digest = true) :
    ElideGoal T e (elide e) := by
  cases he : e.isElided with
  | true =>
    rw [elide_of_elided he]
    refine ⟨rfl, fun _ => rfl, ?_⟩
    rintro ⟨x, hx, _, hxe⟩
    cases e <;> simp [isElided] at he
    simp only [elements, List.mem_singleton] at hx
    subst hx
    simp [isElided] at hxe
  | false =>
    rw [elide_of_not_elided he]
    refine ⟨rfl, fun hn => absurd ⟨e, mem_elements_self e, hT, he⟩ hn, fun _ => ?_⟩
    obtain ⟨rest, hr⟩ := elements_head e
    refine ⟨[], tok e, (some 1, e.digest), rest.map tok, [], by simp [hr], by simp [elements, tok, disc, Env.digest], ?_⟩
    exact disc_ne_of_not_elided he

theorem elideGoal_unchanged {T : Digest → Bool} {e : Env} (hn : ¬ HitNE T (elements e)) :
    ElideGoal T e e :=
  ⟨rfl, fun _ => rfl, fun hh => absurd hh hn⟩

theorem asc_of_map_digest {as rs : List Env} (hm : rs.map Env.digest = as.map Env.digest)
    (ha : AscDigests as) : AscDigests rs := by
  have h1 : (as.map Env.digest).Pairwise (fun a b => a.val < b.val) :=
    (List.pairwise_map (f := Env.digest) (R := fun a b : Digest => a.val < b.val)).2 ha
  rw [← hm] at h1
  exact (List.pairwise_map (f := Env.digest) (R := fun a b : Digest => a.val < b.val)).1 h1

section
variable (h : Hash) (A : Aead) (Z : Deflate) (T : Digest → Bool)

mutual
theorem elideSet_goal : (e : Env) → (r : Env) → WF h e → Canon e →
    elideSet h A Z T false .elide e = .ok r → ElideGoal T e r
  | .assertion p o d, r, hw, hc, hr => by
    simp only [elideSet, bne_iff_ne, ne_eq, Bool.not_eq_false] at hr
    split at hr
    · rename_i hT
      simp only [obscure, Res.ok.injEq] at hr
      subst hr
      exact elideGoal_root_hit (e := .assertion p o d) hT
    · rename_i hT
      simp only [WF] at hw
      simp only [Canon] at hc
      cases hp : elideSet h A Z T false .elide p with
      | err x => simp [hp] at hr
      | panic x => simp [hp] at hr
      | ok p' =>
        cases ho : elideSet h A Z T false .elide o with
        | err x => simp [hp, ho] at hr
        | panic x => simp [hp, ho] at hr
        | ok o' =>
          simp only [hp, ho] at hr
          split at hr
          · rename_i hdig
            simp only [Res.ok.injEq] at hr
            subst hr
            obtain ⟨hpd, hpn, hph⟩ := elideSet_goal p p' hw.1 hc.1 hp
            obtain ⟨hod, hon, hoh⟩ := elideSet_goal o o' hw.2.1 hc.2 ho
            have hself : ¬ (T (Env.assertion p o d).digest = true ∧ (Env.assertion p o d).isElided = false) := by
              simp only [Env.digest]; intro hh; exact hT hh.1
            have hd' : h.ofDigests [p'.digest, o'.digest] = d := beq_iff_eq.1 hdig
            simp only [newAssertion, hd']
            refine ⟨rfl, ?_, ?_⟩
            · intro hn
              simp only [elements, HitNE.cons_iff, HitNE.append_iff, not_or] at hn
              rw [hpn hn.2.1, hon hn.2.2]
            · intro hh
              simp only [elements, HitNE.cons_iff, HitNE.append_iff] at hh
              simp only [elements, List.map_cons, List.map_append]
              rcases hh with hh | hh | hh
              · exact absurd hh hself
              · have := (hph hh).embed [tok (.assertion p o d)] ((elements o).map tok) ((elements o').map tok)
                simpa [tok, disc, Env.digest] using this
              · by_cases hhp : HitNE T (elements p)
                · have := (hph hhp).embed [tok (.assertion p o d)] ((elements o).map tok) ((elements o').map tok)
                  simpa [tok, disc, Env.digest] using this
                · rw [hpn hhp]
                  have := (hoh hh).embed (tok (.assertion p o d) :: (elements p).map tok) [] []
                  simpa [tok, disc, Env.digest] using this
          · simp at hr
  | .node s as d, r, hw, hc, hr => by
    simp only [elideSet, bne_iff_ne, ne_eq, Bool.not_eq_false] at hr
    split at hr
    · rename_i hT
      simp only [obscure, Res.ok.injEq] at hr
      subst hr
      exact elideGoal_root_hit (e := .node s as d) hT
    · rename_i hT
      simp only [WF] at hw
      simp only [Canon] at hc
      cases hs : elideSet h A Z T false .elide s with
      | err x => simp [hs] at hr
      | panic x => simp [hs] at hr
      | ok s' =>
        simp only [hs] at hr
        split at hr
        · simp at hr
        · rename_i hsd
          cases hl : elideSetList h A Z T false .elide as with
          | err x => simp [hl] at hr
          | panic x => simp [hl] at hr
          | ok as' =>
            simp only [hl] at hr
            obtain ⟨hsd', hsn, hsh⟩ := elideSet_goal s s' hw.1 hc.1 hs
            obtain ⟨hld, hln, hlh⟩ := elideSetList_goal as as' hw.2.1 hc.2.1 hl
            have hne : as' ≠ [] := by
              intro hnil
              rw [hnil] at hld
              simp only [List.map_nil] at hld
              exact hc.2.2.1 (List.map_eq_nil_iff.1 hld.symm)
            rw [newNodeUnchecked_ne hne, sortByDigest_of_asc (asc_of_map_digest hld hc.2.2.2.1)] at hr
            simp only [Res.ok.injEq] at hr
            subst hr
            have hdd : h.ofDigests (s'.digest :: as'.map Env.digest) = d := by
              rw [hsd', hld, ← hw.2.2]
            have hself : ¬ (T (Env.node s as d).digest = true ∧ (Env.node s as d).isElided = false) := by
              simp only [Env.digest]; intro hh; exact hT hh.1
            simp only [nodeOf, hdd]
            refine ⟨rfl, ?_, ?_⟩
            · intro hn
              simp only [elements, HitNE.cons_iff, HitNE.append_iff, not_or] at hn
              rw [hsn hn.2.1, hln hn.2.2]
            · intro hh
              simp only [elements, HitNE.cons_iff, HitNE.append_iff] at hh
              simp only [elements, List.map_cons, List.map_append]
              rcases hh with hh | hh | hh
              · exact absurd hh hself
              · have := (hsh hh).embed [tok (.node s as d)] ((elementsList as).map tok) ((elementsList as').map tok)
                simpa [tok, disc, Env.digest] using this
              · by_cases hhs : HitNE T (elements s)
                · have := (hsh hhs).embed [tok (.node s as d)] ((elementsList as).map tok) ((elementsList as').map tok)
                  simpa [tok, disc, Env.digest] using this
                · rw [hsn hhs]
                  have := (hlh hh).embed (tok (.node s as d) :: (elements s).map tok) [] []
                  simpa [tok, disc, Env.digest] using this
  | .wrapped e d, r, hw, hc, hr => by
    simp only [elideSet, bne_iff_ne, ne_eq, Bool.not_eq_false] at hr
    split at hr
    · rename_i hT
      simp only [obscure, Res.ok.injEq] at hr
      subst hr
      exact elideGoal_root_hit (e := .wrapped e d) hT
    · rename_i hT
      simp only [WF] at hw
      simp only [Canon] at hc
      cases he : elideSet h A Z T false .elide e with
      | err x => simp [he] at hr
      | panic x => simp [he] at hr
      | ok e' =>
        simp only [he] at hr
        split at hr
        · simp at hr
        · rename_i hed
          simp only [Res.ok.injEq] at hr
          subst hr
          obtain ⟨hed', hen, heh⟩ := elideSet_goal e e' hw.1 hc he
          have hself : ¬ (T (Env.wrapped e d).digest = true ∧ (Env.wrapped e d).isElided = false) := by
            simp only [Env.digest]; intro hh; exact hT hh.1
          have hdd : h.ofDigests [e'.digest] = d := by rw [hed', ← hw.2]
          simp only [newWrapped, hdd]
          refine ⟨rfl, ?_, ?_⟩
          · intro hn
            simp only [elements, HitNE.cons_iff, not_or] at hn
            rw [hen hn.2]
          · intro hh
            simp only [elements, HitNE.cons_iff] at hh
            simp only [elements, List.map_cons]
            rcases hh with hh | hh
            · exact absurd hh hself
            · have := (heh hh).embed [tok (.wrapped e d)] [] []
              simpa [tok, disc, Env.digest] using this
  | .leaf c d, r, _, _, hr => by
    simp only [elideSet, bne_iff_ne, ne_eq, Bool.not_eq_false] at hr
    split at hr
    · rename_i hT
      simp only [obscure, Res.ok.injEq] at hr
      subst hr
      exact elideGoal_root_hit (e := .leaf c d) hT
    · rename_i hT
      simp only [Res.ok.injEq] at hr
      subst hr
      apply elideGoal_unchanged
      simp only [elements, HitNE.cons_iff, not_or]
      exact ⟨fun hh => hT hh.1, by simp [HitNE]⟩
  | .knownValue c d, r, _, _, hr => by
    simp only [elideSet, bne_iff_ne, ne_eq, Bool.not_eq_false] at hr
    split at hr
    · rename_i hT
      simp only [obscure, Res.ok.injEq] at hr
      subst hr
      exact elideGoal_root_hit (e := .knownValue c d) hT
    · rename_i hT
      simp only [Res.ok.injEq] at hr
      subst hr
      apply elideGoal_unchanged
      simp only [elements, HitNE.cons_iff, not_or]
      exact ⟨fun hh => hT hh.1, by simp [HitNE]⟩
  | .elided d, r, _, _, hr => by
    simp only [elideSet, bne_iff_ne, ne_eq, Bool.not_eq_false] at hr
    split at hr
    · rename_i hT
      simp only [obscure, Res.ok.injEq] at hr
      subst hr
      exact elideGoal_root_hit (e := .elided d) hT
    · rename_i hT
      simp only [Res.ok.injEq] at hr
      subst hr
      apply elideGoal_unchanged
      simp only [elements, HitNE.cons_iff, not_or]
      exact ⟨fun hh => hT hh.1, by simp [HitNE]⟩
  | .encrypted c d, r, _, _, hr => by
    simp only [elideSet, bne_iff_ne, ne_eq, Bool.not_eq_false] at hr
    split at hr
    · rename_i hT
      simp only [obscure, Res.ok.injEq] at hr
      subst hr
      exact elideGoal_root_hit (e := .encrypted c d) hT
    · rename_i hT
      simp only [Res.ok.injEq] at hr
      subst hr
      apply elideGoal_unchanged
      simp only [elements, HitNE.cons_iff, not_or]
      exact ⟨fun hh => hT hh.1, by simp [HitNE]⟩
  | .compressed c d, r, _, _, hr => by
    simp only [elideSet, bne_iff_ne, ne_eq, Bool.not_eq_false] at hr
    split at hr
    · rename_i hT
      simp only [obscure, Res.ok.injEq] at hr
      subst hr
      exact elideGoal_root_hit (e := .compressed c d) hT
    · rename_i hT
      simp only [Res.ok.injEq] at hr
      subst hr
      apply elideGoal_unchanged
      simp only [elements, HitNE.cons_iff, not_or]
      exact ⟨fun hh => hT hh.1, by simp [HitNE]⟩
theorem elideSetList_goal : (as : List Env) → (rs : List Env) → WFList h as → CanonList as →
    elideSetList h A Z T false .elide as = .ok rs → ElideGoalList T as rs
  | [], rs, _, _, hr => by
    simp only [elideSetList, Res.ok.injEq] at hr
    subst hr
    exact ⟨rfl, fun _ => rfl, fun hh => by simp [HitNE, elementsList] at hh⟩
  | a :: as, rs, hw, hc, hr => by
    simp only [WFList] at hw
    simp only [CanonList] at hc
    simp only [elideSetList] at hr
    cases ha : elideSet h A Z T false .elide a with
    | err x => simp [ha] at hr
    | panic x => simp [ha] at hr
    | ok a' =>
      simp only [ha] at hr
      split at hr
      · simp at hr
      · cases hl : elideSetList h A Z T false .elide as with
        | err x => simp [hl] at hr
        | panic x => simp [hl] at hr
        | ok as' =>
          simp only [hl, Res.ok.injEq] at hr
          subst hr
          obtain ⟨had, han, hah⟩ := elideSet_goal a a' hw.1 hc.1 ha
          obtain ⟨hld, hln, hlh⟩ := elideSetList_goal as as' hw.2 hc.2 hl
          refine ⟨by simp [had, hld], ?_, ?_⟩
          · intro hn
            simp only [elementsList, HitNE.append_iff, not_or] at hn
            rw [han hn.1, hln hn.2]
          · intro hh
            simp only [elementsList, HitNE.append_iff] at hh
            simp only [elementsList, List.map_append]
            by_cases hha : HitNE T (elements a)
            · have := (hah hha).embed [] ((elementsList as).map tok) ((elementsList as').map tok)
              simpa using this
            · rw [han hha]
              rcases hh with hh | hh
              · exact absurd hh hha
              · have := (hlh hh).embed ((elements a).map tok) [] []
                simpa using this
end

end

/-- eliding a target set on an envelope satisfying the invariant: digest kept; nothing
changes unless a non-elided element is hit, and then the tokens differ -/
theorem elideSet_diff (h : Hash) (A : Aead) (Z : Deflate) (T : Digest → Bool) (e r : Env)
    (hi : Inv h e) (hr : elideSet h A Z T false .elide e = .ok r) :
    r.digest = e.digest ∧ (¬ HitNE T (elements e) → r = e) ∧
      (HitNE T (elements e) → TokDiff (tokens e) (tokens r)) := by
  obtain ⟨hd, hn, hh⟩ := elideSet_goal h A Z T e r hi.1 hi.2 hr
  rw [tokens_eq_elements, tokens_eq_elements]
  exact ⟨hd, hn, hh⟩

/-! ### predicate lookups -/

/-- the filter used by `assertionsWithPredicate` -/
def matchesPred (a p : Env) : Bool :=
  match asPredicate a.subject with
  | some q => q.digest == p.digest
  | none => false

theorem awp_eq_filter (e p : Env) :
    assertionsWithPredicate e p = e.assertions.filter (fun a => matchesPred a p) := rfl

theorem matchesPred_iff (a p : Env) :
    matchesPred a p = true ↔ ∃ q o d, a.subject = .assertion q o d ∧ q.digest = p.digest := by
  unfold matchesPred
  cases hs : a.subject <;> simp [asPredicate]

theorem mem_awp {e p a : Env} :
    a ∈ assertionsWithPredicate e p ↔
      a ∈ e.assertions ∧ ∃ q o d, a.subject = .assertion q o d ∧ q.digest = p.digest := by
  rw [awp_eq_filter, List.mem_filter, matchesPred_iff]

theorem asObject_of_matches {a p : Env} (hm : matchesPred a p = true) :
    ∃ q o d, a.subject = .assertion q o d ∧ q.digest = p.digest ∧ asObject a.subject = some o := by
  obtain ⟨q, o, d, hs, hq⟩ := (matchesPred_iff a p).1 hm
  exact ⟨q, o, d, hs, hq, by rw [hs]; rfl⟩

/-- replace the predicate of an assertion (bare, or the subject of a decorated one) by its
elided form -/
def elidePred : Env → Env
  | .assertion p o d => .assertion (.elided p.digest) o d
  | .node (.assertion p o d') as d => .node (.assertion (.elided p.digest) o d') as d
  | e => e

theorem matchesPred_elidePred (a p : Env) : matchesPred (elidePred a) p = matchesPred a p := by
  cases a with
  | node s as d => cases s <;> rfl
  | _ => rfl

theorem elidePred_digest (a : Env) : (elidePred a).digest = a.digest := by
  cases a with
  | node s as d => cases s <;> rfl
  | _ => rfl

theorem elidePred_wf (h : Hash) (a : Env) (hw : WF h a) : WF h (elidePred a) := by
  cases a with
  | node s as d =>
    cases s <;> try exact hw
    simp only [elidePred, WF, Env.digest] at hw ⊢
    exact ⟨⟨trivial, hw.1.2.1, hw.1.2.2⟩, hw.2.1, hw.2.2⟩
  | assertion p o d =>
    simp only [elidePred, WF, Env.digest] at hw ⊢
    exact ⟨trivial, hw.2.1, hw.2.2⟩
  | _ => exact hw

theorem objectsFold_spec (l : List Env) (hl : ∀ a ∈ l, ∃ o, asObject a.subject = some o) :
    l.foldr (fun a (acc : Res (List Env)) =>
      match acc with
      | .ok os =>
        match asObject a.subject with
        | some o => .ok (o :: os)
        | none => .panic "queries.rs:objects_for_predicate:as_object.unwrap"
      | r => r) (.ok []) = .ok (l.filterMap fun a => asObject a.subject) := by
  induction l with
  | nil => rfl
  | cons a l ih =>
    obtain ⟨o, ho⟩ := hl a (by simp)
    simp only [List.foldr_cons, ih (fun b hb => hl b (by simp [hb])), ho, List.filterMap_cons]

/-! ### sample for the satisfiability examples of C14 -/
namespace Toy

/-- walked digests with first bytes 3, 3, (elided) 0, 4 -/
def exHi : Env :=
  .wrapped (.assertion (.elided ⟨5⟩) (.leaf (.uint 0) ⟨4 * 2 ^ 248 + 9⟩) ⟨3 * 2 ^ 248 + 1⟩)
    ⟨3 * 2 ^ 248 + 2⟩

theorem exHi_ok : PlainHeadsOk exHi ∧ DigestsValid exHi ∧ (elements exHi).length = 4 := by
  refine ⟨?_, ?_, rfl⟩
  · intro x hx hob c hc
    simp only [exHi, elements, List.cons_append, List.nil_append, List.mem_cons, List.not_mem_nil,
      or_false] at hx
    rcases hx with h | h | h | h <;> subst h
    · have : (Digest.bytes ⟨3 * 2 ^ 248 + 2⟩).head? = some 3 := by decide
      simp only [Env.digest, this, Option.some.injEq] at hc
      subst hc; decide
    · have : (Digest.bytes ⟨3 * 2 ^ 248 + 1⟩).head? = some 3 := by decide
      simp only [Env.digest, this, Option.some.injEq] at hc
      subst hc; decide
    · simp [isObscured, isElided] at hob
    · have : (Digest.bytes ⟨4 * 2 ^ 248 + 9⟩).head? = some 4 := by decide
      simp only [Env.digest, this, Option.some.injEq] at hc
      subst hc; decide
  · intro x hx
    simp only [exHi, elements, List.cons_append, List.nil_append, List.mem_cons, List.not_mem_nil,
      or_false] at hx
    rcases hx with h | h | h | h <;> subst h <;> simp only [Env.digest, Digest.Valid] <;> decide

/-- toy hash whose digests all have first byte 3 -/
def hHi : Hash := ⟨fun b => ⟨3 * 2^248 + b.length⟩⟩
def exW : Env := newWrapped hHi (newLeaf hHi (.uint 1))
def exWr : Env := newWrapped hHi (.elided (newLeaf hHi (.uint 1)).digest)
theorem exW_eq : exW = .wrapped (.leaf (.uint 1) ⟨3*2^248+1⟩) ⟨3*2^248+32⟩ := by
  have h1 : (Cbor.uint 1).enc.length = 1 := by decide
  simp [exW, newWrapped, newLeaf, hHi, Hash.ofDigests, catDigests_length, h1, Env.digest]
theorem exWr_eq : exWr = .wrapped (.elided ⟨3*2^248+1⟩) ⟨3*2^248+32⟩ := by
  have h1 : (Cbor.uint 1).enc.length = 1 := by decide
  simp [exWr, newWrapped, newLeaf, hHi, Hash.ofDigests, catDigests_length, h1, Env.digest]
theorem exW_inv : Inv hHi exW := by
  simp [exW, Inv, WF, Canon, newWrapped, newLeaf]
theorem exW_elide (A : Aead) (Z : Deflate) :
    elideSet hHi A Z (fun d => d == (newLeaf hHi (.uint 1)).digest) false .elide exW = .ok exWr := by
  have h1 : (Cbor.uint 1).enc.length = 1 := by decide
  simp [exW, exWr, elideSet, newWrapped, newLeaf, obscure, elide, newElided, Env.digest, hHi,
    Hash.ofDigests, catDigests_length, h1]
theorem exW_heads : PlainHeadsOk exW ∧ PlainHeadsOk exWr := by
  rw [exW_eq, exWr_eq]
  have h32 : (Digest.bytes ⟨3 * 2 ^ 248 + 32⟩).head? = some 3 := by decide
  have h1 : (Digest.bytes ⟨3 * 2 ^ 248 + 1⟩).head? = some 3 := by decide
  constructor
  · intro x hx hob c hc
    simp only [elements, List.mem_cons, List.not_mem_nil, or_false] at hx
    rcases hx with h | h <;> subst h
    · simp only [Env.digest, h32, Option.some.injEq] at hc
      subst hc; decide
    · simp only [Env.digest, h1, Option.some.injEq] at hc
      subst hc; decide
  · intro x hx hob c hc
    simp only [elements, List.mem_cons, List.not_mem_nil, or_false] at hx
    rcases hx with h | h <;> subst h
    · simp only [Env.digest, h32, Option.some.injEq] at hc
      subst hc; decide
    · simp [isObscured, isElided] at hob
theorem exW_sep : hHi.H (structuralImage exW) = hHi.H (structuralImage exWr) →
    structuralImage exW = structuralImage exWr := by
  intro hh
  exfalso
  revert hh
  rw [exW_eq, exWr_eq, structuralImage_eq_tokens, structuralImage_eq_tokens]
  simp [hHi, tokens, walkStructure, tokenBytes, tok, disc, bytes_length32]

end Toy

end AW
end EnvVerif
