/-
  Lemmas/ObscureLemmas.lean — helper lemmas for C08 (symmetric encryption) and C13
  (compression): the aad written by `encrypt_with_digest` reads back (proved for the model
  codec, no hypothesis), closed forms of `encryptSubject` / `compress` /
  `compressSubject`, rebuilding a node over the same assertion list, the decoder never
  panics.  Self-contained on `Model/*` and `Lemmas/Basic.lean`; everything lives in the
  namespace `EnvVerif.Obs` so that no name collides with another lemma file.
-/
import EnvVerif.Lemmas.Laws
import EnvVerif.Lemmas.Basic
namespace EnvVerif
open Env
namespace Obs

/-! ### results -/

theorem bind_eq_ok {α β} {r : Res α} {f : α → Res β} {y : β} (hb : r.bind f = .ok y) :
    ∃ x, r = .ok x ∧ f x = .ok y := by
  cases r with
  | ok x => exact ⟨x, rfl, hb⟩
  | err e => cases hb
  | panic s => cases hb

/-! ### digests as 32 bytes -/

theorem beBytes_len : ∀ (len n : Nat), (beBytes len n).length = len
  | 0, _ => rfl
  | len + 1, n => by simp [beBytes, beBytes_len len]

theorem beNat_snoc (b : Bytes) (x : UInt8) : beNat (b ++ [x]) = beNat b * 256 + x.toNat := by
  simp [beNat, List.foldl_append]

theorem beNat_beBytes : ∀ (len n : Nat), beNat (beBytes len n) = n % 256 ^ len
  | 0, n => by simp [beBytes, beNat, Nat.mod_one]
  | len + 1, n => by
    rw [beBytes, beNat_snoc, beNat_beBytes len (n / 256)]
    have hx : (UInt8.ofNat (n % 256)).toNat = n % 256 := by
      simp [UInt8.toNat_ofNat']
    rw [hx, Nat.pow_succ, Nat.mul_comm (256 ^ len) 256, Nat.mod_mul]
    omega

theorem bytes_length (d : Digest) : d.bytes.length = 32 := beBytes_len 32 d.val

theorem ofBytes_bytes {d : Digest} (hd : d.Valid) : Digest.ofBytes? d.bytes = some d := by
  unfold Digest.ofBytes?
  rw [if_pos (bytes_length d)]
  have hv : beNat d.bytes = d.val := by
    unfold Digest.bytes
    rw [beNat_beBytes]
    apply Nat.mod_eq_of_lt
    have : (256 : Nat) ^ 32 = 2 ^ 256 := by decide
    rw [this]
    exact hd
  rw [hv]

/-! ### the aad of `encrypt_with_digest` reads back -/

theorem enc_digestCbor (d : Digest) :
    (digestCbor d).enc = 217 :: 156 :: 65 :: 88 :: 32 :: d.bytes := by
  simp [digestCbor, TAG_DIGEST, Cbor.enc, Cbor.head, bytes_length, beBytes]

theorem decItem_bytes32 (f : Nat) (b : Bytes) (hb : b.length = 32) :
    Cbor.decItem (f + 1) (88 :: 32 :: b) = .ok (.bytes b, []) := by
  rw [Cbor.decItem]
  have h1 : Cbor.decHead (88 :: 32 :: b) = .ok (2, 24, 32, b) := by
    simp [Cbor.decHead]
  rw [h1]
  have h2 : List.take 32 b = b := by rw [← hb]; exact List.take_length
  have h3 : List.drop 32 b = [] := by rw [← hb]; exact List.drop_length
  simp [hb, h2, h3]

theorem dec_digest_bytes (b : Bytes) (hb : b.length = 32) :
    Cbor.dec (217 :: 156 :: 65 :: 88 :: 32 :: b) = .ok (.tagged 40001 (.bytes b)) := by
  have hf : 2 * (217 :: 156 :: 65 :: 88 :: 32 :: b).length + 2 = 74 + 1 + 1 := by simp [hb]
  unfold Cbor.dec
  rw [hf, Cbor.decItem]
  have h1 : Cbor.decHead (217 :: 156 :: 65 :: 88 :: 32 :: b) =
      .ok (6, 25, 40001, 88 :: 32 :: b) := by
    simp [Cbor.decHead, beNat]
  rw [h1]
  simp [decItem_bytes32 74 b hb]

/-- the dCBOR decoder reads the tagged digest back from its encoding -/
theorem dec_enc_digestCbor (d : Digest) : Cbor.dec (digestCbor d).enc = .ok (digestCbor d) := by
  rw [enc_digestCbor, dec_digest_bytes _ (bytes_length d)]
  rfl

/-- `EncryptedMessage::opt_digest` of a message whose aad is the tagged digest `d` -/
theorem optDigest_of_aad {m : EncMsg} {d : Digest} (hd : d.Valid) (ha : m.aad = (digestCbor d).enc) :
    m.optDigest = some d := by
  simp only [EncMsg.optDigest, Cbor.dec?, ha, dec_enc_digestCbor]
  simp [digestOfCbor?, digestCbor, ofBytes_bytes hd]

/-- `AadReadsBack` holds in the model: it needs no hypothesis -/
theorem aadReadsBack : AadReadsBack := fun _ hd _ _ _ => optDigest_of_aad hd rfl

theorem optDigest_encryptWithDigest (A : Aead) (k n p : Bytes) {d : Digest} (hd : d.Valid) :
    (encryptWithDigest A k n p d).optDigest = some d :=
  optDigest_of_aad hd rfl

/-! ### every digest of an `Inv` envelope is 32 bytes when the hash's are -/

theorem digest_valid {h : Hash} (hH : ∀ b, (h.H b).Valid) {e : Env} (hi : Inv h e) :
    e.digest.Valid := by
  obtain ⟨hw, hc⟩ := hi
  cases e with
  | node s as d => simp only [WF] at hw; rw [Env.digest, hw.2.2]; exact hH _
  | leaf c d => simp only [WF] at hw; rw [Env.digest, hw]; exact hH _
  | wrapped e d => simp only [WF] at hw; rw [Env.digest, hw.2]; exact hH _
  | assertion p o d => simp only [WF] at hw; rw [Env.digest, hw.2.2]; exact hH _
  | elided d => simpa only [Canon, Env.digest] using hc
  | knownValue v d => simp only [WF] at hw; rw [Env.digest, hw]; exact hH _
  | encrypted m d => simpa only [Canon, Env.digest] using hc
  | compressed c d => simpa only [Canon, Env.digest] using hc

theorem inv_subject {h : Hash} {e : Env} (hi : Inv h e) : Inv h e.subject := by
  cases e with
  | node s as d =>
    obtain ⟨hw, hc⟩ := hi
    simp only [WF] at hw
    simp only [Canon] at hc
    exact ⟨hw.1, hc.1⟩
  | _ => exact hi

theorem inv_wrap {h : Hash} {e : Env} (hi : Inv h e) : Inv h (wrap h e) := by
  obtain ⟨hw, hc⟩ := hi
  refine ⟨?_, ?_⟩
  · simp only [wrap, newWrapped, WF, hw, and_self]
  · simp only [wrap, newWrapped, Canon, hc]

/-! ### nodes over an ascending assertion list -/

section
variable (h : Hash)

theorem mkNode_asc {s : Env} {as : List Env} (hs : AscDigests as) :
    mkNode h s as = .node s as (h.ofDigests (s.digest :: as.map Env.digest)) := by
  simp only [mkNode, sortByDigest_of_asc hs]

theorem newNodeUnchecked_ne {s : Env} {as : List Env} (hne : as ≠ []) :
    newNodeUnchecked h s as = .ok (mkNode h s as) := by
  unfold newNodeUnchecked
  cases as with
  | nil => exact absurd rfl hne
  | cons a as => rfl

/-- rebuilding a well-formed canonical node with a subject of the same digest and the very
same assertion list gives the same assertion list and the same digest -/
theorem rebuild_node {s s' : Env} {as : List Env} {d : Digest}
    (hi : Inv h (.node s as d)) (hd : s'.digest = s.digest) :
    newNodeUnchecked h s' as = .ok (.node s' as d) := by
  obtain ⟨hw, hc⟩ := hi
  simp only [WF] at hw
  simp only [Canon] at hc
  rw [newNodeUnchecked_ne h hc.2.2.1, mkNode_asc h hc.2.2.2.1, hd, ← hw.2.2]

end

/-! ### `replace_subject` over a canonical assertion list -/

section
variable (h : Hash)

theorem replaceSubject_nil {e x : Env} (he : e.assertions = []) : replaceSubject h e x = .ok x := by
  simp only [replaceSubject, he, List.foldl_nil]

theorem replaceSubject_cons {s0 : Env} {d0 : Digest} {a x y : Env} {rest : List Env}
    (hy : addAssertionEnvelope h x a = .ok y) :
    replaceSubject h (.node s0 (a :: rest) d0) x = replaceSubject h (.node s0 rest d0) y := by
  simp only [replaceSubject, Env.assertions, List.foldl_cons, Res.bind, hy]

theorem addAssertionEnvelope_mkNode {cs a : Env} {pre : List Env}
    (hasc : AscDigests (pre ++ [a])) (hslot : a.slotOk = true) :
    addAssertionEnvelope h (mkNode h cs pre) a = .ok (mkNode h cs (pre ++ [a])) := by
  have hp := List.pairwise_append.mp hasc
  rw [mkNode_asc h hp.1]
  simp only [addAssertionEnvelope, hslot, Bool.not_true, Bool.false_eq_true, if_false]
  have hany : (pre.any fun x => x.digest == a.digest) = false := by
    rw [List.any_eq_false]
    intro x hx
    have hlt := hp.2.2 x hx a (List.mem_singleton.mpr rfl)
    simp only [beq_iff_eq]
    intro he
    rw [he] at hlt
    exact Nat.lt_irrefl _ hlt
  rw [hany]
  simp only [Bool.false_eq_true, if_false]
  exact newNodeUnchecked_ne h (by simp)

/-- folding the remaining assertions of a canonical list into the node built so far
rebuilds the node over the whole list -/
theorem replaceSubject_mkNode (s0 : Env) (d0 : Digest) (cs : Env) :
    ∀ (post pre : List Env), pre ≠ [] → AscDigests (pre ++ post) →
      (∀ a ∈ post, a.slotOk = true) →
      replaceSubject h (.node s0 post d0) (mkNode h cs pre) = .ok (mkNode h cs (pre ++ post))
  | [], pre, _, _, _ => by
    rw [replaceSubject_nil h (by rfl), List.append_nil]
  | a :: post, pre, hne, hasc, hslot => by
    have hasc' : AscDigests ((pre ++ [a]) ++ post) := by
      simpa only [List.append_assoc, List.singleton_append] using hasc
    have hpa : AscDigests (pre ++ [a]) := (List.pairwise_append.mp hasc').1
    rw [replaceSubject_cons h
      (addAssertionEnvelope_mkNode h hpa (hslot a (List.mem_cons_self ..)))]
    rw [replaceSubject_mkNode s0 d0 cs post (pre ++ [a]) (by simp) hasc'
      (fun x hx => hslot x (List.mem_cons_of_mem _ hx))]
    simp only [List.append_assoc, List.singleton_append]

/-- `replace_subject` of a well-formed canonical node by a non-node subject: the node over
the new subject and the same assertion list -/
theorem replaceSubject_node {s cs : Env} {as : List Env} {d : Digest}
    (hc : Canon (.node s as d)) (hcs : cs.isNode = false) :
    replaceSubject h (.node s as d) cs = .ok (mkNode h cs as) := by
  simp only [Canon] at hc
  obtain ⟨_, _, hne, hasc, hslot⟩ := hc
  cases as with
  | nil => exact absurd rfl hne
  | cons a rest =>
    have h1 : addAssertionEnvelope h cs a = .ok (mkNode h cs [a]) := by
      have hsl := hslot a (List.mem_cons_self ..)
      cases cs with
      | node _ _ _ => cases hcs
      | _ =>
        simp only [addAssertionEnvelope, hsl, Bool.not_true, Bool.false_eq_true, if_false,
          Env.subject]
        exact newNodeUnchecked_ne h (by simp)
    rw [replaceSubject_cons h h1]
    exact replaceSubject_mkNode h s d cs rest [a] (by simp) hasc
      (fun x hx => hslot x (List.mem_cons_of_mem _ hx))

end

/-! ### the dependencies -/

theorem decryptMsg_encryptWithDigest {A : Aead} (L : AeadLaws A) (k n p : Bytes) (d : Digest) :
    decryptMsg A k (encryptWithDigest A k n p d) = some p := by
  simp only [decryptMsg, encryptWithDigest]
  exact L.dec_enc k n p _

theorem decryptMsg_wrong_key {A : Aead} (L : AeadLaws A) {k k' : Bytes} (hk : k' ≠ k)
    (n p : Bytes) (d : Digest) :
    decryptMsg A k' (encryptWithDigest A k n p d) = none := by
  simp only [decryptMsg, encryptWithDigest]
  exact L.dec_other k n p _ k' n _ (Or.inl hk)

theorem uncompressMsg_compressedOf {Z : Deflate} (L : DeflateLaws Z) (data : Bytes) :
    uncompressMsg Z (compressedOf Z data) = some data := by
  by_cases hlt : ((Z.deflate data).length != 0 && decide ((Z.deflate data).length < data.length)) = true
  · simp only [compressedOf, hlt, if_true]
    simp only [Bool.and_eq_true, decide_eq_true_eq] at hlt
    have hnot : ¬ ((Z.deflate data).length ≥ data.length) := by omega
    simp only [uncompressMsg, hnot, if_false, L.inflate_deflate, beq_self_eq_true, if_true]
  · simp only [compressedOf, hlt, Bool.false_eq_true, if_false, uncompressMsg, ge_iff_le,
      Nat.le_refl, if_true]

/-! ### closed forms of `encrypt_subject_opt` -/

/-- the encrypted element `encrypt_subject_opt` makes of a subject -/
def encSubj (A : Aead) (k n : Bytes) (s : Env) : Env :=
  .encrypted (encryptWithDigest A k n (encode s) s.digest) s.digest

/-- the result of `encrypt_subject_opt` when it does not refuse -/
def encryptSubjectSpec (A : Aead) (k n : Bytes) : Env → Env
  | .node s as d => .node (encSubj A k n s) as d
  | e => encSubj A k n e

/-- the refusals of `encrypt_subject_opt` -/
def encryptRefusal : Env → Option String
  | .node s _ _ => if s.isEncrypted then some "AlreadyEncrypted" else none
  | .encrypted .. => some "AlreadyEncrypted"
  | .elided .. => some "AlreadyElided"
  | _ => none

theorem newEncryptedUnwrap_encryptWithDigest (A : Aead) (k n p : Bytes) {d : Digest} (hd : d.Valid)
    (site : String) :
    newEncryptedUnwrap (encryptWithDigest A k n p d) site =
      .ok (.encrypted (encryptWithDigest A k n p d) d) := by
  simp only [newEncryptedUnwrap, optDigest_encryptWithDigest A k n p hd]

/-- `encrypt_subject_opt` in closed form -/
theorem encryptSubject_eq (h : Hash) (A : Aead) (k n : Bytes) {e : Env} (hi : Inv h e)
    (hv : e.subject.digest.Valid) :
    encryptSubject h A k n e =
      match encryptRefusal e with
      | some x => .err x
      | none => .ok (encryptSubjectSpec A k n e) := by
  cases e with
  | node s as d =>
    simp only [Env.subject] at hv
    unfold encryptSubject
    simp only [encryptRefusal]
    by_cases hs : s.isEncrypted = true
    · simp only [hs, if_true]
    · simp only [hs, Bool.false_eq_true, if_false,
        newEncryptedUnwrap_encryptWithDigest A k n _ hv]
      rw [rebuild_node h (s' := .encrypted (encryptWithDigest A k n (encode s) s.digest) s.digest)
        hi rfl]
      simp only [Env.digest, beq_self_eq_true, if_true, encryptSubjectSpec, encSubj]
  | encrypted m d => unfold encryptSubject; simp only [encryptRefusal]
  | elided d => unfold encryptSubject; simp only [encryptRefusal]
  | leaf c d =>
    simp only [Env.subject, Env.digest] at hv
    unfold encryptSubject
    simp only [encryptRefusal, Env.digest, newEncryptedUnwrap_encryptWithDigest A k n _ hv,
      beq_self_eq_true, if_true, encryptSubjectSpec, encSubj]
  | wrapped x d =>
    simp only [Env.subject, Env.digest] at hv
    unfold encryptSubject
    simp only [encryptRefusal, Env.digest, newEncryptedUnwrap_encryptWithDigest A k n _ hv,
      beq_self_eq_true, if_true, encryptSubjectSpec, encSubj]
  | assertion p o d =>
    simp only [Env.subject, Env.digest] at hv
    unfold encryptSubject
    simp only [encryptRefusal, Env.digest, newEncryptedUnwrap_encryptWithDigest A k n _ hv,
      beq_self_eq_true, if_true, encryptSubjectSpec, encSubj]
  | knownValue v d =>
    simp only [Env.subject, Env.digest] at hv
    unfold encryptSubject
    simp only [encryptRefusal, Env.digest, newEncryptedUnwrap_encryptWithDigest A k n _ hv,
      beq_self_eq_true, if_true, encryptSubjectSpec, encSubj]
  | compressed c d =>
    simp only [Env.subject, Env.digest] at hv
    unfold encryptSubject
    simp only [encryptRefusal, Env.digest, newEncryptedUnwrap_encryptWithDigest A k n _ hv,
      beq_self_eq_true, if_true, encryptSubjectSpec, encSubj]

/-- `encrypt_subject_opt` ends with `assert_eq!(result.digest(), original_digest)`: whatever
it returns has the original digest, without any hypothesis -/
theorem encryptSubject_digest_of_ok (h : Hash) (A : Aead) {k n : Bytes} {e r : Env}
    (hr : encryptSubject h A k n e = .ok r) : r.digest = e.digest := by
  unfold encryptSubject at hr
  split at hr
  · split at hr
    · cases hr
    · split at hr
      · split at hr
        · dsimp only at hr
          split at hr
          · rename_i hd
            cases hr
            simpa [Env.digest] using hd
          · cases hr
        · cases hr
        · cases hr
      · cases hr
      · cases hr
  · cases hr
  · cases hr
  · split at hr
    · dsimp only at hr
      split at hr
      · rename_i hd
        cases hr
        simpa using hd
      · cases hr
    · cases hr
    · cases hr

theorem encryptRefusal_eq_none {e : Env} :
    encryptRefusal e = none ↔ e.subject.isEncrypted = false ∧ e.isElided = false := by
  cases e with
  | node s as d =>
    simp only [encryptRefusal, Env.subject, Env.isElided, and_true]
    cases s.isEncrypted <;> simp
  | _ => simp [encryptRefusal, Env.subject, Env.isEncrypted, Env.isElided]

theorem encryptSubjectSpec_subject (A : Aead) (k n : Bytes) (e : Env) :
    (encryptSubjectSpec A k n e).subject = encSubj A k n e.subject := by
  cases e <;> rfl

theorem encryptSubjectSpec_digest (A : Aead) (k n : Bytes) (e : Env) :
    (encryptSubjectSpec A k n e).digest = e.digest := by
  cases e <;> rfl

theorem encryptSubjectSpec_assertions (A : Aead) (k n : Bytes) (e : Env) :
    (encryptSubjectSpec A k n e).assertions = e.assertions := by
  cases e <;> rfl

theorem encryptRefusal_eq_some {e : Env} {x : String} :
    encryptRefusal e = some x ↔
      (x = "AlreadyEncrypted" ∧ e.subject.isEncrypted = true) ∨
      (x = "AlreadyElided" ∧ e.isElided = true) := by
  cases e with
  | node s as d =>
    simp only [encryptRefusal, Env.subject, Env.isElided, Bool.false_eq_true, and_false, or_false]
    cases s.isEncrypted
    · simp
    · simp [eq_comm]
  | encrypted m d => simp [encryptRefusal, Env.subject, Env.isEncrypted, Env.isElided, eq_comm]
  | elided d => simp [encryptRefusal, Env.subject, Env.isEncrypted, Env.isElided, eq_comm]
  | _ => simp [encryptRefusal, Env.subject, Env.isEncrypted, Env.isElided]

/-- the closed form under the hypotheses the property theorems take -/
theorem encryptSubject_eq' (h : Hash) (A : Aead) (k n : Bytes) {e : Env} (hi : Inv h e)
    (hH : ∀ b, (h.H b).Valid) :
    encryptSubject h A k n e =
      match encryptRefusal e with
      | some x => .err x
      | none => .ok (encryptSubjectSpec A k n e) :=
  encryptSubject_eq h A k n hi (digest_valid hH (inv_subject hi))

theorem encryptSubject_ok (h : Hash) (A : Aead) (k n : Bytes) {e r : Env} (hi : Inv h e)
    (hH : ∀ b, (h.H b).Valid) (hr : encryptSubject h A k n e = .ok r) :
    r = encryptSubjectSpec A k n e ∧ encryptRefusal e = none := by
  rw [encryptSubject_eq' h A k n hi hH] at hr
  cases hf : encryptRefusal e with
  | some x => rw [hf] at hr; cases hr
  | none => rw [hf] at hr; cases hr; exact ⟨rfl, rfl⟩

theorem encryptSubjectSpec_inv (h : Hash) (A : Aead) (k n : Bytes) {e : Env} (hi : Inv h e)
    (hH : ∀ b, (h.H b).Valid) : Inv h (encryptSubjectSpec A k n e) := by
  have hv := digest_valid hH (inv_subject hi)
  cases e with
  | node s as d =>
    obtain ⟨hw, hc⟩ := hi
    simp only [WF] at hw
    simp only [Canon] at hc
    simp only [Env.subject] at hv
    refine ⟨?_, ?_⟩
    · simp only [encryptSubjectSpec, encSubj, WF, Env.digest]
      exact ⟨optDigest_encryptWithDigest A k n _ hv, hw.2.1, hw.2.2⟩
    · simp only [encryptSubjectSpec, encSubj, Canon]
      exact ⟨hv, hc.2⟩
  | _ =>
    simp only [Env.subject] at hv
    exact ⟨by simp only [encryptSubjectSpec, encSubj, WF]; exact optDigest_encryptWithDigest A k n _ hv,
      by simp only [encryptSubjectSpec, encSubj, Canon]; exact hv⟩

/-! ### the decoder never panics (self-contained version of C06 `decode_no_panic`) -/

section
variable (h : Hash)

theorem decodeEncrypted_np (item : Cbor) (p : String) : decodeEncrypted item ≠ .panic p := by
  unfold decodeEncrypted
  repeat' split
  all_goals first | (intro hh; cases hh; done) | (dsimp only; split <;> (intro hh; cases hh))

theorem decodeCompressed_np (item : Cbor) (p : String) : decodeCompressed item ≠ .panic p := by
  unfold decodeCompressed
  repeat' split
  all_goals (intro hh; cases hh)

theorem newNode_np {s : Env} {as : List Env} (hne : as ≠ []) (p : String) :
    newNode h s as ≠ .panic p := by
  unfold newNode
  split
  · rw [newNodeUnchecked_ne h hne]; intro hh; cases hh
  · intro hh; cases hh

mutual
theorem envOfCbor_np : (c : Cbor) → (p : String) → envOfCbor h c ≠ .panic p
  | .tagged t item, p => by
    have ih := envOfCbor_np item
    simp only [envOfCbor]
    split
    · intro hh; cases hh
    · split
      · cases hi : envOfCbor h item with
        | ok e' => intro hh; cases hh
        | err m => intro hh; cases hh
        | panic m => exact absurd hi (ih m)
      · split
        · exact decodeEncrypted_np item p
        · split
          · exact decodeCompressed_np item p
          · intro hh; cases hh
  | .bytes b, p => by
    simp only [envOfCbor]
    split <;> (intro hh; cases hh)
  | .array [], p => by simp only [envOfCbor]; intro hh; cases hh
  | .array [x], p => by simp only [envOfCbor]; intro hh; cases hh
  | .array (x :: y :: r), p => by
    have ihx := envOfCbor_np x
    have ihr := envOfCborList_np (y :: r)
    simp only [envOfCbor]
    cases hx : envOfCbor h x with
    | ok s =>
      cases hr : envOfCborList h (y :: r) with
      | ok as =>
        dsimp only
        split
        · apply newNode_np
          rintro rfl
          simp only [envOfCborList] at hr
          split at hr
          · split at hr <;> cases hr
          · cases hr
          · cases hr
        · intro hh; cases hh
      | err m => intro hh; cases hh
      | panic m => exact absurd hr (ihr m)
    | err m => intro hh; cases hh
    | panic m => exact absurd hx (ihx m)
  | .map [(k, v)], p => by
    have ihk := envOfCbor_np k
    have ihv := envOfCbor_np v
    simp only [envOfCbor]
    cases hk : envOfCbor h k with
    | ok pp =>
      cases hv : envOfCbor h v with
      | ok o => intro hh; cases hh
      | err m => intro hh; cases hh
      | panic m => exact absurd hv (ihv m)
    | err m => intro hh; cases hh
    | panic m => exact absurd hk (ihk m)
  | .map [], p => by simp only [envOfCbor]; intro hh; cases hh
  | .map (_ :: _ :: _), p => by simp only [envOfCbor]; intro hh; cases hh
  | .uint v, p => by simp only [envOfCbor]; intro hh; cases hh
  | .nint _, p => by simp only [envOfCbor]; intro hh; cases hh
  | .text _, p => by simp only [envOfCbor]; intro hh; cases hh
  | .simple _, p => by simp only [envOfCbor]; intro hh; cases hh
  | .float _, p => by simp only [envOfCbor]; intro hh; cases hh
theorem envOfCborList_np : (cs : List Cbor) → (p : String) → envOfCborList h cs ≠ .panic p
  | [], p => by simp only [envOfCborList]; intro hh; cases hh
  | x :: xs, p => by
    have ihx := envOfCbor_np x
    have ihr := envOfCborList_np xs
    simp only [envOfCborList]
    cases hx : envOfCbor h x with
    | ok e =>
      cases hr : envOfCborList h xs with
      | ok es' => intro hh; cases hh
      | err m => intro hh; cases hh
      | panic m => exact absurd hr (ihr m)
    | err m => intro hh; cases hh
    | panic m => exact absurd hx (ihx m)
end

theorem decode_np (b : Bytes) (s : String) : decode h b ≠ .panic s := by
  unfold decode
  split
  · unfold envOfTaggedCbor
    split
    · split
      · exact envOfCbor_np h _ s
      · intro hh; cases hh
    · intro hh; cases hh
  · intro hh; cases hh

end

/-! ### `decrypt_subject` step by step -/

section
variable (h : Hash) (A : Aead)

theorem subject_encrypted_cases {r : Env} {m : EncMsg} {d0 : Digest}
    (hs : r.subject = .encrypted m d0) :
    r = .encrypted m d0 ∨ ∃ as d, r = .node (.encrypted m d0) as d := by
  cases r with
  | node s as d => simp only [Env.subject] at hs; subst hs; exact Or.inr ⟨as, d, rfl⟩
  | encrypted m' d' => exact Or.inl hs
  | _ => cases hs

theorem decryptSubject_not_encrypted {k : Bytes} {r : Env} (hs : r.subject.isEncrypted = false) :
    decryptSubject h A k r = .err "NotEncrypted" := by
  unfold decryptSubject
  split
  · rename_i m d0 heq
    rw [heq] at hs
    cases hs
  · rfl

theorem decryptSubject_dec_none {k : Bytes} {r : Env} {m : EncMsg} {d0 : Digest}
    (hs : r.subject = .encrypted m d0) (hd : decryptMsg A k m = none) :
    decryptSubject h A k r = .err "dep:Decrypt_failed" := by
  unfold decryptSubject
  simp only [hs, hd]

theorem decryptSubject_leaf_form {k : Bytes} {m : EncMsg} {d0 dd : Digest} {pt : Bytes} {x : Env}
    (hd : decryptMsg A k m = some pt) (ho : m.optDigest = some dd) (hx : decode h pt = .ok x) :
    decryptSubject h A k (.encrypted m d0) =
      if x.digest != dd then .err "InvalidDigest" else .ok x := by
  unfold decryptSubject
  simp only [Env.subject, hd, ho, hx]

theorem decryptSubject_node_form {k : Bytes} {m : EncMsg} {d0 dd d : Digest} {as : List Env}
    {pt : Bytes} {x : Env}
    (hd : decryptMsg A k m = some pt) (ho : m.optDigest = some dd) (hx : decode h pt = .ok x) :
    decryptSubject h A k (.node (.encrypted m d0) as d) =
      if x.digest != dd then .err "InvalidDigest" else
      match newNodeUnchecked h x as with
      | .ok r => if r.digest != d then .err "InvalidDigest" else .ok r
      | .err y => .err y
      | .panic y => .panic y := by
  unfold decryptSubject
  simp only [Env.subject, hd, ho, hx]
  rfl

end

section
variable (h : Hash) (A : Aead)

theorem decryptSubject_ok_inv {k : Bytes} {r x : Env} (hr : decryptSubject h A k r = .ok x) :
    ∃ m d0 pt dd rs, r.subject = .encrypted m d0 ∧ decryptMsg A k m = some pt ∧
      m.optDigest = some dd ∧ decode h pt = .ok rs ∧ rs.digest = dd ∧
      ((r = .encrypted m d0 ∧ x = rs) ∨
        ∃ as d, r = .node (.encrypted m d0) as d ∧ newNodeUnchecked h rs as = .ok x ∧ x.digest = d) := by
  cases hsub : r.subject with
  | encrypted m d0 =>
    cases hd : decryptMsg A k m with
    | none => rw [decryptSubject_dec_none h A hsub hd] at hr; cases hr
    | some pt =>
      cases ho : m.optDigest with
      | none =>
        unfold decryptSubject at hr
        simp only [hsub, hd, ho] at hr
        cases hr
      | some dd =>
        cases hx : decode h pt with
        | ok rs =>
          rcases subject_encrypted_cases hsub with rfl | ⟨as, d, rfl⟩
          · rw [decryptSubject_leaf_form h A hd ho hx] at hr
            split at hr
            · cases hr
            · rename_i hne
              cases hr
              exact ⟨m, d0, pt, dd, _, rfl, hd, ho, hx, by simpa using hne, Or.inl ⟨rfl, rfl⟩⟩
          · rw [decryptSubject_node_form h A hd ho hx] at hr
            split at hr
            · cases hr
            · rename_i hne
              cases hn : newNodeUnchecked h rs as with
              | ok r' =>
                rw [hn] at hr
                dsimp only at hr
                split at hr
                · cases hr
                · rename_i hne2
                  cases hr
                  exact ⟨m, d0, pt, dd, rs, rfl, hd, ho, hx, by simpa using hne,
                    Or.inr ⟨as, d, rfl, hn, by simpa using hne2⟩⟩
              | err y => rw [hn] at hr; cases hr
              | panic y => rw [hn] at hr; cases hr
        | err y =>
          unfold decryptSubject at hr
          simp only [hsub, hd, ho, hx] at hr
          cases hr
        | panic y =>
          unfold decryptSubject at hr
          simp only [hsub, hd, ho, hx] at hr
          cases hr
  | _ =>
    rw [decryptSubject_not_encrypted h A (by rw [hsub]; rfl)] at hr
    cases hr

theorem decryptSubject_np {k : Bytes} {r : Env} (hc : Canon r) (s : String) :
    decryptSubject h A k r ≠ .panic s := by
  intro hr
  cases hsub : r.subject with
  | encrypted m d0 =>
    cases hd : decryptMsg A k m with
    | none => rw [decryptSubject_dec_none h A hsub hd] at hr; cases hr
    | some pt =>
      cases ho : m.optDigest with
      | none =>
        unfold decryptSubject at hr
        simp only [hsub, hd, ho] at hr
        cases hr
      | some dd =>
        cases hx : decode h pt with
        | ok rs =>
          rcases subject_encrypted_cases hsub with rfl | ⟨as, d, rfl⟩
          · rw [decryptSubject_leaf_form h A hd ho hx] at hr
            split at hr <;> cases hr
          · rw [decryptSubject_node_form h A hd ho hx] at hr
            simp only [Canon] at hc
            rw [newNodeUnchecked_ne h hc.2.2.1] at hr
            dsimp only at hr
            split at hr
            · cases hr
            · split at hr <;> cases hr
        | err y =>
          unfold decryptSubject at hr
          simp only [hsub, hd, ho, hx] at hr
          cases hr
        | panic y => exact decode_np h pt y hx
  | _ =>
    rw [decryptSubject_not_encrypted h A (by rw [hsub]; rfl)] at hr
    cases hr
end

/-! ### not every `Inv` envelope round-trips through the bytes -/

/-- a compressed element whose data is longer than its declared size: it satisfies `Inv`
(which says nothing about the fields of `Compressed`), and the decoder refuses it -/
def badComp : Env := .compressed ⟨0, 0, [1]⟩ ⟨0⟩

theorem badComp_inv (h : Hash) : Inv h badComp :=
  ⟨trivial, by simp [badComp, Canon, Digest.Valid]⟩

set_option maxRecDepth 8000 in
theorem badComp_decode (h : Hash) : decode h (encode badComp) = .err "dep:compressed-size" := by
  rfl

/-- this is why the byte round trip is a hypothesis on the envelope concerned
(`RoundTrips h x`, discharged by C05 from `EncShape x`, `Encodable x`, `CodecLaws`) and not
`∀ e, Inv h e → decode h (encode e) = .ok e`, which no hash function satisfies -/
theorem not_forall_inv_roundTrips (h : Hash) : ¬ ∀ e, Inv h e → RoundTrips h e := by
  intro H
  have h1 := H badComp (badComp_inv h)
  rw [RoundTrips, badComp_decode] at h1
  cases h1

/-! ### compress / uncompress -/

section
variable (h : Hash) (Z : Deflate)

theorem compress_ok_of {e z : Env} (hc : e.isCompressed = false) (hr : compress Z e = .ok z) :
    z = .compressed (compressedOf Z (encode e)) e.digest ∧ e.isEncrypted = false ∧
      e.isElided = false := by
  cases e with
  | compressed c d => cases hc
  | encrypted m d => cases hr
  | elided d => cases hr
  | node s as d => simp only [compress] at hr; cases hr; exact ⟨rfl, rfl, rfl⟩
  | leaf c d => simp only [compress] at hr; cases hr; exact ⟨rfl, rfl, rfl⟩
  | wrapped x d => simp only [compress] at hr; cases hr; exact ⟨rfl, rfl, rfl⟩
  | assertion p o d => simp only [compress] at hr; cases hr; exact ⟨rfl, rfl, rfl⟩
  | knownValue v d => simp only [compress] at hr; cases hr; exact ⟨rfl, rfl, rfl⟩

theorem compress_of_plain {e : Env} (hc : e.isCompressed = false) (he : e.isEncrypted = false)
    (hl : e.isElided = false) :
    compress Z e = .ok (.compressed (compressedOf Z (encode e)) e.digest) := by
  cases e with
  | compressed c d => cases hc
  | encrypted m d => cases he
  | elided d => cases hl
  | _ => rfl

theorem uncompress_compressedOf {Z : Deflate} (L : DeflateLaws Z) {e : Env} (hrt : RoundTrips h e) :
    uncompress h Z (.compressed (compressedOf Z (encode e)) e.digest) = .ok e := by
  unfold uncompress
  simp only [uncompressMsg_compressedOf L]
  rw [RoundTrips] at hrt
  simp only [hrt, bne_self_eq_false, Bool.false_eq_true, if_false]

theorem uncompress_ok {e z : Env} (hr : uncompress h Z e = .ok z) :
    ∃ c d data, e = .compressed c d ∧ uncompressMsg Z c = some data ∧ decode h data = .ok z ∧
      z.digest = d := by
  unfold uncompress at hr
  split at hr
  · rename_i c d
    split at hr
    · cases hr
    · rename_i data hdata
      split at hr
      · rename_i r hdec
        split at hr
        · cases hr
        · rename_i hne
          cases hr
          refine ⟨c, d, data, rfl, hdata, hdec, ?_⟩
          simpa using hne
      · cases hr
      · cases hr
  · cases hr

end

/-! ### closed forms of `compress_subject` / `uncompress_subject` -/

/-- the compressed element `compress` makes -/
def compSubj (Z : Deflate) (s : Env) : Env :=
  .compressed (compressedOf Z (encode s)) s.digest

/-- the result of `compress_subject` when the subject is not yet compressed and it does
not refuse -/
def compressSubjectSpec (Z : Deflate) : Env → Env
  | .node s as d => .node (compSubj Z s) as d
  | e => compSubj Z e

section
variable (h : Hash) (Z : Deflate)

theorem compress_eq_ite {e : Env} (hc : e.isCompressed = false) :
    compress Z e =
      if e.isEncrypted then .err "AlreadyEncrypted"
      else if e.isElided then .err "AlreadyElided"
      else .ok (compSubj Z e) := by
  cases e with
  | compressed c d => cases hc
  | _ => rfl

theorem compressSubject_eq {e : Env} (hi : Inv h e) (hc : e.subject.isCompressed = false) :
    compressSubject h Z e =
      if e.subject.isEncrypted then .err "AlreadyEncrypted"
      else if e.subject.isElided then .err "AlreadyElided"
      else .ok (compressSubjectSpec Z e) := by
  unfold compressSubject
  rw [if_neg (by simp [hc]), compress_eq_ite Z hc]
  by_cases he : e.subject.isEncrypted = true
  · rw [if_pos he, if_pos he]; rfl
  · by_cases hl : e.subject.isElided = true
    · rw [if_neg he, if_pos hl, if_neg he, if_pos hl]; rfl
    · rw [if_neg he, if_neg hl, if_neg he, if_neg hl]
      show replaceSubject h e (compSubj Z e.subject) = _
      cases e with
      | node s as d =>
        have hcan := hi.2
        have hw := hi.1
        simp only [Canon] at hcan
        simp only [WF] at hw
        have hd : (compSubj Z s).digest = s.digest := rfl
        simp only [Env.subject]
        rw [replaceSubject_node h hi.2 rfl, mkNode_asc h hcan.2.2.2.1, hd, ← hw.2.2]
        rfl
      | _ => exact replaceSubject_nil h rfl

theorem uncompress_digest_eq {e z : Env} (hr : uncompress h Z e = .ok z) : z.digest = e.digest := by
  obtain ⟨c, d, data, rfl, _, _, hd⟩ := uncompress_ok h Z hr
  exact hd

theorem uncompress_isCompressed {e z : Env} (hr : uncompress h Z e = .ok z) :
    e.isCompressed = true := by
  obtain ⟨c, d, data, rfl, _, _, _⟩ := uncompress_ok h Z hr
  rfl

theorem uncompress_not_compressed {e : Env} (hc : e.isCompressed = false) :
    uncompress h Z e = .err "NotCompressed" := by
  cases e with
  | compressed c d => cases hc
  | _ => rfl

theorem uncompress_np (e : Env) (s : String) : uncompress h Z e ≠ .panic s := by
  intro hr
  unfold uncompress at hr
  split at hr
  · split at hr
    · cases hr
    · rename_i data _
      split at hr
      · split at hr <;> cases hr
      · cases hr
      · rename_i y hy
        exact decode_np h data y hy
  · cases hr

/-- `uncompress_subject` of a node keeps the uncompressed envelope as the subject, even when
it is itself a node, and keeps the assertion list -/
theorem uncompressSubject_node_form {cs s s0 : Env} {as : List Env} {d : Digest}
    (hi : Inv h (.node s0 as d)) (h0 : cs.digest = s0.digest) (hs : uncompress h Z cs = .ok s) :
    uncompressSubject h Z (.node cs as d) = .ok (.node s as d) := by
  unfold uncompressSubject
  simp only [Env.subject, uncompress_isCompressed h Z hs, if_true, hs]
  exact rebuild_node h hi ((uncompress_digest_eq h Z hs).trans h0)

theorem uncompressSubject_node_unfold (cs : Env) (as : List Env) (d : Digest) :
    uncompressSubject h Z (.node cs as d) =
      if cs.isCompressed then (uncompress h Z cs).bind fun s => newNodeUnchecked h s as
      else .ok (.node cs as d) := by
  unfold uncompressSubject
  rfl

theorem uncompressSubject_nonnode_form {e : Env} (hn : e.isNode = false)
    (hc : e.isCompressed = true) : uncompressSubject h Z e = uncompress h Z e := by
  cases e with
  | node s as d => cases hn
  | compressed c d =>
    unfold uncompressSubject
    simp only [Env.subject, Env.isCompressed, if_true]
    cases uncompress h Z (.compressed c d) <;> rfl
  | _ => cases hc

theorem uncompressSubject_not_compressed {e : Env} (hc : e.subject.isCompressed = false) :
    uncompressSubject h Z e = .ok e := by
  unfold uncompressSubject
  rw [if_neg (by simp [hc])]

theorem compressSubjectSpec_inv {e : Env} (hi : Inv h e) (hv : e.subject.digest.Valid) :
    Inv h (compressSubjectSpec Z e) := by
  cases e with
  | node s as d =>
    obtain ⟨hw, hc⟩ := hi
    simp only [WF] at hw
    simp only [Canon] at hc
    simp only [Env.subject] at hv
    refine ⟨?_, ?_⟩
    · simp only [compressSubjectSpec, WF]
      exact ⟨by simp only [compSubj, WF], hw.2.1, hw.2.2⟩
    · simp only [compressSubjectSpec, Canon]
      exact ⟨by simp only [compSubj, Canon]; exact hv, hc.2⟩
  | _ =>
    simp only [Env.subject] at hv
    exact ⟨by simp only [compressSubjectSpec, compSubj, WF],
      by simp only [compressSubjectSpec, compSubj, Canon]; exact hv⟩

end

theorem envOfCbor_node (h : Hash) {x y : Cbor} {r : List Cbor} {s : Env} {as : List Env}
    (hs : envOfCbor h x = .ok s) (ha : envOfCborList h (y :: r) = .ok as)
    (hasc : AscDigests as) (hslot : as.all Env.slotOk = true) (hne : as ≠ [])
    (hadj : ascAdj as = true) :
    envOfCbor h (.array (x :: y :: r)) =
      .ok (.node s as (h.ofDigests (s.digest :: as.map Env.digest))) := by
  simp only [envOfCbor, hs, ha, hadj, if_true, newNode, hslot, newNodeUnchecked_ne h hne,
    mkNode_asc h hasc]

/-! ### concrete envelopes for the satisfiability examples in `Props/C08.lean`, `Props/C13.lean` -/

namespace Ex
open ToyDeps

def lf : Env := newLeaf toyHash (.text [0x61])
def kv : Env := newKnownValue toyHash 1
def asr : Env := newAssertion toyHash kv lf
/-- `"a" [ 1: "a" ]` -/
def nd : Env := .node lf [asr] (toyHash.ofDigests [lf.digest, asr.digest])
def asr2 : Env := newAssertion toyHash kv kv
/-- a node whose subject is a node (possible after decoding) -/
def nd2 : Env := .node nd [asr2] (toyHash.ofDigests [nd.digest, asr2.digest])

theorem lf_inv : Inv toyHash lf := ⟨by simp only [lf, newLeaf, WF], by simp only [lf, newLeaf, Canon]⟩

theorem nd_inv : Inv toyHash nd := by
  refine ⟨?_, ?_⟩
  · simp [nd, lf, kv, asr, newLeaf, newKnownValue, newAssertion, WF, WFList, Env.digest]
  · simp [nd, lf, kv, asr, newLeaf, newKnownValue, newAssertion, Canon, CanonList, AscDigests,
      Env.slotOk, Env.isSubjectAssertion]

theorem nd2_inv : Inv toyHash nd2 := by
  refine ⟨?_, ?_⟩
  · simp [nd2, nd, lf, kv, asr, asr2, newLeaf, newKnownValue, newAssertion, WF, WFList, Env.digest]
  · simp [nd2, nd, lf, kv, asr, asr2, newLeaf, newKnownValue, newAssertion, Canon, CanonList, AscDigests,
      Env.slotOk, Env.isSubjectAssertion]

theorem lf_rt : RoundTrips toyHash lf := by rfl
theorem wrap_lf_rt : RoundTrips toyHash (wrap toyHash lf) := by rfl

theorem nd_rt : RoundTrips toyHash nd := by
  have h1 : Cbor.dec (encode nd) = .ok (taggedCborOf nd) := by rfl
  unfold RoundTrips decode
  rw [h1]
  simp only [taggedCborOf, envOfTaggedCbor, beq_self_eq_true, if_true]
  have h2 : envOfCbor toyHash (cborOf lf) = .ok lf := by rfl
  have h3 : envOfCborList toyHash (cborOfList [asr]) = .ok [asr] := by rfl
  have h4 : cborOf nd = .array (cborOf lf :: cborOfList [asr]) := by rfl
  rw [h4]
  exact envOfCbor_node toyHash h2 h3 (by simp [AscDigests]) (by rfl) (by simp) (by rfl)
end Ex

end Obs
end EnvVerif
