/-
  Lemmas/ConcLemmas.lean — the lock-protocol proofs behind Props/C20.lean.

  * `sym` composes (`sym_append_bind`), inversion lemmas per instruction;
  * the invariant `Good` and its preservation by `step`;
  * `Good` states with an unfinished thread have an enabled thread (the holder of the
    resource of maximal rank among the held ones requests something above it, hence free);
  * every step decreases `State.size`;
  * the formatting context as a value guarded by a resource (`exec`).
-/
import EnvVerif.Model.Conc

namespace EnvVerif.Conc

/-! ### small facts -/

theorem above_iff {r : Nat} {held : List Nat} : above r held = true ↔ ∀ x ∈ held, x < r := by
  simp [above]

theorem mem_drop {x r : Nat} {held : List Nat} : x ∈ drop r held ↔ x ∈ held ∧ x ≠ r := by
  simp [drop]

theorem drop_of_above {r : Nat} {held : List Nat} (h : above r held = true) :
    drop r held = held := by
  rw [above_iff] at h
  unfold drop
  rw [List.filter_eq_self]
  intro x hx
  have := h x hx
  simp; omega

theorem drop_cons_self {r : Nat} {held : List Nat} (h : above r held = true) :
    drop r (r :: held) = held := by
  have := drop_of_above h
  unfold drop at *
  simp [this]

theorem upd_same (f : Nat → Option Nat) (r : Nat) (v : Option Nat) : upd f r v r = v := by
  simp [upd]

theorem upd_other (f : Nat → Option Nat) {r x : Nat} (v : Option Nat) (h : x ≠ r) :
    upd f r v x = f x := by
  simp [upd, h]

theorem getElem?_set' {α} {l : List α} {i : Nat} {t a : α} (h : l[i]? = some t) (j : Nat) :
    (l.set i a)[j]? = if j = i then some a else l[j]? := by
  have hi : i < l.length := by
    rcases Nat.lt_or_ge i l.length with h' | h'
    · exact h'
    · rw [List.getElem?_eq_none h'] at h; cases h
  rw [List.getElem?_set]
  by_cases hij : i = j
  · subst hij; simp [hi]
  · have : ¬ j = i := fun e => hij e.symm
    simp [hij, this]

/-! ### `sym` -/

theorem sym_nil (held : List Nat) : sym held [] = some held := by
  rw [sym]

theorem sym_cons (held : List Nat) (i : Instr) (rest : List Instr) :
    sym held (i :: rest) = (symI held i).bind (fun h => sym h rest) := by
  rw [sym]; cases symI held i <;> rfl

/-- sequential composition of symbolic executions -/
theorem sym_append_bind (p q : List Instr) :
    ∀ held, sym held (p ++ q) = (sym held p).bind (fun h => sym h q) := by
  induction p with
  | nil => intro held; simp [sym_nil]
  | cons i p ih =>
    intro held
    rw [List.cons_append, sym_cons, sym_cons]
    cases symI held i with
    | none => rfl
    | some h => simp [ih]

theorem sym_append_some {p q : List Instr} {held mid out : List Nat}
    (hp : sym held p = some mid) (hq : sym mid q = some out) : sym held (p ++ q) = some out := by
  rw [sym_append_bind, hp]; exact hq

theorem sym_acq {held : List Nat} {r : Nat} {rest : List Instr} {out : List Nat} :
    sym held (.acq r :: rest) = some out ↔
      above r held = true ∧ sym (r :: held) rest = some out := by
  rw [sym_cons, symI]
  by_cases h : above r held = true <;> simp [h]

theorem sym_rel {held : List Nat} {r : Nat} {rest : List Instr} {out : List Nat} :
    sym held (.rel r :: rest) = some out ↔
      r ∈ held ∧ sym (drop r held) rest = some out := by
  rw [sym_cons, symI]
  by_cases h : r ∈ held <;> simp [h]

theorem sym_done {held : List Nat} {r : Nat} {rest : List Instr} {out : List Nat} :
    sym held (.done r :: rest) = some out ↔
      r ∈ held ∧ sym (drop r held) rest = some out := by
  rw [sym_cons, symI]
  by_cases h : r ∈ held <;> simp [h]

theorem sym_once {held : List Nat} {r : Nat} {body rest : List Instr} {out : List Nat} :
    sym held (.once r body :: rest) = some out ↔
      above r held = true ∧ sym (r :: held) body = some (r :: held) ∧
        sym held rest = some out := by
  rw [sym_cons, symI]
  by_cases h : above r held = true
  · simp only [h, if_true, true_and]
    cases hb : sym (r :: held) body with
    | none => simp
    | some h' =>
      by_cases e : h' = r :: held
      · subst e; simp
      · have : (h' == r :: held) = false := by simpa using e
        simp [this, e]
  · simp [h]

/-- the program a runner is left with after entering `once r body` -/
theorem sym_unfold_once {held : List Nat} {r : Nat} {body rest : List Instr} {out : List Nat}
    (h : sym held (.once r body :: rest) = some out) :
    sym (r :: held) (body ++ .done r :: rest) = some out := by
  obtain ⟨ha, hb, hr⟩ := sym_once.1 h
  refine sym_append_some hb ?_
  rw [sym_done]
  refine ⟨List.mem_cons_self, ?_⟩
  rw [drop_cons_self ha]; exact hr

theorem ranked_iff {p : List Instr} : Ranked p = true ↔ sym [] p = some [] := by
  simp [Ranked]

/-- any concatenation of ranked operations is ranked -/
theorem ranked_flatten {ops : List (List Instr)} (h : ∀ p ∈ ops, Ranked p = true) :
    Ranked ops.flatten = true := by
  rw [ranked_iff]
  induction ops with
  | nil => simp [sym_nil]
  | cons p ops ih =>
    rw [List.flatten_cons]
    exact sym_append_some (ranked_iff.1 (h p List.mem_cons_self))
      (ih fun q hq => h q (List.mem_cons_of_mem _ hq))

/-! ### `size` -/

theorem size_nil : size [] = 0 := by rw [size]

theorem size_cons (i : Instr) (p : List Instr) : size (i :: p) = sizeI i + size p := by
  rw [size]

theorem size_append (p q : List Instr) : size (p ++ q) = size p + size q := by
  induction p with
  | nil => simp [size_nil]
  | cons i p ih => rw [List.cons_append, size_cons, size_cons, ih]; omega

theorem sum_map_set {α} (f : α → Nat) :
    ∀ (l : List α) (i : Nat) (t a : α), l[i]? = some t →
      ((l.set i a).map f).sum + f t = (l.map f).sum + f a := by
  intro l
  induction l with
  | nil => intro i t a h; simp at h
  | cons x l ih =>
    intro i t a h
    cases i with
    | zero =>
      simp at h; subst h
      simp only [List.set_cons_zero, List.map_cons, List.sum_cons]; omega
    | succ i =>
      simp at h
      have := ih i t a h
      simp only [List.set_cons_succ, List.map_cons, List.sum_cons]; omega

/-! ### the invariant -/

/-- `Good s`:
  * what is left of every thread's program is symbolically executable from what the thread
    holds, and ends holding nothing (so every request it will ever make is above what it
    holds at that moment, and everything held - a running once included: its `done` is
    pending - will be given up);
  * the ownership table and the threads' held-lists say the same thing. -/
structure Good (s : State) : Prop where
  sym_ok : ∀ (i : Nat) (t : Thread), s.threads[i]? = some t → sym t.held t.pc = some []
  owned_held : ∀ (r u : Nat), s.owner r = some u →
    ∃ t : Thread, s.threads[u]? = some t ∧ r ∈ t.held
  held_owned : ∀ (i : Nat) (t : Thread), s.threads[i]? = some t →
    ∀ r ∈ t.held, s.owner r = some i

theorem good_init_of_ranked {progs : List (List Instr)} (h : ∀ p ∈ progs, Ranked p = true) :
    Good (init progs) := by
  refine ⟨?_, ?_, ?_⟩
  · intro i t ht
    simp only [init, List.getElem?_map] at ht
    cases hp : progs[i]? with
    | none => simp [hp] at ht
    | some p =>
      simp [hp] at ht; subst ht
      exact ranked_iff.1 (h p (List.mem_of_getElem? hp))
  · intro r u hu; simp [init] at hu
  · intro i t ht r hr
    simp only [init, List.getElem?_map] at ht
    cases hp : progs[i]? with
    | none => simp [hp] at ht
    | some p => simp [hp] at ht; subst ht; simp at hr

theorem good_acquire {s : State} {i : Nat} {t : Thread} {r : Nat} {pc' : List Instr}
    (g : Good s) (ht : s.threads[i]? = some t) (hfree : s.owner r = none)
    (hsym : sym (r :: t.held) pc' = some []) (s' : State)
    (hth : s'.threads = s.threads.set i ⟨pc', r :: t.held⟩)
    (hown : s'.owner = upd s.owner r (some i)) : Good s' := by
  refine ⟨?_, ?_, ?_⟩
  · intro j u hu
    rw [hth, getElem?_set' ht] at hu
    by_cases hj : j = i
    · simp [hj] at hu; subst hu; exact hsym
    · simp [hj] at hu; exact g.sym_ok j u hu
  · intro r' u hu
    rw [hown] at hu
    rw [hth]
    simp only [getElem?_set' ht]
    by_cases hr : r' = r
    · subst hr; rw [upd_same] at hu; cases hu
      exact ⟨⟨pc', r' :: t.held⟩, by simp, List.mem_cons_self⟩
    · rw [upd_other _ _ hr] at hu
      obtain ⟨t0, ht0, hm⟩ := g.owned_held r' u hu
      by_cases hui : u = i
      · subst hui; rw [ht] at ht0; cases ht0
        exact ⟨⟨pc', r :: t.held⟩, by simp, List.mem_cons_of_mem _ hm⟩
      · exact ⟨t0, by simp [hui, ht0], hm⟩
  · intro j u hu r' hr'
    rw [hth, getElem?_set' ht] at hu
    rw [hown]
    by_cases hj : j = i
    · simp [hj] at hu; subst hu; subst hj
      by_cases hr : r' = r
      · subst hr; rw [upd_same]
      · rw [upd_other _ _ hr]
        rcases List.mem_cons.1 hr' with e | hm
        · exact absurd e hr
        · exact g.held_owned j t ht r' hm
    · simp [hj] at hu
      have ho := g.held_owned j u hu r' hr'
      have hr : r' ≠ r := by
        intro e; subst e; rw [hfree] at ho; cases ho
      rw [upd_other _ _ hr]; exact ho

theorem good_release {s : State} {i : Nat} {t : Thread} {r : Nat} {pc' : List Instr}
    (g : Good s) (ht : s.threads[i]? = some t) (hown0 : s.owner r = some i)
    (hsym : sym (drop r t.held) pc' = some []) (s' : State)
    (hth : s'.threads = s.threads.set i ⟨pc', drop r t.held⟩)
    (hown : s'.owner = upd s.owner r none) : Good s' := by
  refine ⟨?_, ?_, ?_⟩
  · intro j u hu
    rw [hth, getElem?_set' ht] at hu
    by_cases hj : j = i
    · simp [hj] at hu; subst hu; exact hsym
    · simp [hj] at hu; exact g.sym_ok j u hu
  · intro r' u hu
    rw [hown] at hu
    rw [hth]
    simp only [getElem?_set' ht]
    by_cases hr : r' = r
    · subst hr; rw [upd_same] at hu; cases hu
    · rw [upd_other _ _ hr] at hu
      obtain ⟨t0, ht0, hm⟩ := g.owned_held r' u hu
      by_cases hui : u = i
      · subst hui; rw [ht] at ht0; cases ht0
        exact ⟨⟨pc', drop r t.held⟩, by simp, mem_drop.2 ⟨hm, hr⟩⟩
      · exact ⟨t0, by simp [hui, ht0], hm⟩
  · intro j u hu r' hr'
    rw [hth, getElem?_set' ht] at hu
    rw [hown]
    by_cases hj : j = i
    · simp [hj] at hu; subst hu; subst hj
      obtain ⟨hm, hr⟩ := mem_drop.1 hr'
      rw [upd_other _ _ hr]; exact g.held_owned j t ht r' hm
    · simp [hj] at hu
      have ho := g.held_owned j u hu r' hr'
      have hr : r' ≠ r := by
        intro e; subst e; rw [hown0] at ho; cases ho; exact hj rfl
      rw [upd_other _ _ hr]; exact ho

theorem good_skip {s : State} {i : Nat} {t : Thread} {pc' : List Instr}
    (g : Good s) (ht : s.threads[i]? = some t)
    (hsym : sym t.held pc' = some []) (s' : State)
    (hth : s'.threads = s.threads.set i ⟨pc', t.held⟩)
    (hown : s'.owner = s.owner) : Good s' := by
  refine ⟨?_, ?_, ?_⟩
  · intro j u hu
    rw [hth, getElem?_set' ht] at hu
    by_cases hj : j = i
    · simp [hj] at hu; subst hu; exact hsym
    · simp [hj] at hu; exact g.sym_ok j u hu
  · intro r' u hu
    rw [hown] at hu
    rw [hth]
    simp only [getElem?_set' ht]
    obtain ⟨t0, ht0, hm⟩ := g.owned_held r' u hu
    by_cases hui : u = i
    · subst hui; rw [ht] at ht0; cases ht0
      exact ⟨⟨pc', t.held⟩, by simp, hm⟩
    · exact ⟨t0, by simp [hui, ht0], hm⟩
  · intro j u hu r' hr'
    rw [hth, getElem?_set' ht] at hu
    rw [hown]
    by_cases hj : j = i
    · simp [hj] at hu; subst hu; subst hj
      exact g.held_owned j t ht r' hr'
    · simp [hj] at hu
      exact g.held_owned j u hu r' hr'

/-- `Good` is preserved by every step -/
theorem good_step_of {s s' : State} {tid : Nat} (g : Good s) (h : step s tid = some s') :
    Good s' := by
  unfold step at h
  cases ht : s.threads[tid]? with
  | none => simp [ht] at h
  | some t =>
    have hs := g.sym_ok tid t ht
    simp only [ht] at h
    cases hpc : t.pc with
    | nil => simp [hpc] at h
    | cons i rest =>
      rw [hpc] at hs
      simp only [hpc] at h
      cases i with
      | acq r =>
        simp only at h
        cases ho : s.owner r with
        | some u => simp [ho] at h
        | none =>
          simp only [ho, Option.some.injEq] at h; subst h
          exact good_acquire g ht ho (sym_acq.1 hs).2 _ rfl rfl
      | rel r =>
        simp only at h
        by_cases ho : s.owner r = some tid
        · simp only [ho, if_true, Option.some.injEq] at h; subst h
          exact good_release g ht ho (sym_rel.1 hs).2 _ rfl rfl
        · simp [ho] at h
      | done r =>
        simp only at h
        by_cases ho : s.owner r = some tid
        · simp only [ho, if_true, Option.some.injEq] at h; subst h
          exact good_release g ht ho (sym_done.1 hs).2 _ rfl rfl
        · simp [ho] at h
      | once r body =>
        simp only at h
        by_cases hf : s.finished.contains r = true
        · simp only [hf, if_true, Option.some.injEq] at h; subst h
          exact good_skip g ht (sym_once.1 hs).2.2 _ rfl rfl
        · simp only [hf] at h
          cases ho : s.owner r with
          | some u => simp [ho] at h
          | none =>
            simp only [ho] at h
            simp at h; subst h
            exact good_acquire g ht ho (sym_unfold_once hs) _ rfl rfl

theorem good_run_of : ∀ {sched : List Nat} {s s' : State}, Good s → run s sched = some s' →
    Good s' := by
  intro sched
  induction sched with
  | nil => intro s s' g h; simp [run] at h; subst h; exact g
  | cons tid sched ih =>
    intro s s' g h
    rw [run] at h
    cases hst : step s tid with
    | none => simp [hst] at h
    | some s1 => simp only [hst] at h; exact ih (good_step_of g hst) h

/-! ### progress -/

theorem exists_max : ∀ l : List Nat, l ≠ [] → ∃ m ∈ l, ∀ x ∈ l, x ≤ m := by
  intro l
  induction l with
  | nil => intro h; exact absurd rfl h
  | cons a l ih =>
    intro _
    by_cases hl : l = []
    · subst hl; exact ⟨a, by simp, by simp⟩
    · obtain ⟨m, hm, hmax⟩ := ih hl
      by_cases ham : a ≤ m
      · refine ⟨m, List.mem_cons_of_mem _ hm, ?_⟩
        intro x hx
        rcases List.mem_cons.1 hx with e | hx
        · subst e; exact ham
        · exact hmax x hx
      · refine ⟨a, List.mem_cons_self, ?_⟩
        intro x hx
        rcases List.mem_cons.1 hx with e | hx
        · subst e; exact Nat.le_refl _
        · have := hmax x hx; omega

/-- a thread whose every possible request (anything above what it holds) is free can step -/
theorem head_enabled {s : State} {i : Nat} {t : Thread} (g : Good s)
    (ht : s.threads[i]? = some t) (hpc : t.pc ≠ [])
    (hfree : ∀ r, (∀ x ∈ t.held, x < r) → s.owner r = none) :
    ∃ s', step s i = some s' := by
  have hs := g.sym_ok i t ht
  unfold step
  simp only [ht]
  cases hp : t.pc with
  | nil => exact absurd hp hpc
  | cons ins rest =>
    rw [hp] at hs
    cases ins with
    | acq r =>
      have ho := hfree r (above_iff.1 (sym_acq.1 hs).1)
      simp [ho]
    | rel r =>
      have ho := g.held_owned i t ht r (sym_rel.1 hs).1
      simp [ho]
    | done r =>
      have ho := g.held_owned i t ht r (sym_done.1 hs).1
      simp [ho]
    | once r body =>
      have ho := hfree r (above_iff.1 (sym_once.1 hs).1)
      by_cases hf : r ∈ s.finished
      · simp [hf]
      · simp [hf, ho]

/-- The key argument.  If nothing is held anywhere, every request is free.  Otherwise take
the resource `m` of maximal rank among the held ones and its holder `u`: `u` has not finished
(it must still give up `m`), whatever it requests next is above `m`, and a busy resource is
held by somebody, hence at most `m`: the request is free. -/
theorem progress {s : State} (g : Good s) (h : ∃ t ∈ s.threads, t.pc ≠ []) :
    ∃ (tid : Nat) (s' : State), step s tid = some s' := by
  by_cases hL : s.threads.flatMap (fun t => t.held) = []
  · obtain ⟨t, htm, hpc⟩ := h
    obtain ⟨i, hi⟩ := List.mem_iff_getElem?.1 htm
    refine ⟨i, head_enabled g hi hpc ?_⟩
    intro r _
    cases ho : s.owner r with
    | none => rfl
    | some u =>
      obtain ⟨t0, ht0, hm⟩ := g.owned_held r u ho
      have : r ∈ s.threads.flatMap (fun t => t.held) :=
        List.mem_flatMap.2 ⟨t0, List.mem_of_getElem? ht0, hm⟩
      rw [hL] at this; cases this
  · obtain ⟨m, hm, hmax⟩ := exists_max _ hL
    obtain ⟨u, hum, hmu⟩ := List.mem_flatMap.1 hm
    obtain ⟨j, hj⟩ := List.mem_iff_getElem?.1 hum
    have hpc : u.pc ≠ [] := by
      intro e
      have := g.sym_ok j u hj
      rw [e, sym_nil] at this
      have e' : u.held = [] := Option.some.inj this
      rw [e'] at hmu; cases hmu
    refine ⟨j, head_enabled g hj hpc ?_⟩
    intro r hr
    cases ho : s.owner r with
    | none => rfl
    | some w =>
      obtain ⟨t0, ht0, hm0⟩ := g.owned_held r w ho
      have h1 : r ≤ m := hmax r (List.mem_flatMap.2 ⟨t0, List.mem_of_getElem? ht0, hm0⟩)
      have h2 : m < r := hr m hmu
      omega

/-- a `Good` state in which nobody can step is a final state: every program has been run
to its end, nothing is held, nothing is owned -/
theorem stuck_final {s : State} (g : Good s) (h : ∀ tid, step s tid = none) :
    (∀ t ∈ s.threads, t.pc = [] ∧ t.held = []) ∧ ∀ r, s.owner r = none := by
  have hpcs : ∀ t ∈ s.threads, t.pc = [] := by
    intro t ht
    by_cases e : t.pc = []
    · exact e
    · obtain ⟨tid, s', hs⟩ := progress g ⟨t, ht, e⟩
      rw [h tid] at hs; cases hs
  have hheld : ∀ t ∈ s.threads, t.held = [] := by
    intro t ht
    obtain ⟨i, hi⟩ := List.mem_iff_getElem?.1 ht
    have := g.sym_ok i t hi
    rw [hpcs t ht, sym_nil] at this
    exact Option.some.inj this
  refine ⟨fun t ht => ⟨hpcs t ht, hheld t ht⟩, ?_⟩
  intro r
  cases ho : s.owner r with
  | none => rfl
  | some u =>
    obtain ⟨t0, ht0, hm⟩ := g.owned_held r u ho
    rw [hheld t0 (List.mem_of_getElem? ht0)] at hm; cases hm

/-! ### termination -/

theorem size_set {s : State} {i : Nat} {t : Thread} (ht : s.threads[i]? = some t)
    (pc' : List Instr) (held' : List Nat) (o : Nat → Option Nat) (f : List Nat) :
    State.size { threads := s.threads.set i ⟨pc', held'⟩, owner := o, finished := f } +
      size t.pc = s.size + size pc' := by
  unfold State.size
  exact sum_map_set (fun t => size t.pc) s.threads i t ⟨pc', held'⟩ ht

/-- every step strictly decreases the measure -/
theorem step_size {s s' : State} {tid : Nat} (h : step s tid = some s') : s'.size < s.size := by
  unfold step at h
  cases ht : s.threads[tid]? with
  | none => simp [ht] at h
  | some t =>
    simp only [ht] at h
    cases hpc : t.pc with
    | nil => simp [hpc] at h
    | cons i rest =>
      simp only [hpc] at h
      cases i with
      | acq r =>
        simp only at h
        cases ho : s.owner r with
        | some u => simp [ho] at h
        | none =>
          simp only [ho, Option.some.injEq] at h; subst h
          have := size_set ht (rest) (r :: t.held) (upd s.owner r (some tid)) s.finished
          rw [hpc, size_cons, sizeI] at this
          omega
      | rel r =>
        simp only at h
        by_cases ho : s.owner r = some tid
        · simp only [ho, if_true, Option.some.injEq] at h; subst h
          have := size_set ht (rest) (drop r t.held) (upd s.owner r none) s.finished
          rw [hpc, size_cons, sizeI] at this
          omega
        · simp [ho] at h
      | done r =>
        simp only at h
        by_cases ho : s.owner r = some tid
        · simp only [ho, if_true, Option.some.injEq] at h; subst h
          have := size_set ht (rest) (drop r t.held) (upd s.owner r none) (r :: s.finished)
          rw [hpc, size_cons, sizeI] at this
          omega
        · simp [ho] at h
      | once r body =>
        simp only at h
        by_cases hf : s.finished.contains r = true
        · simp only [hf, if_true, Option.some.injEq] at h; subst h
          have := size_set ht (rest) (t.held) s.owner s.finished
          rw [hpc, size_cons, sizeI] at this
          omega
        · simp only [hf] at h
          cases ho : s.owner r with
          | some u => simp [ho] at h
          | none =>
            simp only [ho] at h
            simp at h; subst h
            have := size_set ht (body ++ .done r :: rest) (r :: t.held)
              (upd s.owner r (some tid)) s.finished
            rw [hpc, size_cons, sizeI, size_append, size_cons, sizeI] at this
            omega

/-- a run is never longer than the measure of the state it starts from -/
theorem run_size : ∀ {sched : List Nat} {s s' : State}, run s sched = some s' →
    s'.size + sched.length ≤ s.size := by
  intro sched
  induction sched with
  | nil => intro s s' h; simp [run] at h; subst h; simp
  | cons tid sched ih =>
    intro s s' h
    rw [run] at h
    cases hst : step s tid with
    | none => simp [hst] at h
    | some s1 =>
      simp only [hst] at h
      have h1 := ih h
      have h2 := step_size hst
      simp only [List.length_cons]; omega

theorem run_append {s : State} : ∀ {a b : List Nat} {s1 s2 : State}, run s a = some s1 →
    run s1 b = some s2 → run s (a ++ b) = some s2 := by
  intro a
  induction a generalizing s with
  | nil => intro b s1 s2 h1 h2; simp [run] at h1; subst h1; simpa using h2
  | cons tid a ih =>
    intro b s1 s2 h1 h2
    rw [run] at h1
    rw [List.cons_append, run]
    cases hst : step s tid with
    | none => simp [hst] at h1
    | some s' =>
      simp only [hst] at h1 ⊢
      exact ih h1 h2

/-- from every `Good` state some schedule runs all threads to completion -/
theorem can_finish : ∀ (n : Nat) (s : State), s.size ≤ n → Good s →
    ∃ (sched : List Nat) (s' : State), run s sched = some s' ∧
      (∀ t ∈ s'.threads, t.pc = [] ∧ t.held = []) ∧ ∀ r, s'.owner r = none := by
  intro n
  induction n with
  | zero =>
    intro s hn g
    by_cases hstuck : ∀ tid, step s tid = none
    · exact ⟨[], s, by simp [run], stuck_final g hstuck⟩
    · exfalso
      have : ∃ tid, step s tid ≠ none := Classical.not_forall.1 hstuck
      obtain ⟨tid, ht⟩ := this
      cases hst : step s tid with
      | none => exact ht hst
      | some s1 => have := step_size hst; omega
  | succ n ih =>
    intro s hn g
    by_cases hstuck : ∀ tid, step s tid = none
    · exact ⟨[], s, by simp [run], stuck_final g hstuck⟩
    · have : ∃ tid, step s tid ≠ none := Classical.not_forall.1 hstuck
      obtain ⟨tid, ht⟩ := this
      cases hst : step s tid with
      | none => exact absurd hst ht
      | some s1 =>
        have hlt := step_size hst
        obtain ⟨sched, s', hr, hfin⟩ := ih s1 (by omega) (good_step_of g hst)
        refine ⟨tid :: sched, s', ?_, hfin⟩
        rw [run, hst]; exact hr

/-- there is no infinite run -/
theorem no_infinite_run_of (f : Nat → State) (sch : Nat → Nat)
    (h : ∀ n, step (f n) (sch n) = some (f (n + 1))) : False := by
  have key : ∀ n, (f n).size + n ≤ (f 0).size := by
    intro n
    induction n with
    | zero => simp
    | succ n ih => have := step_size (h n); omega
  have := key ((f 0).size + 1)
  omega

/-! ### the API table -/

theorem withFMT_ranked (k : Nat) : Ranked (withFMT k) = true := by
  rw [ranked_iff]
  have h1 : sym [] getFMT = some [FMT] := by decide
  have h2 : sym [FMT] tagsBrief = some [FMT] := by decide
  have h3 : sym [FMT] [Instr.rel FMT] = some [] := by decide
  have h4 : ∀ k, sym [FMT] (List.replicate k tagsBrief).flatten = some [FMT] := by
    intro k
    induction k with
    | zero => simp [sym_nil]
    | succ k ih =>
      rw [List.replicate_succ, List.flatten_cons]
      exact sym_append_some h2 ih
  unfold withFMT
  exact sym_append_some (sym_append_some h1 (h4 k)) h3

/-- the lock programs C20 speaks about: the rows of `apiOps`, and a formatting call with any
number of brief uses of the tag store -/
def IsApiOp (p : List Instr) : Prop := (∃ name, (name, p) ∈ apiOps) ∨ ∃ k, p = withFMT k

theorem apiOp_ranked (hall : allRanked = true) {p : List Instr} (h : IsApiOp p) :
    Ranked p = true := by
  rcases h with ⟨name, hm⟩ | ⟨k, rfl⟩
  · unfold allRanked at hall
    rw [List.all_eq_true] at hall
    exact hall (name, p) hm
  · exact withFMT_ranked k

/-! ### mutual exclusion and the guarded formatting context -/

/-- thread `tid` holds resource `r` -/
def holds (s : State) (tid r : Nat) : Bool :=
  match s.threads[tid]? with
  | some t => t.held.contains r
  | none => false

theorem holds_iff {s : State} {tid r : Nat} :
    holds s tid r = true ↔ ∃ t : Thread, s.threads[tid]? = some t ∧ r ∈ t.held := by
  unfold holds
  cases h : s.threads[tid]? with
  | none => simp
  | some t => simp

/-- a resource is held by at most one thread -/
theorem holds_unique {s : State} (g : Good s) {i j r : Nat} (hi : holds s i r = true)
    (hj : holds s j r = true) : i = j := by
  obtain ⟨t, ht, hr⟩ := holds_iff.1 hi
  obtain ⟨u, hu, hr'⟩ := holds_iff.1 hj
  have h1 := g.held_owned i t ht r hr
  have h2 := g.held_owned j u hu r hr'
  rw [h1] at h2; cases h2; rfl

/-- An execution with a shared value of type `C` (the formatting context) next to the lock
state.  Events: a thread makes a step of its lock program, or a thread *writes* the value
(`register_tags`); reading is observing the current value.  `guard` is the resource that
protects the value: a write is possible only for a thread that holds it - that is the
hypothesis "every access to the context happens while FMT is held", built into `exec`
(an execution with an unguarded write is not an execution: `none`). -/
inductive Ev (C : Type) where
  | step (tid : Nat)
  | write (tid : Nat) (v : C)
  deriving DecidableEq

def exec1 {C : Type} (guard : Nat) (sc : State × C) : Ev C → Option (State × C)
  | .step tid =>
      match step sc.1 tid with
      | some s' => some (s', sc.2)
      | none => none
  | .write tid v => if holds sc.1 tid guard then some (sc.1, v) else none

def exec {C : Type} (guard : Nat) : State × C → List (Ev C) → Option (State × C)
  | sc, [] => some sc
  | sc, e :: es =>
      match exec1 guard sc e with
      | some sc' => exec guard sc' es
      | none => none

/-- thread `i` holds the guard in every state the execution goes through -/
def holdsAlong {C : Type} (guard i : Nat) : State × C → List (Ev C) → Bool
  | sc, [] => holds sc.1 i guard
  | sc, e :: es =>
      holds sc.1 i guard &&
        (match exec1 guard sc e with
         | some sc' => holdsAlong guard i sc' es
         | none => true)

/-- the values of the context along the execution: what a read returns at each point -/
def ctxTrace {C : Type} (guard : Nat) : State × C → List (Ev C) → List C
  | sc, [] => [sc.2]
  | sc, e :: es =>
      sc.2 :: (match exec1 guard sc e with
               | some sc' => ctxTrace guard sc' es
               | none => [])

theorem exec1_good {C : Type} {guard : Nat} {e : Ev C} {s s' : State} {c c' : C}
    (g : Good s) (h : exec1 guard (s, c) e = some (s', c')) : Good s' := by
  cases e with
  | step tid =>
    simp only [exec1] at h
    cases hst : step s tid with
    | none => simp [hst] at h
    | some s1 =>
      simp only [hst, Option.some.injEq, Prod.mk.injEq] at h
      rw [← h.1]; exact good_step_of g hst
  | write tid v =>
    simp only [exec1] at h
    by_cases hh : holds s tid guard = true
    · simp only [hh, if_true, Option.some.injEq, Prod.mk.injEq] at h
      rw [← h.1]; exact g
    · simp [hh] at h

/-- the lock-state part of an execution is a run: `Good` is preserved -/
theorem exec_good {C : Type} {guard : Nat} : ∀ {es : List (Ev C)} {s : State} {c : C}
    {s' : State} {c' : C}, Good s → exec guard (s, c) es = some (s', c') → Good s' := by
  intro es
  induction es with
  | nil => intro s c s' c' g h; simp [exec] at h; rw [← h.1]; exact g
  | cons e es ih =>
    intro s c s' c' g h
    simp only [exec] at h
    cases h1 : exec1 guard (s, c) e with
    | none => simp [h1] at h
    | some sc1 =>
      obtain ⟨s1, c1⟩ := sc1
      simp only [h1] at h
      exact ih (exec1_good g h1) h

/-- an execution without writes does not change the value -/
theorem exec_no_write {C : Type} {guard : Nat} : ∀ {es : List (Ev C)} {s : State} {c : C}
    {s' : State} {c' : C}, exec guard (s, c) es = some (s', c') →
    (∀ tid v, Ev.write tid v ∉ es) → c' = c := by
  intro es
  induction es with
  | nil => intro s c s' c' h _; simp [exec] at h; exact h.2.symm
  | cons e es ih =>
    intro s c s' c' h hnw
    simp only [exec] at h
    cases h1 : exec1 guard (s, c) e with
    | none => simp [h1] at h
    | some sc1 =>
      obtain ⟨s1, c1⟩ := sc1
      simp only [h1] at h
      have hc : c1 = c := by
        cases e with
        | step tid =>
          simp only [exec1] at h1
          cases hst : step s tid with
          | none => simp [hst] at h1
          | some s2 => simp [hst] at h1; exact h1.2.symm
        | write tid v => exact absurd List.mem_cons_self (hnw tid v)
      subst hc
      exact ih h fun tid v hm => hnw tid v (List.mem_cons_of_mem _ hm)

/-- While thread `i` holds the guard, every write is `i`'s own: accesses of different
threads never interleave inside one critical section. -/
theorem writes_own {C : Type} {guard i : Nat} : ∀ {es : List (Ev C)} {s : State} {c : C}
    {s' : State} {c' : C}, Good s → exec guard (s, c) es = some (s', c') →
    holdsAlong guard i (s, c) es = true → ∀ tid v, Ev.write tid v ∈ es → tid = i := by
  intro es
  induction es with
  | nil => intro s c s' c' _ _ _ tid v hm; cases hm
  | cons e es ih =>
    intro s c s' c' g h hh tid v hm
    simp only [exec] at h
    simp only [holdsAlong, Bool.and_eq_true] at hh
    cases h1 : exec1 guard (s, c) e with
    | none => simp [h1] at h
    | some sc1 =>
      obtain ⟨s1, c1⟩ := sc1
      simp only [h1] at h hh
      rcases List.mem_cons.1 hm with e1 | hm'
      · subst e1
        simp only [exec1] at h1
        by_cases hw : holds s tid guard = true
        · exact holds_unique g hw hh.1
        · simp [hw] at h1
      · exact ih (exec1_good g h1) h hh.2 tid v hm'

/-- ... so if `i` does not write, every value observable during the critical section is
the value at its beginning. -/
theorem ctx_stable {C : Type} {guard i : Nat} : ∀ {es : List (Ev C)} {s : State} {c : C},
    Good s → holdsAlong guard i (s, c) es = true → (∀ v, Ev.write i v ∉ es) →
    ∀ x ∈ ctxTrace guard (s, c) es, x = c := by
  intro es
  induction es with
  | nil => intro s c _ _ _ x hx; simpa [ctxTrace] using hx
  | cons e es ih =>
    intro s c g hh hnw x hx
    simp only [holdsAlong, Bool.and_eq_true] at hh
    simp only [ctxTrace, List.mem_cons] at hx
    rcases hx with rfl | hx
    · rfl
    · cases h1 : exec1 guard (s, c) e with
      | none => simp [h1] at hx
      | some sc1 =>
        obtain ⟨s1, c1⟩ := sc1
        simp only [h1] at hx hh
        have hc : c1 = c := by
          cases e with
          | step tid =>
            simp only [exec1] at h1
            cases hst : step s tid with
            | none => simp [hst] at h1
            | some s2 => simp [hst] at h1; exact h1.2.symm
          | write tid v =>
            exfalso
            simp only [exec1] at h1
            by_cases hw : holds s tid guard = true
            · have : tid = i := holds_unique g hw hh.1
              subst this
              exact hnw v List.mem_cons_self
            · simp [hw] at h1
        subst hc
        exact ih (exec1_good g h1) hh.2 (fun v hm => hnw v (List.mem_cons_of_mem _ hm)) x hx

/-! ### everything held will be given up -/

/-- what a thread holds and does not hold at the end is given up by an instruction of its
remaining program: for a running once, its `done` is pending -/
theorem held_pending : ∀ (pc : List Instr) (held out : List Nat) (r : Nat),
    sym held pc = some out → r ∈ held → r ∉ out → Instr.rel r ∈ pc ∨ Instr.done r ∈ pc := by
  intro pc
  induction pc with
  | nil =>
    intro held out r h hr hro
    rw [sym_nil] at h; cases h; exact absurd hr hro
  | cons i rest ih =>
    intro held out r h hr hro
    have lift : (Instr.rel r ∈ rest ∨ Instr.done r ∈ rest) →
        (Instr.rel r ∈ i :: rest ∨ Instr.done r ∈ i :: rest) := fun h =>
      h.elim (fun h => Or.inl (List.mem_cons_of_mem _ h)) (fun h => Or.inr (List.mem_cons_of_mem _ h))
    cases i with
    | acq r' =>
      exact lift (ih _ _ r (sym_acq.1 h).2 (List.mem_cons_of_mem _ hr) hro)
    | rel r' =>
      by_cases e : r = r'
      · subst e; exact Or.inl List.mem_cons_self
      · exact lift (ih _ _ r (sym_rel.1 h).2 (mem_drop.2 ⟨hr, e⟩) hro)
    | done r' =>
      by_cases e : r = r'
      · subst e; exact Or.inr List.mem_cons_self
      · exact lift (ih _ _ r (sym_done.1 h).2 (mem_drop.2 ⟨hr, e⟩) hro)
    | once r' body =>
      exact lift (ih _ _ r (sym_once.1 h).2.2 hr hro)

/-! ### the lazy discipline: the store inside an initialiser never blocks -/

theorem lazyOK_nil (o m : Nat) (k : Bool) : lazyOK o m k [] = true := by rw [lazyOK]

theorem lazyOK_cons (o m : Nat) (k : Bool) (i : Instr) (rest : List Instr) :
    lazyOK o m k (i :: rest) = (lazyOKI o m k i && lazyOK o m (k || finishes o i) rest) := by
  rw [lazyOK]

mutual
theorem lazyOK_true : ∀ (o m : Nat) (p : List Instr) (k : Bool),
    lazyOK o m k p = true → lazyOK o m true p = true
  | _, _, [], _, _ => by rw [lazyOK]
  | o, m, i :: rest, k, h => by
    rw [lazyOK_cons, Bool.and_eq_true] at h
    rw [lazyOK_cons, Bool.and_eq_true]
    refine ⟨lazyOKI_true o m i k h.1, ?_⟩
    rw [Bool.true_or]
    exact lazyOK_true o m rest _ h.2
theorem lazyOKI_true : ∀ (o m : Nat) (i : Instr) (k : Bool),
    lazyOKI o m k i = true → lazyOKI o m true i = true
  | _, _, .acq r, k, h => by
    rw [lazyOKI, Bool.and_eq_true] at h
    rw [lazyOKI, Bool.and_eq_true]
    exact ⟨h.1, by simp⟩
  | _, _, .rel _, _, _ => by rw [lazyOKI]
  | _, _, .done _, _, _ => by rw [lazyOKI]
  | o, m, .once r body, k, h => by
    rw [lazyOKI, Bool.and_eq_true] at h
    rw [lazyOKI, Bool.and_eq_true]
    exact ⟨h.1, lazyOK_true o m body k h.2⟩
end

theorem lazyOK_mono {o m : Nat} {p : List Instr} {k k' : Bool} (hk : k = true → k' = true)
    (h : lazyOK o m k p = true) : lazyOK o m k' p = true := by
  cases k' with
  | true => exact lazyOK_true o m p k h
  | false =>
    cases k with
    | true => exact absurd (hk rfl) (by simp)
    | false => exact h

theorem lazyOK_append {o m : Nat} : ∀ (p q : List Instr) (k : Bool),
    lazyOK o m k p = true → lazyOK o m k q = true → lazyOK o m k (p ++ q) = true := by
  intro p
  induction p with
  | nil => intro q k _ hq; simpa using hq
  | cons i p ih =>
    intro q k hp hq
    rw [lazyOK_cons, Bool.and_eq_true] at hp
    rw [List.cons_append, lazyOK_cons, Bool.and_eq_true]
    exact ⟨hp.1, ih q _ hp.2 (lazyOK_mono (by intro e; simp [e]) hq)⟩

/-- the discipline of lazy `(o, m)` as a state invariant: with `k` = "`o` has completed",
  * what is left of every program takes `m` only where `o` is known to have completed,
  * whoever holds `m` does so after `o` completed,
  * while somebody is the runner of `o`, `o` has not completed. -/
structure LazyInv (o m : Nat) (s : State) : Prop where
  prog_ok : ∀ (i : Nat) (t : Thread), s.threads[i]? = some t →
    lazyOK o m (s.finished.contains o) t.pc = true
  held_after : ∀ (i : Nat) (t : Thread), s.threads[i]? = some t → m ∈ t.held →
    s.finished.contains o = true
  running_before : ∀ u : Nat, s.owner o = some u → s.finished.contains o = false

theorem lazyInv_init {o m : Nat} {progs : List (List Instr)}
    (h : ∀ p ∈ progs, lazyOK o m false p = true) : LazyInv o m (init progs) := by
  refine ⟨?_, ?_, ?_⟩
  · intro i t ht
    simp only [init, List.getElem?_map] at ht
    cases hp : progs[i]? with
    | none => simp [hp] at ht
    | some p =>
      simp [hp] at ht; subst ht
      simpa [init] using h p (List.mem_of_getElem? hp)
  · intro i t ht hm
    simp only [init, List.getElem?_map] at ht
    cases hp : progs[i]? with
    | none => simp [hp] at ht
    | some p => simp [hp] at ht; subst ht; simp at hm
  · intro u hu; simp [init] at hu

/-- one thread moves to `⟨pc', held'⟩`, the completed set does not shrink -/
theorem lazyInv_update {o m : Nat} {s : State} {i : Nat} {t : Thread} {pc' : List Instr}
    {held' : List Nat} (li : LazyInv o m s) (ht : s.threads[i]? = some t) (s' : State)
    (hth : s'.threads = s.threads.set i ⟨pc', held'⟩)
    (hk : s.finished.contains o = true → s'.finished.contains o = true)
    (hpc : lazyOK o m (s'.finished.contains o) pc' = true)
    (hheld : m ∈ held' → s'.finished.contains o = true)
    (hrun : ∀ u, s'.owner o = some u → s'.finished.contains o = false) : LazyInv o m s' := by
  refine ⟨?_, ?_, hrun⟩
  · intro j u hu
    rw [hth, getElem?_set' ht] at hu
    by_cases hj : j = i
    · simp [hj] at hu; subst hu; exact hpc
    · simp [hj] at hu; exact lazyOK_mono hk (li.prog_ok j u hu)
  · intro j u hu hm
    rw [hth, getElem?_set' ht] at hu
    by_cases hj : j = i
    · simp [hj] at hu; subst hu; exact hheld hm
    · simp [hj] at hu; exact hk (li.held_after j u hu hm)

theorem lazyInv_step {o m : Nat} {s s' : State} {tid : Nat} (li : LazyInv o m s)
    (h : step s tid = some s') : LazyInv o m s' := by
  unfold step at h
  cases ht : s.threads[tid]? with
  | none => simp [ht] at h
  | some t =>
    have hp := li.prog_ok tid t ht
    simp only [ht] at h
    cases hpc : t.pc with
    | nil => simp [hpc] at h
    | cons i rest =>
      rw [hpc, lazyOK_cons, Bool.and_eq_true] at hp
      simp only [hpc] at h
      cases i with
      | acq r =>
        simp only at h
        cases ho : s.owner r with
        | some u => simp [ho] at h
        | none =>
          simp only [ho, Option.some.injEq] at h; subst h
          have h1 := hp.1
          rw [lazyOKI, Bool.and_eq_true] at h1
          have hro : r ≠ o := by simpa using h1.1
          refine lazyInv_update li ht _ rfl (fun e => e) ?_ ?_ ?_
          · simpa [finishes] using hp.2
          · intro hm
            rcases List.mem_cons.1 hm with e | hm
            · subst e; simpa using h1.2
            · exact li.held_after tid t ht hm
          · intro u hu
            have : s.owner o = some u := by
              simpa [upd, Ne.symm hro] using hu
            exact li.running_before u this
      | rel r =>
        simp only at h
        by_cases ho : s.owner r = some tid
        · simp only [ho, if_true, Option.some.injEq] at h; subst h
          refine lazyInv_update li ht _ rfl (fun e => e) ?_ ?_ ?_
          · simpa [finishes] using hp.2
          · intro hm; exact li.held_after tid t ht (mem_drop.1 hm).1
          · intro u hu
            by_cases e : o = r
            · simp [upd, e] at hu
            · have : s.owner o = some u := by simpa [upd, e] using hu
              exact li.running_before u this
        · simp [ho] at h
      | done r =>
        simp only at h
        by_cases ho : s.owner r = some tid
        · simp only [ho, if_true, Option.some.injEq] at h; subst h
          have hc : (r :: s.finished).contains o = (o == r || s.finished.contains o) :=
            List.contains_cons
          refine lazyInv_update li ht _ rfl ?_ ?_ ?_ ?_
          · intro e
            show (r :: s.finished).contains o = true
            rw [hc, e, Bool.or_true]
          · show lazyOK o m ((r :: s.finished).contains o) rest = true
            refine lazyOK_mono ?_ hp.2
            intro e
            rw [hc]
            cases hfo : s.finished.contains o with
            | true => rw [Bool.or_true]
            | false =>
              rw [hfo, Bool.false_or] at e
              simp only [finishes] at e
              have : r = o := by simpa using e
              subst this; simp
          · intro hm
            have := li.held_after tid t ht (mem_drop.1 hm).1
            show (r :: s.finished).contains o = true
            rw [hc, this, Bool.or_true]
          · intro u hu
            show (r :: s.finished).contains o = false
            have hu' : upd s.owner r none o = some u := hu
            by_cases e : o = r
            · rw [e, upd_same] at hu'; cases hu'
            · rw [upd_other _ _ e] at hu'
              have h3 := li.running_before u hu'
              rw [hc, h3, Bool.or_false]
              simpa using e
        · simp [ho] at h
      | once r body =>
        simp only at h
        have h1 := hp.1
        rw [lazyOKI, Bool.and_eq_true] at h1
        by_cases hf : s.finished.contains r = true
        · simp only [hf, if_true, Option.some.injEq] at h; subst h
          refine lazyInv_update li ht _ rfl (fun e => e) ?_ ?_ ?_
          · refine lazyOK_mono ?_ hp.2
            intro e
            simp only [Bool.or_eq_true] at e
            rcases e with e | e
            · exact e
            · simp only [finishes] at e
              have : r = o := by simpa using e
              rw [← this]; exact hf
          · intro hm; exact li.held_after tid t ht hm
          · intro u hu; exact li.running_before u hu
        · simp only [hf] at h
          cases ho : s.owner r with
          | some u => simp [ho] at h
          | none =>
            simp only [ho] at h
            simp at h; subst h
            have hrm : r ≠ m := by simpa using h1.1
            refine lazyInv_update li ht _ rfl (fun e => e) ?_ ?_ ?_
            · refine lazyOK_append _ _ _ h1.2 ?_
              rw [lazyOK_cons, Bool.and_eq_true]
              refine ⟨by rw [lazyOKI], ?_⟩
              simpa [finishes] using hp.2
            · intro hm
              rcases List.mem_cons.1 hm with e | hm
              · exact absurd e.symm hrm
              · exact li.held_after tid t ht hm
            · intro u hu
              by_cases e : o = r
              · subst e; simpa using hf
              · have : s.owner o = some u := by simpa [upd, e] using hu
                exact li.running_before u this

theorem lazyInv_run {o m : Nat} : ∀ {sched : List Nat} {s s' : State}, LazyInv o m s →
    run s sched = some s' → LazyInv o m s' := by
  intro sched
  induction sched with
  | nil => intro s s' g h; simp [run] at h; subst h; exact g
  | cons tid sched ih =>
    intro s s' g h
    rw [run] at h
    cases hst : step s tid with
    | none => simp [hst] at h
    | some s1 => simp only [hst] at h; exact ih (lazyInv_step g hst) h

/-- while the initialiser of a lazy runs, the lazy's data mutex is free -/
theorem store_free {o m : Nat} {s : State} (g : Good s) (li : LazyInv o m s) {u : Nat}
    (hrun : s.owner o = some u) : s.owner m = none := by
  cases hm : s.owner m with
  | none => rfl
  | some w =>
    obtain ⟨t, ht, hmem⟩ := g.owned_held m w hm
    have h1 := li.held_after w t ht hmem
    have h2 := li.running_before u hrun
    rw [h1] at h2; cases h2

/-- ... and nobody is about to request it -/
theorem store_unrequested {o m : Nat} {s : State} (li : LazyInv o m s) {u : Nat}
    (hrun : s.owner o = some u) (i : Nat) (t : Thread) (ht : s.threads[i]? = some t)
    (rest : List Instr) : t.pc ≠ Instr.acq m :: rest := by
  intro e
  have h := li.prog_ok i t ht
  rw [e, lazyOK_cons, Bool.and_eq_true, lazyOKI, Bool.and_eq_true, li.running_before u hrun] at h
  simp at h

theorem withFMT_lazy (k : Nat) : lazyDisciplined (withFMT k) = true := by
  unfold lazyDisciplined
  rw [List.all_eq_true]
  intro l hl
  have h1 : ∀ l ∈ lazies, lazyOK l.1 l.2 false getFMT = true := by decide
  have h2 : ∀ l ∈ lazies, lazyOK l.1 l.2 false tagsBrief = true := by decide
  have h3 : ∀ l ∈ lazies, lazyOK l.1 l.2 false [Instr.rel FMT] = true := by decide
  have h4 : ∀ k, lazyOK l.1 l.2 false (List.replicate k tagsBrief).flatten = true := by
    intro k
    induction k with
    | zero => simp [lazyOK_nil]
    | succ k ih =>
      rw [List.replicate_succ, List.flatten_cons]
      exact lazyOK_append _ _ _ (h2 l hl) ih
  unfold withFMT
  exact lazyOK_append _ _ _ (lazyOK_append _ _ _ (h1 l hl) (h4 k)) (h3 l hl)

theorem apiOp_lazy (hall : allLazy = true) {p : List Instr} (h : IsApiOp p) :
    lazyDisciplined p = true := by
  rcases h with ⟨name, hm⟩ | ⟨k, rfl⟩
  · unfold allLazy at hall
    rw [List.all_eq_true] at hall
    exact hall (name, p) hm
  · exact withFMT_lazy k

theorem lazy_flatten {o m : Nat} {ops : List (List Instr)}
    (h : ∀ p ∈ ops, lazyOK o m false p = true) : lazyOK o m false ops.flatten = true := by
  induction ops with
  | nil => simp [lazyOK_nil]
  | cons p ops ih =>
    rw [List.flatten_cons]
    exact lazyOK_append _ _ _ (h p List.mem_cons_self)
      (ih fun q hq => h q (List.mem_cons_of_mem _ hq))

end EnvVerif.Conc
