/-
  Lemmas/ConcLemmas.lean — the lock-protocol proofs behind Props/C20.lean.

  * `sym` composes (`sym_append_bind`), inversion lemmas per instruction;
  * the invariant `Good` and its preservation by `step`;
  * `Good` states with an unfinished thread have an enabled thread (the holder of the
    resource of maximal rank among the held ones requests something above it, hence free);
  * every step decreases `State.size`;
  * the formatting context as a value guarded by a resource (`exec`).
-/
import EnvVerif.Model.Conc

namespace EnvVerif.Conc

/-! ### small facts -/

theorem above_iff {r : Nat} {held : List Nat} : above r held = true ↔ ∀ x ∈ held, x < r := by
  simp [above]

theorem mem_drop {x r : Nat} {held : List Nat} : x ∈ drop r held ↔ x ∈ held ∧ x ≠ r := by
  simp [drop]

theorem drop_of_above {r : Nat} {held : List Nat} (h : above r held = true) :
    drop r held = held := by
  rw [above_iff] at h
  unfold drop
  rw [List.filter_eq_self]
  intro x hx
  have := h x hx
  simp; omega

theorem drop_cons_self {r : Nat} {held : List Nat} (h : above r held = true) :
    drop r (r :: held) = held := by
  have := drop_of_above h
  unfold drop at *
  simp [this]

theorem upd_same (f : Nat → Option Nat) (r : Nat) (v : Option Nat) : upd f r v r = v := by
  simp [upd]

theorem upd_other (f : Nat → Option Nat) {r x : Nat} (v : Option Nat) (h : x ≠ r) :
    upd f r v x = f x := by
  simp [upd, h]

theorem getElem?_set' {α} {l : List α} {i : Nat} {t a : α} (h : l[i]? = some t) (j : Nat) :
    (l.set i a)[j]? = if j = i then some a else l[j]? := by
  have hi : i < l.length := by
    rcases Nat.lt_or_ge i l.length with h' | h'
    · exact h'
    · rw [List.getElem?_eq_none h'] at h; cases h
  rw [List.getElem?_set]
  by_cases hij : i = j
  · subst hij; simp [hi]
  · have : ¬ j = i := fun e => hij e.symm
    simp [hij, this]

/-! ### `sym` -/

theorem sym_nil (held : List Nat) : sym held [] = some held := by
  rw [sym]

theorem sym_cons (held : List Nat) (i : Instr) (rest : List Instr) :
    sym held (i :: rest) = (symI held i).bind (fun h => sym h rest) := by
  rw [sym]; cases symI held i <;> rfl

/-- sequential composition of symbolic executions -/
theorem sym_append_bind (p q : List Instr) :
    ∀ held, sym held (p ++ q) = (sym held p).bind (fun h => sym h q) := by
  induction p with
  | nil => intro held; simp [sym_nil]
  | cons i p ih =>
    intro held
    rw [List.cons_append, sym_cons, sym_cons]
    cases symI held i with
    | none => rfl
    | some h => simp [ih]

theorem sym_append_some {p q : List Instr} {held mid out : List Nat}
    (hp : sym held p = some mid) (hq : sym mid q = some out) : sym held (p ++ q) = some out := by
  rw [sym_append_bind, hp]; exact hq

theorem sym_acq {held : List Nat} {r : Nat} {rest : List Instr} {out : List Nat} :
    sym held (.acq r :: rest) = some out ↔
      above r held = true ∧ sym (r :: held) rest = some out := by
  rw [sym_cons, symI]
  by_cases h : above r held = true <;> simp [h]

theorem sym_rel {held : List Nat} {r : Nat} {rest : List Instr} {out : List Nat} :
    sym held (.rel r :: rest) = some out ↔
      r ∈ held ∧ sym (drop r held) rest = some out := by
  rw [sym_cons, symI]
  by_cases h : r ∈ held <;> simp [h]

theorem sym_done {held : List Nat} {r : Nat} {rest : List Instr} {out : List Nat} :
    sym held (.done r :: rest) = some out ↔
      r ∈ held ∧ sym (drop r held) rest = some out := by
  rw [sym_cons, symI]
  by_cases h : r ∈ held <;> simp [h]

theorem sym_once {held : List Nat} {r : Nat} {body rest : List Instr} {out : List Nat} :
    sym held (.once r body :: rest) = some out ↔
      above r held = true ∧ sym (r :: held) body = some (r :: held) ∧
        sym held rest = some out := by
  rw [sym_cons, symI]
  by_cases h : above r held = true
  · simp only [h, if_true, true_and]
    cases hb : sym (r :: held) body with
    | none => simp
    | some h' =>
      by_cases e : h' = r :: held
      · subst e; simp
      · have : (h' == r :: held) = false := by simpa using e
        simp [this, e]
  · simp [h]

/-- the program a runner is left with after entering `once r body` -/
theorem sym_unfold_once {held : List Nat} {r : Nat} {body rest : List Instr} {out : List Nat}
    (h : sym held (.once r body :: rest) = some out) :
    sym (r :: held) (body ++ .done r :: rest) = some out := by
  obtain ⟨ha, hb, hr⟩ := sym_once.1 h
  refine sym_append_some hb ?_
  rw [sym_done]
  refine ⟨List.mem_cons_self, ?_⟩
  rw [drop_cons_self ha]; exact hr

theorem ranked_iff {p : List Instr} : Ranked p = true ↔ sym [] p = some [] := by
  simp [Ranked]

/-- any concatenation of ranked operations is ranked -/
theorem ranked_flatten {ops : List (List Instr)} (h : ∀ p ∈ ops, Ranked p = true) :
    Ranked ops.flatten = true := by
  rw [ranked_iff]
  induction ops with
  | nil => simp [sym_nil]
  | cons p ops ih =>
    rw [List.flatten_cons]
    exact sym_append_some (ranked_iff.1 (h p List.mem_cons_self))
      (ih fun q hq => h q (List.mem_cons_of_mem _ hq))

/-! ### `size` -/

theorem size_nil : size [] = 0 := by rw [size]

theorem size_cons (i : Instr) (p : List Instr) : size (i :: p) = sizeI i + size p := by
  rw [size]

theorem size_append (p q : List Instr) : size (p ++ q) = size p + size q := by
  induction p with
  | nil => simp [size_nil]
  | cons i p ih => rw [List.cons_append, size_cons, size_cons, ih]; omega

theorem sum_map_set {α} (f : α → Nat) :
    ∀ (l : List α) (i : Nat) (t a : α), l[i]? = some t →
      ((l.set i a).map f).sum + f t = (l.map f).sum + f a := by
  intro l
  induction l with
  | nil => intro i t a h; simp at h
  | cons x l ih =>
    intro i t a h
    cases i with
    | zero =>
      simp at h; subst h
      simp only [List.set_cons_zero, List.map_cons, List.sum_cons]; omega
    | succ i =>
      simp at h
      have := ih i t a h
      simp only [List.set_cons_succ, List.map_cons, List.sum_cons]; omega

/-! ### the invariant -/

/-- `Good s`:
  * what is left of every thread's program is symbolically executable from what the thread
    holds, and ends holding nothing (so every request it will ever make is above what it
    holds at that moment, and everything held - a running once included: its `done` is
    pending - will be given up);
  * the ownership table and the threads' held-lists say the same thing. -/
structure Good (s : State) : Prop where
  sym_ok : ∀ (i : Nat) (t : Thread), s.threads[i]? = some t → sym t.held t.pc = some []
  owned_held : ∀ (r u : Nat), s.owner r = some u →
    ∃ t : Thread, s.threads[u]? = some t ∧ r ∈ t.held
  held_owned : ∀ (i : Nat) (t : Thread), s.threads[i]? = some t →
    ∀ r ∈ t.held, s.owner r = some i

theorem good_init_of_ranked {progs : List (List Instr)} (h : ∀ p ∈ progs, Ranked p = true) :
    Good (init progs) := by
  refine ⟨?_, ?_, ?_⟩
  · intro i t ht
    simp only [init, List.getElem?_map] at ht
    cases hp : progs[i]? with
    | none => simp [hp] at ht
    | some p =>
      simp [hp] at ht; subst ht
      exact ranked_iff.1 (h p (List.mem_of_getElem? hp))
  · intro r u hu; simp [init] at hu
  · intro i t ht r hr
    simp only [init, List.getElem?_map] at ht
    cases hp : progs[i]? with
    | none => simp [hp] at ht
    | some p => simp [hp] at ht; subst ht; simp at hr

theorem good_acquire {s : State} {i : Nat} {t : Thread} {r : Nat} {pc' : List Instr}
    (g : Good s) (ht : s.threads[i]? = some t) (hfree : s.owner r = none)
    (hsym : sym (r :: t.held) pc' = some []) (s' : State)
    (hth : s'.threads = s.threads.set i ⟨pc', r :: t.held⟩)
    (hown : s'.owner = upd s.owner r (some i)) : Good s' := by
  refine ⟨?_, ?_, ?_⟩
  · intro j u hu
    rw [hth, getElem?_set' ht] at hu
    by_cases hj : j = i
    · simp [hj] at hu; subst hu; exact hsym
    · simp [hj] at hu; exact g.sym_ok j u hu
  · intro r' u hu
    rw [hown] at hu
    rw [hth]
    simp only [getElem?_set' ht]
    by_cases hr : r' = r
    · subst hr; rw [upd_same] at hu; cases hu
      exact ⟨⟨pc', r' :: t.held⟩, by simp, List.mem_cons_self⟩
    · rw [upd_other _ _ hr] at hu
      obtain ⟨t0, ht0, hm⟩ := g.owned_held r' u hu
      by_cases hui : u = i
      · subst hui; rw [ht] at ht0; cases ht0
        exact ⟨⟨pc', r :: t.held⟩, by simp, List.mem_cons_of_mem _ hm⟩
      · exact ⟨t0, by simp [hui, ht0], hm⟩
  · intro j u hu r' hr'
    rw [hth, getElem?_set' ht] at hu
    rw [hown]
    by_cases hj : j = i
    · simp [hj] at hu; subst hu; subst hj
      by_cases hr : r' = r
      · subst hr; rw [upd_same]
      · rw [upd_other _ _ hr]
        rcases List.mem_cons.1 hr' with e | hm
        · exact absurd e hr
        · exact g.held_owned j t ht r' hm
    · simp [hj] at hu
      have ho := g.held_owned j u hu r' hr'
      have hr : r' ≠ r := by
        intro e; subst e; rw [hfree] at ho; cases ho
      rw [upd_other _ _ hr]; exact ho

theorem good_release {s : State} {i : Nat} {t : Thread} {r : Nat} {pc' : List Instr}
    (g : Good s) (ht : s.threads[i]? = some t) (hown0 : s.owner r = some i)
    (hsym : sym (drop r t.held) pc' = some []) (s' : State)
    (hth : s'.threads = s.threads.set i ⟨pc', drop r t.held⟩)
    (hown : s'.owner = upd s.owner r none) : Good s' := by
  refine ⟨?_, ?_, ?_⟩
  · intro j u hu
    rw [hth, getElem?_set' ht] at hu
    by_cases hj : j = i
    · simp [hj] at hu; subst hu; exact hsym
    · simp [hj] at hu; exact g.sym_ok j u hu
  · intro r' u hu
    rw [hown] at hu
    rw [hth]
    simp only [getElem?_set' ht]
    by_cases hr : r' = r
    · subst hr; rw [upd_same] at hu; cases hu
    · rw [upd_other _ _ hr] at hu
      obtain ⟨t0, ht0, hm⟩ := g.owned_held r' u hu
      by_cases hui : u = i
      · subst hui; rw [ht] at ht0; cases ht0
        exact ⟨⟨pc', drop r t.held⟩, by simp, mem_drop.2 ⟨hm, hr⟩⟩
      · exact ⟨t0, by simp [hui, ht0], hm⟩
  · intro j u hu r' hr'
    rw [hth, getElem?_set' ht] at hu
    rw [hown]
    by_cases hj : j = i
    · simp [hj] at hu; subst hu; subst hj
      obtain ⟨hm, hr⟩ := mem_drop.1 hr'
      rw [upd_other _ _ hr]; exact g.held_owned j t ht r' hm
    · simp [hj] at hu
      have ho := g.held_owned j u hu r' hr'
      have hr : r' ≠ r := by
        intro e; subst e; rw [hown0] at ho; cases ho; exact hj rfl
      rw [upd_other _ _ hr]; exact ho

theorem good_skip {s : State} {i : Nat} {t : Thread} {pc' : List Instr}
    (g : Good s) (ht : s.threads[i]? = some t)
    (hsym : sym t.held pc' = some []) (s' : State)
    (hth : s'.threads = s.threads.set i ⟨pc', t.held⟩)
    (hown : s'.owner = s.owner) : Good s' := by
  refine ⟨?_, ?_, ?_⟩
  · intro j u hu
    rw [hth, getElem?_set' ht] at hu
    by_cases hj : j = i
    · simp [hj] at hu; subst hu; exact hsym
    · simp [hj] at hu; exact g.sym_ok j u hu
  · intro r' u hu
    rw [hown] at hu
    rw [hth]
    simp only [getElem?_set' ht]
    obtain ⟨t0, ht0, hm⟩ := g.owned_held r' u hu
    by_cases hui : u = i
    · subst hui; rw [ht] at ht0; cases ht0
      exact ⟨⟨pc', t.held⟩, by simp, hm⟩
    · exact ⟨t0, by simp [hui, ht0], hm⟩
  · intro j u hu r' hr'
    rw [hth, getElem?_set' ht] at hu
    rw [hown]
    by_cases hj : j = i
    · simp [hj] at hu; subst hu; subst hj
      exact g.held_owned j t ht r' hr'
    · simp [hj] at hu
      exact g.held_owned j u hu r' hr'

/-- `Good` is preserved by every step -/
theorem good_step_of {s s' : State} {tid : Nat} (g : Good s) (h : step s tid = some s') :
    Good s' := by
  unfold step at h
  cases ht : s.threads[tid]? with
  | none => simp [ht] at h
  | some t =>
    have hs := g.sym_ok tid t ht
    simp only [ht] at h
    cases hpc : t.pc with
    | nil => simp [hpc] at h
    | cons i rest =>
      rw [hpc] at hs
      simp only [hpc] at h
      cases i with
      | acq r =>
        simp only at h
        cases ho : s.owner r with
        | some u => simp [ho] at h
        | none =>
          simp only [ho, Option.some.injEq] at h; subst h
          exact good_acquire g ht ho (sym_acq.1 hs).2 _ rfl rfl
      | rel r =>
        simp only at h
        by_cases ho : s.owner r = some tid
        · simp only [ho, if_true, Option.some.injEq] at h; subst h
          exact good_release g ht ho (sym_rel.1 hs).2 _ rfl rfl
        · simp [ho] at h
      | done r =>
        simp only at h
        by_cases ho : s.owner r = some tid
        · simp only [ho, if_true, Option.some.injEq] at h; subst h
          exact good_release g ht ho (sym_done.1 hs).2 _ rfl rfl
        · simp [ho] at h
      | once r body =>
        simp only at h
        by_cases hf : s.finished.contains r = true
        · simp only [hf, if_true, Option.some.injEq] at h; subst h
          exact good_skip g ht (sym_once.1 hs).2.2 _ rfl rfl
        · simp only [hf] at h
          cases ho : s.owner r with
          | some u => simp [ho] at h
          | none =>
            simp only [ho] at h
            simp at h; subst h
            exact good_acquire g ht ho (sym_unfold_once hs) _ rfl rfl

theorem good_run_of : ∀ {sched : List Nat} {s s' : State}, Good s → run s sched = some s' →
    Good s' := by
  intro sched
  induction sched with
  | nil => intro s s' g h; simp [run] at h; subst h; exact g
  | cons tid sched ih =>
    intro s s' g h
    rw [run] at h
    cases hst : step s tid with
    | none => simp [hst] at h
    | some s1 => simp only [hst] at h; exact ih (good_step_of g hst) h

/-! ### progress -/

theorem exists_max : ∀ l : List Nat, l ≠ [] → ∃ m ∈ l, ∀ x ∈ l, x ≤ m := by
  intro l
  induction l with
  | nil => intro h; exact absurd rfl h
  | cons a l ih =>
    intro _
    by_cases hl : l = []
    · subst hl; exact ⟨a, by simp, by simp⟩
    · obtain ⟨m, hm, hmax⟩ := ih hl
      by_cases ham : a ≤ m
      · refine ⟨m, List.mem_cons_of_mem _ hm, ?_⟩
        intro x hx
        rcases List.mem_cons.1 hx with e | hx
        · subst e; exact ham
        · exact hmax x hx
      · refine ⟨a, List.mem_cons_self, ?_⟩
        intro x hx
        rcases List.mem_cons.1 hx with e | hx
        · subst e; exact Nat.le_refl _
        · have := hmax x hx; omega

/-- a thread whose every possible request (anything above what it holds) is free can step -/
theorem head_enabled {s : State} {i : Nat} {t : Thread} (g : Good s)
    (ht : s.threads[i]? = some t) (hpc : t.pc ≠ [])
    (hfree : ∀ r, (∀ x ∈ t.held, x < r) → s.owner r = none) :
    ∃ s', step s i = some s' := by
  have hs := g.sym_ok i t ht
  unfold step
  simp only [ht]
  cases hp : t.pc with
  | nil => exact absurd hp hpc
  | cons ins rest =>
    rw [hp] at hs
    cases ins with
    | acq r =>
      have ho := hfree r (above_iff.1 (sym_acq.1 hs).1)
      simp [ho]
    | rel r =>
      have ho := g.held_owned i t ht r (sym_rel.1 hs).1
      simp [ho]
    | done r =>
      have ho := g.held_owned i t ht r (sym_done.1 hs).1
      simp [ho]
    | once r body =>
      have ho := hfree r (above_iff.1 (sym_once.1 hs).1)
      by_cases hf : r ∈ s.finished
      · simp [hf]
      · simp [hf, ho]

/-- The key argument.  If nothing is held anywhere, every request is free.  Otherwise take
the resource `m` of maximal rank among the held ones and its holder `u`: `u` has not finished
(it must still give up `m`), whatever it requests next is above `m`, and a busy resource is
held by somebody, hence at most `m`: the request is free. -/
theorem progress {s : State} (g : Good s) (h : ∃ t ∈ s.threads, t.pc ≠ []) :
    ∃ (tid : Nat) (s' : State), step s tid = some s' := by
  by_cases hL : s.threads.flatMap (fun t => t.held) = []
  · obtain ⟨t, htm, hpc⟩ := h
    obtain ⟨i, hi⟩ := List.mem_iff_getElem?.1 htm
    refine ⟨i, head_enabled g hi hpc ?_⟩
    intro r _
    cases ho : s.owner r with
    | none => rfl
    | some u =>
      obtain ⟨t0, ht0, hm⟩ := g.owned_held r u ho
      have : r ∈ s.threads.flatMap (fun t => t.held) :=
        List.mem_flatMap.2 ⟨t0, List.mem_of_getElem? ht0, hm⟩
      rw [hL] at this; cases this
  · obtain ⟨m, hm, hmax⟩ := exists_max _ hL
    obtain ⟨u, hum, hmu⟩ := List.mem_flatMap.1 hm
    obtain ⟨j, hj⟩ := List.mem_iff_getElem?.1 hum
    have hpc : u.pc ≠ [] := by
      intro e
      have := g.sym_ok j u hj
      rw [e, sym_nil] at this
      have e' : u.held = [] := Option.some.inj this
      rw [e'] at hmu; cases hmu
    refine ⟨j, head_enabled g hj hpc ?_⟩
    intro r hr
    cases ho : s.owner r with
    | none => rfl
    | some w =>
      obtain ⟨t0, ht0, hm0⟩ := g.owned_held r w ho
      have h1 : r ≤ m := hmax r (List.mem_flatMap.2 ⟨t0, List.mem_of_getElem? ht0, hm0⟩)
      have h2 : m < r := hr m hmu
      omega

/-- a `Good` state in which nobody can step is a final state: every program has been run
to its end, nothing is held, nothing is owned -/
theorem stuck_final {s : State} (g : Good s) (h : ∀ tid, step s tid = none) :
    (∀ t ∈ s.threads, t.pc = [] ∧ t.held = []) ∧ ∀ r, s.owner r = none := by
  have hpcs : ∀ t ∈ s.threads, t.pc = [] := by
    intro t ht
    by_cases e : t.pc = []
    · exact e
    · obtain ⟨tid, s', hs⟩ := progress g ⟨t, ht, e⟩
      rw [h tid] at hs; cases hs
  have hheld : ∀ t ∈ s.threads, t.held = [] := by
    intro t ht
    obtain ⟨i, hi⟩ := List.mem_iff_getElem?.1 ht
    have := g.sym_ok i t hi
    rw [hpcs t ht, sym_nil] at this
    exact Option.some.inj this
  refine ⟨fun t ht => ⟨hpcs t ht, hheld t ht⟩, ?_⟩
  intro r
  cases ho : s.owner r with
  | none => rfl
  | some u =>
    obtain ⟨t0, ht0, hm⟩ := g.owned_held r u ho
    rw [hheld t0 (List.mem_of_getElem? ht0)] at hm; cases hm

/-! ### termination -/

theorem size_set {s : State} {i : Nat} {t : Thread} (ht : s.threads[i]? = some t)
    (pc' : List Instr) (held' : List Nat) (o : Nat → Option Nat) (f : List Nat) :
    State.size { threads := s.threads.set i ⟨pc', held'⟩, owner := o, finished := f } +
      size t.pc = s.size + size pc' := by
  unfold State.size
  exact sum_map_set (fun t => size t.pc) s.threads i t ⟨pc', held'⟩ ht

/-- every step strictly decreases the measure -/
theorem step_size {s s' : State} {tid : Nat} (h : step s tid = some s') : s'.size < s.size := by
  unfold step at h
  cases ht : s.threads[tid]? with
  | none => simp [ht] at h
  | some t =>
    simp only [ht] at h
    cases hpc : t.pc with
    | nil => simp [hpc] at h
    | cons i rest =>
      simp only [hpc] at h
      cases i with
      | acq r =>
        simp only at h
        cases ho : s.owner r with
        | some u => simp [ho] at h
        | none =>
          simp only [ho, Option.some.injEq] at h; subst h
          have := size_set ht (rest) (r :: t.held) (upd s.owner r (some tid)) s.finished
          rw [hpc, size_cons, sizeI] at this
          omega
      | rel r =>
        simp only at h
        by_cases ho : s.owner r = some tid
        · simp only [ho, if_true, Option.some.injEq] at h; subst h
          have := size_set ht (rest) (drop r t.held) (upd s.owner r none) s.finished
          rw [hpc, size_cons, sizeI] at this
          omega
        · simp [ho] at h
      | done r =>
        simp only at h
        by_cases ho : s.owner r = some tid
        · simp only [ho, if_true, Option.some.injEq] at h; subst h
          have := size_set ht (rest) (drop r t.held) (upd s.owner r none) (r :: s.finished)
          rw [hpc, size_cons, sizeI] at this
          omega
        · simp [ho] at h
      | once r body =>
        simp only at h
        by_cases hf : s.finished.contains r = true
        · simp only [hf, if_true, Option.some.injEq] at h; subst h
          have := size_set ht (rest) (t.held) s.owner s.finished
          rw [hpc, size_cons, sizeI] at this
          omega
        · simp only [hf] at h
          cases ho : s.owner r with
          | some u => simp [ho] at h
          | none =>
            simp only [ho] at h
            simp at h; subst h
            have := size_set ht (body ++ .done r :: rest) (r :: t.held)
              (upd s.owner r (some tid)) s.finished
            rw [hpc, size_cons, sizeI, size_append, size_cons, sizeI] at this
            omega

/-- a run is never longer than the measure of the state it starts from -/
theorem run_size : ∀ {sched : List Nat} {s s' : State}, run s sched = some s' →
    s'.size + sched.length ≤ s.size := by
  intro sched
  induction sched with
  | nil => intro s s' h; simp [run] at h; subst h; simp
  | cons tid sched ih =>
    intro s s' h
    rw [run] at h
    cases hst : step s tid with
    | none => simp [hst] at h
    | some s1 =>
      simp only [hst] at h
      have h1 := ih h
      have h2 := step_size hst
      simp only [List.length_cons]; omega

theorem run_append {s : State} : ∀ {a b : List Nat} {s1 s2 : State}, run s a = some s1 →
    run s1 b = some s2 → run s (a ++ b) = some s2 := by
  intro a
  induction a generalizing s with
  | nil => intro b s1 s2 h1 h2; simp [run] at h1; subst h1; simpa using h2
  | cons tid a ih =>
    intro b s1 s2 h1 h2
    rw [run] at h1
    rw [List.cons_append, run]
    cases hst : step s tid with
    | none => simp [hst] at h1
    | some s' =>
      simp only [hst] at h1 ⊢
      exact ih h1 h2

/-- from every `Good` state some schedule runs all threads to completion -/
theorem can_finish : ∀ (n : Nat) (s : State), s.size ≤ n → Good s →
    ∃ (sched : List Nat) (s' : State), run s sched = some s' ∧
      (∀ t ∈ s'.threads, t.pc = [] ∧ t.held = []) ∧ ∀ r, s'.owner r = none := by
  intro n
  induction n with
  | zero =>
    intro s hn g
    by_cases hstuck : ∀ tid, step s tid = none
    · exact ⟨[], s, by simp [run], stuck_final g hstuck⟩
    · exfalso
      have : ∃ tid, step s tid ≠ none := Classical.not_forall.1 hstuck
      obtain ⟨tid, ht⟩ := this
      cases hst : step s tid with
      | none => exact ht hst
      | some s1 => have := step_size hst; omega
  | succ n ih =>
    intro s hn g
    by_cases hstuck : ∀ tid, step s tid = none
    · exact ⟨[], s, by simp [run], stuck_final g hstuck⟩
    · have : ∃ tid, step s tid ≠ none := Classical.not_forall.1 hstuck
      obtain ⟨tid, ht⟩ := this
      cases hst : step s tid with
      | none => exact absurd hst ht
      | some s1 =>
        have hlt := step_size hst
        obtain ⟨sched, s', hr, hfin⟩ := ih s1 (by omega) (good_step_of g hst)
        refine ⟨tid :: sched, s', ?_, hfin⟩
        rw [run, hst]; exact hr

/-! ### mutual exclusion and the guarded formatting context -/

/-- thread `tid` holds resource `r` -/
def holds (s : State) (tid r : Nat) : Prop := ∃ t : Thread, s.threads[tid]? = some t ∧ r ∈ t.held

/-- a resource is held by at most one thread -/
theorem holds_unique {s : State} (g : Good s) {i j r : Nat} (hi : holds s i r)
    (hj : holds s j r) : i = j := by
  obtain ⟨t, ht, hr⟩ := hi
  obtain ⟨u, hu, hr'⟩ := hj
  have h1 := g.held_owned i t ht r hr
  have h2 := g.held_owned j u hu r hr'
  rw [h1] at h2; cases h2; rfl

/-- An execution with a shared value of type `C` (the formatting context) next to the lock
state.  Events: a thread makes a step of its lock program, or a thread *writes* the value
(`register_tags`); reading is observing the current value.  `guard` is the resource that
protects the value: a write is possible only for a thread that holds it - that is the
hypothesis "every access to the context happens while FMT is held", built into `exec`
(an execution with an unguarded write is not an execution: `none`). -/
inductive Ev (C : Type) where
  | step (tid : Nat)
  | write (tid : Nat) (v : C)

instance (s : State) (tid r : Nat) : Decidable (holds s tid r) :=
  match h : s.threads[tid]? with
  | none => isFalse (by intro ⟨t, ht, _⟩; rw [h] at ht; cases ht)
  | some t =>
    if hr : r ∈ t.held then isTrue ⟨t, h, hr⟩
    else isFalse (by intro ⟨t', ht', hr'⟩; rw [h] at ht'; cases ht'; exact hr hr')

def exec {C : Type} (guard : Nat) : State × C → List (Ev C) → Option (State × C)
  | sc, [] => some sc
  | sc, .step tid :: es =>
      match step sc.1 tid with
      | some s' => exec guard (s', sc.2) es
      | none => none
  | sc, .write tid v :: es =>
      if holds sc.1 tid guard then exec guard (sc.1, v) es else none

/-- the lock-state part of an execution is a run -/
theorem exec_good {C : Type} {guard : Nat} : ∀ {es : List (Ev C)} {s : State} {c : C}
    {s' : State} {c' : C}, Good s → exec guard (s, c) es = some (s', c') → Good s' := by
  intro es
  induction es with
  | nil => intro s c s' c' g h; simp [exec] at h; rw [← h.1]; exact g
  | cons e es ih =>
    intro s c s' c' g h
    cases e with
    | step tid =>
      simp only [exec] at h
      cases hst : step s tid with
      | none => simp [hst] at h
      | some s1 => simp only [hst] at h; exact ih (good_step_of g hst) h
    | write tid v =>
      simp only [exec] at h
      by_cases hh : holds s tid guard
      · simp only [hh, if_true] at h; exact ih g h
      · simp [hh] at h

/-- While thread `i` holds the guard (in every state the execution goes through), every
write is `i`'s own; so if `i` does not write, the value does not change. -/
theorem exec_stable {C : Type} {guard i : Nat} : ∀ {es : List (Ev C)} {s : State} {c : C}
    {s' : State} {c' : C}, Good s → exec guard (s, c) es = some (s', c') →
    (∀ (es1 es2 : List (Ev C)) (s1 : State) (c1 : C), es = es1 ++ es2 →
      exec guard (s, c) es1 = some (s1, c1) → holds s1 i guard) →
    (∀ v, Ev.write i v ∉ es) → c' = c := by
  intro es
  induction es with
  | nil => intro s c s' c' _ h _ _; simp [exec] at h; exact h.2.symm
  | cons e es ih =>
    intro s c s' c' g h hhold hnw
    have hnw' : ∀ v, Ev.write i v ∉ es := fun v hm => hnw v (List.mem_cons_of_mem _ hm)
    cases e with
    | step tid =>
      simp only [exec] at h
      cases hst : step s tid with
      | none => simp [hst] at h
      | some s1 =>
        simp only [hst] at h
        refine ih (good_step_of g hst) h ?_ hnw'
        intro es1 es2 s2 c2 hsplit hex
        refine hhold (.step tid :: es1) es2 s2 c2 (by rw [hsplit]; rfl) ?_
        simp only [exec, hst]; exact hex
    | write tid v =>
      simp only [exec] at h
      by_cases hh : holds s tid guard
      · have hi : holds s i guard := hhold [] _ s c rfl (by simp [exec])
        have : tid = i := holds_unique g hh hi
        subst this
        exact absurd List.mem_cons_self (hnw v)
      · simp [hh] at h

end EnvVerif.Conc
