/-
  Lemmas/NoPanicLemmas.lean — helper lemmas for C16 "no operation panics".

  `NoPanic r` says that the outcome `r` of a modelled call is a value or an error.  The
  file collects: the closure rules of `NoPanic` (bind, folds), the exact behaviour of the
  two families of `unwrap()` sites that sit on `add_assertion_envelope` (the single
  `add_assertion(p, o)` — unreachable, because `new_assertion` is always a legal slot — and
  the folds `replace_subject` / `add_signature_opt` — reachable exactly when some element is
  not a legal slot), the codec fact `AadLaw` (proved here from `Obs.aadReadsBack`, so no
  C16 theorem takes it as a hypothesis), and the no-panic facts for the signature, salt,
  type, attachment and expression layers.  The facts about the traversal, the codec, the
  encrypt / compress glue, the lookups and the proofs come from the lemma files of C02,
  C06, C08, C13, C15 and C12.
-/
import EnvVerif.Model.Expr
import EnvVerif.Props.C02
import EnvVerif.Props.C04
import EnvVerif.Props.C06
import EnvVerif.Props.C08
import EnvVerif.Props.C12
import EnvVerif.Props.C13
import EnvVerif.Props.C15
namespace EnvVerif
namespace NP
open Env

/-! ### `NoPanic` and its closure rules -/

/-- the outcome is not a panic -/
def NoPanic {α : Type} (r : Res α) : Prop := ∀ s, r ≠ .panic s

theorem noPanic_iff {α : Type} (r : Res α) :
    NoPanic r ↔ (∃ x, r = .ok x) ∨ (∃ m, r = .err m) := by
  cases r <;> simp [NoPanic]

theorem ok {α : Type} (x : α) : NoPanic (Res.ok x) := fun _ hh => by cases hh
theorem err {α : Type} (m : String) : NoPanic (Res.err m : Res α) := fun _ hh => by cases hh

theorem of_isOk {α : Type} {r : Res α} (hr : ∃ x, r = .ok x) : NoPanic r := by
  obtain ⟨x, hx⟩ := hr; rw [hx]; exact ok x

theorem bind {α β : Type} {r : Res α} {f : α → Res β} (hr : NoPanic r)
    (hf : ∀ x, r = .ok x → NoPanic (f x)) : NoPanic (r.bind f) := by
  cases r with
  | ok x => exact hf x rfl
  | err m => exact err m
  | panic s => exact absurd rfl (hr s)

/-- the propagating `match` (`?`) that the model writes out -/
theorem matchq {α β : Type} {r : Res α} {f : α → Res β} (hr : NoPanic r)
    (hf : ∀ x, r = .ok x → NoPanic (f x)) :
    NoPanic (match r with | .ok x => f x | .err m => .err m | .panic s => .panic s) := by
  cases r with
  | ok x => exact hf x rfl
  | err m => exact err m
  | panic s => exact absurd rfl (hr s)

/-- a fold of fallible steps none of which panics -/
theorem foldl_bind {α β : Type} (step : β → α → Res β) (hstep : ∀ x a, NoPanic (step x a)) :
    ∀ (as : List α) (init : Res β), NoPanic init →
      NoPanic (as.foldl (fun acc a => acc.bind fun x => step x a) init) := by
  intro as
  induction as with
  | nil => intro init hi; exact hi
  | cons a as ih =>
    intro init hi
    simp only [List.foldl_cons]
    exact ih _ (bind hi fun x _ => hstep x a)

/-! ### the constructor `assert!` -/
section
variable (h : Hash)

/-- `new_with_unchecked_assertions` panics exactly on the empty list -/
theorem newNodeUnchecked_panic_iff (s : Env) (as : List Env) :
    (∃ p, newNodeUnchecked h s as = .panic p) ↔ as = [] := by
  unfold newNodeUnchecked
  cases as <;> simp

theorem newNodeUnchecked_np {s : Env} {as : List Env} (hne : as ≠ []) :
    NoPanic (newNodeUnchecked h s as) :=
  fun p hp => hne ((newNodeUnchecked_panic_iff h s as).1 ⟨p, hp⟩)

theorem newNodeUnchecked_nil (s : Env) :
    newNodeUnchecked h s [] = .panic "envelope.rs:new_with_unchecked_assertions:assert" := rfl

/-- `new_with_assertions` reaches the `assert!` exactly on the empty list too -/
theorem newNode_panic_iff (s : Env) (as : List Env) :
    (∃ p, newNode h s as = .panic p) ↔ as = [] := by
  unfold newNode newNodeUnchecked
  cases as with
  | nil => simp
  | cons a as => by_cases hh : (a :: as).all slotOk = true <;> simp [hh]

/-! ### `add_assertion_envelope` and the `unwrap()`s that sit on it -/

theorem addAssertionEnvelope_np (e a : Env) : NoPanic (addAssertionEnvelope h e a) := by
  unfold addAssertionEnvelope
  split
  · exact err _
  · split
    · split
      · exact ok _
      · exact newNodeUnchecked_np h (by simp)
    · exact newNodeUnchecked_np h (by simp)

theorem addAssertionEnvelope_err_iff (e a : Env) :
    (∃ m, addAssertionEnvelope h e a = .err m) ↔ a.slotOk = false := by
  cases hs : a.slotOk with
  | true =>
    obtain ⟨r, hr⟩ := InvL.addAssertionEnvelope_isOk h (e := e) hs
    simp [hr]
  | false => simp [addAssertionEnvelope, hs]

theorem newAssertion_slotOk (p o : Env) : (newAssertion h p o).slotOk = true := rfl

/-- `add_assertion(p, o)`: the `unwrap()` cannot fire, whatever `e`, `p`, `o` are -/
theorem addAssertionUnwrap_isOk (e p o : Env) : ∃ r, addAssertionUnwrap h e p o = .ok r := by
  obtain ⟨r, hr⟩ := InvL.addAssertionEnvelope_isOk h (e := e) (newAssertion_slotOk h p o)
  exact ⟨r, by simp [addAssertionUnwrap, hr]⟩

theorem addAssertionUnwrap_np (e p o : Env) : NoPanic (addAssertionUnwrap h e p o) :=
  of_isOk (addAssertionUnwrap_isOk h e p o)

/-- the fold `acc = acc.add_assertion_envelope(a).unwrap()` of `replace_subject` and
`add_signature_opt` -/
def unwrapFold (site : String) (as : List Env) (init : Res Env) : Res Env :=
  as.foldl (fun acc a => acc.bind fun x =>
    match addAssertionEnvelope h x a with
    | .ok y => .ok y
    | .err _ => .panic site
    | .panic p => .panic p) init

theorem unwrapFold_panic (site p : String) (as : List Env) :
    unwrapFold h site as (.panic p) = .panic p := by
  unfold unwrapFold
  induction as with
  | nil => rfl
  | cons a as ih => simpa [List.foldl_cons, Res.bind] using ih

/-- every element a legal slot: the fold returns an envelope -/
theorem unwrapFold_isOk (site : String) (as : List Env) : ∀ (s : Env),
    (∀ a ∈ as, a.slotOk = true) → ∃ r, unwrapFold h site as (.ok s) = .ok r := by
  unfold unwrapFold
  induction as with
  | nil => intro s _; exact ⟨s, rfl⟩
  | cons a as ih =>
    intro s hs
    obtain ⟨x, hx⟩ := InvL.addAssertionEnvelope_isOk h (e := s) (hs a (by simp))
    obtain ⟨r, hr⟩ := ih x (fun b hb => hs b (by simp [hb]))
    exact ⟨r, by simpa [List.foldl_cons, Res.bind, hx] using hr⟩

/-- some element not a legal slot: the `unwrap()` fires -/
theorem unwrapFold_panics (site : String) (as : List Env) : ∀ (s : Env),
    (∃ a ∈ as, a.slotOk = false) → unwrapFold h site as (.ok s) = .panic site := by
  induction as with
  | nil => intro s hs; obtain ⟨a, ha, _⟩ := hs; cases ha
  | cons a as ih =>
    intro s hs
    cases hsa : a.slotOk with
    | false =>
      obtain ⟨m, hm⟩ := (addAssertionEnvelope_err_iff h s a).2 hsa
      have := unwrapFold_panic h site site as
      unfold unwrapFold at this ⊢
      simpa [List.foldl_cons, Res.bind, hm] using this
    | true =>
      obtain ⟨x, hx⟩ := InvL.addAssertionEnvelope_isOk h (e := s) hsa
      have hrest : ∃ b ∈ as, b.slotOk = false := by
        obtain ⟨b, hb, hbs⟩ := hs
        rcases List.mem_cons.1 hb with rfl | hb'
        · rw [hsa] at hbs; cases hbs
        · exact ⟨b, hb', hbs⟩
      have := ih x hrest
      unfold unwrapFold at this ⊢
      simpa [List.foldl_cons, Res.bind, hx] using this

theorem unwrapFold_panic_iff (site : String) (as : List Env) (s : Env) :
    (∃ p, unwrapFold h site as (.ok s) = .panic p) ↔ ∃ a ∈ as, a.slotOk = false := by
  constructor
  · rintro ⟨p, hp⟩
    apply Classical.byContradiction
    intro hn
    have hall : ∀ a ∈ as, a.slotOk = true := by
      intro a ha
      cases hsa : a.slotOk with
      | true => rfl
      | false => exact absurd ⟨a, ha, hsa⟩ hn
    obtain ⟨r, hr⟩ := unwrapFold_isOk h site as s hall
    rw [hr] at hp; cases hp
  · intro hs; exact ⟨site, unwrapFold_panics h site as s hs⟩

theorem replaceSubject_eq (e s : Env) :
    replaceSubject h e s = unwrapFold h "assertions.rs:replace_subject:unwrap" e.assertions (.ok s) := rfl

theorem removeAssertion_np (e t : Env) : NoPanic (removeAssertion h e t) :=
  of_isOk (InvL.removeAssertion_isOk h e t)

theorem replaceAssertion_np (e a b : Env) : NoPanic (replaceAssertion h e a b) := by
  unfold replaceAssertion
  exact bind (removeAssertion_np h e a) fun x _ => addAssertionEnvelope_np h x b

theorem addAll_np (e : Env) (as : List Env) : NoPanic (addAll h e as) := by
  unfold addAll
  exact foldl_bind _ (fun x a => addAssertionEnvelope_np h x a) as _ (ok e)

theorem unwrap_np (e : Env) : NoPanic (unwrap e) := by
  unfold unwrap; split
  · exact ok _
  · exact err _

end

/-! ### the obscuring layer -/

/-- the codec fact behind `new_with_encrypted(..).unwrap()`, for every 32-byte digest: it
holds in the model (`Obs.optDigest_of_aad`), so it is not a hypothesis of any C16 theorem -/
theorem aadLaw : AadLaw := fun _ hd _ hm => Obs.optDigest_of_aad hd hm

theorem actOk {h : Hash} (hH : HashValid h) {e : Env} (hi : Inv h e) (act : Action) : ActOk act e :=
  ActOk.of_laws aadLaw hH hi act

section
variable (h : Hash) (A : Aead) (Z : Deflate)

theorem actOkAt_of_valid (act : Action) {d : Digest} (hd : d.Valid) : ActOkAt act d := by
  cases act with
  | encrypt k n => exact aadLaw d hd
  | elide => trivial
  | compress => trivial

/-- the action on a hit element: `compress().unwrap_or_else(..)` and `elide` have no panic
site, `new_with_encrypted(..).unwrap()` cannot fire on a 32-byte digest -/
theorem obscure_np (act : Action) (e : Env) (hd : e.digest.Valid) : NoPanic (obscure A Z act e) :=
  of_isOk (obscure_ok_of A Z (actOkAt_of_valid act hd))

theorem obscure_elide_np (e : Env) : NoPanic (obscure A Z .elide e) :=
  of_isOk (obscure_ok_of A Z (act := .elide) trivial)

theorem obscure_compress_np (e : Env) : NoPanic (obscure A Z .compress e) :=
  of_isOk (obscure_ok_of A Z (act := .compress) trivial)

theorem elideSet_np (T : Digest → Bool) (rev : Bool) (act : Action) {e : Env} (hi : Inv h e)
    (ha : ActOk act e) : NoPanic (elideSet h A Z T rev act e) :=
  of_isOk (elideSet_ok_inv h A Z T rev act hi ha)

theorem unelide_np (p e : Env) : NoPanic (unelide p e) := by
  unfold unelide; split
  · exact ok _
  · exact err _

theorem wrap_digest_valid (hH : HashValid h) (e : Env) : (wrap h e).digest.Valid := hH _

theorem encryptWhole_isOk (hH : HashValid h) (k n : Bytes) (e : Env) :
    ∃ r, encryptWhole h A k n e = .ok r :=
  ⟨_, encryptWhole_ok h A (aadLaw _ (wrap_digest_valid h hH e))⟩

theorem decryptWhole_np (k : Bytes) {e : Env} (hc : Canon e) : NoPanic (decryptWhole h A k e) := by
  unfold decryptWhole
  exact bind (fun s => decryptSubject_no_panic h A k e hc s) fun x _ => unwrap_np x

end

/-! ### signatures -/
section
variable (h : Hash) (V : SigScheme)

theorem objectsForPredicate_np (e p : Env) : NoPanic (objectsForPredicate e p) :=
  fun s => objectsForPredicate_no_panic e p s
theorem objectForPredicate_np (e p : Env) : NoPanic (objectForPredicate e p) :=
  fun s => objectForPredicate_no_panic e p s
theorem optionalObjectForPredicate_np (e p : Env) : NoPanic (optionalObjectForPredicate e p) :=
  fun s => optionalObjectForPredicate_no_panic e p s
theorem assertionWithPredicate_np (e p : Env) : NoPanic (assertionWithPredicate e p) :=
  fun s => assertionWithPredicate_no_panic e p s

theorem hasSignatureFromReturningMetadata_np (key : Nat) (e : Env) :
    NoPanic (hasSignatureFromReturningMetadata h V key e) := by
  unfold hasSignatureFromReturningMetadata
  split
  · exact ok _
  · exact err _
  · next x hx => exact absurd hx (objectsForPredicate_np _ _ x)

theorem hasSignatureFrom_np (key : Nat) (e : Env) : NoPanic (hasSignatureFrom h V key e) := by
  unfold hasSignatureFrom
  split
  · exact ok _
  · exact err _
  · next x hx => exact absurd hx (hasSignatureFromReturningMetadata_np h V key e x)

theorem thresholdLoop_np (e : Env) (t : Nat) : ∀ (ks : List Nat) (c : Nat),
    NoPanic (thresholdLoop h V e t ks c) := by
  intro ks
  induction ks with
  | nil => intro c; unfold thresholdLoop; exact ok _
  | cons k ks ih =>
    intro c
    unfold thresholdLoop
    split
    · split
      · exact ok _
      · exact ih _
    · exact ih _
    · exact err _
    · next x hx => exact absurd hx (hasSignatureFrom_np h V k e x)

theorem hasSignaturesFromThreshold_np (keys : List Nat) (t : Option Nat) (e : Env) :
    NoPanic (hasSignaturesFromThreshold h V keys t e) := thresholdLoop_np h V e _ keys 0

theorem addSignature_eq (e : Env) (sig : Cbor) (md : List Env) (outer : Env → Cbor) :
    addSignature h e sig md outer =
      if md.isEmpty then addAssertionUnwrap h e (newKnownValue h KV_SIGNED) (newLeaf h sig)
      else (unwrapFold h "signature_impl.rs:add_signature_opt:unwrap" md (.ok (newLeaf h sig))).bind fun m =>
        (addAssertionUnwrap h (wrap h m) (newKnownValue h KV_SIGNED)
            (newLeaf h (outer (wrap h m)))).bind fun signature =>
          addAssertionUnwrap h e (newKnownValue h KV_SIGNED) signature := rfl

/-- `add_signature_opt`: the only `unwrap()` that can fire is the one on the metadata
assertions, and it fires exactly when one of them is not a legal assertion slot -/
theorem addSignature_panic_iff (e : Env) (sig : Cbor) (md : List Env) (outer : Env → Cbor) :
    (∃ p, addSignature h e sig md outer = .panic p) ↔ ∃ a ∈ md, a.slotOk = false := by
  rw [addSignature_eq]
  cases md with
  | nil =>
    obtain ⟨r, hr⟩ := addAssertionUnwrap_isOk h e (newKnownValue h KV_SIGNED) (newLeaf h sig)
    simp [hr]
  | cons a0 md =>
    simp only [List.isEmpty_cons, Bool.false_eq_true, if_false]
    by_cases hs : ∃ a ∈ a0 :: md, a.slotOk = false
    · rw [unwrapFold_panics h _ _ _ hs]
      simp only [Res.bind, hs, iff_true]
      exact ⟨_, rfl⟩
    · have hall : ∀ a ∈ a0 :: md, a.slotOk = true := by
        intro a ha
        cases hsa : a.slotOk with
        | true => rfl
        | false => exact absurd ⟨a, ha, hsa⟩ hs
      obtain ⟨m, hm⟩ := unwrapFold_isOk h "signature_impl.rs:add_signature_opt:unwrap" _
        (newLeaf h sig) hall
      obtain ⟨s1, h1⟩ := addAssertionUnwrap_isOk h (wrap h m) (newKnownValue h KV_SIGNED)
        (newLeaf h (outer (wrap h m)))
      obtain ⟨s2, h2⟩ := addAssertionUnwrap_isOk h e (newKnownValue h KV_SIGNED) s1
      rw [hm]
      simp only [Res.bind, h1, h2, hs, iff_false]
      rintro ⟨p, hp⟩; cases hp

end

/-! ### salt, types, attachments -/
section
variable (h : Hash)

theorem addSaltInstance_isOk (e : Env) (salt : Bytes) : ∃ r, addSaltInstance h e salt = .ok r :=
  addAssertionUnwrap_isOk h e _ _

theorem addSaltWithLen_np (e : Env) (count : Nat) (draw : Nat → Bytes) :
    NoPanic (addSaltWithLen h e count draw) := by
  unfold addSaltWithLen; split
  · exact err _
  · exact of_isOk (addSaltInstance_isOk h e _)

theorem addAssertionEnvelopeSalted_np (e a : Env) (salt : Option Bytes) :
    NoPanic (addAssertionEnvelopeSalted h e a salt) := by
  unfold addAssertionEnvelopeSalted
  split
  · exact err _
  · apply bind
    · cases salt with
      | some s => exact of_isOk (addSaltInstance_isOk h a s)
      | none => exact ok _
    · intro x _
      split
      · split
        · exact ok _
        · exact newNodeUnchecked_np h (by simp)
      · exact newNodeUnchecked_np h (by simp)

theorem addAssertionEnvelopeSalted_isOk (e : Env) {a : Env} (hs : a.slotOk = true)
    (salt : Option Bytes) : ∃ r, addAssertionEnvelopeSalted h e a salt = .ok r := by
  have hfin : ∀ a2 : Env, ∃ r : Env, (match e with
      | .node s as _ =>
        if as.any (fun x => x.digest == a2.digest) then Res.ok e
        else newNodeUnchecked h s (as ++ [a2])
      | _ => newNodeUnchecked h e.subject [a2] : Res Env) = Res.ok r := by
    intro a2
    split
    · split
      · exact ⟨_, rfl⟩
      · exact ⟨_, (InvL.newNodeUnchecked_ok h).2 ⟨by simp, rfl⟩⟩
    · exact ⟨_, (InvL.newNodeUnchecked_ok h).2 ⟨by simp, rfl⟩⟩
  unfold addAssertionEnvelopeSalted
  simp only [hs, Bool.not_true, Bool.false_eq_true, if_false]
  cases salt with
  | none => exact hfin a
  | some s =>
    obtain ⟨a2, ha2⟩ := addSaltInstance_isOk h a s
    simp only [ha2, Res.bind]
    exact hfin a2

/-- `add_assertion_salted(p, o, salted)`: always returns an envelope -/
theorem addAssertionSalted_isOk (e p o : Env) (salt : Option Bytes) :
    ∃ r, addAssertionSalted h e p o salt = .ok r := by
  obtain ⟨r, hr⟩ := addAssertionEnvelopeSalted_isOk h e (newAssertion_slotOk h p o) salt
  exact ⟨r, by simp [addAssertionSalted, hr]⟩

theorem types_np (e : Env) : NoPanic (types h e) := objectsForPredicate_np e _

theorem hasTypeEnvelope_np (e t : Env) : NoPanic (hasTypeEnvelope h e t) := by
  unfold hasTypeEnvelope
  split
  · exact ok _
  · exact err _
  · next x hx => exact absurd hx (types_np h e x)

theorem getType_np (e : Env) : NoPanic (getType h e) := by
  unfold getType
  split
  · exact ok _
  · exact err _
  · exact err _
  · next x hx => exact absurd hx (types_np h e x)

theorem extractText_np : ∀ e : Env, NoPanic (extractText e)
  | .node s _ _ => by unfold extractText; exact extractText_np s
  | .leaf c _ => by
    cases c <;> unfold extractText <;> first | exact ok _ | exact err _
  | .wrapped .. => by unfold extractText; exact err _
  | .assertion .. => by unfold extractText; exact err _
  | .elided .. => by unfold extractText; exact err _
  | .knownValue .. => by unfold extractText; exact err _
  | .encrypted .. => by unfold extractText; exact err _
  | .compressed .. => by unfold extractText; exact err _

/-- `Assertion::new_attachment`: always returns an envelope, and it is an assertion -/
theorem newAttachment_isOk (payload : Env) (vendor : Bytes) (conf : Option Bytes) :
    ∃ obj, newAttachment h payload vendor conf =
      .ok (newAssertion h (newKnownValue h KV_ATTACHMENT) obj) := by
  obtain ⟨e1, h1⟩ := addAssertionUnwrap_isOk h (wrap h payload) (newKnownValue h KV_VENDOR)
    (textLeaf h vendor)
  unfold newAttachment
  rw [h1]
  cases conf with
  | none => exact ⟨e1, rfl⟩
  | some c =>
    obtain ⟨e2, h2⟩ := addAssertionUnwrap_isOk h e1 (newKnownValue h KV_CONFORMS_TO) (textLeaf h c)
    exact ⟨e2, by simp [Res.bind, h2]⟩

theorem newAttachment_np (payload : Env) (vendor : Bytes) (conf : Option Bytes) :
    NoPanic (newAttachment h payload vendor conf) := by
  obtain ⟨obj, ho⟩ := newAttachment_isOk h payload vendor conf
  exact of_isOk ⟨_, ho⟩

theorem addAttachment_isOk (e payload : Env) (vendor : Bytes) (conf : Option Bytes) :
    ∃ r, addAttachment h e payload vendor conf = .ok r := by
  obtain ⟨obj, ho⟩ := newAttachment_isOk h payload vendor conf
  obtain ⟨r, hr⟩ := InvL.addAssertionEnvelope_isOk h (e := e)
    (newAssertion_slotOk h (newKnownValue h KV_ATTACHMENT) obj)
  exact ⟨r, by simp [addAttachment, ho, Res.bind, hr]⟩

theorem attachmentPayload_np (a : Env) : NoPanic (attachmentPayload a) := by
  unfold attachmentPayload; split
  · exact unwrap_np _
  · exact err _

theorem extractTextObjectForPredicate_np (e p : Env) :
    NoPanic (extractTextObjectForPredicate e p) := by
  unfold extractTextObjectForPredicate
  split
  · split
    · exact extractText_np _
    · exact err _
  · exact err _
  · next x hx => exact absurd hx (assertionWithPredicate_np e p x)

theorem extractOptionalTextObjectForPredicate_np (e p : Env) :
    NoPanic (extractOptionalTextObjectForPredicate e p) := by
  unfold extractOptionalTextObjectForPredicate
  split
  · exact ok _
  · next o _ =>
    split
    · exact ok _
    · exact err _
    · next x hx => exact absurd hx (extractText_np o x)
  · exact err _
  · next x hx => exact absurd hx (optionalObjectForPredicate_np e p x)

theorem attachmentVendor_np (a : Env) : NoPanic (attachmentVendor h a) := by
  unfold attachmentVendor; split
  · exact extractTextObjectForPredicate_np _ _
  · exact err _

theorem attachmentConformsTo_np (a : Env) : NoPanic (attachmentConformsTo h a) := by
  unfold attachmentConformsTo; split
  · exact extractOptionalTextObjectForPredicate_np _ _
  · exact err _

theorem validateAttachment_np (a : Env) : NoPanic (validateAttachment h a) := by
  unfold validateAttachment
  split
  · refine bind (attachmentPayload_np _) fun payload _ => ?_
    refine bind (attachmentVendor_np h _) fun vendor _ => ?_
    refine bind (attachmentConformsTo_np h _) fun conf _ => ?_
    refine bind (newAttachment_np h _ _ _) fun rebuilt _ => ?_
    split
    · exact ok _
    · exact err _
  · exact err _

theorem attachmentsWith_np (e : Env) (vendor conf : Option Bytes) :
    NoPanic (attachmentsWith h e vendor conf) := by
  unfold attachmentsWith
  refine bind ?_ fun _ _ => ok _
  exact foldl_bind (fun (_ : Unit) a => validateAttachment h a)
    (fun _ a => validateAttachment_np h a) _ _ (ok ())

theorem attachmentWith_np (e : Env) (vendor conf : Option Bytes) :
    NoPanic (attachmentWith h e vendor conf) := by
  unfold attachmentWith
  refine bind (attachmentsWith_np h e vendor conf) fun l _ => ?_
  split
  · exact err _
  · exact ok _
  · exact err _

end

/-! ### expressions, requests, responses, events -/
section
variable (h : Hash)

theorem withParameter_isOk (x : Expression) (p : Ident) (v : Env) :
    ∃ r, Expression.withParameter h x p v = .ok r := by
  obtain ⟨r, hr⟩ := InvL.addAssertionEnvelope_isOk h (e := x.envelope)
    (newAssertion_slotOk h (newLeaf h (identCbor TAG_PARAMETER p)) v)
  exact ⟨⟨x.function, r⟩, by simp [Expression.withParameter, hr]⟩

theorem expressionParse_np (e : Env) : NoPanic (Expression.parse e) := by
  unfold Expression.parse
  split
  · split
    · exact ok _
    · exact err _
  · exact err _

theorem parseExpecting_np (e : Env) (f : Option Ident) : NoPanic (Expression.parseExpecting e f) := by
  unfold Expression.parseExpecting
  refine bind (expressionParse_np e) fun x _ => ?_
  split
  · split
    · exact ok _
    · exact err _
  · exact ok _

theorem addAssertionIf_isOk (c : Bool) (e p o : Env) : ∃ r, addAssertionIf h c e p o = .ok r := by
  unfold addAssertionIf
  split
  · exact addAssertionUnwrap_isOk h e p o
  · exact ⟨e, rfl⟩

theorem requestToEnvelope_isOk (r : Request) : ∃ e, Request.toEnvelope h r = .ok e := by
  obtain ⟨e1, h1⟩ := addAssertionUnwrap_isOk h (newLeaf h (.tagged TAG_REQUEST (aridCbor r.id)))
    (newKnownValue h KV_BODY) r.body.envelope
  obtain ⟨e2, h2⟩ := addAssertionIf_isOk h (!r.note.isEmpty) e1 (newKnownValue h KV_NOTE)
    (newLeaf h (.text r.note))
  unfold Request.toEnvelope
  simp only [h1, h2, Res.bind]
  split
  · exact addAssertionUnwrap_isOk h e2 _ _
  · exact ⟨e2, rfl⟩

theorem eventToEnvelope_isOk (ev : Event) : ∃ e, Event.toEnvelope h ev = .ok e := by
  obtain ⟨e1, h1⟩ := addAssertionUnwrap_isOk h (newLeaf h (.tagged TAG_EVENT (aridCbor ev.id)))
    (newKnownValue h KV_CONTENT) (newLeaf h (.text ev.content))
  obtain ⟨e2, h2⟩ := addAssertionIf_isOk h (!ev.note.isEmpty) e1 (newKnownValue h KV_NOTE)
    (newLeaf h (.text ev.note))
  unfold Event.toEnvelope
  simp only [h1, h2, Res.bind]
  split
  · exact addAssertionUnwrap_isOk h e2 _ _
  · exact ⟨e2, rfl⟩

theorem responseToEnvelope_isOk (r : Response) : ∃ e, Response.toEnvelope h r = .ok e := by
  unfold Response.toEnvelope
  split <;> exact addAssertionUnwrap_isOk h _ _ _

theorem subjectArid_np (tag : Nat) (e : Env) : NoPanic (subjectArid tag e) := by
  unfold subjectArid
  split
  · split
    · split
      · exact ok _
      · exact err _
    · exact err _
  · exact err _
  · exact err _

theorem extractOptionalDate_np (e p : Env) : NoPanic (extractOptionalDate e p) := by
  unfold extractOptionalDate
  split
  · exact ok _
  · split
    · split
      · exact ok _
      · exact err _
    · exact err _
  · exact err _
  · next x hx => exact absurd hx (optionalObjectForPredicate_np e p x)

theorem extractTextOrDefault_np (e p : Env) : NoPanic (extractTextOrDefault e p) := by
  unfold extractTextOrDefault
  split
  · exact ok _
  · exact ok _
  · exact err _
  · next x hx => exact absurd hx (extractOptionalTextObjectForPredicate_np e p x)

theorem requestParse_np (e : Env) (f : Option Ident) : NoPanic (Request.parse h e f) := by
  unfold Request.parse
  refine bind (objectForPredicate_np _ _) fun bodyEnv _ => ?_
  refine bind (parseExpecting_np _ _) fun body _ => ?_
  refine bind (subjectArid_np _ _) fun id _ => ?_
  refine bind (extractTextOrDefault_np _ _) fun note _ => ?_
  refine bind (extractOptionalDate_np _ _) fun date _ => ?_
  exact ok _

theorem eventParse_np (e : Env) : NoPanic (Event.parse h e) := by
  unfold Event.parse
  refine bind (objectForPredicate_np _ _) fun ce _ => ?_
  split
  · refine bind (subjectArid_np _ _) fun id _ => ?_
    refine bind (extractTextOrDefault_np _ _) fun note _ => ?_
    refine bind (extractOptionalDate_np _ _) fun date _ => ?_
    exact ok _
  · exact err _

theorem responseParse_np (e : Env) : NoPanic (Response.parse h e) := by
  have hofp : ∀ (p : Env) (f : Env → Res Response), (∀ x, NoPanic (f x)) →
      NoPanic ((objectForPredicate e p).bind f) :=
    fun p f hf => bind (objectForPredicate_np e p) fun x _ => hf x
  unfold Response.parse
  simp only []
  repeat' split
  all_goals first
    | exact err _
    | exact hofp _ _ (fun _ => ok _)
    | exact bind (subjectArid_np _ _) fun id _ => hofp _ _ (fun _ => ok _)

end

/-! ### `obscure` without any hypothesis -/
section
variable (A : Aead) (Z : Deflate)

/-- a message whose aad is the tagged encoding of *any* digest value declares some digest:
the encoding always holds exactly 32 bytes -/
theorem optDigest_isSome_of_aad {m : EncMsg} {d : Digest} (ha : m.aad = (digestCbor d).enc) :
    ∃ d', m.optDigest = some d' := by
  simp only [EncMsg.optDigest, Cbor.dec?, ha, Obs.dec_enc_digestCbor]
  simp [digestOfCbor?, digestCbor, Digest.ofBytes?]

theorem obscure_np_any (act : Action) (e : Env) : NoPanic (obscure A Z act e) := by
  cases act with
  | elide => exact obscure_elide_np A Z e
  | compress => exact obscure_compress_np A Z e
  | encrypt k n =>
    obtain ⟨d', hd'⟩ := optDigest_isSome_of_aad
      (m := encryptWithDigest A k (n e.digest) (encode e) e.digest) (d := e.digest)
      (encryptWithDigest_aad A _ _ _ _)
    simp only [obscure, newEncryptedUnwrap, hd']
    exact ok _

end

/-! ### one step of the operation language, histories -/
section
variable (h : Hash) (A : Aead) (Z : Deflate)

theorem replaceSubject_np {e : Env} (hc : Canon e) (s : Env) : NoPanic (replaceSubject h e s) :=
  of_isOk (InvL.replaceSubject_isOk h s (InvL.canon_assertions_slotOk hc))

/-- no operation of the language panics on an envelope that satisfies the invariant -/
theorem applyOp_np (hH : HashValid h) (o : Op) {e : Env} (hi : Inv h e) :
    NoPanic (applyOp h A Z o e) := by
  cases o <;> simp only [applyOp]
  case addAssertion a => exact addAssertionEnvelope_np h e a
  case removeAssertion t => exact removeAssertion_np h e t
  case replaceAssertion a b => exact replaceAssertion_np h e a b
  case replaceSubject s => exact replaceSubject_np h hi.2 s
  case addAll as => exact addAll_np h e as
  case assertionWithObject o => exact ok _
  case assertionWithPredicate p => exact ok _
  case wrap => exact ok _
  case unwrap => exact unwrap_np e
  case subject => exact ok _
  case elide => exact ok _
  case elideSet T rev act => exact elideSet_np h A Z T rev act hi (actOk hH hi act)
  case compress => exact fun s => compress_never_panics Z e s
  case compressSubject => exact fun s => compressSubject_no_panic h Z e hi s
  case encryptSubject k n => exact fun s => encryptSubject_never_panics h A k n e hi hH s
  case encryptWhole k n => exact of_isOk (encryptWhole_isOk h A hH k n e)
  case unelide o => exact unelide_np e o
  case decodeBytes b => exact fun s => decode_no_panic h b s
  case reencode => exact fun s => decode_no_panic h (encode e) s
  case uncompress => exact fun s => uncompress_no_panic h Z e s
  case uncompressSubject => exact fun s => uncompressSubject_no_panic h Z e hi.2 s
  case decryptSubject k => exact fun s => decryptSubject_no_panic h A k e hi.2 s
  case decryptWhole k => exact decryptWhole_np h A k hi.2

/-- along a history from an envelope satisfying the invariant, with arguments satisfying
it, no step panics -/
theorem history_np (hH : HashValid h) (ops : List Op) : ∀ (e0 : Env), Inv h e0 →
    (∀ o ∈ ops, ∀ a ∈ o.args, Inv h a) → ∀ s, Res.panic s ∉ runHistory h A Z e0 ops := by
  induction ops with
  | nil => intro e0 _ _ s hs; simp [runHistory] at hs
  | cons o os ih =>
    intro e0 he ha s hs
    simp only [runHistory] at hs
    split at hs
    · rename_i r1 hr1
      have h1 := applyOp_inv_all h A Z hH he (ha o (by simp)) hr1
      rcases List.mem_cons.1 hs with heq | hmem
      · cases heq
      · exact ih r1 h1 (fun o' ho' => ha o' (by simp [ho'])) s hmem
    · simp only [List.mem_singleton] at hs
      exact applyOp_np h A Z hH o he s hs.symm

end

end NP
end EnvVerif
