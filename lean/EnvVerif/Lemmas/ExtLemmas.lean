/-
  Lemmas/ExtLemmas.lean — helpers for C17 (salt) and C19 (attachments, types): the closed
  form of `addAssertionEnvelope` on an `Inv` receiver, lookups on a sorted list, the shape of
  salted assertions and of attachments, the validation fold.
-/
import EnvVerif.Model.Ext
import EnvVerif.Lemmas.WalkLemmas
import EnvVerif.Lemmas.InvLemmas
namespace EnvVerif
namespace ExtL
open Env AW

/-! ### `addAssertionEnvelope` on a receiver satisfying `Inv` -/

theorem add_char {h : Hash} {e a : Env} (hi : Inv h e) (hs : a.slotOk = true) :
    addAssertionEnvelope h e a = .ok (rebuild h e.subject (normAdd e.assertions a)) := by
  obtain ⟨hr, hc, _⟩ := rebuild_of_inv hi
  have := add_rebuild h hc hs (a := a)
  rwa [hr] at this

theorem rebuild_subject {h : Hash} {s : Env} {as : List Env} (hne : as ≠ []) :
    (rebuild h s as).subject = s := by
  rw [rebuild_ne hne]; rfl

theorem rebuild_assertions {h : Hash} {s : Env} {as : List Env} (hne : as ≠ []) :
    (rebuild h s as).assertions = as := by
  rw [rebuild_ne hne]; rfl

theorem rebuild_digest {h : Hash} {s : Env} {as : List Env} (hne : as ≠ []) :
    (rebuild h s as).digest = h.ofDigests (s.digest :: as.map Env.digest) := by
  rw [rebuild_ne hne]; rfl

/-- everything `addAssertionEnvelope` does, on an `Inv` receiver -/
theorem add_ok {h : Hash} {e a r : Env} (hi : Inv h e) (hs : a.slotOk = true)
    (hr : addAssertionEnvelope h e a = .ok r) :
    r.subject = e.subject ∧ r.assertions = normAdd e.assertions a ∧
      r.digest = h.ofDigests (e.subject.digest :: (normAdd e.assertions a).map Env.digest) := by
  rw [add_char hi hs] at hr
  cases hr
  exact ⟨rebuild_subject (normAdd_ne_nil _ _), rebuild_assertions (normAdd_ne_nil _ _),
    rebuild_digest (normAdd_ne_nil _ _)⟩

theorem normAdd_fresh {as : List Env} {a : Env} (hn : ∀ x ∈ as, x.digest ≠ a.digest) :
    normAdd as a = sortByDigest (as ++ [a]) := by
  unfold normAdd
  rw [any_digest_false_iff.2 hn]; rfl

theorem normAdd_present {as : List Env} {a : Env} (hp : ∃ x ∈ as, x.digest = a.digest) :
    normAdd as a = as := by
  unfold normAdd
  rw [any_digest_iff.2 hp]; rfl

theorem add_present_eq {h : Hash} {e a r : Env} (hi : Inv h e) (hs : a.slotOk = true)
    (hp : ∃ x ∈ e.assertions, x.digest = a.digest)
    (hr : addAssertionEnvelope h e a = .ok r) : r = e := by
  rw [add_char hi hs, normAdd_present hp, (rebuild_of_inv hi).1] at hr
  cases hr; rfl

@[simp] theorem newAssertion_slotOk (h : Hash) (p o : Env) : (newAssertion h p o).slotOk = true := by
  simp [newAssertion]

/-- `add_assertion(p, o)` never fails: the `unwrap` is never reached with an `Err` -/
theorem addAssertionUnwrap_eq (h : Hash) (e p o : Env) :
    addAssertionUnwrap h e p o = addAssertionEnvelope h e (newAssertion h p o) := by
  obtain ⟨r, hr⟩ := InvL.addAssertionEnvelope_isOk h (e := e) (newAssertion_slotOk h p o)
  simp [addAssertionUnwrap, hr]

theorem addAssertionUnwrap_isOk (h : Hash) (e p o : Env) : ∃ r, addAssertionUnwrap h e p o = .ok r := by
  rw [addAssertionUnwrap_eq]
  exact InvL.addAssertionEnvelope_isOk h (newAssertion_slotOk h p o)

/-! ### lookups through the digest sort -/

theorem filter_sort_perm (f : Env → Bool) (l : List Env) :
    ((sortByDigest l).filter f).Perm (l.filter f) :=
  (sortByDigest_perm l).filter f

theorem filter_sort_singleton {f : Env → Bool} {l : List Env} {x : Env} (hx : l.filter f = [x]) :
    (sortByDigest l).filter f = [x] := by
  have := filter_sort_perm f l
  rw [hx] at this
  exact List.perm_singleton.1 this

theorem filter_sort_nil {f : Env → Bool} {l : List Env} (hx : l.filter f = []) :
    (sortByDigest l).filter f = [] := by
  have := filter_sort_perm f l
  rw [hx] at this
  exact List.perm_nil.1 this

theorem matchesPred_assertion (q o : Env) (d : Digest) (p : Env) :
    matchesPred (.assertion q o d) p = (q.digest == p.digest) := rfl

theorem matchesPred_node_assertion (q o : Env) (d : Digest) (as : List Env) (d' : Digest) (p : Env) :
    matchesPred (.node (.assertion q o d) as d') p = (q.digest == p.digest) := rfl

theorem matchesPred_newAssertion (h : Hash) (q o p : Env) :
    matchesPred (newAssertion h q o) p = (q.digest == p.digest) := rfl

/-- the assertions with predicate `p` after an add: those before, plus the new one if it has
predicate `p` (as a multiset; the stored order is the digest order) -/
theorem awp_add_perm {h : Hash} {e a r p : Env} (hi : Inv h e) (hs : a.slotOk = true)
    (hn : ∀ x ∈ e.assertions, x.digest ≠ a.digest)
    (hr : addAssertionEnvelope h e a = .ok r) :
    (assertionsWithPredicate r p).Perm
      (assertionsWithPredicate e p ++ (if matchesPred a p then [a] else [])) := by
  obtain ⟨_, has, _⟩ := add_ok hi hs hr
  rw [awp_eq_filter, awp_eq_filter, has, normAdd_fresh hn]
  refine (filter_sort_perm _ _).trans ?_
  rw [List.filter_append]
  cases hm : matchesPred a p <;> simp [hm]

/-! ### salt -/

/-- the `'salt': Salt(bytes)` assertion -/
def saltAssertion (h : Hash) (salt : Bytes) : Env :=
  newAssertion h (newKnownValue h KV_SALT) (newLeaf h (saltCbor salt))

/-- an assertion decorated with one salt assertion: what `assertion.add_salt()` builds -/
def saltedAssertion (h : Hash) (p o : Env) (s : Bytes) : Env :=
  .node (newAssertion h p o) [saltAssertion h s]
    (h.ofDigests [(newAssertion h p o).digest, (saltAssertion h s).digest])

/-- the element that `add_assertion_salted(p, o, salted)` adds -/
def saltedElement (h : Hash) (p o : Env) : Option Bytes → Env
  | some s => saltedAssertion h p o s
  | none => newAssertion h p o

@[simp] theorem saltAssertion_slotOk (h : Hash) (s : Bytes) : (saltAssertion h s).slotOk = true :=
  newAssertion_slotOk h _ _

theorem addSaltInstance_eq (h : Hash) (e : Env) (salt : Bytes) :
    addSaltInstance h e salt = addAssertionEnvelope h e (saltAssertion h salt) :=
  addAssertionUnwrap_eq h e _ _

theorem addSaltInstance_assertion (h : Hash) (p o : Env) (s : Bytes) :
    addSaltInstance h (newAssertion h p o) s = .ok (saltedAssertion h p o s) := by
  rw [addSaltInstance_eq]
  simp [addAssertionEnvelope, newAssertion, saltAssertion, saltedAssertion, newNodeUnchecked, mkNode,
    Env.subject, sortByDigest_singleton]

@[simp] theorem saltedElement_slotOk (h : Hash) (p o : Env) (s : Option Bytes) :
    (saltedElement h p o s).slotOk = true := by
  cases s <;> simp [saltedElement, saltedAssertion]

theorem addAssertionEnvelopeSalted_eq (h : Hash) (e p o : Env) (salt : Option Bytes) :
    addAssertionEnvelopeSalted h e (newAssertion h p o) salt =
      addAssertionEnvelope h e (saltedElement h p o salt) := by
  unfold addAssertionEnvelopeSalted
  simp only [newAssertion_slotOk, Bool.not_true, Bool.false_eq_true, if_false]
  cases salt with
  | none => cases e <;> simp [Res.bind, saltedElement, addAssertionEnvelope]
  | some s =>
    simp only [addSaltInstance_assertion, Res.bind, saltedElement]
    cases e <;> simp [addAssertionEnvelope, saltedAssertion]

theorem addAssertionSalted_eq (h : Hash) (e p o : Env) (salt : Option Bytes) :
    addAssertionSalted h e p o salt = addAssertionEnvelope h e (saltedElement h p o salt) := by
  obtain ⟨r, hr⟩ := InvL.addAssertionEnvelope_isOk h (e := e) (saltedElement_slotOk h p o salt)
  simp [addAssertionSalted, addAssertionEnvelopeSalted_eq, hr]

/-! ### the salt encoding is injective -/

/-- length of a CBOR head with argument `n` -/
def hl (n : Nat) : Nat :=
  if n < 24 then 1 else if n < 256 then 2 else if n < 65536 then 3
  else if n < 4294967296 then 5 else 9

theorem head_length (mt n : Nat) : (Cbor.head mt n).length = hl n := by
  unfold Cbor.head hl
  simp only
  split
  · rfl
  · split
    · rfl
    · split
      · simp [InvL.beBytes_length]
      · split <;> simp [InvL.beBytes_length]

theorem hl_mono {a b : Nat} (hab : a ≤ b) : hl a ≤ hl b := by
  unfold hl
  repeat' split
  all_goals omega

theorem tagged_bytes_enc_inj (t : Nat) {a b : Bytes}
    (hab : (Cbor.tagged t (.bytes a)).enc = (Cbor.tagged t (.bytes b)).enc) : a = b := by
  simp only [Cbor.enc] at hab
  have h1 := List.append_cancel_left hab
  have hl' := congrArg List.length h1
  simp only [List.length_append, head_length] at hl'
  have hlen : a.length = b.length := by
    rcases Nat.lt_trichotomy a.length b.length with hlt | heq | hgt
    · have := hl_mono (Nat.le_of_lt hlt); omega
    · exact heq
    · have := hl_mono (Nat.le_of_lt hgt); omega
  rw [hlen] at h1
  exact List.append_cancel_left h1

theorem saltCbor_enc_inj {a b : Bytes} (hab : (saltCbor a).enc = (saltCbor b).enc) : a = b :=
  tagged_bytes_enc_inj TAG_SALT hab

/-! ### digests of digest lists -/

theorem catDigests_cons (d : Digest) (ds : List Digest) : catDigests (d :: ds) = d.bytes ++ catDigests ds := by
  simp [catDigests]

theorem catDigests_inj (l1 : List Digest) : ∀ (l2 : List Digest), (∀ d ∈ l1, d.Valid) →
    (∀ d ∈ l2, d.Valid) → catDigests l1 = catDigests l2 → l1 = l2 := by
  induction l1 with
  | nil =>
    intro l2 _ _ he
    cases l2 with
    | nil => rfl
    | cons d ds =>
      have := congrArg List.length he
      rw [catDigests_length, catDigests_length] at this
      simp at this
  | cons d1 l1 ih =>
    intro l2 h1 h2 he
    cases l2 with
    | nil =>
      have := congrArg List.length he
      rw [catDigests_length, catDigests_length] at this
      simp at this
    | cons d2 l2 =>
      rw [catDigests_cons, catDigests_cons] at he
      obtain ⟨ha, hb⟩ := List.append_inj he (by rw [bytes_length32, bytes_length32])
      have hd : d1 = d2 :=
        digestBytes_inj (h1 d1 List.mem_cons_self) (h2 d2 List.mem_cons_self) ha
      rw [hd, ih l2 (fun d hd => h1 d (List.mem_cons_of_mem _ hd))
        (fun d hd => h2 d (List.mem_cons_of_mem _ hd)) hb]

/-! ### collision freedom at two given images, and what it buys -/

/-- the hash does not collide on the two images `a`, `b` (a `Faithful`-style hypothesis: a
fact about the hash function at the inputs in play, never provable for an arbitrary `h`) -/
def CollFree (h : Hash) (a b : Bytes) : Prop := h.H a = h.H b → a = b

instance (h : Hash) (a b : Bytes) : Decidable (CollFree h a b) := by
  unfold CollFree; exact inferInstance

theorem ofDigests_ne {h : Hash} {l1 l2 : List Digest} (hc : CollFree h (catDigests l1) (catDigests l2))
    (h1 : ∀ d ∈ l1, d.Valid) (h2 : ∀ d ∈ l2, d.Valid) (hne : l1 ≠ l2) :
    h.ofDigests l1 ≠ h.ofDigests l2 := by
  intro he
  exact hne (catDigests_inj l1 l2 h1 h2 (hc he))

theorem saltAssertion_digest (h : Hash) (s : Bytes) :
    (saltAssertion h s).digest =
      h.ofDigests [(newKnownValue h KV_SALT).digest, (newLeaf h (saltCbor s)).digest] := rfl

theorem saltAssertion_digest_ne {h : Hash} (hV : ∀ b, (h.H b).Valid) {s1 s2 : Bytes} (hne : s1 ≠ s2)
    (c1 : CollFree h (saltCbor s1).enc (saltCbor s2).enc)
    (c2 : CollFree h
      (catDigests [(newKnownValue h KV_SALT).digest, (newLeaf h (saltCbor s1)).digest])
      (catDigests [(newKnownValue h KV_SALT).digest, (newLeaf h (saltCbor s2)).digest])) :
    (saltAssertion h s1).digest ≠ (saltAssertion h s2).digest := by
  rw [saltAssertion_digest, saltAssertion_digest]
  apply ofDigests_ne c2
  · intro d hd
    simp only [List.mem_cons, List.not_mem_nil, or_false] at hd
    rcases hd with hd | hd <;> subst hd <;> exact hV _
  · intro d hd
    simp only [List.mem_cons, List.not_mem_nil, or_false] at hd
    rcases hd with hd | hd <;> subst hd <;> exact hV _
  · intro he
    have : (newLeaf h (saltCbor s1)).digest = (newLeaf h (saltCbor s2)).digest := by
      simpa using he
    exact hne (saltCbor_enc_inj (c1 this))

theorem saltedAssertion_digest (h : Hash) (p o : Env) (s : Bytes) :
    (saltedAssertion h p o s).digest =
      h.ofDigests [(newAssertion h p o).digest, (saltAssertion h s).digest] := rfl

theorem saltAssertion_digest_valid {h : Hash} (hV : ∀ b, (h.H b).Valid) (s : Bytes) :
    (saltAssertion h s).digest.Valid := hV _

theorem saltedAssertion_digest_ne {h : Hash} (hV : ∀ b, (h.H b).Valid) (p o : Env) {s1 s2 : Bytes}
    (hsa : (saltAssertion h s1).digest ≠ (saltAssertion h s2).digest)
    (c3 : CollFree h
      (catDigests [(newAssertion h p o).digest, (saltAssertion h s1).digest])
      (catDigests [(newAssertion h p o).digest, (saltAssertion h s2).digest])) :
    (saltedAssertion h p o s1).digest ≠ (saltedAssertion h p o s2).digest := by
  rw [saltedAssertion_digest, saltedAssertion_digest]
  apply ofDigests_ne c3
  · intro d hd
    simp only [List.mem_cons, List.not_mem_nil, or_false] at hd
    rcases hd with hd | hd <;> subst hd <;> exact hV _
  · intro d hd
    simp only [List.mem_cons, List.not_mem_nil, or_false] at hd
    rcases hd with hd | hd <;> subst hd <;> exact hV _
  · intro he
    apply hsa
    simpa using he

/-- adding two elements with different digests (the first one new) to the same envelope gives
envelopes with different digests, the hash not colliding on the two node images -/
theorem add_digest_ne {h : Hash} (hV : ∀ b, (h.H b).Valid) {e a1 a2 r1 r2 : Env} (hi : Inv h e)
    (hs1 : a1.slotOk = true) (hs2 : a2.slotOk = true)
    (hv1 : a1.digest.Valid) (hv2 : a2.digest.Valid)
    (hfresh : ∀ x ∈ e.assertions, x.digest ≠ a1.digest) (hne : a1.digest ≠ a2.digest)
    (hr1 : addAssertionEnvelope h e a1 = .ok r1) (hr2 : addAssertionEnvelope h e a2 = .ok r2)
    (c : CollFree h (catDigests (r1.subject.digest :: r1.assertions.map Env.digest))
      (catDigests (r2.subject.digest :: r2.assertions.map Env.digest))) :
    r1.digest ≠ r2.digest := by
  obtain ⟨hs1', ha1, hd1⟩ := add_ok hi hs1 hr1
  obtain ⟨hs2', ha2, hd2⟩ := add_ok hi hs2 hr2
  rw [hs1', ha1, hs2', ha2] at c
  rw [hd1, hd2]
  have hvas : ∀ x ∈ e.assertions, x.digest.Valid := fun x hx =>
    InvL.digest_valid hV ((WFList_iff h _).1 (InvL.wf_assertions hi.1) x hx)
      ((CanonList_iff _).1 (InvL.canon_assertions hi.2) x hx)
  have hvs : e.subject.digest.Valid :=
    InvL.digest_valid hV (InvL.wf_subject hi.1) (InvL.canon_subject hi.2)
  have hvn : ∀ (a : Env), a.digest.Valid →
      ∀ d ∈ e.subject.digest :: (normAdd e.assertions a).map Env.digest, d.Valid := by
    intro a hva d hd
    rcases List.mem_cons.1 hd with hd | hd
    · rw [hd]; exact hvs
    · obtain ⟨x, hx, rfl⟩ := List.mem_map.1 hd
      rcases mem_normAdd_sub hx with hx | hx
      · exact hvas x hx
      · rw [hx]; exact hva
  apply ofDigests_ne c (hvn a1 hv1) (hvn a2 hv2)
  intro he
  have he' : (normAdd e.assertions a1).map Env.digest = (normAdd e.assertions a2).map Env.digest := by
    simpa using he
  have hm1 : a1.digest ∈ (normAdd e.assertions a1).map Env.digest := by
    rw [normAdd_fresh hfresh]
    exact List.mem_map.2 ⟨a1, mem_sortByDigest.2 (by simp), rfl⟩
  rw [he'] at hm1
  obtain ⟨x, hx, hxd⟩ := List.mem_map.1 hm1
  rcases mem_normAdd_sub hx with hx | hx
  · exact hfresh x hx hxd
  · rw [hx] at hxd; exact hne hxd.symm

theorem saltedElement_digest_valid {h : Hash} (hV : ∀ b, (h.H b).Valid) (p o : Env)
    (s : Option Bytes) : (saltedElement h p o s).digest.Valid := by
  cases s <;> exact hV _

theorem elide_digest (e : Env) : (elide e).digest = e.digest := by
  cases e <;> rfl

/-! ### folds of fallible steps -/

theorem foldl_bind_init {α β : Type} (step : α → β → Res α) (l : List β) : ∀ (init : Res α),
    l.foldl (fun acc a => acc.bind fun x => step x a) init =
      init.bind fun x => l.foldl (fun acc a => acc.bind fun x => step x a) (.ok x) := by
  induction l with
  | nil => intro init; cases init <;> rfl
  | cons a l ih =>
    intro init
    simp only [List.foldl_cons]
    cases init with
    | ok x => rfl
    | err x => rw [ih]; rfl
    | panic x => rw [ih]; rfl

theorem rebuild_assertions' {h : Hash} {s : Env} {as : List Env} (hc : s.isNode = false ∨ as ≠ []) :
    (rebuild h s as).assertions = as := by
  cases as with
  | nil =>
    rcases hc with hc | hc
    · cases s <;> simp_all [rebuild, Env.assertions, isNode]
    · exact absurd rfl hc
  | cons a as => rfl

theorem rebuild_subject' {h : Hash} {s : Env} {as : List Env} (hc : s.isNode = false ∨ as ≠ []) :
    (rebuild h s as).subject = s := by
  cases as with
  | nil =>
    rcases hc with hc | hc
    · cases s <;> simp_all [rebuild, Env.subject, isNode]
    · exact absurd rfl hc
  | cons a as => rfl

theorem foldl_normAdd_ne_nil : ∀ (l : List Env) {as : List Env}, as ≠ [] → l.foldl normAdd as ≠ []
  | [], _, hne => hne
  | a :: l, as, _ => by
    simp only [List.foldl_cons]
    exact foldl_normAdd_ne_nil l (normAdd_ne_nil as a)

theorem foldl_normAdd_cond {s : Env} (l : List Env) {as : List Env} (hc : s.isNode = false ∨ as ≠ []) :
    s.isNode = false ∨ l.foldl normAdd as ≠ [] := by
  rcases hc with hc | hc
  · exact Or.inl hc
  · exact Or.inr (foldl_normAdd_ne_nil l hc)

/-- membership after adding a list of elements, when an element of the receiver whose digest
equals that of an added element is that element -/
theorem mem_foldl_normAdd' {l as : List Env} (hinj : DigInj l)
    (hcross : ∀ y ∈ as, ∀ x ∈ l, y.digest = x.digest → y = x) (x : Env) :
    x ∈ l.foldl normAdd as ↔ x ∈ as ∨ x ∈ l := by
  rw [mem_foldl_normAdd l hinj x]
  constructor
  · rintro (hx | ⟨hx, _⟩)
    · exact Or.inl hx
    · exact Or.inr hx
  · rintro (hx | hx)
    · exact Or.inl hx
    · by_cases hex : ∃ y ∈ as, y.digest = x.digest
      · obtain ⟨y, hy, hyd⟩ := hex
        have := hcross y hy x hx hyd
        subst this
        exact Or.inl hy
      · exact Or.inr ⟨hx, fun y hy hyd => hex ⟨y, hy, hyd⟩⟩

theorem digInj_of_pairwise {l : List Env} (hp : l.Pairwise (fun a b => a.digest ≠ b.digest)) :
    DigInj l := by
  induction l with
  | nil => intro a ha; cases ha
  | cons x l ih =>
    rw [List.pairwise_cons] at hp
    intro a ha b hb hab
    rcases List.mem_cons.1 ha with ha | ha <;> rcases List.mem_cons.1 hb with hb | hb
    · rw [ha, hb]
    · rw [ha] at hab; exact absurd hab (hp.1 b hb)
    · rw [hb] at hab; exact absurd hab.symm (hp.1 a ha)
    · exact ih hp.2 a ha b hb hab

theorem sortByDigest_pair (a b : Env) :
    sortByDigest [a, b] = if a.digest.val ≤ b.digest.val then [a, b] else [b, a] := by
  by_cases hab : a.digest.val ≤ b.digest.val
  · simp [sortByDigest, List.mergeSort, List.MergeSort.Internal.splitInTwo, digestLe, hab]
  · simp [sortByDigest, List.mergeSort, List.MergeSort.Internal.splitInTwo, digestLe, hab]

/-! ### attachments -/

/-- the `'vendor': "v"` assertion -/
def vendorAssertion (h : Hash) (v : Bytes) : Env :=
  newAssertion h (newKnownValue h KV_VENDOR) (textLeaf h v)

/-- the `'conformsTo': "c"` assertion -/
def conformsToAssertion (h : Hash) (c : Bytes) : Env :=
  newAssertion h (newKnownValue h KV_CONFORMS_TO) (textLeaf h c)

/-- the conformsTo assertions of an attachment's object: none or one -/
def confList (h : Hash) : Option Bytes → List Env
  | none => []
  | some c => [conformsToAssertion h c]

/-- the stored assertion list of an attachment's object -/
def attachmentObjAssertions (h : Hash) (v : Bytes) : Option Bytes → List Env
  | none => [vendorAssertion h v]
  | some c => normAdd [vendorAssertion h v] (conformsToAssertion h c)

/-- the object of an attachment assertion: the wrapped payload with its vendor and optional
conformsTo assertions -/
def attachmentObject (h : Hash) (payload : Env) (v : Bytes) (c : Option Bytes) : Env :=
  nodeOf h (wrap h payload) (attachmentObjAssertions h v c)

/-- the attachment assertion `'attachment': { payload } ['vendor': v, 'conformsTo': c]` -/
def attachmentOf (h : Hash) (payload : Env) (v : Bytes) (c : Option Bytes) : Env :=
  newAssertion h (newKnownValue h KV_ATTACHMENT) (attachmentObject h payload v c)

/-- the collision-freedom facts an attachment with vendor `v` and conformsTo `c` relies on: the
'vendor' and 'conformsTo' predicates have different digests, and so do the two assertions -/
def AttGood (h : Hash) (v : Bytes) (c : Option Bytes) : Prop :=
  (newKnownValue h KV_VENDOR).digest ≠ (newKnownValue h KV_CONFORMS_TO).digest ∧
  ∀ c', c = some c' → (vendorAssertion h v).digest ≠ (conformsToAssertion h c').digest

theorem attachmentObjAssertions_ne_nil (h : Hash) (v : Bytes) (c : Option Bytes) :
    attachmentObjAssertions h v c ≠ [] := by
  cases c with
  | none => simp [attachmentObjAssertions]
  | some c => exact normAdd_ne_nil _ _

/-- `new_attachment` is total -/
theorem newAttachment_eq (h : Hash) (payload : Env) (v : Bytes) (c : Option Bytes) :
    newAttachment h payload v c = .ok (attachmentOf h payload v c) := by
  have hw : (wrap h payload).isNode = false := rfl
  have h1 : addAssertionUnwrap h (wrap h payload) (newKnownValue h KV_VENDOR) (textLeaf h v) =
      .ok (rebuild h (wrap h payload) [vendorAssertion h v]) := by
    rw [addAssertionUnwrap_eq]
    have := add_rebuild h (s := wrap h payload) (as := []) (a := vendorAssertion h v) (Or.inl hw)
      (newAssertion_slotOk h _ _)
    simpa [normAdd, sortByDigest_singleton, rebuild, vendorAssertion] using this
  unfold newAttachment
  rw [h1]
  cases c with
  | none =>
    simp [Res.bind, attachmentOf, attachmentObject, attachmentObjAssertions, rebuild]
  | some c =>
    have h2 : addAssertionUnwrap h (rebuild h (wrap h payload) [vendorAssertion h v])
        (newKnownValue h KV_CONFORMS_TO) (textLeaf h c) =
        .ok (rebuild h (wrap h payload) (normAdd [vendorAssertion h v] (conformsToAssertion h c))) := by
      rw [addAssertionUnwrap_eq]
      exact add_rebuild h (Or.inl hw) (newAssertion_slotOk h _ _)
    simp only [Res.bind, h2]
    rw [rebuild_ne (normAdd_ne_nil _ _)]
    rfl

@[simp] theorem attachmentOf_slotOk (h : Hash) (payload : Env) (v : Bytes) (c : Option Bytes) :
    (attachmentOf h payload v c).slotOk = true := newAssertion_slotOk h _ _

theorem attachmentOf_matches (h : Hash) (payload : Env) (v : Bytes) (c : Option Bytes) :
    matchesPred (attachmentOf h payload v c) (newKnownValue h KV_ATTACHMENT) = true := by
  simp [attachmentOf, matchesPred_newAssertion]

theorem awp_attachmentObject (h : Hash) (payload : Env) (v : Bytes) (c : Option Bytes) (p : Env) :
    assertionsWithPredicate (attachmentObject h payload v c) p =
      (attachmentObjAssertions h v c).filter (fun a => matchesPred a p) := rfl

theorem vendor_lookup {h : Hash} {v : Bytes} {c : Option Bytes} (hg : AttGood h v c) (payload : Env) :
    assertionsWithPredicate (attachmentObject h payload v c) (newKnownValue h KV_VENDOR) =
      [vendorAssertion h v] := by
  rw [awp_attachmentObject]
  have hv : matchesPred (vendorAssertion h v) (newKnownValue h KV_VENDOR) = true := by
    simp [vendorAssertion, matchesPred_newAssertion]
  cases c with
  | none => simp [attachmentObjAssertions, hv]
  | some c =>
    have hc : matchesPred (conformsToAssertion h c) (newKnownValue h KV_VENDOR) = false := by
      simp only [conformsToAssertion, matchesPred_newAssertion]
      exact beq_eq_false_iff_ne.2 (Ne.symm hg.1)
    have hf : ∀ x ∈ [vendorAssertion h v], x.digest ≠ (conformsToAssertion h c).digest := by
      intro x hx; rw [List.mem_singleton.1 hx]; exact hg.2 c rfl
    simp only [attachmentObjAssertions]
    rw [normAdd_fresh hf]
    apply filter_sort_singleton
    simp [hv, hc]

theorem conformsTo_lookup {h : Hash} {v : Bytes} {c : Option Bytes} (hg : AttGood h v c) (payload : Env) :
    assertionsWithPredicate (attachmentObject h payload v c) (newKnownValue h KV_CONFORMS_TO) =
      confList h c := by
  rw [awp_attachmentObject]
  have hv : matchesPred (vendorAssertion h v) (newKnownValue h KV_CONFORMS_TO) = false := by
    simp only [vendorAssertion, matchesPred_newAssertion]
    exact beq_eq_false_iff_ne.2 hg.1
  cases c with
  | none => simp [attachmentObjAssertions, hv, confList]
  | some c =>
    have hc : matchesPred (conformsToAssertion h c) (newKnownValue h KV_CONFORMS_TO) = true := by
      simp [conformsToAssertion, matchesPred_newAssertion]
    have hf : ∀ x ∈ [vendorAssertion h v], x.digest ≠ (conformsToAssertion h c).digest := by
      intro x hx; rw [List.mem_singleton.1 hx]; exact hg.2 c rfl
    simp only [attachmentObjAssertions, confList]
    rw [normAdd_fresh hf]
    apply filter_sort_singleton
    simp [hv, hc]

theorem attachmentPayload_of (h : Hash) (payload : Env) (v : Bytes) (c : Option Bytes) :
    attachmentPayload (attachmentOf h payload v c) = .ok payload := rfl

theorem attachmentVendor_of {h : Hash} {v : Bytes} {c : Option Bytes} (hg : AttGood h v c) (payload : Env) :
    attachmentVendor h (attachmentOf h payload v c) = .ok v := by
  simp [attachmentOf, newAssertion, attachmentVendor, extractTextObjectForPredicate,
    assertionWithPredicate, vendor_lookup hg, vendorAssertion, asObject, textLeaf, newLeaf, extractText]

theorem attachmentConformsTo_of {h : Hash} {v : Bytes} {c : Option Bytes} (hg : AttGood h v c)
    (payload : Env) : attachmentConformsTo h (attachmentOf h payload v c) = .ok c := by
  cases c with
  | none =>
    simp [attachmentOf, newAssertion, attachmentConformsTo, extractOptionalTextObjectForPredicate,
      optionalObjectForPredicate, conformsTo_lookup hg, confList]
  | some c =>
    simp [attachmentOf, newAssertion, attachmentConformsTo, extractOptionalTextObjectForPredicate,
      optionalObjectForPredicate, conformsTo_lookup hg, confList, conformsToAssertion, asObject, textLeaf,
      newLeaf, extractText, Env.subject]

/-- `validate_attachment` on an assertion, with the rebuilt attachment in closed form -/
theorem validateAttachment_assertion (h : Hash) (p o : Env) (d : Digest) :
    validateAttachment h (.assertion p o d) =
      (unwrap o).bind fun payload =>
      (extractTextObjectForPredicate o (newKnownValue h KV_VENDOR)).bind fun vendor =>
      (extractOptionalTextObjectForPredicate o (newKnownValue h KV_CONFORMS_TO)).bind fun conf =>
        if (attachmentOf h payload vendor conf).digest == d then .ok () else .err "InvalidAttachment" := by
  simp [validateAttachment, attachmentPayload, attachmentVendor, attachmentConformsTo,
    newAttachment_eq, Res.bind, Env.digest]

theorem validateAttachment_of {h : Hash} {v : Bytes} {c : Option Bytes} (hg : AttGood h v c)
    (payload : Env) : validateAttachment h (attachmentOf h payload v c) = .ok () := by
  have h1 := attachmentVendor_of hg payload
  have h2 := attachmentConformsTo_of hg payload
  have h0 := attachmentPayload_of h payload v c
  simp only [attachmentOf, newAssertion] at h0 h1 h2 ⊢
  simp only [attachmentPayload, attachmentVendor, attachmentConformsTo] at h0 h1 h2
  rw [validateAttachment_assertion, h0, h1, h2]
  simp [Res.bind, attachmentOf, newAssertion, Env.digest]

theorem validateAttachment_not_assertion (h : Hash) {a : Env} (ha : a.isAssertion = false) :
    validateAttachment h a = .err "InvalidAttachment" := by
  cases a <;> simp_all [validateAttachment, isAssertion]

/-! ### no panics in the attachment queries -/

theorem unwrap_no_panic (e : Env) (x : String) : unwrap e ≠ .panic x := by
  unfold unwrap; split <;> simp

theorem extractText_no_panic : (e : Env) → (x : String) → extractText e ≠ .panic x
  | .node s _ _, x => by rw [extractText]; exact extractText_no_panic s x
  | .leaf c _, x => by cases c <;> simp [extractText]
  | .wrapped .., x => by simp [extractText]
  | .assertion .., x => by simp [extractText]
  | .elided .., x => by simp [extractText]
  | .knownValue .., x => by simp [extractText]
  | .encrypted .., x => by simp [extractText]
  | .compressed .., x => by simp [extractText]

theorem assertionWithPredicate_no_panic (e p : Env) (x : String) :
    assertionWithPredicate e p ≠ .panic x := by
  unfold assertionWithPredicate; split <;> simp

theorem extractTextObjectForPredicate_no_panic (e p : Env) (x : String) :
    extractTextObjectForPredicate e p ≠ .panic x := by
  unfold extractTextObjectForPredicate
  cases h1 : assertionWithPredicate e p with
  | ok a =>
    simp only
    cases asObject a with
    | none => simp
    | some o => exact extractText_no_panic o x
  | err y => simp
  | panic y => exact absurd h1 (assertionWithPredicate_no_panic e p y)

theorem optionalObjectForPredicate_no_panic (e p : Env) (x : String) :
    optionalObjectForPredicate e p ≠ .panic x := by
  unfold optionalObjectForPredicate
  cases hl : assertionsWithPredicate e p with
  | nil => simp
  | cons a l =>
    cases l with
    | nil =>
      have ha : a ∈ assertionsWithPredicate e p := by rw [hl]; simp
      rw [awp_eq_filter, List.mem_filter] at ha
      obtain ⟨q, o, d, _, _, ho⟩ := asObject_of_matches ha.2
      simp [ho]
    | cons b l => simp

theorem extractOptionalTextObjectForPredicate_no_panic (e p : Env) (x : String) :
    extractOptionalTextObjectForPredicate e p ≠ .panic x := by
  unfold extractOptionalTextObjectForPredicate
  cases h1 : optionalObjectForPredicate e p with
  | ok r =>
    cases r with
    | none => simp
    | some o =>
      simp only
      cases h2 : extractText o with
      | ok b => simp
      | err y => simp
      | panic y => exact absurd h2 (extractText_no_panic o y)
  | err y => simp
  | panic y => exact absurd h1 (optionalObjectForPredicate_no_panic e p y)

theorem validateAttachment_no_panic (h : Hash) (a : Env) (x : String) :
    validateAttachment h a ≠ .panic x := by
  cases a with
  | assertion p o d =>
    rw [validateAttachment_assertion]
    cases h1 : unwrap o with
    | panic y => exact absurd h1 (unwrap_no_panic o y)
    | err y => simp [Res.bind]
    | ok payload =>
      cases h2 : extractTextObjectForPredicate o (newKnownValue h KV_VENDOR) with
      | panic y => exact absurd h2 (extractTextObjectForPredicate_no_panic _ _ y)
      | err y => simp [Res.bind]
      | ok v =>
        cases h3 : extractOptionalTextObjectForPredicate o (newKnownValue h KV_CONFORMS_TO) with
        | panic y => exact absurd h3 (extractOptionalTextObjectForPredicate_no_panic _ _ y)
        | err y => simp [Res.bind]
        | ok c =>
          simp only [Res.bind]
          split <;> simp
  | _ => simp [validateAttachment]

/-! ### the validation loop of `attachments_with_vendor_and_conforms_to` -/

/-- `for assertion in &assertions { validate_attachment(assertion)?; }` -/
def validateAll (h : Hash) (as : List Env) : Res Unit :=
  as.foldl (fun acc a => acc.bind fun _ => validateAttachment h a) (.ok ())

theorem validateAll_nil (h : Hash) : validateAll h [] = .ok () := rfl

theorem validateAll_cons (h : Hash) (a : Env) (as : List Env) :
    validateAll h (a :: as) = (validateAttachment h a).bind fun _ => validateAll h as := by
  unfold validateAll
  simp only [List.foldl_cons]
  rw [foldl_bind_init (fun (_ : Unit) a => validateAttachment h a)]
  rfl

theorem validateAll_ok_iff (h : Hash) (as : List Env) :
    validateAll h as = .ok () ↔ ∀ a ∈ as, validateAttachment h a = .ok () := by
  induction as with
  | nil => simp [validateAll_nil]
  | cons a as ih =>
    rw [validateAll_cons]
    cases hv : validateAttachment h a with
    | ok u => cases u; simp [Res.bind, ih, hv]
    | err x => simp [Res.bind, hv]
    | panic x => simp [Res.bind, hv]

/-- the loop stops at the first invalid attachment and returns its error -/
theorem validateAll_first_err (h : Hash) {l1 l2 : List Env} {a : Env} {x : String}
    (h1 : ∀ b ∈ l1, validateAttachment h b = .ok ()) (ha : validateAttachment h a = .err x) :
    validateAll h (l1 ++ a :: l2) = .err x := by
  induction l1 with
  | nil => simp [validateAll_cons, ha, Res.bind]
  | cons b l1 ih =>
    rw [List.cons_append, validateAll_cons, h1 b (by simp)]
    exact ih (fun c hc => h1 c (by simp [hc]))

theorem attachmentsWith_eq (h : Hash) (e : Env) (vendor conf : Option Bytes) :
    attachmentsWith h e vendor conf =
      (validateAll h (assertionsWithPredicate e (newKnownValue h KV_ATTACHMENT))).bind fun _ =>
        .ok ((assertionsWithPredicate e (newKnownValue h KV_ATTACHMENT)).filter
          (attachmentMatches h vendor conf)) := rfl

theorem attachmentsWith_ok_iff (h : Hash) (e : Env) (vendor conf : Option Bytes) (l : List Env) :
    attachmentsWith h e vendor conf = .ok l ↔
      (∀ a ∈ assertionsWithPredicate e (newKnownValue h KV_ATTACHMENT), validateAttachment h a = .ok ()) ∧
      l = (assertionsWithPredicate e (newKnownValue h KV_ATTACHMENT)).filter
        (attachmentMatches h vendor conf) := by
  rw [attachmentsWith_eq, ← validateAll_ok_iff]
  cases hv : validateAll h (assertionsWithPredicate e (newKnownValue h KV_ATTACHMENT)) with
  | ok u => cases u; simp [Res.bind, eq_comm]
  | err x => simp [Res.bind]
  | panic x => simp [Res.bind]

/-! ### adding several attachments -/

/-- a fold of `add_attachment` over (payload, vendor, conformsTo) triples -/
def addAttachments (h : Hash) (e : Env) (L : List (Env × Bytes × Option Bytes)) : Res Env :=
  L.foldl (fun acc t => acc.bind fun x => addAttachment h x t.1 t.2.1 t.2.2) (.ok e)

/-- the attachment assertion of a triple -/
def attOfT (h : Hash) (t : Env × Bytes × Option Bytes) : Env := attachmentOf h t.1 t.2.1 t.2.2

theorem addAttachment_eq (h : Hash) (e payload : Env) (v : Bytes) (c : Option Bytes) :
    addAttachment h e payload v c = addAssertionEnvelope h e (attachmentOf h payload v c) := by
  obtain ⟨r, hr⟩ := InvL.addAssertionEnvelope_isOk h (e := e) (attachmentOf_slotOk h payload v c)
  simp [addAttachment, newAttachment_eq, Res.bind, hr]

theorem addAttachments_cons (h : Hash) (e : Env) (t : Env × Bytes × Option Bytes)
    (L : List (Env × Bytes × Option Bytes)) :
    addAttachments h e (t :: L) =
      (addAttachment h e t.1 t.2.1 t.2.2).bind fun x => addAttachments h x L := by
  unfold addAttachments
  simp only [List.foldl_cons]
  rw [foldl_bind_init (fun x (t : Env × Bytes × Option Bytes) => addAttachment h x t.1 t.2.1 t.2.2)]
  rfl

theorem addAttachments_rebuild (h : Hash) {s : Env} : ∀ (L : List (Env × Bytes × Option Bytes))
    {as : List Env}, (s.isNode = false ∨ as ≠ []) →
    addAttachments h (rebuild h s as) L = .ok (rebuild h s ((L.map (attOfT h)).foldl normAdd as))
  | [], _, _ => rfl
  | t :: L, as, hc => by
    rw [addAttachments_cons, addAttachment_eq, add_rebuild h hc (attachmentOf_slotOk h _ _ _)]
    simp only [Res.bind, List.map_cons, List.foldl_cons]
    exact addAttachments_rebuild h L (Or.inr (normAdd_ne_nil _ _))

/-- closed form of a fold of `add_attachment` on an `Inv` receiver -/
theorem addAttachments_ok {h : Hash} {e r : Env} {L : List (Env × Bytes × Option Bytes)} (hi : Inv h e)
    (hr : addAttachments h e L = .ok r) :
    r.subject = e.subject ∧ r.assertions = (L.map (attOfT h)).foldl normAdd e.assertions := by
  obtain ⟨he, hc, _⟩ := rebuild_of_inv hi
  rw [← he, addAttachments_rebuild h L hc] at hr
  cases hr
  exact ⟨rebuild_subject' (foldl_normAdd_cond _ hc), rebuild_assertions' (foldl_normAdd_cond _ hc)⟩

theorem addAttachments_total (h : Hash) {e : Env} (hi : Inv h e) (L : List (Env × Bytes × Option Bytes)) :
    ∃ r, addAttachments h e L = .ok r := by
  obtain ⟨he, hc, _⟩ := rebuild_of_inv hi
  rw [← he, addAttachments_rebuild h L hc]
  exact ⟨_, rfl⟩

/-! ### types -/

theorem types_eq (h : Hash) (e : Env) :
    types h e = .ok ((assertionsWithPredicate e (newKnownValue h KV_IS_A)).filterMap
      fun a => asObject a.subject) := by
  unfold types objectsForPredicate
  apply objectsFold_spec
  intro a ha
  rw [awp_eq_filter, List.mem_filter] at ha
  obtain ⟨q, o, d, _, _, ho⟩ := asObject_of_matches ha.2
  exact ⟨o, ho⟩

/-- the `'isA': t` assertion -/
def isAAssertion (h : Hash) (t : Env) : Env := newAssertion h (newKnownValue h KV_IS_A) t

theorem addType_eq (h : Hash) (e t : Env) :
    addType h e t = addAssertionEnvelope h e (isAAssertion h t) :=
  addAssertionUnwrap_eq h e _ _

@[simp] theorem isAAssertion_slotOk (h : Hash) (t : Env) : (isAAssertion h t).slotOk = true :=
  newAssertion_slotOk h _ _

theorem mem_typesList {h : Hash} {e x : Env} :
    x ∈ (assertionsWithPredicate e (newKnownValue h KV_IS_A)).filterMap (fun a => asObject a.subject) ↔
      ∃ a ∈ e.assertions, ∃ q d, a.subject = .assertion q x d ∧
        q.digest = (newKnownValue h KV_IS_A).digest := by
  rw [List.mem_filterMap]
  constructor
  · rintro ⟨a, ha, hx⟩
    obtain ⟨ha1, q, o, d, hs, hq⟩ := mem_awp.1 ha
    rw [hs] at hx
    simp only [asObject, Option.some.injEq] at hx
    subst hx
    exact ⟨a, ha1, q, d, hs, hq⟩
  · rintro ⟨a, ha, q, d, hs, hq⟩
    exact ⟨a, mem_awp.2 ⟨ha, q, x, d, hs, hq⟩, by rw [hs]; rfl⟩

/-! ### the attachment fields are determined by the subject and the two lookups -/

theorem extractVendor_of_lookup {h : Hash} {o : Env} {v : Bytes}
    (hl : assertionsWithPredicate o (newKnownValue h KV_VENDOR) = [vendorAssertion h v]) :
    extractTextObjectForPredicate o (newKnownValue h KV_VENDOR) = .ok v := by
  simp [extractTextObjectForPredicate, assertionWithPredicate, hl, vendorAssertion, newAssertion,
    asObject, textLeaf, newLeaf, extractText]

theorem extractConf_of_lookup {h : Hash} {o : Env} {c : Option Bytes}
    (hl : assertionsWithPredicate o (newKnownValue h KV_CONFORMS_TO) = confList h c) :
    extractOptionalTextObjectForPredicate o (newKnownValue h KV_CONFORMS_TO) = .ok c := by
  cases c with
  | none => simp [extractOptionalTextObjectForPredicate, optionalObjectForPredicate, hl, confList]
  | some c =>
    simp [extractOptionalTextObjectForPredicate, optionalObjectForPredicate, hl, confList, conformsToAssertion,
      newAssertion, asObject, textLeaf, newLeaf, extractText, Env.subject]

theorem matchesPred_false_of {x p : Env}
    (hx : ∀ q ob d, x.subject = .assertion q ob d → q.digest ≠ p.digest) : matchesPred x p = false := by
  cases hm : matchesPred x p with
  | false => rfl
  | true =>
    obtain ⟨q, o, d, hs, hq⟩ := (matchesPred_iff x p).1 hm
    exact absurd hq (hx q o d hs)

/-- the attachment object with one more assertion `x` (new digest) -/
theorem attachmentObject_add {h : Hash} (payload : Env) (v : Bytes) (c : Option Bytes) {x o' : Env}
    (hs : x.slotOk = true)
    (hfresh : ∀ y ∈ attachmentObjAssertions h v c, y.digest ≠ x.digest)
    (ho : addAssertionEnvelope h (attachmentObject h payload v c) x = .ok o') :
    o' = nodeOf h (wrap h payload) (sortByDigest (attachmentObjAssertions h v c ++ [x])) := by
  have hne := attachmentObjAssertions_ne_nil h v c
  have := add_rebuild h (s := wrap h payload) (as := attachmentObjAssertions h v c) (a := x)
    (Or.inr hne) hs
  rw [rebuild_ne hne, normAdd_fresh hfresh, rebuild_ne] at this
  · unfold attachmentObject at ho
    rw [this] at ho
    cases ho; rfl
  · intro hnil
    have := sortByDigest_eq_nil.1 hnil
    simp at this

theorem mem_normAdd_of_mem {as : List Env} {a x : Env} (hx : x ∈ as) : x ∈ normAdd as a := by
  unfold normAdd
  split
  · exact hx
  · exact mem_sortByDigest.2 (by simp [hx])

theorem self_mem_normAdd {as : List Env} {a : Env} (hinj : ∀ y ∈ as, y.digest = a.digest → y = a) :
    a ∈ normAdd as a := (mem_normAdd hinj a).2 (Or.inr rfl)

theorem attachmentObjAssertions_some (h : Hash) (v c : Bytes)
    (hd : (vendorAssertion h v).digest ≠ (conformsToAssertion h c).digest) :
    attachmentObjAssertions h v (some c) =
      if (vendorAssertion h v).digest.val ≤ (conformsToAssertion h c).digest.val
      then [vendorAssertion h v, conformsToAssertion h c]
      else [conformsToAssertion h c, vendorAssertion h v] := by
  have hf : ∀ x ∈ [vendorAssertion h v], x.digest ≠ (conformsToAssertion h c).digest := by
    intro x hx; rw [List.mem_singleton.1 hx]; exact hd
  simp only [attachmentObjAssertions]
  rw [normAdd_fresh hf]
  exact sortByDigest_pair _ _

/-- sample for the witness of C19: a node whose only assertion is the elided form of
`'isA': sSubj` -/
def elidedIsAEnv : Env :=
  .node InvL.sSubj [.elided (isAAssertion InvL.toyHash InvL.sSubj).digest]
    (InvL.toyHash.ofDigests [InvL.sSubj.digest, (isAAssertion InvL.toyHash InvL.sSubj).digest])

theorem elidedIsAEnv_inv : Inv InvL.toyHash elidedIsAEnv := by
  refine ⟨?_, ?_⟩
  · simp [elidedIsAEnv, InvL.sSubj_inv.1, Env.digest]
  · simp only [elidedIsAEnv, InvL.Canon_node, InvL.CanonList_cons, InvL.Canon_elided, InvL.CanonList_nil]
    refine ⟨InvL.sSubj_inv.2, ⟨InvL.toyHash_valid _, trivial⟩, by simp, by simp [AscDigests], ?_⟩
    intro a ha
    rw [List.mem_singleton.1 ha]
    simp

end ExtL
end EnvVerif
