/-
  Lemmas/Grammar.lean — the envelope CDDL transcribed as an inductive predicate over CBOR
  trees, independent of the model's encoder and decoder (it mentions only `Cbor`; tag
  numbers are written out).

    envelope   = leaf / wrapped / assertion / elided / known-value / encrypted / compressed / node
    leaf       = #6.201(any)
    wrapped    = #6.200(envelope)
    assertion  = { envelope => envelope }              ; exactly one entry
    elided     = bytes .size 32
    known-value= uint
    encrypted  = #6.40002([bytes, bytes, bytes, ? bytes])
    compressed = #6.40003([uint, uint, bytes, #6.40001(bytes .size 32)])
    node       = [envelope, + assertion-slot]
    assertion-slot = an envelope that is an assertion, an obscured element (elided /
                 encrypted / compressed), or a node whose subject is an assertion-slot
                 (an assertion carrying its own assertions)

  Ordering of the assertion slots by digest is not expressible on bare CBOR without the
  hash; that part is stated on the `Env` side (`Canon`, `AscDigests`).
-/
import EnvVerif.Model.Cbor
namespace EnvVerif

/-- the outer shape an assertion slot must have -/
inductive SlotShape : Cbor → Prop
  | assertion (kvs : List (Cbor × Cbor)) : SlotShape (.map kvs)
  | elided (b : Bytes) : SlotShape (.bytes b)
  | encrypted (x : Cbor) : SlotShape (.tagged 40002 x)
  | compressed (x : Cbor) : SlotShape (.tagged 40003 x)
  | node (s : Cbor) (rest : List Cbor) : SlotShape s → SlotShape (.array (s :: rest))

/-- the envelope grammar (untagged content, as `untagged_cbor` emits it) -/
inductive Grammar : Cbor → Prop
  | leaf (c : Cbor) : Grammar (.tagged 201 c)
  | wrapped (c : Cbor) : Grammar c → Grammar (.tagged 200 c)
  | assertion (p o : Cbor) : Grammar p → Grammar o → Grammar (.map [(p, o)])
  | elided (b : Bytes) : b.length = 32 → Grammar (.bytes b)
  | knownValue (v : Nat) : Grammar (.uint v)
  | encrypted3 (ct nonce auth : Bytes) :
      Grammar (.tagged 40002 (.array [.bytes ct, .bytes nonce, .bytes auth]))
  | encrypted4 (ct nonce auth aad : Bytes) :
      Grammar (.tagged 40002 (.array [.bytes ct, .bytes nonce, .bytes auth, .bytes aad]))
  | compressed (checksum size : Nat) (data dg : Bytes) : dg.length = 32 →
      Grammar (.tagged 40003 (.array [.uint checksum, .uint size, .bytes data,
        .tagged 40001 (.bytes dg)]))
  | node (s : Cbor) (rest : List Cbor) : Grammar s → rest ≠ [] →
      (∀ a, a ∈ rest → Grammar a) → (∀ a, a ∈ rest → SlotShape a) → Grammar (.array (s :: rest))

/-- the tagged form `#6.200(envelope)` that goes on the wire -/
def TaggedGrammar : Cbor → Prop
  | .tagged 200 c => Grammar c
  | _ => False

end EnvVerif
