/-
  Lemmas/ProofLemmas.lean — helper lemmas for C12 (inclusion proofs): membership form of
  the digest sets, the walk as a set of positions, `remove_all_found` as a filter, the
  reveal set described by positions, "a target lies beneath" described by positions, the
  proof construction `revealing_paths_to` as a pure function (`proofOf`) and its positions.
-/
import EnvVerif.Lemmas.Paths
namespace EnvVerif
open Env

/-! ### `memD` -/

theorem memD_iff (L : List Digest) (d : Digest) : memD L d = true ↔ d ∈ L := by
  simp [memD]

theorem memD_false_iff (L : List Digest) (d : Digest) : memD L d = false ↔ d ∉ L := by
  rw [← memD_iff]; simp

/-! ### children of an element, one constructor at a time -/

theorem exists_child_node {P : Env → Prop} (s : Env) (as : List Env) (d : Digest) :
    (∃ st c, (Env.node s as d).child st = some c ∧ P c) ↔ P s ∨ ∃ a ∈ as, P a := by
  constructor
  · rintro ⟨st, c, hc, hp⟩
    cases st <;> simp only [Env.child, reduceCtorEq] at hc
    · cases hc; exact Or.inl hp
    · exact Or.inr ⟨c, List.mem_of_getElem? hc, hp⟩
  · rintro (hp | ⟨a, ha, hp⟩)
    · exact ⟨.subj, s, rfl, hp⟩
    · obtain ⟨i, hi, rfl⟩ := List.getElem_of_mem ha
      exact ⟨.assertion i, _, by simp [Env.child, hi], hp⟩

theorem exists_child_wrapped {P : Env → Prop} (e : Env) (d : Digest) :
    (∃ st c, (Env.wrapped e d).child st = some c ∧ P c) ↔ P e := by
  constructor
  · rintro ⟨st, c, hc, hp⟩
    cases st <;> simp only [Env.child, reduceCtorEq] at hc
    cases hc; exact hp
  · intro hp; exact ⟨.inner, e, rfl, hp⟩

theorem exists_child_assertion {P : Env → Prop} (p o : Env) (d : Digest) :
    (∃ st c, (Env.assertion p o d).child st = some c ∧ P c) ↔ P p ∨ P o := by
  constructor
  · rintro ⟨st, c, hc, hp⟩
    cases st <;> simp only [Env.child, reduceCtorEq] at hc
    · cases hc; exact Or.inl hp
    · cases hc; exact Or.inr hp
  · rintro (hp | hp)
    · exact ⟨.pred, p, rfl, hp⟩
    · exact ⟨.obj, o, rfl, hp⟩

theorem child_none_of_atom {e : Env} (hn : e.isInternal = false) (st : Step) : e.child st = none := by
  cases e <;> simp [Env.isInternal, Env.isNode, Env.isWrapped, Env.isAssertion] at hn <;> cases st <;> rfl

/-! ### the walk as a set of positions -/

mutual
theorem walkStructure_map_digest : (e : Env) → (lvl : Nat) → (edge : Edge) →
    (walkStructure e lvl edge).map (fun v => v.1.digest) = (elements e).map Env.digest
  | .node s as d, lvl, edge => by
    simp [walkStructure, elements, walkStructure_map_digest s, walkStructureList_map_digest as]
  | .wrapped e d, lvl, edge => by simp [walkStructure, elements, walkStructure_map_digest e]
  | .assertion p o d, lvl, edge => by
    simp [walkStructure, elements, walkStructure_map_digest p, walkStructure_map_digest o]
  | .leaf .., _, _ => by simp [walkStructure, elements]
  | .elided .., _, _ => by simp [walkStructure, elements]
  | .knownValue .., _, _ => by simp [walkStructure, elements]
  | .encrypted .., _, _ => by simp [walkStructure, elements]
  | .compressed .., _, _ => by simp [walkStructure, elements]
theorem walkStructureList_map_digest : (as : List Env) → (lvl : Nat) →
    (walkStructureList as lvl).map (fun v => v.1.digest) = (elementsList as).map Env.digest
  | [], _ => by simp [walkStructureList, elementsList]
  | a :: as, lvl => by
    simp [walkStructureList, elementsList, walkStructure_map_digest a, walkStructureList_map_digest as]
end

theorem walkDigests_eq_elements (e : Env) : walkDigests e = (elements e).map Env.digest :=
  walkStructure_map_digest e 0 .none

theorem mem_elementsList {x : Env} {as : List Env} :
    x ∈ elementsList as ↔ ∃ a ∈ as, x ∈ elements a := by
  induction as with
  | nil => simp [elementsList]
  | cons a as ih => simp [elementsList, ih]

/-- one step of the structure walk -/
theorem mem_elements_step {x e : Env} :
    x ∈ elements e ↔ x = e ∨ ∃ st c, e.child st = some c ∧ x ∈ elements c := by
  cases e with
  | node s as d => rw [exists_child_node]; simp [elements, mem_elementsList]
  | wrapped e d => rw [exists_child_wrapped]; simp [elements]
  | assertion p o d => rw [exists_child_assertion]; simp [elements]
  | _ => simp [elements, Env.child]

/-- the walked elements are exactly the elements at the positions -/
theorem mem_elements_iff_at {x e : Env} : x ∈ elements e ↔ ∃ p, e.at p = some x := by
  constructor
  · induction e using Env.induct_child with
    | H e ih =>
      intro hx
      rcases mem_elements_step.mp hx with rfl | ⟨st, c, hc, hxc⟩
      · exact ⟨[], rfl⟩
      · obtain ⟨p, hp⟩ := ih st c hc hxc
        exact ⟨st :: p, by rw [Env.at_cons_of_child hc]; exact hp⟩
  · rintro ⟨p, hp⟩; exact at_mem_elements hp

/-- **the walked digests are the digests at the positions** -/
theorem mem_walkDigests_iff {d : Digest} {e : Env} :
    d ∈ walkDigests e ↔ ∃ p x, e.at p = some x ∧ x.digest = d := by
  rw [walkDigests_eq_elements, List.mem_map]
  constructor
  · rintro ⟨x, hx, rfl⟩
    obtain ⟨p, hp⟩ := mem_elements_iff_at.mp hx
    exact ⟨p, x, hp, rfl⟩
  · rintro ⟨p, x, hp, rfl⟩
    exact ⟨x, mem_elements_iff_at.mpr ⟨p, hp⟩, rfl⟩

/-! ### `remove_all_found` is a filter -/

/-- the members of `T` that do not occur in `L` -/
def filtOut (T L : List Digest) : List Digest := T.filter (fun x => !L.contains x)

theorem filtOut_nil_right (T : List Digest) : filtOut T [] = T := by simp [filtOut]

theorem filtOut_nil_left (L : List Digest) : filtOut [] L = [] := rfl

theorem filtOut_append (T L1 L2 : List Digest) : filtOut T (L1 ++ L2) = filtOut (filtOut T L1) L2 := by
  simp only [filtOut, List.filter_filter]
  apply List.filter_congr
  intro x _
  simp [Bool.and_comm]

theorem filtOut_cons (T : List Digest) (d : Digest) (L : List Digest) :
    filtOut T (d :: L) = filtOut (T.filter (· != d)) L := by
  have : d :: L = [d] ++ L := rfl
  rw [this, filtOut_append]
  congr 1
  simp only [filtOut]
  apply List.filter_congr
  intro x _
  by_cases hx : x = d <;> simp [hx]

theorem filtOut_single (T : List Digest) (d : Digest) : filtOut T [d] = T.filter (· != d) := by
  rw [filtOut_cons, filtOut_nil_right]

theorem filtOut_isEmpty_iff (T L : List Digest) : (filtOut T L).isEmpty = true ↔ ∀ d ∈ T, d ∈ L := by
  simp [filtOut, List.isEmpty_iff, List.filter_eq_nil_iff]

mutual
theorem removeAllFound_eq : (e : Env) → (T : List Digest) →
    removeAllFound T e = filtOut T ((elements e).map Env.digest)
  | .node s as d, T => by
    simp only [removeAllFound, elements, List.map_cons, List.map_append, Env.digest]
    rw [filtOut_cons, filtOut_append, ← removeAllFound_eq s, ← removeAllFoundList_eq as]
    split
    · rename_i he
      rw [List.isEmpty_iff] at he
      rw [he, removeAllFound_eq s, filtOut_nil_left, removeAllFoundList_eq as, filtOut_nil_left]
    · rfl
  | .wrapped e d, T => by
    simp only [removeAllFound, elements, List.map_cons, Env.digest]
    rw [filtOut_cons, ← removeAllFound_eq e]
    split
    · rename_i he
      rw [List.isEmpty_iff] at he
      rw [he, removeAllFound_eq e, filtOut_nil_left]
    · rfl
  | .assertion p o d, T => by
    simp only [removeAllFound, elements, List.map_cons, List.map_append, Env.digest]
    rw [filtOut_cons, filtOut_append, ← removeAllFound_eq p, ← removeAllFound_eq o]
    split
    · rename_i he
      rw [List.isEmpty_iff] at he
      rw [he, removeAllFound_eq p, filtOut_nil_left, removeAllFound_eq o, filtOut_nil_left]
    · rfl
  | .leaf c d, T => by simp only [removeAllFound, elements, List.map_cons, List.map_nil, filtOut_single, Env.digest]
  | .elided d, T => by simp only [removeAllFound, elements, List.map_cons, List.map_nil, filtOut_single, Env.digest]
  | .knownValue v d, T => by simp only [removeAllFound, elements, List.map_cons, List.map_nil, filtOut_single, Env.digest]
  | .encrypted m d, T => by simp only [removeAllFound, elements, List.map_cons, List.map_nil, filtOut_single, Env.digest]
  | .compressed c d, T => by simp only [removeAllFound, elements, List.map_cons, List.map_nil, filtOut_single, Env.digest]
theorem removeAllFoundList_eq : (as : List Env) → (T : List Digest) →
    removeAllFoundList T as = filtOut T ((elementsList as).map Env.digest)
  | [], T => by simp only [removeAllFoundList, elementsList, List.map_nil, filtOut_nil_right]
  | a :: as, T => by
    simp only [removeAllFoundList, elementsList, List.map_append]
    rw [filtOut_append, ← removeAllFound_eq a, ← removeAllFoundList_eq as]
end

theorem containsAll_iff_walk (p : Env) (T : List Digest) :
    containsAll p T = true ↔ ∀ d ∈ T, d ∈ walkDigests p := by
  rw [containsAll, removeAllFound_eq, filtOut_isEmpty_iff, walkDigests_eq_elements]

/-! ### the reveal set, by positions -/

theorem mem_revealSetsList {T cur : List Digest} {as : List Env} {d : Digest} :
    d ∈ revealSetsList T cur as ↔ ∃ a ∈ as, d ∈ revealSets T cur a := by
  induction as with
  | nil => simp [revealSetsList]
  | cons a as ih => simp [revealSetsList, ih]

/-- one step of `reveal_sets`, first output -/
theorem revealSets_step (T cur : List Digest) (e : Env) (d : Digest) :
    d ∈ revealSets T cur e ↔
      (memD T e.digest = true ∧ (d ∈ cur ∨ (True ∧ d = e.digest))) ∨
      ∃ st c, e.child st = some c ∧ d ∈ revealSets T (e.digest :: cur) c := by
  cases e with
  | node s as dg =>
    rw [exists_child_node]
    by_cases hm : memD T dg = true <;>
      simp [revealSets, mem_revealSetsList, Env.digest, hm, or_comm, or_assoc]
  | wrapped e dg =>
    rw [exists_child_wrapped]
    by_cases hm : memD T dg = true <;> simp [revealSets, Env.digest, hm, or_comm, or_assoc]
  | assertion p o dg =>
    rw [exists_child_assertion]
    by_cases hm : memD T dg = true <;> simp [revealSets, Env.digest, hm, or_comm, or_assoc]
  | leaf c dg => by_cases hm : memD T dg = true <;> simp [revealSets, Env.digest, Env.child, hm, or_comm]
  | elided dg => by_cases hm : memD T dg = true <;> simp [revealSets, Env.digest, Env.child, hm, or_comm]
  | knownValue v dg => by_cases hm : memD T dg = true <;> simp [revealSets, Env.digest, Env.child, hm, or_comm]
  | encrypted m dg => by_cases hm : memD T dg = true <;> simp [revealSets, Env.digest, Env.child, hm, or_comm]
  | compressed c dg => by_cases hm : memD T dg = true <;> simp [revealSets, Env.digest, Env.child, hm, or_comm]

/-- `OnPath incl e p d`: `d` is the digest of an element on the chain from the root to
position `p` — the end `p` itself counted only when `incl` holds -/
def OnPath (incl : Prop) (e : Env) (p : Path) (d : Digest) : Prop :=
  ∃ q y, q <+: p ∧ (incl ∨ q ≠ p) ∧ e.at q = some y ∧ y.digest = d

/-- what both outputs of `reveal_sets` compute: the digests in `cur` or on the chain to a
target position, provided there is a target position -/
def CollectSpec (incl : Prop) (T cur : List Digest) (e : Env) (d : Digest) : Prop :=
  ∃ p x, e.at p = some x ∧ memD T x.digest = true ∧ (d ∈ cur ∨ OnPath incl e p d)

/-- a traversal with the one-step behaviour of `reveal_sets` computes `CollectSpec` -/
theorem collect_spec (incl : Prop) (T : List Digest) (F : List Digest → Env → List Digest)
    (step : ∀ cur e d, d ∈ F cur e ↔
      (memD T e.digest = true ∧ (d ∈ cur ∨ (incl ∧ d = e.digest))) ∨
      ∃ st c, e.child st = some c ∧ d ∈ F (e.digest :: cur) c)
    (e : Env) : ∀ cur d, d ∈ F cur e ↔ CollectSpec incl T cur e d := by
  induction e using Env.induct_child with
  | H e ih =>
    intro cur d
    rw [step]
    constructor
    · rintro (⟨hm, hd⟩ | ⟨st, c, hc, hd⟩)
      · refine ⟨[], e, rfl, hm, ?_⟩
        rcases hd with hd | ⟨hi, rfl⟩
        · exact Or.inl hd
        · exact Or.inr ⟨[], e, List.prefix_refl _, Or.inl hi, rfl, rfl⟩
      · obtain ⟨p, x, hx, hm, hd⟩ := (ih st c hc _ d).mp hd
        refine ⟨st :: p, x, by rw [Env.at_cons_of_child hc]; exact hx, hm, ?_⟩
        rcases hd with hd | ⟨q, y, hq, hi, hy, rfl⟩
        · rcases List.mem_cons.mp hd with rfl | hd
          · exact Or.inr ⟨[], e, List.nil_prefix, Or.inr (by simp), rfl, rfl⟩
          · exact Or.inl hd
        · refine Or.inr ⟨st :: q, y, List.cons_prefix_cons.mpr ⟨rfl, hq⟩, ?_,
            by rw [Env.at_cons_of_child hc]; exact hy, rfl⟩
          rcases hi with hi | hi
          · exact Or.inl hi
          · exact Or.inr (by simpa using hi)
    · rintro ⟨p, x, hx, hm, hd⟩
      cases p with
      | nil =>
        simp only [Env.at_nil, Option.some.injEq] at hx; subst hx
        refine Or.inl ⟨hm, ?_⟩
        rcases hd with hd | ⟨q, y, hq, hi, hy, rfl⟩
        · exact Or.inl hd
        · have := List.prefix_nil.mp hq; subst this
          simp only [Env.at_nil, Option.some.injEq] at hy; subst hy
          rcases hi with hi | hi
          · exact Or.inr ⟨hi, rfl⟩
          · exact absurd rfl hi
      | cons st p =>
        obtain ⟨c, hc, hx'⟩ := Env.at_cons_some hx
        refine Or.inr ⟨st, c, hc, (ih st c hc _ d).mpr ⟨p, x, hx', hm, ?_⟩⟩
        rcases hd with hd | ⟨q, y, hq, hi, hy, rfl⟩
        · exact Or.inl (List.mem_cons_of_mem _ hd)
        · rcases List.prefix_cons_iff.mp hq with rfl | ⟨t, rfl, ht⟩
          · simp only [Env.at_nil, Option.some.injEq] at hy; subst hy
            exact Or.inl (List.mem_cons_self ..)
          · rw [Env.at_cons_of_child hc] at hy
            refine Or.inr ⟨t, y, ht, ?_, hy, rfl⟩
            rcases hi with hi | hi
            · exact Or.inl hi
            · exact Or.inr (by simpa using hi)

theorem revealSets_collect (T cur : List Digest) (e : Env) (d : Digest) :
    d ∈ revealSets T cur e ↔ CollectSpec True T cur e d :=
  collect_spec True T (revealSets T) (revealSets_step T) e cur d

/-! ### the part of the invariant the `elide` traversal needs -/

mutual
/-- `Canon` without the 32-byte requirement on declared digests and without the slot rule:
every node has at least one assertion and strictly ascending assertion digests -/
def Shape : Env → Prop
  | .node s as _ => Shape s ∧ ShapeList as ∧ as ≠ [] ∧ AscDigests as
  | .leaf _ _ => True
  | .wrapped e _ => Shape e
  | .assertion p o _ => Shape p ∧ Shape o
  | .elided _ => True
  | .knownValue _ _ => True
  | .encrypted _ _ => True
  | .compressed _ _ => True
def ShapeList : List Env → Prop
  | [] => True
  | a :: as => Shape a ∧ ShapeList as
end

mutual
theorem Canon.shape : (e : Env) → Canon e → Shape e
  | .node s as d, hc => by
    simp only [Canon] at hc
    simp only [Shape]
    exact ⟨Canon.shape s hc.1, CanonList.shape as hc.2.1, hc.2.2.1, hc.2.2.2.1⟩
  | .leaf .., _ => by simp only [Shape]
  | .wrapped e d, hc => by simp only [Canon] at hc; simp only [Shape]; exact Canon.shape e hc
  | .assertion p o d, hc => by
    simp only [Canon] at hc; simp only [Shape]; exact ⟨Canon.shape p hc.1, Canon.shape o hc.2⟩
  | .elided .., _ => by simp only [Shape]
  | .knownValue .., _ => by simp only [Shape]
  | .encrypted .., _ => by simp only [Shape]
  | .compressed .., _ => by simp only [Shape]
theorem CanonList.shape : (as : List Env) → CanonList as → ShapeList as
  | [], _ => by simp only [ShapeList]
  | a :: as, hc => by
    simp only [CanonList] at hc; simp only [ShapeList]
    exact ⟨Canon.shape a hc.1, CanonList.shape as hc.2⟩
end

theorem ascDigests_of_map_digest_eq {as as' : List Env} (hm : as'.map Env.digest = as.map Env.digest)
    (hs : AscDigests as) : AscDigests as' := by
  have key : ∀ l : List Env, AscDigests l ↔ (l.map Env.digest).Pairwise (fun a b => a.val < b.val) := by
    intro l; simp [AscDigests, List.pairwise_map]
  rw [key] at hs ⊢; rw [hm]; exact hs


/-! ### "a target lies strictly beneath", by positions -/

theorem hitList_iff {T : List Digest} {as : List Env} :
    hitList T as = true ↔ ∃ a ∈ as, memD T a.digest = true ∨ hasTargetBeneath T a = true := by
  induction as with
  | nil => simp [hitList]
  | cons a as ih => simp [hitList, ih, Bool.or_eq_true]

/-- one step of `has_target_beneath` -/
theorem hasTargetBeneath_step (T : List Digest) (e : Env) :
    hasTargetBeneath T e = true ↔
      ∃ st c, e.child st = some c ∧ (memD T c.digest = true ∨ hasTargetBeneath T c = true) := by
  cases e with
  | node s as dg =>
    rw [exists_child_node (P := fun c => memD T c.digest = true ∨ hasTargetBeneath T c = true)]
    simp [hasTargetBeneath, hitList_iff, Bool.or_eq_true]
  | wrapped e dg =>
    rw [exists_child_wrapped (P := fun c => memD T c.digest = true ∨ hasTargetBeneath T c = true)]
    simp [hasTargetBeneath, Bool.or_eq_true]
  | assertion p o dg =>
    rw [exists_child_assertion (P := fun c => memD T c.digest = true ∨ hasTargetBeneath T c = true)]
    simp [hasTargetBeneath, Bool.or_eq_true]
  | leaf c dg => simp [hasTargetBeneath, Env.child]
  | elided dg => simp [hasTargetBeneath, Env.child]
  | knownValue v dg => simp [hasTargetBeneath, Env.child]
  | encrypted m dg => simp [hasTargetBeneath, Env.child]
  | compressed c dg => simp [hasTargetBeneath, Env.child]

/-- `has_target_beneath` holds iff some position strictly below holds a target -/
theorem hasTargetBeneath_iff (T : List Digest) (e : Env) :
    hasTargetBeneath T e = true ↔
      ∃ st t y, e.at (st :: t) = some y ∧ memD T y.digest = true := by
  induction e using Env.induct_child with
  | H e ih =>
    rw [hasTargetBeneath_step]
    constructor
    · rintro ⟨st, c, hc, hm | hb⟩
      · exact ⟨st, [], c, by rw [Env.at_cons_of_child hc]; rfl, hm⟩
      · obtain ⟨st', t, y, hy, hm⟩ := (ih st c hc).mp hb
        exact ⟨st, st' :: t, y, by rw [Env.at_cons_of_child hc]; exact hy, hm⟩
    · rintro ⟨st, t, y, hy, hm⟩
      obtain ⟨c, hc, hy'⟩ := Env.at_cons_some hy
      refine ⟨st, c, hc, ?_⟩
      cases t with
      | nil => simp only [Env.at_nil, Option.some.injEq] at hy'; subst hy'; exact Or.inl hm
      | cons st' t => exact Or.inr ((ih st c hc).mpr ⟨st', t, y, hy', hm⟩)

/-! ### the proof construction as a pure function -/

mutual
/-- keep an element only where a target lies strictly beneath it; replace every other
element by its digest -/
def proofOf (T : List Digest) : Env → Env
  | .node s as d =>
    if hasTargetBeneath T (.node s as d) then .node (proofOf T s) (proofOfList T as) d else .elided d
  | .wrapped e d =>
    if hasTargetBeneath T (.wrapped e d) then .wrapped (proofOf T e) d else .elided d
  | .assertion p o d =>
    if hasTargetBeneath T (.assertion p o d) then .assertion (proofOf T p) (proofOf T o) d
    else .elided d
  | .leaf _ d => .elided d
  | .elided d => .elided d
  | .knownValue _ d => .elided d
  | .encrypted _ d => .elided d
  | .compressed _ d => .elided d
def proofOfList (T : List Digest) : List Env → List Env
  | [] => []
  | a :: as => proofOf T a :: proofOfList T as
end

theorem proofOfList_eq_map (T : List Digest) (as : List Env) :
    proofOfList T as = as.map (proofOf T) := by
  induction as with
  | nil => rfl
  | cons a as ih => simp [proofOfList, ih]

theorem proofOf_digest (T : List Digest) (e : Env) : (proofOf T e).digest = e.digest := by
  cases e <;> simp only [proofOf] <;> (try split) <;> rfl

theorem proofOfList_map_digest (T : List Digest) (as : List Env) :
    (proofOfList T as).map Env.digest = as.map Env.digest := by
  rw [proofOfList_eq_map, List.map_map]
  apply List.map_congr_left
  intro a _; exact proofOf_digest T a

theorem proofOf_miss {T : List Digest} {e : Env} (hb : hasTargetBeneath T e = false) :
    proofOf T e = .elided e.digest := by
  cases e <;> first | rfl | (simp only [proofOf, hb, Bool.false_eq_true, if_false, Env.digest])

/-- the proof shows an element non-elided exactly where a target lies strictly beneath -/
theorem proofOf_isElided (T : List Digest) (e : Env) :
    (proofOf T e).isElided = !hasTargetBeneath T e := by
  cases hb : hasTargetBeneath T e with
  | false => rw [proofOf_miss hb]; rfl
  | true =>
    cases e <;> first | (simp [hasTargetBeneath] at hb; done) | (simp only [proofOf, hb, if_true]; rfl)

/-- the proof never carries a leaf, a known value, an encrypted or a compressed element:
nothing but shallow structure and digests -/
theorem proofOf_cases (T : List Digest) (e : Env) :
    (proofOf T e).isElided = true ∨ (proofOf T e).isInternal = true := by
  cases e <;> simp only [proofOf] <;> (try split) <;>
    simp [Env.isElided, Env.isInternal, Env.isNode, Env.isWrapped, Env.isAssertion]

theorem proofOf_child (T : List Digest) (e : Env) (st : Step) :
    (proofOf T e).child st =
      if hasTargetBeneath T e then (e.child st).map (proofOf T) else none := by
  cases hb : hasTargetBeneath T e with
  | false => rw [proofOf_miss hb]; rfl
  | true =>
    cases e <;> first
      | (simp [hasTargetBeneath] at hb; done)
      | (cases st <;> simp [proofOf, hb, Env.child, proofOfList_eq_map])

/-- every element strictly above position `p` has a target strictly beneath it -/
def OpenAbove (T : List Digest) (e : Env) (p : Path) : Prop :=
  ∀ q z, q <+: p → q ≠ p → e.at q = some z → hasTargetBeneath T z = true

theorem openAbove_nil (T : List Digest) (e : Env) : OpenAbove T e [] := by
  intro q z hq hne; exact absurd (List.prefix_nil.mp hq) hne

theorem openAbove_cons {T : List Digest} {e c : Env} {st : Step} (hc : e.child st = some c)
    (p : Path) : OpenAbove T e (st :: p) ↔ hasTargetBeneath T e = true ∧ OpenAbove T c p := by
  constructor
  · intro hn
    refine ⟨hn [] e List.nil_prefix (by simp) rfl, ?_⟩
    intro q z hq hne hz
    exact hn (st :: q) z (List.cons_prefix_cons.mpr ⟨rfl, hq⟩) (by simpa using hne)
      (by rw [Env.at_cons_of_child hc]; exact hz)
  · rintro ⟨he, hn⟩ q z hq hne hz
    rcases List.prefix_cons_iff.mp hq with rfl | ⟨t, rfl, ht⟩
    · simp at hz; subst hz; exact he
    · rw [Env.at_cons_of_child hc] at hz
      exact hn t z ht (by simpa using hne) hz

/-- the positions of the proof: the positions of the envelope all of whose strict ancestors
have a target beneath them; the element there is the proof of the element there -/
theorem proofOf_at_iff {T : List Digest} {e x : Env} {p : Path} :
    (proofOf T e).at p = some x ↔ ∃ y, e.at p = some y ∧ x = proofOf T y ∧ OpenAbove T e p := by
  induction p generalizing e with
  | nil =>
    constructor
    · intro hx; simp at hx; subst hx; exact ⟨e, rfl, rfl, openAbove_nil T e⟩
    · rintro ⟨y, hy, rfl, _⟩; simp at hy; subst hy; rfl
  | cons st p ih =>
    constructor
    · intro hx
      obtain ⟨c', hc', hx'⟩ := Env.at_cons_some hx
      rw [proofOf_child] at hc'
      cases hb : hasTargetBeneath T e with
      | false => simp [hb] at hc'
      | true =>
        simp only [hb, if_true, Option.map_eq_some_iff] at hc'
        obtain ⟨c, hc, rfl⟩ := hc'
        obtain ⟨y, hy, hxy, hn⟩ := ih.mp hx'
        exact ⟨y, by rw [Env.at_cons_of_child hc]; exact hy, hxy, (openAbove_cons hc p).mpr ⟨hb, hn⟩⟩
    · rintro ⟨y, hy, rfl, hn⟩
      obtain ⟨c, hc, hy'⟩ := Env.at_cons_some hy
      obtain ⟨hb, hn'⟩ := (openAbove_cons hc p).mp hn
      have hcc : (proofOf T e).child st = some (proofOf T c) := by
        rw [proofOf_child, hb, hc]; rfl
      rw [Env.at_cons_of_child hcc]
      exact ih.mpr ⟨y, hy', rfl, hn'⟩

/-! ### `revealing_paths_to` is `proofOf` -/

section
variable (h : Hash) (T : List Digest)

theorem elide_eq_elided (e : Env) : elide e = .elided e.digest := by cases e <;> rfl

mutual
theorem revealingPathsTo_eq : (e : Env) → WF h e → Shape e →
    revealingPathsTo h T e = .ok (proofOf T e)
  | .node s as d, hw, hs => by
    simp only [revealingPathsTo, proofOf]
    cases hb : hasTargetBeneath T (.node s as d) with
    | false => simp only [Bool.not_false, if_true, elide_eq_elided, Env.digest, Bool.false_eq_true, if_false]
    | true =>
      simp only [WF] at hw
      simp only [Shape] at hs
      simp only [Bool.not_true, Bool.false_eq_true, if_false, if_true]
      rw [revealingPathsTo_eq s hw.1 hs.1, revealingPathsToList_eq as hw.2.1 hs.2.1]
      have hne : (proofOfList T as).isEmpty = false := by
        rw [proofOfList_eq_map]
        cases as with
        | nil => exact absurd rfl hs.2.2.1
        | cons a as => rfl
      have hasc := ascDigests_of_map_digest_eq (proofOfList_map_digest T as) hs.2.2.2
      simp only [newNodeUnchecked, hne, Bool.false_eq_true, if_false, mkNode, sortByDigest_of_asc hasc,
        proofOf_digest, proofOfList_map_digest, ← hw.2.2]
  | .wrapped e d, hw, hs => by
    simp only [revealingPathsTo, proofOf]
    cases hb : hasTargetBeneath T (.wrapped e d) with
    | false => simp only [Bool.not_false, if_true, elide_eq_elided, Env.digest, Bool.false_eq_true, if_false]
    | true =>
      simp only [WF] at hw
      simp only [Shape] at hs
      simp only [Bool.not_true, Bool.false_eq_true, if_false, if_true]
      rw [revealingPathsTo_eq e hw.1 hs]
      simp only [newWrapped, proofOf_digest, ← hw.2]
  | .assertion p o d, hw, hs => by
    simp only [revealingPathsTo, proofOf]
    cases hb : hasTargetBeneath T (.assertion p o d) with
    | false => simp only [Bool.not_false, if_true, elide_eq_elided, Env.digest, Bool.false_eq_true, if_false]
    | true =>
      simp only [WF] at hw
      simp only [Shape] at hs
      simp only [Bool.not_true, Bool.false_eq_true, if_false, if_true]
      rw [revealingPathsTo_eq p hw.1 hs.1, revealingPathsTo_eq o hw.2.1 hs.2]
      simp only [newAssertion, proofOf_digest, ← hw.2.2]
  | .leaf c d, _, _ => by simp only [revealingPathsTo, proofOf, elide_eq_elided, Env.digest]
  | .elided d, _, _ => by simp only [revealingPathsTo, proofOf, elide_eq_elided, Env.digest]
  | .knownValue v d, _, _ => by simp only [revealingPathsTo, proofOf, elide_eq_elided, Env.digest]
  | .encrypted m d, _, _ => by simp only [revealingPathsTo, proofOf, elide_eq_elided, Env.digest]
  | .compressed c d, _, _ => by simp only [revealingPathsTo, proofOf, elide_eq_elided, Env.digest]
theorem revealingPathsToList_eq : (as : List Env) → WFList h as → ShapeList as →
    revealingPathsToList h T as = .ok (proofOfList T as)
  | [], _, _ => by simp only [revealingPathsToList, proofOfList]
  | a :: as, hw, hs => by
    simp only [WFList] at hw
    simp only [ShapeList] at hs
    simp only [revealingPathsToList, proofOfList]
    rw [revealingPathsTo_eq a hw.1 hs.1, revealingPathsToList_eq as hw.2 hs.2]
end

theorem proofContainsSet_eq (e : Env) (hw : WF h e) (hs : Shape e) :
    proofContainsSet h e T =
      if T.all (memD (revealSets T [] e)) then .ok (some (proofOf T e)) else .ok none := by
  simp only [proofContainsSet]
  by_cases hall : T.all (memD (revealSets T [] e)) = true
  · simp only [hall, Bool.not_true, Bool.false_eq_true, if_false, if_true]
    rw [revealingPathsTo_eq h T e hw hs]
  · simp [hall]

end

/-! ### targets, reveal set, walk -/

theorem mem_reveal_iff {T : List Digest} {e : Env} {d : Digest} :
    d ∈ revealSets T [] e ↔
      ∃ p x, e.at p = some x ∧ memD T x.digest = true ∧
        ∃ q y, q <+: p ∧ e.at q = some y ∧ y.digest = d := by
  rw [revealSets_collect]
  simp [CollectSpec, OnPath]

theorem targets_subset_iff_walk (T : List Digest) (e : Env) :
    (∀ d ∈ T, memD (revealSets T [] e) d = true) ↔ ∀ d ∈ T, d ∈ walkDigests e := by
  constructor
  · intro hall d hd
    obtain ⟨p, x, _, _, q, y, _, hy, hyd⟩ := mem_reveal_iff.mp ((memD_iff _ _).mp (hall d hd))
    exact mem_walkDigests_iff.mpr ⟨q, y, hy, hyd⟩
  · intro hall d hd
    obtain ⟨p, x, hx, hxd⟩ := mem_walkDigests_iff.mp (hall d hd)
    apply (memD_iff _ _).mpr
    exact mem_reveal_iff.mpr ⟨p, x, hx, (memD_iff _ _).mpr (hxd ▸ hd), p, x, List.prefix_refl _, hx, hxd⟩

theorem all_memD_iff (T L : List Digest) : T.all (memD L) = true ↔ ∀ d ∈ T, memD L d = true := by
  simp [List.all_eq_true]


/-! ### target positions -/

/-- a position of `e` holding an element whose digest is a target -/
def IsTargetPos (T : List Digest) (e : Env) (t : Path) : Prop :=
  ∃ y, e.at t = some y ∧ memD T y.digest = true

/-- position `p` lies strictly above a target position of `e` -/
def AboveTarget (T : List Digest) (e : Env) (p : Path) : Prop :=
  ∃ t, p <+: t ∧ p ≠ t ∧ IsTargetPos T e t

/-- the element at a position has a target strictly beneath it iff the position lies
strictly above a target position -/
theorem hasTargetBeneath_at_iff {T : List Digest} {e y : Env} {p : Path} (hy : e.at p = some y) :
    hasTargetBeneath T y = true ↔ AboveTarget T e p := by
  rw [hasTargetBeneath_iff]
  constructor
  · rintro ⟨st, t, w, hw, hm⟩
    refine ⟨p ++ st :: t, ⟨st :: t, rfl⟩, ?_, w, ?_, hm⟩
    · intro heq
      have := congrArg List.length heq
      simp at this
    · rw [Env.at_append, hy]; exact hw
  · rintro ⟨t, ⟨r, rfl⟩, hne, w, hw, hm⟩
    cases r with
    | nil => simp at hne
    | cons st r =>
      rw [Env.at_append, hy] at hw
      exact ⟨st, r, w, hw, hm⟩

/-- everything strictly above a target position is open -/
theorem openAbove_of_target {T : List Digest} {e : Env} {t : Path} (ht : IsTargetPos T e t) :
    OpenAbove T e t := by
  intro q z hq hne hz
  apply (hasTargetBeneath_at_iff hz).mpr
  exact ⟨t, hq, hne, ht⟩

/-- every target position of the envelope is a position of the proof, with the target's
digest -/
theorem target_pos_in_proof {T : List Digest} {e : Env} {t : Path} (ht : IsTargetPos T e t) :
    ∃ x, (proofOf T e).at t = some x ∧ memD T x.digest = true := by
  obtain ⟨y, hy, hm⟩ := ht
  exact ⟨proofOf T y, proofOf_at_iff.mpr ⟨y, hy, rfl, openAbove_of_target ⟨y, hy, hm⟩⟩,
    by rw [proofOf_digest]; exact hm⟩

theorem target_in_proof {T : List Digest} {e : Env} {d : Digest} (hdT : d ∈ T)
    (hd : d ∈ walkDigests e) : d ∈ walkDigests (proofOf T e) := by
  obtain ⟨p, y, hy, hyd⟩ := mem_walkDigests_iff.mp hd
  have ht : IsTargetPos T e p := ⟨y, hy, (memD_iff _ _).mpr (hyd ▸ hdT)⟩
  refine mem_walkDigests_iff.mpr ⟨p, proofOf T y, ?_, by rw [proofOf_digest]; exact hyd⟩
  exact proofOf_at_iff.mpr ⟨y, hy, rfl, openAbove_of_target ht⟩

/-! ### samples (a toy hash keeps the digests small; the theorems hold for every hash) -/

namespace C12Sample

/-- toy hash: the sum of the bytes -/
def sumH : Hash := ⟨fun b => ⟨b.foldl (fun a x => a + x.toNat) 0⟩⟩

def trivA : Aead := ⟨fun _ _ _ _ => ([], []), fun _ _ _ _ _ => none⟩
def trivZ : Deflate := ⟨id, some, fun _ => 0⟩

def lf (n : Nat) : Env := newLeaf sumH (.uint n)
/-- `1: 2`, digest 3 -/
def a1 : Env := newAssertion sumH (lf 1) (lf 2)
/-- `1: 4`, digest 5 -/
def a2 : Env := newAssertion sumH (lf 1) (lf 4)
/-- `7 [1: 2, 1: 4]`, digest 15 -/
def e0 : Env := .node (lf 7) [a1, a2] (sumH.ofDigests ((lf 7).digest :: [a1, a2].map Env.digest))
/-- targets: the leaf `2`, the assertion `1: 2` that contains it, and the leaf `4` -/
def T0 : List Digest := [⟨2⟩, ⟨3⟩, ⟨4⟩]

theorem a1_digest : a1.digest = ⟨3⟩ := by decide +kernel
theorem a2_digest : a2.digest = ⟨5⟩ := by decide +kernel
theorem e0_digest : e0.digest = ⟨15⟩ := by decide +kernel

theorem wf_a1 : WF sumH a1 := by simp only [a1, lf, newAssertion, newLeaf, WF, and_self]
theorem wf_a2 : WF sumH a2 := by simp only [a2, lf, newAssertion, newLeaf, WF, and_self]
theorem canon_a1 : Canon a1 := by simp only [a1, lf, newAssertion, newLeaf, Canon, and_self]
theorem canon_a2 : Canon a2 := by simp only [a2, lf, newAssertion, newLeaf, Canon, and_self]

theorem inv_e0 : Inv sumH e0 := by
  refine ⟨?_, ?_⟩
  · simp only [e0, WF, WFList, wf_a1, wf_a2, and_true]
    simp only [lf, newLeaf, WF]
  · have hasc : AscDigests [a1, a2] := by
      simp only [AscDigests, List.pairwise_cons, List.mem_cons, List.not_mem_nil, or_false,
        forall_eq, a1_digest, a2_digest, List.Pairwise.nil, and_true, false_imp_iff, implies_true]
      decide
    have hslot : ∀ a ∈ [a1, a2], a.slotOk = true := by
      intro a ha
      simp only [List.mem_cons, List.not_mem_nil, or_false] at ha
      rcases ha with rfl | rfl <;> rfl
    simp only [e0, Canon, CanonList]
    exact ⟨by simp only [lf, newLeaf, Canon], ⟨canon_a1, canon_a2, trivial⟩, by simp, hasc, hslot⟩

theorem all_e0 : T0.all (memD (revealSets T0 [] e0)) = true := by decide +kernel
theorem proof_e0 :
    proofContainsSet sumH e0 T0 = .ok (some (proofOf T0 e0)) := by
  rw [proofContainsSet_eq sumH T0 e0 inv_e0.1 (Canon.shape e0 inv_e0.2), all_e0]; rfl

/-- the shape of the repaired finding F5b: the subject is a compressed element carrying the
digest of the assertion `1: 2` (an obscured copy of an element on the path to the target) -/
def eB : Env :=
  .node (.compressed ⟨0, 0, []⟩ ⟨3⟩) [a1] (sumH.ofDigests (⟨3⟩ :: [a1].map Env.digest))
def TB : List Digest := [⟨2⟩]

theorem inv_eB : Inv sumH eB := by
  refine ⟨?_, ?_⟩
  · simp only [eB, WF, WFList, wf_a1, and_true, Env.digest]
  · simp only [eB, Canon, CanonList, canon_a1, and_true, true_and]
    refine ⟨by simp [Digest.Valid], by simp, by simp [AscDigests], ?_⟩
    intro a ha
    simp only [List.mem_cons, List.not_mem_nil, or_false] at ha
    subst ha; rfl

theorem all_eB : TB.all (memD (revealSets TB [] eB)) = true := by decide +kernel

/-- the compressed subject is elided in the proof: only the path `root -> 1: 2 -> 2` shows -/
theorem proof_eB : proofOf TB eB =
    .node (.elided ⟨3⟩) [.assertion (.elided ⟨1⟩) (.elided ⟨2⟩) ⟨3⟩] eB.digest := by
  set_option maxRecDepth 100000 in rfl

/-- `WF` alone is not enough: a node with an empty assertion list (never produced by the
library) makes the rebuilding `assert!` fire -/
def eP : Env := .node (.leaf (.uint 7) ⟨7⟩) [] ⟨7⟩

theorem wf_eP : WF sumH eP := by
  simp only [eP, WF, WFList, List.map_nil, Env.digest, true_and]
  exact ⟨by decide +kernel, by decide +kernel⟩

theorem proofContainsSet_eP :
    proofContainsSet sumH eP [⟨7⟩] = .panic "envelope.rs:new_with_unchecked_assertions:assert" := by
  have hR : memD (revealSets [⟨7⟩] [] eP) ⟨7⟩ = true := by decide +kernel
  simp only [proofContainsSet, List.all_cons, List.all_nil, hR, Bool.and_true, Bool.not_true,
    Bool.false_eq_true, if_false]
  have h1 : revealingPathsTo sumH [⟨7⟩] eP
      = .panic "envelope.rs:new_with_unchecked_assertions:assert" := by
    simp [eP, revealingPathsTo, revealingPathsToList, hasTargetBeneath, hitList, newNodeUnchecked,
      memD, elide, Env.digest]
  rw [h1]

end C12Sample

end EnvVerif
