/-
  Lemmas/ProofLemmas.lean — helper lemmas for C12 (inclusion proofs): membership form of
  the digest sets, the walk as a set of positions, `remove_all_found` as a filter, the
  reveal / interior sets described by positions, the `elide` traversal as a pure pruning
  function, positions of a pruned envelope.
-/
import EnvVerif.Lemmas.Paths
namespace EnvVerif
open Env

/-! ### `memD` -/

theorem memD_iff (L : List Digest) (d : Digest) : memD L d = true ↔ d ∈ L := by
  simp [memD]

theorem memD_false_iff (L : List Digest) (d : Digest) : memD L d = false ↔ d ∉ L := by
  rw [← memD_iff]; simp

/-! ### children of an element, one constructor at a time -/

theorem exists_child_node {P : Env → Prop} (s : Env) (as : List Env) (d : Digest) :
    (∃ st c, (Env.node s as d).child st = some c ∧ P c) ↔ P s ∨ ∃ a ∈ as, P a := by
  constructor
  · rintro ⟨st, c, hc, hp⟩
    cases st <;> simp only [Env.child, reduceCtorEq] at hc
    · cases hc; exact Or.inl hp
    · exact Or.inr ⟨c, List.mem_of_getElem? hc, hp⟩
  · rintro (hp | ⟨a, ha, hp⟩)
    · exact ⟨.subj, s, rfl, hp⟩
    · obtain ⟨i, hi, rfl⟩ := List.getElem_of_mem ha
      exact ⟨.assertion i, _, by simp [Env.child, hi], hp⟩

theorem exists_child_wrapped {P : Env → Prop} (e : Env) (d : Digest) :
    (∃ st c, (Env.wrapped e d).child st = some c ∧ P c) ↔ P e := by
  constructor
  · rintro ⟨st, c, hc, hp⟩
    cases st <;> simp only [Env.child, reduceCtorEq] at hc
    cases hc; exact hp
  · intro hp; exact ⟨.inner, e, rfl, hp⟩

theorem exists_child_assertion {P : Env → Prop} (p o : Env) (d : Digest) :
    (∃ st c, (Env.assertion p o d).child st = some c ∧ P c) ↔ P p ∨ P o := by
  constructor
  · rintro ⟨st, c, hc, hp⟩
    cases st <;> simp only [Env.child, reduceCtorEq] at hc
    · cases hc; exact Or.inl hp
    · cases hc; exact Or.inr hp
  · rintro (hp | hp)
    · exact ⟨.pred, p, rfl, hp⟩
    · exact ⟨.obj, o, rfl, hp⟩

theorem child_none_of_atom {e : Env} (hn : e.isInternal = false) (st : Step) : e.child st = none := by
  cases e <;> simp [Env.isInternal, Env.isNode, Env.isWrapped, Env.isAssertion] at hn <;> cases st <;> rfl

/-! ### the walk as a set of positions -/

mutual
theorem walkStructure_map_digest : (e : Env) → (lvl : Nat) → (edge : Edge) →
    (walkStructure e lvl edge).map (fun v => v.1.digest) = (elements e).map Env.digest
  | .node s as d, lvl, edge => by
    simp [walkStructure, elements, walkStructure_map_digest s, walkStructureList_map_digest as]
  | .wrapped e d, lvl, edge => by simp [walkStructure, elements, walkStructure_map_digest e]
  | .assertion p o d, lvl, edge => by
    simp [walkStructure, elements, walkStructure_map_digest p, walkStructure_map_digest o]
  | .leaf .., _, _ => by simp [walkStructure, elements]
  | .elided .., _, _ => by simp [walkStructure, elements]
  | .knownValue .., _, _ => by simp [walkStructure, elements]
  | .encrypted .., _, _ => by simp [walkStructure, elements]
  | .compressed .., _, _ => by simp [walkStructure, elements]
theorem walkStructureList_map_digest : (as : List Env) → (lvl : Nat) →
    (walkStructureList as lvl).map (fun v => v.1.digest) = (elementsList as).map Env.digest
  | [], _ => by simp [walkStructureList, elementsList]
  | a :: as, lvl => by
    simp [walkStructureList, elementsList, walkStructure_map_digest a, walkStructureList_map_digest as]
end

theorem walkDigests_eq_elements (e : Env) : walkDigests e = (elements e).map Env.digest :=
  walkStructure_map_digest e 0 .none

theorem mem_elementsList {x : Env} {as : List Env} :
    x ∈ elementsList as ↔ ∃ a ∈ as, x ∈ elements a := by
  induction as with
  | nil => simp [elementsList]
  | cons a as ih => simp [elementsList, ih]

/-- one step of the structure walk -/
theorem mem_elements_step {x e : Env} :
    x ∈ elements e ↔ x = e ∨ ∃ st c, e.child st = some c ∧ x ∈ elements c := by
  cases e with
  | node s as d => rw [exists_child_node]; simp [elements, mem_elementsList]
  | wrapped e d => rw [exists_child_wrapped]; simp [elements]
  | assertion p o d => rw [exists_child_assertion]; simp [elements]
  | _ => simp [elements, Env.child]

/-- the walked elements are exactly the elements at the positions -/
theorem mem_elements_iff_at {x e : Env} : x ∈ elements e ↔ ∃ p, e.at p = some x := by
  constructor
  · induction e using Env.induct_child with
    | H e ih =>
      intro hx
      rcases mem_elements_step.mp hx with rfl | ⟨st, c, hc, hxc⟩
      · exact ⟨[], rfl⟩
      · obtain ⟨p, hp⟩ := ih st c hc hxc
        exact ⟨st :: p, by rw [Env.at_cons_of_child hc]; exact hp⟩
  · rintro ⟨p, hp⟩; exact at_mem_elements hp

/-- **the walked digests are the digests at the positions** -/
theorem mem_walkDigests_iff {d : Digest} {e : Env} :
    d ∈ walkDigests e ↔ ∃ p x, e.at p = some x ∧ x.digest = d := by
  rw [walkDigests_eq_elements, List.mem_map]
  constructor
  · rintro ⟨x, hx, rfl⟩
    obtain ⟨p, hp⟩ := mem_elements_iff_at.mp hx
    exact ⟨p, x, hp, rfl⟩
  · rintro ⟨p, x, hp, rfl⟩
    exact ⟨x, mem_elements_iff_at.mpr ⟨p, hp⟩, rfl⟩

/-! ### `remove_all_found` is a filter -/

/-- the members of `T` that do not occur in `L` -/
def filtOut (T L : List Digest) : List Digest := T.filter (fun x => !L.contains x)

theorem filtOut_nil_right (T : List Digest) : filtOut T [] = T := by simp [filtOut]

theorem filtOut_nil_left (L : List Digest) : filtOut [] L = [] := rfl

theorem filtOut_append (T L1 L2 : List Digest) : filtOut T (L1 ++ L2) = filtOut (filtOut T L1) L2 := by
  simp only [filtOut, List.filter_filter]
  apply List.filter_congr
  intro x _
  simp [Bool.and_comm]

theorem filtOut_cons (T : List Digest) (d : Digest) (L : List Digest) :
    filtOut T (d :: L) = filtOut (T.filter (· != d)) L := by
  have : d :: L = [d] ++ L := rfl
  rw [this, filtOut_append]
  congr 1
  simp only [filtOut]
  apply List.filter_congr
  intro x _
  by_cases hx : x = d <;> simp [hx]

theorem filtOut_single (T : List Digest) (d : Digest) : filtOut T [d] = T.filter (· != d) := by
  rw [filtOut_cons, filtOut_nil_right]

theorem filtOut_isEmpty_iff (T L : List Digest) : (filtOut T L).isEmpty = true ↔ ∀ d ∈ T, d ∈ L := by
  simp [filtOut, List.isEmpty_iff, List.filter_eq_nil_iff]

mutual
theorem removeAllFound_eq : (e : Env) → (T : List Digest) →
    removeAllFound T e = filtOut T ((elements e).map Env.digest)
  | .node s as d, T => by
    simp only [removeAllFound, elements, List.map_cons, List.map_append, Env.digest]
    rw [filtOut_cons, filtOut_append, ← removeAllFound_eq s, ← removeAllFoundList_eq as]
    split
    · rename_i he
      rw [List.isEmpty_iff] at he
      rw [he, removeAllFound_eq s, filtOut_nil_left, removeAllFoundList_eq as, filtOut_nil_left]
    · rfl
  | .wrapped e d, T => by
    simp only [removeAllFound, elements, List.map_cons, Env.digest]
    rw [filtOut_cons, ← removeAllFound_eq e]
    split
    · rename_i he
      rw [List.isEmpty_iff] at he
      rw [he, removeAllFound_eq e, filtOut_nil_left]
    · rfl
  | .assertion p o d, T => by
    simp only [removeAllFound, elements, List.map_cons, List.map_append, Env.digest]
    rw [filtOut_cons, filtOut_append, ← removeAllFound_eq p, ← removeAllFound_eq o]
    split
    · rename_i he
      rw [List.isEmpty_iff] at he
      rw [he, removeAllFound_eq p, filtOut_nil_left, removeAllFound_eq o, filtOut_nil_left]
    · rfl
  | .leaf c d, T => by simp only [removeAllFound, elements, List.map_cons, List.map_nil, filtOut_single, Env.digest]
  | .elided d, T => by simp only [removeAllFound, elements, List.map_cons, List.map_nil, filtOut_single, Env.digest]
  | .knownValue v d, T => by simp only [removeAllFound, elements, List.map_cons, List.map_nil, filtOut_single, Env.digest]
  | .encrypted m d, T => by simp only [removeAllFound, elements, List.map_cons, List.map_nil, filtOut_single, Env.digest]
  | .compressed c d, T => by simp only [removeAllFound, elements, List.map_cons, List.map_nil, filtOut_single, Env.digest]
theorem removeAllFoundList_eq : (as : List Env) → (T : List Digest) →
    removeAllFoundList T as = filtOut T ((elementsList as).map Env.digest)
  | [], T => by simp only [removeAllFoundList, elementsList, List.map_nil, filtOut_nil_right]
  | a :: as, T => by
    simp only [removeAllFoundList, elementsList, List.map_append]
    rw [filtOut_append, ← removeAllFound_eq a, ← removeAllFoundList_eq as]
end

theorem containsAll_iff_walk (p : Env) (T : List Digest) :
    containsAll p T = true ↔ ∀ d ∈ T, d ∈ walkDigests p := by
  rw [containsAll, removeAllFound_eq, filtOut_isEmpty_iff, walkDigests_eq_elements]

/-! ### the reveal set and the interior set, by positions -/

theorem mem_revealSetsList {T cur : List Digest} {as : List Env} {d : Digest} :
    d ∈ revealSetsList T cur as ↔ ∃ a ∈ as, d ∈ revealSets T cur a := by
  induction as with
  | nil => simp [revealSetsList]
  | cons a as ih => simp [revealSetsList, ih]

theorem mem_interiorSetsList {T cur : List Digest} {as : List Env} {d : Digest} :
    d ∈ interiorSetsList T cur as ↔ ∃ a ∈ as, d ∈ interiorSets T cur a := by
  induction as with
  | nil => simp [interiorSetsList]
  | cons a as ih => simp [interiorSetsList, ih]

/-- one step of `reveal_sets`, first output -/
theorem revealSets_step (T cur : List Digest) (e : Env) (d : Digest) :
    d ∈ revealSets T cur e ↔
      (memD T e.digest = true ∧ (d ∈ cur ∨ (True ∧ d = e.digest))) ∨
      ∃ st c, e.child st = some c ∧ d ∈ revealSets T (e.digest :: cur) c := by
  cases e with
  | node s as dg =>
    rw [exists_child_node]
    by_cases hm : memD T dg = true <;>
      simp [revealSets, mem_revealSetsList, Env.digest, hm, or_comm, or_assoc]
  | wrapped e dg =>
    rw [exists_child_wrapped]
    by_cases hm : memD T dg = true <;> simp [revealSets, Env.digest, hm, or_comm, or_assoc]
  | assertion p o dg =>
    rw [exists_child_assertion]
    by_cases hm : memD T dg = true <;> simp [revealSets, Env.digest, hm, or_comm, or_assoc]
  | leaf c dg => by_cases hm : memD T dg = true <;> simp [revealSets, Env.digest, Env.child, hm, or_comm]
  | elided dg => by_cases hm : memD T dg = true <;> simp [revealSets, Env.digest, Env.child, hm, or_comm]
  | knownValue v dg => by_cases hm : memD T dg = true <;> simp [revealSets, Env.digest, Env.child, hm, or_comm]
  | encrypted m dg => by_cases hm : memD T dg = true <;> simp [revealSets, Env.digest, Env.child, hm, or_comm]
  | compressed c dg => by_cases hm : memD T dg = true <;> simp [revealSets, Env.digest, Env.child, hm, or_comm]

/-- one step of `reveal_sets`, second output -/
theorem interiorSets_step (T cur : List Digest) (e : Env) (d : Digest) :
    d ∈ interiorSets T cur e ↔
      (memD T e.digest = true ∧ (d ∈ cur ∨ (False ∧ d = e.digest))) ∨
      ∃ st c, e.child st = some c ∧ d ∈ interiorSets T (e.digest :: cur) c := by
  cases e with
  | node s as dg =>
    rw [exists_child_node]
    by_cases hm : memD T dg = true <;>
      simp [interiorSets, mem_interiorSetsList, Env.digest, hm]
  | wrapped e dg =>
    rw [exists_child_wrapped]
    by_cases hm : memD T dg = true <;> simp [interiorSets, Env.digest, hm]
  | assertion p o dg =>
    rw [exists_child_assertion]
    by_cases hm : memD T dg = true <;> simp [interiorSets, Env.digest, hm]
  | leaf c dg => by_cases hm : memD T dg = true <;> simp [interiorSets, Env.digest, Env.child, hm]
  | elided dg => by_cases hm : memD T dg = true <;> simp [interiorSets, Env.digest, Env.child, hm]
  | knownValue v dg => by_cases hm : memD T dg = true <;> simp [interiorSets, Env.digest, Env.child, hm]
  | encrypted m dg => by_cases hm : memD T dg = true <;> simp [interiorSets, Env.digest, Env.child, hm]
  | compressed c dg => by_cases hm : memD T dg = true <;> simp [interiorSets, Env.digest, Env.child, hm]

/-- `OnPath incl e p d`: `d` is the digest of an element on the chain from the root to
position `p` — the end `p` itself counted only when `incl` holds -/
def OnPath (incl : Prop) (e : Env) (p : Path) (d : Digest) : Prop :=
  ∃ q y, q <+: p ∧ (incl ∨ q ≠ p) ∧ e.at q = some y ∧ y.digest = d

/-- what both outputs of `reveal_sets` compute: the digests in `cur` or on the chain to a
target position, provided there is a target position -/
def CollectSpec (incl : Prop) (T cur : List Digest) (e : Env) (d : Digest) : Prop :=
  ∃ p x, e.at p = some x ∧ memD T x.digest = true ∧ (d ∈ cur ∨ OnPath incl e p d)

/-- a traversal with the one-step behaviour of `reveal_sets` computes `CollectSpec` -/
theorem collect_spec (incl : Prop) (T : List Digest) (F : List Digest → Env → List Digest)
    (step : ∀ cur e d, d ∈ F cur e ↔
      (memD T e.digest = true ∧ (d ∈ cur ∨ (incl ∧ d = e.digest))) ∨
      ∃ st c, e.child st = some c ∧ d ∈ F (e.digest :: cur) c)
    (e : Env) : ∀ cur d, d ∈ F cur e ↔ CollectSpec incl T cur e d := by
  induction e using Env.induct_child with
  | H e ih =>
    intro cur d
    rw [step]
    constructor
    · rintro (⟨hm, hd⟩ | ⟨st, c, hc, hd⟩)
      · refine ⟨[], e, rfl, hm, ?_⟩
        rcases hd with hd | ⟨hi, rfl⟩
        · exact Or.inl hd
        · exact Or.inr ⟨[], e, List.prefix_refl _, Or.inl hi, rfl, rfl⟩
      · obtain ⟨p, x, hx, hm, hd⟩ := (ih st c hc _ d).mp hd
        refine ⟨st :: p, x, by rw [Env.at_cons_of_child hc]; exact hx, hm, ?_⟩
        rcases hd with hd | ⟨q, y, hq, hi, hy, rfl⟩
        · rcases List.mem_cons.mp hd with rfl | hd
          · exact Or.inr ⟨[], e, List.nil_prefix, Or.inr (by simp), rfl, rfl⟩
          · exact Or.inl hd
        · refine Or.inr ⟨st :: q, y, List.cons_prefix_cons.mpr ⟨rfl, hq⟩, ?_,
            by rw [Env.at_cons_of_child hc]; exact hy, rfl⟩
          rcases hi with hi | hi
          · exact Or.inl hi
          · exact Or.inr (by simpa using hi)
    · rintro ⟨p, x, hx, hm, hd⟩
      cases p with
      | nil =>
        simp only [Env.at_nil, Option.some.injEq] at hx; subst hx
        refine Or.inl ⟨hm, ?_⟩
        rcases hd with hd | ⟨q, y, hq, hi, hy, rfl⟩
        · exact Or.inl hd
        · have := List.prefix_nil.mp hq; subst this
          simp only [Env.at_nil, Option.some.injEq] at hy; subst hy
          rcases hi with hi | hi
          · exact Or.inr ⟨hi, rfl⟩
          · exact absurd rfl hi
      | cons st p =>
        obtain ⟨c, hc, hx'⟩ := Env.at_cons_some hx
        refine Or.inr ⟨st, c, hc, (ih st c hc _ d).mpr ⟨p, x, hx', hm, ?_⟩⟩
        rcases hd with hd | ⟨q, y, hq, hi, hy, rfl⟩
        · exact Or.inl (List.mem_cons_of_mem _ hd)
        · rcases List.prefix_cons_iff.mp hq with rfl | ⟨t, rfl, ht⟩
          · simp only [Env.at_nil, Option.some.injEq] at hy; subst hy
            exact Or.inl (List.mem_cons_self ..)
          · rw [Env.at_cons_of_child hc] at hy
            refine Or.inr ⟨t, y, ht, ?_, hy, rfl⟩
            rcases hi with hi | hi
            · exact Or.inl hi
            · exact Or.inr (by simpa using hi)

theorem revealSets_collect (T cur : List Digest) (e : Env) (d : Digest) :
    d ∈ revealSets T cur e ↔ CollectSpec True T cur e d :=
  collect_spec True T (revealSets T) (revealSets_step T) e cur d

theorem interiorSets_collect (T cur : List Digest) (e : Env) (d : Digest) :
    d ∈ interiorSets T cur e ↔ CollectSpec False T cur e d :=
  collect_spec False T (interiorSets T) (interiorSets_step T) e cur d

/-! ### the part of the invariant the `elide` traversal needs -/

mutual
/-- `Canon` without the 32-byte requirement on declared digests and without the slot rule:
every node has at least one assertion and strictly ascending assertion digests -/
def Shape : Env → Prop
  | .node s as _ => Shape s ∧ ShapeList as ∧ as ≠ [] ∧ AscDigests as
  | .leaf _ _ => True
  | .wrapped e _ => Shape e
  | .assertion p o _ => Shape p ∧ Shape o
  | .elided _ => True
  | .knownValue _ _ => True
  | .encrypted _ _ => True
  | .compressed _ _ => True
def ShapeList : List Env → Prop
  | [] => True
  | a :: as => Shape a ∧ ShapeList as
end

mutual
theorem Canon.shape : (e : Env) → Canon e → Shape e
  | .node s as d, hc => by
    simp only [Canon] at hc
    simp only [Shape]
    exact ⟨Canon.shape s hc.1, CanonList.shape as hc.2.1, hc.2.2.1, hc.2.2.2.1⟩
  | .leaf .., _ => by simp only [Shape]
  | .wrapped e d, hc => by simp only [Canon] at hc; simp only [Shape]; exact Canon.shape e hc
  | .assertion p o d, hc => by
    simp only [Canon] at hc; simp only [Shape]; exact ⟨Canon.shape p hc.1, Canon.shape o hc.2⟩
  | .elided .., _ => by simp only [Shape]
  | .knownValue .., _ => by simp only [Shape]
  | .encrypted .., _ => by simp only [Shape]
  | .compressed .., _ => by simp only [Shape]
theorem CanonList.shape : (as : List Env) → CanonList as → ShapeList as
  | [], _ => by simp only [ShapeList]
  | a :: as, hc => by
    simp only [CanonList] at hc; simp only [ShapeList]
    exact ⟨Canon.shape a hc.1, CanonList.shape as hc.2⟩
end

/-! ### the `elide` traversal as a pure function -/

mutual
/-- replace every topmost element whose digest satisfies `f` by its elided digest -/
def prune (f : Digest → Bool) : Env → Env
  | .node s as d => if f d then .elided d else .node (prune f s) (pruneList f as) d
  | .leaf c d => if f d then .elided d else .leaf c d
  | .wrapped e d => if f d then .elided d else .wrapped (prune f e) d
  | .assertion p o d => if f d then .elided d else .assertion (prune f p) (prune f o) d
  | .elided d => .elided d
  | .knownValue v d => if f d then .elided d else .knownValue v d
  | .encrypted m d => if f d then .elided d else .encrypted m d
  | .compressed c d => if f d then .elided d else .compressed c d
def pruneList (f : Digest → Bool) : List Env → List Env
  | [] => []
  | a :: as => prune f a :: pruneList f as
end

theorem pruneList_eq_map (f : Digest → Bool) (as : List Env) : pruneList f as = as.map (prune f) := by
  induction as with
  | nil => rfl
  | cons a as ih => simp [pruneList, ih]

theorem prune_digest (f : Digest → Bool) (e : Env) : (prune f e).digest = e.digest := by
  cases e <;> simp only [prune] <;> (try split) <;> rfl

theorem pruneList_map_digest (f : Digest → Bool) (as : List Env) :
    (pruneList f as).map Env.digest = as.map Env.digest := by
  rw [pruneList_eq_map, List.map_map]
  apply List.map_congr_left
  intro a _; exact prune_digest f a

theorem prune_hit {f : Digest → Bool} {e : Env} (hf : f e.digest = true) : prune f e = .elided e.digest := by
  cases e <;> simp only [Env.digest] at hf <;> simp [prune, hf, Env.digest]

/-- a non-elided result: the element was not hit and was not elided before -/
theorem prune_not_elided {f : Digest → Bool} {e : Env} (hn : (prune f e).isElided = false) :
    f e.digest = false ∧ e.isElided = false := by
  cases hf : f e.digest with
  | true => rw [prune_hit hf] at hn; cases hn
  | false =>
    refine ⟨rfl, ?_⟩
    cases e <;> first | rfl | (simp [prune, Env.isElided] at hn)

theorem prune_child (f : Digest → Bool) (e : Env) (st : Step) :
    (prune f e).child st = if f e.digest then none else (e.child st).map (prune f) := by
  cases hf : f e.digest with
  | true => rw [prune_hit hf]; rfl
  | false =>
    cases e <;> simp only [Env.digest] at hf <;> cases st <;>
      simp [prune, hf, Env.child, pruneList_eq_map]

/-- nothing strictly above position `p` satisfies `f` -/
def ClearAbove (f : Digest → Bool) (e : Env) (p : Path) : Prop :=
  ∀ q z, q <+: p → q ≠ p → e.at q = some z → f z.digest = false

theorem clearAbove_nil (f : Digest → Bool) (e : Env) : ClearAbove f e [] := by
  intro q z hq hne; exact absurd (List.prefix_nil.mp hq) hne

theorem clearAbove_cons {f : Digest → Bool} {e c : Env} {st : Step} (hc : e.child st = some c)
    (p : Path) : ClearAbove f e (st :: p) ↔ f e.digest = false ∧ ClearAbove f c p := by
  constructor
  · intro hn
    refine ⟨hn [] e List.nil_prefix (by simp) rfl, ?_⟩
    intro q z hq hne hz
    exact hn (st :: q) z (List.cons_prefix_cons.mpr ⟨rfl, hq⟩) (by simpa using hne)
      (by rw [Env.at_cons_of_child hc]; exact hz)
  · rintro ⟨he, hn⟩ q z hq hne hz
    rcases List.prefix_cons_iff.mp hq with rfl | ⟨t, rfl, ht⟩
    · simp at hz; subst hz; exact he
    · rw [Env.at_cons_of_child hc] at hz
      exact hn t z ht (by simpa using hne) hz

theorem prune_at_cons_of_clear {f : Digest → Bool} {e c : Env} {st : Step}
    (hc : e.child st = some c) (hf : f e.digest = false) (p : Path) :
    (prune f e).at (st :: p) = (prune f c).at p := by
  apply Env.at_cons_of_child
  rw [prune_child, hf, hc]; rfl

/-- a position with nothing hit above it survives; its element is pruned in turn -/
theorem prune_at_of_clear {f : Digest → Bool} {e y : Env} {p : Path} (hy : e.at p = some y)
    (hn : ClearAbove f e p) : (prune f e).at p = some (prune f y) := by
  induction p generalizing e with
  | nil => simp at hy; subst hy; rfl
  | cons st p ih =>
    obtain ⟨c, hc, hy'⟩ := Env.at_cons_some hy
    obtain ⟨hf, hn'⟩ := (clearAbove_cons hc p).mp hn
    rw [prune_at_cons_of_clear hc hf]
    exact ih hy' hn'

/-- every position of the result is a position of the original with nothing hit above -/
theorem prune_at_inv {f : Digest → Bool} {e x : Env} {p : Path} (hx : (prune f e).at p = some x) :
    ∃ y, e.at p = some y ∧ x = prune f y ∧ ClearAbove f e p := by
  induction p generalizing e with
  | nil => simp at hx; subst hx; exact ⟨e, rfl, rfl, clearAbove_nil f e⟩
  | cons st p ih =>
    obtain ⟨c', hc', hx'⟩ := Env.at_cons_some hx
    rw [prune_child] at hc'
    cases hf : f e.digest with
    | true => simp [hf] at hc'
    | false =>
      simp only [hf, Bool.false_eq_true, if_false, Option.map_eq_some_iff] at hc'
      obtain ⟨c, hc, rfl⟩ := hc'
      obtain ⟨y, hy, hxy, hn⟩ := ih hx'
      exact ⟨y, by rw [Env.at_cons_of_child hc]; exact hy, hxy, (clearAbove_cons hc p).mpr ⟨hf, hn⟩⟩

/-- on the chain to any position, the topmost hit — or the position itself — survives -/
theorem prune_top {f : Digest → Bool} {e y : Env} {p : Path} (hy : e.at p = some y) :
    ∃ q z, q <+: p ∧ e.at q = some z ∧ (prune f e).at q = some (prune f z) ∧
      (q = p ∨ f z.digest = true) := by
  induction p generalizing e with
  | nil => simp at hy; subst hy; exact ⟨[], e, List.prefix_refl _, rfl, rfl, Or.inl rfl⟩
  | cons st p ih =>
    cases hf : f e.digest with
    | true => exact ⟨[], e, List.nil_prefix, rfl, rfl, Or.inr hf⟩
    | false =>
      obtain ⟨c, hc, hy'⟩ := Env.at_cons_some hy
      obtain ⟨q, z, hq, hz, hpz, hor⟩ := ih hy'
      refine ⟨st :: q, z, List.cons_prefix_cons.mpr ⟨rfl, hq⟩,
        by rw [Env.at_cons_of_child hc]; exact hz,
        by rw [prune_at_cons_of_clear hc hf]; exact hpz, ?_⟩
      rcases hor with rfl | hor
      · exact Or.inl rfl
      · exact Or.inr hor

/-! ### pruning preserves `WF` and `Shape` -/

section
variable (h : Hash)

mutual
theorem prune_wf (f : Digest → Bool) : (e : Env) → WF h e → WF h (prune f e)
  | .node s as d, hw => by
    simp only [prune]
    split
    · simp only [WF]
    · simp only [WF] at hw ⊢
      exact ⟨prune_wf f s hw.1, pruneList_wf f as hw.2.1, by
        rw [prune_digest, pruneList_map_digest]; exact hw.2.2⟩
  | .leaf c d, hw => by simp only [prune]; split <;> simp only [WF] at hw ⊢; exact hw
  | .wrapped e d, hw => by
    simp only [prune]
    split
    · simp only [WF]
    · simp only [WF] at hw ⊢
      exact ⟨prune_wf f e hw.1, by rw [prune_digest]; exact hw.2⟩
  | .assertion p o d, hw => by
    simp only [prune]
    split
    · simp only [WF]
    · simp only [WF] at hw ⊢
      exact ⟨prune_wf f p hw.1, prune_wf f o hw.2.1, by rw [prune_digest, prune_digest]; exact hw.2.2⟩
  | .elided d, _ => by simp only [prune, WF]
  | .knownValue v d, hw => by simp only [prune]; split <;> simp only [WF] at hw ⊢; exact hw
  | .encrypted m d, hw => by simp only [prune]; split <;> simp only [WF] at hw ⊢; exact hw
  | .compressed c d, hw => by simp only [prune]; split <;> simp only [WF]
theorem pruneList_wf (f : Digest → Bool) : (as : List Env) → WFList h as → WFList h (pruneList f as)
  | [], _ => by simp only [pruneList, WFList]
  | a :: as, hw => by
    simp only [WFList] at hw; simp only [pruneList, WFList]
    exact ⟨prune_wf f a hw.1, pruneList_wf f as hw.2⟩
end

end

theorem ascDigests_of_map_digest_eq {as as' : List Env} (hm : as'.map Env.digest = as.map Env.digest)
    (hs : AscDigests as) : AscDigests as' := by
  have key : ∀ l : List Env, AscDigests l ↔ (l.map Env.digest).Pairwise (fun a b => a.val < b.val) := by
    intro l; simp [AscDigests, List.pairwise_map]
  rw [key] at hs ⊢; rw [hm]; exact hs

mutual
theorem prune_shape (f : Digest → Bool) : (e : Env) → Shape e → Shape (prune f e)
  | .node s as d, hs => by
    simp only [prune]
    split
    · simp only [Shape]
    · simp only [Shape] at hs ⊢
      refine ⟨prune_shape f s hs.1, pruneList_shape f as hs.2.1, ?_, ?_⟩
      · intro hn
        apply hs.2.2.1
        rw [pruneList_eq_map] at hn
        exact List.map_eq_nil_iff.mp hn
      · exact ascDigests_of_map_digest_eq (pruneList_map_digest f as) hs.2.2.2
  | .leaf c d, _ => by simp only [prune]; split <;> simp only [Shape]
  | .wrapped e d, hs => by
    simp only [prune]
    split
    · simp only [Shape]
    · simp only [Shape] at hs ⊢; exact prune_shape f e hs
  | .assertion p o d, hs => by
    simp only [prune]
    split
    · simp only [Shape]
    · simp only [Shape] at hs ⊢; exact ⟨prune_shape f p hs.1, prune_shape f o hs.2⟩
  | .elided d, _ => by simp only [prune, Shape]
  | .knownValue v d, _ => by simp only [prune]; split <;> simp only [Shape]
  | .encrypted m d, _ => by simp only [prune]; split <;> simp only [Shape]
  | .compressed c d, _ => by simp only [prune]; split <;> simp only [Shape]
theorem pruneList_shape (f : Digest → Bool) : (as : List Env) → ShapeList as → ShapeList (pruneList f as)
  | [], _ => by simp only [pruneList, ShapeList]
  | a :: as, hs => by
    simp only [ShapeList] at hs; simp only [pruneList, ShapeList]
    exact ⟨prune_shape f a hs.1, pruneList_shape f as hs.2⟩
end

/-! ### `elide_set_with_action` with the `elide` action is `prune` -/

section
variable (h : Hash) (A : Aead) (Z : Deflate) (T : Digest → Bool) (rev : Bool)

theorem elide_eq_elided (e : Env) : elide e = .elided e.digest := by cases e <;> rfl

mutual
theorem elideSet_elide_eq : (e : Env) → WF h e → Shape e →
    elideSet h A Z T rev .elide e = .ok (prune (fun d => T d != rev) e)
  | .node s as d, hw, hs => by
    simp only [elideSet, prune]
    split
    · simp only [obscure, elide_eq_elided, Env.digest]
    · simp only [WF] at hw
      simp only [Shape] at hs
      rw [elideSet_elide_eq s hw.1 hs.1, elideSetList_elide_eq as hw.2.1 hs.2.1]
      simp only [prune_digest, bne_self_eq_false, Bool.false_eq_true, if_false, newNodeUnchecked]
      have hne : (pruneList (fun d => T d != rev) as).isEmpty = false := by
        rw [pruneList_eq_map]
        cases as with
        | nil => exact absurd rfl hs.2.2.1
        | cons a as => rfl
      have hasc := ascDigests_of_map_digest_eq (pruneList_map_digest (fun d => T d != rev) as) hs.2.2.2
      simp only [hne, Bool.false_eq_true, if_false, mkNode, sortByDigest_of_asc hasc, prune_digest,
        pruneList_map_digest, ← hw.2.2]
  | .leaf c d, _, _ => by
    by_cases hh : (T d != rev) = true <;>
      simp [elideSet, prune, Env.digest, obscure, elide_eq_elided, hh]
  | .wrapped e d, hw, hs => by
    simp only [elideSet, prune]
    split
    · simp only [obscure, elide_eq_elided, Env.digest]
    · simp only [WF] at hw
      simp only [Shape] at hs
      rw [elideSet_elide_eq e hw.1 hs]
      simp only [prune_digest, bne_self_eq_false, Bool.false_eq_true, if_false, newWrapped, ← hw.2]
  | .assertion p o d, hw, hs => by
    simp only [elideSet, prune]
    split
    · simp only [obscure, elide_eq_elided, Env.digest]
    · simp only [WF] at hw
      simp only [Shape] at hs
      rw [elideSet_elide_eq p hw.1 hs.1, elideSet_elide_eq o hw.2.1 hs.2]
      simp only [newAssertion, prune_digest, ← hw.2.2]
      simp [Env.digest]
  | .elided d, _, _ => by
    by_cases hh : (T d != rev) = true <;>
      simp [elideSet, prune, Env.digest, obscure, elide_eq_elided, hh]
  | .knownValue v d, _, _ => by
    by_cases hh : (T d != rev) = true <;>
      simp [elideSet, prune, Env.digest, obscure, elide_eq_elided, hh]
  | .encrypted m d, _, _ => by
    by_cases hh : (T d != rev) = true <;>
      simp [elideSet, prune, Env.digest, obscure, elide_eq_elided, hh]
  | .compressed c d, _, _ => by
    by_cases hh : (T d != rev) = true <;>
      simp [elideSet, prune, Env.digest, obscure, elide_eq_elided, hh]
theorem elideSetList_elide_eq : (as : List Env) → WFList h as → ShapeList as →
    elideSetList h A Z T rev .elide as = .ok (pruneList (fun d => T d != rev) as)
  | [], _, _ => by simp only [elideSetList, pruneList]
  | a :: as, hw, hs => by
    simp only [WFList] at hw
    simp only [ShapeList] at hs
    simp only [elideSetList, pruneList]
    rw [elideSet_elide_eq a hw.1 hs.1, elideSetList_elide_eq as hw.2 hs.2]
    simp only [prune_digest, bne_self_eq_false, Bool.false_eq_true, if_false]
end

end

/-! ### `proof_contains_set` in closed form -/

/-- first pass (`elide_revealing_set(reveal)`): hit = not in the reveal set -/
def revealHit (T : List Digest) (e : Env) : Digest → Bool :=
  fun d => memD (revealSets T [] e) d != true

/-- the targets with no target beneath them (`target.difference(&interior)`) -/
def elidableOf (T : List Digest) (e : Env) : List Digest :=
  T.filter (fun d => !memD (interiorSets T [] e) d)

/-- second pass (`elide_removing_set(elidable)`): hit = an elidable target -/
def elidableHit (T : List Digest) (e : Env) : Digest → Bool :=
  fun d => memD (elidableOf T e) d != false

/-- the proof envelope, as a pure function of the envelope and the targets -/
def proofOf (T : List Digest) (e : Env) : Env :=
  prune (elidableHit T e) (prune (revealHit T e) e)

theorem revealHit_false_iff {T : List Digest} {e : Env} {d : Digest} :
    revealHit T e d = false ↔ d ∈ revealSets T [] e := by
  simp [revealHit, memD_iff]

theorem elidableHit_true_iff {T : List Digest} {e : Env} {d : Digest} :
    elidableHit T e d = true ↔ d ∈ T ∧ d ∉ interiorSets T [] e := by
  simp [elidableHit, elidableOf, memD_iff, memD_false_iff]

section
variable (h : Hash) (A : Aead) (Z : Deflate)

theorem proofContainsSet_eq (e : Env) (T : List Digest) (hw : WF h e) (hs : Shape e) :
    proofContainsSet h A Z e T =
      if T.all (memD (revealSets T [] e)) then .ok (some (proofOf T e)) else .ok none := by
  simp only [proofContainsSet]
  by_cases hall : T.all (memD (revealSets T [] e)) = true
  · simp only [hall, Bool.not_true, Bool.false_eq_true, if_false, if_true]
    rw [elideSet_elide_eq h A Z _ true e hw hs]
    simp only
    rw [elideSet_elide_eq h A Z _ false _ (prune_wf h _ e hw) (prune_shape _ e hs)]
    rfl
  · simp [hall]

end

/-! ### targets, reveal set, walk -/

theorem mem_reveal_iff {T : List Digest} {e : Env} {d : Digest} :
    d ∈ revealSets T [] e ↔
      ∃ p x, e.at p = some x ∧ memD T x.digest = true ∧
        ∃ q y, q <+: p ∧ e.at q = some y ∧ y.digest = d := by
  rw [revealSets_collect]
  simp [CollectSpec, OnPath]

theorem mem_interior_iff {T : List Digest} {e : Env} {d : Digest} :
    d ∈ interiorSets T [] e ↔
      ∃ p x, e.at p = some x ∧ memD T x.digest = true ∧
        ∃ q y, q <+: p ∧ q ≠ p ∧ e.at q = some y ∧ y.digest = d := by
  rw [interiorSets_collect]
  simp [CollectSpec, OnPath]

theorem interior_sub_reveal {T : List Digest} {e : Env} {d : Digest}
    (hd : d ∈ interiorSets T [] e) : d ∈ revealSets T [] e := by
  obtain ⟨p, x, hx, hm, q, y, hq, _, hy, hyd⟩ := mem_interior_iff.mp hd
  exact mem_reveal_iff.mpr ⟨p, x, hx, hm, q, y, hq, hy, hyd⟩

/-- a revealed digest is interior or is a target -/
theorem reveal_sub {T : List Digest} {e : Env} {d : Digest} (hd : d ∈ revealSets T [] e) :
    d ∈ interiorSets T [] e ∨ d ∈ T := by
  obtain ⟨p, x, hx, hm, q, y, hq, hy, hyd⟩ := mem_reveal_iff.mp hd
  by_cases hqp : q = p
  · subst hqp
    rw [hx] at hy; cases hy
    exact Or.inr (hyd ▸ (memD_iff T _).mp hm)
  · exact Or.inl (mem_interior_iff.mpr ⟨p, x, hx, hm, q, y, hq, hqp, hy, hyd⟩)

theorem targets_subset_iff_walk (T : List Digest) (e : Env) :
    (∀ d ∈ T, memD (revealSets T [] e) d = true) ↔ ∀ d ∈ T, d ∈ walkDigests e := by
  constructor
  · intro hall d hd
    obtain ⟨p, x, _, _, q, y, _, hy, hyd⟩ := mem_reveal_iff.mp ((memD_iff _ _).mp (hall d hd))
    exact mem_walkDigests_iff.mpr ⟨q, y, hy, hyd⟩
  · intro hall d hd
    obtain ⟨p, x, hx, hxd⟩ := mem_walkDigests_iff.mp (hall d hd)
    apply (memD_iff _ _).mpr
    exact mem_reveal_iff.mpr ⟨p, x, hx, (memD_iff _ _).mpr (hxd ▸ hd), p, x, List.prefix_refl _, hx, hxd⟩

theorem all_memD_iff (T L : List Digest) : T.all (memD L) = true ↔ ∀ d ∈ T, memD L d = true := by
  simp [List.all_eq_true]

/-! ### every target occurs in the proof -/

theorem prefix_trans' {α} {a b c : List α} (h1 : a <+: b) (h2 : b <+: c) : a <+: c :=
  List.IsPrefix.trans h1 h2

/-- a revealed position survives the first pass -/
theorem reveal_pass_at {T : List Digest} {e x y : Env} {p q : Path}
    (hx : e.at p = some x) (hm : memD T x.digest = true) (hq : q <+: p) (hy : e.at q = some y) :
    (prune (revealHit T e) e).at q = some (prune (revealHit T e) y) := by
  apply prune_at_of_clear hy
  intro q' z hq' _ hz
  exact revealHit_false_iff.mpr (mem_reveal_iff.mpr ⟨p, x, hx, hm, q', z, hq'.trans hq, hz, rfl⟩)

theorem target_in_proof {T : List Digest} {e : Env} {d : Digest} (hdT : d ∈ T)
    (hd : d ∈ revealSets T [] e) : d ∈ walkDigests (proofOf T e) := by
  obtain ⟨p, x, hx, hm, q, y, hq, hy, hyd⟩ := mem_reveal_iff.mp hd
  have h1 := reveal_pass_at hx hm hq hy
  obtain ⟨q', z, hq', hz, hpz, hor⟩ := prune_top (f := elidableHit T e) h1
  have hzd : (prune (elidableHit T e) z).digest = z.digest := prune_digest _ _
  rcases hor with rfl | hhit
  · rw [h1] at hz; cases hz
    refine mem_walkDigests_iff.mpr ⟨q', _, hpz, ?_⟩
    rw [prune_digest, prune_digest]; exact hyd
  · by_cases hqq : q' = q
    · subst hqq
      rw [h1] at hz; cases hz
      refine mem_walkDigests_iff.mpr ⟨q', _, hpz, ?_⟩
      rw [prune_digest, prune_digest]; exact hyd
    · exfalso
      obtain ⟨z0, hz0, hzz0, _⟩ := prune_at_inv hz
      have hzd0 : z.digest = z0.digest := by rw [hzz0, prune_digest]
      have hint : z.digest ∈ interiorSets T [] e :=
        mem_interior_iff.mpr ⟨q, y, hy, (memD_iff _ _).mpr (hyd ▸ hdT), q', z0, hq', hqq, hz0, hzd0.symm⟩
      exact (elidableHit_true_iff.mp hhit).2 hint

/-! ### minimality -/

/-- positions of the proof are positions of the envelope, with the same digest, and the
element was hit by neither pass unless the proof shows it elided -/
theorem proofOf_at_inv {T : List Digest} {e x : Env} {p : Path} (hx : (proofOf T e).at p = some x) :
    ∃ y, e.at p = some y ∧ x = prune (elidableHit T e) (prune (revealHit T e) y) ∧
      x.digest = y.digest := by
  obtain ⟨x1, hx1, hxx1, _⟩ := prune_at_inv hx
  obtain ⟨y, hy, hx1y, _⟩ := prune_at_inv hx1
  refine ⟨y, hy, by rw [hxx1, hx1y], ?_⟩
  rw [hxx1, hx1y, prune_digest, prune_digest]

theorem proofOf_not_elided {T : List Digest} {e x y : Env}
    (hxy : x = prune (elidableHit T e) (prune (revealHit T e) y)) (hn : x.isElided = false) :
    y.digest ∈ interiorSets T [] e ∧ y.isElided = false := by
  subst hxy
  obtain ⟨h2, hn1⟩ := prune_not_elided hn
  obtain ⟨h1, hny⟩ := prune_not_elided hn1
  rw [prune_digest] at h2
  have hrev := revealHit_false_iff.mp h1
  refine ⟨?_, hny⟩
  rcases reveal_sub hrev with hi | ht
  · exact hi
  · by_cases hi : y.digest ∈ interiorSets T [] e
    · exact hi
    · have := elidableHit_true_iff.mpr ⟨ht, hi⟩
      rw [h2] at this; cases this

/-- a position with nothing hit above it by either pass survives both -/
theorem proofOf_at_of_clear {T : List Digest} {e y : Env} {p : Path} (hy : e.at p = some y)
    (hn : ∀ q z, q <+: p → q ≠ p → e.at q = some z →
      revealHit T e z.digest = false ∧ elidableHit T e z.digest = false) :
    (proofOf T e).at p = some (prune (elidableHit T e) (prune (revealHit T e) y)) := by
  have h1 : (prune (revealHit T e) e).at p = some (prune (revealHit T e) y) :=
    prune_at_of_clear hy (fun q z hq hne hz => (hn q z hq hne hz).1)
  apply prune_at_of_clear h1
  intro q z hq hne hz
  obtain ⟨z0, hz0, hzz0, _⟩ := prune_at_inv hz
  rw [hzz0, prune_digest]
  exact (hn q z0 hq hne hz0).2

/-! ### minimality by positions -/

/-- a position of `e` holding an element whose digest is a target -/
def IsTargetPos (T : List Digest) (e : Env) (t : Path) : Prop :=
  ∃ y, e.at t = some y ∧ memD T y.digest = true

/-- position `p` lies strictly above a target position of `e` -/
def AboveTarget (T : List Digest) (e : Env) (p : Path) : Prop :=
  ∃ t, p <+: t ∧ p ≠ t ∧ IsTargetPos T e t

/-- the kind of branching (node / wrapped / assertion / no children) and the digests of
the children -/
def childSig : Env → Nat × List Digest
  | .node s as _ => (0, s.digest :: as.map Env.digest)
  | .wrapped e _ => (2, [e.digest])
  | .assertion p o _ => (3, [p.digest, o.digest])
  | _ => (1, [])

/-- what a collision-free hash guarantees inside one envelope: two non-obscured elements
with the same digest branch the same way into children with the same digests -/
def DigestFaithful (e : Env) : Prop :=
  ∀ x ∈ elements e, ∀ y ∈ elements e, x.digest = y.digest →
    x.isObscured = false → y.isObscured = false → childSig x = childSig y

/-- no elided, encrypted or compressed element of `e` carries the digest of an element
strictly above a target -/
def NoObscuredInterior (T : List Digest) (e : Env) : Prop :=
  ∀ x ∈ elements e, x.isObscured = true → memD (interiorSets T [] e) x.digest = false

instance (e : Env) : Decidable (DigestFaithful e) := by unfold DigestFaithful; exact inferInstance
instance (T : List Digest) (e : Env) : Decidable (NoObscuredInterior T e) := by
  unfold NoObscuredInterior; exact inferInstance

theorem childSig_child {x y : Env} (hs : childSig x = childSig y) (st : Step) :
    (x.child st).map Env.digest = (y.child st).map Env.digest := by
  cases x <;> cases y <;> simp [childSig] at hs <;> cases st <;> simp [Env.child, hs]
  case node.node.assertion s1 as1 d1 s2 as2 d2 i =>
    rw [← List.getElem?_map, ← List.getElem?_map, hs.2]

theorem not_obscured_of_child {z c : Env} {st : Step} (hc : z.child st = some c) :
    z.isObscured = false := by
  cases ho : z.isObscured with
  | false => rfl
  | true => rw [Env.child_none_of_isObscured ho] at hc; cases hc

theorem follow_target {T : List Digest} {e : Env} (hF : DigestFaithful e)
    (hO : NoObscuredInterior T e) :
    ∀ (t' : Path) (p q : Path) (y z : Env) (st : Step), e.at p = some y → e.at q = some z →
      y.digest = z.digest → y.isObscured = false → IsTargetPos T e (q ++ st :: t') →
      ∃ t₂, IsTargetPos T e (p ++ st :: t₂) := by
  intro t'
  induction t' with
  | nil =>
    intro p q y z st hy hz hd hyo ⟨w, hw, hm⟩
    rw [Env.at_append, hz] at hw
    obtain ⟨cz, hcz, hw'⟩ := Env.at_cons_some (e := z) hw
    simp only [Env.at_nil, Option.some.injEq] at hw'; subst hw'
    have hsig := hF y (at_mem_elements hy) z (at_mem_elements hz) hd hyo (not_obscured_of_child hcz)
    have hch := childSig_child hsig st
    rw [hcz] at hch
    obtain ⟨cy, hcy, hcd⟩ := Option.map_eq_some_iff.mp hch
    refine ⟨[], cy, ?_, ?_⟩
    · rw [Env.at_append, hy]; simp [Env.at_cons, hcy]
    · rw [hcd]; exact hm
  | cons st' t'' ih =>
    intro p q y z st hy hz hd hyo ⟨w, hw, hm⟩
    have hw0 := hw
    rw [Env.at_append, hz] at hw
    obtain ⟨cz, hcz, hw'⟩ := Env.at_cons_some (e := z) hw
    have hsig := hF y (at_mem_elements hy) z (at_mem_elements hz) hd hyo (not_obscured_of_child hcz)
    have hch := childSig_child hsig st
    rw [hcz] at hch
    obtain ⟨cy, hcy, hcd⟩ := Option.map_eq_some_iff.mp hch
    have hcy_at : e.at (p ++ [st]) = some cy := by
      rw [Env.at_append, hy]; simp [Env.at_cons, hcy]
    have hcz_at : e.at (q ++ [st]) = some cz := by
      rw [Env.at_append, hz]; simp [Env.at_cons, hcz]
    have hint : cz.digest ∈ interiorSets T [] e := by
      refine mem_interior_iff.mpr ⟨q ++ st :: st' :: t'', w, hw0, hm, q ++ [st], cz, ?_, ?_, hcz_at, rfl⟩
      · exact ⟨st' :: t'', by simp⟩
      · intro heq
        have := congrArg List.length heq
        simp at this
    have hcyo : cy.isObscured = false := by
      cases ho : cy.isObscured with
      | false => rfl
      | true =>
        have := hO cy (at_mem_elements hcy_at) ho
        rw [hcd, (memD_iff _ _).mpr hint] at this; cases this
    obtain ⟨t₂, ht₂⟩ := ih (p ++ [st]) (q ++ [st]) cy cz st' hcy_at hcz_at hcd hcyo
      ⟨w, by simpa using hw0, hm⟩
    exact ⟨st' :: t₂, by simpa using ht₂⟩

/-- under the two hypotheses, a non-elided element of the proof sits strictly above a
target position of the envelope -/
theorem proofOf_above_target {T : List Digest} {e x : Env} {p : Path} (hF : DigestFaithful e)
    (hO : NoObscuredInterior T e) (hx : (proofOf T e).at p = some x) (hn : x.isElided = false) :
    AboveTarget T e p := by
  obtain ⟨y, hy, hxy, _⟩ := proofOf_at_inv hx
  obtain ⟨hint, _⟩ := proofOf_not_elided hxy hn
  have hyo : y.isObscured = false := by
    cases ho : y.isObscured with
    | false => rfl
    | true =>
      have := hO y (at_mem_elements hy) ho
      rw [(memD_iff _ _).mpr hint] at this; cases this
  obtain ⟨t0, x0, hx0, hm, q, z, hq, hne, hz, hzd⟩ := mem_interior_iff.mp hint
  obtain ⟨r, rfl⟩ := hq
  cases r with
  | nil => simp at hne
  | cons st t' =>
    obtain ⟨t₂, ht₂⟩ := follow_target hF hO t' p q y z st hy hz hzd.symm hyo ⟨x0, hx0, hm⟩
    refine ⟨p ++ st :: t₂, ⟨st :: t₂, rfl⟩, ?_, ht₂⟩
    intro heq
    have := congrArg List.length heq
    simp at this

/-! ### samples (a toy hash keeps the digests small; the theorems hold for every hash) -/

namespace C12Sample

/-- toy hash: the sum of the bytes -/
def sumH : Hash := ⟨fun b => ⟨b.foldl (fun a x => a + x.toNat) 0⟩⟩

def trivA : Aead := ⟨fun _ _ _ _ => ([], []), fun _ _ _ _ _ => none⟩
def trivZ : Deflate := ⟨id, some, fun _ => 0⟩

def lf (n : Nat) : Env := newLeaf sumH (.uint n)
/-- `1: 2`, digest 3 -/
def a1 : Env := newAssertion sumH (lf 1) (lf 2)
/-- `1: 4`, digest 5 -/
def a2 : Env := newAssertion sumH (lf 1) (lf 4)
/-- `7 [1: 2, 1: 4]`, digest 15 -/
def e0 : Env := .node (lf 7) [a1, a2] (sumH.ofDigests ((lf 7).digest :: [a1, a2].map Env.digest))
/-- targets: the leaf `2`, the assertion `1: 2` that contains it, and the leaf `4` -/
def T0 : List Digest := [⟨2⟩, ⟨3⟩, ⟨4⟩]

theorem a1_digest : a1.digest = ⟨3⟩ := by decide +kernel
theorem a2_digest : a2.digest = ⟨5⟩ := by decide +kernel
theorem e0_digest : e0.digest = ⟨15⟩ := by decide +kernel

theorem wf_a1 : WF sumH a1 := by simp only [a1, lf, newAssertion, newLeaf, WF, and_self]
theorem wf_a2 : WF sumH a2 := by simp only [a2, lf, newAssertion, newLeaf, WF, and_self]
theorem canon_a1 : Canon a1 := by simp only [a1, lf, newAssertion, newLeaf, Canon, and_self]
theorem canon_a2 : Canon a2 := by simp only [a2, lf, newAssertion, newLeaf, Canon, and_self]

theorem inv_e0 : Inv sumH e0 := by
  refine ⟨?_, ?_⟩
  · simp only [e0, WF, WFList, wf_a1, wf_a2, and_true]
    simp only [lf, newLeaf, WF]
  · have hasc : AscDigests [a1, a2] := by
      simp only [AscDigests, List.pairwise_cons, List.mem_cons, List.not_mem_nil, or_false,
        forall_eq, a1_digest, a2_digest, List.Pairwise.nil, and_true, false_imp_iff, implies_true]
      decide
    have hslot : ∀ a ∈ [a1, a2], a.slotOk = true := by
      intro a ha
      simp only [List.mem_cons, List.not_mem_nil, or_false] at ha
      rcases ha with rfl | rfl <;> rfl
    simp only [e0, Canon, CanonList]
    exact ⟨by simp only [lf, newLeaf, Canon], ⟨canon_a1, canon_a2, trivial⟩, by simp, hasc, hslot⟩

theorem all_e0 : T0.all (memD (revealSets T0 [] e0)) = true := by decide +kernel
theorem proof_e0 (A : Aead) (Z : Deflate) :
    proofContainsSet sumH A Z e0 T0 = .ok (some (proofOf T0 e0)) := by
  rw [proofContainsSet_eq sumH A Z e0 T0 inv_e0.1 (Canon.shape e0 inv_e0.2), all_e0]; rfl
theorem faithful_e0 : DigestFaithful e0 := by decide +kernel
theorem noObscured_e0 : NoObscuredInterior T0 e0 := by decide +kernel

/-- F5b: the subject is a compressed element carrying the digest of the assertion `1: 2` -/
def eB : Env :=
  .node (.compressed ⟨0, 0, []⟩ ⟨3⟩) [a1] (sumH.ofDigests (⟨3⟩ :: [a1].map Env.digest))
def TB : List Digest := [⟨2⟩]

theorem inv_eB : Inv sumH eB := by
  refine ⟨?_, ?_⟩
  · simp only [eB, WF, WFList, wf_a1, and_true, Env.digest]
  · simp only [eB, Canon, CanonList, canon_a1, and_true, true_and]
    refine ⟨by simp [Digest.Valid], by simp, by simp [AscDigests], ?_⟩
    intro a ha
    simp only [List.mem_cons, List.not_mem_nil, or_false] at ha
    subst ha; rfl

theorem faithful_eB : DigestFaithful eB := by decide +kernel
theorem all_eB : TB.all (memD (revealSets TB [] eB)) = true := by decide +kernel

/-- the compressed subject stays in the proof -/
theorem proof_eB_subj : (proofOf TB eB).at [.subj] = some (.compressed ⟨0, 0, []⟩ ⟨3⟩) := by
  have h1 : revealHit TB eB eB.digest = false := by decide +kernel
  have h2 : revealHit TB eB ⟨3⟩ = false := by decide +kernel
  have h3 : elidableHit TB eB eB.digest = false := by decide +kernel
  have h4 : elidableHit TB eB ⟨3⟩ = false := by decide +kernel
  have hc : eB.child .subj = some (.compressed ⟨0, 0, []⟩ ⟨3⟩) := rfl
  have hy : eB.at [.subj] = some (.compressed ⟨0, 0, []⟩ ⟨3⟩) := rfl
  rw [proofOf_at_of_clear hy]
  · simp [prune, h2, h4]
  · intro q z hq hne hz
    have hq' : q = [] := by
      rcases List.prefix_cons_iff.mp hq with rfl | ⟨t, rfl, ht⟩
      · rfl
      · have := List.prefix_nil.mp ht; subst this; exact absurd rfl hne
    subst hq'
    simp only [Env.at_nil, Option.some.injEq] at hz; subst hz
    exact ⟨h1, h3⟩

theorem not_above_eB : ¬ AboveTarget TB eB [.subj] := by
  rintro ⟨t, ⟨r, rfl⟩, hne, y, hy, _⟩
  cases r with
  | nil => simp at hne
  | cons st r =>
    have : eB.at ([Step.subj] ++ st :: r) = none := by
      simp only [List.cons_append, List.nil_append, eB]
      rw [Env.at_cons_of_child (c := .compressed ⟨0, 0, []⟩ ⟨3⟩) rfl]
      exact Env.at_cons_none_of_isObscured rfl st r
    rw [this] at hy; cases hy

/-- `WF` alone is not enough: a node with an empty assertion list (never produced by the
library) makes the rebuilding `assert!` fire -/
def eP : Env := .node (.leaf (.uint 7) ⟨7⟩) [] ⟨7⟩

theorem wf_eP : WF sumH eP := by
  simp only [eP, WF, WFList, List.map_nil, Env.digest, true_and]
  exact ⟨by decide +kernel, by decide +kernel⟩

theorem proofContainsSet_eP (A : Aead) (Z : Deflate) :
    proofContainsSet sumH A Z eP [⟨7⟩] = .panic "envelope.rs:new_with_unchecked_assertions:assert" := by
  have hR : memD (revealSets [⟨7⟩] [] eP) ⟨7⟩ = true := by decide +kernel
  simp only [proofContainsSet, List.all_cons, List.all_nil, hR, Bool.and_true, Bool.not_true,
    Bool.false_eq_true, if_false]
  generalize memD (revealSets [⟨7⟩] [] eP) = R at hR
  have h1 : elideSet sumH A Z R true .elide eP
      = .panic "envelope.rs:new_with_unchecked_assertions:assert" := by
    simp [eP, elideSet, elideSetList, newNodeUnchecked, hR, Env.digest]
  rw [h1]

end C12Sample

end EnvVerif
