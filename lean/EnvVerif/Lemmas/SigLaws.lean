/-
  Lemmas/SigLaws.lean — the idealised signing interface that the theorems of C09
  (signatures) are relative to, the vocabulary of those theorems, and a toy instance for
  which the laws are *proved* (so the hypotheses are satisfiable and examples compute).

  The model of verification (`Model/Signature.lean`) is parametric in a `SigScheme`
  (`verify key sig msg`).  The signing side is a `Signer`: `sign k m` is the signature
  object (its CBOR) that the holder of the secret key `k` produces over the digest `m`;
  key ids double as public-key ids.  Randomised schemes are covered by fixing the random
  choice: the laws speak about *one* signature per `(k, m)`; nothing in the theorems needs
  the signer to be the only source of valid signatures.

  `SigLaws V S` (hypotheses of theorems, never axioms):
  * `tagged`  — what the signer returns is a readable `Signature` (`#6.40020(..)`);
  * `correct` — it verifies under the matching key over the signed digest;
  * `sep`     — it verifies under no other key and over no other digest.
  `sep` follows from the textbook pair "perfect authenticity + injectivity of `sign`"
  (`SigLaws.of_unforgeable`).
-/
import EnvVerif.Model.Signature
namespace EnvVerif
open Env

/-- the signing side: `sign k m` = the signature object made with secret key `k` over `m` -/
structure Signer where
  sign : Nat → Digest → Cbor

structure SigLaws (V : SigScheme) (S : Signer) : Prop where
  /-- the signer returns a readable `Signature` -/
  tagged : ∀ k m, ∃ x, S.sign k m = .tagged TAG_SIGNATURE x
  /-- correctness -/
  correct : ∀ k m, V.verify k (S.sign k m) m = true
  /-- a signature belongs to one key and one message -/
  sep : ∀ k k' m m', V.verify k' (S.sign k m) m' = true → k' = k ∧ m' = m

/-- the textbook form: whatever verifies was produced by the signer (perfect authenticity,
deterministic idealisation) and `sign` is injective -/
theorem SigLaws.of_unforgeable {V : SigScheme} {S : Signer}
    (tagged : ∀ k m, ∃ x, S.sign k m = .tagged TAG_SIGNATURE x)
    (correct : ∀ k m, V.verify k (S.sign k m) m = true)
    (unforgeable : ∀ k s m, V.verify k s m = true → s = S.sign k m)
    (inj : ∀ k m k' m', S.sign k m = S.sign k' m' → k = k' ∧ m = m') : SigLaws V S where
  tagged := tagged
  correct := correct
  sep := by
    intro k k' m m' hv
    obtain ⟨h1, h2⟩ := inj _ _ _ _ (unforgeable _ _ _ hv)
    exact ⟨h1.symm, h2.symm⟩

namespace SigL

/-! ### vocabulary of the C09 theorems -/

/-- the known value `'signed'` as an envelope -/
def signedKV (h : Hash) : Env := newKnownValue h KV_SIGNED

/-- the objects of the `'signed'` assertions of `e`, in the stored order
(`objects_for_predicate(known_values::SIGNED)`; see `signedObjects_spec` in C09) -/
def signedObjects (h : Hash) (e : Env) : List Env :=
  (assertionsWithPredicate e (signedKV h)).filterMap fun a => asObject a.subject

/-- `x` is a readable `Signature` that verifies `msg` under `key` -/
def ReadableSigBy (V : SigScheme) (key : Nat) (x : Env) (msg : Digest) : Prop :=
  ∃ s, extractSignature x = some s ∧ V.verify key s msg = true

/-- the assertion `'signed': o` -/
def sigAssertion (h : Hash) (o : Env) : Env := newAssertion h (signedKV h) o

/-- `add_assertion_envelope` ignores an assertion whose digest is already present among the
elements.  `NotShadowed h e o`: the only element of `e` that may carry the digest of
`'signed': o` is that very assertion (so the assertion is either new, or already there
unobscured). -/
def NotShadowed (h : Hash) (e o : Env) : Prop :=
  ∀ x ∈ e.assertions, x.digest = (sigAssertion h o).digest → x = sigAssertion h o

/-- the signature-with-metadata envelope of `add_signature_opt`: the signature leaf with the
metadata assertions added one by one (`.unwrap()`ed) -/
def metaEnvelope (h : Hash) (sig : Cbor) (metadata : List Env) : Res Env :=
  metadata.foldl (fun acc a => acc.bind fun x =>
    match addAssertionEnvelope h x a with
    | .ok y => .ok y
    | .err _ => .panic "signature_impl.rs:add_signature_opt:unwrap"
    | .panic p => .panic p) (Res.ok (newLeaf h sig))

/-- the object of the `'signed'` assertion that `add_signature_opt` builds when there is
metadata: the wrapped metadata envelope `m`, itself carrying `'signed': outer(wrapper)` -/
def signedWrapper (h : Hash) (m : Env) (outer : Env → Cbor) : Env :=
  mkNode h (wrap h m) [sigAssertion h (newLeaf h (outer (wrap h m)))]

/-- the number of keys of the list (with multiplicity) having a valid signature -/
def validCount (valid : Nat → Bool) (keys : List Nat) : Nat := keys.countP valid

/-! ### a toy scheme satisfying the laws -/
namespace Toy

/-- signature = `#6.40020([key, digest value])` -/
def signer : Signer := ⟨fun k m => .tagged TAG_SIGNATURE (.array [.uint k, .uint m.val])⟩

def scheme : SigScheme :=
  ⟨fun key sig msg =>
    match sig with
    | .tagged t (.array [.uint k, .uint m]) => t == TAG_SIGNATURE && k == key && m == msg.val
    | _ => false⟩

theorem verify_iff (key : Nat) (sig : Cbor) (msg : Digest) :
    scheme.verify key sig msg = true ↔ sig = signer.sign key msg := by
  unfold scheme signer
  constructor
  · intro hv
    simp only at hv
    split at hv
    · simp only [Bool.and_eq_true, beq_iff_eq] at hv
      obtain ⟨⟨h1, h2⟩, h3⟩ := hv
      subst h1 h2 h3; rfl
    · cases hv
  · intro hs
    subst hs
    simp

theorem laws : SigLaws scheme signer :=
  SigLaws.of_unforgeable (fun _ _ => ⟨_, rfl⟩) (fun k m => (verify_iff k _ m).2 rfl)
    (fun k s m hv => (verify_iff k s m).1 hv)
    (by
      intro k m k' m' he
      simp only [signer, Cbor.tagged.injEq, Cbor.array.injEq, List.cons.injEq, Cbor.uint.injEq,
        and_true, true_and] at he
      obtain ⟨h1, h2⟩ := he
      exact ⟨h1, by cases m; cases m'; simp_all⟩)

/-- a toy hash with 32-byte values that the kernel can evaluate -/
def hash : Hash := ⟨fun b => ⟨(b.foldl (fun acc x => acc * 31 + x.toNat + 1) 7) % 2 ^ 256⟩⟩

end Toy
end SigL
end EnvVerif
