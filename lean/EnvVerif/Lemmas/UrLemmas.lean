/-
  Lemmas/UrLemmas.lean — the UR text form round-trips: bytewords (minimal style), checksum,
  `ur:<type>/...` framing.  These are facts about the *concrete* tables and functions of
  `Model/Ur.lean` (the dependency side, modelled exactly), proved once and for all byte strings.
-/
import EnvVerif.Model.Ur
import EnvVerif.Lemmas.CodecLaws

namespace EnvVerif
namespace Ur

/-! ### the table -/

/-- every entry of the table is found at its own index: the 256 two-letter words are pairwise
distinct (a finite table, decided in full) -/
theorem findPair_table : ∀ i : Fin 256,
    findPair minimals (minimals[i.val]'(by rw [minimals_length]; exact i.isLt)).1
      (minimals[i.val]'(by rw [minimals_length]; exact i.isLt)).2 0 = some i.val := by
  decide +kernel

/-- every letter of the table is a lower-case ASCII letter -/
theorem minimals_lower : ∀ i : Fin 256,
    (97 ≤ (minimals[i.val]'(by rw [minimals_length]; exact i.isLt)).1 ∧
     (minimals[i.val]'(by rw [minimals_length]; exact i.isLt)).1 ≤ 122) ∧
    (97 ≤ (minimals[i.val]'(by rw [minimals_length]; exact i.isLt)).2 ∧
     (minimals[i.val]'(by rw [minimals_length]; exact i.isLt)).2 ≤ 122) := by
  decide +kernel

theorem byteOfPair_minimalOf (b : UInt8) : byteOfPair (minimalOf b).1 (minimalOf b).2 = some b := by
  have h := findPair_table ⟨b.toNat, b.toNat_lt⟩
  simp only [byteOfPair, minimalOf]
  rw [h]
  simp

theorem minimalOf_lower (b : UInt8) :
    (97 ≤ (minimalOf b).1 ∧ (minimalOf b).1 ≤ 122) ∧ (97 ≤ (minimalOf b).2 ∧ (minimalOf b).2 ≤ 122) :=
  minimals_lower ⟨b.toNat, b.toNat_lt⟩

/-! ### letters -/

theorem decodeLetters_encodeLetters : ∀ bs : Bytes, decodeLetters (encodeLetters bs) = some bs
  | [] => rfl
  | b :: rest => by
    simp only [encodeLetters, decodeLetters, byteOfPair_minimalOf, decodeLetters_encodeLetters rest]

/-- a predicate that holds for all lower-case letters holds for every character of an encoding -/
theorem encodeLetters_all (P : Nat → Bool) (hP : ∀ c, 97 ≤ c → c ≤ 122 → P c = true) :
    ∀ bs : Bytes, (encodeLetters bs).all P = true
  | [] => rfl
  | b :: rest => by
    have h := minimalOf_lower b
    simp only [encodeLetters, List.all_cons, hP _ h.1.1 h.1.2, hP _ h.2.1 h.2.2,
      encodeLetters_all P hP rest, Bool.and_self]

/-! ### checksum -/

theorem stripChecksum_append (p : Bytes) : stripChecksum (p ++ beBytes 4 (crc32 p)) = some p := by
  have hl : (beBytes 4 (crc32 p)).length = 4 := beBytes_len 4 _
  simp only [stripChecksum, List.length_append, hl]
  have h1 : ¬ (p.length + 4 < 4) := by omega
  simp only [h1, if_false, Nat.add_sub_cancel]
  rw [List.take_left' rfl, List.drop_left' rfl]
  simp

theorem bytewordsDecode_minimal (p : Bytes) : bytewordsDecode (bytewordsMinimal p) = some p := by
  simp only [bytewordsDecode, bytewordsMinimal, decodeLetters_encodeLetters, stripChecksum_append]

/-! ### framing -/

theorem stripPrefix_append : ∀ (p t : Text), stripPrefix p (p ++ t) = some t
  | [], t => by cases t <;> rfl
  | c :: cs, t => by simp [stripPrefix, stripPrefix_append cs t]

theorem splitOnce_append : ∀ (a b : Text), a.all (fun c => c != SLASH) = true →
    splitOnce (a ++ SLASH :: b) = some (a, b)
  | [], b, _ => by simp [splitOnce]
  | c :: cs, b, h => by
    simp only [List.all_cons, Bool.and_eq_true, bne_iff_ne, ne_eq] at h
    have hc : (c == SLASH) = false := by simpa using h.1
    simp only [List.cons_append, splitOnce, hc, Bool.false_eq_true, if_false,
      splitOnce_append cs b (by simpa using h.2)]

theorem map_id_of_all {f : Nat → Nat} {P : Nat → Bool} (hf : ∀ c, P c = true → f c = c) :
    ∀ t : Text, t.all P = true → t.map f = t
  | [], _ => rfl
  | c :: cs, h => by
    simp only [List.all_cons, Bool.and_eq_true] at h
    simp only [List.map_cons, hf c h.1, map_id_of_all hf cs h.2]

/-- characters that are lower-case letters, digits or `-`: below 128, fixed by lower-casing, not `/` -/
def plain (c : Nat) : Bool := c < 128 && lowerAscii c == c && c != SLASH

theorem plain_of_typeChar (c : Nat) (h : isTypeChar c = true) : plain c = true := by
  simp only [isTypeChar, Bool.or_eq_true, Bool.and_eq_true, decide_eq_true_eq, beq_iff_eq] at h
  simp only [plain, lowerAscii, SLASH, Bool.and_eq_true, decide_eq_true_eq, beq_iff_eq, bne_iff_ne, ne_eq]
  rcases h with (h | h) | h
  · refine ⟨⟨by omega, ?_⟩, by omega⟩
    have : ¬ (65 ≤ c ∧ c ≤ 90) := by omega
    simp [this]
  · refine ⟨⟨by omega, ?_⟩, by omega⟩
    have : ¬ (65 ≤ c ∧ c ≤ 90) := by omega
    simp [this]
  · subst h; decide

theorem plain_of_lower (c : Nat) (h1 : 97 ≤ c) (h2 : c ≤ 122) : plain c = true :=
  plain_of_typeChar c (by simp [isTypeChar]; omega)

theorem all_plain_of_typeChars : ∀ t : Text, t.all isTypeChar = true → t.all plain = true
  | [], _ => rfl
  | c :: cs, h => by
    simp only [List.all_cons, Bool.and_eq_true] at h ⊢
    exact ⟨plain_of_typeChar c h.1, all_plain_of_typeChars cs h.2⟩

theorem all_append {P : Nat → Bool} (a b : Text) : (a ++ b).all P = (a.all P && b.all P) := List.all_append

/-- **UR round trip (dependency level)**: the string of a UR with a well-formed type parses back to
its type and its bytes -/
theorem urParse_urString (ty : Text) (data : Bytes) (hty : ty.all isTypeChar = true) :
    urParse (urString ty data) = some (ty, data) := by
  have hbody : (bytewordsMinimal data).all plain = true :=
    encodeLetters_all plain plain_of_lower _
  have htyp := all_plain_of_typeChars ty hty
  have hpre : urPrefix.all (fun c => decide (c < 128) && lowerAscii c == c) = true := by decide
  -- no character is ≥ 128
  have hlt : ∀ t : Text, t.all plain = true → t.any (fun c => decide (c ≥ 128)) = false := by
    intro t
    induction t with
    | nil => intro _; rfl
    | cons c cs ih =>
      intro h
      simp only [List.all_cons, Bool.and_eq_true] at h
      have hc := h.1
      simp only [plain, Bool.and_eq_true, decide_eq_true_eq] at hc
      simp only [List.any_cons, ih h.2, Bool.or_false, decide_eq_false_iff_not]
      omega
  have hlow : ∀ t : Text, t.all plain = true → t.map lowerAscii = t := by
    intro t ht
    refine map_id_of_all (P := plain) ?_ t ht
    intro c hc
    simp only [plain, Bool.and_eq_true, beq_iff_eq] at hc
    exact hc.1.2
  have hns : ∀ t : Text, t.all plain = true → t.all (fun c => c != SLASH) = true := by
    intro t
    induction t with
    | nil => intro _; rfl
    | cons c cs ih =>
      intro h
      simp only [List.all_cons, Bool.and_eq_true] at h
      have hc := h.1
      simp only [plain, Bool.and_eq_true] at hc
      simp only [List.all_cons, hc.2, ih h.2, Bool.and_self]
  have hcont : (bytewordsMinimal data).contains SLASH = false := by
    have := hns _ hbody
    rw [Bool.eq_false_iff]
    intro hc
    rw [List.contains_iff_mem] at hc
    rw [List.all_eq_true] at this
    have := this _ hc
    simp at this
  unfold urParse urString
  have hany : (urPrefix ++ ty ++ [SLASH] ++ bytewordsMinimal data).any (fun c => decide (c ≥ 128)) = false := by
    simp only [List.any_append, hlt _ htyp, hlt _ hbody, Bool.or_false]
    decide
  have hmap : (urPrefix ++ ty ++ [SLASH] ++ bytewordsMinimal data).map lowerAscii
      = urPrefix ++ (ty ++ SLASH :: bytewordsMinimal data) := by
    simp only [List.map_append, hlow _ htyp, hlow _ hbody, List.append_assoc]
    rfl
  simp only [hany, Bool.false_eq_true, if_false, hmap, stripPrefix_append,
    splitOnce_append ty _ (hns _ htyp), hty, Bool.not_true, hcont, bytewordsDecode_minimal]

/-- `from_ur_string` sees its input only through "is there a non-ASCII character" and the lower-cased text -/
theorem urParse_congr (s t : Text) (h1 : s.any (fun c => decide (c ≥ 128)) = t.any (fun c => decide (c ≥ 128)))
    (h2 : s.map lowerAscii = t.map lowerAscii) : urParse s = urParse t := by
  simp only [urParse, h1, h2]

theorem lower_upper (c : Nat) : lowerAscii (upperAscii c) = lowerAscii c := by
  simp only [lowerAscii, upperAscii, Bool.and_eq_true, decide_eq_true_eq]
  repeat' split
  all_goals omega

theorem upper_ge (c : Nat) : decide (upperAscii c ≥ 128) = decide (c ≥ 128) := by
  simp only [upperAscii, Bool.and_eq_true, decide_eq_true_eq]
  split
  · have : ¬ (c ≥ 128) := by omega
    have : ¬ (c - 32 ≥ 128) := by omega
    simp [*]
  · rfl

/-- the upper-cased string (QR form) parses to the same UR -/
theorem urParse_upper (s : Text) : urParse (s.map upperAscii) = urParse s := by
  apply urParse_congr
  · induction s with
    | nil => rfl
    | cons c cs ih => simp only [List.map_cons, List.any_cons, upper_ge, ih]
  · induction s with
    | nil => rfl
    | cons c cs ih => simp only [List.map_cons, lower_upper, ih]

/-! ### the UR reader accepts nothing but (a letter-case variant of) the canonical string -/

theorem findPair_sound : ∀ (l : List (Nat × Nat)) (x y i j : Nat), findPair l x y i = some j →
    i ≤ j ∧ l[j - i]? = some (x, y)
  | [], _, _, _, _, h => by simp [findPair] at h
  | (p, q) :: rest, x, y, i, j, h => by
    simp only [findPair] at h
    split at h
    · rename_i hc
      simp only [Bool.and_eq_true, beq_iff_eq] at hc
      injection h with h
      subst h
      simp [hc.1, hc.2]
    · obtain ⟨h1, h2⟩ := findPair_sound rest x y (i + 1) j h
      refine ⟨by omega, ?_⟩
      have : j - i = (j - (i + 1)) + 1 := by omega
      rw [this, List.getElem?_cons_succ]
      exact h2

theorem minimalOf_of_byteOfPair (x y : Nat) (b : UInt8) (h : byteOfPair x y = some b) : minimalOf b = (x, y) := by
  simp only [byteOfPair, Option.map_eq_some_iff] at h
  obtain ⟨j, hj, rfl⟩ := h
  obtain ⟨_, h2⟩ := findPair_sound minimals x y 0 j hj
  simp only [Nat.sub_zero] at h2
  have hlt : j < 256 := by
    have := List.getElem?_eq_some_iff.mp h2
    obtain ⟨hl, _⟩ := this
    rw [minimals_length] at hl; exact hl
  have hto : (UInt8.ofNat j).toNat = j := by simp [Nat.mod_eq_of_lt hlt]
  simp only [minimalOf]
  have := List.getElem?_eq_some_iff.mp h2
  obtain ⟨hl, he⟩ := this
  simp only [hto]
  exact he

theorem encodeLetters_of_decodeLetters : ∀ (n : Nat) (t : Text) (bs : Bytes), t.length ≤ n →
    decodeLetters t = some bs → encodeLetters bs = t
  | _, [], bs, _, h => by simp [decodeLetters] at h; subst h; rfl
  | _, [_], _, _, h => by simp [decodeLetters] at h
  | 0, _ :: _ :: _, _, hl, _ => by simp at hl
  | n + 1, x :: y :: rest, bs, hl, h => by
    simp only [decodeLetters] at h
    cases hb : byteOfPair x y with
    | none => simp [hb] at h
    | some b =>
      cases hr : decodeLetters rest with
      | none => simp [hb, hr] at h
      | some r =>
        simp only [hb, hr, Option.some.injEq] at h
        subst h
        have ih := encodeLetters_of_decodeLetters n rest r (by simp at hl; omega) hr
        have hm := minimalOf_of_byteOfPair x y b hb
        simp only [encodeLetters, hm, ih]

theorem stripChecksum_sound (data p : Bytes) (h : stripChecksum data = some p) :
    data = p ++ beBytes 4 (crc32 p) := by
  unfold stripChecksum at h
  split at h
  · simp at h
  · simp only at h
    split at h
    · rename_i hc
      injection h with h
      have he : beBytes 4 (crc32 (List.take (data.length - 4) data)) = List.drop (data.length - 4) data := by
        simpa using hc
      rw [← h, he, List.take_append_drop]
    · simp at h

theorem bytewordsDecode_sound (t : Text) (p : Bytes) (h : bytewordsDecode t = some p) : bytewordsMinimal p = t := by
  unfold bytewordsDecode at h
  cases hd : decodeLetters t with
  | none => simp [hd] at h
  | some data =>
    simp only [hd] at h
    have h1 := stripChecksum_sound data p h
    have h2 := encodeLetters_of_decodeLetters t.length t data (Nat.le_refl _) hd
    simp only [bytewordsMinimal, ← h1, h2]

theorem stripPrefix_sound : ∀ (p s r : Text), stripPrefix p s = some r → s = p ++ r
  | [], s, r, h => by cases s <;> simp [stripPrefix] at h <;> simp [h]
  | _ :: _, [], _, h => by simp [stripPrefix] at h
  | a :: as, c :: cs, r, h => by
    simp only [stripPrefix] at h
    split at h
    · rename_i hc
      have := stripPrefix_sound as cs r h
      simp only [beq_iff_eq] at hc
      simp [hc, this]
    · simp at h

theorem splitOnce_sound : ∀ (s a b : Text), splitOnce s = some (a, b) → s = a ++ SLASH :: b
  | [], _, _, h => by simp [splitOnce] at h
  | c :: rest, a, b, h => by
    simp only [splitOnce] at h
    split at h
    · rename_i hc
      simp only [beq_iff_eq] at hc
      injection h with h
      injection h with h1 h2
      subst h1; subst h2; simp [hc]
    · cases hr : splitOnce rest with
      | none => simp [hr] at h
      | some ab =>
        obtain ⟨a', b'⟩ := ab
        simp only [hr, Option.some.injEq, Prod.mk.injEq] at h
        obtain ⟨h1, h2⟩ := h
        subst h1; subst h2
        have := splitOnce_sound rest a' b' hr
        simp [this]

/-- **only the canonical string is read**: whatever `from_ur_string` accepts is, after lower-casing, exactly the
string `UR::string` writes for the type and bytes it was read as -/
theorem urString_of_urParse (s ty : Text) (data : Bytes) (h : urParse s = some (ty, data)) :
    s.map lowerAscii = urString ty data := by
  unfold urParse at h
  split at h
  · simp at h
  · simp only at h
    cases hp : stripPrefix urPrefix (List.map lowerAscii s) with
    | none => simp [hp] at h
    | some rest =>
      simp only [hp] at h
      cases hs : splitOnce rest with
      | none => simp [hs] at h
      | some tb =>
        obtain ⟨t, body⟩ := tb
        simp only [hs] at h
        split at h
        · simp at h
        · split at h
          · simp at h
          · cases hb : bytewordsDecode body with
            | none => simp [hb] at h
            | some d =>
              simp only [hb, Option.some.injEq, Prod.mk.injEq] at h
              obtain ⟨h1, h2⟩ := h
              subst h1; subst h2
              have e1 := stripPrefix_sound _ _ _ hp
              have e2 := splitOnce_sound _ _ _ hs
              have e3 := bytewordsDecode_sound _ _ hb
              simp only [urString, e1, e2, e3, List.append_assoc, List.singleton_append]

end Ur
end EnvVerif
