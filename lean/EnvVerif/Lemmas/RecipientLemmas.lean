/-
  Lemmas/RecipientLemmas.lean — helper lemmas for C10 (public-key recipients) and C11
  (SSKR): closed forms of the model functions of `Model/Recipient.lean`.
-/
import EnvVerif.Lemmas.RecipientLaws
import EnvVerif.Lemmas.WalkLemmas
import EnvVerif.Lemmas.ObscureLemmas
import EnvVerif.Lemmas.InvLemmas
namespace EnvVerif
namespace RecL
open Env

/-! ### vocabulary -/

/-- the known value `'hasRecipient'` as an envelope -/
def recKV (h : Hash) : Env := newKnownValue h KV_HAS_RECIPIENT

/-- the known value `'sskrShare'` as an envelope -/
def shareKV (h : Hash) : Env := newKnownValue h KV_SSKR_SHARE

/-- the assertion `'sskrShare': share` -/
def shareAssertion (h : Hash) (share : Cbor) : Env := newAssertion h (shareKV h) (newLeaf h share)

/-- what `first_plaintext_in_sealed_messages` gets out of one sealed message: nothing when
the scheme differs (`unsealMsg` is not consulted), else what `unsealMsg` returns -/
def opens (K : Kem) (key : Nat) (s : Cbor) : Option Bytes :=
  if K.schemeOfSealed s != K.schemeOfKey key then none else K.unsealMsg key s

/-- `add_assertion_envelope` ignores an assertion whose digest is already carried by an
element of the envelope.  `NoShadow h e l`: among the assertions of `e` and the assertions
`l` that are going to be added, only an assertion itself carries its digest (no elided or
otherwise different element with the digest of one of the added assertions; no hash
collision among them). -/
def NoShadow (e : Env) (l : List Env) : Prop :=
  ∀ a ∈ l, ∀ y, (y ∈ e.assertions ∨ y ∈ l) → y.digest = a.digest → y = a

theorem digest_node (s : Env) (as : List Env) (d : Digest) : (Env.node s as d).digest = d := rfl
theorem digest_encrypted (m : EncMsg) (d : Digest) : (Env.encrypted m d).digest = d := rfl

/-! ### folds of `normAdd` without injectivity assumptions -/

theorem mem_normAdd_old {as : List Env} {a x : Env} (hx : x ∈ as) : x ∈ AW.normAdd as a := by
  unfold AW.normAdd
  split
  · exact hx
  · exact mem_sortByDigest.2 (List.mem_append_left _ hx)

theorem normAdd_digest (as : List Env) (a : Env) : ∃ y ∈ AW.normAdd as a, y.digest = a.digest := by
  unfold AW.normAdd
  split
  · rename_i hany
    exact AW.any_digest_iff.1 hany
  · exact ⟨a, mem_sortByDigest.2 (by simp), rfl⟩

theorem mem_foldl_normAdd_old : ∀ (l : List Env) {as : List Env} {x : Env}, x ∈ as →
    x ∈ l.foldl AW.normAdd as
  | [], _, _, hx => hx
  | _ :: l, _, _, hx => mem_foldl_normAdd_old l (mem_normAdd_old hx)

theorem mem_foldl_normAdd_sub : ∀ (l : List Env) {as : List Env} {x : Env},
    x ∈ l.foldl AW.normAdd as → x ∈ as ∨ x ∈ l
  | [], _, _, hx => Or.inl hx
  | a :: l, as, x, hx => by
    rcases mem_foldl_normAdd_sub l hx with h | h
    · rcases AW.mem_normAdd_sub h with h | h
      · exact Or.inl h
      · exact Or.inr (by simp [h])
    · exact Or.inr (List.mem_cons_of_mem _ h)

theorem foldl_normAdd_digest : ∀ (l : List Env) {as : List Env} {a : Env}, a ∈ l →
    ∃ y ∈ l.foldl AW.normAdd as, y.digest = a.digest
  | b :: l, as, a, ha => by
    rcases List.mem_cons.1 ha with rfl | ha
    · obtain ⟨y, hy, hd⟩ := normAdd_digest as a
      exact ⟨y, mem_foldl_normAdd_old l hy, hd⟩
    · exact foldl_normAdd_digest l ha

/-- an added assertion that is not shadowed is stored -/
theorem mem_foldl_normAdd_new {l as : List Env} {a : Env} (ha : a ∈ l)
    (hns : ∀ y, (y ∈ as ∨ y ∈ l) → y.digest = a.digest → y = a) : a ∈ l.foldl AW.normAdd as := by
  obtain ⟨y, hy, hd⟩ := foldl_normAdd_digest l (as := as) ha
  have := hns y (mem_foldl_normAdd_sub l hy) hd
  exact this ▸ hy

/-! ### `rebuild` -/

section
variable (h : Hash)

theorem rebuild_subject {s : Env} {as : List Env} (hc : s.isNode = false ∨ as ≠ []) :
    (AW.rebuild h s as).subject = s := by
  cases as with
  | nil =>
    rcases hc with hs | hs
    · cases s <;> first | rfl | cases hs
    · exact absurd rfl hs
  | cons a as => rfl

theorem rebuild_assertions {s : Env} {as : List Env} (hc : s.isNode = false ∨ as ≠ []) :
    (AW.rebuild h s as).assertions = as := by
  cases as with
  | nil =>
    rcases hc with hs | hs
    · cases s <;> first | rfl | cases hs
    · exact absurd rfl hs
  | cons a as => rfl

theorem rebuild_digest_congr {s s' : Env} (as : List Env) (hd : s.digest = s'.digest) :
    (AW.rebuild h s as).digest = (AW.rebuild h s' as).digest := by
  cases as with
  | nil => exact hd
  | cons a as =>
    show h.ofDigests (s.digest :: _) = h.ofDigests (s'.digest :: _)
    rw [hd]

theorem rebuild_cons (s a : Env) (as : List Env) :
    AW.rebuild h s (a :: as) =
      .node s (a :: as) (h.ofDigests (s.digest :: (a :: as).map Env.digest)) := rfl

/-- a rebuilt envelope satisfies the invariant when its parts do -/
theorem rebuild_inv {s : Env} {as : List Env} (hs : Inv h s) (has : ∀ a ∈ as, Inv h a)
    (hasc : AscDigests as) (hslot : ∀ a ∈ as, a.slotOk = true) : Inv h (AW.rebuild h s as) := by
  cases as with
  | nil => exact hs
  | cons a as =>
    refine ⟨?_, ?_⟩
    · simp only [rebuild_cons, WF]
      exact ⟨hs.1, (WFList_iff h _).2 (fun x hx => (has x hx).1), trivial⟩
    · simp only [rebuild_cons, Canon]
      exact ⟨hs.2, (CanonList_iff _).2 (fun x hx => (has x hx).2), by simp, hasc, hslot⟩

end

/-! ### `decrypt_subject` of a rebuilt envelope whose subject was encrypted -/

section
variable (h : Hash) (A : Aead)

theorem decryptSubject_rebuild (L : AeadLaws A) (k n : Bytes) {s : Env} {as : List Env}
    (hv : s.digest.Valid) (hrt : RoundTrips h s) (hasc : AscDigests as) :
    decryptSubject h A k (AW.rebuild h (Obs.encSubj A k n s) as) = .ok (AW.rebuild h s as) := by
  cases as with
  | nil =>
    simp only [AW.rebuild, Obs.encSubj]
    rw [Obs.decryptSubject_leaf_form h A (Obs.decryptMsg_encryptWithDigest L k n _ _)
      (Obs.optDigest_encryptWithDigest A k n _ hv) hrt]
    simp only [bne_self_eq_false, Bool.false_eq_true, if_false]
  | cons a as =>
    simp only [rebuild_cons, Obs.encSubj]
    rw [Obs.decryptSubject_node_form h A (Obs.decryptMsg_encryptWithDigest L k n _ _)
      (Obs.optDigest_encryptWithDigest A k n _ hv) hrt, Obs.newNodeUnchecked_ne h (by simp),
      Obs.mkNode_asc h hasc]
    simp only [Env.digest, bne_self_eq_false, Bool.false_eq_true, if_false]

theorem decryptSubject_rebuild_wrong_key (L : AeadLaws A) (k k' n : Bytes) {s : Env} {as : List Env}
    (hk : k' ≠ k) :
    decryptSubject h A k' (AW.rebuild h (Obs.encSubj A k n s) as) = .err "dep:Decrypt_failed" := by
  apply Obs.decryptSubject_dec_none h A (m := encryptWithDigest A k n (encode s) s.digest)
    (d0 := s.digest)
  · rw [rebuild_subject h (Or.inl rfl)]; rfl
  · exact Obs.decryptMsg_wrong_key L hk n _ _

/-- `decrypt_subject` panics only on a node without assertions (which the library never
builds) -/
theorem decryptSubject_np {k : Bytes} {r : Env}
    (hne : ∀ s as d, r = .node s as d → as ≠ []) (p : String) :
    decryptSubject h A k r ≠ .panic p := by
  intro hr
  cases hsub : r.subject with
  | encrypted m d0 =>
    cases hd : decryptMsg A k m with
    | none => rw [Obs.decryptSubject_dec_none h A hsub hd] at hr; cases hr
    | some pt =>
      cases ho : m.optDigest with
      | none =>
        unfold decryptSubject at hr
        simp only [hsub, hd, ho] at hr
        cases hr
      | some dd =>
        cases hx : decode h pt with
        | ok rs =>
          rcases Obs.subject_encrypted_cases hsub with rfl | ⟨as, d, rfl⟩
          · rw [Obs.decryptSubject_leaf_form h A hd ho hx] at hr
            split at hr <;> cases hr
          · rw [Obs.decryptSubject_node_form h A hd ho hx] at hr
            rw [Obs.newNodeUnchecked_ne h (hne _ _ _ rfl)] at hr
            dsimp only at hr
            split at hr
            · cases hr
            · split at hr <;> cases hr
        | err y =>
          unfold decryptSubject at hr
          simp only [hsub, hd, ho, hx] at hr
          cases hr
        | panic y => exact Obs.decode_np h pt y hx
  | _ =>
    rw [Obs.decryptSubject_not_encrypted h A (by rw [hsub]; rfl)] at hr
    cases hr

theorem canon_node_ne {r : Env} (hc : Canon r) : ∀ s as d, r = .node s as d → as ≠ [] := by
  rintro s as d rfl
  simp only [Canon] at hc
  exact hc.2.2.1

theorem rebuild_node_ne {s : Env} (hs : s.isNode = false) (as : List Env) :
    ∀ s' as' d, AW.rebuild h s as = .node s' as' d → as' ≠ [] := by
  intro s' as' d he
  cases as with
  | nil =>
    simp only [AW.rebuild] at he
    rw [he] at hs; cases hs
  | cons a as =>
    simp only [rebuild_cons, Env.node.injEq] at he
    rw [← he.2.1]; simp

/-- two keys under which `decrypt_subject` succeeds on one envelope are equal -/
theorem decryptSubject_key_unique (L : AeadLaws A) {k k' : Bytes} {r x x' : Env}
    (h1 : decryptSubject h A k r = .ok x) (h2 : decryptSubject h A k' r = .ok x') : k = k' := by
  obtain ⟨m, d0, pt, dd, rs, hs, hd, _⟩ := Obs.decryptSubject_ok_inv h A h1
  obtain ⟨m', d0', pt', dd', rs', hs', hd', _⟩ := Obs.decryptSubject_ok_inv h A h2
  rw [hs] at hs'
  cases hs'
  have e1 := L.dec_only_enc _ _ _ _ _ _ hd
  have e2 := L.dec_only_enc _ _ _ _ _ _ hd'
  rw [e1] at e2
  exact (L.enc_inj _ _ _ _ _ _ _ _ e2).1

end

/-! ### adding recipients -/

section
variable (h : Hash)

/-- the assertions `'hasRecipient': s` for a list of sealed messages -/
def recAs (sealeds : List Cbor) : List Env := sealeds.map (hasRecipientAssertion h)

theorem recA_slotOk (s : Cbor) : (hasRecipientAssertion h s).slotOk = true := rfl

theorem addRecipient_eq (e : Env) (s : Cbor) :
    addRecipient h e s = addAssertionEnvelope h e (hasRecipientAssertion h s) := by
  unfold addRecipient
  obtain ⟨r, hr⟩ := InvL.addAssertionEnvelope_isOk h (e := e) (recA_slotOk h s)
  rw [hr]

theorem addRecipients_eq_addAll (e : Env) (sealeds : List Cbor) :
    sealeds.foldl (fun (acc : Res Env) s => acc.bind fun x => addRecipient h x s) (Res.ok e) =
      addAll h e (recAs h sealeds) := by
  simp only [addAll, recAs, List.foldl_map, addRecipient_eq]

theorem recAs_all_slotOk (sealeds : List Cbor) : (recAs h sealeds).all slotOk = true := by
  simp only [recAs, List.all_map, List.all_eq_true]
  intro s _
  rfl

/-- adding recipients in closed form: the subject stays, the stored assertion list is the
fold of "insert unless the digest is present" -/
theorem addRecipients_closed {s : Env} {as : List Env} (hc : s.isNode = false ∨ as ≠ [])
    (sealeds : List Cbor) :
    sealeds.foldl (fun (acc : Res Env) x => acc.bind fun y => addRecipient h y x) (Res.ok (AW.rebuild h s as)) =
      Res.ok (AW.rebuild h s ((recAs h sealeds).foldl AW.normAdd as)) := by
  rw [addRecipients_eq_addAll, AW.addAll_rebuild h _ hc, recAs_all_slotOk]
  rfl

theorem addRecipients_closed_inv {e : Env} (hi : Inv h e) (sealeds : List Cbor) :
    sealeds.foldl (fun (acc : Res Env) x => acc.bind fun y => addRecipient h y x) (Res.ok e) =
      Res.ok (AW.rebuild h e.subject ((recAs h sealeds).foldl AW.normAdd e.assertions)) := by
  obtain ⟨hre, hc, _⟩ := AW.rebuild_of_inv hi
  have := addRecipients_closed h hc sealeds
  rw [hre] at this
  exact this

theorem foldl_normAdd_ne_nil_or {s : Env} {as : List Env} (hc : s.isNode = false ∨ as ≠ [])
    (l : List Env) : s.isNode = false ∨ l.foldl AW.normAdd as ≠ [] := by
  rcases hc with hs | hne
  · exact Or.inl hs
  · right
    cases as with
    | nil => exact absurd rfl hne
    | cons a as =>
      intro hnil
      have : a ∈ l.foldl AW.normAdd (a :: as) := mem_foldl_normAdd_old l (by simp)
      rw [hnil] at this
      cases this

end

/-! ### `encrypt_subject_to_recipients` in closed form -/

section
variable (h : Hash) (A : Aead)

/-- the envelope built by `encrypt_subject_to_recipients` -/
def built (ck n : Bytes) (sealeds : List Cbor) (e : Env) : Env :=
  AW.rebuild h (Obs.encSubj A ck n e.subject) ((recAs h sealeds).foldl AW.normAdd e.assertions)

/-- the envelope obtained by adding the same `'hasRecipient'` assertions without encrypting -/
def builtPlain (sealeds : List Cbor) (e : Env) : Env :=
  AW.rebuild h e.subject ((recAs h sealeds).foldl AW.normAdd e.assertions)

theorem encSubj_isNode (ck n : Bytes) (s : Env) : (Obs.encSubj A ck n s).isNode = false := rfl

theorem encryptSubjectToRecipients_eq (ck n : Bytes) (sealeds : List Cbor) {e : Env} (hi : Inv h e)
    (hH : ∀ b, (h.H b).Valid) :
    encryptSubjectToRecipients h A ck n sealeds e =
      match Obs.encryptRefusal e with
      | some x => .err x
      | none => .ok (built h A ck n sealeds e) := by
  unfold encryptSubjectToRecipients
  rw [Obs.encryptSubject_eq' h A ck n hi hH]
  cases hf : Obs.encryptRefusal e with
  | some x => rfl
  | none =>
    simp only
    have hi' := Obs.encryptSubjectSpec_inv h A ck n hi hH
    rw [addRecipients_closed_inv h hi', Obs.encryptSubjectSpec_subject,
      Obs.encryptSubjectSpec_assertions]
    rfl

theorem encryptSubjectToRecipients_ok {ck n : Bytes} {sealeds : List Cbor} {e r : Env}
    (hi : Inv h e) (hH : ∀ b, (h.H b).Valid)
    (hr : encryptSubjectToRecipients h A ck n sealeds e = .ok r) :
    r = built h A ck n sealeds e ∧ Obs.encryptRefusal e = none := by
  rw [encryptSubjectToRecipients_eq h A ck n sealeds hi hH] at hr
  cases hf : Obs.encryptRefusal e with
  | some x => rw [hf] at hr; cases hr
  | none => rw [hf] at hr; cases hr; exact ⟨rfl, rfl⟩

theorem built_subject (ck n : Bytes) (sealeds : List Cbor) (e : Env) :
    (built h A ck n sealeds e).subject = Obs.encSubj A ck n e.subject :=
  rebuild_subject h (Or.inl rfl)

theorem built_assertions (ck n : Bytes) (sealeds : List Cbor) (e : Env) :
    (built h A ck n sealeds e).assertions = (recAs h sealeds).foldl AW.normAdd e.assertions :=
  rebuild_assertions h (Or.inl rfl)

theorem subject_or_assertions {e : Env} (hi : Inv h e) :
    e.subject.isNode = false ∨ e.assertions ≠ [] := (AW.rebuild_of_inv hi).2.1

theorem builtPlain_subject (sealeds : List Cbor) {e : Env} (hi : Inv h e) :
    (builtPlain h sealeds e).subject = e.subject :=
  rebuild_subject h (foldl_normAdd_ne_nil_or (subject_or_assertions h hi) _)

theorem builtPlain_assertions (sealeds : List Cbor) {e : Env} (hi : Inv h e) :
    (builtPlain h sealeds e).assertions = (recAs h sealeds).foldl AW.normAdd e.assertions :=
  rebuild_assertions h (foldl_normAdd_ne_nil_or (subject_or_assertions h hi) _)

theorem built_digest (ck n : Bytes) (sealeds : List Cbor) (e : Env) :
    (built h A ck n sealeds e).digest = (builtPlain h sealeds e).digest :=
  rebuild_digest_congr h _ rfl

theorem asc_foldl_normAdd {e : Env} (hi : Inv h e) (l : List Env) :
    AscDigests (l.foldl AW.normAdd e.assertions) :=
  AW.foldl_normAdd_asc l (AW.rebuild_of_inv hi).2.2

/-- decrypting the built envelope with the content key gives the unencrypted envelope with
the same `'hasRecipient'` assertions -/
theorem decryptSubject_built (L : AeadLaws A) (ck n : Bytes) (sealeds : List Cbor) {e : Env}
    (hi : Inv h e) (hH : ∀ b, (h.H b).Valid) (hrt : RoundTrips h e.subject) :
    decryptSubject h A ck (built h A ck n sealeds e) = .ok (builtPlain h sealeds e) :=
  decryptSubject_rebuild h A L ck n (Obs.digest_valid hH (Obs.inv_subject hi)) hrt
    (asc_foldl_normAdd h hi _)

end

/-! ### `recipients()` -/

/-- the sealed message an assertion contributes to `recipients()`: none when its object is
obscured -/
def sealedOf (a : Env) : Option Cbor :=
  match asObject a.subject with
  | some o => if o.isObscured then none else extractSealed o
  | none => none

/-- an assertion over which `recipients()` neither fails nor panics -/
def GoodRec (a : Env) : Prop :=
  ∃ o, asObject a.subject = some o ∧ (o.isObscured = true ∨ (extractSealed o).isSome = true)

theorem recipientsLoop_ok_iff : ∀ (l : List Env) (L : List Cbor),
    recipientsLoop l = .ok L ↔ (∀ a ∈ l, GoodRec a) ∧ L = l.filterMap sealedOf
  | [], L => by
    simp only [recipientsLoop, Res.ok.injEq, List.not_mem_nil, false_imp_iff, implies_true,
      List.filterMap_nil, true_and]
    exact eq_comm
  | a :: l, L => by
    unfold recipientsLoop
    cases ho : asObject a.subject with
    | none =>
      simp only [reduceCtorEq, false_iff, not_and]
      intro hg
      obtain ⟨o, ho', _⟩ := hg a List.mem_cons_self
      rw [ho] at ho'; cases ho'
    | some o =>
      simp only
      by_cases hob : o.isObscured = true
      · have hso : sealedOf a = none := by simp [sealedOf, ho, hob]
        have hga : GoodRec a := ⟨o, ho, Or.inl hob⟩
        simp only [hob, if_true, recipientsLoop_ok_iff l L, List.mem_cons, forall_eq_or_imp, hga,
          true_and, List.filterMap_cons, hso]
      · have hob' : o.isObscured = false := by simpa using hob
        simp only [hob', Bool.false_eq_true, if_false]
        cases hx : extractSealed o with
        | none =>
          simp only [reduceCtorEq, false_iff, not_and]
          intro hg
          obtain ⟨o', ho', hc⟩ := hg a List.mem_cons_self
          rw [ho] at ho'; cases ho'
          rcases hc with hc | hc
          · rw [hob'] at hc; cases hc
          · rw [hx] at hc; cases hc
        | some s =>
          have hso : sealedOf a = some s := by simp [sealedOf, ho, hob', hx]
          have hga : GoodRec a := ⟨o, ho, Or.inr (by rw [hx]; rfl)⟩
          simp only [List.mem_cons, forall_eq_or_imp, hga, true_and, List.filterMap_cons, hso]
          cases hr : recipientsLoop l with
          | ok L' =>
            obtain ⟨hg1, hg2⟩ := (recipientsLoop_ok_iff l L').1 hr
            simp only [Res.ok.injEq, ← hg2]
            exact ⟨fun hh => ⟨hg1, hh.symm⟩, fun hh => hh.2.symm⟩
          | err x =>
            simp only [reduceCtorEq, false_iff, not_and]
            intro hg hL
            have := (recipientsLoop_ok_iff l _).2 ⟨hg, rfl⟩
            rw [hr] at this; cases this
          | panic x =>
            simp only [reduceCtorEq, false_iff, not_and]
            intro hg hL
            have := (recipientsLoop_ok_iff l _).2 ⟨hg, rfl⟩
            rw [hr] at this; cases this

theorem recipientsLoop_np : ∀ (l : List Env), (∀ a ∈ l, ∃ o, asObject a.subject = some o) →
    ∀ p, recipientsLoop l ≠ .panic p
  | [], _, p => by simp [recipientsLoop]
  | a :: l, hl, p => by
    have ih := recipientsLoop_np l (fun b hb => hl b (List.mem_cons_of_mem _ hb))
    obtain ⟨o, ho⟩ := hl a List.mem_cons_self
    unfold recipientsLoop
    simp only [ho]
    split
    · exact ih p
    · split
      · intro hh; cases hh
      · cases hr : recipientsLoop l with
        | ok L => intro hh; cases hh
        | err x => intro hh; cases hh
        | panic x => exact absurd hr (ih x)

section
variable (h : Hash)

theorem awp_asObject {e p a : Env} (ha : a ∈ assertionsWithPredicate e p) :
    ∃ o, asObject a.subject = some o := by
  obtain ⟨_, q, o, d, hs, _⟩ := AW.mem_awp.1 ha
  exact ⟨o, by rw [hs]; rfl⟩

/-- `recipients()` never panics: `as_object().unwrap()` is applied to assertions only -/
theorem recipients_np (e : Env) (p : String) : recipients h e ≠ .panic p :=
  recipientsLoop_np _ (fun _ ha => awp_asObject ha) p

theorem recipients_ok_iff (e : Env) (L : List Cbor) :
    recipients h e = .ok L ↔
      (∀ a ∈ assertionsWithPredicate e (recKV h), GoodRec a) ∧
        L = (assertionsWithPredicate e (recKV h)).filterMap sealedOf :=
  recipientsLoop_ok_iff _ L

theorem matches_recA (s : Cbor) : AW.matchesPred (hasRecipientAssertion h s) (recKV h) = true := by
  simp [AW.matchesPred, hasRecipientAssertion, newAssertion, Env.subject, asPredicate, recKV]

theorem sealedOf_recA {s : Cbor} (hs : ∃ x, s = .tagged TAG_SEALED_MESSAGE x) :
    sealedOf (hasRecipientAssertion h s) = some s := by
  obtain ⟨x, rfl⟩ := hs
  simp [sealedOf, hasRecipientAssertion, newAssertion, newLeaf, Env.subject, asObject, isObscured,
    isElided, isEncrypted, isCompressed, extractSealed]

theorem goodRec_recA {s : Cbor} (hs : ∃ x, s = .tagged TAG_SEALED_MESSAGE x) :
    GoodRec (hasRecipientAssertion h s) := by
  obtain ⟨x, rfl⟩ := hs
  exact ⟨newLeaf h _, rfl, Or.inr (by simp [newLeaf, extractSealed])⟩

/-- `recipients()` of an envelope whose stored assertions are the old ones plus (some of) the
`'hasRecipient'` assertions of `sealeds` -/
theorem recipients_of_assertions {e r : Env} {olds sealeds : List Cbor}
    (hold : recipients h e = .ok olds)
    (hsub : ∀ x ∈ r.assertions, x ∈ e.assertions ∨ x ∈ recAs h sealeds)
    (htag : ∀ s ∈ sealeds, ∃ x, s = .tagged TAG_SEALED_MESSAGE x) :
    ∃ R, recipients h r = .ok R ∧
      (∀ s ∈ R, s ∈ olds ∨ s ∈ sealeds) ∧
      (∀ a ∈ r.assertions, ∀ s, AW.matchesPred a (recKV h) = true → sealedOf a = some s → s ∈ R) := by
  obtain ⟨hgood, holds⟩ := (recipients_ok_iff h e olds).1 hold
  have hg : ∀ a ∈ assertionsWithPredicate r (recKV h), GoodRec a := by
    intro a ha
    rw [AW.awp_eq_filter, List.mem_filter] at ha
    rcases hsub a ha.1 with h1 | h1
    · exact hgood a (by rw [AW.awp_eq_filter, List.mem_filter]; exact ⟨h1, ha.2⟩)
    · simp only [recAs, List.mem_map] at h1
      obtain ⟨s, hs, rfl⟩ := h1
      exact goodRec_recA h (htag s hs)
  refine ⟨_, (recipients_ok_iff h r _).2 ⟨hg, rfl⟩, ?_, ?_⟩
  · intro s hs
    obtain ⟨a, ha, hsa⟩ := List.mem_filterMap.1 hs
    rw [AW.awp_eq_filter, List.mem_filter] at ha
    rcases hsub a ha.1 with h1 | h1
    · left
      rw [holds]
      exact List.mem_filterMap.2 ⟨a, by rw [AW.awp_eq_filter, List.mem_filter]; exact ⟨h1, ha.2⟩, hsa⟩
    · right
      simp only [recAs, List.mem_map] at h1
      obtain ⟨s', hs', rfl⟩ := h1
      rw [sealedOf_recA h (htag s' hs')] at hsa
      cases hsa
      exact hs'
  · intro a ha s hm hsa
    exact List.mem_filterMap.2 ⟨a, by rw [AW.awp_eq_filter, List.mem_filter]; exact ⟨ha, hm⟩, hsa⟩

end

/-! ### `first_plaintext_in_sealed_messages` -/

theorem firstPlaintext_eq (K : Kem) (key : Nat) : ∀ (l : List Cbor),
    firstPlaintext K key l =
      match l.findSome? (opens K key) with
      | some p => .ok p
      | none => .err "UnknownRecipient"
  | [] => rfl
  | s :: l => by
    unfold firstPlaintext
    rw [List.findSome?_cons]
    unfold opens
    by_cases hsch : (K.schemeOfSealed s != K.schemeOfKey key) = true
    · simp only [hsch, if_true]
      exact firstPlaintext_eq K key l
    · simp only [hsch, Bool.false_eq_true, if_false]
      cases K.unsealMsg key s with
      | some p => rfl
      | none => exact firstPlaintext_eq K key l

theorem findSome?_unique {α β} {f : α → Option β} {l : List α} {b : β}
    (hex : ∃ a ∈ l, f a = some b) (hall : ∀ a ∈ l, ∀ q, f a = some q → q = b) :
    l.findSome? f = some b := by
  cases hf : l.findSome? f with
  | none =>
    obtain ⟨a, ha, hfa⟩ := hex
    rw [List.findSome?_eq_none_iff.1 hf a ha] at hfa
    cases hfa
  | some q =>
    obtain ⟨a, ha, hfa⟩ := List.exists_of_findSome?_eq_some hf
    rw [hall a ha q hfa]

theorem firstPlaintext_ok {K : Kem} {key : Nat} {l : List Cbor} {pt : Bytes}
    (hex : ∃ s ∈ l, opens K key s = some pt) (hall : ∀ s ∈ l, ∀ q, opens K key s = some q → q = pt) :
    firstPlaintext K key l = .ok pt := by
  rw [firstPlaintext_eq, findSome?_unique hex hall]

theorem firstPlaintext_err {K : Kem} {key : Nat} {l : List Cbor}
    (hall : ∀ s ∈ l, opens K key s = none) : firstPlaintext K key l = .err "UnknownRecipient" := by
  rw [firstPlaintext_eq, List.findSome?_eq_none_iff.2 hall]

theorem firstPlaintext_np (K : Kem) (key : Nat) (l : List Cbor) (p : String) :
    firstPlaintext K key l ≠ .panic p := by
  rw [firstPlaintext_eq]
  cases l.findSome? (opens K key) <;> (intro hh; cases hh)

theorem opens_seal {K : Kem} {S : Sealer} (L : KemLaws K S) (k : Nat) (p : Bytes) (r : Nat) :
    opens K k (S.sealTo k p r) = some p := by
  simp [opens, L.scheme, L.unseal_seal]

theorem opens_seal_other {K : Kem} {S : Sealer} (L : KemLaws K S) {k k' : Nat} (p : Bytes) (r : Nat)
    (hk : k' ≠ k) : opens K k' (S.sealTo k p r) = none := by
  unfold opens
  split
  · rfl
  · cases hu : K.unsealMsg k' (S.sealTo k p r) with
    | none => rfl
    | some q => exact absurd (L.unseal_only _ _ _ _ _ hu) hk

/-! ### the content key as the plaintext of a sealed message -/

theorem enc_symmetricKeyCbor (ck : Bytes) (hck : ck.length = 32) :
    (symmetricKeyCbor ck).enc = 217 :: 156 :: 87 :: 88 :: 32 :: ck := by
  simp [symmetricKeyCbor, TAG_SYMMETRIC_KEY, Cbor.enc, Cbor.head, hck, beBytes]

theorem dec_symmetricKey (ck : Bytes) (hck : ck.length = 32) :
    Cbor.dec (217 :: 156 :: 87 :: 88 :: 32 :: ck) = .ok (.tagged 40023 (.bytes ck)) := by
  have hf : 2 * (217 :: 156 :: 87 :: 88 :: 32 :: ck).length + 2 = 74 + 1 + 1 := by simp [hck]
  unfold Cbor.dec
  rw [hf, Cbor.decItem]
  have h1 : Cbor.decHead (217 :: 156 :: 87 :: 88 :: 32 :: ck) =
      .ok (6, 25, 40023, 88 :: 32 :: ck) := by
    simp [Cbor.decHead, beNat]
  rw [h1]
  simp [Obs.decItem_bytes32 74 ck hck]

/-- `SymmetricKey::from_tagged_cbor_data(key.to_cbor_data()) = key` -/
theorem symmetricKeyOfData_enc (ck : Bytes) (hck : ck.length = 32) :
    symmetricKeyOfData (symmetricKeyCbor ck).enc = .ok ck := by
  simp [symmetricKeyOfData, Cbor.dec?, enc_symmetricKeyCbor ck hck, dec_symmetricKey ck hck,
    symmetricKeyOfCbor?, TAG_SYMMETRIC_KEY, hck]

theorem symmetricKeyOfData_np (b : Bytes) (p : String) : symmetricKeyOfData b ≠ .panic p := by
  unfold symmetricKeyOfData
  split
  · intro hh; cases hh
  · split <;> (intro hh; cases hh)

/-! ### `decrypt_subject_to_recipient` on the built envelope -/

section
variable (h : Hash) (A : Aead)

theorem decryptSubjectToRecipient_of {K : Kem} {key : Nat} {e : Env} {R : List Cbor} {pt ck : Bytes}
    (hR : recipients h e = .ok R) (hp : firstPlaintext K key R = .ok pt)
    (hk : symmetricKeyOfData pt = .ok ck) :
    decryptSubjectToRecipient h A K key e = decryptSubject h A ck e := by
  simp only [decryptSubjectToRecipient, hR, hp, hk]

theorem decryptSubjectToRecipient_unknown {K : Kem} {key : Nat} {e : Env} {R : List Cbor}
    (hR : recipients h e = .ok R) (hp : firstPlaintext K key R = .err "UnknownRecipient") :
    decryptSubjectToRecipient h A K key e = .err "UnknownRecipient" := by
  simp only [decryptSubjectToRecipient, hR, hp]

/-- the sealed messages made for the recipients `krs` (key id, sender's randomness) -/
def sealsFor (S : Sealer) (ck : Bytes) (krs : List (Nat × Nat)) : List Cbor :=
  krs.map fun kr => S.sealTo kr.1 (symmetricKeyCbor ck).enc kr.2

theorem sealsFor_tagged {K : Kem} {S : Sealer} (LK : KemLaws K S) (ck : Bytes) (krs : List (Nat × Nat)) :
    ∀ s ∈ sealsFor S ck krs, ∃ x, s = .tagged TAG_SEALED_MESSAGE x := by
  intro s hs
  simp only [sealsFor, List.mem_map] at hs
  obtain ⟨kr, _, rfl⟩ := hs
  exact LK.tagged _ _ _

theorem built_assertions_sub (ck n : Bytes) (sealeds : List Cbor) (e : Env) :
    ∀ x ∈ (built h A ck n sealeds e).assertions, x ∈ e.assertions ∨ x ∈ recAs h sealeds := by
  intro x hx
  rw [built_assertions] at hx
  exact mem_foldl_normAdd_sub _ hx

/-- every listed recipient opens the built envelope and gets the unencrypted envelope with
the `'hasRecipient'` assertions -/
theorem recipient_opens {K : Kem} {S : Sealer} (LA : AeadLaws A) (LK : KemLaws K S) {e : Env}
    (hi : Inv h e) (hH : ∀ b, (h.H b).Valid) (hrt : RoundTrips h e.subject) {ck : Bytes}
    (hck : ck.length = 32) (n : Bytes) (krs : List (Nat × Nat)) {olds : List Cbor}
    (hold : recipients h e = .ok olds) {k : Nat} (hk : k ∈ krs.map Prod.fst)
    (holds : ∀ s ∈ olds, ∀ q, opens K k s = some q → q = (symmetricKeyCbor ck).enc)
    (hns : NoShadow e (recAs h (sealsFor S ck krs))) :
    decryptSubjectToRecipient h A K k (built h A ck n (sealsFor S ck krs) e) =
      .ok (builtPlain h (sealsFor S ck krs) e) := by
  obtain ⟨R, hR, hRsub, hRmem⟩ := recipients_of_assertions h hold
    (built_assertions_sub h A ck n (sealsFor S ck krs) e) (sealsFor_tagged LK ck krs)
  obtain ⟨kr, hkr, rfl⟩ := List.mem_map.1 hk
  have hs : S.sealTo kr.1 (symmetricKeyCbor ck).enc kr.2 ∈ sealsFor S ck krs :=
    List.mem_map.2 ⟨kr, hkr, rfl⟩
  have hmemA : hasRecipientAssertion h (S.sealTo kr.1 (symmetricKeyCbor ck).enc kr.2) ∈
      (built h A ck n (sealsFor S ck krs) e).assertions := by
    rw [built_assertions]
    exact mem_foldl_normAdd_new (List.mem_map.2 ⟨_, hs, rfl⟩) (hns _ (List.mem_map.2 ⟨_, hs, rfl⟩))
  have hinR := hRmem _ hmemA _ (matches_recA h _) (sealedOf_recA h (LK.tagged _ _ _))
  have hp : firstPlaintext K kr.1 R = .ok (symmetricKeyCbor ck).enc := by
    apply firstPlaintext_ok ⟨_, hinR, opens_seal LK _ _ _⟩
    intro s hs q hq
    rcases hRsub s hs with h1 | h1
    · exact holds s h1 q hq
    · simp only [sealsFor, List.mem_map] at h1
      obtain ⟨kr', _, rfl⟩ := h1
      by_cases hkk : kr.1 = kr'.1
      · rw [hkk, opens_seal LK] at hq
        cases hq; rfl
      · rw [opens_seal_other LK _ _ hkk] at hq
        cases hq
  rw [decryptSubjectToRecipient_of h A hR hp (symmetricKeyOfData_enc ck hck)]
  exact decryptSubject_built h A LA ck n _ hi hH hrt

/-- a key that is not listed (and opens none of the earlier sealed messages) is refused -/
theorem non_recipient_refused {K : Kem} {S : Sealer} (LK : KemLaws K S) {e : Env} (ck n : Bytes)
    (krs : List (Nat × Nat)) {olds : List Cbor} (hold : recipients h e = .ok olds) {k : Nat}
    (hk : k ∉ krs.map Prod.fst) (holds : ∀ s ∈ olds, opens K k s = none) :
    decryptSubjectToRecipient h A K k (built h A ck n (sealsFor S ck krs) e) =
      .err "UnknownRecipient" := by
  obtain ⟨R, hR, hRsub, _⟩ := recipients_of_assertions h hold
    (built_assertions_sub h A ck n (sealsFor S ck krs) e) (sealsFor_tagged LK ck krs)
  apply decryptSubjectToRecipient_unknown h A hR
  apply firstPlaintext_err
  intro s hs
  rcases hRsub s hs with h1 | h1
  · exact holds s h1
  · simp only [sealsFor, List.mem_map] at h1
    obtain ⟨kr', hkr', rfl⟩ := h1
    apply opens_seal_other LK
    rintro rfl
    exact hk (List.mem_map.2 ⟨kr', hkr', rfl⟩)

end

/-! ### adding one recipient: the earlier ones keep opening -/

theorem findSome?_filterMap_filter {α β γ} (m : α → Bool) (g : α → Option β) (f : β → Option γ) :
    ∀ (L : List α), ((L.filter m).filterMap g).findSome? f =
      L.findSome? (fun a => if m a then (g a).bind f else none)
  | [] => rfl
  | a :: L => by
    rw [List.findSome?_cons, List.filter_cons]
    cases hm : m a with
    | false =>
      simp only [Bool.false_eq_true, if_false]
      exact findSome?_filterMap_filter m g f L
    | true =>
      simp only [if_true, List.filterMap_cons]
      cases hg : g a with
      | none =>
        simp only [Option.bind_none]
        exact findSome?_filterMap_filter m g f L
      | some b =>
        simp only [Option.bind_some, List.findSome?_cons]
        cases f b with
        | some c => rfl
        | none => exact findSome?_filterMap_filter m g f L

theorem findSome?_skip {α β} (f : α → Option β) (p : α → Bool) :
    ∀ (l : List α), (∀ x ∈ l, p x = false → f x = none) → (l.filter p).findSome? f = l.findSome? f
  | [], _ => rfl
  | a :: l, hp => by
    have ih := findSome?_skip f p l (fun x hx => hp x (List.mem_cons_of_mem _ hx))
    rw [List.filter_cons, List.findSome?_cons]
    cases hpa : p a with
    | true => simp only [if_true, List.findSome?_cons, ih]
    | false =>
      simp only [Bool.false_eq_true, if_false, hp a List.mem_cons_self hpa, ih]

/-- removing the element just inserted into an ascending list -/
theorem filter_sort_snoc {as : List Env} {a : Env} (hasc : AscDigests as)
    (hn : ∀ x ∈ as, x.digest ≠ a.digest) :
    (sortByDigest (as ++ [a])).filter (fun x => x.digest != a.digest) = as := by
  have h1 : AscDigests ((sortByDigest (as ++ [a])).filter (fun x => x.digest != a.digest)) :=
    List.Pairwise.filter _ (AW.sort_snoc_asc hasc hn)
  apply AW.asc_ext h1 hasc
  intro x
  rw [List.mem_filter, mem_sortByDigest]
  constructor
  · rintro ⟨hx, hp⟩
    rcases List.mem_append.1 hx with hx | hx
    · exact hx
    · simp only [List.mem_singleton] at hx
      subst hx
      simp at hp
  · intro hx
    exact ⟨List.mem_append_left _ hx, by simpa using hn x hx⟩

section
variable (h : Hash) (A : Aead)

/-- what `first_plaintext_in_sealed_messages` finds in `recipients()` of an envelope, as one
search through the stored assertions -/
def recSearch (K : Kem) (key : Nat) (a : Env) : Option Bytes :=
  if AW.matchesPred a (recKV h) then (sealedOf a).bind (opens K key) else none

theorem firstPlaintext_recipients {K : Kem} {key : Nat} {e : Env} {R : List Cbor}
    (hR : recipients h e = .ok R) :
    firstPlaintext K key R =
      match e.assertions.findSome? (recSearch h K key) with
      | some p => .ok p
      | none => .err "UnknownRecipient" := by
  rw [(recipients_ok_iff h e R).1 hR |>.2, firstPlaintext_eq, AW.awp_eq_filter,
    findSome?_filterMap_filter]
  rfl

/-- the stored assertions after `add_recipient` -/
theorem addRecipient_closed {e : Env} (hi : Inv h e) (s : Cbor) :
    addRecipient h e s =
      .ok (AW.rebuild h e.subject (AW.normAdd e.assertions (hasRecipientAssertion h s))) := by
  have := addRecipients_closed_inv h hi [s]
  simpa [recAs, Res.bind] using this

/-- decrypting the subject of an envelope that decrypts, after its assertion list was
replaced by another ascending non-empty list -/
theorem decryptSubject_other_assertions {k : Bytes} {e x : Env} (hi : Inv h e)
    (hx : decryptSubject h A k e = .ok x) {as' : List Env} (hasc : AscDigests as') (hne : as' ≠ []) :
    ∃ x', decryptSubject h A k (AW.rebuild h e.subject as') = .ok x' ∧
      x'.digest = (AW.rebuild h e.subject as').digest ∧ x'.assertions = as' := by
  obtain ⟨m, d0, pt, dd, rs, hs, hd, ho, hdec, hrs, _⟩ := Obs.decryptSubject_ok_inv h A hx
  have hw : WF h e.subject := (Obs.inv_subject hi).1
  rw [hs] at hw
  simp only [WF] at hw
  rw [hw] at ho
  cases ho
  rw [hs, AW.rebuild_ne hne, AW.nodeOf]
  rw [Obs.decryptSubject_node_form h A hd hw hdec, Obs.newNodeUnchecked_ne h hne,
    Obs.mkNode_asc h hasc]
  refine ⟨.node rs as' (h.ofDigests (rs.digest :: as'.map Env.digest)), ?_, ?_, rfl⟩
  · simp only [hrs, digest_node, digest_encrypted, bne_self_eq_false, Bool.false_eq_true, if_false]
  · simp only [hrs, digest_node, digest_encrypted]

end

/-! ### SSKR: share envelopes -/

section
variable (h : Hash)

theorem shareA_slotOk (sh : Cbor) : (shareAssertion h sh).slotOk = true := rfl

theorem addSskrShare_eq (e : Env) (sh : Cbor) :
    addSskrShare h e sh = addAssertionEnvelope h e (shareAssertion h sh) := by
  unfold addSskrShare addAssertionUnwrap
  obtain ⟨r, hr⟩ := InvL.addAssertionEnvelope_isOk h (e := e) (shareA_slotOk h sh)
  rw [show newAssertion h (newKnownValue h KV_SSKR_SHARE) (newLeaf h sh) = shareAssertion h sh from rfl, hr]

theorem addAssertionEnvelope_subject {e a r : Env} (hr : addAssertionEnvelope h e a = .ok r) :
    r.subject = e.subject := by
  unfold addAssertionEnvelope at hr
  split at hr
  · cases hr
  · cases e with
    | node s as d =>
      simp only at hr
      split at hr
      · cases hr; rfl
      · have hne : (as ++ [a]).isEmpty = false := by cases as <;> rfl
        simp only [newNodeUnchecked, hne, Bool.false_eq_true, if_false, Res.ok.injEq] at hr
        subst hr; rfl
    | _ =>
      simp only [newNodeUnchecked, List.isEmpty_cons, Bool.false_eq_true, if_false,
        Res.ok.injEq] at hr
      subst hr; rfl

/-- the envelope `add_sskr_share` makes -/
def shareEnv (e : Env) (sh : Cbor) : Env :=
  AW.rebuild h e.subject (AW.normAdd e.assertions (shareAssertion h sh))

theorem addSskrShare_closed {e : Env} (hi : Inv h e) (sh : Cbor) :
    addSskrShare h e sh = .ok (shareEnv h e sh) := by
  obtain ⟨hre, hc, _⟩ := AW.rebuild_of_inv hi
  rw [addSskrShare_eq]
  have := AW.add_rebuild h hc (shareA_slotOk h sh)
  rw [hre] at this
  exact this

theorem sskrSplitGroup_closed {e : Env} (hi : Inv h e) : ∀ (sub : List Cbor),
    sskrSplitGroup h e sub = .ok (sub.map (shareEnv h e))
  | [] => rfl
  | s :: sub => by
    unfold sskrSplitGroup
    rw [addSskrShare_closed h hi, sskrSplitGroup_closed hi sub]
    rfl

theorem shareEnv_subject (e : Env) (sh : Cbor) :
    (shareEnv h e sh).subject = e.subject :=
  rebuild_subject h (Or.inr (AW.normAdd_ne_nil _ _))

theorem shareEnv_assertions (e : Env) (sh : Cbor) :
    (shareEnv h e sh).assertions = AW.normAdd e.assertions (shareAssertion h sh) :=
  rebuild_assertions h (Or.inr (AW.normAdd_ne_nil _ _))

theorem shareEnv_eq_node (e : Env) (sh : Cbor) :
    ∃ a as d, shareEnv h e sh = .node e.subject (a :: as) d := by
  unfold shareEnv
  cases hl : AW.normAdd e.assertions (shareAssertion h sh) with
  | nil => exact absurd hl (AW.normAdd_ne_nil _ _)
  | cons a as => exact ⟨a, as, _, rfl⟩

theorem filter_sort_snoc_single {as : List Env} {a : Env} (p : Env → Bool)
    (hnone : ∀ x ∈ as, p x = false) (hp : p a = true) :
    (sortByDigest (as ++ [a])).filter p = [a] := by
  have hperm := (sortByDigest_perm (as ++ [a])).filter p
  have hf : (as ++ [a]).filter p = [a] := by
    rw [List.filter_append, List.filter_eq_nil_iff.2 (fun x hx => by simp [hnone x hx])]
    simp [hp]
  rw [hf] at hperm
  exact List.perm_singleton.1 hperm

theorem matches_shareA (sh : Cbor) : AW.matchesPred (shareAssertion h sh) (shareKV h) = true := by
  simp [AW.matchesPred, shareAssertion, newAssertion, Env.subject, asPredicate]

/-- the `'sskrShare'` assertions of a share envelope made from an envelope that has none: the
one that was added (when its digest is not already carried by an element) -/
theorem awp_shareEnv {e : Env} {sh : Cbor} (hnone : assertionsWithPredicate e (shareKV h) = [])
    (hfresh : ∀ y ∈ e.assertions, y.digest ≠ (shareAssertion h sh).digest) :
    assertionsWithPredicate (shareEnv h e sh) (shareKV h) = [shareAssertion h sh] := by
  rw [AW.awp_eq_filter, shareEnv_assertions]
  have hany : e.assertions.any (fun x => x.digest == (shareAssertion h sh).digest) = false :=
    AW.any_digest_false_iff.2 hfresh
  simp only [AW.normAdd, hany, Bool.false_eq_true, if_false]
  apply filter_sort_snoc_single (fun a => AW.matchesPred a (shareKV h)) _ (matches_shareA h sh)
  intro x hx
  rw [AW.awp_eq_filter, List.filter_eq_nil_iff] at hnone
  simpa using hnone x hx

theorem sharesLoop_single {sh : Cbor} {b : Bytes} (hs : sh = .tagged TAG_SSKR_SHARE (.bytes b))
    (hb : 5 ≤ b.length) : sharesLoop [shareAssertion h sh] = .ok [sh] := by
  subst hs
  have hlt : ¬ b.length < 5 := by omega
  simp [sharesLoop, shareAssertion, newAssertion, newLeaf, Env.subject, asObject, extractShare,
    shareTooShort, shareBytes?, hlt]

/-- a readable share that holds at least the 5 metadata bytes -/
def ShareOk (sh : Cbor) : Prop := ∃ b, sh = .tagged TAG_SSKR_SHARE (.bytes b) ∧ 5 ≤ b.length

theorem allShares_shareEnvs {e : Env} (hnone : assertionsWithPredicate e (shareKV h) = []) :
    ∀ (sub : List Cbor), (∀ s ∈ sub, ShareOk s) →
      (∀ s ∈ sub, ∀ y ∈ e.assertions, y.digest ≠ (shareAssertion h s).digest) →
      allShares h (sub.map (shareEnv h e)) = .ok sub
  | [], _, _ => rfl
  | s :: sub, hok, hfresh => by
    obtain ⟨b, hs, hb⟩ := hok s List.mem_cons_self
    have ih := allShares_shareEnvs hnone sub (fun x hx => hok x (List.mem_cons_of_mem _ hx))
      (fun x hx => hfresh x (List.mem_cons_of_mem _ hx))
    simp only [List.map_cons, allShares]
    rw [show newKnownValue h KV_SSKR_SHARE = shareKV h from rfl,
      awp_shareEnv h hnone (hfresh s List.mem_cons_self), sharesLoop_single h hs hb, ih]
    rfl

end

/-! ### SSKR: grouping by identifier -/

theorem lookup_insertShare (S : Sskr) (s : Cbor) (i : Nat) : ∀ (acc : List (Nat × List Cbor)),
    (insertShare S s acc).lookup i =
      if i = S.identifier s then some ((acc.lookup i).getD [] ++ [s]) else acc.lookup i
  | [] => by
    by_cases hi : i = S.identifier s
    · simp [insertShare, hi]
    · have : (i == S.identifier s) = false := by simpa using hi
      simp [insertShare, List.lookup_cons, hi, this]
  | (j, g) :: rest => by
    have ih := lookup_insertShare S s i rest
    unfold insertShare
    by_cases hj : j = S.identifier s
    · simp only [hj, beq_self_eq_true, if_true, List.lookup_cons]
      by_cases hi : i = S.identifier s
      · simp [hi]
      · have : (i == S.identifier s) = false := by simpa using hi
        simp [hi, this]
    · have hjb : (j == S.identifier s) = false := by simpa using hj
      simp only [hjb, Bool.false_eq_true, if_false, List.lookup_cons, ih]
      by_cases hij : i = j
      · subst hij
        simp [hj]
      · have : (i == j) = false := by simpa using hij
        simp [this]

theorem keys_insertShare_sub (S : Sskr) (s : Cbor) : ∀ (acc : List (Nat × List Cbor)) (j : Nat),
    j ∈ (insertShare S s acc).map Prod.fst → j ∈ acc.map Prod.fst ∨ j = S.identifier s
  | [], j, hj => by
    simp only [insertShare, List.map_cons, List.map_nil, List.mem_singleton] at hj
    exact Or.inr hj
  | (i, g) :: rest, j, hj => by
    unfold insertShare at hj
    split at hj
    · exact Or.inl hj
    · simp only [List.map_cons, List.mem_cons] at hj ⊢
      rcases hj with hj | hj
      · exact Or.inl (Or.inl hj)
      · rcases keys_insertShare_sub S s rest j hj with h1 | h1
        · exact Or.inl (Or.inr h1)
        · exact Or.inr h1

theorem keys_insertShare_nodup (S : Sskr) (s : Cbor) : ∀ (acc : List (Nat × List Cbor)),
    (acc.map Prod.fst).Nodup → ((insertShare S s acc).map Prod.fst).Nodup
  | [], _ => by simp [insertShare]
  | (i, g) :: rest, hn => by
    simp only [List.map_cons, List.nodup_cons] at hn
    unfold insertShare
    split
    · simpa only [List.map_cons, List.nodup_cons] using hn
    · rename_i hne
      simp only [List.map_cons, List.nodup_cons]
      refine ⟨?_, keys_insertShare_nodup S s rest hn.2⟩
      intro hmem
      rcases keys_insertShare_sub S s rest i hmem with h1 | h1
      · exact hn.1 h1
      · exact hne (by simp [h1])

theorem mem_iff_lookup : ∀ (acc : List (Nat × List Cbor)), (acc.map Prod.fst).Nodup →
    ∀ i g, (i, g) ∈ acc ↔ acc.lookup i = some g
  | [], _, i, g => by simp
  | (j, g') :: rest, hn, i, g => by
    simp only [List.map_cons, List.nodup_cons] at hn
    have ih := mem_iff_lookup rest hn.2 i g
    rw [List.mem_cons, List.lookup_cons]
    by_cases hij : i = j
    · subst hij
      simp only [beq_self_eq_true, Prod.mk.injEq, true_and, Option.some.injEq]
      constructor
      · rintro (h1 | h1)
        · exact h1.symm
        · exact absurd (List.mem_map.2 ⟨_, h1, rfl⟩) hn.1
      · intro h1; exact Or.inl h1.symm
    · have : (i == j) = false := by simpa using hij
      simp only [this, Prod.mk.injEq, hij, false_and, false_or, ih]

theorem foldl_insert_keys_nodup (S : Sskr) : ∀ (l : List Cbor) (acc : List (Nat × List Cbor)),
    (acc.map Prod.fst).Nodup →
      ((l.foldl (fun acc s => insertShare S s acc) acc).map Prod.fst).Nodup
  | [], _, hn => hn
  | s :: l, acc, hn => foldl_insert_keys_nodup S l _ (keys_insertShare_nodup S s acc hn)

theorem lookup_foldl_insert (S : Sskr) (i : Nat) : ∀ (l : List Cbor) (acc : List (Nat × List Cbor)),
    (l.foldl (fun acc s => insertShare S s acc) acc).lookup i =
      if l.filter (fun s => S.identifier s == i) = [] then acc.lookup i
      else some ((acc.lookup i).getD [] ++ l.filter (fun s => S.identifier s == i))
  | [], acc => by simp
  | s :: l, acc => by
    rw [List.foldl_cons, lookup_foldl_insert S i l, lookup_insertShare, List.filter_cons]
    by_cases hi : i = S.identifier s
    · subst hi
      simp only [beq_self_eq_true, if_true, Option.getD_some, List.append_assoc,
        List.singleton_append, reduceCtorEq, if_false]
      split <;> simp_all
    · have hb : (S.identifier s == i) = false := by
        simp only [beq_eq_false_iff_ne, ne_eq]; exact fun hh => hi hh.symm
      simp only [hi, if_false, hb, Bool.false_eq_true]

/-- the groups are the non-empty classes of the shares under "same identifier", each in the
order of occurrence -/
theorem mem_groupShares (S : Sskr) (l : List Cbor) (g : List Cbor) :
    g ∈ (groupShares S l).map Prod.snd ↔
      ∃ i, g = l.filter (fun s => S.identifier s == i) ∧ g ≠ [] := by
  have hn : ((groupShares S l).map Prod.fst).Nodup :=
    foldl_insert_keys_nodup S l [] (by simp)
  simp only [List.mem_map, Prod.exists, exists_eq_right]
  constructor
  · rintro ⟨i, hm⟩
    have := (mem_iff_lookup _ hn i g).1 hm
    rw [groupShares, lookup_foldl_insert] at this
    split at this
    · simp at this
    · rename_i hne
      simp only [List.lookup_nil, Option.getD_none, List.nil_append, Option.some.injEq] at this
      exact ⟨i, this.symm, this ▸ hne⟩
  · rintro ⟨i, rfl, hne⟩
    refine ⟨i, (mem_iff_lookup _ hn i _).2 ?_⟩
    rw [groupShares, lookup_foldl_insert, if_neg hne]
    simp

/-! ### SSKR: the loop of `sskr_join` -/

section
variable (h : Hash) (A : Aead)

/-- what one group of shares yields in `sskr_join` -/
def groupOpens (S : Sskr) (first : Env) (g : List Cbor) : Option Env :=
  match S.combine g with
  | some secret =>
    if secret.length = 32 then
      match decryptSubject h A secret first with
      | .ok x => some x.subject
      | _ => none
    else none
  | none => none

theorem joinGroups_eq (S : Sskr) (first : Env) (rest : List Env)
    (hnp : ∀ k p, decryptSubject h A k first ≠ .panic p) : ∀ (G : List (List Cbor)),
    joinGroups h A S (first :: rest) G =
      match G.findSome? (groupOpens h A S first) with
      | some x => .ok x
      | none => .err "InvalidShares"
  | [] => rfl
  | g :: G => by
    have ih := joinGroups_eq S first rest hnp G
    unfold joinGroups
    rw [List.findSome?_cons]
    unfold groupOpens
    cases hc : S.combine g with
    | none => exact ih
    | some secret =>
      simp only
      by_cases hl : secret.length = 32
      · simp only [hl, if_true, List.head?_cons]
        cases hd : decryptSubject h A secret first with
        | ok x => rfl
        | err y => exact ih
        | panic y => exact absurd hd (hnp _ _)
      · simp only [hl, if_false]
        exact ih

/-- whatever `sskr_join` returns is the subject of a successful `decrypt_subject` of the
first envelope under the combination of one of the groups -/
theorem joinGroups_ok (S : Sskr) {envs : List Env} : ∀ {G : List (List Cbor)} {x : Env},
    joinGroups h A S envs G = .ok x →
      ∃ first rest g key y, envs = first :: rest ∧ g ∈ G ∧ S.combine g = some key ∧
        key.length = 32 ∧ decryptSubject h A key first = .ok y ∧ x = y.subject
  | [], x, hx => by simp [joinGroups] at hx
  | g :: G, x, hx => by
    have ih : joinGroups h A S envs G = .ok x →
        ∃ first rest g' key y, envs = first :: rest ∧ g' ∈ g :: G ∧ S.combine g' = some key ∧
          key.length = 32 ∧ decryptSubject h A key first = .ok y ∧ x = y.subject := by
      intro hh
      obtain ⟨first, rest, g', key, y, h1, h2, h3⟩ := joinGroups_ok S hh
      exact ⟨first, rest, g', key, y, h1, List.mem_cons_of_mem _ h2, h3⟩
    unfold joinGroups at hx
    cases hc : S.combine g with
    | none => rw [hc] at hx; exact ih hx
    | some secret =>
      rw [hc] at hx
      simp only at hx
      by_cases hl : secret.length = 32
      · simp only [hl, if_true] at hx
        cases envs with
        | nil => simp at hx
        | cons first rest =>
          simp only [List.head?_cons] at hx
          cases hd : decryptSubject h A secret first with
          | ok y =>
            rw [hd] at hx
            simp only [Res.ok.injEq] at hx
            exact ⟨first, rest, g, secret, y, rfl, List.mem_cons_self, hc, hl, hd, hx.symm⟩
          | err y => rw [hd] at hx; exact ih hx
          | panic y => rw [hd] at hx; cases hx
      · simp only [hl, if_false] at hx
        exact ih hx

theorem sharesLoop_np : ∀ (l : List Env), (∀ a ∈ l, ∃ o, asObject a.subject = some o) →
    ∀ p, sharesLoop l ≠ .panic p
  | [], _, p => by simp [sharesLoop]
  | a :: l, hl, p => by
    have ih := sharesLoop_np l (fun b hb => hl b (List.mem_cons_of_mem _ hb))
    obtain ⟨o, ho⟩ := hl a List.mem_cons_self
    unfold sharesLoop
    simp only [ho]
    cases hx : extractShare o with
    | none => intro hh; cases hh
    | some sh =>
      simp only
      split
      · intro hh; cases hh
      · cases hr : sharesLoop l with
        | ok L => intro hh; cases hh
        | err x => intro hh; cases hh
        | panic x => exact absurd hr (ih x)

/-- `sskr_shares_in` never panics: `as_object().unwrap()` is applied to assertions only, and
the repaired code refuses a share too short for `identifier()` -/
theorem allShares_np : ∀ (envs : List Env) (p : String), allShares h envs ≠ .panic p
  | [], p => by simp [allShares]
  | e :: es, p => by
    have ih := allShares_np es
    unfold allShares
    cases h1 : sharesLoop (assertionsWithPredicate e (newKnownValue h KV_SSKR_SHARE)) with
    | ok l =>
      simp only
      cases h2 : allShares h es with
      | ok l' => intro hh; cases hh
      | err x => intro hh; cases hh
      | panic x => exact absurd h2 (ih x)
    | err x => intro hh; cases hh
    | panic x => exact absurd h1 (sharesLoop_np _ (fun _ ha => awp_asObject ha) x)

theorem sskrJoin_cons (S : Sskr) (first : Env) (rest : List Env) {shares : List Cbor}
    (hall : allShares h (first :: rest) = .ok shares) :
    sskrJoin h A S (first :: rest) =
      joinGroups h A S (first :: rest) ((groupShares S shares).map Prod.snd) := by
  simp only [sskrJoin, List.isEmpty_cons, Bool.false_eq_true, if_false, sskrSharesIn, hall]

/-- the verdict of `sskr_join`, independent of the order of the groups: it succeeds exactly
when some group opens the first envelope, and all groups that do give the same result -/
theorem sskrJoin_verdict (S : Sskr) (first : Env) (rest : List Env) {shares : List Cbor}
    (hall : allShares h (first :: rest) = .ok shares)
    (hnp : ∀ k p, decryptSubject h A k first ≠ .panic p) {v : Env}
    (huniq : ∀ g ∈ (groupShares S shares).map Prod.snd, ∀ q, groupOpens h A S first g = some q → q = v) :
    ((∃ g ∈ (groupShares S shares).map Prod.snd, groupOpens h A S first g = some v) →
      sskrJoin h A S (first :: rest) = .ok v) ∧
    ((∀ g ∈ (groupShares S shares).map Prod.snd, groupOpens h A S first g = none) →
      sskrJoin h A S (first :: rest) = .err "InvalidShares") := by
  rw [sskrJoin_cons h A S first rest hall, joinGroups_eq h A S first rest hnp]
  constructor
  · intro hex
    rw [findSome?_unique hex huniq]
  · intro hnone
    rw [List.findSome?_eq_none_iff.2 hnone]

/-- under the AEAD laws at most one key decrypts, so all groups that open agree -/
theorem groupOpens_unique (L : AeadLaws A) (S : Sskr) (first : Env) {g g' : List Cbor} {q q' : Env}
    (h1 : groupOpens h A S first g = some q) (h2 : groupOpens h A S first g' = some q') : q = q' := by
  unfold groupOpens at h1 h2
  cases hc : S.combine g with
  | none => rw [hc] at h1; cases h1
  | some k =>
    cases hc' : S.combine g' with
    | none => rw [hc'] at h2; cases h2
    | some k' =>
      rw [hc] at h1; rw [hc'] at h2
      simp only at h1 h2
      split at h1
      · split at h2
        · cases hd : decryptSubject h A k first with
          | ok x =>
            cases hd' : decryptSubject h A k' first with
            | ok x' =>
              rw [hd] at h1; rw [hd'] at h2
              have := decryptSubject_key_unique h A L hd hd'
              subst this
              rw [hd] at hd'
              cases hd'
              cases h1; cases h2; rfl
            | err y => rw [hd'] at h2; cases h2
            | panic y => rw [hd'] at h2; cases h2
          | err y => rw [hd] at h1; cases h1
          | panic y => rw [hd] at h1; cases h1
        · cases h2
      · cases h1

theorem findSome?_perm_unique {α β} {f : α → Option β} {l l' : List α} (hp : l.Perm l')
    (hu : ∀ a ∈ l, ∀ b ∈ l, ∀ x y, f a = some x → f b = some y → x = y) :
    l.findSome? f = l'.findSome? f := by
  cases hf : l.findSome? f with
  | none =>
    symm
    rw [List.findSome?_eq_none_iff] at hf ⊢
    exact fun x hx => hf x (hp.mem_iff.2 hx)
  | some x =>
    obtain ⟨a, ha, hfa⟩ := List.exists_of_findSome?_eq_some hf
    symm
    apply findSome?_unique ⟨a, hp.mem_iff.1 ha, hfa⟩
    intro b hb q hq
    exact (hu a ha b (hp.mem_iff.2 hb) x q hfa hq).symm

/-- the order in which the groups are tried does not matter -/
theorem joinGroups_perm (L : AeadLaws A) (S : Sskr) (first : Env) (rest : List Env)
    (hnp : ∀ k p, decryptSubject h A k first ≠ .panic p) {G G' : List (List Cbor)} (hp : G.Perm G') :
    joinGroups h A S (first :: rest) G = joinGroups h A S (first :: rest) G' := by
  rw [joinGroups_eq h A S first rest hnp, joinGroups_eq h A S first rest hnp,
    findSome?_perm_unique hp (fun a _ b _ x y hx hy => groupOpens_unique h A L S first hx hy)]

end

/-! ### SSKR: joining share envelopes of an encrypted envelope -/

section
variable (h : Hash) (A : Aead)

/-- what a group yields when the first envelope is a share envelope of the envelope `e`
encrypted under `ck`: the subject of `e` exactly when the group combines to `ck` -/
theorem groupOpens_shareEnv (L : AeadLaws A) (S : Sskr) {e : Env} (hi : Inv h e)
    (hH : ∀ b, (h.H b).Valid) (hrt : RoundTrips h e.subject) {ck : Bytes} (hck : ck.length = 32)
    (n : Bytes) (sh : Cbor) (g : List Cbor) :
    groupOpens h A S (shareEnv h (Obs.encryptSubjectSpec A ck n e) sh) g =
      match S.combine g with
      | some key => if key = ck then some e.subject else none
      | none => none := by
  unfold groupOpens
  cases hc : S.combine g with
  | none => rfl
  | some key =>
    simp only
    have hform : shareEnv h (Obs.encryptSubjectSpec A ck n e) sh =
        AW.rebuild h (Obs.encSubj A ck n e.subject)
          (AW.normAdd e.assertions (shareAssertion h sh)) := by
      simp only [shareEnv, Obs.encryptSubjectSpec_subject, Obs.encryptSubjectSpec_assertions]
    by_cases hk : key = ck
    · subst hk
      simp only [hck, if_true, hform]
      rw [decryptSubject_rebuild h A L key n (Obs.digest_valid hH (Obs.inv_subject hi)) hrt
        (AW.normAdd_asc (AW.rebuild_of_inv hi).2.2)]
      simp only [rebuild_subject h (Or.inr (AW.normAdd_ne_nil _ _))]
    · simp only [hk, if_false]
      split
      · rw [hform, decryptSubject_rebuild_wrong_key h A L ck key n hk]
      · rfl

theorem shareEnv_np (e : Env) (sh : Cbor) (k : Bytes) (p : String) :
    decryptSubject h A k (shareEnv h e sh) ≠ .panic p := by
  apply decryptSubject_np h A
  intro s as d he
  obtain ⟨a, as', d', hn⟩ := shareEnv_eq_node h e sh
  rw [hn] at he
  simp only [Env.node.injEq] at he
  rw [← he.2.1]; simp

/-- `sskr_join` of share envelopes of one encrypted envelope: it returns the subject of the
original exactly when the shares carrying one of the identifiers combine to the content key -/
theorem join_shareEnvs (L : AeadLaws A) (S : Sskr) {e : Env} (hi : Inv h e)
    (hH : ∀ b, (h.H b).Valid) (hrt : RoundTrips h e.subject) {ck : Bytes} (hck : ck.length = 32)
    (n : Bytes) (hnone : assertionsWithPredicate e (shareKV h) = [])
    (s0 : Cbor) (subs : List Cbor) (hok : ∀ s ∈ s0 :: subs, ShareOk s)
    (hfresh : ∀ s ∈ s0 :: subs, ∀ y ∈ e.assertions, y.digest ≠ (shareAssertion h s).digest) :
    ((∃ i, (s0 :: subs).filter (fun s => S.identifier s == i) ≠ [] ∧
        S.combine ((s0 :: subs).filter (fun s => S.identifier s == i)) = some ck) →
      sskrJoin h A S ((s0 :: subs).map (shareEnv h (Obs.encryptSubjectSpec A ck n e))) =
        .ok e.subject) ∧
    ((∀ i, (s0 :: subs).filter (fun s => S.identifier s == i) ≠ [] →
        S.combine ((s0 :: subs).filter (fun s => S.identifier s == i)) ≠ some ck) →
      sskrJoin h A S ((s0 :: subs).map (shareEnv h (Obs.encryptSubjectSpec A ck n e))) =
        .err "InvalidShares") := by
  have hnone' : assertionsWithPredicate (Obs.encryptSubjectSpec A ck n e) (shareKV h) = [] := by
    rw [AW.awp_eq_filter, Obs.encryptSubjectSpec_assertions, ← AW.awp_eq_filter]
    exact hnone
  have hall := allShares_shareEnvs h hnone' (s0 :: subs) hok
    (by rw [Obs.encryptSubjectSpec_assertions]; exact hfresh)
  rw [List.map_cons] at hall ⊢
  have hgo := fun g => groupOpens_shareEnv h A L S hi hH hrt hck n s0 g
  obtain ⟨v1, v2⟩ := sskrJoin_verdict h A S _ _ hall (shareEnv_np h A _ s0) (v := e.subject) (by
    intro g _ q hq
    rw [hgo g] at hq
    cases hc : S.combine g with
    | none => rw [hc] at hq; cases hq
    | some key =>
      rw [hc] at hq
      simp only at hq
      split at hq
      · cases hq; rfl
      · cases hq)
  constructor
  · rintro ⟨i, hne, hc⟩
    apply v1
    refine ⟨_, (mem_groupShares S _ _).2 ⟨i, rfl, hne⟩, ?_⟩
    rw [hgo, hc]
    simp
  · intro hno
    apply v2
    intro g hg
    obtain ⟨i, rfl, hne⟩ := (mem_groupShares S _ _).1 hg
    rw [hgo]
    cases hc : S.combine (List.filter (fun s => S.identifier s == i) (s0 :: subs)) with
    | none => rfl
    | some key =>
      have : key ≠ ck := by
        rintro rfl
        exact hno i hne hc
      simp [this]

end

/-! ### C10: inversion, monotonicity, independence of foreign schemes -/

section
variable (h : Hash) (A : Aead)

theorem decryptSubjectToRecipient_ok_inv {K : Kem} {key : Nat} {e x : Env}
    (hx : decryptSubjectToRecipient h A K key e = .ok x) :
    ∃ R pt ck, recipients h e = .ok R ∧ firstPlaintext K key R = .ok pt ∧
      symmetricKeyOfData pt = .ok ck ∧ decryptSubject h A ck e = .ok x := by
  unfold decryptSubjectToRecipient at hx
  cases hR : recipients h e with
  | ok R =>
    simp only [hR] at hx
    cases hp : firstPlaintext K key R with
    | ok pt =>
      simp only [hp] at hx
      cases hk : symmetricKeyOfData pt with
      | ok ck => simp only [hk] at hx; exact ⟨R, pt, ck, rfl, hp, hk, hx⟩
      | err y => simp only [hk] at hx; cases hx
      | panic y => simp only [hk] at hx; cases hx
    | err y => simp only [hp] at hx; cases hx
    | panic y => simp only [hp] at hx; cases hx
  | err y => simp only [hR] at hx; cases hx
  | panic y => simp only [hR] at hx; cases hx

theorem recSearch_recA {K : Kem} {key : Nat} {s : Cbor} (hs : ∃ x, s = .tagged TAG_SEALED_MESSAGE x) :
    recSearch h K key (hasRecipientAssertion h s) = opens K key s := by
  simp [recSearch, matches_recA, sealedOf_recA h hs]

/-- the search of `first_plaintext_in_sealed_messages` is not disturbed by a stored
`'hasRecipient'` assertion that the key does not open -/
theorem search_normAdd {K : Kem} {key : Nat} {as : List Env} {s : Cbor} (hasc : AscDigests as)
    (hs : ∃ x, s = .tagged TAG_SEALED_MESSAGE x) (hno : opens K key s = none) :
    (AW.normAdd as (hasRecipientAssertion h s)).findSome? (recSearch h K key) =
      as.findSome? (recSearch h K key) := by
  unfold AW.normAdd
  split
  · rfl
  · rename_i hany
    have hfresh : ∀ y ∈ as, y.digest ≠ (hasRecipientAssertion h s).digest := by
      apply AW.any_digest_false_iff.1
      cases hb : as.any (fun x => x.digest == (hasRecipientAssertion h s).digest) <;> simp_all
    rw [← findSome?_skip (recSearch h K key) (fun x => x.digest != (hasRecipientAssertion h s).digest)
      (sortByDigest (as ++ [hasRecipientAssertion h s])), filter_sort_snoc hasc hfresh]
    intro x hx hp
    rw [mem_sortByDigest] at hx
    rcases List.mem_append.1 hx with hx | hx
    · have := hfresh x hx
      simp at hp
      exact absurd hp this
    · simp only [List.mem_singleton] at hx
      subst hx
      rw [recSearch_recA h hs, hno]

/-- C10 monotonicity, the part about keys: a key that does not open the added sealed message
and could open the envelope before can open it afterwards -/
theorem addRecipient_keeps {K : Kem} {key : Nat} {e r x : Env} {s : Cbor} (hi : Inv h e)
    (hs : ∃ x, s = .tagged TAG_SEALED_MESSAGE x) (hr : addRecipient h e s = .ok r)
    (hno : opens K key s = none) (hx : decryptSubjectToRecipient h A K key e = .ok x) :
    ∃ x', decryptSubjectToRecipient h A K key r = .ok x' ∧ x'.digest = r.digest ∧
      x'.assertions = r.assertions := by
  rw [addRecipient_closed h hi] at hr
  cases hr
  obtain ⟨R, pt, ck, hR, hp, hk, hd⟩ := decryptSubjectToRecipient_ok_inv h A hx
  have hasc := (AW.rebuild_of_inv hi).2.2
  have hra : (AW.rebuild h e.subject (AW.normAdd e.assertions (hasRecipientAssertion h s))).assertions =
      AW.normAdd e.assertions (hasRecipientAssertion h s) :=
    rebuild_assertions h (Or.inr (AW.normAdd_ne_nil _ _))
  obtain ⟨R', hR', _, _⟩ := recipients_of_assertions h (sealeds := [s]) hR
    (r := AW.rebuild h e.subject (AW.normAdd e.assertions (hasRecipientAssertion h s)))
    (by
      intro y hy
      rw [hra] at hy
      rcases AW.mem_normAdd_sub hy with h1 | h1
      · exact Or.inl h1
      · exact Or.inr (by simp [recAs, h1]))
    (by intro s' hs'; simp only [List.mem_singleton] at hs'; subst hs'; exact hs)
  have hp' : firstPlaintext K key R' = .ok pt := by
    rw [firstPlaintext_recipients h hR', hra, search_normAdd h hasc hs hno,
      ← firstPlaintext_recipients h hR]
    exact hp
  rw [decryptSubjectToRecipient_of h A hR' hp' hk]
  obtain ⟨x', hx', hd', ha'⟩ := decryptSubject_other_assertions h A hi hd
    (AW.normAdd_asc hasc) (AW.normAdd_ne_nil e.assertions (hasRecipientAssertion h s))
  exact ⟨x', hx', hd', ha'.trans hra.symm⟩

/-- C10 monotonicity, the part about the list of sealed messages -/
theorem addRecipient_recipients {e r : Env} {s : Cbor} {l : List Cbor} (hi : Inv h e)
    (hs : ∃ x, s = .tagged TAG_SEALED_MESSAGE x) (hr : addRecipient h e s = .ok r)
    (hl : recipients h e = .ok l) :
    ∃ l', recipients h r = .ok l' ∧ (∀ x ∈ l, x ∈ l') ∧ (∀ x ∈ l', x ∈ l ∨ x = s) ∧
      (NoShadow e [hasRecipientAssertion h s] → s ∈ l') := by
  rw [addRecipient_closed h hi] at hr
  cases hr
  have hra : (AW.rebuild h e.subject (AW.normAdd e.assertions (hasRecipientAssertion h s))).assertions =
      AW.normAdd e.assertions (hasRecipientAssertion h s) :=
    rebuild_assertions h (Or.inr (AW.normAdd_ne_nil _ _))
  obtain ⟨R', hR', hsub, hmem⟩ := recipients_of_assertions h (sealeds := [s]) hl
    (r := AW.rebuild h e.subject (AW.normAdd e.assertions (hasRecipientAssertion h s)))
    (by
      intro y hy
      rw [hra] at hy
      rcases AW.mem_normAdd_sub hy with h1 | h1
      · exact Or.inl h1
      · exact Or.inr (by simp [recAs, h1]))
    (by intro s' hs'; simp only [List.mem_singleton] at hs'; subst hs'; exact hs)
  refine ⟨R', hR', ?_, ?_, ?_⟩
  · intro x hx
    rw [(recipients_ok_iff h e l).1 hl |>.2] at hx
    obtain ⟨a, ha, hsa⟩ := List.mem_filterMap.1 hx
    rw [AW.awp_eq_filter, List.mem_filter] at ha
    exact hmem a (by rw [hra]; exact mem_normAdd_old ha.1) x ha.2 hsa
  · intro x hx
    rcases hsub x hx with h1 | h1
    · exact Or.inl h1
    · exact Or.inr (by simpa using h1)
  · intro hns
    have hin : hasRecipientAssertion h s ∈ AW.normAdd e.assertions (hasRecipientAssertion h s) :=
      (AW.mem_normAdd (fun y hy hd => hns _ (by simp) y (Or.inl hy) hd) _).2 (Or.inr rfl)
    exact hmem _ (by rw [hra]; exact hin) s (matches_recA h s) (sealedOf_recA h hs)

theorem opens_congr {K K' : Kem} {key : Nat} (hs : K'.schemeOfSealed = K.schemeOfSealed)
    (hk : K'.schemeOfKey key = K.schemeOfKey key)
    (hu : ∀ s, K.schemeOfSealed s = K.schemeOfKey key → K'.unsealMsg key s = K.unsealMsg key s) :
    opens K' key = opens K key := by
  funext s
  unfold opens
  rw [hs, hk]
  split
  · rfl
  · rename_i hne
    apply hu
    simpa using hne

theorem decryptSubjectToRecipient_congr {K K' : Kem} {key : Nat} (e : Env)
    (ho : opens K' key = opens K key) :
    decryptSubjectToRecipient h A K' key e = decryptSubjectToRecipient h A K key e := by
  unfold decryptSubjectToRecipient
  cases recipients h e with
  | ok R => simp only [firstPlaintext_eq, ho]
  | err y => rfl
  | panic y => rfl

theorem firstPlaintext_skip_mismatch {K : Kem} {key : Nat} {s : Cbor}
    (hm : K.schemeOfSealed s ≠ K.schemeOfKey key) : ∀ (l1 l2 : List Cbor),
    firstPlaintext K key (l1 ++ s :: l2) = firstPlaintext K key (l1 ++ l2)
  | [], l2 => by
    have : (K.schemeOfSealed s != K.schemeOfKey key) = true := by simpa using hm
    simp only [List.nil_append]
    rw [firstPlaintext, if_pos this]
  | a :: l1, l2 => by
    have ih := firstPlaintext_skip_mismatch hm l1 l2
    simp only [List.cons_append]
    unfold firstPlaintext
    rw [ih]

theorem decryptSubjectToRecipient_np {K : Kem} {key : Nat} {e : Env}
    (hne : ∀ s as d, e = .node s as d → as ≠ []) (p : String) :
    decryptSubjectToRecipient h A K key e ≠ .panic p := by
  unfold decryptSubjectToRecipient
  cases hR : recipients h e with
  | ok R =>
    simp only
    cases hp : firstPlaintext K key R with
    | ok pt =>
      simp only
      cases hk : symmetricKeyOfData pt with
      | ok ck => exact decryptSubject_np h A hne p
      | err y => intro hh; cases hh
      | panic y => exact absurd hk (symmetricKeyOfData_np _ _)
    | err y => intro hh; cases hh
    | panic y => exact absurd hp (firstPlaintext_np _ _ _ _)
  | err y => intro hh; cases hh
  | panic y => exact absurd hR (recipients_np h e y)

theorem unwrap_np (e : Env) (p : String) : unwrap e ≠ .panic p := by
  unfold unwrap
  split <;> (intro hh; cases hh)

theorem decryptToRecipient_np {K : Kem} {key : Nat} {e : Env}
    (hne : ∀ s as d, e = .node s as d → as ≠ []) (p : String) :
    decryptToRecipient h A K key e ≠ .panic p := by
  unfold decryptToRecipient
  cases hd : decryptSubjectToRecipient h A K key e with
  | ok x => exact unwrap_np x p
  | err y => intro hh; cases hh
  | panic y => exact absurd hd (decryptSubjectToRecipient_np h A hne y)

theorem addRecipient_isOk (e : Env) (s : Cbor) : ∃ r, addRecipient h e s = .ok r := by
  rw [addRecipient_eq]
  exact InvL.addAssertionEnvelope_isOk h (recA_slotOk h s)

theorem recipients_wrap (e : Env) : recipients h (wrap h e) = .ok [] := rfl

end

/-! ### sample data for the satisfiability examples of C10 and C11 -/

theorem noShadow_of_pairwise {e : Env} {l : List Env}
    (hp : (e.assertions ++ l).Pairwise (fun a b => a.digest ≠ b.digest)) : NoShadow e l := by
  intro a ha y hy hd
  have hy' : y ∈ e.assertions ++ l := by
    rcases hy with h1 | h1
    · exact List.mem_append_left _ h1
    · exact List.mem_append_right _ h1
  have ha' : a ∈ e.assertions ++ l := List.mem_append_right _ ha
  exact List.Pairwise.forall_of_forall_of_flip (R := fun a b => a.digest = b.digest → a = b)
    (fun _ _ _ => rfl) (hp.imp (fun hne hd => absurd hd hne))
    (hp.imp (fun hne hd => absurd hd.symm hne)) hy' ha' hd

namespace Ex
open ToyDeps ToyRec

/-- the toy hash of `ToyRec` -/
abbrev H : Hash := ToyRec.hash

/-- `"b"` -/
def subj : Env := newLeaf H (.text [0x62])
/-- `1: 10` -/
def a1 : Env := newAssertion H (newKnownValue H 1) (newLeaf H (.uint 10))
/-- `"b" [ 1: 10 ]` -/
def nd : Env := .node subj [a1] (H.ofDigests [subj.digest, a1.digest])
/-- a 32-byte content key -/
def ck : Bytes := List.replicate 32 7

theorem subj_inv : Inv H subj := ⟨rfl, trivial⟩

theorem nd_inv : Inv H nd := by
  refine ⟨?_, ?_⟩
  · simp [nd, subj, a1, WF, WFList, newAssertion, newLeaf, newKnownValue, Env.digest, Hash.ofDigests]
  · simp [nd, subj, a1, Canon, CanonList, AscDigests, newAssertion, newLeaf, newKnownValue, slotOk,
      isSubjectAssertion]

theorem subj_rt : RoundTrips H subj := by rfl
theorem wrap_subj_rt : RoundTrips H (wrap H subj) := by rfl
theorem nd_recipients : recipients H nd = .ok [] := by rfl
theorem nd_noShares : assertionsWithPredicate nd (shareKV H) = [] := by rfl
theorem ck_len : ck.length = 32 := by rfl

/-- recipients 1 and 2 -/
def krs : List (Nat × Nat) := [(1, 0), (2, 0)]

theorem nd_noShadow : NoShadow nd (recAs H (sealsFor sealer ck krs)) := by
  apply noShadow_of_pairwise
  decide +kernel

/-- a 2-of-3 policy in one group -/
def spec : Spec := ⟨1, [(2, 3)]⟩

/-- the three shares of `ck` -/
def shs : List Cbor := shares 5 spec ck

end Ex

end RecL
end EnvVerif
