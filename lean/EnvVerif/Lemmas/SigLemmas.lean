/-
  Lemmas/SigLemmas.lean — helper lemmas for C09 (signatures): the 'signed' objects of an
  envelope, the verdict as a function of the subject digest and of that list, what
  `add_assertion` does to the list, the counting loop of the threshold check.
-/
import EnvVerif.Lemmas.SigLaws
import EnvVerif.Lemmas.WalkLemmas
import EnvVerif.Lemmas.InvLemmas
import EnvVerif.Lemmas.ElideLemmas
namespace EnvVerif
namespace SigL
open Env

variable (h : Hash) (V : SigScheme)

/-! ### the 'signed' objects -/

theorem objectsForPredicate_signed (e : Env) :
    objectsForPredicate e (newKnownValue h KV_SIGNED) = .ok (signedObjects h e) := by
  have hall : ∀ a ∈ assertionsWithPredicate e (newKnownValue h KV_SIGNED),
      ∃ o, asObject a.subject = some o := by
    intro a ha
    obtain ⟨_, q, o, d, hs, _⟩ := AW.mem_awp.1 ha
    exact ⟨o, by rw [hs]; rfl⟩
  exact AW.objectsFold_spec _ hall

theorem mem_signedObjects {e o : Env} :
    o ∈ signedObjects h e ↔
      ∃ a ∈ e.assertions, ∃ q d, a.subject = .assertion q o d ∧ q.digest = (signedKV h).digest := by
  unfold signedObjects
  rw [List.mem_filterMap]
  constructor
  · rintro ⟨a, ha, hob⟩
    obtain ⟨hm, q, o', d, hs, hq⟩ := AW.mem_awp.1 ha
    rw [hs] at hob
    simp only [asObject, Option.some.injEq] at hob
    subst hob
    exact ⟨a, hm, q, d, hs, hq⟩
  · rintro ⟨a, hm, q, d, hs, hq⟩
    exact ⟨a, AW.mem_awp.2 ⟨hm, q, o, d, hs, hq⟩, by rw [hs]; rfl⟩

theorem signedObjects_perm {e e' : Env} (hp : e.assertions.Perm e'.assertions) :
    (signedObjects h e).Perm (signedObjects h e') := by
  unfold signedObjects
  rw [AW.awp_eq_filter, AW.awp_eq_filter]
  exact (hp.filter _).filterMap _

theorem signedObjects_of_assertions_eq {e e' : Env} (hp : e.assertions = e'.assertions) :
    signedObjects h e = signedObjects h e' := by
  unfold signedObjects
  rw [AW.awp_eq_filter, AW.awp_eq_filter, hp]

/-! ### the verdict -/

theorem hasSigMeta_eq (key : Nat) (e : Env) :
    hasSignatureFromReturningMetadata h V key e =
      .ok ((signedObjects h e).findSome? (sigCandidate h V key e)) := by
  unfold hasSignatureFromReturningMetadata
  rw [objectsForPredicate_signed]

/-- the boolean verdict as a function -/
def validSig (key : Nat) (e : Env) : Bool :=
  ((signedObjects h e).findSome? (sigCandidate h V key e)).isSome

theorem hasSig_eq (key : Nat) (e : Env) : hasSignatureFrom h V key e = .ok (validSig h V key e) := by
  unfold hasSignatureFrom validSig
  rw [hasSigMeta_eq]

theorem validSig_iff (key : Nat) (e : Env) :
    validSig h V key e = true ↔ ∃ so ∈ signedObjects h e, (sigCandidate h V key e so).isSome = true := by
  unfold validSig
  exact List.findSome?_isSome_iff

/-- `sigCandidate` looks at the envelope only through its subject digest -/
theorem sigCandidate_congr (key : Nat) {e e' : Env} (hd : e.subject.digest = e'.subject.digest)
    (so : Env) : sigCandidate h V key e so = sigCandidate h V key e' so := by
  unfold sigCandidate isSignatureFromKey
  rw [hd]

theorem extractSignature_tagged : (x : Env) → (s : Cbor) → extractSignature x = some s →
    ∃ y, s = .tagged TAG_SIGNATURE y
  | .node sub _ _, s, hx => extractSignature_tagged sub s (by simpa [extractSignature] using hx)
  | .leaf c d, s, hx => by
    cases c <;> simp only [extractSignature, reduceCtorEq] at hx
    rename_i t y
    split at hx
    · rename_i ht
      simp only [beq_iff_eq] at ht
      cases hx; exact ⟨y, by rw [ht]⟩
    · cases hx
  | .wrapped _ _, s, hx => by simp [extractSignature] at hx
  | .assertion _ _ _, s, hx => by simp [extractSignature] at hx
  | .elided _, s, hx => by simp [extractSignature] at hx
  | .knownValue _ _, s, hx => by simp [extractSignature] at hx
  | .encrypted _ _, s, hx => by simp [extractSignature] at hx
  | .compressed _ _, s, hx => by simp [extractSignature] at hx

/-! ### exactness of `sigCandidate` -/

/-- the test applied to each outer 'signed' object of a wrapper -/
def outerOk (key : Nat) (d : Digest) (o : Env) : Bool :=
  match extractSignature o with
  | some s => V.verify key s d
  | none => false

theorem outerOk_iff (key : Nat) (d : Digest) (o : Env) :
    outerOk V key d o = true ↔ ReadableSigBy V key o d := by
  unfold outerOk ReadableSigBy
  cases hx : extractSignature o with
  | none => simp
  | some s => simp

theorem sigCandidate_plain (key : Nat) (e so m : Env) (hw : so.subject.isWrapped = false) :
    sigCandidate h V key e so = some m ↔
      ∃ s, extractSignature so = some s ∧ V.verify key s e.subject.digest = true ∧ m = newLeaf h s := by
  unfold sigCandidate isSignatureFromKey
  simp only [hw, Bool.false_eq_true, if_false]
  cases hx : extractSignature so with
  | none => simp
  | some s =>
    by_cases hv : V.verify key s e.subject.digest = true
    · simp only [hv, if_true, Option.some.injEq, true_and, exists_eq_left']
      exact ⟨fun hm => hm.symm, fun hm => hm.symm⟩
    · simp [hv]

/-- the plain branch in the vocabulary of the theorems: the object is a readable signature by
the key, and what is handed back is the bare signature, a leaf -/
theorem sigCandidate_plain_readable (key : Nat) (e so m : Env) (hw : so.subject.isWrapped = false)
    (hc : sigCandidate h V key e so = some m) :
    ReadableSigBy V key so e.subject.digest ∧ m.assertions = [] ∧
      ReadableSigBy V key m e.subject.digest := by
  obtain ⟨s, hs, hv, rfl⟩ := (sigCandidate_plain h V key e so m hw).1 hc
  obtain ⟨y, rfl⟩ := extractSignature_tagged so s hs
  refine ⟨⟨_, hs, hv⟩, rfl, _, ?_, hv⟩
  simp [extractSignature, newLeaf]

theorem sigCandidate_plain_isSome (key : Nat) (e so : Env) (hw : so.subject.isWrapped = false) :
    (sigCandidate h V key e so).isSome = true ↔ ReadableSigBy V key so e.subject.digest := by
  constructor
  · intro hs
    obtain ⟨m, hm⟩ := Option.isSome_iff_exists.1 hs
    exact (sigCandidate_plain_readable h V key e so m hw hm).1
  · rintro ⟨s, hs, hv⟩
    rw [(sigCandidate_plain h V key e so (newLeaf h s) hw).2 ⟨s, hs, hv, rfl⟩]
    rfl

theorem sigCandidate_wrapper_eq (key : Nat) (e so inner : Env) (d : Digest)
    (hs : so.subject = .wrapped inner d) :
    sigCandidate h V key e so =
      if (signedObjects h so).any (outerOk V key d) then
        match extractSignature inner with
        | some s => if V.verify key s e.subject.digest then some inner else none
        | none => none
      else none := by
  unfold sigCandidate
  simp only [hs, Env.isWrapped, if_true]
  rw [objectsForPredicate_signed]
  rfl

theorem sigCandidate_wrapper (key : Nat) (e so inner m : Env) (d : Digest)
    (hs : so.subject = .wrapped inner d) :
    sigCandidate h V key e so = some m ↔
      m = inner ∧ (∃ o ∈ signedObjects h so, ReadableSigBy V key o d) ∧
        ReadableSigBy V key inner e.subject.digest := by
  rw [sigCandidate_wrapper_eq h V key e so inner d hs]
  have hany : (signedObjects h so).any (outerOk V key d) = true ↔
      ∃ o ∈ signedObjects h so, ReadableSigBy V key o d := by
    rw [List.any_eq_true]
    constructor
    · rintro ⟨o, ho, hv⟩; exact ⟨o, ho, (outerOk_iff V key d o).1 hv⟩
    · rintro ⟨o, ho, hv⟩; exact ⟨o, ho, (outerOk_iff V key d o).2 hv⟩
  by_cases ha : (signedObjects h so).any (outerOk V key d) = true
  · simp only [ha, if_true]
    have ha' := hany.1 ha
    unfold ReadableSigBy
    cases hx : extractSignature inner with
    | none => simp
    | some s =>
      by_cases hv : V.verify key s e.subject.digest = true
      · simp only [hv, if_true, Option.some.injEq, exists_eq_left', and_true]
        constructor
        · intro hm; exact ⟨hm.symm, ha'⟩
        · intro hm; exact hm.1.symm
      · simp [hv]
  · have hn : ¬ ∃ o ∈ signedObjects h so, ReadableSigBy V key o d := fun hx => ha (hany.2 hx)
    simp only [ha, Bool.false_eq_true, if_false, reduceCtorEq, false_iff]
    rintro ⟨_, hx, _⟩
    exact hn hx

/-! ### what `add_assertion` does to the subject and to the assertion list -/

theorem addAssertionEnvelope_ok {e a r : Env} (hr : addAssertionEnvelope h e a = .ok r) :
    r.subject = e.subject ∧ extractSignature r = extractSignature e ∧
      ((r = e ∧ ∃ x ∈ e.assertions, x.digest = a.digest) ∨
        r.assertions.Perm (e.assertions ++ [a])) := by
  unfold addAssertionEnvelope at hr
  split at hr
  · cases hr
  · cases e with
    | node s as d =>
      simp only at hr
      split at hr
      · rename_i hany
        cases hr
        obtain ⟨x, hx, hd⟩ := List.any_eq_true.1 hany
        exact ⟨rfl, rfl, Or.inl ⟨rfl, x, hx, by simpa using hd⟩⟩
      · have hne : (as ++ [a]).isEmpty = false := by cases as <;> rfl
        simp only [newNodeUnchecked, hne, Bool.false_eq_true, if_false, Res.ok.injEq] at hr
        subst hr
        exact ⟨rfl, rfl, Or.inr (sortByDigest_perm _)⟩
    | _ =>
      simp only [newNodeUnchecked, List.isEmpty_cons, Bool.false_eq_true, if_false,
        Res.ok.injEq] at hr
      subst hr
      exact ⟨rfl, rfl, Or.inr (sortByDigest_perm _)⟩

theorem sigAssertion_slotOk (p o : Env) : (newAssertion h p o).slotOk = true := rfl

theorem addAssertionUnwrap_eq (e p o : Env) :
    addAssertionUnwrap h e p o = addAssertionEnvelope h e (newAssertion h p o) := by
  unfold addAssertionUnwrap
  obtain ⟨r, hr⟩ := InvL.addAssertionEnvelope_isOk h (e := e) (sigAssertion_slotOk h p o)
  rw [hr]

theorem addAssertionUnwrap_isOk (e p o : Env) : ∃ r, addAssertionUnwrap h e p o = .ok r := by
  rw [addAssertionUnwrap_eq]
  exact InvL.addAssertionEnvelope_isOk h (sigAssertion_slotOk h p o)

theorem mem_signedObjects_of_mem {e o : Env} (hm : sigAssertion h o ∈ e.assertions) :
    o ∈ signedObjects h e :=
  (mem_signedObjects h).2 ⟨_, hm, signedKV h, _, rfl, rfl⟩

/-- adding `'signed': o`: the subject stays, the 'signed' objects are the old ones plus
(unless shadowed by an element with the same digest) `o` -/
theorem signedObjects_add {e o r : Env} (hr : addAssertionUnwrap h e (signedKV h) o = .ok r) :
    r.subject = e.subject ∧
      (∀ x ∈ signedObjects h r, x ∈ signedObjects h e ∨ x = o) ∧
      (∀ x ∈ signedObjects h e, x ∈ signedObjects h r) ∧
      (NotShadowed h e o → o ∈ signedObjects h r) := by
  rw [addAssertionUnwrap_eq] at hr
  obtain ⟨hs, _, hc⟩ := addAssertionEnvelope_ok h hr
  refine ⟨hs, ?_⟩
  rcases hc with ⟨rfl, x, hx, hd⟩ | hp
  · refine ⟨fun x hx => Or.inl hx, fun x hx => hx, fun hns => ?_⟩
    have := hns x hx hd
    exact mem_signedObjects_of_mem h (this ▸ hx)
  · refine ⟨?_, ?_, fun _ => ?_⟩
    · intro x hx
      obtain ⟨a, ha, q, d, hsub, hq⟩ := (mem_signedObjects h).1 hx
      rcases List.mem_append.1 (hp.mem_iff.1 ha) with ha | ha
      · exact Or.inl ((mem_signedObjects h).2 ⟨a, ha, q, d, hsub, hq⟩)
      · simp only [List.mem_singleton] at ha
        subst ha
        simp only [newAssertion, Env.subject, Env.assertion.injEq] at hsub
        exact Or.inr hsub.2.1.symm
    · intro x hx
      obtain ⟨a, ha, q, d, hsub, hq⟩ := (mem_signedObjects h).1 hx
      exact (mem_signedObjects h).2 ⟨a, hp.mem_iff.2 (List.mem_append_left _ ha), q, d, hsub, hq⟩
    · exact mem_signedObjects_of_mem h (hp.mem_iff.2 (by simp [sigAssertion]))

/-- adding any assertion keeps the subject and the old 'signed' objects; unless the
assertion is itself a 'signed' one nothing is added -/
theorem signedObjects_addAny {e a r : Env} (hr : addAssertionEnvelope h e a = .ok r) :
    r.subject = e.subject ∧
      (∀ x ∈ signedObjects h e, x ∈ signedObjects h r) ∧
      (AW.matchesPred a (signedKV h) = false → ∀ x ∈ signedObjects h r, x ∈ signedObjects h e) := by
  obtain ⟨hs, _, hc⟩ := addAssertionEnvelope_ok h hr
  refine ⟨hs, ?_⟩
  rcases hc with ⟨rfl, _⟩ | hp
  · exact ⟨fun x hx => hx, fun _ x hx => hx⟩
  · refine ⟨?_, ?_⟩
    · intro x hx
      obtain ⟨b, hb, q, d, hsub, hq⟩ := (mem_signedObjects h).1 hx
      exact (mem_signedObjects h).2 ⟨b, hp.mem_iff.2 (List.mem_append_left _ hb), q, d, hsub, hq⟩
    · intro hnm x hx
      obtain ⟨b, hb, q, d, hsub, hq⟩ := (mem_signedObjects h).1 hx
      rcases List.mem_append.1 (hp.mem_iff.1 hb) with hb | hb
      · exact (mem_signedObjects h).2 ⟨b, hb, q, d, hsub, hq⟩
      · simp only [List.mem_singleton] at hb
        subst hb
        have : AW.matchesPred b (signedKV h) = true :=
          (AW.matchesPred_iff b (signedKV h)).2 ⟨q, x, d, hsub, hq⟩
        rw [hnm] at this; cases this

/-! ### the signature-with-metadata envelope -/

/-- one step of the metadata fold -/
def metaStep (x a : Env) : Res Env :=
  match addAssertionEnvelope h x a with
  | .ok y => .ok y
  | .err _ => .panic "signature_impl.rs:add_signature_opt:unwrap"
  | .panic p => .panic p

def metaFold (init : Res Env) (metas : List Env) : Res Env :=
  metas.foldl (fun acc a => acc.bind fun x => metaStep h x a) init

theorem metaEnvelope_eq (sig : Cbor) (metas : List Env) :
    metaEnvelope h sig metas = metaFold h (.ok (newLeaf h sig)) metas := rfl

theorem metaFold_not_ok (metas : List Env) (init : Res Env) (hi : ∀ x, init ≠ .ok x) (m : Env) :
    metaFold h init metas ≠ .ok m := by
  induction metas generalizing init with
  | nil => exact hi m
  | cons a l ih =>
    apply ih
    intro x
    cases init with
    | ok y => exact absurd rfl (hi y)
    | err _ => simp [Res.bind]
    | panic _ => simp [Res.bind]

theorem metaStep_ok {x a y : Env} (hy : metaStep h x a = .ok y) :
    addAssertionEnvelope h x a = .ok y := by
  unfold metaStep at hy
  split at hy
  · cases hy; assumption
  · cases hy
  · cases hy

theorem metaFold_ok : ∀ (metas : List Env) (x m : Env), metaFold h (.ok x) metas = .ok m →
    m.subject = x.subject ∧ extractSignature m = extractSignature x ∧
      (∀ b ∈ m.assertions, b ∈ x.assertions ∨ b ∈ metas) ∧
      (∀ b, b ∈ x.assertions ∨ b ∈ metas → ∃ b' ∈ m.assertions, b'.digest = b.digest) ∧
      (metas ≠ [] → m.isNode = true) ∧ (∀ a ∈ metas, a.slotOk = true)
  | [], x, m, hm => by
    cases hm
    refine ⟨rfl, rfl, fun b hb => Or.inl hb, ?_, fun hn => absurd rfl hn, fun a ha => by cases ha⟩
    intro b hb
    rcases hb with hb | hb
    · exact ⟨b, hb, rfl⟩
    · cases hb
  | a :: l, x, m, hm => by
    have hm' : metaFold h (metaStep h x a) l = .ok m := hm
    cases hst : metaStep h x a with
    | err e => rw [hst] at hm'; exact absurd hm' (metaFold_not_ok h l _ (by simp) m)
    | panic e => rw [hst] at hm'; exact absurd hm' (metaFold_not_ok h l _ (by simp) m)
    | ok y =>
      rw [hst] at hm'
      have hadd := metaStep_ok h hst
      have hslot : a.slotOk = true := by
        unfold addAssertionEnvelope at hadd
        split at hadd
        · cases hadd
        · rename_i hn; simpa using hn
      obtain ⟨hs1, hx1, hc⟩ := addAssertionEnvelope_ok h hadd
      obtain ⟨hs2, hx2, hsub, hsup, hnode, hsl⟩ := metaFold_ok l y m hm'
      have hy_sub : ∀ b ∈ y.assertions, b ∈ x.assertions ∨ b = a := by
        rcases hc with ⟨rfl, _⟩ | hp
        · exact fun b hb => Or.inl hb
        · intro b hb
          rcases List.mem_append.1 (hp.mem_iff.1 hb) with hb | hb
          · exact Or.inl hb
          · exact Or.inr (by simpa using hb)
      have hy_sup : ∀ b, b ∈ x.assertions ∨ b = a → ∃ b' ∈ y.assertions, b'.digest = b.digest := by
        rcases hc with ⟨rfl, z, hz, hd⟩ | hp
        · rintro b (hb | rfl)
          · exact ⟨b, hb, rfl⟩
          · exact ⟨z, hz, hd⟩
        · rintro b (hb | rfl)
          · exact ⟨b, hp.mem_iff.2 (List.mem_append_left _ hb), rfl⟩
          · exact ⟨b, hp.mem_iff.2 (by simp), rfl⟩
      have hy_node : y.isNode = true := by
        have : y.assertions ≠ [] := by
          obtain ⟨b', hb', _⟩ := hy_sup a (Or.inr rfl)
          exact List.ne_nil_of_mem hb'
        cases y <;> simp_all [Env.assertions, Env.isNode]
      refine ⟨hs2.trans hs1, hx2.trans hx1, ?_, ?_, ?_, ?_⟩
      · intro b hb
        rcases hsub b hb with hb | hb
        · rcases hy_sub b hb with hb | hb
          · exact Or.inl hb
          · exact Or.inr (by simp [hb])
        · exact Or.inr (by simp [hb])
      · intro b hb
        have : (b ∈ x.assertions ∨ b = a) ∨ b ∈ l := by
          rcases hb with hb | hb
          · exact Or.inl (Or.inl hb)
          · rcases List.mem_cons.1 hb with hb | hb
            · exact Or.inl (Or.inr hb)
            · exact Or.inr hb
        rcases this with hb | hb
        · obtain ⟨b', hb', hd⟩ := hy_sup b hb
          obtain ⟨b'', hb'', hd'⟩ := hsup b' (Or.inl hb')
          exact ⟨b'', hb'', hd'.trans hd⟩
        · exact hsup b (Or.inr hb)
      · intro _
        cases l with
        | nil => cases hm'; exact hy_node
        | cons c l' => exact hnode (by simp)
      · intro c hc'
        rcases List.mem_cons.1 hc' with rfl | hc'
        · exact hslot
        · exact hsl c hc'

/-- the metadata envelope exists as soon as every metadata element may stand in an
assertion slot -/
theorem metaFold_isOk : ∀ (metas : List Env) (x : Env), (∀ a ∈ metas, a.slotOk = true) →
    ∃ m, metaFold h (.ok x) metas = .ok m
  | [], x, _ => ⟨x, rfl⟩
  | a :: l, x, hsl => by
    obtain ⟨y, hy⟩ := InvL.addAssertionEnvelope_isOk h (e := x) (hsl a (by simp))
    have : metaFold h (.ok x) (a :: l) = metaFold h (.ok y) l := by
      show metaFold h (metaStep h x a) l = _
      unfold metaStep; rw [hy]
    rw [this]
    exact metaFold_isOk l y (fun b hb => hsl b (by simp [hb]))

/-! ### `addSignature` unfolded -/

theorem addSignature_nil (e : Env) (sig : Cbor) (outer : Env → Cbor) :
    addSignature h e sig [] outer = addAssertionUnwrap h e (signedKV h) (newLeaf h sig) := rfl

theorem addWrapperSig (m : Env) (outer : Env → Cbor) :
    addAssertionUnwrap h (wrap h m) (signedKV h) (newLeaf h (outer (wrap h m))) =
      .ok (signedWrapper h m outer) := by
  rw [addAssertionUnwrap_eq]
  rfl

/-- the body of `addSignature` when there is metadata -/
def addSignatureMeta (e : Env) (sig : Cbor) (metadata : List Env) (outer : Env → Cbor) : Res Env :=
  (metaEnvelope h sig metadata).bind fun m =>
    (addAssertionUnwrap h (wrap h m) (signedKV h) (newLeaf h (outer (wrap h m)))).bind fun signature =>
      addAssertionUnwrap h e (signedKV h) signature

theorem addSignature_cons_aux (e : Env) (sig : Cbor) (a : Env) (metas : List Env)
    (outer : Env → Cbor) :
    addSignature h e sig (a :: metas) outer = addSignatureMeta h e sig (a :: metas) outer := by
  unfold addSignature
  simp only [List.isEmpty_cons, Bool.false_eq_true, if_false]
  rfl

theorem addSignature_cons (e : Env) (sig : Cbor) (a : Env) (metas : List Env) (outer : Env → Cbor) :
    addSignature h e sig (a :: metas) outer =
      (metaEnvelope h sig (a :: metas)).bind fun m =>
        addAssertionUnwrap h e (signedKV h) (signedWrapper h m outer) := by
  rw [addSignature_cons_aux]
  unfold addSignatureMeta
  congr 1

/-- every successful `addSignature` is `add_assertion('signed', o)` for the object `o`
it built: the signature leaf, or the signed wrapper of the metadata envelope -/
theorem addSignature_ok {e r : Env} {sig : Cbor} {metas : List Env} {outer : Env → Cbor}
    (hr : addSignature h e sig metas outer = .ok r) :
    (metas = [] ∧ addAssertionUnwrap h e (signedKV h) (newLeaf h sig) = .ok r) ∨
    (metas ≠ [] ∧ ∃ m, metaEnvelope h sig metas = .ok m ∧
      addAssertionUnwrap h e (signedKV h) (signedWrapper h m outer) = .ok r) := by
  cases metas with
  | nil => exact Or.inl ⟨rfl, hr⟩
  | cons a l =>
    rw [addSignature_cons] at hr
    obtain ⟨m, hm, hr'⟩ := InvL.res_bind_eq_ok.1 hr
    exact Or.inr ⟨by simp, m, hm, hr'⟩

/-! ### the signed wrapper -/

theorem signedWrapper_subject (m : Env) (outer : Env → Cbor) :
    (signedWrapper h m outer).subject = .wrapped m (h.ofDigests [m.digest]) := rfl

theorem signedWrapper_signedObjects (m : Env) (outer : Env → Cbor) (o : Env) :
    o ∈ signedObjects h (signedWrapper h m outer) ↔ o = newLeaf h (outer (wrap h m)) := by
  rw [mem_signedObjects]
  constructor
  · rintro ⟨a, ha, q, d, hsub, _⟩
    have ha' : a ∈ sortByDigest [sigAssertion h (newLeaf h (outer (wrap h m)))] := ha
    rw [mem_sortByDigest, List.mem_singleton] at ha'
    subst ha'
    simp only [sigAssertion, newAssertion, Env.subject, Env.assertion.injEq] at hsub
    exact hsub.2.1.symm
  · rintro rfl
    refine ⟨sigAssertion h (newLeaf h (outer (wrap h m))), ?_, signedKV h, _, rfl, rfl⟩
    show _ ∈ sortByDigest [_]
    rw [mem_sortByDigest]; simp

variable {V} in
theorem extractSignature_newLeaf_sign {S : Signer} (L : SigLaws V S) (k : Nat) (d : Digest) :
    extractSignature (newLeaf h (S.sign k d)) = some (S.sign k d) := by
  obtain ⟨x, hx⟩ := L.tagged k d
  rw [hx]
  simp [newLeaf, extractSignature]

/-! ### `findSome?` with one candidate -/

theorem findSome?_unique {α β} (f : α → Option β) (o : α) :
    ∀ (l : List α), o ∈ l → (∀ x ∈ l, (f x).isSome = true → x = o) → l.findSome? f = f o
  | [], hm, _ => by cases hm
  | a :: l, hm, hu => by
    rw [List.findSome?_cons]
    cases hfa : f a with
    | some b =>
      have : a = o := hu a (by simp) (by simp [hfa])
      subst this; simp [hfa]
    | none =>
      simp only
      rcases List.mem_cons.1 hm with rfl | hm
      · rw [hfa]
        cases hl : l.findSome? f with
        | none => rfl
        | some b =>
          obtain ⟨x, hx, hfx⟩ := List.findSome?_isSome_iff.1 (by rw [hl]; rfl : (l.findSome? f).isSome = true)
          have := hu x (by simp [hx]) hfx
          subst this; rw [hfa] at hfx; cases hfx
      · exact findSome?_unique f o l hm (fun x hx => hu x (by simp [hx]))

/-! ### the counting loop -/

theorem validCount_cons (valid : Nat → Bool) (k : Nat) (ks : List Nat) :
    validCount valid (k :: ks) = validCount valid ks + (if valid k = true then 1 else 0) := by
  simp [validCount, List.countP_cons]

theorem thresholdLoop_spec (e : Env) (t : Nat) (valid : Nat → Bool) :
    ∀ (keys : List Nat) (count : Nat), (∀ k ∈ keys, hasSignatureFrom h V k e = .ok (valid k)) →
      thresholdLoop h V e t keys count =
        .ok (decide (1 ≤ validCount valid keys ∧ t ≤ count + validCount valid keys))
  | [], count, _ => by simp [thresholdLoop, validCount]
  | k :: ks, count, hv => by
    have ih := fun c => thresholdLoop_spec e t valid ks c (fun k' hk' => hv k' (by simp [hk']))
    have hk := hv k (by simp)
    unfold thresholdLoop
    rw [hk, validCount_cons]
    cases hvk : valid k with
    | true =>
      simp only [if_true]
      by_cases ht : count + 1 ≥ t
      · simp only [ht, if_true, Res.ok.injEq]
        symm; rw [decide_eq_true_eq]; omega
      · simp only [ht, if_false, ih, Res.ok.injEq]
        generalize validCount valid ks = n
        rw [decide_eq_decide]; omega
    | false =>
      simp only [Bool.false_eq_true, if_false, Nat.add_zero]
      rw [ih]

/-! ### obscuring elsewhere leaves an element as it is -/

section
variable (A : Aead) (Z : Deflate) (T : Digest → Bool) (rev : Bool) (act : Action)

mutual
/-- an element none of whose sub-elements is hit comes back unchanged, whatever the action
and the mode -/
theorem elideSet_untouched : (e : Env) → Inv h e →
    (∀ x ∈ elements e, (T x.digest != rev) = false) → elideSet h A Z T rev act e = .ok e
  | .node s as d, hi, hu => by
    have hroot : (T d != rev) = false := hu (.node s as d) (by simp [elements])
    have hw := hi.1; have hc := hi.2
    simp only [WF] at hw
    simp only [Canon] at hc
    rw [elideSet_node_inv h A Z T rev act hi hroot]
    exact ⟨s, as, elideSet_untouched s ⟨hw.1, hc.1⟩ (fun x hx => hu x (by simp [elements, hx])), rfl,
      elideSetList_untouched as hw.2.1 hc.2.1 (fun x hx => hu x (by simp [elements, hx])), rfl⟩
  | .wrapped e d, hi, hu => by
    have hroot : (T d != rev) = false := hu (.wrapped e d) (by simp [elements])
    have hw := hi.1; have hc := hi.2
    simp only [WF] at hw
    simp only [Canon] at hc
    rw [elideSet_wrapped_wf h A Z T rev act hi.1 hroot]
    exact ⟨e, elideSet_untouched e ⟨hw.1, hc⟩ (fun x hx => hu x (by simp [elements, hx])), rfl, rfl⟩
  | .assertion p o d, hi, hu => by
    have hroot : (T d != rev) = false := hu (.assertion p o d) (by simp [elements])
    have hw := hi.1; have hc := hi.2
    simp only [WF] at hw
    simp only [Canon] at hc
    rw [elideSet_assertion_ok_iff h A Z T rev act hroot]
    exact ⟨p, o, elideSet_untouched p ⟨hw.1, hc.1⟩ (fun x hx => hu x (by simp [elements, hx])),
      elideSet_untouched o ⟨hw.2.1, hc.2⟩ (fun x hx => hu x (by simp [elements, hx])),
      hw.2.2.symm, rfl⟩
  | .leaf c d, _, hu =>
    elideSet_miss_of_child_none h A Z T rev act (by intro s; cases s <;> rfl) (hu _ (by simp [elements]))
  | .elided d, _, hu =>
    elideSet_miss_of_child_none h A Z T rev act (by intro s; cases s <;> rfl) (hu _ (by simp [elements]))
  | .knownValue v d, _, hu =>
    elideSet_miss_of_child_none h A Z T rev act (by intro s; cases s <;> rfl) (hu _ (by simp [elements]))
  | .encrypted m d, _, hu =>
    elideSet_miss_of_child_none h A Z T rev act (by intro s; cases s <;> rfl) (hu _ (by simp [elements]))
  | .compressed c d, _, hu =>
    elideSet_miss_of_child_none h A Z T rev act (by intro s; cases s <;> rfl) (hu _ (by simp [elements]))
theorem elideSetList_untouched : (as : List Env) → WFList h as → CanonList as →
    (∀ x ∈ elementsList as, (T x.digest != rev) = false) →
    Forall₂ (ElemRel h A Z T rev act) as as
  | [], _, _, _ => .nil
  | a :: as, hw, hc, hu => by
    simp only [WFList] at hw
    simp only [CanonList] at hc
    exact .cons ⟨elideSet_untouched a ⟨hw.1, hc.1⟩ (fun x hx => hu x (by simp [elementsList, hx])), rfl⟩
      (elideSetList_untouched as hw.2 hc.2 (fun x hx => hu x (by simp [elementsList, hx])))
end

theorem forall₂_mem_left {α β : Type} {R : α → β → Prop} {as : List α} {bs : List β}
    (hf : Forall₂ R as bs) {a : α} (ha : a ∈ as) : ∃ b ∈ bs, R a b := by
  induction hf with
  | nil => cases ha
  | cons hr _ ih =>
    rcases List.mem_cons.1 ha with rfl | ha
    · exact ⟨_, by simp, hr⟩
    · obtain ⟨b, hb, hrb⟩ := ih ha
      exact ⟨b, by simp [hb], hrb⟩

/-- obscuring a node that is not itself hit: the subject keeps its digest and every
assertion element none of whose sub-elements is hit is still there, identically -/
theorem elideSet_node_keeps {e r : Env} (hi : Inv h e) (hn : e.isNode = true)
    (hroot : (T e.digest != rev) = false) (hr : elideSet h A Z T rev act e = .ok r) :
    r.subject.digest = e.subject.digest ∧
      ∀ a ∈ e.assertions, (∀ x ∈ elements a, (T x.digest != rev) = false) → a ∈ r.assertions := by
  cases e with
  | node s as d =>
    obtain ⟨s', as', _, hd, hf, rfl⟩ := (elideSet_node_inv h A Z T rev act hi hroot).1 hr
    refine ⟨hd, ?_⟩
    intro a ha hu
    obtain ⟨b, hb, hrel⟩ := forall₂_mem_left hf ha
    have hw := hi.1; have hc := hi.2
    simp only [WF] at hw
    simp only [Canon] at hc
    have hia : Inv h a := ⟨(WFList_iff h as).1 hw.2.1 a ha, (CanonList_iff as).1 hc.2.1 a ha⟩
    have := elideSet_untouched h A Z T rev act a hia hu
    have h1 := hrel.1
    rw [this] at h1
    cases h1
    exact hb
  | _ => cases hn

end

/-! ### the shadowed signature (an element with the digest of the new assertion is there,
obscured): `add_signature` changes nothing and the signature does not verify -/

/-- subject `s` with one elided assertion element whose digest is that of `'signed': sig` -/
def shadowed (s : Env) (sig : Cbor) : Env :=
  .node s [.elided (sigAssertion h (newLeaf h sig)).digest]
    (h.ofDigests [s.digest, (sigAssertion h (newLeaf h sig)).digest])

theorem shadowed_inv {s : Env} (sig : Cbor) (hs : Inv h s)
    (hv : (sigAssertion h (newLeaf h sig)).digest.Valid) : Inv h (shadowed h s sig) := by
  refine ⟨?_, ?_⟩
  · simp only [shadowed, WF, WFList, hs.1, List.map, Env.digest, and_self]
  · simp only [shadowed, Canon, CanonList, hs.2, hv, AscDigests, List.pairwise_cons,
      List.not_mem_nil, false_imp_iff, implies_true, List.Pairwise.nil, and_self, ne_eq,
      reduceCtorEq, not_false_eq_true, List.mem_singleton, forall_eq, true_and]
    rfl

theorem shadowed_addSignature (s : Env) (sig : Cbor) (outer : Env → Cbor) :
    addSignature h (shadowed h s sig) sig [] outer = .ok (shadowed h s sig) := by
  rw [addSignature_nil, addAssertionUnwrap_eq]
  simp [addAssertionEnvelope, shadowed, sigAssertion, signedKV, newAssertion, Env.slotOk,
    Env.isSubjectAssertion, Env.digest]

theorem shadowed_signedObjects (s : Env) (sig : Cbor) : signedObjects h (shadowed h s sig) = [] := by
  rfl

/-! ### toy envelopes for the satisfiability examples -/
namespace Toy

theorem hash_valid (b : Bytes) : (hash.H b).Valid := Nat.mod_lt _ (by decide)

/-- the subject -/
def subj : Env := newLeaf hash (.text [0x62])
/-- the signature of key 1 over the subject -/
def sig1 : Cbor := signer.sign 1 subj.digest
/-- `'signed': Signature` -/
def sa1 : Env := sigAssertion hash (newLeaf hash sig1)
/-- the subject signed by key 1 -/
def signed1 : Env := .node subj [sa1] (hash.ofDigests [subj.digest, sa1.digest])
/-- a metadata assertion `'note': "x"` -/
def note : Env := newAssertion hash (newKnownValue hash KV_NOTE) (newLeaf hash (.text [0x78]))

theorem subj_inv : Inv hash subj := ⟨rfl, trivial⟩

theorem signed1_eq (outer : Env → Cbor) : addSignature hash subj sig1 [] outer = .ok signed1 := by
  rw [addSignature_nil, addAssertionUnwrap_eq]
  simp [addAssertionEnvelope, subj, newLeaf, Env.subject, newNodeUnchecked, mkNode,
    AW.sortByDigest_singleton, signed1, sa1, sigAssertion, newAssertion, Env.slotOk,
    Env.isSubjectAssertion, Hash.ofDigests, Env.digest]

theorem signed1_inv : Inv hash signed1 := by
  refine ⟨?_, ?_⟩
  · simp [signed1, sa1, sigAssertion, signedKV, newAssertion, newLeaf, newKnownValue, subj, Env.digest]
  · simp [signed1, sa1, sigAssertion, signedKV, newAssertion, newLeaf, newKnownValue, subj, AscDigests,
      Env.slotOk, Env.isSubjectAssertion]

end Toy

end SigL
end EnvVerif
