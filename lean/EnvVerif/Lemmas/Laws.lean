/-
  Lemmas/Laws.lean — the laws of the dependencies that the theorems of C08 (symmetric
  encryption) and C13 (compression) are relative to.  They are structures in `Prop`,
  taken as explicit hypotheses by the theorems (never axioms), and each comes with a toy
  instance for which the laws are *proved*, so the hypotheses are satisfiable.

  * `AeadLaws A`  — an idealised AEAD (`SymmetricKey::encrypt/decrypt`, IETF
    ChaCha20-Poly1305): opening what was sealed returns the plaintext; whatever opens was
    sealed (perfect authenticity); sealing is injective in key, nonce and additional data
    (a ciphertext+tag pair belongs to one key, one nonce, one aad).
  * `DeflateLaws Z` — `inflate (deflate b) = some b`.
  * `RoundTrips h x` — the whole-envelope byte codec round-trips on `x`
    (`from_tagged_cbor_data (tagged_cbor().to_cbor_data()) = x`).  This is, verbatim, the
    conclusion of C05 `decode_encode` (from `CodecLaws`, `Inv h x`, `EncShape x`,
    `Encodable x`), so `decode_encode h L x hi hs he : RoundTrips h x`.  It is taken per
    envelope and not as `∀ e, Inv h e → decode h (encode e) = .ok e`, because the latter is
    *false* for every hash (an `Inv` envelope may hold an encrypted element whose nonce is
    not 12 bytes, or a compressed element whose data is longer than its declared size, and
    the decoder refuses those): `Obs.not_forall_inv_roundTrips` in
    `Lemmas/ObscureLemmas.lean`.
  * `AadReadsBack` — the additional data written by `encrypt_with_digest` reads back as
    the digest (`EncryptedMessage::opt_digest`).  It is *proved* for the model codec
    (`Obs.aadReadsBack` in `Lemmas/ObscureLemmas.lean`), so no theorem takes it as a
    hypothesis.
-/
import EnvVerif.Model.Inv
namespace EnvVerif

/-! ### AEAD -/

structure AeadLaws (A : Aead) : Prop where
  /-- correctness: opening what was sealed, with the same key, nonce and aad -/
  dec_enc : ∀ k n p a, A.dec k n (A.enc k n p a).1 a (A.enc k n p a).2 = some p
  /-- perfect authenticity: whatever opens under `(k, n, a)` was sealed under `(k, n, a)` -/
  dec_only_enc : ∀ k n c a t p, A.dec k n c a t = some p → (c, t) = A.enc k n p a
  /-- a sealed pair determines the key, the nonce and the additional data -/
  enc_inj : ∀ k n p a k' n' p' a', A.enc k n p a = A.enc k' n' p' a' → k = k' ∧ n = n' ∧ a = a'

namespace AeadLaws
variable {A : Aead} (L : AeadLaws A)
include L

/-- opening succeeds exactly on what was sealed with these parameters -/
theorem dec_eq_some_iff (k n c a t p : Bytes) :
    A.dec k n c a t = some p ↔ (c, t) = A.enc k n p a := by
  constructor
  · exact L.dec_only_enc k n c a t p
  · intro hc
    have h1 : c = (A.enc k n p a).1 := congrArg Prod.fst hc
    have h2 : t = (A.enc k n p a).2 := congrArg Prod.snd hc
    rw [h1, h2]
    exact L.dec_enc k n p a

/-- the plaintext too is determined (a consequence of `dec_enc`) -/
theorem enc_inj_plain (k n p a k' n' p' a' : Bytes) (he : A.enc k n p a = A.enc k' n' p' a') :
    p = p' := by
  obtain ⟨rfl, rfl, rfl⟩ := L.enc_inj _ _ _ _ _ _ _ _ he
  have h1 := L.dec_enc k n p a
  rw [he, L.dec_enc k n p' a] at h1
  exact (Option.some.inj h1).symm

/-- a sealed pair opens under no other key, nonce or aad -/
theorem dec_other (k n p a k' n' a' : Bytes) (hne : k' ≠ k ∨ n' ≠ n ∨ a' ≠ a) :
    A.dec k' n' (A.enc k n p a).1 a' (A.enc k n p a).2 = none := by
  cases hd : A.dec k' n' (A.enc k n p a).1 a' (A.enc k n p a).2 with
  | none => rfl
  | some p' =>
    have he := L.dec_only_enc _ _ _ _ _ _ hd
    obtain ⟨rfl, rfl, rfl⟩ := L.enc_inj _ _ _ _ _ _ _ _ he
    rcases hne with h | h | h <;> exact absurd rfl h

/-- under the right key, nonce and aad, no other ciphertext / tag opens to the plaintext's
place: anything that opens is the sealed pair of what it opens to -/
theorem dec_tampered (k n p a c t : Bytes) (hne : (c, t) ≠ A.enc k n p a) :
    A.dec k n c a t = none ∨ ∃ p', p' ≠ p ∧ A.dec k n c a t = some p' ∧ (c, t) = A.enc k n p' a := by
  cases hd : A.dec k n c a t with
  | none => exact Or.inl rfl
  | some p' =>
    have he := L.dec_only_enc _ _ _ _ _ _ hd
    refine Or.inr ⟨p', ?_, rfl, he⟩
    rintro rfl
    exact hne he

end AeadLaws

/-! ### DEFLATE -/

structure DeflateLaws (Z : Deflate) : Prop where
  inflate_deflate : ∀ b, Z.inflate (Z.deflate b) = some b

/-! ### the byte codec on whole envelopes, the aad -/

/-- `Envelope::from_tagged_cbor_data(x.tagged_cbor().to_cbor_data()) = Ok(x)` -/
def RoundTrips (h : Hash) (x : Env) : Prop := decode h (encode x) = .ok x

/-- the aad written by `encrypt_with_digest` reads back as the digest -/
def AadReadsBack : Prop :=
  ∀ d : Digest, d.Valid → ∀ ct n a : Bytes, EncMsg.optDigest ⟨ct, n, a, (digestCbor d).enc⟩ = some d

/-! ### toy instances (the laws are satisfiable) -/

namespace ToyDeps

/-- unary length prefix, a zero, the string, the rest: an injective pairing of byte strings -/
def pack (x rest : Bytes) : Bytes := List.replicate x.length 1 ++ 0 :: (x ++ rest)

/-- number of bytes before the first zero byte, and what follows that zero -/
def splitOnes : Bytes → Nat × Bytes
  | [] => (0, [])
  | b :: bs => if b = 0 then (0, bs) else ((splitOnes bs).1 + 1, (splitOnes bs).2)

def unpack (l : Bytes) : Bytes × Bytes :=
  ((splitOnes l).2.take (splitOnes l).1, (splitOnes l).2.drop (splitOnes l).1)

theorem splitOnes_replicate (n : Nat) (r : Bytes) :
    splitOnes (List.replicate n 1 ++ 0 :: r) = (n, r) := by
  induction n with
  | zero => simp [splitOnes]
  | succ n ih => simp [List.replicate_succ, splitOnes, ih]

theorem unpack_pack (x r : Bytes) : unpack (pack x r) = (x, r) := by
  simp [unpack, pack, splitOnes_replicate]

theorem pack_inj {x r x' r' : Bytes} (hp : pack x r = pack x' r') : x = x' ∧ r = r' := by
  have h1 := unpack_pack x r
  rw [hp, unpack_pack] at h1
  exact ⟨(congrArg Prod.fst h1).symm, (congrArg Prod.snd h1).symm⟩

def zeros16 : Bytes := List.replicate 16 0

/-- "ciphertext" = key, nonce, aad (each framed), plaintext; tag = 16 zero bytes -/
def toyEnc (k n p a : Bytes) : Bytes × Bytes := (pack k (pack n (pack a p)), zeros16)

/-- the plaintext position of a toy ciphertext -/
def toyPlain (c : Bytes) : Bytes := (unpack (unpack (unpack c).2).2).2

theorem toyPlain_toyEnc (k n p a : Bytes) : toyPlain (toyEnc k n p a).1 = p := by
  simp [toyPlain, toyEnc, unpack_pack]

/-- opens exactly what `toyEnc` produced for this key, nonce and aad -/
def toyAead : Aead where
  enc := toyEnc
  dec := fun k n c a t => if toyEnc k n (toyPlain c) a = (c, t) then some (toyPlain c) else none

theorem toyAead_laws : AeadLaws toyAead where
  dec_enc := by
    intro k n p a
    simp only [toyAead, toyPlain_toyEnc]
    simp
  dec_only_enc := by
    intro k n c a t p hd
    simp only [toyAead] at hd
    split at hd
    · next he => cases hd; exact he.symm
    · cases hd
  enc_inj := by
    intro k n p a k' n' p' a' he
    simp only [toyAead, toyEnc, Prod.mk.injEq, and_true] at he
    obtain ⟨hk, h1⟩ := pack_inj he
    obtain ⟨hn, h2⟩ := pack_inj h1
    obtain ⟨ha, _⟩ := pack_inj h2
    exact ⟨hk, hn, ha⟩

theorem toyAead_tag_length (k n p a : Bytes) : (toyAead.enc k n p a).2.length = 16 := by
  simp [toyAead, toyEnc, zeros16]

/-- stores the data as it is (so `Compressed` never takes the deflated form) -/
def toyDeflate : Deflate where
  deflate := id
  inflate := some
  crc := fun _ => 0

theorem toyDeflate_laws : DeflateLaws toyDeflate where
  inflate_deflate := by intro b; rfl

/-- replaces the two-byte head `d8 c8` (CBOR tag 200, with which every envelope encoding
starts) by one byte: a toy that does shorten envelope encodings, so that the deflated form
of `Compressed` is exercised; the checksum is the length -/
def toyDefl (b : Bytes) : Bytes :=
  match b with
  | 0xd8 :: 0xc8 :: r => 1 :: r
  | _ => 2 :: b

def toyInfl (c : Bytes) : Option Bytes :=
  match c with
  | 1 :: r => some (0xd8 :: 0xc8 :: r)
  | 2 :: b => some b
  | _ => none

def toyDeflate2 : Deflate where
  deflate := toyDefl
  inflate := toyInfl
  crc := fun b => b.length

theorem toyDeflate2_laws : DeflateLaws toyDeflate2 where
  inflate_deflate := by
    intro b
    show toyInfl (toyDefl b) = some b
    unfold toyDefl
    split
    · rfl
    · rfl

/-- a hash with 32-byte outputs (not collision resistant; only for satisfiability) -/
def toyHash : Hash := ⟨fun b => ⟨b.length % 2 ^ 256⟩⟩

theorem toyHash_valid (b : Bytes) : (toyHash.H b).Valid := by
  simp only [toyHash, Digest.Valid]
  exact Nat.mod_lt _ (by decide)

end ToyDeps

end EnvVerif
