/-
  Model/Proof.lean — `src/extension/proof.rs`.  Sets of digests are lists used through
  membership only.
-/
import EnvVerif.Model.Obscure
namespace EnvVerif
open Env

def memD (T : List Digest) (d : Digest) : Bool := T.any (· == d)

mutual
/-- `reveal_sets`: the digests added to `result` -/
def revealSets (T : List Digest) (cur : List Digest) : Env → List Digest
  | .node s as d =>
    let cur' := d :: cur
    (if memD T d then cur' else []) ++ revealSets T cur' s ++ revealSetsList T cur' as
  | .wrapped e d =>
    let cur' := d :: cur
    (if memD T d then cur' else []) ++ revealSets T cur' e
  | .assertion p o d =>
    let cur' := d :: cur
    (if memD T d then cur' else []) ++ revealSets T cur' p ++ revealSets T cur' o
  | e =>
    let cur' := e.digest :: cur
    if memD T e.digest then cur' else []
def revealSetsList (T : List Digest) (cur : List Digest) : List Env → List Digest
  | [] => []
  | a :: as => revealSets T cur a ++ revealSetsList T cur as
end

mutual
/-- `reveal_sets`, second output: the digests strictly above some target (`interior`) -/
def interiorSets (T : List Digest) (cur : List Digest) : Env → List Digest
  | .node s as d =>
    (if memD T d then cur else []) ++ interiorSets T (d :: cur) s ++ interiorSetsList T (d :: cur) as
  | .wrapped e d =>
    (if memD T d then cur else []) ++ interiorSets T (d :: cur) e
  | .assertion p o d =>
    (if memD T d then cur else []) ++ interiorSets T (d :: cur) p ++ interiorSets T (d :: cur) o
  | e => if memD T e.digest then cur else []
def interiorSetsList (T : List Digest) (cur : List Digest) : List Env → List Digest
  | [] => []
  | a :: as => interiorSets T cur a ++ interiorSetsList T cur as
end

mutual
/-- `remove_all_found`: the targets still missing after visiting the element -/
def removeAllFound (T : List Digest) : Env → List Digest
  | .node s as d =>
    let T' := T.filter (· != d)
    if T'.isEmpty then T' else removeAllFoundList (removeAllFound T' s) as
  | .wrapped e d =>
    let T' := T.filter (· != d)
    if T'.isEmpty then T' else removeAllFound T' e
  | .assertion p o d =>
    let T' := T.filter (· != d)
    if T'.isEmpty then T' else removeAllFound (removeAllFound T' p) o
  | e => T.filter (· != e.digest)
def removeAllFoundList (T : List Digest) : List Env → List Digest
  | [] => T
  | a :: as => removeAllFoundList (removeAllFound T a) as
end

/-- `contains_all` -/
def containsAll (e : Env) (T : List Digest) : Bool := (removeAllFound T e).isEmpty

section
variable (h : Hash) (A : Aead) (Z : Deflate)

/-- `proof_contains_set` -/
def proofContainsSet (e : Env) (T : List Digest) : Res (Option Env) :=
  let reveal := revealSets T [] e
  let interior := interiorSets T [] e
  if !(T.all (memD reveal)) then .ok none else
  -- a target that contains another target stays revealed
  let elidable := T.filter (fun d => !memD interior d)
  match elideSet h A Z (memD reveal) true .elide e with
  | .ok e1 =>
    match elideSet h A Z (memD elidable) false .elide e1 with
    | .ok e2 => .ok (some e2)
    | .err x => .err x
    | .panic x => .panic x
  | .err x => .err x
  | .panic x => .panic x

/-- `confirm_contains_set` -/
def confirmContainsSet (e : Env) (T : List Digest) (proof : Env) : Bool :=
  e.digest == proof.digest && containsAll proof T

end
end EnvVerif
