/-
  Model/Proof.lean — `src/extension/proof.rs`.  Sets of digests are lists used through
  membership only.
-/
import EnvVerif.Model.Obscure
namespace EnvVerif
open Env

def memD (T : List Digest) (d : Digest) : Bool := T.any (· == d)

mutual
/-- `reveal_sets`: the digests added to `result` -/
def revealSets (T : List Digest) (cur : List Digest) : Env → List Digest
  | .node s as d =>
    let cur' := d :: cur
    (if memD T d then cur' else []) ++ revealSets T cur' s ++ revealSetsList T cur' as
  | .wrapped e d =>
    let cur' := d :: cur
    (if memD T d then cur' else []) ++ revealSets T cur' e
  | .assertion p o d =>
    let cur' := d :: cur
    (if memD T d then cur' else []) ++ revealSets T cur' p ++ revealSets T cur' o
  | e =>
    let cur' := e.digest :: cur
    if memD T e.digest then cur' else []
def revealSetsList (T : List Digest) (cur : List Digest) : List Env → List Digest
  | [] => []
  | a :: as => revealSets T cur a ++ revealSetsList T cur as
end

mutual
/-- `remove_all_found`: the targets still missing after visiting the element -/
def removeAllFound (T : List Digest) : Env → List Digest
  | .node s as d =>
    let T' := T.filter (· != d)
    if T'.isEmpty then T' else removeAllFoundList (removeAllFound T' s) as
  | .wrapped e d =>
    let T' := T.filter (· != d)
    if T'.isEmpty then T' else removeAllFound T' e
  | .assertion p o d =>
    let T' := T.filter (· != d)
    if T'.isEmpty then T' else removeAllFound (removeAllFound T' p) o
  | e => T.filter (· != e.digest)
def removeAllFoundList (T : List Digest) : List Env → List Digest
  | [] => T
  | a :: as => removeAllFoundList (removeAllFound T a) as
end

/-- `contains_all` -/
def containsAll (e : Env) (T : List Digest) : Bool := (removeAllFound T e).isEmpty

mutual
/-- `has_target_beneath`: some element strictly beneath this one is a target -/
def hasTargetBeneath (T : List Digest) : Env → Bool
  | .node s as _ => (memD T s.digest || hasTargetBeneath T s) || hitList T as
  | .wrapped e _ => memD T e.digest || hasTargetBeneath T e
  | .assertion p o _ =>
    (memD T p.digest || hasTargetBeneath T p) || (memD T o.digest || hasTargetBeneath T o)
  | _ => false
/-- `assertions.iter().any(hit)` -/
def hitList (T : List Digest) : List Env → Bool
  | [] => false
  | a :: as => (memD T a.digest || hasTargetBeneath T a) || hitList T as
end

section
variable (h : Hash)

mutual
/-- `revealing_paths_to` (the repaired proof construction): an element is kept only where a
target lies strictly beneath it; every other element is replaced by its digest -/
def revealingPathsTo (T : List Digest) : Env → Res Env
  | .node s as d =>
    if !hasTargetBeneath T (.node s as d) then .ok (elide (.node s as d)) else
    match revealingPathsTo T s with
    | .ok s' =>
      match revealingPathsToList T as with
      | .ok as' => newNodeUnchecked h s' as'
      | .err x => .err x
      | .panic x => .panic x
    | .err x => .err x
    | .panic x => .panic x
  | .wrapped e d =>
    if !hasTargetBeneath T (.wrapped e d) then .ok (elide (.wrapped e d)) else
    match revealingPathsTo T e with
    | .ok e' => .ok (newWrapped h e')
    | .err x => .err x
    | .panic x => .panic x
  | .assertion p o d =>
    if !hasTargetBeneath T (.assertion p o d) then .ok (elide (.assertion p o d)) else
    match revealingPathsTo T p with
    | .ok p' =>
      match revealingPathsTo T o with
      | .ok o' => .ok (newAssertion h p' o')
      | .err x => .err x
      | .panic x => .panic x
    | .err x => .err x
    | .panic x => .panic x
  | e => .ok (elide e)
def revealingPathsToList (T : List Digest) : List Env → Res (List Env)
  | [] => .ok []
  | a :: as =>
    match revealingPathsTo T a with
    | .ok a' =>
      match revealingPathsToList T as with
      | .ok as' => .ok (a' :: as')
      | .err x => .err x
      | .panic x => .panic x
    | .err x => .err x
    | .panic x => .panic x
end

/-- `proof_contains_set` -/
def proofContainsSet (e : Env) (T : List Digest) : Res (Option Env) :=
  let reveal := revealSets T [] e
  if !(T.all (memD reveal)) then .ok none else
  match revealingPathsTo h T e with
  | .ok p => .ok (some p)
  | .err x => .err x
  | .panic x => .panic x

/-- `confirm_contains_set` -/
def confirmContainsSet (e : Env) (T : List Digest) (proof : Env) : Bool :=
  e.digest == proof.digest && containsAll proof T

end
end EnvVerif
