/-
  Model/Inv.lean — the invariant: `WF` (every cached digest is the one recomputed from
  the children), `Canon` (node shape: at least one assertion element, strictly ascending
  digests, every element an assertion-or-obscured slot), and the specification's digest
  function written directly from the draft.
-/
import EnvVerif.Model.Proof
namespace EnvVerif
open Env

section
variable (h : Hash)

mutual
/-- cached digests agree with the digests recomputed from the children, recursively -/
def WF : Env → Prop
  | .node s as d => WF s ∧ WFList as ∧ d = h.ofDigests (s.digest :: as.map Env.digest)
  | .leaf c d => d = h.H c.enc
  | .wrapped e d => WF e ∧ d = h.ofDigests [e.digest]
  | .assertion p o d => WF p ∧ WF o ∧ d = h.ofDigests [p.digest, o.digest]
  | .elided _ => True
  | .knownValue v d => d = h.H (knownValueCbor v).enc
  | .encrypted m d => m.optDigest = some d
  | .compressed _ _ => True
def WFList : List Env → Prop
  | [] => True
  | a :: as => WF a ∧ WFList as
end

mutual
/-- the digest the specification assigns to a structure (draft sections 4.1–4.5 plus the
extension rules): leaf `H(dCBOR)`, known value `H(#6.40000(v))`, assertion
`H(pred ‖ obj)`, node `H(subject ‖ assertion digests in ascending order)`, wrapped
`H(inner)`, elided / encrypted / compressed: the declared digest. -/
def specDigest : Env → Digest
  | .node s as _ =>
    h.ofDigests (specDigest s :: (specDigestList as).mergeSort (fun a b => decide (a.val ≤ b.val)))
  | .leaf c _ => h.H c.enc
  | .wrapped e _ => h.ofDigests [specDigest e]
  | .assertion p o _ => h.ofDigests [specDigest p, specDigest o]
  | .elided d => d
  | .knownValue v _ => h.H (knownValueCbor v).enc
  | .encrypted m d => (m.optDigest).getD d
  | .compressed _ d => d
def specDigestList : List Env → List Digest
  | [] => []
  | a :: as => specDigest a :: specDigestList as
end

end

/-- strictly ascending digests (hence no two equal) -/
def AscDigests (as : List Env) : Prop := as.Pairwise (fun a b => a.digest.val < b.digest.val)

mutual
/-- canonical shape, recursively -/
def Canon : Env → Prop
  | .node s as _ => Canon s ∧ CanonList as ∧ as ≠ [] ∧ AscDigests as ∧ (∀ a ∈ as, a.slotOk = true)
  | .leaf _ _ => True
  | .wrapped e _ => Canon e
  | .assertion p o _ => Canon p ∧ Canon o
  | .elided d => d.Valid
  | .knownValue _ _ => True
  | .encrypted _ d => d.Valid
  | .compressed _ d => d.Valid
def CanonList : List Env → Prop
  | [] => True
  | a :: as => Canon a ∧ CanonList as
end

/-- the invariant of every envelope the library produces -/
def Inv (h : Hash) (e : Env) : Prop := WF h e ∧ Canon e

mutual
/-- all elements in structure-walk order -/
def elements : Env → List Env
  | .node s as d => .node s as d :: (elements s ++ elementsList as)
  | .wrapped e d => .wrapped e d :: elements e
  | .assertion p o d => .assertion p o d :: (elements p ++ elements o)
  | e => [e]
def elementsList : List Env → List Env
  | [] => []
  | a :: as => elements a ++ elementsList as
end

end EnvVerif
