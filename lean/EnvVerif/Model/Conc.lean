/-
  Model/Conc.lean — the lock protocol of the global registries (property C20).

  Import-free and executable (linked into `envdrv`).

  What is modelled.  `/repo` has four "lazies" and `dcbor` has a fifth one, all of the same
  shape (`format_context.rs`, `known_values_registry.rs`, `functions.rs`, `parameters.rs`,
  `dcbor-0.17.1/src/tags.rs`):

      struct LazyX { init: Once, data: Mutex<Option<X>> }          // both fields private
      fn get(&self) -> MutexGuard<..> {
          self.init.call_once(|| { ...build m...; *self.data.lock().unwrap() = Some(m); });
          self.data.lock()...                                        // the guard handed out
      }

  A *resource* is a natural number and its *rank* is the number itself.  A `Mutex` and a
  `Once` are both resources:

    * `acq m` blocks while somebody owns `m`, then the caller owns it; `rel m` gives it up
      (a `MutexGuard` going out of scope);
    * `once o body` is `Once::call_once`: if `o` is finished it is skipped; while another
      thread runs the initialiser the caller is blocked; otherwise the caller becomes the
      runner - it *owns* `o` - and its program becomes `body ++ [done o] ++ rest`;
      `done o` marks `o` finished and gives it up.

  A running `Once` is therefore kept in the same ownership table as a locked `Mutex`
  (`owner o = some tid` means "tid is the runner of o"); the table `running` of DESIGN.md is
  the restriction of `owner` to the once-resources, see `State.running`.  The API programs
  use distinct numbers for the ten objects, so nothing is conflated.

  What is *not* an instruction: the momentary `*self.data.lock().unwrap() = Some(m)` inside
  a lazy's own initialiser.  `data` is private, it is locked only in `get()`, and outside the
  initialiser only *after* `call_once` has returned, that is after the `Once` completed.  So
  while the initialiser runs nobody else can hold `data`, the store never blocks, and it is
  released before the initialiser goes on.  (For `GLOBAL_FORMAT_CONTEXT` the store happens
  while the guards of TAGS, KNOWN_VALUES, FUNCTIONS and PARAMETERS are held: written as an
  `acq FMT` it would be a rank inversion TAGS -> FMT; it is benign for the reason above.)
-/

namespace EnvVerif.Conc

/-! ## Programs -/

inductive Instr where
  | acq (r : Nat)
  | rel (r : Nat)
  | once (r : Nat) (body : List Instr)
  | done (r : Nat)
  deriving Repr, Inhabited

/- equality of programs (the driver compares extracted programs with the table) -/
mutual
def beqProg : List Instr → List Instr → Bool
  | [], [] => true
  | i :: p, j :: q => beqI i j && beqProg p q
  | _, _ => false
termination_by structural p => p
def beqI : Instr → Instr → Bool
  | .acq r, .acq r' => r == r'
  | .rel r, .rel r' => r == r'
  | .done r, .done r' => r == r'
  | .once r body, .once r' body' => r == r' && beqProg body body'
  | _, _ => false
termination_by structural i => i
end

instance : BEq Instr := ⟨beqI⟩

/-- `r` is strictly above everything in `held` -/
def above (r : Nat) (held : List Nat) : Bool := held.all (fun x => decide (x < r))

/-- drop `r` from a held-list -/
def drop (r : Nat) (held : List Nat) : List Nat := held.filter (fun x => x != r)

/- Thread-local symbolic execution.  `sym held prog` is the list of resources held after
`prog` was run by a thread that held `held`, or `none` when the program
  * requests (`acq r`, or `once r ..`: the caller may have to wait for `r`'s runner, and while
    it runs the body it is the one others wait for) something that is not strictly above
    everything it holds,
  * gives up (`rel r`, `done r`) something it does not hold,
  * contains a `once` whose body does not end holding exactly what it started with
    (the runner itself included). -/
mutual
def sym : List Nat → List Instr → Option (List Nat)
  | held, [] => some held
  | held, i :: rest =>
      match symI held i with
      | some h => sym h rest
      | none => none
termination_by structural _ p => p
def symI : List Nat → Instr → Option (List Nat)
  | held, .acq r => if above r held then some (r :: held) else none
  | held, .rel r => if held.contains r then some (drop r held) else none
  | held, .done r => if held.contains r then some (drop r held) else none
  | held, .once r body =>
      if above r held then
        match sym (r :: held) body with
        | some h => if h == r :: held then some held else none
        | none => none
      else none
termination_by structural _ i => i
end

/-- a lock program is *ranked*: run alone from nothing it requests resources in strictly
increasing rank and ends holding nothing -/
def Ranked (prog : List Instr) : Bool := sym [] prog == some []

/-- the checker the driver runs on lock programs extracted from traces -/
def rankedOf (prog : List Instr) : Bool := Ranked prog

/- The measure: the number of steps a thread can still make, at most.  A `once` costs its
own step, its body and the `done`. -/
mutual
def size : List Instr → Nat
  | [] => 0
  | i :: rest => sizeI i + size rest
termination_by structural p => p
def sizeI : Instr → Nat
  | .acq _ => 1
  | .rel _ => 1
  | .done _ => 1
  | .once _ body => size body + 2
termination_by structural i => i
end

/-! ## Global state and small-step semantics -/

structure Thread where
  pc : List Instr
  held : List Nat
  deriving Repr, Inhabited

/-- `owner r = some tid`: thread `tid` holds the mutex `r`, or is the runner of the once `r`.
`finished`: the onces that completed. -/
structure State where
  threads : List Thread
  owner : Nat → Option Nat
  finished : List Nat

def upd (f : Nat → Option Nat) (r : Nat) (v : Option Nat) : Nat → Option Nat :=
  fun x => if x = r then v else f x

/-- One step of thread `tid`; `none` when the thread does not exist, has finished, or is
blocked.  Giving up a resource one does not own is *not* a step (the thread is stuck for
ever); `no_deadlock` shows that this never happens to ranked programs. -/
def step (s : State) (tid : Nat) : Option State :=
  match s.threads[tid]? with
  | none => none
  | some t =>
    match t.pc with
    | [] => none
    | .acq r :: rest =>
        match s.owner r with
        | some _ => none
        | none => some { threads := s.threads.set tid ⟨rest, r :: t.held⟩,
                         owner := upd s.owner r (some tid), finished := s.finished }
    | .rel r :: rest =>
        if s.owner r = some tid then
          some { threads := s.threads.set tid ⟨rest, drop r t.held⟩,
                 owner := upd s.owner r none, finished := s.finished }
        else none
    | .once r body :: rest =>
        if s.finished.contains r then
          some { threads := s.threads.set tid ⟨rest, t.held⟩,
                 owner := s.owner, finished := s.finished }
        else
          match s.owner r with
          | some _ => none
          | none => some { threads := s.threads.set tid ⟨body ++ .done r :: rest, r :: t.held⟩,
                           owner := upd s.owner r (some tid), finished := s.finished }
    | .done r :: rest =>
        if s.owner r = some tid then
          some { threads := s.threads.set tid ⟨rest, drop r t.held⟩,
                 owner := upd s.owner r none, finished := r :: s.finished }
        else none

/-- every thread at the start of its program, nothing held, nothing initialised -/
def init (progs : List (List Instr)) : State :=
  { threads := progs.map (fun p => ⟨p, []⟩), owner := fun _ => none, finished := [] }

/-- run a schedule (a list of thread ids); `none` if some scheduled thread cannot step -/
def run : State → List Nat → Option State
  | s, [] => some s
  | s, tid :: sched =>
      match step s tid with
      | some s' => run s' sched
      | none => none

/-- the measure of a state: total remaining work -/
def State.size (s : State) : Nat := (s.threads.map (fun t => Conc.size t.pc)).sum

/-- the onces a thread is running: those whose `done` is pending in its program -/
def Thread.running (t : Thread) : List Nat :=
  t.pc.filterMap (fun i => match i with | .done r => some r | _ => none)

/-- the `running` table of DESIGN.md, derived: pairs (once, runner) -/
def State.running (s : State) : List (Nat × Nat) :=
  (s.threads.zipIdx).flatMap (fun p => p.1.running.map (fun r => (r, p.2)))

def State.allDone (s : State) : Bool := s.threads.all (fun t => t.pc.isEmpty && t.held.isEmpty)

/-! ## The lock programs of the API

Ranks.  `oX` is the `Once` of lazy `X`, `X` its data mutex.

    oFMT 0 < FMT 1 < oTAGS 2 < TAGS 3 < oKV 4 < KV 5 < oFN 6 < FN 7 < oPARAM 8 < PARAM 9

  * FMT   = `bc_envelope::GLOBAL_FORMAT_CONTEXT`      (format_context.rs)
  * TAGS  = `dcbor::GLOBAL_TAGS`                      (dcbor tags.rs; modelled from source)
  * KV    = `bc_envelope::known_values::KNOWN_VALUES` (known_values_registry.rs)
  * FN    = `expressions::GLOBAL_FUNCTIONS`           (functions.rs)
  * PARAM = `expressions::GLOBAL_PARAMETERS`          (parameters.rs)
-/

def oFMT : Nat := 0
def FMT : Nat := 1
def oTAGS : Nat := 2
def TAGS : Nat := 3
def oKV : Nat := 4
def KV : Nat := 5
def oFN : Nat := 6
def FN : Nat := 7
def oPARAM : Nat := 8
def PARAM : Nat := 9

def resourceNames : List (Nat × String) :=
  [(oFMT, "oFMT"), (FMT, "FMT"), (oTAGS, "oTAGS"), (TAGS, "TAGS"), (oKV, "oKV"), (KV, "KV"),
   (oFN, "oFN"), (FN, "FN"), (oPARAM, "oPARAM"), (PARAM, "PARAM")]

/-- `LazyX::get()`: `call_once(init)` and then the guard of the data mutex (kept by the
caller).  The store into `X` inside `init` is not an instruction, see the header. -/
def lazyGet (o m : Nat) (initBody : List Instr) : List Instr := [.once o initBody, .acq m]

/-- `dcbor::GLOBAL_TAGS.get()`; the initialiser builds an empty store, no locks -/
def getTAGS : List Instr := lazyGet oTAGS TAGS []
/-- `KNOWN_VALUES.get()`; the initialiser builds the store from constants, no locks -/
def getKV : List Instr := lazyGet oKV KV []
/-- `GLOBAL_FUNCTIONS.get()` -/
def getFN : List Instr := lazyGet oFN FN []
/-- `GLOBAL_PARAMETERS.get()` -/
def getPARAM : List Instr := lazyGet oPARAM PARAM []

/-- `with_tags!(..)` / `with_tags_mut!(..)` around a closure that takes no lock:
`dcbor::tags_for_values` (hence every `cbor_tags()`, `tagged_cbor()`, `from_tagged_cbor`),
`dcbor::register_tags()`, `bc_components::register_tags()`. -/
def tagsBrief : List Instr := getTAGS ++ [.rel TAGS]

/-- the body of `GLOBAL_FORMAT_CONTEXT`'s `call_once` (format_context.rs, `get`):
`bc_components::register_tags()`; then the guards of TAGS, KNOWN_VALUES, FUNCTIONS,
PARAMETERS are taken in that order and all four are alive while the context is built and
stored; the locals are dropped in reverse order of declaration. -/
def fmtInit : List Instr :=
  tagsBrief ++ getTAGS ++ getKV ++ getFN ++ getPARAM ++
    [.rel PARAM, .rel FN, .rel KV, .rel TAGS]

/-- `GLOBAL_FORMAT_CONTEXT.get()` -/
def getFMT : List Instr := lazyGet oFMT FMT fmtInit

/-- `with_format_context!(|ctx| ..)` / `with_format_context_mut!` around a closure that makes
`k` brief uses of the dcbor tag store (`Envelope::cbor_tags()` in `format_item`,
`tagged_cbor()` in `diagnostic_annotated` and `hex`, tag lookups inside summarizers) and takes
no other lock.  The context guard lives for the whole call. -/
def withFMT (k : Nat) : List Instr :=
  getFMT ++ (List.replicate k tagsBrief).flatten ++ [.rel FMT]

/-- a registry consulted directly: `X.get()`, a lookup, the guard dropped -/
def lookupKV : List Instr := getKV ++ [.rel KV]
def lookupFN : List Instr := getFN ++ [.rel FN]
def lookupPARAM : List Instr := getPARAM ++ [.rel PARAM]

/-- a program as it runs when every lazy it touches has been initialised before -/
def afterFirst (p : List Instr) : List Instr :=
  p.map (fun i => match i with | .once r _ => .once r [] | i => i)

/-- The API operations of C20 and their lock programs.  The number of brief TAGS uses inside
a formatting call depends on the envelope (one per `cbor_tags()` call); the table lists the
shapes with 0, 1 and 2 of them, `withFMT_ranked` (Lemmas/ConcLemmas.lean) covers every `k`. -/
def apiOps : List (String × List Instr) :=
  [ ("format",                 withFMT 1),
    ("format/2",               withFMT 2),
    ("format_flat",            withFMT 1),
    ("tree_format",            withFMT 0),
    ("tree_format/1",          withFMT 1),
    ("diagnostic_annotated",   withFMT 1),
    ("hex",                    withFMT 1),
    ("register_tags",          withFMT 0),
    ("known_value_lookup",     lookupKV),
    ("function_lookup",        lookupFN),
    ("parameter_lookup",       lookupPARAM),
    -- client code using the exported macro as a `for` iterator and a `match` scrutinee with formatting in the bodies: the guard
    -- dies with the macro's own block, so this is five formatting calls one after the other
    ("macro_scrutinee",        withFMT 1 ++ (List.replicate 4 (afterFirst (withFMT 1))).flatten),
    ("cbor_tags",              tagsBrief),
    ("components_register_tags", tagsBrief) ]

def allRanked : Bool := apiOps.all (fun p => Ranked p.2)

/-! ## The lazy discipline

`lazyOK o m known prog`: the data mutex `m` of a lazy is taken only at points where its
`Once` `o` is known to have completed - `known`, or after an `once o _` (or the `done o` of an
unfolded one) earlier in program order - and `o` / `m` are not used in any other way.  This
is what "`data` is private and `get()` locks it only after `call_once`" amounts to; it is the
hypothesis of `lazy_store_never_blocks` (Props/C20.lean), the justification for leaving the
store inside the initialiser out of the programs. -/

def finishes (o : Nat) : Instr → Bool
  | .once r _ => r == o
  | .done r => r == o
  | _ => false

mutual
def lazyOK (o m : Nat) : Bool → List Instr → Bool
  | _, [] => true
  | k, i :: rest => lazyOKI o m k i && lazyOK o m (k || finishes o i) rest
termination_by structural _ p => p
def lazyOKI (o m : Nat) : Bool → Instr → Bool
  | k, .acq r => r != o && (r != m || k)
  | _, .rel _ => true
  | _, .done _ => true
  | k, .once r body => r != m && lazyOK o m k body
termination_by structural _ i => i
end

/-- the five lazies: (once, data mutex) -/
def lazies : List (Nat × Nat) :=
  [(oFMT, FMT), (oTAGS, TAGS), (oKV, KV), (oFN, FN), (oPARAM, PARAM)]

def lazyDisciplined (prog : List Instr) : Bool :=
  lazies.all (fun l => lazyOK l.1 l.2 false prog)

def allLazy : Bool := apiOps.all (fun p => lazyDisciplined p.2)

/- the projection of a program onto a set of resources (the tracer cannot see dcbor's
TAGS and its Once): keeps the structure, drops the instructions on other resources and
splices the bodies of dropped onces in place -/
mutual
def project (keep : Nat → Bool) : List Instr → List Instr
  | [] => []
  | i :: rest => projectI keep i ++ project keep rest
termination_by structural p => p
def projectI (keep : Nat → Bool) : Instr → List Instr
  | .acq r => if keep r then [.acq r] else []
  | .rel r => if keep r then [.rel r] else []
  | .done r => if keep r then [.done r] else []
  | .once r body => if keep r then [.once r (project keep body)] else project keep body
termination_by structural i => i
end

/-- the resources of `/repo` (everything but dcbor's TAGS lazy) -/
def repoResource (r : Nat) : Bool := r != oTAGS && r != TAGS

/-! ## Printing (for the driver) -/

mutual
def showProg : List Instr → String
  | [] => ""
  | i :: rest => showI i ++ (match rest with | [] => "" | _ => " ") ++ showProg rest
termination_by structural p => p
def showI : Instr → String
  | .acq r => "acq " ++ toString r
  | .rel r => "rel " ++ toString r
  | .done r => "done " ++ toString r
  | .once r body => "once " ++ toString r ++ " [" ++ showProg body ++ "]"
termination_by structural i => i
end

/-- what a program looks like in steady state, when every once it names at top level has
completed: the bodies are not run -/
def steady (prog : List Instr) : List Instr :=
  prog.map (fun i => match i with | .once r _ => .once r [] | i => i)

/-! ## Reading (the inverse of `showProg`; resource names of `resourceNames` are accepted
next to numbers): `once 0 [once 4 [] acq 5 rel 5] acq FMT rel FMT` -/

def tokens (s : String) : List String :=
  (((s.replace "[" " [ ").replace "]" " ] ").splitOn " ").filter (fun t => t != "")

def resourceOf (t : String) : Option Nat :=
  match resourceNames.find? (fun p => p.2 == t) with
  | some p => some p.1
  | none => t.toNat?

/-- parses instructions up to a closing bracket or the end; returns what is left -/
def parseItems : Nat → List String → Option (List Instr × List String)
  | 0, _ => none
  | _ + 1, [] => some ([], [])
  | _ + 1, "]" :: rest => some ([], "]" :: rest)
  | fuel + 1, "acq" :: n :: rest => do
      let r ← resourceOf n
      let (is, rem) ← parseItems fuel rest
      pure (.acq r :: is, rem)
  | fuel + 1, "rel" :: n :: rest => do
      let r ← resourceOf n
      let (is, rem) ← parseItems fuel rest
      pure (.rel r :: is, rem)
  | fuel + 1, "done" :: n :: rest => do
      let r ← resourceOf n
      let (is, rem) ← parseItems fuel rest
      pure (.done r :: is, rem)
  | fuel + 1, "once" :: n :: "[" :: rest => do
      let r ← resourceOf n
      let (body, rem) ← parseItems fuel rest
      match rem with
      | "]" :: rem' =>
          let (is, rem2) ← parseItems fuel rem'
          pure (.once r body :: is, rem2)
      | _ => none
  | _ + 1, _ => none

def parseProg (s : String) : Option (List Instr) :=
  let toks := tokens s
  match parseItems (toks.length + 1) toks with
  | some (p, []) => some p
  | _ => none

/-! ## Bounded breadth-first search for a deadlock (a search aid, nothing is proved about it)

States are identified by a key: per thread the measure of its remaining program (which
determines the program: a thread's only choice is skip/enter at a `once`, and the two
branches join) and what it holds, plus the set of finished onces. -/

def insertSorted (x : Nat) : List Nat → List Nat
  | [] => [x]
  | y :: ys => if x < y then x :: y :: ys else if x = y then y :: ys else y :: insertSorted x ys

def State.key (s : State) : List Nat :=
  s.threads.flatMap (fun t => Conc.size t.pc :: t.held.length :: t.held) ++
    (s.finished.foldl (fun acc x => insertSorted x acc) [])

/-- a set of keys -/
inductive Trie where
  | node (here : Bool) (kids : List (Nat × Trie))
  deriving Inhabited

def Trie.empty : Trie := .node false []

def Trie.insertKids (f : Trie → Trie × Bool) (k : Nat) :
    List (Nat × Trie) → List (Nat × Trie) × Bool
  | [] => let (t, b) := f Trie.empty; ([(k, t)], b)
  | (k', t) :: ks =>
      if k' = k then let (t', b) := f t; ((k', t') :: ks, b)
      else let (ks', b) := Trie.insertKids f k ks; ((k', t) :: ks', b)

/-- insert a key; the flag says whether it was new -/
def Trie.insert : List Nat → Trie → Trie × Bool
  | [], .node h ks => (.node true ks, !h)
  | k :: key, .node h ks =>
      let (ks', b) := Trie.insertKids (Trie.insert key) k ks
      (.node h ks', b)

def enabledTids (s : State) : List Nat :=
  (List.range s.threads.length).filter (fun i => (step s i).isSome)

/-- some thread has not finished and no thread can step -/
def deadlocked (s : State) : Bool :=
  s.threads.any (fun t => !t.pc.isEmpty) && (enabledTids s).isEmpty

/-- Breadth-first search over the interleavings of `progs`, up to `fuel` steps deep.
Returns a schedule that leads `init progs` into a deadlocked state, if one is found. -/
def findDeadlock (progs : List (List Instr)) (fuel : Nat) : Option (List Nat) := Id.run do
  let s0 := init progs
  let mut seen := (Trie.empty.insert s0.key).1
  let mut frontier : List (State × List Nat) := [(s0, [])]
  for _ in [0:fuel + 1] do
    let mut next : List (State × List Nat) := []
    for (s, revSched) in frontier do
      if deadlocked s then return some revSched.reverse
      for tid in enabledTids s do
        match step s tid with
        | none => pure ()
        | some s' =>
            let (seen', isNew) := seen.insert s'.key
            if isNew then
              seen := seen'
              next := (s', tid :: revSched) :: next
    if next.isEmpty then return none
    frontier := next.reverse
  return none

end EnvVerif.Conc
