/-
  Model/Basic.lean — bytes, hex, results.  Import-free (core Lean only) so that the
  driver `envdrv` links as a native executable.
-/
namespace EnvVerif

abbrev Bytes := List UInt8

/-- Outcome of a modelled library call: a value, an error (the Rust `Err`), or a panic
(an `unwrap`/`expect`/`assert!`/index failure in the modelled Rust function). -/
inductive Res (α : Type) where
  | ok (x : α)
  | err (e : String)
  | panic (site : String)
  deriving Repr, DecidableEq

namespace Res
@[inline] def bind {α β} (r : Res α) (f : α → Res β) : Res β :=
  match r with
  | ok x => f x
  | err e => err e
  | panic s => panic s

instance : Monad Res where
  pure := Res.ok
  bind := Res.bind

def isOk {α} : Res α → Bool
  | ok _ => true
  | _ => false

def isPanic {α} : Res α → Bool
  | panic _ => true
  | _ => false

def toOption {α} : Res α → Option α
  | ok x => some x
  | _ => none

@[simp] theorem bind_ok {α β} (x : α) (f : α → Res β) : (Res.ok x >>= f) = f x := rfl
@[simp] theorem bind_err {α β} (e : String) (f : α → Res β) : (Res.err e >>= f) = Res.err e := rfl
@[simp] theorem bind_panic {α β} (e : String) (f : α → Res β) : (Res.panic e >>= f) = Res.panic e := rfl
@[simp] theorem pure_eq {α} (x : α) : (pure x : Res α) = Res.ok x := rfl
end Res

/-! ### hex -/

def hexDigit (n : Nat) : Char :=
  if n < 10 then Char.ofNat (48 + n) else Char.ofNat (87 + n)

def hexOfBytes (b : Bytes) : String :=
  String.ofList (b.flatMap fun x => [hexDigit (x.toNat / 16), hexDigit (x.toNat % 16)])

def hexVal (c : Char) : Option Nat :=
  let n := c.toNat
  if 48 ≤ n ∧ n ≤ 57 then some (n - 48)
  else if 97 ≤ n ∧ n ≤ 102 then some (n - 87)
  else if 65 ≤ n ∧ n ≤ 70 then some (n - 55)
  else none

def bytesOfHexChars : List Char → Option Bytes
  | [] => some []
  | [_] => none
  | a :: b :: rest =>
    match hexVal a, hexVal b, bytesOfHexChars rest with
    | some x, some y, some r => some (UInt8.ofNat (x * 16 + y) :: r)
    | _, _, _ => none

def bytesOfHex (s : String) : Option Bytes := bytesOfHexChars s.toList

/-- big-endian value of a byte string -/
def beNat (b : Bytes) : Nat := b.foldl (fun acc x => acc * 256 + x.toNat) 0

/-- `n` as exactly `len` big-endian bytes (value taken modulo `256^len`) -/
def beBytes : (len : Nat) → Nat → Bytes
  | 0, _ => []
  | len + 1, n => beBytes len (n / 256) ++ [UInt8.ofNat (n % 256)]

end EnvVerif
