/-
  Model/Collections.lean — unordered collections used as envelope content (`HashSet<T>`, `HashMap<K,V>`,
  dcbor `Set` / `Map` → leaf).  What `/repo` contributes (`src/base/envelope_encodable.rs`) is the route:
  a `HashSet` goes through dcbor's `Set`, a `HashMap` through dcbor's `Map`; both are kept in ascending
  order of the *encoded* key (`BTreeMap<encoded key, (key, value)>` in dcbor), an insertion with an
  equal encoded key replaces the entry.  The result is a leaf whose CBOR is an array (set) or a map.
  Import-free.
-/
import EnvVerif.Model.Env

namespace EnvVerif
open Cbor

/-- `dcbor::Map::insert`: the entries stay strictly ascending by encoded key; an equal encoded key replaces -/
def insertKV (k v : Cbor) : List (Cbor × Cbor) → List (Cbor × Cbor)
  | [] => [(k, v)]
  | (k', v') :: rest =>
    if bytesLt k.enc k'.enc then (k, v) :: (k', v') :: rest
    else if bytesLt k'.enc k.enc then (k', v') :: insertKV k v rest
    else (k, v) :: rest

/-- a dcbor `Map` filled from the pairs in the order given -/
def mapOfList (kvs : List (Cbor × Cbor)) : List (Cbor × Cbor) :=
  kvs.foldl (fun m kv => insertKV kv.1 kv.2 m) []

/-- `CBOR::from(HashMap)` / `CBOR::from(Map)` -/
def mapCbor (kvs : List (Cbor × Cbor)) : Cbor := .map (mapOfList kvs)

/-- `CBOR::from(Set::from(HashSet))` / `CBOR::from(Set)`: a dcbor `Set` is a `Map` from each element to itself,
and encodes as the array of its values -/
def setCbor (xs : List Cbor) : Cbor := .array ((mapOfList (xs.map fun x => (x, x))).map Prod.snd)

section
variable (h : Hash)
/-- `Envelope::new(hash_set)` -/
def newSetLeaf (xs : List Cbor) : Env := newLeaf h (setCbor xs)
/-- `Envelope::new(hash_map)` -/
def newMapLeaf (kvs : List (Cbor × Cbor)) : Env := newLeaf h (mapCbor kvs)
end

end EnvVerif
