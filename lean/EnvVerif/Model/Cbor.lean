/-
  Model/Cbor.lean — the dCBOR data model and byte codec as `dcbor` 0.17 implements it
  (shortest heads, definite lengths, maps sorted by encoded key, no duplicate keys,
  canonical floats with numeric reduction, simple values false/true/null only).
  Text is carried as its UTF-8 bytes; Unicode NFC is *not* modelled (trusted base).
-/
import EnvVerif.Model.Basic
namespace EnvVerif

inductive Cbor where
  | uint (n : Nat)
  | nint (n : Nat)                      -- the value -1 - n
  | bytes (b : Bytes)
  | text (utf8 : Bytes)
  | array (xs : List Cbor)
  | map (kvs : List (Cbor × Cbor))      -- in encoded-key order
  | tagged (t : Nat) (x : Cbor)
  | simple (v : Nat)                    -- 20 false, 21 true, 22 null
  | float (bits : Nat)                  -- IEEE-754 binary64 bit pattern
  deriving Repr, Inhabited

namespace Cbor

/-! ### heads -/

/-- CBOR head: major type `mt` (0..7) and argument `n`, shortest form. -/
def head (mt : Nat) (n : Nat) : Bytes :=
  let m := UInt8.ofNat (mt * 32)
  if n < 24 then [m + UInt8.ofNat n]
  else if n < 256 then [m + 24, UInt8.ofNat n]
  else if n < 65536 then (m + 25) :: beBytes 2 n
  else if n < 4294967296 then (m + 26) :: beBytes 4 n
  else (m + 27) :: beBytes 8 n

/-! ### floats (bit-level, exact) -/

/-- finite value `(-1)^neg * m * 2^e`, or infinity, or NaN -/
inductive FVal where
  | nan
  | inf (neg : Bool)
  | fin (neg : Bool) (m : Nat) (e : Int)
  deriving Repr, DecidableEq

/-- decompose an IEEE binary format with `eb` exponent bits and `mb` mantissa bits -/
def fdecompose (eb mb : Nat) (bits : Nat) : FVal :=
  let mant := bits % 2 ^ mb
  let ex := (bits / 2 ^ mb) % 2 ^ eb
  let neg := (bits / 2 ^ (mb + eb)) % 2 == 1
  let bias : Int := 2 ^ (eb - 1) - 1
  if ex == 2 ^ eb - 1 then (if mant == 0 then .inf neg else .nan)
  else if ex == 0 then .fin neg mant (1 - bias - mb)
  else .fin neg (mant + 2 ^ mb) ((ex : Int) - bias - mb)

/-- strip trailing zero bits of the mantissa (fuel bounded by the bit length) -/
def normOdd : Nat → Nat → Int → Nat × Int
  | 0, m, e => (m, e)
  | fuel + 1, m, e => if m != 0 && m % 2 == 0 then normOdd fuel (m / 2) (e + 1) else (m, e)

def bitLen : Nat → Nat → Nat
  | 0, _ => 0
  | fuel + 1, m => if m == 0 then 0 else 1 + bitLen fuel (m / 2)

/-- encode an exact value into a format, if exactly representable -/
def fcompose (eb mb : Nat) (v : FVal) : Option Nat :=
  let bias : Int := 2 ^ (eb - 1) - 1
  let signBit (neg : Bool) : Nat := if neg then 2 ^ (mb + eb) else 0
  match v with
  | .nan => some ((2 ^ eb - 1) * 2 ^ mb + 2 ^ (mb - 1))
  | .inf neg => some (signBit neg + (2 ^ eb - 1) * 2 ^ mb)
  | .fin neg m e =>
    if m == 0 then some (signBit neg) else
    let (m, e) := normOdd 128 m e
    let len := bitLen 128 m
    -- value = m * 2^e, m odd with `len` bits; leading bit has weight 2^(e+len-1)
    let top : Int := e + len - 1
    if len > mb + 1 then none
    else if top > bias then none
    else if top ≥ 1 - bias then
      -- normal: mantissa field = (m * 2^(mb - (len-1))) without the hidden bit
      let shift := mb + 1 - len
      let full := m * 2 ^ shift
      some (signBit neg + ((top + bias).toNat) * 2 ^ mb + (full - 2 ^ mb))
    else
      -- subnormal: lsb weight is 2^(1 - bias - mb)
      let lsb : Int := 1 - bias - mb
      if e < lsb then none else some (signBit neg + m * 2 ^ (e - lsb).toNat)

/-- the integer denoted by a finite value, if it is integral -/
def FVal.toInt? : FVal → Option Int
  | .fin neg m e =>
    if m == 0 then some 0 else
    let (m, e) := normOdd 128 m e
    if e < 0 then none else
      let v : Int := m * 2 ^ e.toNat
      some (if neg then -v else v)
  | _ => none

/-- encoding of an f64 bit pattern as `dcbor` does it (`f64_cbor_data` and the
narrower paths it delegates to) -/
def encFloat (bits : Nat) : Bytes :=
  let v := fdecompose 11 52 bits
  let asInt (i : Int) : Option Bytes :=
    if 0 ≤ i ∧ i < 2 ^ 64 then some (head 0 i.toNat)
    else if i < 0 ∧ -(2 ^ 64 : Int) ≤ i then some (head 1 (-1 - i).toNat)
    else none
  match v with
  | .nan => [0xf9, 0x7e, 0x00]
  | _ =>
    match fcompose 5 10 v with
    | some b16 =>
      (match v.toInt? with
       | some i => (asInt i).getD (0xf9 :: beBytes 2 b16)
       | none => 0xf9 :: beBytes 2 b16)
    | none =>
      match fcompose 8 23 v with
      | some b32 =>
        (match v.toInt? with
         | some i => if i < 2 ^ 32 then (asInt i).getD (0xfa :: beBytes 4 b32) else 0xfa :: beBytes 4 b32
         | none => 0xfa :: beBytes 4 b32)
      | none =>
        (match v.toInt? with
         | some i => (asInt i).getD (0xfb :: beBytes 8 bits)
         | none => 0xfb :: beBytes 8 bits)

/-! ### encoder -/

/-- lexicographic order on byte strings (the order of `Vec<u8>` in Rust) -/
def bytesLt : Bytes → Bytes → Bool
  | [], [] => false
  | [], _ :: _ => true
  | _ :: _, [] => false
  | a :: as, b :: bs => if a < b then true else if b < a then false else bytesLt as bs

mutual
def enc : Cbor → Bytes
  | uint n => head 0 n
  | nint n => head 1 n
  | bytes b => head 2 b.length ++ b
  | text b => head 3 b.length ++ b
  | array xs => head 4 xs.length ++ encList xs
  | map kvs => head 5 kvs.length ++ encPairs kvs
  | tagged t x => head 6 t ++ enc x
  | simple v => head 7 v
  | float bits => encFloat bits
def encList : List Cbor → Bytes
  | [] => []
  | x :: xs => enc x ++ encList xs
def encPairs : List (Cbor × Cbor) → Bytes
  | [] => []
  | (k, v) :: kvs => enc k ++ enc v ++ encPairs kvs
end

/-! ### UTF-8 validity (as `str::from_utf8`) -/

def utf8Valid : Bytes → Bool
  | [] => true
  | b0 :: rest =>
    let cont (b : UInt8) : Bool := 0x80 ≤ b && b ≤ 0xBF
    if b0 < 0x80 then utf8Valid rest
    else if 0xC2 ≤ b0 && b0 ≤ 0xDF then
      match rest with
      | b1 :: r => cont b1 && utf8Valid r
      | _ => false
    else if 0xE0 ≤ b0 && b0 ≤ 0xEF then
      match rest with
      | b1 :: b2 :: r =>
        let ok1 := if b0 == 0xE0 then (0xA0 ≤ b1 && b1 ≤ 0xBF)
                   else if b0 == 0xED then (0x80 ≤ b1 && b1 ≤ 0x9F)
                   else cont b1
        ok1 && cont b2 && utf8Valid r
      | _ => false
    else if 0xF0 ≤ b0 && b0 ≤ 0xF4 then
      match rest with
      | b1 :: b2 :: b3 :: r =>
        let ok1 := if b0 == 0xF0 then (0x90 ≤ b1 && b1 ≤ 0xBF)
                   else if b0 == 0xF4 then (0x80 ≤ b1 && b1 ≤ 0x8F)
                   else cont b1
        ok1 && cont b2 && cont b3 && utf8Valid r
      | _ => false
    else false

/-! ### decoder -/

inductive DecErr where
  | underrun | nonCanonical | badHeader | badUtf8 | mapOrder | badSimple | unused
  | unmodelledFloat                       -- a float `dcbor` treats in a way the model does not follow
  | fuel
  deriving Repr, DecidableEq

def DecErr.name : DecErr → String
  | .underrun => "underrun" | .nonCanonical => "non-canonical" | .badHeader => "bad-header"
  | .badUtf8 => "bad-utf8" | .mapOrder => "map-order" | .badSimple => "bad-simple"
  | .unused => "unused-data" | .unmodelledFloat => "unmodelled-float" | .fuel => "fuel"

/-- parse a head: (major type, additional info, argument, rest) -/
def decHead : Bytes → Except DecErr (Nat × Nat × Nat × Bytes)
  | [] => .error .underrun
  | h :: rest =>
    let mt := h.toNat / 32
    let ai := h.toNat % 32
    let isFloat := mt == 7
    if ai < 24 then .ok (mt, ai, ai, rest)
    else if ai == 24 then
      match rest with
      | b :: r => if b.toNat < 24 then .error .nonCanonical else .ok (mt, ai, b.toNat, r)
      | _ => .error .underrun
    else if ai == 25 then
      if rest.length < 2 then .error .underrun else
      let v := beNat (rest.take 2)
      if v < 256 && !isFloat then .error .nonCanonical else .ok (mt, ai, v, rest.drop 2)
    else if ai == 26 then
      if rest.length < 4 then .error .underrun else
      let v := beNat (rest.take 4)
      if v < 65536 && !isFloat then .error .nonCanonical else .ok (mt, ai, v, rest.drop 4)
    else if ai == 27 then
      if rest.length < 8 then .error .underrun else
      let v := beNat (rest.take 8)
      if v < 4294967296 && !isFloat then .error .nonCanonical else .ok (mt, ai, v, rest.drop 8)
    else .error .badHeader

/-- float decoding: canonical-form validation (`validate_canonical_f16/f32/f64`) and the
numeric reduction of `From<f16/f32/f64> for CBOR`, including the integral values that
pass validation because of saturating casts and are then turned into integers.  The
one corner computed in single precision by `dcbor` (negative integral f32) is reported as
`unmodelledFloat`. -/
def decFloat (ai : Nat) (v : Nat) : Except DecErr Cbor :=
  if ai == 25 then
    let f := fdecompose 5 10 v
    match f with
    | .nan => if v == 0x7e00 then .ok (.float 0x7ff8000000000000) else .error .nonCanonical
    | _ =>
      match f.toInt? with
      | some _ => .error .nonCanonical
      | none => match fcompose 11 52 f with
        | some b => .ok (.float b)
        | none => .error .unmodelledFloat
  else if ai == 26 then
    let f := fdecompose 8 23 v
    match f with
    | .nan => .error .nonCanonical
    | _ =>
      if (fcompose 5 10 f).isSome then .error .nonCanonical else
      match f.toInt? with
      | some i =>
        if -(2 ^ 31 : Int) ≤ i ∧ i ≤ 2 ^ 31 then .error .nonCanonical
        else if 0 < i ∧ i < 2 ^ 32 then .ok (.uint i.toNat)
        else if i < 0 then .error .unmodelledFloat
        else match fcompose 11 52 f with
          | some b => .ok (.float b)
          | none => .error .unmodelledFloat
      | none => match fcompose 11 52 f with
        | some b => .ok (.float b)
        | none => .error .unmodelledFloat
  else
    let f := fdecompose 11 52 v
    match f with
    | .nan => .error .nonCanonical
    | _ =>
      if (fcompose 8 23 f).isSome then .error .nonCanonical else
      match f.toInt? with
      | some i =>
        if -(2 ^ 63 : Int) ≤ i ∧ i ≤ 2 ^ 63 then .error .nonCanonical
        else if 0 < i ∧ i < 2 ^ 64 then .ok (.uint i.toNat)
        else if i < 0 ∧ -(2 ^ 64 : Int) ≤ i then .ok (.nint (-1 - i).toNat)
        else .ok (.float v)
      | none => .ok (.float v)

mutual
/-- decode one item; `fuel` bounds the recursion (any value ≥ the input length works) -/
def decItem : Nat → Bytes → Except DecErr (Cbor × Bytes)
  | 0, _ => .error .fuel
  | fuel + 1, data =>
    match decHead data with
    | .error e => .error e
    | .ok (mt, ai, v, rest) =>
      if mt == 0 then .ok (.uint v, rest)
      else if mt == 1 then .ok (.nint v, rest)
      else if mt == 2 then
        if rest.length < v then .error .underrun else .ok (.bytes (rest.take v), rest.drop v)
      else if mt == 3 then
        if rest.length < v then .error .underrun
        else if utf8Valid (rest.take v) then .ok (.text (rest.take v), rest.drop v)
        else .error .badUtf8
      else if mt == 4 then
        match decItems fuel v rest with
        | .error e => .error e
        | .ok (xs, r) => .ok (.array xs, r)
      else if mt == 5 then
        match decPairs fuel v none rest with
        | .error e => .error e
        | .ok (kvs, r) => .ok (.map kvs, r)
      else if mt == 6 then
        match decItem fuel rest with
        | .error e => .error e
        | .ok (x, r) => .ok (.tagged v x, r)
      else
        if ai == 25 || ai == 26 || ai == 27 then
          match decFloat ai v with
          | .error e => .error e
          | .ok c => .ok (c, rest)
        else if v == 20 || v == 21 || v == 22 then .ok (.simple v, rest)
        else .error .badSimple
def decItems : Nat → Nat → Bytes → Except DecErr (List Cbor × Bytes)
  | _, 0, data => .ok ([], data)
  | 0, _ + 1, _ => .error .fuel
  | fuel + 1, n + 1, data =>
    match decItem fuel data with
    | .error e => .error e
    | .ok (x, r) =>
      match decItems fuel n r with
      | .error e => .error e
      | .ok (xs, r') => .ok (x :: xs, r')
def decPairs : Nat → Nat → Option Bytes → Bytes → Except DecErr (List (Cbor × Cbor) × Bytes)
  | _, 0, _, data => .ok ([], data)
  | 0, _ + 1, _, _ => .error .fuel
  | fuel + 1, n + 1, prev, data =>
    match decItem fuel data with
    | .error e => .error e
    | .ok (k, r) =>
      match decItem fuel r with
      | .error e => .error e
      | .ok (v, r') =>
        let kb := enc k
        let okOrder := match prev with
          | none => true
          | some p => bytesLt p kb
        if !okOrder then .error .mapOrder else
        match decPairs fuel n (some kb) r' with
        | .error e => .error e
        | .ok (kvs, r'') => .ok ((k, v) :: kvs, r'')
end

/-- whole-input decoder (`CBOR::try_from_data`) -/
def dec (data : Bytes) : Except DecErr Cbor :=
  match decItem (2 * data.length + 2) data with
  | .error e => .error e
  | .ok (c, rest) => if rest.isEmpty then .ok c else .error .unused

def dec? (data : Bytes) : Option Cbor :=
  match dec data with
  | .ok c => some c
  | .error _ => none

end Cbor
end EnvVerif
