/-
  Model/Expr.lean — `src/extension/expressions/{function,parameter,expression,request,
  response,event}.rs`: the envelope forms of expressions, requests, responses and events
  and their parsers.  Dates are modelled for integral timestamps (the fractional ones go
  through floating point in `dcbor`; see known finding on C18).
-/
import EnvVerif.Model.Ext
namespace EnvVerif
open Env

def TAG_REQUEST : Nat := 40004
def TAG_RESPONSE : Nat := 40005
def TAG_FUNCTION : Nat := 40006
def TAG_PARAMETER : Nat := 40007
def TAG_ARID : Nat := 40012
def TAG_EVENT : Nat := 40026
def TAG_DATE : Nat := 1
def KV_DATE : Nat := 16
def KV_UNKNOWN : Nat := 17
def KV_BODY : Nat := 100
def KV_RESULT : Nat := 101
def KV_ERROR : Nat := 102
def KV_OK : Nat := 103
def KV_CONTENT : Nat := 108

/-- a function or parameter identifier: a registered number or an arbitrary name -/
inductive Ident where
  | known (v : Nat)
  | named (name : Bytes)
  deriving DecidableEq, Repr, Inhabited

def identCbor (tag : Nat) : Ident → Cbor
  | .known v => .tagged tag (.uint v)
  | .named n => .tagged tag (.text n)

def identOfCbor? (tag : Nat) : Cbor → Option Ident
  | .tagged t (.uint v) => if t == tag then some (.known v) else none
  | .tagged t (.text n) => if t == tag then some (.named n) else none
  | _ => none

/-- `ARID::tagged_cbor` -/
def aridCbor (id : Bytes) : Cbor := .tagged TAG_ARID (.bytes id)

def aridOfCbor? : Cbor → Option Bytes
  | .tagged t (.bytes b) => if t == TAG_ARID && b.length == 32 then some b else none
  | _ => none

/-- `Date::tagged_cbor` for an integral timestamp -/
def dateCbor (secs : Int) : Cbor :=
  .tagged TAG_DATE (if secs ≥ 0 then .uint secs.toNat else .nint (-1 - secs).toNat)

def dateOfCbor? : Cbor → Option Int
  | .tagged t (.uint n) => if t == TAG_DATE then some n else none
  | .tagged t (.nint n) => if t == TAG_DATE then some (-1 - (n : Int)) else none
  | _ => none

/-- the leaf CBOR of an envelope's subject (through nodes): `extract_subject` on a leaf type -/
def subjectLeaf : Env → Option Cbor
  | .node s _ _ => subjectLeaf s
  | .leaf c _ => some c
  | _ => none

structure Expression where
  function : Ident
  envelope : Env

structure Request where
  body : Expression
  id : Bytes
  note : Bytes            -- empty = no note
  date : Option Int

inductive Response where
  | success (id : Bytes) (result : Env)
  | failure (id : Option Bytes) (error : Env)

structure Event where
  content : Bytes         -- `Event<String>`
  id : Bytes
  note : Bytes
  date : Option Int

section
variable (h : Hash)

/-- `Expression::new(function)` -/
def Expression.new (f : Ident) : Expression := ⟨f, newLeaf h (identCbor TAG_FUNCTION f)⟩

/-- `with_parameter(p, value)` -/
def Expression.withParameter (x : Expression) (p : Ident) (v : Env) : Res Expression :=
  match addAssertionEnvelope h x.envelope (newAssertion h (newLeaf h (identCbor TAG_PARAMETER p)) v) with
  | .ok e => .ok ⟨x.function, e⟩
  | .err _ => .panic "expression.rs:with_parameter:unwrap"
  | .panic p => .panic p

/-- the predicate of a parameter's assertion: the leaf `❰p❱` -/
def paramLeaf (p : Ident) : Env := newLeaf h (identCbor TAG_PARAMETER p)

/-- `objects_for_parameter(p)` = `envelope.objects_for_predicate(p)` -/
def Expression.objectsForParameter (x : Expression) (p : Ident) : Res (List Env) :=
  objectsForPredicate x.envelope (paramLeaf h p)

/-- `object_for_parameter(p)` = `envelope.object_for_predicate(p)` -/
def Expression.objectForParameter (x : Expression) (p : Ident) : Res Env :=
  objectForPredicate x.envelope (paramLeaf h p)

/-- `Expression::try_from(envelope)` -/
def Expression.parse (e : Env) : Res Expression :=
  match subjectLeaf e with
  | some c =>
    match identOfCbor? TAG_FUNCTION c with
    | some f => .ok ⟨f, e⟩
    | none => .err "dep:invalid-function"
  | none => .err "InvalidFormat"

/-- `Expression::try_from((envelope, expected_function))` -/
def Expression.parseExpecting (e : Env) (expected : Option Ident) : Res Expression :=
  (Expression.parse e).bind fun x =>
    match expected with
    | some f => if x.function = f then .ok x else .err "dep:unexpected-function"
    | none => .ok x

/-- `add_assertion_if(cond, p, o)` / `add_optional_assertion(p, Some(o))` -/
def addAssertionIf (cond : Bool) (e p o : Env) : Res Env :=
  if cond then addAssertionUnwrap h e p o else .ok e

/-- `Envelope::from(Request)` -/
def Request.toEnvelope (r : Request) : Res Env :=
  (addAssertionUnwrap h (newLeaf h (.tagged TAG_REQUEST (aridCbor r.id))) (newKnownValue h KV_BODY) r.body.envelope).bind fun e1 =>
  (addAssertionIf h (!r.note.isEmpty) e1 (newKnownValue h KV_NOTE) (newLeaf h (.text r.note))).bind fun e2 =>
    match r.date with
    | some d => addAssertionUnwrap h e2 (newKnownValue h KV_DATE) (newLeaf h (dateCbor d))
    | none => .ok e2

/-- the tagged identifier in a subject: `subject().try_leaf()?.try_into_expected_tagged_value(tag)?.try_into()?` -/
def subjectArid (tag : Nat) (e : Env) : Res Bytes :=
  match e.subject with
  | .leaf (.tagged t inner) _ =>
    if t == tag then
      match aridOfCbor? inner with
      | some id => .ok id
      | none => .err "dep:WrongType"
    else .err "dep:WrongTag"
  | .leaf _ _ => .err "dep:WrongType"
  | _ => .err "NotLeaf"

/-- `extract_optional_object_for_predicate::<Date>` -/
def extractOptionalDate (e p : Env) : Res (Option Int) :=
  match optionalObjectForPredicate e p with
  | .ok none => .ok none
  | .ok (some o) =>
    match subjectLeaf o with
    | some c => (match dateOfCbor? c with | some d => .ok (some d) | none => .err "dep:WrongType")
    | none => .err "InvalidFormat"
  | .err x => .err x
  | .panic x => .panic x

/-- `extract_optional_object_for_predicate::<String>` with a default -/
def extractTextOrDefault (e p : Env) : Res Bytes :=
  match extractOptionalTextObjectForPredicate e p with
  | .ok (some b) => .ok b
  | .ok none => .ok []
  | .err x => .err x
  | .panic x => .panic x

/-- `Request::try_from((envelope, expected_function))` -/
def Request.parse (e : Env) (expected : Option Ident) : Res Request :=
  (objectForPredicate e (newKnownValue h KV_BODY)).bind fun bodyEnv =>
  (Expression.parseExpecting bodyEnv expected).bind fun body =>
  (subjectArid TAG_REQUEST e).bind fun id =>
  (extractTextOrDefault e (newKnownValue h KV_NOTE)).bind fun note =>
  (extractOptionalDate e (newKnownValue h KV_DATE)).bind fun date =>
    .ok ⟨body, id, note, date⟩

/-- `Envelope::from(Response)` -/
def Response.toEnvelope : Response → Res Env
  | .success id result =>
    addAssertionUnwrap h (newLeaf h (.tagged TAG_RESPONSE (aridCbor id))) (newKnownValue h KV_RESULT) result
  | .failure (some id) error =>
    addAssertionUnwrap h (newLeaf h (.tagged TAG_RESPONSE (aridCbor id))) (newKnownValue h KV_ERROR) error
  | .failure none error =>
    addAssertionUnwrap h (newLeaf h (.tagged TAG_RESPONSE (knownValueCbor KV_UNKNOWN))) (newKnownValue h KV_ERROR) error

/-- `Response::try_from(envelope)` (after the repair: presence is decided on the matching
assertions themselves) -/
def Response.parse (e : Env) : Res Response :=
  let hasResult := !(assertionsWithPredicate e (newKnownValue h KV_RESULT)).isEmpty
  let hasError := !(assertionsWithPredicate e (newKnownValue h KV_ERROR)).isEmpty
  if hasResult == hasError then .err "dep:invalid-response-both-or-neither" else
  match assertionWithPredicate e (newKnownValue h KV_RESULT) with
  | .ok _ =>
    (subjectArid TAG_RESPONSE e).bind fun id =>
    (objectForPredicate e (newKnownValue h KV_RESULT)).bind fun r => .ok (.success id r)
  | _ =>
    match assertionWithPredicate e (newKnownValue h KV_ERROR) with
    | .ok _ =>
      match e.subject with
      | .leaf (.tagged t inner) _ =>
        if t != TAG_RESPONSE then .err "dep:WrongTag" else
        -- `KnownValue::try_from(id_value)`: a tagged known value
        (match inner with
          | .tagged kt (.uint v) =>
            if kt == TAG_KNOWN_VALUE then
              (if v == KV_UNKNOWN then
                (objectForPredicate e (newKnownValue h KV_ERROR)).bind fun er => .ok (.failure none er)
               else .err "dep:unknown-known-value-in-subject")
            else
              (match aridOfCbor? inner with
                | some id => (objectForPredicate e (newKnownValue h KV_ERROR)).bind fun er => .ok (.failure (some id) er)
                | none => .err "dep:WrongType")
          | _ =>
            (match aridOfCbor? inner with
              | some id => (objectForPredicate e (newKnownValue h KV_ERROR)).bind fun er => .ok (.failure (some id) er)
              | none => .err "dep:WrongType"))
      | .leaf _ _ => .err "dep:WrongType"
      | _ => .err "NotLeaf"
    | _ => .err "dep:invalid-response"

/-- `Envelope::from(Event<String>)` -/
def Event.toEnvelope (ev : Event) : Res Env :=
  (addAssertionUnwrap h (newLeaf h (.tagged TAG_EVENT (aridCbor ev.id))) (newKnownValue h KV_CONTENT) (newLeaf h (.text ev.content))).bind fun e1 =>
  (addAssertionIf h (!ev.note.isEmpty) e1 (newKnownValue h KV_NOTE) (newLeaf h (.text ev.note))).bind fun e2 =>
    match ev.date with
    | some d => addAssertionUnwrap h e2 (newKnownValue h KV_DATE) (newLeaf h (dateCbor d))
    | none => .ok e2

/-- `Event::<String>::try_from(envelope)` -/
def Event.parse (e : Env) : Res Event :=
  (objectForPredicate e (newKnownValue h KV_CONTENT)).bind fun ce =>
    match extractText ce with
    | .ok content =>
      (subjectArid TAG_EVENT e).bind fun id =>
      (extractTextOrDefault e (newKnownValue h KV_NOTE)).bind fun note =>
      (extractOptionalDate e (newKnownValue h KV_DATE)).bind fun date =>
        .ok ⟨content, id, note, date⟩
    | _ => .err "dep:Failed_to_parse_content"

end
end EnvVerif
