/-
  Model/Walk.lean — `src/base/walk.rs`, the digest-set and structural-digest functions of
  `src/base/digest.rs`, `elements_count` and the predicate lookups of `src/base/queries.rs`.
-/
import EnvVerif.Model.Elide
namespace EnvVerif
open Env

inductive Edge where
  | none | subject | assertion | predicate | object | wrapped
  deriving DecidableEq, Repr, Inhabited

def Edge.name : Edge → String
  | .none => "none" | .subject => "subj" | .assertion => "assert"
  | .predicate => "pred" | .object => "obj" | .wrapped => "wrap"

abbrev Visit := Env × Nat × Edge

mutual
/-- `_walk_structure`: the visits in order -/
def walkStructure : Env → Nat → Edge → List Visit
  | .node s as d, lvl, edge =>
    (.node s as d, lvl, edge) :: (walkStructure s (lvl + 1) .subject ++ walkStructureList as (lvl + 1))
  | .wrapped e d, lvl, edge => (.wrapped e d, lvl, edge) :: walkStructure e (lvl + 1) .wrapped
  | .assertion p o d, lvl, edge =>
    (.assertion p o d, lvl, edge) ::
      (walkStructure p (lvl + 1) .predicate ++ walkStructure o (lvl + 1) .object)
  | e, lvl, edge => [(e, lvl, edge)]
def walkStructureList : List Env → Nat → List Visit
  | [], _ => []
  | a :: as, lvl => walkStructure a lvl .assertion ++ walkStructureList as lvl
end

mutual
/-- `_walk_tree` -/
def walkTree : Env → Nat → List Visit
  | .node s as _, lvl => walkTree s lvl ++ walkTreeList as (lvl + 1)
  | .wrapped e d, lvl => (.wrapped e d, lvl, .none) :: walkTree e (lvl + 1)
  | .assertion p o d, lvl =>
    (.assertion p o d, lvl, .none) :: (walkTree p (lvl + 1) ++ walkTree o (lvl + 1))
  | e, lvl => [(e, lvl, .none)]
def walkTreeList : List Env → Nat → List Visit
  | [], _ => []
  | a :: as, lvl => walkTree a lvl ++ walkTreeList as lvl
end

/-- `walk(hide_nodes, visitor)` from the root -/
def walk (hideNodes : Bool) (e : Env) : List Visit :=
  if hideNodes then walkTree e 0 else walkStructure e 0 .none

/-- `digests(level_limit)` as a list (a set in the library) -/
def digestsUpTo (e : Env) (limit : Nat) : List Digest :=
  (walkStructure e 0 .none).flatMap fun (x, lvl, _) =>
    if lvl < limit then [x.digest, x.subject.digest] else []

/-- every digest reachable by the structure walk -/
def walkDigests (e : Env) : List Digest := (walkStructure e 0 .none).map fun v => v.1.digest

mutual
/-- `elements_count` -/
def elementsCount : Env → Nat
  | .node s as _ => 1 + elementsCount s + elementsCountList as
  | .wrapped e _ => 1 + elementsCount e
  | .assertion p o _ => 1 + elementsCount p + elementsCount o
  | _ => 1
def elementsCountList : List Env → Nat
  | [] => 0
  | a :: as => elementsCount a + elementsCountList as
end

/-- the image hashed by `structural_digest` -/
def structuralImage (e : Env) : Bytes :=
  (walkStructure e 0 .none).flatMap fun (x, _, _) =>
    (match x with
      | .elided _ => [(1 : UInt8)]
      | .encrypted .. => [(0 : UInt8)]
      | .compressed .. => [(2 : UInt8)]
      | _ => []) ++ x.digest.bytes

def structuralDigest (h : Hash) (e : Env) : Digest := h.H (structuralImage e)

def isEquivalentTo (a b : Env) : Bool := a.digest == b.digest

def isIdenticalTo (h : Hash) (a b : Env) : Bool :=
  if !isEquivalentTo a b then false else structuralDigest h a == structuralDigest h b

/-! ### predicate lookups (`queries.rs`) -/

def asPredicate : Env → Option Env
  | .assertion p _ _ => some p
  | _ => none

def asObject : Env → Option Env
  | .assertion _ o _ => some o
  | _ => none

/-- `assertions_with_predicate` (the predicate argument already converted to an envelope) -/
def assertionsWithPredicate (e p : Env) : List Env :=
  e.assertions.filter fun a =>
    match asPredicate a.subject with
    | some q => q.digest == p.digest
    | none => false

/-- `assertion_with_predicate` -/
def assertionWithPredicate (e p : Env) : Res Env :=
  match assertionsWithPredicate e p with
  | [] => .err "NonexistentPredicate"
  | [a] => .ok a
  | _ => .err "AmbiguousPredicate"

/-- `object_for_predicate`: `assertion_with_predicate(p)?.subject().as_object().unwrap()` -/
def objectForPredicate (e p : Env) : Res Env :=
  match assertionWithPredicate e p with
  | .ok a =>
    match asObject a.subject with
    | some o => .ok o
    | none => .panic "queries.rs:object_for_predicate:as_object.unwrap"
  | .err x => .err x
  | .panic x => .panic x

/-- `objects_for_predicate`: `.map(|a| a.subject().as_object().unwrap())` -/
def objectsForPredicate (e p : Env) : Res (List Env) :=
  (assertionsWithPredicate e p).foldr (fun a acc =>
    match acc with
    | .ok os =>
      match asObject a.subject with
      | some o => .ok (o :: os)
      | none => .panic "queries.rs:objects_for_predicate:as_object.unwrap"
    | r => r) (.ok [])

/-- `optional_object_for_predicate`: uses `a[0].subject().as_object().unwrap()` -/
def optionalObjectForPredicate (e p : Env) : Res (Option Env) :=
  match assertionsWithPredicate e p with
  | [] => .ok none
  | [a] =>
    match asObject a.subject with
    | some o => .ok (some o)
    | none => .panic "queries.rs:optional_object_for_predicate:as_object.unwrap"
  | _ => .err "AmbiguousPredicate"

end EnvVerif
