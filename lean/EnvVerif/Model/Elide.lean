/-
  Model/Elide.lean — `src/base/elide.rs` and the parts of `src/extension/compress.rs`
  and `encrypt.rs` it calls: elide, compress, the obscuring traversal
  `elide_set_with_action`, `unelide`.
-/
import EnvVerif.Model.Deps
namespace EnvVerif
open Env

inductive Action where
  | elide
  | compress
  | encrypt (key : Bytes) (nonce : Digest → Bytes)   -- nonce supply: the RNG, made explicit

section
variable (h : Hash) (A : Aead) (Z : Deflate)

/-- `Envelope::elide` -/
def elide (e : Env) : Env :=
  match e with
  | .elided _ => e
  | _ => newElided e.digest

/-- `Envelope::compress` -/
def compress (e : Env) : Res Env :=
  match e with
  | .compressed .. => .ok e
  | .encrypted .. => .err "AlreadyEncrypted"
  | .elided .. => .err "AlreadyElided"
  | _ => .ok (.compressed (compressedOf Z (encode e)) e.digest)

/-- `Envelope::new_with_encrypted(message).unwrap()` on a message made by
`encrypt_with_digest` -/
def newEncryptedUnwrap (m : EncMsg) (site : String) : Res Env :=
  match m.optDigest with
  | some d => .ok (.encrypted m d)
  | none => .panic site

/-- what `elide_set_with_action` does to an element that is hit -/
def obscure (act : Action) (e : Env) : Res Env :=
  match act with
  | .elide => .ok (elide e)
  | .encrypt key nonce =>
    newEncryptedUnwrap (encryptWithDigest A key (nonce e.digest) (encode e) e.digest)
      "elide.rs:elide_set_with_action:new_with_encrypted.unwrap"
  | .compress =>
    -- `self.compress().unwrap_or_else(|_| self.clone())`
    match compress Z e with
    | .ok c => .ok c
    | .err _ => .ok e
    | .panic p => .panic p

mutual
/-- `elide_set_with_action`; `T` is the target set, `rev` is `is_revealing` -/
def elideSet (T : Digest → Bool) (rev : Bool) (act : Action) : Env → Res Env
  | .assertion p o d =>
    if T d != rev then obscure A Z act (.assertion p o d) else
    match elideSet T rev act p with
    | .ok p' =>
      match elideSet T rev act o with
      | .ok o' =>
        let a := newAssertion h p' o'
        if a.digest == d then .ok a else .panic "elide.rs:elide_set_with_action:assert-assertion"
      | .err x => .err x
      | .panic x => .panic x
    | .err x => .err x
    | .panic x => .panic x
  | .node s as d =>
    if T d != rev then obscure A Z act (.node s as d) else
    match elideSet T rev act s with
    | .ok s' =>
      if s'.digest != s.digest then .panic "elide.rs:elide_set_with_action:assert-subject" else
      match elideSetList T rev act as with
      | .ok as' => newNodeUnchecked h s' as'
      | .err x => .err x
      | .panic x => .panic x
    | .err x => .err x
    | .panic x => .panic x
  | .wrapped e d =>
    if T d != rev then obscure A Z act (.wrapped e d) else
    match elideSet T rev act e with
    | .ok e' =>
      if e'.digest != e.digest then .panic "elide.rs:elide_set_with_action:assert-wrapped"
      else .ok (newWrapped h e')
    | .err x => .err x
    | .panic x => .panic x
  | e => if T e.digest != rev then obscure A Z act e else .ok e
def elideSetList (T : Digest → Bool) (rev : Bool) (act : Action) : List Env → Res (List Env)
  | [] => .ok []
  | a :: as =>
    match elideSet T rev act a with
    | .ok a' =>
      if a'.digest != a.digest then .panic "elide.rs:elide_set_with_action:assert-assertion-elem" else
      match elideSetList T rev act as with
      | .ok as' => .ok (a' :: as')
      | .err x => .err x
      | .panic x => .panic x
    | .err x => .err x
    | .panic x => .panic x
end

/-- `unelide` -/
def unelide (placeholder e : Env) : Res Env :=
  if placeholder.digest == e.digest then .ok e else .err "InvalidDigest"

end
end EnvVerif
