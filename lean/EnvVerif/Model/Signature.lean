/-
  Model/Signature.lean — `src/extension/signature/signature_impl.rs`: the verification
  glue.  The signature scheme itself is a parameter (`verify`); signatures are leaves
  holding the scheme's CBOR (`#6.40020(...)`).
-/
import EnvVerif.Model.Inv
namespace EnvVerif
open Env

def KV_SIGNED : Nat := 3
def KV_NOTE : Nat := 4
def TAG_SIGNATURE : Nat := 40020

/-- an idealised signature scheme: `verify key sig msg` where `sig` is the signature
object's CBOR and `msg` the digest that was signed -/
structure SigScheme where
  verify : Nat → Cbor → Digest → Bool

/-- `extract_subject::<Signature>()`: the subject (through nodes) must be a leaf holding a
tagged signature -/
def extractSignature : Env → Option Cbor
  | .node s _ _ => extractSignature s
  | .leaf (.tagged t x) _ => if t == TAG_SIGNATURE then some (.tagged t x) else none
  | _ => none

section
variable (h : Hash) (V : SigScheme)

/-- `is_signature_from_key`: the signature is over the digest of the envelope's subject -/
def isSignatureFromKey (e : Env) (sig : Cbor) (key : Nat) : Bool := V.verify key sig e.subject.digest

/-- what one 'signed' object contributes for `key`: `some metadata-or-signature envelope`
when it is a valid signature from `key`, `none` otherwise (never an error) -/
def sigCandidate (key : Nat) (e : Env) (so : Env) : Option Env :=
  let sos := so.subject
  if sos.isWrapped then
    -- the wrapper (signature + metadata) must itself be signed by `key`
    match objectsForPredicate so (newKnownValue h KV_SIGNED) with
    | .ok outers =>
      if outers.any (fun o => match extractSignature o with
          | some s => isSignatureFromKey V sos s key
          | none => false) then
        match unwrap sos with
        | .ok inner =>
          match extractSignature inner with
          | some s => if isSignatureFromKey V e s key then some inner else none
          | none => none
        | _ => none
      else none
    | _ => none
  else
    match extractSignature so with
    -- only the signature itself was verified: assertions attached to an unwrapped signature
    -- object are covered by nothing, so the bare signature is what is handed back
    | some s => if isSignatureFromKey V e s key then some (newLeaf h s) else none
    | none => none

/-- `has_some_signature_from_key_returning_metadata` -/
def hasSignatureFromReturningMetadata (key : Nat) (e : Env) : Res (Option Env) :=
  match objectsForPredicate e (newKnownValue h KV_SIGNED) with
  | .ok sos => .ok (sos.findSome? (sigCandidate h V key e))
  | .err x => .err x
  | .panic x => .panic x

/-- `has_signature_from` -/
def hasSignatureFrom (key : Nat) (e : Env) : Res Bool :=
  match hasSignatureFromReturningMetadata h V key e with
  | .ok r => .ok r.isSome
  | .err x => .err x
  | .panic x => .panic x

/-- the counting loop of `has_signatures_from_threshold` -/
def thresholdLoop (e : Env) (threshold : Nat) : List Nat → Nat → Res Bool
  | [], _ => .ok false
  | k :: ks, count =>
    match hasSignatureFrom h V k e with
    | .ok true => if count + 1 ≥ threshold then .ok true else thresholdLoop e threshold ks (count + 1)
    | .ok false => thresholdLoop e threshold ks count
    | .err x => .err x
    | .panic x => .panic x

/-- `has_signatures_from_threshold(keys, threshold)`; `none` means all of them -/
def hasSignaturesFromThreshold (keys : List Nat) (threshold : Option Nat) (e : Env) : Res Bool :=
  thresholdLoop h V e (threshold.getD keys.length) keys 0

/-- `add_assertion(p, o)`: `add_assertion_envelope(..).unwrap()` -/
def addAssertionUnwrap (e p o : Env) : Res Env :=
  match addAssertionEnvelope h e (newAssertion h p o) with
  | .ok r => .ok r
  | .err _ => .panic "assertions.rs:add_assertion:unwrap"
  | .panic x => .panic x

/-- `add_signature_opt` with the signatures drawn by the signer made explicit: `sig` over
the subject digest; with metadata assertions, `outer` over the digest of the wrapper -/
def addSignature (e : Env) (sig : Cbor) (metadata : List Env) (outer : Env → Cbor) : Res Env :=
  let sigEnv := newLeaf h sig
  if metadata.isEmpty then addAssertionUnwrap h e (newKnownValue h KV_SIGNED) sigEnv
  else
    let withMeta := metadata.foldl (fun acc a => acc.bind fun x =>
        match addAssertionEnvelope h x a with
        | .ok y => .ok y
        | .err _ => .panic "signature_impl.rs:add_signature_opt:unwrap"
        | .panic p => .panic p) (Res.ok sigEnv)
    withMeta.bind fun m =>
      let wrapped := wrap h m
      (addAssertionUnwrap h wrapped (newKnownValue h KV_SIGNED) (newLeaf h (outer wrapped))).bind fun signature =>
        addAssertionUnwrap h e (newKnownValue h KV_SIGNED) signature

end
end EnvVerif
