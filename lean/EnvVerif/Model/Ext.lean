/-
  Model/Ext.lean — `src/extension/salt.rs`, `src/base/assertions.rs` (salted adds),
  `src/extension/types.rs`, `src/extension/attachment/attachment_impl.rs`.
  Text values are UTF-8 byte strings; random salts are explicit arguments.
-/
import EnvVerif.Model.Signature
namespace EnvVerif
open Env

def KV_IS_A : Nat := 1
def KV_SALT : Nat := 15
def KV_ATTACHMENT : Nat := 50
def KV_VENDOR : Nat := 51
def KV_CONFORMS_TO : Nat := 52
def TAG_SALT : Nat := 40018

/-- `Salt::tagged_cbor` -/
def saltCbor (b : Bytes) : Cbor := .tagged TAG_SALT (.bytes b)

section
variable (h : Hash)

/-- `add_salt_instance(salt)` = `add_assertion(SALT, salt)` -/
def addSaltInstance (e : Env) (salt : Bytes) : Res Env :=
  addAssertionUnwrap h e (newKnownValue h KV_SALT) (newLeaf h (saltCbor salt))

/-- `add_salt_with_len_using(count, rng)`; `draw n` is what the RNG returns for `n` bytes -/
def addSaltWithLen (e : Env) (count : Nat) (draw : Nat → Bytes) : Res Env :=
  if count < 8 then .err "dep:Salt_length_is_too_short" else addSaltInstance h e (draw count)

/-- `add_salt_in_range_using(lo..=hi, rng)`; `pick` is the length the RNG chooses in the
closed range (the library asks `rng_next_in_closed_range`) -/
def addSaltInRange (e : Env) (lo hi : Nat) (pick : Nat) (draw : Nat → Bytes) : Res Env :=
  if lo < 8 then .err "dep:Salt_length_is_too_short" else addSaltWithLen h e pick draw

/-- the closed range `Salt::new_for_size_using(size)` asks for; `c5` and `c25` are what the
library's `(size as f64 * 0.05).ceil()` and `(size as f64 * 0.25).ceil()` evaluate to -/
def saltRange (c5 c25 : Nat) : Nat × Nat := (max 8 c5, max (max 8 c5 + 8) c25)

/-- `add_salt_using(rng)`: the range for the size of the receiver's tagged encoding, a length
`pick` chosen in it by the RNG, `draw pick` the bytes -/
def addSaltProportional (e : Env) (c5 c25 pick : Nat) (draw : Nat → Bytes) : Res Env :=
  addSaltInRange h e (saltRange c5 c25).1 (saltRange c5 c25).2 pick draw

/-- `add_assertion_envelope_salted(assertion, salted)`; `salt = some bytes` when salted -/
def addAssertionEnvelopeSalted (e a : Env) (salt : Option Bytes) : Res Env :=
  if !a.slotOk then .err "InvalidFormat" else
  let a2 : Res Env := match salt with
    | some s => addSaltInstance h a s
    | none => .ok a
  a2.bind fun envelope2 =>
    match e with
    | .node s as _ =>
      if as.any (fun x => x.digest == envelope2.digest) then .ok e
      else newNodeUnchecked h s (as ++ [envelope2])
    | _ => newNodeUnchecked h e.subject [envelope2]

/-- `add_assertion_salted(p, o, salted)` (`.unwrap()` of the above) -/
def addAssertionSalted (e p o : Env) (salt : Option Bytes) : Res Env :=
  match addAssertionEnvelopeSalted h e (newAssertion h p o) salt with
  | .ok r => .ok r
  | .err _ => .panic "assertions.rs:add_assertion_salted:unwrap"
  | .panic x => .panic x

/-! ### types -/

/-- `add_type(t)` -/
def addType (e t : Env) : Res Env := addAssertionUnwrap h e (newKnownValue h KV_IS_A) t

/-- `types()` -/
def types (e : Env) : Res (List Env) := objectsForPredicate e (newKnownValue h KV_IS_A)

/-- `has_type_envelope(t)` -/
def hasTypeEnvelope (e t : Env) : Res Bool :=
  match types h e with
  | .ok ts => .ok (ts.any fun x => x.digest == t.digest)
  | .err x => .err x
  | .panic x => .panic x

/-- `get_type()` -/
def getType (e : Env) : Res Env :=
  match types h e with
  | .ok [t] => .ok t
  | .ok _ => .err "AmbiguousType"
  | .err x => .err x
  | .panic x => .panic x

/-! ### attachments -/

/-- `extract_subject::<String>()` -/
def extractText : Env → Res Bytes
  | .node s _ _ => extractText s
  | .leaf (.text b) _ => .ok b
  | .leaf _ _ => .err "dep:WrongType"
  | _ => .err "InvalidFormat"

def textLeaf (b : Bytes) : Env := newLeaf h (.text b)

/-- `Assertion::new_attachment(payload, vendor, conforms_to)` as an envelope -/
def newAttachment (payload : Env) (vendor : Bytes) (conformsTo : Option Bytes) : Res Env :=
  (addAssertionUnwrap h (wrap h payload) (newKnownValue h KV_VENDOR) (textLeaf h vendor)).bind fun e1 =>
    let e2 : Res Env := match conformsTo with
      | some c => addAssertionUnwrap h e1 (newKnownValue h KV_CONFORMS_TO) (textLeaf h c)
      | none => .ok e1
    e2.bind fun obj => .ok (newAssertion h (newKnownValue h KV_ATTACHMENT) obj)

/-- `add_attachment(payload, vendor, conforms_to)` -/
def addAttachment (e payload : Env) (vendor : Bytes) (conformsTo : Option Bytes) : Res Env :=
  (newAttachment h payload vendor conformsTo).bind fun a =>
    match addAssertionEnvelope h e a with
    | .ok r => .ok r
    | .err _ => .panic "attachment_impl.rs:add_attachment:unwrap"
    | .panic x => .panic x

/-- `Envelope::attachment_payload` -/
def attachmentPayload (a : Env) : Res Env :=
  match a with
  | .assertion _ o _ => unwrap o
  | _ => .err "InvalidAttachment"

/-- `extract_object_for_predicate::<String>(p)`: `assertion_with_predicate(p)?.extract_object()`,
where `extract_object` = `try_object()?.extract_subject()` on the matching element itself -/
def extractTextObjectForPredicate (e p : Env) : Res Bytes :=
  match assertionWithPredicate e p with
  | .ok a =>
    match asObject a with
    | some o => extractText o
    | none => .err "NotAssertion"
  | .err x => .err x
  | .panic x => .panic x

/-- `extract_optional_object_for_predicate::<String>(p)` -/
def extractOptionalTextObjectForPredicate (e p : Env) : Res (Option Bytes) :=
  match optionalObjectForPredicate e p with
  | .ok none => .ok none
  | .ok (some o) =>
    match extractText o with
    | .ok b => .ok (some b)
    | .err x => .err x
    | .panic x => .panic x
  | .err x => .err x
  | .panic x => .panic x

/-- `Envelope::attachment_vendor` -/
def attachmentVendor (a : Env) : Res Bytes :=
  match a with
  | .assertion _ o _ => extractTextObjectForPredicate o (newKnownValue h KV_VENDOR)
  | _ => .err "InvalidAttachment"

/-- `Envelope::attachment_conforms_to` -/
def attachmentConformsTo (a : Env) : Res (Option Bytes) :=
  match a with
  | .assertion _ o _ => extractOptionalTextObjectForPredicate o (newKnownValue h KV_CONFORMS_TO)
  | _ => .err "InvalidAttachment"

/-- `Envelope::validate_attachment` -/
def validateAttachment (a : Env) : Res Unit :=
  match a with
  | .assertion _ _ _ =>
    (attachmentPayload a).bind fun payload =>
    (attachmentVendor h a).bind fun vendor =>
    (attachmentConformsTo h a).bind fun conf =>
    (newAttachment h payload vendor conf).bind fun rebuilt =>
      if rebuilt.digest == a.digest then .ok () else .err "InvalidAttachment"
  | _ => .err "InvalidAttachment"

/-- the filter of `attachments_with_vendor_and_conforms_to` -/
def attachmentMatches (vendor conformsTo : Option Bytes) (a : Env) : Bool :=
  (match vendor with
    | some v => (match attachmentVendor h a with | .ok x => x == v | _ => true)
    | none => true) &&
  (match conformsTo with
    | some c => (match attachmentConformsTo h a with
        | .ok (some x) => x == c
        | .ok none => false
        | _ => true)
    | none => true)

/-- `attachments_with_vendor_and_conforms_to(vendor, conforms_to)` -/
def attachmentsWith (e : Env) (vendor conformsTo : Option Bytes) : Res (List Env) :=
  let as := assertionsWithPredicate e (newKnownValue h KV_ATTACHMENT)
  let validated : Res Unit := as.foldl (fun acc a => acc.bind fun _ => validateAttachment h a) (.ok ())
  validated.bind fun _ => .ok (as.filter (attachmentMatches h vendor conformsTo))

/-- `attachment_with_vendor_and_conforms_to` -/
def attachmentWith (e : Env) (vendor conformsTo : Option Bytes) : Res Env :=
  (attachmentsWith h e vendor conformsTo).bind fun l =>
    match l with
    | [] => .err "NonexistentAttachment"
    | [a] => .ok a
    | _ => .err "AmbiguousAttachment"

/-! ### the `Attachments` container (`src/extension/attachment/attachments.rs`): a `HashMap<Digest, Envelope>`,
modelled as the list of its values in whatever order the map yields them -/

/-- `Attachments::try_from_envelope`: the validated attachment assertions of the envelope -/
def attachmentsOfEnvelope (e : Env) : Res (List Env) := attachmentsWith h e none none

/-- `Attachments::add_to_envelope`: `add_assertion_envelope(..).unwrap()` for every value -/
def addToEnvelope (atts : List Env) (e : Env) : Res Env :=
  match addAll h e atts with
  | .ok r => .ok r
  | .err x => .panic ("attachments.rs:add_to_envelope:unwrap:" ++ x)
  | .panic x => .panic x

end
end EnvVerif
