/-
  Model/Deps.lean — interfaces of what lives in dependencies (AEAD, DEFLATE+CRC-32).
  They enter the model as parameters; the laws a theorem needs are stated as hypotheses
  in the theorem (`Lemmas/Laws.lean`), never as axioms.
-/
import EnvVerif.Model.Codec
namespace EnvVerif

/-- IETF ChaCha20-Poly1305 as used by `SymmetricKey::encrypt/decrypt` -/
structure Aead where
  /-- key, nonce, plaintext, aad ↦ (ciphertext, auth tag) -/
  enc : Bytes → Bytes → Bytes → Bytes → Bytes × Bytes
  /-- key, nonce, ciphertext, aad, auth tag ↦ plaintext -/
  dec : Bytes → Bytes → Bytes → Bytes → Bytes → Option Bytes

/-- `miniz_oxide` + `crc32` as used by `bc_components::Compressed` -/
structure Deflate where
  deflate : Bytes → Bytes
  inflate : Bytes → Option Bytes
  crc : Bytes → Nat

/-- `SymmetricKey::encrypt_with_digest` -/
def encryptWithDigest (A : Aead) (key nonce plaintext : Bytes) (d : Digest) : EncMsg :=
  let aad := (digestCbor d).enc
  let (ct, auth) := A.enc key nonce plaintext aad
  { ciphertext := ct, nonce := nonce, auth := auth, aad := aad }

/-- `SymmetricKey::decrypt` -/
def decryptMsg (A : Aead) (key : Bytes) (m : EncMsg) : Option Bytes :=
  A.dec key m.nonce m.ciphertext m.aad m.auth

/-- `Compressed::from_uncompressed_data(data, Some(digest))` -/
def compressedOf (Z : Deflate) (data : Bytes) : CompMsg :=
  let cd := Z.deflate data
  if cd.length != 0 && cd.length < data.length then
    { checksum := Z.crc data, size := data.length, data := cd }
  else
    { checksum := Z.crc data, size := data.length, data := data }

/-- `Compressed::uncompress` -/
def uncompressMsg (Z : Deflate) (c : CompMsg) : Option Bytes :=
  if c.data.length ≥ c.size then some c.data
  else match Z.inflate c.data with
    | some u => if Z.crc u == c.checksum then some u else none
    | none => none

end EnvVerif
