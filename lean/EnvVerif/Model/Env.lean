/-
  Model/Env.lean — the envelope type (mirrors `EnvelopeCase`, cached digests included),
  constructors, accessors and the assertion-editing operations of
  `src/base/envelope.rs`, `assertion.rs`, `assertions.rs`, `queries.rs`, `wrap.rs`.
-/
import EnvVerif.Model.Cbor
namespace EnvVerif

structure Digest where
  val : Nat
  deriving DecidableEq, Repr, Inhabited

namespace Digest
/-- the 32 bytes of the digest (big endian); Rust orders `[u8; 32]` lexicographically,
which is the numeric order of this value -/
def bytes (d : Digest) : Bytes := beBytes 32 d.val
def ofBytes? (b : Bytes) : Option Digest := if b.length = 32 then some ⟨beNat b⟩ else none
def Valid (d : Digest) : Prop := d.val < 2 ^ 256
instance : LE Digest := ⟨fun a b => a.val ≤ b.val⟩
instance : LT Digest := ⟨fun a b => a.val < b.val⟩
instance (a b : Digest) : Decidable (a ≤ b) := inferInstanceAs (Decidable (a.val ≤ b.val))
instance (a b : Digest) : Decidable (a < b) := inferInstanceAs (Decidable (a.val < b.val))
end Digest

/-- the hash function: a parameter of every theorem; SHA-256 in the executable driver -/
structure Hash where
  H : Bytes → Digest

def catDigests (ds : List Digest) : Bytes := ds.flatMap Digest.bytes

/-- `Digest::from_digests` -/
def Hash.ofDigests (h : Hash) (ds : List Digest) : Digest := h.H (catDigests ds)

/-- `bc_components::EncryptedMessage` -/
structure EncMsg where
  ciphertext : Bytes
  nonce : Bytes
  auth : Bytes
  aad : Bytes
  deriving DecidableEq, Repr, Inhabited

/-- `bc_components::Compressed` with the digest present (the envelope constructor refuses
one without) -/
structure CompMsg where
  checksum : Nat
  size : Nat
  data : Bytes
  deriving DecidableEq, Repr, Inhabited

inductive Env where
  | node (subject : Env) (assertions : List Env) (digest : Digest)
  | leaf (cbor : Cbor) (digest : Digest)
  | wrapped (env : Env) (digest : Digest)
  | assertion (pred obj : Env) (digest : Digest)
  | elided (digest : Digest)
  | knownValue (v : Nat) (digest : Digest)
  | encrypted (m : EncMsg) (digest : Digest)     -- digest = the one declared in `m.aad`
  | compressed (c : CompMsg) (digest : Digest)   -- digest = the one carried by `c`
  deriving Repr, Inhabited

namespace Env

/-- `DigestProvider::digest` — reads the cached / declared digest -/
def digest : Env → Digest
  | node _ _ d => d
  | leaf _ d => d
  | wrapped _ d => d
  | assertion _ _ d => d
  | elided d => d
  | knownValue _ d => d
  | encrypted _ d => d
  | compressed _ d => d

def subject : Env → Env
  | node s _ _ => s
  | e => e

def assertions : Env → List Env
  | node _ as _ => as
  | _ => []

def isNode : Env → Bool | node .. => true | _ => false
def isLeaf : Env → Bool | leaf .. => true | _ => false
def isWrapped : Env → Bool | wrapped .. => true | _ => false
def isAssertion : Env → Bool | assertion .. => true | _ => false
def isElided : Env → Bool | elided .. => true | _ => false
def isKnownValue : Env → Bool | knownValue .. => true | _ => false
def isEncrypted : Env → Bool | encrypted .. => true | _ => false
def isCompressed : Env → Bool | compressed .. => true | _ => false
def isObscured (e : Env) : Bool := e.isElided || e.isEncrypted || e.isCompressed
def isInternal (e : Env) : Bool := e.isNode || e.isWrapped || e.isAssertion

def isSubjectAssertion : Env → Bool
  | assertion .. => true
  | node s _ _ => isSubjectAssertion s
  | _ => false

def isSubjectElided : Env → Bool
  | elided .. => true
  | node s _ _ => isSubjectElided s
  | _ => false

def isSubjectEncrypted : Env → Bool
  | encrypted .. => true
  | node s _ _ => isSubjectEncrypted s
  | _ => false

def isSubjectCompressed : Env → Bool
  | compressed .. => true
  | node s _ _ => isSubjectCompressed s
  | _ => false

def isSubjectObscured (e : Env) : Bool :=
  e.isSubjectElided || e.isSubjectEncrypted || e.isSubjectCompressed

/-- what `new_with_assertions` / `add_assertion_envelope` demand of an assertion slot -/
def slotOk (e : Env) : Bool := e.isSubjectAssertion || e.isSubjectObscured

end Env

open Env

/-- the comparison used by `sort_by(|a, b| a.digest().cmp(&b.digest()))` -/
def digestLe (a b : Env) : Bool := decide (a.digest.val ≤ b.digest.val)

/-- `sort_by` is a stable sort; so is `List.mergeSort` -/
def sortByDigest (as : List Env) : List Env := as.mergeSort digestLe

section
variable (h : Hash)

def knownValueCbor (v : Nat) : Cbor := .tagged 40000 (.uint v)

def newLeaf (c : Cbor) : Env := .leaf c (h.H c.enc)
def newKnownValue (v : Nat) : Env := .knownValue v (h.H (knownValueCbor v).enc)
def newAssertion (p o : Env) : Env := .assertion p o (h.ofDigests [p.digest, o.digest])
def newWrapped (e : Env) : Env := .wrapped e (h.ofDigests [e.digest])
def newElided (d : Digest) : Env := .elided d

/-- the node built by `new_with_unchecked_assertions` once the `assert!` has passed -/
def mkNode (s : Env) (as : List Env) : Env :=
  let sorted := sortByDigest as
  .node s sorted (h.ofDigests (s.digest :: sorted.map Env.digest))

/-- `new_with_unchecked_assertions` (`assert!(!unchecked_assertions.is_empty())`) -/
def newNodeUnchecked (s : Env) (as : List Env) : Res Env :=
  if as.isEmpty then .panic "envelope.rs:new_with_unchecked_assertions:assert" else .ok (mkNode h s as)

/-- `new_with_assertions` -/
def newNode (s : Env) (as : List Env) : Res Env :=
  if as.all slotOk then newNodeUnchecked h s as else .err "InvalidFormat"

/-- `add_assertion_envelope` (= `add_optional_assertion_envelope(Some(a))`) -/
def addAssertionEnvelope (e a : Env) : Res Env :=
  if !a.slotOk then .err "InvalidFormat" else
  match e with
  | .node s as _ =>
    if as.any (fun x => x.digest == a.digest) then .ok e
    else newNodeUnchecked h s (as ++ [a])
  | _ => newNodeUnchecked h e.subject [a]

/-- index of the first element with the given digest (`iter().position`) -/
def findDigestIdx (as : List Env) (d : Digest) : Option Nat :=
  as.findIdx? (fun a => a.digest == d)

/-- `remove_assertion` -/
def removeAssertion (e target : Env) : Res Env :=
  let as := e.assertions
  match findDigestIdx as target.digest with
  | some i =>
    let as' := as.eraseIdx i
    if as'.isEmpty then .ok e.subject else newNodeUnchecked h e.subject as'
  | none => .ok e

/-- `replace_assertion` -/
def replaceAssertion (e a b : Env) : Res Env :=
  (removeAssertion h e a).bind fun e' => addAssertionEnvelope h e' b

/-- `replace_subject`: a fold of `add_assertion_envelope(..).unwrap()` over the old
assertions, starting from the new subject -/
def replaceSubject (e s : Env) : Res Env :=
  e.assertions.foldl (fun acc a =>
    acc.bind fun x =>
      match addAssertionEnvelope h x a with
      | .ok y => .ok y
      | .err _ => .panic "assertions.rs:replace_subject:unwrap"
      | .panic p => .panic p) (.ok s)

/-- `add_assertion_envelopes` / `add_assertions` without the unwrap -/
def addAll (e : Env) (as : List Env) : Res Env :=
  as.foldl (fun acc a => acc.bind fun x => addAssertionEnvelope h x a) (.ok e)

/-- `wrap_envelope` -/
def wrap (e : Env) : Env := newWrapped h e

/-- `unwrap_envelope` -/
def unwrap (e : Env) : Res Env :=
  match e.subject with
  | .wrapped inner _ => .ok inner
  | _ => .err "NotWrapped"

end
end EnvVerif
