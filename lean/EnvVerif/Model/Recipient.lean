/-
  Model/Recipient.lean — `src/extension/recipient.rs` (public-key recipients) and
  `src/extension/sskr.rs` (SSKR shares), the glue only.  The sealed-message scheme (`Kem`)
  and the secret-sharing scheme (`Sskr`) are parameters; everything the library draws from
  its RNG (content key, nonce, sealed messages, shares) is an explicit argument.

  What is idealised:
  * a `SealedMessage` is a leaf holding `#6.40019(_)` (the two inner elements are not
    inspected); a private key is a `Nat` id; `Kem.unsealMsg key sealed` is
    `sealed_message.decrypt(private_key).ok()`;
  * an `SSKRShare` is a leaf holding `#6.40309(bytes)`: `SSKRShare::from_untagged_cbor`
    accepts *any* byte string; `Sskr.identifier` is `SSKRShare::identifier` (the first two
    bytes); the repaired `sskr_shares_in` refuses a share shorter than the 5 metadata bytes
    with `InvalidShares` before reading the identifier (`shareTooShort`);
  * `Sskr.combine` is `sskr_combine(..).ok()`.
-/
import EnvVerif.Model.Signature
namespace EnvVerif
open Env

def KV_HAS_RECIPIENT : Nat := 5
def KV_SSKR_SHARE : Nat := 6
def TAG_SEALED_MESSAGE : Nat := 40019
def TAG_SYMMETRIC_KEY : Nat := 40023
def TAG_SSKR_SHARE : Nat := 40309

/-- an idealised sealed-message (KEM + AEAD) scheme; private keys are `Nat` ids -/
structure Kem where
  /-- `sealed_message.decrypt(private_key).ok()` -/
  unsealMsg : (key : Nat) → (sealedMsg : Cbor) → Option Bytes
  /-- `sealed_message.encapsulation_scheme()` -/
  schemeOfSealed : Cbor → Nat
  /-- `private_key.encapsulation_private_key().encapsulation_scheme()` -/
  schemeOfKey : Nat → Nat

/-- an idealised SSKR: `combine` is `sskr_combine(shares).ok()`, `identifier` is
`SSKRShare::identifier` -/
structure Sskr where
  combine : List Cbor → Option Bytes
  identifier : Cbor → Nat

/-- `extract_subject::<SealedMessage>()`: the subject (through nodes) must be a leaf holding
`#6.40019(_)` -/
def extractSealed : Env → Option Cbor
  | .node s _ _ => extractSealed s
  | .leaf (.tagged t x) _ => if t == TAG_SEALED_MESSAGE then some (.tagged t x) else none
  | _ => none

/-- `extract_subject::<SSKRShare>()`: the subject (through nodes) must be a leaf holding
`#6.40309(bytes)` -/
def extractShare : Env → Option Cbor
  | .node s _ _ => extractShare s
  | .leaf (.tagged t (.bytes b)) _ => if t == TAG_SSKR_SHARE then some (.tagged t (.bytes b)) else none
  | _ => none

/-- the error of a failed `extract_subject::<T>()` for a tagged type `T`: `InvalidFormat`
from `extract_type` for every non-leaf case, the `dcbor` error for a leaf -/
def extractErr (tag : Nat) : Env → String
  | .node s _ _ => extractErr tag s
  | .leaf (.tagged t _) _ => if t == tag then "dep:WrongType" else "dep:WrongTag"
  | .leaf _ _ => "dep:WrongType"
  | _ => "InvalidFormat"

/-- `SymmetricKey::tagged_cbor` -/
def symmetricKeyCbor (key : Bytes) : Cbor := .tagged TAG_SYMMETRIC_KEY (.bytes key)

/-- `SymmetricKey::from_tagged_cbor`: `#6.40023(bytes)` with exactly 32 bytes -/
def symmetricKeyOfCbor? : Cbor → Option Bytes
  | .tagged t (.bytes b) => if t == TAG_SYMMETRIC_KEY && b.length == 32 then some b else none
  | _ => none

/-- `SymmetricKey::from_tagged_cbor_data(data)`: the plaintext of the sealed message must
dCBOR-decode to `#6.40023(bytes 32)` -/
def symmetricKeyOfData (data : Bytes) : Res Bytes :=
  match Cbor.dec? data with
  | none => .err "dep:cbor"
  | some c =>
    match symmetricKeyOfCbor? c with
    | some k => .ok k
    | none => .err "dep:SymmetricKey"

/-- `first_plaintext_in_sealed_messages` (repaired: a sealed message whose encapsulation
scheme differs from the key's is skipped, never handed to `decrypt`) -/
def firstPlaintext (K : Kem) (key : Nat) : List Cbor → Res Bytes
  | [] => .err "UnknownRecipient"
  | s :: rest =>
    if K.schemeOfSealed s != K.schemeOfKey key then firstPlaintext K key rest
    else
      match K.unsealMsg key s with
      | some p => .ok p
      | none => firstPlaintext K key rest

section
variable (h : Hash) (A : Aead)

/-- the lazy `filter(..).map(..).collect::<Result<Vec<_>>>()` of `recipients()` over the
assertions found by `assertions_with_predicate(HAS_RECIPIENT)`: per element, first the
filter (`as_object().unwrap()`, skip when obscured), then the extraction; the first error
ends the iteration -/
def recipientsLoop : List Env → Res (List Cbor)
  | [] => .ok []
  | a :: rest =>
    match asObject a.subject with
    | none => .panic "recipient.rs:recipients:as_object.unwrap"
    | some o =>
      if o.isObscured then recipientsLoop rest
      else
        match extractSealed o with
        | none => .err (extractErr TAG_SEALED_MESSAGE o)
        | some s =>
          match recipientsLoop rest with
          | .ok l => .ok (s :: l)
          | .err x => .err x
          | .panic x => .panic x

/-- `recipients()` -/
def recipients (e : Env) : Res (List Cbor) :=
  recipientsLoop (assertionsWithPredicate e (newKnownValue h KV_HAS_RECIPIENT))

/-- `decrypt_subject_to_recipient` -/
def decryptSubjectToRecipient (K : Kem) (key : Nat) (e : Env) : Res Env :=
  match recipients h e with
  | .ok sealeds =>
    match firstPlaintext K key sealeds with
    | .ok contentKeyData =>
      match symmetricKeyOfData contentKeyData with
      | .ok contentKey => decryptSubject h A contentKey e
      | .err x => .err x
      | .panic x => .panic x
    | .err x => .err x
    | .panic x => .panic x
  | .err x => .err x
  | .panic x => .panic x

/-- `make_has_recipient` with the sealed message given: `'hasRecipient': SealedMessage` -/
def hasRecipientAssertion (sealedMsg : Cbor) : Env :=
  newAssertion h (newKnownValue h KV_HAS_RECIPIENT) (newLeaf h sealedMsg)

/-- `add_recipient_opt`: `add_assertion_envelope(make_has_recipient(..)).unwrap()`; `sealedMsg`
is the `SealedMessage::new_opt(content_key.to_cbor_data(), recipient, ..)` the library makes -/
def addRecipient (e : Env) (sealedMsg : Cbor) : Res Env :=
  match addAssertionEnvelope h e (hasRecipientAssertion h sealedMsg) with
  | .ok r => .ok r
  | .err _ => .panic "recipient.rs:add_recipient_opt:unwrap"
  | .panic x => .panic x

/-- `encrypt_subject_to_recipients_opt`: `contentKey` is the `SymmetricKey::new()`, `nonce`
the nonce drawn by `encrypt_subject`, `sealeds` the sealed messages made for the recipients,
in the order of the recipient list -/
def encryptSubjectToRecipients (contentKey nonce : Bytes) (sealeds : List Cbor) (e : Env) : Res Env :=
  match encryptSubject h A contentKey nonce e with
  | .ok e' => sealeds.foldl (fun acc s => acc.bind fun x => addRecipient h x s) (.ok e')
  | .err x => .err x
  | .panic x => .panic x

/-- `encrypt_to_recipient` = `wrap_envelope().encrypt_subject_to_recipient(r).unwrap()` -/
def encryptToRecipient (contentKey nonce : Bytes) (sealedMsg : Cbor) (e : Env) : Res Env :=
  match encryptSubjectToRecipients h A contentKey nonce [sealedMsg] (wrap h e) with
  | .ok r => .ok r
  | .err _ => .panic "recipient.rs:encrypt_to_recipient:unwrap"
  | .panic x => .panic x

/-- `decrypt_to_recipient` = `decrypt_subject_to_recipient(r)?.unwrap_envelope()` -/
def decryptToRecipient (K : Kem) (key : Nat) (e : Env) : Res Env :=
  (decryptSubjectToRecipient h A K key e).bind unwrap

/-! ### SSKR -/

/-- the byte string of a share -/
def shareBytes? : Cbor → Option Bytes
  | .tagged _ (.bytes b) => some b
  | _ => none

/-- the guard of the repaired `sskr_shares_in`: `share.data().len() < 5` (5 = the SSKR
metadata size).  Without it `SSKRShare::identifier`, which reads `self.0[0]` and `self.0[1]`,
panicked on a share of fewer than two bytes (`SSKRShare::from_untagged_cbor` accepts any
byte string). -/
def shareTooShort (share : Cbor) : Bool :=
  match shareBytes? share with
  | some b => decide (b.length < 5)
  | none => false

/-- `add_sskr_share` = `add_assertion(SSKR_SHARE, share)` -/
def addSskrShare (e : Env) (share : Cbor) : Res Env :=
  addAssertionUnwrap h e (newKnownValue h KV_SSKR_SHARE) (newLeaf h share)

/-- one group of `sskr_split_using`: one envelope per share, each the receiver plus that
share -/
def sskrSplitGroup (e : Env) : List Cbor → Res (List Env)
  | [] => .ok []
  | s :: ss =>
    match addSskrShare h e s with
    | .ok x =>
      (match sskrSplitGroup e ss with
       | .ok xs => .ok (x :: xs)
       | .err y => .err y
       | .panic y => .panic y)
    | .err y => .err y
    | .panic y => .panic y

/-- `sskr_split_using` with the shares made by `sskr_generate_using` given (groups of
shares).  (The subject is *not* encrypted here: the caller encrypts it with the content key
beforehand.) -/
def sskrSplit (e : Env) : List (List Cbor) → Res (List (List Env))
  | [] => .ok []
  | g :: gs =>
    match sskrSplitGroup h e g with
    | .ok xs =>
      (match sskrSplit e gs with
       | .ok xss => .ok (xs :: xss)
       | .err y => .err y
       | .panic y => .panic y)
    | .err y => .err y
    | .panic y => .panic y

/-- the inner loop of `sskr_shares_in` over the assertions found by
`assertions_with_predicate(SSKR_SHARE)` of one envelope: the shares in order.  Unlike
`recipients()`, an obscured object is *not* skipped: it is an extraction error. -/
def sharesLoop : List Env → Res (List Cbor)
  | [] => .ok []
  | a :: rest =>
    match asObject a.subject with
    | none => .panic "sskr.rs:sskr_shares_in:as_object.unwrap"
    | some o =>
      match extractShare o with
      | none => .err (extractErr TAG_SSKR_SHARE o)
      | some share =>
        if shareTooShort share then .err "InvalidShares"
        else
          match sharesLoop rest with
          | .ok l => .ok (share :: l)
          | .err x => .err x
          | .panic x => .panic x

/-- the outer loop of `sskr_shares_in`: every share of every envelope, in order -/
def allShares : List Env → Res (List Cbor)
  | [] => .ok []
  | e :: es =>
    match sharesLoop (assertionsWithPredicate e (newKnownValue h KV_SSKR_SHARE)) with
    | .ok l =>
      (match allShares es with
       | .ok l' => .ok (l ++ l')
       | .err x => .err x
       | .panic x => .panic x)
    | .err x => .err x
    | .panic x => .panic x

end

/-- `result.entry(identifier).and_modify(|shares| shares.push(share)).or_insert(vec![share])` -/
def insertShare (S : Sskr) (share : Cbor) : List (Nat × List Cbor) → List (Nat × List Cbor)
  | [] => [(S.identifier share, [share])]
  | (i, g) :: rest =>
    if i == S.identifier share then (i, g ++ [share]) :: rest
    else (i, g) :: insertShare S share rest

/-- the shares grouped by identifier, each group in order of occurrence.  The groups are
listed in order of first occurrence; the Rust keeps them in a `HashMap` and iterates its
`values()`, so the order in which `sskr_join` tries the groups is *unspecified* there.  No
theorem of C11 depends on it (`c11_join_group_order`). -/
def groupShares (S : Sskr) (shares : List Cbor) : List (Nat × List Cbor) :=
  shares.foldl (fun acc s => insertShare S s acc) []

section
variable (h : Hash) (A : Aead)

/-- `sskr_shares_in` -/
def sskrSharesIn (S : Sskr) (envelopes : List Env) : Res (List (Nat × List Cbor)) :=
  match allShares h envelopes with
  | .ok l => .ok (groupShares S l)
  | .err x => .err x
  | .panic x => .panic x

/-- the loop of `sskr_join` over the groups: combine, 32-byte key, `decrypt_subject` of the
*first* envelope, its subject; a group for which any of these fails is passed over -/
def joinGroups (S : Sskr) (envelopes : List Env) : List (List Cbor) → Res Env
  | [] => .err "InvalidShares"
  | shares :: rest =>
    match S.combine shares with
    | some secret =>
      if secret.length = 32 then
        match envelopes.head? with
        | none => .panic "sskr.rs:sskr_join:first.unwrap"
        | some first =>
          match decryptSubject h A secret first with
          | .ok envelope => .ok envelope.subject
          | .err _ => joinGroups S envelopes rest
          | .panic x => .panic x
      else joinGroups S envelopes rest
    | none => joinGroups S envelopes rest

/-- `sskr_join` -/
def sskrJoin (S : Sskr) (envelopes : List Env) : Res Env :=
  if envelopes.isEmpty then .err "InvalidShares" else
  match sskrSharesIn h S envelopes with
  | .ok groups => joinGroups h A S envelopes (groups.map Prod.snd)
  | .err x => .err x
  | .panic x => .panic x

end
end EnvVerif
