/-
  Model/Obscure.lean — `src/extension/encrypt.rs` and `src/extension/compress.rs`.
-/
import EnvVerif.Model.Walk
namespace EnvVerif
open Env

section
variable (h : Hash) (A : Aead) (Z : Deflate)

/-- `encrypt_subject_opt(key, Some(nonce))` -/
def encryptSubject (key nonce : Bytes) (e : Env) : Res Env :=
  let finish (r : Env) (orig : Digest) : Res Env :=
    if r.digest == orig then .ok r else .panic "encrypt.rs:encrypt_subject_opt:assert_eq"
  match e with
  | .node s as d =>
    if s.isEncrypted then .err "AlreadyEncrypted" else
    match newEncryptedUnwrap (encryptWithDigest A key nonce (encode s) s.digest)
        "encrypt.rs:encrypt_subject_opt:new_with_encrypted.unwrap" with
    | .ok es =>
      match newNodeUnchecked h es as with
      | .ok r => finish r d
      | .err x => .err x
      | .panic x => .panic x
    | .err x => .err x
    | .panic x => .panic x
  | .encrypted .. => .err "AlreadyEncrypted"
  | .elided .. => .err "AlreadyElided"
  | _ =>
    match newEncryptedUnwrap (encryptWithDigest A key nonce (encode e) e.digest)
        "encrypt.rs:encrypt_subject_opt:new_with_encrypted.unwrap" with
    | .ok r => finish r e.digest
    | .err x => .err x
    | .panic x => .panic x

/-- `decrypt_subject` -/
def decryptSubject (key : Bytes) (e : Env) : Res Env :=
  match e.subject with
  | .encrypted m _ =>
    match decryptMsg A key m with
    | none => .err "dep:Decrypt_failed"
    | some plaintext =>
      match m.optDigest with
      | none => .err "MissingDigest"
      | some subjectDigest =>
        match decode h plaintext with
        | .ok rs =>
          if rs.digest != subjectDigest then .err "InvalidDigest" else
          match e with
          | .node _ as d =>
            match newNodeUnchecked h rs as with
            | .ok r => if r.digest != d then .err "InvalidDigest" else .ok r
            | .err x => .err x
            | .panic x => .panic x
          | _ => .ok rs
        | .err x => .err x
        | .panic x => .panic x
  | _ => .err "NotEncrypted"

/-- `encrypt` = `wrap_envelope().encrypt_subject(key).unwrap()` -/
def encryptWhole (key nonce : Bytes) (e : Env) : Res Env :=
  match encryptSubject h A key nonce (wrap h e) with
  | .ok r => .ok r
  | .err _ => .panic "encrypt.rs:encrypt:unwrap"
  | .panic x => .panic x

/-- `decrypt` = `decrypt_subject(key)?.unwrap_envelope()` -/
def decryptWhole (key : Bytes) (e : Env) : Res Env :=
  (decryptSubject h A key e).bind unwrap

/-- `uncompress` -/
def uncompress (e : Env) : Res Env :=
  match e with
  | .compressed c d =>
    match uncompressMsg Z c with
    | none => .err "dep:uncompress-failed"
    | some data =>
      match decode h data with
      | .ok r => if r.digest != d then .err "InvalidDigest" else .ok r
      | .err x => .err x
      | .panic x => .panic x
  | _ => .err "NotCompressed"

/-- `compress_subject` -/
def compressSubject (e : Env) : Res Env :=
  if e.subject.isCompressed then .ok e else
  (compress Z e.subject).bind fun s => replaceSubject h e s

/-- `uncompress_subject` -/
def uncompressSubject (e : Env) : Res Env :=
  if e.subject.isCompressed then
    (uncompress h Z e.subject).bind fun s =>
      match e with
      | .node _ as _ => newNodeUnchecked h s as
      | _ => .ok s
  else .ok e

end
end EnvVerif
