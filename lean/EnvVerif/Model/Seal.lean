/-
  Model/Seal.lean — `src/seal.rs` and the `sign` / `verify` pair of
  `src/extension/signature/signature_impl.rs` it is built from.  Everything the library
  draws from its RNG (the signature, the content key, the nonce, the sealed message) is an
  explicit argument.
-/
import EnvVerif.Model.Signature
import EnvVerif.Model.Recipient
namespace EnvVerif
open Env

section
variable (h : Hash) (A : Aead) (V : SigScheme)

/-- `sign_opt` = `wrap_envelope().add_signature_opt(signer, options, None)`; `sig` is the
signature the signer returns for the digest of the wrapped envelope -/
def signWrapped (e : Env) (sig : Cbor) : Res Env :=
  addSignature h (wrap h e) sig [] (fun _ => sig)

/-- `verify_signature_from` -/
def verifySignatureFrom (key : Nat) (e : Env) : Res Env :=
  match hasSignatureFrom h V key e with
  | .ok true => .ok e
  | .ok false => .err "UnverifiedSignature"
  | .err x => .err x
  | .panic x => .panic x

/-- `verify` = `verify_signature_from(verifier)?.unwrap_envelope()` -/
def verifyWrapped (key : Nat) (e : Env) : Res Env :=
  (verifySignatureFrom h V key e).bind unwrap

/-- `seal` (a reserved word here, hence the name) = `sign(sender).encrypt_to_recipient(recipient)` -/
def sealEnvelope (e : Env) (sig : Cbor) (contentKey nonce : Bytes) (sealedMsg : Cbor) : Res Env :=
  (signWrapped h e sig).bind (encryptToRecipient h A contentKey nonce sealedMsg)

/-- `unseal` = `decrypt_to_recipient(recipient)?.verify(sender)` -/
def unsealEnvelope (K : Kem) (senderKey recipientKey : Nat) (e : Env) : Res Env :=
  (decryptToRecipient h A K recipientKey e).bind (verifyWrapped h V senderKey)

end
end EnvVerif
