/-
  Model/Interp.lean — the scenario (EVL) interpreter over the model: one operation per
  line in, one observation line out.  Total: an unknown or ill-typed line yields `bad-op`.
-/
import EnvVerif.Model.Expr
import EnvVerif.Model.Recipient
import EnvVerif.Model.Conc
import EnvVerif.Model.Sha256
import EnvVerif.Model.Ur
import EnvVerif.Model.Collections
import EnvVerif.Model.Variants
namespace EnvVerif
open Env

/-! ### executable instances of the parameters -/

def sha256Hash : Hash := ⟨fun b => ⟨beNat (Sha256.hash b)⟩⟩

/-- toy AEAD (not secure; never compared with real ciphertext): the ciphertext is the
plaintext, the tag is a truncated hash over everything -/
def toyAead : Aead where
  enc key nonce pt aad := (pt, (Sha256.hash (key ++ nonce ++ beBytes 8 aad.length ++ aad ++ pt)).take 16)
  dec key nonce ct aad auth :=
    if (Sha256.hash (key ++ nonce ++ beBytes 8 aad.length ++ aad ++ ct)).take 16 == auth then some ct else none

/-- toy DEFLATE: stores the data (the branch `Compressed` takes for incompressible input) -/
def toyDeflate : Deflate where
  deflate b := b
  inflate b := some b
  crc _ := 0

/-! ### printing -/

def dhex (d : Digest) : String := hexOfBytes d.bytes
def dshort (d : Digest) : String := hexOfBytes (d.bytes.take 8)

mutual
def shape : Env → String
  | .node s as d => "(N " ++ dshort d ++ " " ++ shape s ++ shapeList as ++ ")"
  | .leaf c d => "(L " ++ dshort d ++ " " ++ hexOfBytes c.enc ++ ")"
  | .wrapped e d => "(W " ++ dshort d ++ " " ++ shape e ++ ")"
  | .assertion p o d => "(A " ++ dshort d ++ " " ++ shape p ++ " " ++ shape o ++ ")"
  | .elided d => "(E " ++ dshort d ++ ")"
  | .knownValue v d => "(K " ++ dshort d ++ " " ++ toString v ++ ")"
  | .encrypted _ d => "(X " ++ dshort d ++ ")"
  | .compressed _ d => "(C " ++ dshort d ++ ")"
def shapeList : List Env → String
  | [] => ""
  | a :: as => " " ++ shape a ++ shapeList as
end

def caseName : Env → String
  | .node .. => "N" | .leaf .. => "L" | .wrapped .. => "W" | .assertion .. => "A"
  | .elided .. => "E" | .knownValue .. => "K" | .encrypted .. => "X" | .compressed .. => "C"

/-! ### registers -/

inductive Val where
  | env (e : Env)
  | none                 -- `Option::None` results (e.g. no proof)
  | err (e : String)
  | panic (s : String)
  deriving Inhabited

def Val.ofRes : Res Env → Val
  | .ok e => .env e
  | .err e => .err e
  | .panic s => .panic s

def Val.show : Val → String
  | .env e => "ok " ++ dhex e.digest
  | .none => "none"
  | .err e => "err " ++ e
  | .panic s => "panic " ++ s

abbrev Regs := List (String × Val)

def Regs.get (r : Regs) (k : String) : Option Val := (r.find? (·.1 == k)).map (·.2)
def Regs.env (r : Regs) (k : String) : Option Env :=
  match Regs.get r k with
  | some (.env e) => some e
  | _ => Option.none
def Regs.set (r : Regs) (k : String) (v : Val) : Regs := (k, v) :: r.filter (·.1 != k)

def envs (r : Regs) (ks : String) : Option (List Env) :=
  if ks == "-" then some [] else (ks.splitOn ",").mapM (Regs.env r)

/-- path navigation: `s`, `aN`, `p`, `o`, `w`, separated by `/`; `.` is the element itself -/
def stepAt (e : Env) (st : String) : Option Env :=
  if st == "." || st == "" then some e
  else if st == "s" then (match e with | .node s _ _ => some s | _ => none)
  else if st == "p" then (match e with | .assertion p _ _ => some p | _ => none)
  else if st == "o" then (match e with | .assertion _ o _ => some o | _ => none)
  else if st == "w" then (match e with | .wrapped x _ => some x | _ => none)
  else if st.startsWith "a" then
    match (st.drop 1).toNat?, e with
    | some i, .node _ as _ => as[i]?
    | _, _ => none
  else none

def pathAt (e : Env) (path : String) : Option Env :=
  (path.splitOn "/").foldl (fun acc st => acc.bind (stepAt · st)) (some e)

def parseAction (s : String) : Option Action :=
  if s == "elide" then some .elide
  else if s == "compress" then some .compress
  else match s.splitOn ":" with
    | ["encrypt", k] => (bytesOfHex k).map fun key => .encrypt key (fun _ => List.replicate 12 0)
    | _ => none

def showVisit (v : Visit) : String :=
  toString v.2.1 ++ ":" ++ v.2.2.name ++ ":" ++ caseName v.1 ++ ":" ++ dshort v.1.digest

def sortDedupDigests (ds : List Digest) : List Digest :=
  let sorted := ds.mergeSort (fun a b => decide (a.val ≤ b.val))
  sorted.foldr (fun d acc => match acc with
    | x :: _ => if x == d then acc else d :: acc
    | [] => [d]) []

/-- typed extraction `extract_subject::<T>()` for the types the correspondence exercises -/
def extractLeaf (ty : String) (c : Cbor) : String :=
  let intRange (lo hi : Int) : String :=
    match c with
    | .uint n => if (n : Int) ≤ hi then "ok " ++ toString n else "err"
    | .nint n => if lo ≤ -1 - (n : Int) then "ok " ++ toString (-1 - (n : Int)) else "err"
    | _ => "err"
  if ty == "u8" then intRange 0 255
  else if ty == "u16" then intRange 0 65535
  else if ty == "u32" then intRange 0 4294967295
  else if ty == "u64" then intRange 0 18446744073709551615
  else if ty == "i8" then intRange (-128) 127
  else if ty == "i16" then intRange (-32768) 32767
  else if ty == "i32" then intRange (-2147483648) 2147483647
  else if ty == "i64" then intRange (-9223372036854775808) 9223372036854775807
  else if ty == "bool" then
    (match c with | .simple 20 => "ok false" | .simple 21 => "ok true" | _ => "err")
  else if ty == "text" then
    (match c with | .text b => "ok " ++ hexOfBytes b | _ => "err")
  else if ty == "bytes" then
    (match c with | .bytes b => "ok " ++ hexOfBytes b | _ => "err")
  else "bad-op"

def extractSubject (ty : String) : Env → String
  | .node s _ _ => extractSubject ty s
  | .leaf c _ => extractLeaf ty c
  | _ => "err"

/-! ### one step -/

def H := sha256Hash
def AE := toyAead
def ZZ := toyDeflate

def showList (es : List Env) : String := " ".intercalate (es.map fun e => dshort e.digest)


def optHex (s : String) : Option (Option Bytes) :=
  if s == "-" then some Option.none else (bytesOfHex s).map some

/-- a permutation of a digest's bytes (what the harness declares instead of the true digest); `none` inside when the permutation
leaves the digest unchanged -/
def permDigest (d : Digest) (kind : String) : Option (Option Digest) :=
  let bs := d.bytes
  let swap (i j : Nat) (l : Bytes) : Bytes := l.zipIdx.map fun (b, k) => if k == i then l.getD j b else if k == j then l.getD i b else b
  let p : Option Bytes :=
    if kind == "swap" then some (swap 0 1 bs)
    else if kind == "rot" then some (bs.drop 1 ++ bs.take 1)
    else if kind == "rev" then some bs.reverse
    else if kind == "swapfar" then some (swap 3 29 bs)
    else Option.none
  p.map fun q =>
    let q := if q == bs then swap 0 31 q else q
    if q == bs then Option.none else Digest.ofBytes? q

def cborOfHex (hx : String) : Option Cbor := (bytesOfHex hx).bind Cbor.dec?

/-- comma-separated hex items (empty items skipped) -/
def cborItems (s : String) : Option (List Cbor) :=
  ((s.splitOn ",").filter (· != "")).mapM cborOfHex

def cborPairs (s : String) : Option (List (Cbor × Cbor)) :=
  ((s.splitOn ",").filter (· != "")).mapM fun it =>
    match it.splitOn "=" with
    | [k, v] => do let k ← cborOfHex k; let v ← cborOfHex v; pure (k, v)
    | _ => Option.none

def parseIdent (s : String) : Option Ident :=
  match s.splitOn ":" with
  | ["k", n] => n.toNat?.map Ident.known
  | ["n", hx] => (bytesOfHex hx).map Ident.named
  | _ => Option.none

def showIdent : Ident → String
  | .known v => "k:" ++ toString v
  | .named n => "n:" ++ hexOfBytes n

def parseInt? (s : String) : Option Int :=
  if s.startsWith "-" then (s.drop 1).toNat?.map fun n => -(n : Int) else s.toNat?.map fun n => (n : Int)

def showOptHex : Option Bytes → String
  | some b => hexOfBytes b
  | Option.none => "-"

def showResList (r : Res (List Env)) : String :=
  match r with
  | .ok l => "[" ++ showList l ++ "]"
  | .err x => "err " ++ x
  | .panic x => "panic " ++ x

/-- parameters `k:1=r3,n:6162=r4` -/
def parseParams (r : Regs) (s : String) : Option (List (Ident × Env)) :=
  if s == "-" then some [] else
  (s.splitOn ",").mapM fun kv =>
    match kv.splitOn "=" with
    | [k, v] => do let i ← parseIdent k; let e ← r.env v; pure (i, e)
    | _ => Option.none

def buildExpression (f : Ident) (ps : List (Ident × Env)) : Res Expression :=
  ps.foldl (fun acc pv => acc.bind fun x => Expression.withParameter H x pv.1 pv.2) (.ok (Expression.new H f))

/-- the idealised signature scheme of a scenario: exactly the registered triples verify -/
def tableSig (facts : List String) : SigScheme where
  verify key sig msg := facts.contains ("sig " ++ toString key ++ " " ++ hexOfBytes sig.enc ++ " " ++ dhex msg)

/-- the idealised KEM of a scenario.  The harness opens every sealed message of the scenario
with every private key of the scenario on the real library and states the outcomes as facts:
`kem <key> <sealed-hex> <plaintext-hex>` (this key opens this message to this plaintext; no
fact = it does not), `kemscheme key <key> <n>` and `kemscheme sealed <sealed-hex> <n>` (the
encapsulation schemes). -/
def tableKem (facts : List String) : Kem where
  unsealMsg key s := facts.findSome? fun f =>
    match f.splitOn " " with
    | ["kem", k, sh, ph] => if k == toString key && sh == hexOfBytes s.enc then bytesOfHex ph else Option.none
    | _ => Option.none
  schemeOfSealed s := (facts.findSome? fun f =>
    match f.splitOn " " with
    | ["kemscheme", "sealed", sh, n] => if sh == hexOfBytes s.enc then n.toNat? else Option.none
    | _ => Option.none).getD 0
  schemeOfKey k := (facts.findSome? fun f =>
    match f.splitOn " " with
    | ["kemscheme", "key", kk, n] => if kk == toString k then n.toNat? else Option.none
    | _ => Option.none).getD 0

/-- the idealised SSKR of a scenario: `sskr combine <share-hex>,<share-hex>,.. <secret-hex|none>`
(what `sskr_combine` returns for exactly this list of shares, in this order) and
`sskr id <share-hex> <identifier>` -/
def tableSskr (facts : List String) : Sskr where
  combine shares :=
    let key := ",".intercalate (shares.map fun s => hexOfBytes s.enc)
    facts.findSome? fun f =>
      match f.splitOn " " with
      | ["sskr", "combine", k, sec] => if k == key then (if sec == "none" then Option.none else bytesOfHex sec) else Option.none
      | _ => Option.none
  identifier s := (facts.findSome? fun f =>
    match f.splitOn " " with
    | ["sskr", "id", sh, n] => if sh == hexOfBytes s.enc then n.toNat? else Option.none
    | _ => Option.none).getD 0

/-- the CBOR items held by leaf registers -/
def leafCbors (r : Regs) (ks : String) : Option (List Cbor) := do
  let es ← envs r ks
  es.mapM fun e => match e with | .leaf c _ => some c | _ => Option.none

def evalAssign (facts : List String) (r : Regs) (args : List String) : Option Val :=
  match args with
  | ["add_recipient", e, sealedMsg] => do
    let e ← r.env e; let cs ← leafCbors r sealedMsg
    match cs with
    | [c] => pure (.ofRes (addRecipient H e c))
    | _ => Option.none
  | ["enc_to_recipients", e, ck, n, sealeds] => do
    let e ← r.env e; let ck ← bytesOfHex ck; let n ← bytesOfHex n; let cs ← leafCbors r sealeds
    pure (.ofRes (encryptSubjectToRecipients H AE ck n cs e))
  | ["encrypt_to_recipient", e, ck, n, sealedMsg] => do
    let e ← r.env e; let ck ← bytesOfHex ck; let n ← bytesOfHex n; let cs ← leafCbors r sealedMsg
    match cs with
    | [c] => pure (.ofRes (encryptToRecipient H AE ck n c e))
    | _ => Option.none
  | ["decrypt_subject_to_recipient", e, kid] => do
    let e ← r.env e; let k ← kid.toNat?
    pure (.ofRes (decryptSubjectToRecipient H AE (tableKem facts) k e))
  | ["decrypt_to_recipient", e, kid] => do
    let e ← r.env e; let k ← kid.toNat?
    pure (.ofRes (decryptToRecipient H AE (tableKem facts) k e))
  | ["add_sskr_share", e, share] => do
    let e ← r.env e; let cs ← leafCbors r share
    match cs with
    | [c] => pure (.ofRes (addSskrShare H e c))
    | _ => Option.none
  | ["sskr_join", es] => do
    let es ← envs r es
    pure (.ofRes (sskrJoin H AE (tableSskr facts) es))
  | ["set_leaf", items] => (cborItems items).map fun xs => .env (newSetLeaf H xs)
  | ["dset_leaf", items] => (cborItems items).map fun xs => .env (newSetLeaf H xs)
  | ["map_leaf", items] => (cborPairs items).map fun kvs => .env (newMapLeaf H kvs)
  | ["dmap_leaf", items] => (cborPairs items).map fun kvs => .env (newMapLeaf H kvs)
  | ["leaf", hx] =>
    match bytesOfHex hx with
    | some b => (match Cbor.dec b with
      | .ok c => some (.env (newLeaf H c))
      | .error e => some (.err ("unmodelled-leaf:" ++ e.name)))
    | none => Option.none
  | ["kv", n] => n.toNat?.map fun v => .env (newKnownValue H v)
  | ["assertion", p, o] => do
    let p ← r.env p; let o ← r.env o
    pure (.env (newAssertion H p o))
  | ["add", e, a] => do
    let e ← r.env e; let a ← r.env a
    pure (.ofRes (addAssertionEnvelope H e a))
  | ["add_many", e, xs] => do
    let e ← r.env e; let xs ← envs r xs
    pure (.ofRes (addAll H e xs))
  | ["remove", e, a] => do
    let e ← r.env e; let a ← r.env a
    pure (.ofRes (removeAssertion H e a))
  | ["replace_assertion", e, a, b] => do
    let e ← r.env e; let a ← r.env a; let b ← r.env b
    pure (.ofRes (replaceAssertion H e a b))
  | ["replace_subject", e, s] => do
    let e ← r.env e; let s ← r.env s
    pure (.ofRes (replaceSubject H e s))
  | ["wrap", e] => do let e ← r.env e; pure (.env (wrap H e))
  | ["unwrap", e] => do let e ← r.env e; pure (.ofRes (unwrap e))
  | ["subject", e] => do let e ← r.env e; pure (.env e.subject)
  | ["at", e, path] => do
    let e ← r.env e
    pure (match pathAt e path with | some x => .env x | none => .err "bad-path")
  | ["elide", e] => do let e ← r.env e; pure (.env (elide e))
  | ["elide_set", e, mode, act, ts] => do
    let e ← r.env e
    let rev ← (if mode == "rev" then some true else if mode == "rem" then some false else Option.none)
    let act ← parseAction act
    let ts ← envs r ts
    let T := ts.map Env.digest
    pure (.ofRes (elideSet H AE ZZ (memD T) rev act e))
  | ["elide_array", e, mode, act, ts] => do
    let e ← r.env e
    let rev ← (if mode == "rev" then some true else if mode == "rem" then some false else Option.none)
    let act ← parseAction act
    let ts ← envs r ts
    pure (.ofRes (elideArray H AE ZZ ts rev act e))
  | ["elide_target", e, mode, act, ts] => do
    let e ← r.env e
    let rev ← (if mode == "rev" then some true else if mode == "rem" then some false else Option.none)
    let act ← parseAction act
    let ts ← envs r ts
    match ts with
    | t :: _ => pure (.ofRes (elideTarget H AE ZZ t rev act e))
    | [] => Option.none
  | ["unelide", ph, e] => do
    let ph ← r.env ph; let e ← r.env e
    pure (.ofRes (unelide ph e))
  | ["compress", e] => do let e ← r.env e; pure (.ofRes (compress ZZ e))
  | ["uncompress", e] => do let e ← r.env e; pure (.ofRes (uncompress H ZZ e))
  | ["compress_subject", e] => do let e ← r.env e; pure (.ofRes (compressSubject H ZZ e))
  | ["uncompress_subject", e] => do let e ← r.env e; pure (.ofRes (uncompressSubject H ZZ e))
  | ["encrypt_subject", e, k, n] => do
    let e ← r.env e; let k ← bytesOfHex k; let n ← bytesOfHex n
    pure (.ofRes (encryptSubject H AE k n e))
  | ["decrypt_subject", e, k] => do
    let e ← r.env e; let k ← bytesOfHex k
    pure (.ofRes (decryptSubject H AE k e))
  | ["encrypt", e, k, n] => do
    let e ← r.env e; let k ← bytesOfHex k; let n ← bytesOfHex n
    pure (.ofRes (encryptWhole H AE k n e))
  | ["decrypt", e, k] => do
    let e ← r.env e; let k ← bytesOfHex k
    pure (.ofRes (decryptWhole H AE k e))
  | ["tamper", e, field] => do
    let e ← r.env e
    match e.subject with
    | .encrypted m _ =>
      let flip0 (v : Bytes) : Bytes := match v with | [] => [] | x :: xs => (x ^^^ 1) :: xs
      let flipLast (v : Bytes) : Bytes := (flip0 v.reverse).reverse
      let m'? : Option EncMsg :=
        if field == "ct" then some { m with ciphertext := flip0 m.ciphertext }
        else if field == "nonce" then some { m with nonce := flip0 m.nonce }
        else if field == "auth" then some { m with auth := flip0 m.auth }
        else if field == "aad" then some { m with aad := flipLast m.aad }
        else Option.none
      let m' ← m'?
      pure (match m'.optDigest with
        | some d => .ofRes (replaceSubject H e (.encrypted m' d))
        | Option.none => .err "MissingDigest")
    | _ => pure (.err "not-encrypted")
  | ["foreign_enc", ct, aad] => do
    let ct ← bytesOfHex ct; let aad ← if aad == "-" then some [] else bytesOfHex aad
    let m : EncMsg := { ciphertext := ct, nonce := List.replicate 12 9, auth := List.replicate 16 8, aad := aad }
    pure (match m.optDigest with
      | some d => .env (.encrypted m d)
      | Option.none => .err "MissingDigest")
  | ["misdeclare", e, other, k, n] => do
    let e ← r.env e; let other ← r.env other; let k ← bytesOfHex k; let n ← bytesOfHex n
    let m := encryptWithDigest AE k n (encode other) e.digest
    pure (match m.optDigest with
      | some d => .env (.encrypted m d)
      | Option.none => .err "MissingDigest")
  | ["miscompress_perm", e, kind] => do
    let e ← r.env e
    let d ← permDigest e.digest kind
    pure (match d with
      | some d => .env (.compressed (compressedOf ZZ (encode e)) d)
      | Option.none => .err "degenerate-digest")
  | ["misdeclare_perm", e, kind, key, n] => do
    let e ← r.env e; let key ← bytesOfHex key; let n ← bytesOfHex n
    let d ← permDigest e.digest kind
    pure (match d with
      | some d =>
        let m := encryptWithDigest AE key n (encode e) d
        (match m.optDigest with
          | some d' => .env (.encrypted m d')
          | Option.none => .err "MissingDigest")
      | Option.none => .err "degenerate-digest")
  | ["miscompress_near", e, k] => do
    let e ← r.env e; let k ← k.toNat?
    let bs := e.digest.bytes
    let bs' := bs.zipIdx.map fun (b, i) => if i == k % 32 then b ^^^ 1 else b
    let d ← Digest.ofBytes? bs'
    pure (.env (.compressed (compressedOf ZZ (encode e)) d))
  | ["misdeclare_near", e, k, key, n] => do
    let e ← r.env e; let k ← k.toNat?; let key ← bytesOfHex key; let n ← bytesOfHex n
    let bs := e.digest.bytes
    let bs' := bs.zipIdx.map fun (b, i) => if i == k % 32 then b ^^^ 1 else b
    let d ← Digest.ofBytes? bs'
    let m := encryptWithDigest AE key n (encode e) d
    pure (match m.optDigest with
      | some d' => .env (.encrypted m d')
      | Option.none => .err "MissingDigest")
  | ["miscompress", e, other] => do
    let e ← r.env e; let other ← r.env other
    pure (.env (.compressed (compressedOf ZZ (encode other)) e.digest))
  | ["add_salt_instance", e, hx] => do
    let e ← r.env e; let b ← bytesOfHex hx
    pure (.ofRes (addSaltInstance H e b))
  | ["add_salt_with_len", e, n, hx] => do
    let e ← r.env e; let n ← n.toNat?; let b ← bytesOfHex hx
    pure (.ofRes (addSaltWithLen H e n (fun _ => b)))
  | ["add_salted", e, p, o, hx] => do
    let e ← r.env e; let p ← r.env p; let o ← r.env o; let s ← optHex hx
    pure (.ofRes (addAssertionSalted H e p o s))
  | ["add_env_unsalted", e, a] => do
    let e ← r.env e; let a ← r.env a
    pure (.ofRes (addAssertionEnvelope H e a))
  | ["add_salted_refused", e, a] => do
    -- a salted add of an element that is no legal assertion element: refused before any salt is drawn
    let e ← r.env e; let a ← r.env a
    if a.slotOk then Option.none else pure (.ofRes (addAssertionEnvelope H e a))
  | ["add_salted_none", e] => do let e ← r.env e; pure (.env e)
  | ["add_many_unsalted", e, xs] => do
    let e ← r.env e; let xs ← envs r xs
    pure (.ofRes (addAll H e xs))
  | ["add_type", e, t] => do
    let e ← r.env e; let t ← r.env t
    pure (.ofRes (addType H e t))
  | ["add_attachment", e, payload, v, c] => do
    let e ← r.env e; let pl ← r.env payload; let v ← bytesOfHex v; let c ← optHex c
    pure (.ofRes (addAttachment H e pl v c))
  | ["new_attachment", payload, v, c] => do
    let pl ← r.env payload; let v ← bytesOfHex v; let c ← optHex c
    pure (.ofRes (newAttachment H pl v c))
  | ["get_type", e] => do
    let e ← r.env e
    pure (.ofRes (getType H e))
  | ["attachment1", e, v, c] => do
    let e ← r.env e; let v ← optHex v; let c ← optHex c
    pure (.ofRes (attachmentWith H e v c))
  | ["mk_expression", f, ps] => do
    let f ← parseIdent f; let ps ← parseParams r ps
    pure (.ofRes ((buildExpression f ps).bind fun x => .ok x.envelope))
  | ["mk_request", id, f, ps, note, date] => do
    let id ← bytesOfHex id; let f ← parseIdent f; let ps ← parseParams r ps
    let note ← bytesOfHex (if note == "-" then "" else note)
    let date ← (if date == "-" then some Option.none else (parseInt? date).map some)
    pure (.ofRes ((buildExpression f ps).bind fun x => Request.toEnvelope H ⟨x, id, note, date⟩))
  | ["mk_response", kind, id, body] => do
    let body ← r.env body
    let id? ← optHex id
    if kind == "success" then
      match id? with
      | some id => pure (.ofRes (Response.toEnvelope H (.success id body)))
      | Option.none => Option.none
    else if kind == "failure" then pure (.ofRes (Response.toEnvelope H (.failure id? body)))
    else Option.none
  | ["mk_event", id, content, note, date] => do
    let id ← bytesOfHex id; let content ← bytesOfHex content
    let note ← bytesOfHex (if note == "-" then "" else note)
    let date ← (if date == "-" then some Option.none else (parseInt? date).map some)
    pure (.ofRes (Event.toEnvelope H ⟨content, id, note, date⟩))
  | ["add_sig", e, sig] => do
    let e ← r.env e; let sg ← r.env sig
    match sg with
    | .leaf c _ => pure (.ofRes (addSignature H e c [] (fun _ => c)))
    | _ => Option.none
  | ["add_sig_meta", e, sig, outer, metas] => do
    let e ← r.env e; let sg ← r.env sig; let ou ← r.env outer; let ms ← envs r metas
    match sg, ou with
    | .leaf c _, .leaf oc _ => pure (.ofRes (addSignature H e c ms (fun _ => oc)))
    | _, _ => Option.none
  | ["decode", hx] => do
    let b ← bytesOfHex hx
    pure (.ofRes (decode H b))
  | ["from_ur", text] => pure (.ofRes (envOfUrString H (Ur.textOfString text)))
  | ["recode", e] => do
    let e ← r.env e
    pure (.ofRes (decode H (encode e)))
  | ["proof", e, ts] => do
    let e ← r.env e
    let ts ← envs r ts
    pure (match proofContainsSet H e (ts.map Env.digest) with
      | .ok (some p) => .env p
      | .ok Option.none => .none
      | .err x => .err x
      | .panic x => .panic x)
  | _ => Option.none

def evalObs (facts : List String) (r : Regs) (args : List String) : Option String :=
  match args with
  | ["shape", e] => (r.env e).map shape
  | ["digest", e] => (r.env e).map fun e => dhex e.digest
  | ["bytes", e] => (r.env e).map fun e => hexOfBytes (encode e)
  | ["ur", e] => (r.env e).map fun e => Ur.stringOfText (urStringOf e)
  | ["saltrange", e] => (r.env e).map fun e =>
    -- `add_salt_using`: the size of the tagged encoding, the two products rounded as the library rounds them (IEEE doubles)
    let n := (encode e).length
    let c5 := (Float.ofNat n * 0.05).ceil.toUInt64.toNat
    let c25 := (Float.ofNat n * 0.25).ceil.toUInt64.toNat
    let rg := saltRange c5 c25
    toString rg.1 ++ " " ++ toString rg.2
  | ["sdigest", e] => (r.env e).map fun e => dhex (structuralDigest H e)
  | ["count", e] => (r.env e).map fun e => toString (elementsCount e)
  | ["walk", e, mode] => do
    let e ← r.env e
    let hide ← (if mode == "tree" then some true else if mode == "structure" then some false else Option.none)
    pure (" ".intercalate ((walk hide e).map showVisit))
  | ["digests", e, limit] => do
    let e ← r.env e
    let n ← limit.toNat?
    pure (" ".intercalate ((sortDedupDigests (digestsUpTo e n)).map dshort))
  | ["eq", a, b] => do
    let a ← r.env a; let b ← r.env b
    pure ("equiv=" ++ toString (isEquivalentTo a b) ++ " ident=" ++ toString (isIdenticalTo H a b))
  | ["awp", e, p] => do
    let e ← r.env e; let p ← r.env p
    pure ("[" ++ showList (assertionsWithPredicate e p) ++ "]")
  | ["eofp", e, p, ty] => do
    -- `extract_object_for_predicate::<T>` = `object_for_predicate` then `extract_subject::<T>`
    let e ← r.env e; let p ← r.env p
    pure (match objectForPredicate e p with
      | .ok o => extractSubject ty o
      | .err _ => "err"
      | .panic x => "panic " ++ x)
  | ["eoofp", e, p, ty] => do
    let e ← r.env e; let p ← r.env p
    pure (match optionalObjectForPredicate e p with
      | .ok (some o) => extractSubject ty o
      | .ok Option.none => "none"
      | .err _ => "err"
      | .panic x => "panic " ++ x)
  | ["eosfp", e, p, ty] => do
    -- all or nothing: one object that is not a `T` makes the whole lookup an error
    let e ← r.env e; let p ← r.env p
    pure (match objectsForPredicate e p with
      | .ok os =>
        let rs := os.map (extractSubject ty)
        if rs.any (fun s => s == "err") then "err" else "[" ++ " ".intercalate rs ++ "]"
      | .err _ => "err"
      | .panic x => "panic " ++ x)
  | ["eofpd", e, p, ty] => do
    -- the default only when nothing matches
    let e ← r.env e; let p ← r.env p
    pure (match optionalObjectForPredicate e p with
      | .ok (some o) => extractSubject ty o
      | .ok Option.none => if ty == "bool" then "ok false" else "ok default"   -- (the harness passes `false` as the bool default)
      | .err _ => "err"
      | .panic x => "panic " ++ x)
  | ["ofp", e, p] => do
    let e ← r.env e; let p ← r.env p
    pure (Val.show (.ofRes (objectForPredicate e p)))
  | ["osfp", e, p] => do
    let e ← r.env e; let p ← r.env p
    pure (match objectsForPredicate e p with
      | .ok os => "[" ++ showList os ++ "]"
      | .err x => "err " ++ x
      | .panic x => "panic " ++ x)
  | ["oofp", e, p] => do
    let e ← r.env e; let p ← r.env p
    pure (match optionalObjectForPredicate e p with
      | .ok (some o) => "ok " ++ dhex o.digest
      | .ok Option.none => "none"
      | .err x => "err " ++ x
      | .panic x => "panic " ++ x)
  | ["extract", e, ty] => do
    let e ← r.env e
    pure (extractSubject ty e)
  | ["confirm", e, ts, p] => do
    let e ← r.env e; let ts ← envs r ts; let p ← r.env p
    pure (toString (confirmContainsSet e (ts.map Env.digest) p))
  | ["types", e] => do
    let e ← r.env e
    pure (showResList (types H e))
  | ["has_type", e, t] => do
    let e ← r.env e; let t ← r.env t
    pure (match hasTypeEnvelope H e t with | .ok b => toString b | .err x => "err " ++ x | .panic x => "panic " ++ x)
  | ["attachments", e, v, c] => do
    let e ← r.env e; let v ← optHex v; let c ← optHex c
    pure (showResList (attachmentsWith H e v c))
  | ["validate_attachment", a] => do
    let a ← r.env a
    pure (match validateAttachment H a with | .ok _ => "ok" | .err x => "err " ++ x | .panic x => "panic " ++ x)
  | ["attachment_fields", a] => do
    let a ← r.env a
    pure (match attachmentPayload a, attachmentVendor H a, attachmentConformsTo H a with
      | .ok p, .ok v, .ok c => "payload=" ++ dshort p.digest ++ " vendor=" ++ hexOfBytes v ++ " conf=" ++ showOptHex c
      | _, _, _ => "err")
  | ["parse_expression", e, expected] => do
    let e ← r.env e
    let ex ← (if expected == "-" then some Option.none else (parseIdent expected).map some)
    pure (match Expression.parseExpecting e ex with
      | .ok x => "ok fn=" ++ showIdent x.function
      | .err x => "err " ++ x
      | .panic x => "panic " ++ x)
  | ["parse_request", e] => do
    let e ← r.env e
    pure (match Request.parse H e Option.none with
      | .ok q => "ok id=" ++ hexOfBytes q.id ++ " fn=" ++ showIdent q.body.function ++ " body=" ++ dshort q.body.envelope.digest ++ " note=" ++ hexOfBytes q.note ++ " date=" ++ (match q.date with | some d => toString d | Option.none => "-")
      | .err x => "err " ++ x
      | .panic x => "panic " ++ x)
  | ["parse_response", e] => do
    let e ← r.env e
    pure (match Response.parse H e with
      | .ok (.success id res) => "ok success id=" ++ hexOfBytes id ++ " result=" ++ dshort res.digest
      | .ok (.failure id er) => "ok failure id=" ++ showOptHex id ++ " error=" ++ dshort er.digest
      | .err x => "err " ++ x
      | .panic x => "panic " ++ x)
  | ["parse_event", e] => do
    let e ← r.env e
    pure (match Event.parse H e with
      | .ok q => "ok id=" ++ hexOfBytes q.id ++ " content=" ++ hexOfBytes q.content ++ " note=" ++ hexOfBytes q.note ++ " date=" ++ (match q.date with | some d => toString d | Option.none => "-")
      | .err x => "err " ++ x
      | .panic x => "panic " ++ x)
  | ["recipients", e] => do
    let e ← r.env e
    pure (match recipients H e with
      | .ok l => "[" ++ " ".intercalate (l.map fun c => hexOfBytes c.enc) ++ "]"
      | .err x => "err " ++ x
      | .panic x => "panic " ++ x)
  | ["has_sig", e, kid] => do
    let e ← r.env e; let k ← kid.toNat?
    pure (match hasSignatureFromReturningMetadata H (tableSig facts) k e with
      | .ok (some m) => "some " ++ dshort m.digest
      | .ok Option.none => "none"
      | .err x => "err " ++ x
      | .panic x => "panic " ++ x)
  | ["has_sigs", e, kids, thr] => do
    let e ← r.env e
    let ks ← (if kids == "-" then some [] else (kids.splitOn ",").mapM String.toNat?)
    let t ← (if thr == "-" then some Option.none else thr.toNat?.map some)
    pure (match hasSignaturesFromThreshold H (tableSig facts) ks t e with
      | .ok b => toString b
      | .err x => "err " ++ x
      | .panic x => "panic " ++ x)
  | "c20-expected" :: op :: phase :: [] => do
    let p ← (Conc.apiOps.find? (·.1 == op)).map (·.2)
    let q := Conc.project Conc.repoResource p
    if phase == "first" then pure (Conc.showProg q)
    else if phase == "steady" then pure (Conc.showProg (Conc.steady q))
    else if phase == "full" then pure (Conc.showProg p)
    else Option.none
  | "c20-norm" :: rest =>
    match Conc.parseProg (" ".intercalate rest) with
    | some p => pure (Conc.showProg p)
    | Option.none => pure "bad-prog"
  | "c20-check" :: rest =>
    match Conc.parseProg (" ".intercalate rest) with
    | some p => pure s!"ranked={Conc.rankedOf p} lazy={Conc.lazyDisciplined p}"
    | Option.none => pure "bad-prog"
  | "c20-deadlock" :: rest =>
    -- programs separated by `|`; bounded search for a deadlocking schedule (a search aid, not a proof)
    match ((" ".intercalate rest).splitOn "|").mapM Conc.parseProg with
    | some ps => pure (match Conc.findDeadlock ps 200000 with
        | some sched => "deadlock " ++ " ".intercalate (sched.map toString)
        | Option.none => "no-deadlock-found")
    | Option.none => pure "bad-prog"
  | ["flags", e] => do
    let e ← r.env e
    pure (s!"node={e.isNode} sa={e.isSubjectAssertion} so={e.isSubjectObscured} obsc={e.isObscured} internal={e.isInternal} nas={e.assertions.length}")
  | _ => Option.none

structure St where
  regs : Regs := []
  facts : List String := []

/-- one line of a scenario; returns the new state and the output line (`none` for blank
lines and comments) -/
def step (st : St) (line : String) : St × Option String :=
  let r := st.regs
  let toks := (line.trimAscii.toString.splitOn " ").filter (· != "")
  match toks with
  | [] => (st, Option.none)
  | "#" :: _ => (st, Option.none)
  | ["scenario", id] => ({}, some ("scenario " ++ id))
  | "fact" :: rest => ({ st with facts := " ".intercalate rest :: st.facts }, some "ok")
  | "obs" :: args =>
    match evalObs st.facts r args with
    | some s => (st, some s)
    | none => (st, some "bad-op")
  | reg :: "=" :: args =>
    match evalAssign st.facts r args with
    | some v => ({ st with regs := r.set reg v }, some (reg ++ " " ++ v.show))
    | none => ({ st with regs := r.set reg (.err "bad-op") }, some "bad-op")
  | _ => (st, some "bad-op")

end EnvVerif
