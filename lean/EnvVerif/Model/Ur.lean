/-
  Model/Ur.lean — the UR text form of an envelope (`ur:envelope/<minimal bytewords of the untagged
  CBOR followed by its CRC-32>`): `Envelope::ur_string` / `Envelope::from_ur_string`.

  Everything below the two envelope-level functions at the end lives in dependencies (`bc-ur`, `ur`,
  `crc`); it is modelled *concretely* (the real word list, the real CRC-32/ISO-HDLC) so that the
  correspondence check can compare UR strings character by character.  Text is a list of character
  codes.  Limit of the model: `from_ur_string` lower-cases its input with Rust's Unicode
  `to_lowercase`; the model lower-cases ASCII only, so it is faithful on ASCII input (the few
  non-ASCII characters whose lower-case form is ASCII, such as the Kelvin sign, are outside it).
  Import-free.
-/
import EnvVerif.Model.Codec

namespace EnvVerif
namespace Ur

abbrev Text := List Nat

def textOfString (s : String) : Text := s.toList.map Char.toNat
def stringOfText (t : Text) : String := String.ofList (t.map Char.ofNat)

/-- first and last letter (character codes) of each of the 256 bytewords, index = byte value
(`ur::constants::MINIMALS`) -/
def minimals : List (Nat × Nat) :=
  [
   (97, 101), (97, 100), (97, 111), (97, 120), (97, 97), (97, 104), (97, 109), (97, 116), (97, 121),
   (97, 115), (98, 107), (98, 100), (98, 110), (98, 116), (98, 97), (98, 115), (98, 101), (98, 121),
   (98, 103), (98, 119), (98, 98), (98, 122), (99, 109), (99, 104), (99, 115), (99, 102), (99, 121),
   (99, 119), (99, 101), (99, 97), (99, 107), (99, 116), (99, 120), (99, 108), (99, 112), (99, 110),
   (100, 107), (100, 97), (100, 115), (100, 105), (100, 101), (100, 116), (100, 114), (100, 110),
   (100, 119), (100, 112), (100, 109), (100, 108), (100, 121), (101, 104), (101, 121), (101, 111),
   (101, 101), (101, 99), (101, 110), (101, 109), (101, 116), (101, 115), (102, 116), (102, 114),
   (102, 110), (102, 115), (102, 109), (102, 104), (102, 122), (102, 112), (102, 119), (102, 120),
   (102, 121), (102, 101), (102, 103), (102, 108), (102, 100), (103, 97), (103, 101), (103, 114),
   (103, 115), (103, 116), (103, 108), (103, 119), (103, 100), (103, 121), (103, 109), (103, 117),
   (103, 104), (103, 111), (104, 102), (104, 103), (104, 100), (104, 107), (104, 116), (104, 112),
   (104, 104), (104, 108), (104, 121), (104, 101), (104, 110), (104, 115), (105, 100), (105, 97),
   (105, 101), (105, 104), (105, 121), (105, 111), (105, 115), (105, 110), (105, 109), (106, 101),
   (106, 122), (106, 110), (106, 116), (106, 108), (106, 111), (106, 115), (106, 112), (106, 107),
   (106, 121), (107, 112), (107, 111), (107, 116), (107, 115), (107, 107), (107, 110), (107, 103),
   (107, 101), (107, 105), (107, 98), (108, 98), (108, 97), (108, 121), (108, 102), (108, 115),
   (108, 114), (108, 112), (108, 110), (108, 116), (108, 111), (108, 100), (108, 101), (108, 117),
   (108, 107), (108, 103), (109, 110), (109, 121), (109, 104), (109, 101), (109, 111), (109, 117),
   (109, 119), (109, 100), (109, 116), (109, 115), (109, 107), (110, 108), (110, 121), (110, 100),
   (110, 115), (110, 116), (110, 110), (110, 101), (110, 98), (111, 121), (111, 101), (111, 116),
   (111, 120), (111, 110), (111, 108), (111, 115), (112, 100), (112, 116), (112, 107), (112, 121),
   (112, 115), (112, 109), (112, 108), (112, 101), (112, 102), (112, 97), (112, 114), (113, 100),
   (113, 122), (114, 101), (114, 112), (114, 108), (114, 111), (114, 104), (114, 100), (114, 107),
   (114, 102), (114, 121), (114, 110), (114, 115), (114, 116), (115, 101), (115, 97), (115, 114),
   (115, 115), (115, 107), (115, 119), (115, 116), (115, 112), (115, 111), (115, 103), (115, 98),
   (115, 102), (115, 110), (116, 111), (116, 107), (116, 105), (116, 116), (116, 100), (116, 101),
   (116, 121), (116, 108), (116, 98), (116, 115), (116, 112), (116, 97), (116, 110), (117, 121),
   (117, 111), (117, 116), (117, 101), (117, 114), (118, 116), (118, 121), (118, 111), (118, 108),
   (118, 101), (118, 119), (118, 97), (118, 100), (118, 115), (119, 108), (119, 100), (119, 109),
   (119, 112), (119, 101), (119, 121), (119, 115), (119, 116), (119, 110), (119, 122), (119, 102),
   (119, 107), (121, 107), (121, 110), (121, 108), (121, 97), (121, 116), (122, 115), (122, 111),
   (122, 116), (122, 99), (122, 101), (122, 109)
  ]

set_option maxRecDepth 4096 in
theorem minimals_length : minimals.length = 256 := by decide

def minimalOf (b : UInt8) : Nat × Nat :=
  minimals[b.toNat]'(by rw [minimals_length]; exact b.toNat_lt)

/-- position of a two-letter word in the table (`MINIMAL_IDXS`) -/
def findPair : List (Nat × Nat) → Nat → Nat → Nat → Option Nat
  | [], _, _, _ => none
  | (p, q) :: rest, x, y, i => if p == x && q == y then some i else findPair rest x y (i + 1)

def byteOfPair (x y : Nat) : Option UInt8 := (findPair minimals x y 0).map UInt8.ofNat

/-- `bytewords::encode(.., Style::Minimal)` without the checksum part -/
def encodeLetters : Bytes → Text
  | [] => []
  | b :: rest => (minimalOf b).1 :: (minimalOf b).2 :: encodeLetters rest

/-- `decode_minimal` up to `strip_checksum`: odd length and unknown words are errors -/
def decodeLetters : Text → Option Bytes
  | [] => some []
  | [_] => none
  | x :: y :: rest =>
    match byteOfPair x y, decodeLetters rest with
    | some b, some bs => some (b :: bs)
    | _, _ => none

/-! ### CRC-32/ISO-HDLC (reflected polynomial 0xEDB88320, initial value and final xor 0xFFFFFFFF) -/

def crcStep (c : Nat) : Nat := if c % 2 == 1 then (c / 2) ^^^ 0xEDB88320 else c / 2

def crcByte (c : Nat) (b : UInt8) : Nat :=
  crcStep (crcStep (crcStep (crcStep (crcStep (crcStep (crcStep (crcStep (c ^^^ b.toNat))))))))

def crc32 (data : Bytes) : Nat := (data.foldl crcByte 0xFFFFFFFF) ^^^ 0xFFFFFFFF

/-- `bytewords::encode(data, Minimal)` -/
def bytewordsMinimal (data : Bytes) : Text := encodeLetters (data ++ beBytes 4 (crc32 data))

/-- `strip_checksum` -/
def stripChecksum (data : Bytes) : Option Bytes :=
  if data.length < 4 then none
  else
    let payload := data.take (data.length - 4)
    let checksum := data.drop (data.length - 4)
    if beBytes 4 (crc32 payload) == checksum then some payload else none

/-- `bytewords::decode(s, Minimal)` (on ASCII text) -/
def bytewordsDecode (t : Text) : Option Bytes :=
  match decodeLetters t with
  | some data => stripChecksum data
  | none => none

/-! ### `ur:<type>/<bytewords>` -/

def SLASH : Nat := 47
def urPrefix : Text := [117, 114, 58]      -- "ur:"

/-- `URTypeChar::is_ur_type` -/
def isTypeChar (c : Nat) : Bool := (97 ≤ c && c ≤ 122) || (48 ≤ c && c ≤ 57) || c == 45

def lowerAscii (c : Nat) : Nat := if 65 ≤ c && c ≤ 90 then c + 32 else c

/-- `UR::qr_string` upper-cases the string -/
def upperAscii (c : Nat) : Nat := if 97 ≤ c && c ≤ 122 then c - 32 else c

/-- `str::split_once('/')` -/
def splitOnce : Text → Option (Text × Text)
  | [] => none
  | c :: rest =>
    if c == SLASH then some ([], rest)
    else match splitOnce rest with
      | some (a, b) => some (c :: a, b)
      | none => none

def stripPrefix : Text → Text → Option Text
  | [], t => some t
  | _ :: _, [] => none
  | p :: ps, c :: cs => if p == c then stripPrefix ps cs else none

/-- `UR::string` -/
def urString (ty : Text) (data : Bytes) : Text := urPrefix ++ ty ++ [SLASH] ++ bytewordsMinimal data

/-- `UR::from_ur_string`: the type and the CBOR bytes of a single-part UR (multi-part URs - a second
`/` after the type - are refused by `bc-ur`) -/
def urParse (s : Text) : Option (Text × Bytes) :=
  if s.any (fun c => c ≥ 128) then none else
  let s := s.map lowerAscii
  match stripPrefix urPrefix s with
  | none => none
  | some rest =>
    match splitOnce rest with
    | none => none
    | some (ty, body) =>
      if !ty.all isTypeChar then none
      else if body.contains SLASH then none
      else match bytewordsDecode body with
        | some data => some (ty, data)
        | none => none

end Ur

/-! ### the envelope level (this is what `/repo` contributes: the type name and the untagged form) -/

def envelopeType : Ur.Text := [101, 110, 118, 101, 108, 111, 112, 101]    -- "envelope"

/-- `Envelope::ur_string` -/
def urStringOf (e : Env) : Ur.Text := Ur.urString envelopeType (cborOf e).enc

section
variable (h : Hash)

/-- `Envelope::from_ur_string` -/
def envOfUrString (s : Ur.Text) : Res Env :=
  match Ur.urParse s with
  | none => .err "dep:ur"
  | some (ty, data) =>
    if ty != envelopeType then .err "dep:ur-type"
    else match Cbor.dec data with
      | .ok c => envOfCbor h c
      | .error e => .err ("cbor:" ++ e.name)
end

end EnvVerif
