/-
  Model/Variants.lean — the convenience doors of the elision API, defined as `/repo` defines them
  (`src/base/elide.rs`): the array forms collect the digests of their targets and call the set form, the
  single-target forms call the array form with one element, the removing / revealing forms fix the flag,
  the forms without an action use `Elide`.  Import-free.
-/
import EnvVerif.Model.Proof

namespace EnvVerif

section
variable (h : Hash) (A : Aead) (Z : Deflate)

/-- `elide_array_with_action(target, is_revealing, action)` -/
def elideArray (ts : List Env) (rev : Bool) (act : Action) (e : Env) : Res Env :=
  elideSet h A Z (memD (ts.map Env.digest)) rev act e

/-- `elide_target_with_action(target, is_revealing, action)` -/
def elideTarget (t : Env) (rev : Bool) (act : Action) (e : Env) : Res Env :=
  elideArray h A Z [t] rev act e

/-- `elide_removing_array_with_action` / `elide_revealing_array_with_action` -/
def elideRemovingArray (ts : List Env) (act : Action) (e : Env) : Res Env := elideArray h A Z ts false act e
def elideRevealingArray (ts : List Env) (act : Action) (e : Env) : Res Env := elideArray h A Z ts true act e
def elideRemovingTarget (t : Env) (act : Action) (e : Env) : Res Env := elideTarget h A Z t false act e
def elideRevealingTarget (t : Env) (act : Action) (e : Env) : Res Env := elideTarget h A Z t true act e
end

end EnvVerif
