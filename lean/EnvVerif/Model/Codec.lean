/-
  Model/Codec.lean — `src/base/cbor.rs`: the case-directed mapping between envelopes and
  CBOR trees (`untagged_cbor` / `from_untagged_cbor`), and the byte-level
  `tagged_cbor().to_cbor_data()` / `from_tagged_cbor_data`.
-/
import EnvVerif.Model.Env
namespace EnvVerif
open Env

def TAG_ENVELOPE : Nat := 200
def TAG_LEAF : Nat := 201
def TAG_ENCODED_CBOR : Nat := 24
def TAG_KNOWN_VALUE : Nat := 40000
def TAG_DIGEST : Nat := 40001
def TAG_ENCRYPTED : Nat := 40002
def TAG_COMPRESSED : Nat := 40003

/-- `Digest::tagged_cbor` -/
def digestCbor (d : Digest) : Cbor := .tagged TAG_DIGEST (.bytes d.bytes)

/-- `Digest::try_from(CBOR)` -/
def digestOfCbor? : Cbor → Option Digest
  | .tagged t (.bytes b) => if t == TAG_DIGEST then Digest.ofBytes? b else none
  | _ => none

/-- `EncryptedMessage::opt_digest` -/
def EncMsg.optDigest (m : EncMsg) : Option Digest :=
  match Cbor.dec? m.aad with
  | some c => digestOfCbor? c
  | none => none

/-- `EncryptedMessage::untagged_cbor` -/
def encMsgCbor (m : EncMsg) : Cbor :=
  .array ([.bytes m.ciphertext, .bytes m.nonce, .bytes m.auth] ++
    (if m.aad.isEmpty then [] else [.bytes m.aad]))

/-- `Compressed::untagged_cbor` (digest present) -/
def compMsgCbor (c : CompMsg) (d : Digest) : Cbor :=
  .array [.uint c.checksum, .uint c.size, .bytes c.data, digestCbor d]

mutual
/-- `Envelope::untagged_cbor` -/
def cborOf : Env → Cbor
  | .node s as _ => .array (cborOf s :: cborOfList as)
  | .leaf c _ => .tagged TAG_LEAF c
  | .wrapped e _ => .tagged TAG_ENVELOPE (cborOf e)
  | .assertion p o _ => .map [(cborOf p, cborOf o)]
  | .elided d => .bytes d.bytes
  | .knownValue v _ => .uint v
  | .encrypted m _ => .tagged TAG_ENCRYPTED (encMsgCbor m)
  | .compressed c d => .tagged TAG_COMPRESSED (compMsgCbor c d)
def cborOfList : List Env → List Cbor
  | [] => []
  | a :: as => cborOf a :: cborOfList as
end

/-- `Envelope::tagged_cbor` -/
def taggedCborOf (e : Env) : Cbor := .tagged TAG_ENVELOPE (cborOf e)

/-- `tagged_cbor().to_cbor_data()` -/
def encode (e : Env) : Bytes := (taggedCborOf e).enc

/-- integer extraction as `dcbor`'s `TryFrom<CBOR> for uN` does it, including its
wrap-around on negative input (`(-1 - a) as uN`) -/
def uintOfCbor? (bits : Nat) : Cbor → Option Nat
  | .uint n => if n < 2 ^ bits then some n else none
  | .nint n => if n < 2 ^ bits then some (2 ^ bits - 1 - n) else none
  | _ => none

/-- strictly ascending digests, checked on adjacent elements
(`assertions.windows(2).all(|w| w[0].digest() < w[1].digest())`) -/
def ascAdj : List Env → Bool
  | [] => true
  | [_] => true
  | a :: b :: rest => decide (a.digest.val < b.digest.val) && ascAdj (b :: rest)

section
variable (h : Hash)

/-- `EncryptedMessage::from_untagged_cbor`, the check that the element re-encodes to
itself, and `new_with_encrypted` -/
def decodeEncrypted (item : Cbor) : Res Env :=
  match item with
  | .array [.bytes ct, .bytes nonce, .bytes auth, .bytes aad] =>
    if nonce.length != 12 then .err "dep:nonce-size"
    else if auth.length != 16 then .err "dep:auth-size"
    else if aad.isEmpty then .err "non-canonical-encrypted"
    else
      let m : EncMsg := { ciphertext := ct, nonce := nonce, auth := auth, aad := aad }
      match m.optDigest with
      | some d => .ok (.encrypted m d)
      | none => .err "MissingDigest"
  | .array _ => .err "dep:encrypted-shape"
  | _ => .err "dep:encrypted-not-array"

/-- `Compressed::from_untagged_cbor`, the check that the element re-encodes to itself,
and `new_with_compressed` -/
def decodeCompressed (item : Cbor) : Res Env :=
  match item with
  | .array [.uint c, .uint s, .bytes data, dg] =>
    match digestOfCbor? dg with
    | some d =>
      if !(c < 2 ^ 32) || !(s < 2 ^ 64) then .err "dep:OutOfRange"
      else if data.length > s then .err "dep:compressed-size"
      else .ok (.compressed { checksum := c, size := s, data := data } d)
    | none => .err "dep:WrongType"
  | .array _ => .err "dep:compressed-shape"
  | _ => .err "dep:compressed-shape"

mutual
/-- `Envelope::from_untagged_cbor` -/
def envOfCbor : Cbor → Res Env
  | .tagged t item =>
    if t == TAG_LEAF || t == TAG_ENCODED_CBOR then .ok (newLeaf h item)
    else if t == TAG_ENVELOPE then
      match envOfCbor item with
      | .ok e => .ok (newWrapped h e)
      | .err x => .err x
      | .panic x => .panic x
    else if t == TAG_ENCRYPTED then decodeEncrypted item
    else if t == TAG_COMPRESSED then decodeCompressed item
    else .err "unknown-tag"
  | .bytes b =>
    match Digest.ofBytes? b with
    | some d => .ok (newElided d)
    | none => .err "dep:digest-size"
  | .array xs =>
    match xs with
    | [] => .err "node-arity"
    | [_] => .err "node-arity"
    | x :: rest =>
      match envOfCbor x with
      | .ok s =>
        match envOfCborList rest with
        | .ok as => if ascAdj as then newNode h s as else .err "assertions-not-ascending"
        | .err e => .err e
        | .panic p => .panic p
      | .err e => .err e
      | .panic p => .panic p
  | .map kvs =>
    match kvs with
    | [(k, v)] =>
      match envOfCbor k with
      | .ok p =>
        match envOfCbor v with
        | .ok o => .ok (newAssertion h p o)
        | .err e => .err e
        | .panic p => .panic p
      | .err e => .err e
      | .panic p => .panic p
    | _ => .err "assertion-map-arity"
  | .uint v => .ok (newKnownValue h v)
  | _ => .err "invalid-envelope"
def envOfCborList : List Cbor → Res (List Env)
  | [] => .ok []
  | x :: xs =>
    match envOfCbor x with
    | .ok e =>
      match envOfCborList xs with
      | .ok es => .ok (e :: es)
      | .err e => .err e
      | .panic p => .panic p
    | .err e => .err e
    | .panic p => .panic p
end

/-- `Envelope::from_tagged_cbor` -/
def envOfTaggedCbor : Cbor → Res Env
  | .tagged t item => if t == TAG_ENVELOPE then envOfCbor h item else .err "dep:WrongTag"
  | _ => .err "dep:WrongType"

/-- `Envelope::from_tagged_cbor_data` -/
def decode (b : Bytes) : Res Env :=
  match Cbor.dec b with
  | .ok c => envOfTaggedCbor h c
  | .error e => .err ("cbor:" ++ e.name)

end
end EnvVerif
