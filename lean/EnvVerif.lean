-- This module serves as the root of the `EnvVerif` library.
-- Import modules here that should be built as part of the library.
import EnvVerif.Basic
