-- root of the `EnvVerif` library
import EnvVerif.Model.Interp
import EnvVerif.Model.Inv
import EnvVerif.Lemmas.Basic
import EnvVerif.Props.C01
import EnvVerif.Props.C02
import EnvVerif.Props.C04
import EnvVerif.Props.C05
import EnvVerif.Props.C06
import EnvVerif.Props.C07
