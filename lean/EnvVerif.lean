-- root of the `EnvVerif` library
import EnvVerif.Model.Interp
import EnvVerif.Model.Inv
import EnvVerif.Lemmas.Basic
import EnvVerif.Props.C01
import EnvVerif.Props.C02
import EnvVerif.Props.C04
import EnvVerif.Props.C05
import EnvVerif.Props.C06
import EnvVerif.Props.C07
import EnvVerif.Props.C03
import EnvVerif.Props.C08
import EnvVerif.Props.C12
import EnvVerif.Props.C13
import EnvVerif.Props.C14
import EnvVerif.Props.C15
import EnvVerif.Props.C16
